/-
Helper lemmas for C05 (2/3): the stores a crash can leave behind.
`addPrefix_cases`: after any number of the write transactions of `Add` the store is the old store, the
final store, or (only inside a reorganisation) one of the two relabelled stores
  `s.map (rel1 cfg s x)`  — the old branch above the fork demoted, the new branch still STALE,
  `s.map (rel2 cfg s x)`  — the new branch promoted, the new header not yet inserted.
Each of them is well-formed and structurally valid.
Core Lean only.
-/
import BHS.Proofs.CrashBasic

set_option linter.unusedSectionVars false
set_option linter.unusedVariables false

namespace BHS.Chain
variable {H : Type} [DecidableEq H]

/-! ### prefixes of the write list -/

theorem len_le_one {α : Type} (l : List α) (h : l.length ≤ 1) : l = [] ∨ ∃ a, l = [a] := by
  match l, h with
  | [], _ => exact Or.inl rfl
  | [a], _ => exact Or.inr ⟨a, rfl⟩
  | _ :: _ :: _, h => simp at h

theorem take_cases3 {α : Type} (A B C : List α) (hA : A.length ≤ 1) (hB : B.length ≤ 1) (hC : C.length ≤ 1)
    (k : Nat) : (A ++ B ++ C).take k = [] ∨ (A ++ B ++ C).take k = A ∨ (A ++ B ++ C).take k = A ++ B ∨
      (A ++ B ++ C).take k = A ++ B ++ C := by
  rcases len_le_one A hA with rfl | ⟨a, rfl⟩ <;> rcases len_le_one B hB with rfl | ⟨b, rfl⟩ <;>
    rcases len_le_one C hC with rfl | ⟨c, rfl⟩ <;> rcases k with _ | _ | _ | k <;> simp

theorem applyWrites_append (s : Store H) (a b : List (Write H)) :
    applyWrites s (a ++ b) = applyWrites (applyWrites s a) b := List.foldl_append

theorem applyWrites_optSet (s : Store H) (c : List (Row H)) (st : St) :
    applyWrites s (if c.isEmpty then [] else [Write.setState (c.map (·.hash)) st]) =
      setState s (c.map (·.hash)) st := by
  cases c <;> simp [applyWrites, applyWrite, setState_nil]

theorem setState_eq_relab1 (s : Store H) (hs : List H) : setState s hs .stale = s.map (relab hs []) := by
  rw [← setState_setState, setState_nil]

/-- the first update alone: the old branch is demoted -/
abbrev rel1 (cfg : Cfg H) (s : Store H) (x : Src H) : Row H → Row H := relab (hs1 cfg s x) []

/-- both updates -/
abbrev rel2 (cfg : Cfg H) (s : Store H) (x : Src H) : Row H → Row H := relab (hs1 cfg s x) (hs2 s x)

theorem switch_prefix (s : Store H) (r' : Row H) (k : Nat) :
    applyWrites s ((switchWrites s r' ++ [Write.insert r']).take k) = s ∨
    applyWrites s ((switchWrites s r' ++ [Write.insert r']).take k) =
      s.map (relab ((lcFromHeight s (lowestHeight (staleBackFrom s r'.prev) r'.height)).map (·.hash)) []) ∨
    applyWrites s ((switchWrites s r' ++ [Write.insert r']).take k) =
      s.map (relab ((lcFromHeight s (lowestHeight (staleBackFrom s r'.prev) r'.height)).map (·.hash))
        ((staleBackFrom s r'.prev).map (·.hash))) ∨
    applyWrites s ((switchWrites s r' ++ [Write.insert r']).take k) =
      applyWrites s (switchWrites s r' ++ [Write.insert r']) := by
  unfold switchWrites
  simp only []
  generalize lcFromHeight s _ = conc
  generalize staleBackFrom s r'.prev = stale
  have hA : (if conc.isEmpty then [] else [Write.setState (conc.map (·.hash)) St.stale]).length ≤ 1 := by
    split <;> simp
  have hB : (if stale.isEmpty then [] else [Write.setState (stale.map (·.hash)) St.lc]).length ≤ 1 := by
    split <;> simp
  rcases take_cases3 _ _ [Write.insert r'] hA hB (by simp) k with e | e | e | e <;> rw [e]
  · left; rfl
  · right; left
    rw [applyWrites_optSet, setState_eq_relab1]
  · right; right; left
    rw [applyWrites_append, applyWrites_optSet, applyWrites_optSet, setState_setState]
  · right; right; right; rfl

theorem addPrefix_zero (cfg : Cfg H) (s : Store H) (x : Src H) : addPrefix cfg s x 0 = s := rfl

theorem addPrefix_of_le (cfg : Cfg H) (s : Store H) (x : Src H) {k : Nat} (h : (plan cfg s x).2.length ≤ k) :
    addPrefix cfg s x k = (add cfg s x).1 := by
  unfold addPrefix
  rw [List.take_of_length_le h]
  rfl

/-- `Add` issues at most one write, unless it reorganises -/
theorem plan_branches (cfg : Cfg H) (s : Store H) (x : Src H) :
    (plan cfg s x).2.length ≤ 1 ∨
    (¬ (byHash s (cfg.hashOf x)).isSome = true ∧ cfg.hashOf x ∉ cfg.forbidden ∧
      concurrent s (mkRow cfg s x) = true ∧ ∃ tip, getTip s = some tip ∧ tip.cum < (mkRow cfg s x).cum ∧
        (plan cfg s x).2 = switchWrites s (setSt (mkRow cfg s x) .lc) ++ [Write.insert (setSt (mkRow cfg s x) .lc)]) := by
  by_cases hd : (byHash s (cfg.hashOf x)).isSome = true
  · left; rw [plan_eq, if_pos hd]; exact Nat.zero_le _
  · by_cases hf : cfg.hashOf x ∈ cfg.forbidden
    · left; rw [plan_eq, if_neg hd, if_pos hf]; exact Nat.zero_le _
    · cases hc : concurrent s (mkRow cfg s x) with
      | false =>
        left
        rw [plan_eq, if_neg hd, if_neg hf, if_neg (by rw [hc]; exact Bool.false_ne_true)]
        exact Nat.le_refl _
      | true =>
        cases ht : getTip s with
        | none =>
          left
          have hp : plan cfg s x = (.creationFail, []) := by
            rw [plan_eq, if_neg hd, if_neg hf, if_pos hc, ht]
          rw [hp]; exact Nat.zero_le _
        | some tip =>
          by_cases hlt : tip.cum < (mkRow cfg s x).cum
          · right
            refine ⟨hd, hf, rfl, tip, rfl, hlt, ?_⟩
            have hp : plan cfg s x = (.stored (setSt (mkRow cfg s x) .lc),
                switchWrites s (setSt (mkRow cfg s x) .lc) ++ [Write.insert (setSt (mkRow cfg s x) .lc)]) := by
              rw [plan_eq, if_neg hd, if_neg hf, if_pos hc, ht]
              simp only [hlt, if_true]
            rw [hp]
          · left
            have hp : plan cfg s x = (.stored (setSt (mkRow cfg s x) .stale),
                [Write.insert (setSt (mkRow cfg s x) .stale)]) := by
              rw [plan_eq, if_neg hd, if_neg hf, if_pos hc, ht]
              simp only [hlt, if_false]
            rw [hp]; exact Nat.le_refl _

/-- the stores a kill (or a failed write) can leave behind -/
theorem addPrefix_cases (cfg : Cfg H) (s : Store H) (x : Src H) (k : Nat) :
    addPrefix cfg s x k = s ∨ addPrefix cfg s x k = (add cfg s x).1 ∨
    (¬ (byHash s (cfg.hashOf x)).isSome = true ∧ cfg.hashOf x ∉ cfg.forbidden ∧
      concurrent s (mkRow cfg s x) = true ∧ ∃ tip, getTip s = some tip ∧ tip.cum < (mkRow cfg s x).cum ∧
        (addPrefix cfg s x k = s.map (rel1 cfg s x) ∨ addPrefix cfg s x k = s.map (rel2 cfg s x))) := by
  rcases plan_branches cfg s x with hlen | ⟨hd, hf, hc, tip, ht, hlt, hp⟩
  · cases k with
    | zero => left; rfl
    | succ k => right; left; exact addPrefix_of_le cfg s x (by omega)
  · have key := switch_prefix s (setSt (mkRow cfg s x) .lc) k
    have e : addPrefix cfg s x k =
        applyWrites s ((switchWrites s (setSt (mkRow cfg s x) .lc) ++ [Write.insert (setSt (mkRow cfg s x) .lc)]).take k) := by
      unfold addPrefix; rw [hp]
    have efull : (add cfg s x).1 =
        applyWrites s (switchWrites s (setSt (mkRow cfg s x) .lc) ++ [Write.insert (setSt (mkRow cfg s x) .lc)]) := by
      rw [add_eq, hp]
    rw [← e, ← efull] at key
    rcases key with k1 | k2 | k3 | k4
    · left; exact k1
    · right; right; exact ⟨hd, hf, hc, tip, ht, hlt, Or.inl k2⟩
    · right; right; exact ⟨hd, hf, hc, tip, ht, hlt, Or.inr k3⟩
    · right; left; exact k4

/-! ### the context of a reorganisation -/

/-- everything `plan` found out before it decided to switch chains; `t` is the old tip, `p` the parent of the new header -/
structure Sw (cfg : Cfg H) (s : Store H) (x : Src H) (t p : Row H) : Prop where
  hw : WF cfg s
  ht : t ∈ s
  hl : LcAt s t
  hd : ¬ (byHash s (cfg.hashOf x)).isSome = true
  hf : cfg.hashOf x ∉ cfg.forbidden
  hc : concurrent s (mkRow cfg s x) = true
  hcum : t.cum < (mkRow cfg s x).cum
  hp : p ∈ s
  hbh : byHash s x.prev = some p
  hpe : p.hash = x.prev
  hpc : connected p
  hm : (mkRow cfg s x).height = p.height + 1
  hmc : (mkRow cfg s x).cum = p.cum + work x.bits
  hps : (mkRow cfg s x).st = p.st

theorem Sw.of_inv {cfg : Cfg H} {s : Store H} {x : Src H} (h : Inv cfg s)
    (hd : ¬ (byHash s (cfg.hashOf x)).isSome = true) (hf : cfg.hashOf x ∉ cfg.forbidden)
    (hc : concurrent s (mkRow cfg s x) = true) {tip : Row H} (htip : getTip s = some tip)
    (hlt : tip.cum < (mkRow cfg s x).cum) : ∃ t p, Sw cfg s x t p := by
  obtain ⟨hw, t, ht, hl⟩ := h
  have e := hl.getTip ht
  have : tip = t := by rw [e] at htip; exact (Option.some.inj htip).symm
  subst this
  obtain ⟨p, hp, hbh, hpe, hpc, hm, hmc, hps⟩ := mkRow_par (concurrent_connected hc)
  exact ⟨tip, p, ⟨hw, ht, hl, hd, hf, hc, hlt, hp, hbh, hpe, hpc, hm, hmc, hps⟩⟩

theorem relab_height (hs1 hs2 : List H) (a : Row H) : (relab hs1 hs2 a).height = a.height := by
  rw [relab_fields]; rfl
theorem relab_id (hs1 hs2 : List H) (a : Row H) : (relab hs1 hs2 a).id = a.id := by
  rw [relab_fields]; rfl
theorem relab_prev (hs1 hs2 : List H) (a : Row H) : (relab hs1 hs2 a).prev = a.prev := by
  rw [relab_fields]; rfl
theorem relab_cum (hs1 hs2 : List H) (a : Row H) : (relab hs1 hs2 a).cum = a.cum := by
  rw [relab_fields]; rfl

section sw
variable {cfg : Cfg H} {s : Store H} {x : Src H} {t p : Row H}

theorem Sw.fresh (c : Sw cfg s x t p) : ∀ a ∈ s, a.hash ≠ cfg.hashOf x := byHash_not_isSome c.hd

/-- after the first update the longest-chain rows are the old ones below the switch height -/
theorem WF.rel1_lc_iff (hw : WF cfg s) {a : Row H} (ha : a ∈ s) :
    (rel1 cfg s x a).st = .lc ↔ a.height < lowH cfg s x ∧ a.st = .lc := by
  rw [relab_st_lc, hw.mem_hs1 ha]
  constructor
  · rintro (k | ⟨k1, k2⟩)
    · cases k
    · refine ⟨?_, k2⟩
      apply Nat.lt_of_not_le
      intro hle; exact k1 ⟨hle, k2⟩
  · rintro ⟨k1, k2⟩
    refine Or.inr ⟨?_, k2⟩
    intro hle; omega

theorem WF.rel1_orphan_iff (hw : WF cfg s) {a : Row H} (ha : a ∈ s) :
    (rel1 cfg s x a).st = .orphan ↔ a.st = .orphan := by
  show (relab (hs1 cfg s x) [] a).st = .orphan ↔ a.st = .orphan
  rcases relab_st_cases (hs1 cfg s x) [] a with k | ⟨k1, k2⟩
  · rw [k]
  · have hne : a.st ≠ .orphan := by
      intro ho
      rcases k1 with k1 | k1
      · have := ((hw.mem_hs1 ha).1 k1).2; rw [ho] at this; cases this
      · cases k1
    constructor
    · intro e; rcases k2 with k2 | k2 <;> rw [e] at k2 <;> cases k2
    · intro e; exact absurd e hne

theorem WF.rel1_wf (hw : WF cfg s) (x : Src H) : WF cfg (s.map (rel1 cfg s x)) := by
  apply hw.map
  · intro a _; exact relab_fields _ _ a
  · intro a ha; exact hw.rel1_orphan_iff ha
  · intro a ha h0
    have hr := hw.root_of_id ha h0
    rw [hw.rel1_lc_iff ha]
    have := hw.lowH_pos (cfg := cfg) x
    exact ⟨by omega, hr.1⟩

/-- after the first update: the highest remaining longest-chain row is the top of a structurally valid chain -/
theorem WF.rel1_top (hw : WF cfg s) {t : Row H} (hl : LcS s t) (x : Src H) :
    ∃ t1 ∈ s, LcS (s.map (rel1 cfg s x)) (rel1 cfg s x t1) ∧ t1.st = .lc := by
  obtain ⟨g, hg, hg0, hgl, hgh, _⟩ := hw.root
  have hgl1 : (rel1 cfg s x g).st = .lc := by
    rw [hw.rel1_lc_iff hg]
    have := hw.lowH_pos (cfg := cfg) x
    exact ⟨by omega, hgl⟩
  obtain ⟨t', _, ht', hl', hmax⟩ := getTip_some (List.mem_map.2 ⟨g, hg, rfl⟩) hgl1
  obtain ⟨t1, ht1, rfl⟩ := List.mem_map.1 ht'
  refine ⟨t1, ht1, ?_, ((hw.rel1_lc_iff ht1).1 hl').2⟩
  refine LcS.map _ (fun a _ => relab_fields _ _ a) ht1 hl' ?_ ?_ ?_
  · intro a ha hal
    have := hmax _ (List.mem_map.2 ⟨a, ha, rfl⟩) hal
    rw [relab_height, relab_height] at this
    exact this
  · intro a ha b hb hal hbl e
    exact hl.uniq a ha b hb ((hw.rel1_lc_iff ha).1 hal).2 ((hw.rel1_lc_iff hb).1 hbl).2 e
  · intro a ha hal h0 q hq e
    have ka := (hw.rel1_lc_iff ha).1 hal
    rw [hw.rel1_lc_iff hq]
    obtain ⟨q', hq', e1, _, _, e4, _⟩ := hw.par a ha (connected_of_lc ka.2) h0
    have : q' = q := hw.hash_inj hq' hq (e1.trans e.symm)
    subst this
    exact ⟨by omega, hl.par a ha ka.2 h0 q' hq' e⟩

/-- after both updates: the parent of the new header is the top of a structurally valid chain -/
theorem Sw.rel2_top (c : Sw cfg s x t p) : LcS (s.map (rel2 cfg s x)) (rel2 cfg s x p) := by
  have hsw := (LcAt.switch c.hw c.hl c.hp c.hpc c.hpe c.hm c.fresh c.hcum).toLcS
  refine LcS.of_append_top hsw (List.mem_map.2 ⟨p, c.hp, rfl⟩) ?_ ?_ ?_ ?_
  · rw [relab_hash]; exact c.hpe
  · rw [relab_height]; exact c.hm
  · intro a' ha'
    obtain ⟨a, ha, rfl⟩ := List.mem_map.1 ha'
    rw [relab_hash]; exact c.fresh a ha
  · show s.length ≠ 0
    have := List.length_pos_of_mem c.ht
    omega

theorem Sw.rel2_p_lc (c : Sw cfg s x t p) : (rel2 cfg s x p).st = .lc := c.rel2_top.lc

end sw

/-! ### the final store -/

/-- `add` keeps the structural part of the invariant — for EVERY submission (also a zero-work one) -/
theorem Inv.add_lcS {cfg : Cfg H} {s : Store H} (h : Inv cfg s) (x : Src H) :
    ∃ t' ∈ (Chain.add cfg s x).1, LcS (Chain.add cfg s x).1 t' := by
  obtain ⟨hw, t, ht, hl⟩ := h
  have htip := hl.getTip ht
  have hls := hl.toLcS
  rcases add_cases cfg s x with ⟨_, e⟩ | ⟨_, _, e⟩ | ⟨hd, hf, k⟩
  · rw [e]; exact ⟨t, ht, hls⟩
  · rw [e]; exact ⟨t, ht, hls⟩
  · have fresh := byHash_not_isSome hd
    rcases k with ⟨hc, e⟩ | ⟨_, _, e⟩ | ⟨hc, tip, htip', hcum, e⟩ | ⟨hc, tip, htip', hcum, e⟩
    · rw [e]
      rcases concurrent_false_st hc with hst | hst
      · refine ⟨t, List.mem_append_left _ ht, hls.append_nonlc hw _ ?_ fresh⟩
        rw [hst]; intro k; cases k
      · obtain ⟨p, hp, _, hpe, hpc, hm, hmc, hps⟩ := mkRow_par (connected_of_lc hst)
        have hpl : p.st = .lc := by rw [← hps]; exact hst
        have hnone := concurrent_false_lc hc hst fresh
        have hpt : p = t := by
          have h1 := hl.top p hp hpl
          apply hl.uniq p hp t ht hpl hl.lc
          apply Nat.le_antisymm h1
          apply Nat.le_of_not_lt
          intro hlt
          obtain ⟨a, ha, hal, hah⟩ := hw.lc_contiguous hl.par ht hl.lc (k := p.height + 1) (by omega)
          exact hnone a ha hal (by rw [hah, hm])
        subst hpt
        exact ⟨_, List.mem_append_right _ (List.mem_singleton.2 rfl),
          hls.append_top hw ht _ hst fresh hpe hm⟩
    · rw [e]; exact ⟨t, ht, hls⟩
    · rw [e]
      refine ⟨t, List.mem_append_left _ ht, hls.append_nonlc hw _ ?_ fresh⟩
      intro k; cases k
    · rw [e]
      rw [htip] at htip'; cases htip'
      obtain ⟨p, hp, _, hpe, hpc, hm, _, _⟩ := mkRow_par (concurrent_connected hc)
      exact ⟨_, List.mem_append_right _ (List.mem_singleton.2 rfl),
        (LcAt.switch hw hl hp hpc hpe hm fresh hcum).toLcS⟩

/-- whatever write boundary the process is killed at, the store is structurally valid -/
theorem Inv.addPrefix_struct {cfg : Cfg H} {s : Store H} (h : Inv cfg s) (x : Src H) {g : Row H} (hg : g ∈ s)
    (hg0 : g.id = 0) (hz : ∀ y, cfg.hashOf y ≠ g.prev) (k : Nat) : StructValid (addPrefix cfg s x k) := by
  rcases addPrefix_cases cfg s x k with e | e | ⟨hd, hf, hc, tip, htip, hlt, e⟩
  · rw [e]
    obtain ⟨hw, t, ht, hl⟩ := h
    exact hl.toLcS.structValid hw ht
  · rw [e]
    obtain ⟨t', ht', hl'⟩ := h.add_lcS x
    exact hl'.structValid (h.1.add_wf x hg hg0 hz) ht'
  · obtain ⟨t, p, c⟩ := Sw.of_inv h hd hf hc htip hlt
    rcases e with e | e <;> rw [e]
    · obtain ⟨t1, ht1, hl1, _⟩ := c.hw.rel1_top c.hl.toLcS x
      exact hl1.structValid (c.hw.rel1_wf x) (List.mem_map.2 ⟨t1, ht1, rfl⟩)
    · exact c.rel2_top.structValid (c.hw.relab_wf x) (List.mem_map.2 ⟨p, c.hp, rfl⟩)

end BHS.Chain
