/-
Helper lemmas for Props/MerkleRootsGen.lean: what the primitives of BHS/Model/MerkleRootsPrim.lean compute on the
shapes the regenerated listing uses them on (a slice filled position by position, the last element of a slice),
and the per-function characterisations of the SQL-layer and repository functions of BHS/Gen/MerkleRoots.lean.
Core Lean only.
-/
import BHS.Gen.MerkleRoots
import BHS.Proofs.QueryPage

set_option linter.unusedSectionVars false
set_option linter.unusedSimpArgs false

namespace BHS.Proofs.MerkleRootsGen
open BHS BHS.Chain BHS.MerkleRootsPrim BHS.Gen.MerkleRoots
variable {H : Type} [DecidableEq H]

/-- the Go error value of a hand-model error -/
def errOf : PageErr → Err
  | .notFound => .bhs "ErrMerklerootNotFound"
  | .notLc => .bhs "ErrMerklerootNotInLongestChain"
  | .noTip => .new "could not find tip"

/-- one entry of the page content: the row's merkle root (as a non-empty string) and height -/
def respOf (r : Row H) : RootResp H := ⟨some r.merkle, (r.height : Int)⟩

/-! ### slices -/

theorem modifyAt_mid {α : Type} (pre : List α) (a : α) (post : List α) (g : α → α) :
    modifyAt (pre ++ a :: post) (pre.length : Int) g = .ok (pre ++ g a :: post) := by
  unfold modifyAt
  have h0 : ¬ ((pre.length : Int) < 0) := by omega
  simp [h0, pure, Except.pure]

theorem index_last {α : Type} {xs : List α} {a : α} (h : xs.getLast? = some a) :
    index xs ((xs.length : Int) - 1) = .ok a := by
  obtain ⟨ys, rfl⟩ := List.getLast?_eq_some_iff.1 h
  unfold index
  have h0 : ¬ (((ys ++ [a]).length : Int) - 1 < 0) := by
    simp only [List.length_append, List.length_singleton]; omega
  have h1 : (((ys ++ [a]).length : Int) - 1).toNat = ys.length := by
    simp only [List.length_append, List.length_singleton]; omega
  simp [h0, h1, pure, Except.pure]

theorem index_zero {α : Type} (a : α) (xs : List α) : index (a :: xs) 0 = .ok a := by
  simp [index, pure, Except.pure]

/-- a loop whose body writes `respOf x` into position `i` of the content fills the content made by `make` -/
theorem forRangeFrom_fill {f : Int → Row H → PagedResp H → Except Fault (PagedResp H)}
    (hf : ∀ (pre : List (RootResp H)) (x : Row H) (post : List (RootResp H)) (pg : PageInfo H),
      f (pre.length : Int) x ⟨pre ++ ⟨none, 0⟩ :: post, pg⟩ = .ok ⟨pre ++ respOf x :: post, pg⟩)
    (xs : List (Row H)) (pre : List (RootResp H)) (pg : PageInfo H) :
    forRangeFrom f (pre.length : Int) xs ⟨pre ++ List.replicate xs.length ⟨none, 0⟩, pg⟩ =
      .ok ⟨pre ++ xs.map respOf, pg⟩ := by
  induction xs generalizing pre with
  | nil => simp [forRangeFrom, pure, Except.pure]
  | cons x xs ih =>
    have h1 : ((pre.length : Int) + 1) = ((pre ++ [respOf x]).length : Int) := by
      simp only [List.length_append, List.length_singleton]; omega
    have := ih (pre ++ [respOf x])
    simp only [List.append_assoc, List.singleton_append] at this
    simp only [forRangeFrom, List.length_cons, List.replicate_succ, hf, bind, Except.bind, h1, List.map_cons]
    rw [← h1] at this ⊢
    exact this

theorem forRange_fill {f : Int → Row H → PagedResp H → Except Fault (PagedResp H)}
    (hf : ∀ (pre : List (RootResp H)) (x : Row H) (post : List (RootResp H)) (pg : PageInfo H),
      f (pre.length : Int) x ⟨pre ++ ⟨none, 0⟩ :: post, pg⟩ = .ok ⟨pre ++ respOf x :: post, pg⟩)
    (xs : List (Row H)) (pg : PageInfo H) :
    forRange xs ⟨makeRootResps (xs.length : Int), pg⟩ f = .ok ⟨xs.map respOf, pg⟩ := by
  have := forRangeFrom_fill hf xs [] pg
  simpa [forRange, makeRootResps] using this

end BHS.Proofs.MerkleRootsGen
