/-
Helper lemmas for C04 (1/3): the set-valued chain queries of BHS/Model/Query.lean
(`byHeightRange`, `lcAsc`, `allTips`) and generic facts about `Option`-valued `List.mapM`.
Everything lives in the namespace `BHS.QueryTree` (no clash with other proof libraries about `lcAsc`).
Core Lean only.
-/
import BHS.Model.Query
import BHS.Proofs.ChainLc

set_option linter.unusedSectionVars false

namespace BHS.QueryTree
open BHS BHS.Chain
variable {H : Type} [DecidableEq H]

/-! ### `sortByHeight` is a sorted permutation -/

theorem mem_insertByHeight {r x : Row H} : ∀ {l : List (Row H)}, x ∈ insertByHeight r l ↔ x = r ∨ x ∈ l
  | [] => by simp [insertByHeight]
  | a :: l => by
    unfold insertByHeight
    split
    · simp only [List.mem_cons]
    · rw [List.mem_cons, mem_insertByHeight (l := l), List.mem_cons]
      constructor
      · rintro (h | h | h)
        · exact Or.inr (Or.inl h)
        · exact Or.inl h
        · exact Or.inr (Or.inr h)
      · rintro (h | h | h)
        · exact Or.inr (Or.inl h)
        · exact Or.inl h
        · exact Or.inr (Or.inr h)

theorem mem_sortByHeight {x : Row H} : ∀ {l : List (Row H)}, x ∈ sortByHeight l ↔ x ∈ l
  | [] => by simp [sortByHeight]
  | a :: l => by
    show x ∈ insertByHeight a (sortByHeight l) ↔ _
    rw [mem_insertByHeight, mem_sortByHeight (l := l), List.mem_cons]

/-- ascending by height -/
def Asc (l : List (Row H)) : Prop := l.Pairwise (fun a b => a.height ≤ b.height)

theorem asc_insertByHeight {r : Row H} : ∀ {l : List (Row H)}, Asc l → Asc (insertByHeight r l)
  | [], _ => by simp [insertByHeight, Asc]
  | a :: l, h => by
    unfold insertByHeight
    unfold Asc at h ⊢
    have h' := List.pairwise_cons.1 h
    split
    · rename_i hlt
      refine List.pairwise_cons.2 ⟨?_, h⟩
      intro b hb
      rcases List.mem_cons.1 hb with rfl | hb
      · omega
      · have := h'.1 b hb; omega
    · rename_i hnlt
      refine List.pairwise_cons.2 ⟨?_, asc_insertByHeight (l := l) h'.2⟩
      intro b hb
      rcases mem_insertByHeight.1 hb with rfl | hb
      · omega
      · exact h'.1 b hb

theorem asc_sortByHeight : ∀ (l : List (Row H)), Asc (sortByHeight l)
  | [] => by simp [sortByHeight, Asc]
  | a :: l => by
    show Asc (insertByHeight a (sortByHeight l))
    exact asc_insertByHeight (asc_sortByHeight l)

/-- the last element of an ascending list is a highest one -/
theorem asc_getLast {l : List (Row H)} {y : Row H} (hs : Asc l) (e : l.getLast? = some y) :
    y ∈ l ∧ ∀ x ∈ l, x.height ≤ y.height := by
  obtain ⟨ys, rfl⟩ := List.getLast?_eq_some_iff.1 e
  unfold Asc at hs
  rw [List.pairwise_append] at hs
  refine ⟨by simp, ?_⟩
  intro x hx
  rcases List.mem_append.1 hx with hx | hx
  · exact hs.2.2 x hx y (by simp)
  · have : x = y := by simpa using hx
    rw [this]; exact Nat.le_refl _

/-! ### `lcAsc` -/

theorem mem_lcAsc {s : Store H} {x : Row H} : x ∈ lcAsc s ↔ x ∈ s ∧ x.st = .lc := by
  unfold lcAsc
  rw [mem_sortByHeight, List.mem_filter, decide_eq_true_eq]

/-- the highest longest-chain row is the last row of `lcAsc` -/
theorem lcAsc_getLast {s : Store H} {t : Row H} (ht : t ∈ s) (hl : LcAt s t) :
    (lcAsc s).getLast? = some t := by
  cases e : (lcAsc s).getLast? with
  | none =>
    have hnil := List.getLast?_eq_none_iff.1 e
    have : t ∈ lcAsc s := mem_lcAsc.2 ⟨ht, hl.lc⟩
    rw [hnil] at this; cases this
  | some y =>
    obtain ⟨hy, hmax⟩ := asc_getLast (asc_sortByHeight _) e
    have hy' := mem_lcAsc.1 hy
    have h1 := hmax t (mem_lcAsc.2 ⟨ht, hl.lc⟩)
    have h2 := hl.top y hy'.1 hy'.2
    rw [hl.uniq y hy'.1 t ht hy'.2 hl.lc (by omega)]

/-! ### `byHeightRange` -/

theorem mem_byHeightRange {s : Store H} {lo hi : Int} {r : Row H} :
    r ∈ byHeightRange s lo hi ↔ r ∈ s ∧ lo ≤ (r.height : Int) ∧ (r.height : Int) ≤ hi := by
  unfold byHeightRange
  rw [List.mem_filter, decide_eq_true_eq]

/-! ### `allTips` -/

theorem mem_allTips {s : Store H} {t : Row H} (e : (lcAsc s).getLast? = some t) {r : Row H} :
    r ∈ allTips s ↔
      r = t ∨ (r ∈ s ∧ r.st ≠ .lc ∧ ¬ ∃ c ∈ s, c.st ≠ .lc ∧ c.prev = r.hash) := by
  unfold allTips
  simp only [e, List.mem_append, List.mem_singleton, List.mem_filter, decide_eq_true_eq, List.mem_map]
  constructor
  · rintro (h | ⟨h1, h2, h3⟩)
    · exact Or.inl h
    · refine Or.inr ⟨h1, h2, ?_⟩
      rintro ⟨c, hc, hcs, hcp⟩
      exact h3 ⟨c, ⟨hc, hcs⟩, hcp⟩
  · rintro (h | ⟨h1, h2, h3⟩)
    · exact Or.inl h
    · refine Or.inr ⟨h1, h2, ?_⟩
      rintro ⟨c, ⟨hc, hcs⟩, hcp⟩
      exact h3 ⟨c, hc, hcs, hcp⟩

/-- under the chain invariant a longest-chain row's parent is on the longest chain: a row that is
    not on the longest chain has no longest-chain child -/
theorem nonlc_child_nonlc {cfg : Cfg H} {s : Store H} (hw : WF cfg s) {t : Row H} (hl : LcAt s t)
    {r c : Row H} (hr : r ∈ s) (hc : c ∈ s) (hst : r.st ≠ .lc) (e : c.prev = r.hash) : c.st ≠ .lc := by
  intro hcl
  by_cases h0 : c.id = 0
  · exact (hw.root_of_id hc h0).2.2 r hr e.symm
  · exact hst (hl.par c hc hcl h0 r hr e.symm)

/-! ### `Option`-valued `mapM` -/

theorem mapM_cons_some {α β : Type} (f : α → Option β) (a : α) (l : List α) :
    (a :: l).mapM f = (match f a with
      | none => none
      | some b => match l.mapM f with
        | none => none
        | some bs => some (b :: bs)) := by
  rw [List.mapM_cons]
  cases f a with
  | none => rfl
  | some b =>
    cases l.mapM f with
    | none => rfl
    | some bs => rfl

/-- what a successful `mapM` returns -/
theorem mapM_some {α β : Type} (f : α → Option β) : ∀ (l : List α) (l' : List β), l.mapM f = some l' →
    (∀ y ∈ l', ∃ x ∈ l, f x = some y) ∧ (∀ x ∈ l, ∃ y ∈ l', f x = some y) ∧ l'.length = l.length
  | [], l', e => by
    rw [List.mapM_nil] at e
    have : l' = [] := by cases e; rfl
    subst this
    exact ⟨fun y hy => (by cases hy), fun x hx => (by cases hx), rfl⟩
  | a :: l, l', e => by
    rw [mapM_cons_some] at e
    cases hb : f a with
    | none => rw [hb] at e; cases e
    | some b =>
      rw [hb] at e
      cases hbs : l.mapM f with
      | none => rw [hbs] at e; cases e
      | some bs =>
        rw [hbs] at e
        have : l' = b :: bs := by cases e; rfl
        subst this
        obtain ⟨h1, h2, h3⟩ := mapM_some f l bs hbs
        refine ⟨?_, ?_, by simp [h3]⟩
        · intro y hy
          rcases List.mem_cons.1 hy with rfl | hy
          · exact ⟨a, List.mem_cons_self, hb⟩
          · obtain ⟨x, hx, k⟩ := h1 y hy
            exact ⟨x, List.mem_cons_of_mem _ hx, k⟩
        · intro x hx
          rcases List.mem_cons.1 hx with rfl | hx
          · exact ⟨b, List.mem_cons_self, hb⟩
          · obtain ⟨y, hy, k⟩ := h2 x hx
            exact ⟨y, List.mem_cons_of_mem _ hy, k⟩

theorem mapM_exists {α β : Type} (f : α → Option β) : ∀ (l : List α), (∀ x ∈ l, ∃ y, f x = some y) →
    ∃ l', l.mapM f = some l'
  | [], _ => ⟨[], by rw [List.mapM_nil]; rfl⟩
  | a :: l, h => by
    obtain ⟨b, hb⟩ := h a List.mem_cons_self
    obtain ⟨bs, hbs⟩ := mapM_exists f l (fun x hx => h x (List.mem_cons_of_mem _ hx))
    exact ⟨b :: bs, by rw [mapM_cons_some, hb, hbs]⟩

theorem mapM_none {α β : Type} (f : α → Option β) : ∀ (l : List α) (x : α), x ∈ l → f x = none →
    l.mapM f = none
  | [], _, hx, _ => by cases hx
  | a :: l, x, hx, e => by
    rw [mapM_cons_some]
    rcases List.mem_cons.1 hx with rfl | hx
    · rw [e]
    · cases f a with
      | none => rfl
      | some b => rw [mapM_none f l x hx e]

/-- looking up the hashes of stored rows returns the rows -/
theorem mapM_byHash {s : Store H} (hn : (s.map (·.hash)).Nodup) : ∀ (rows : List (Row H)),
    (∀ r ∈ rows, r ∈ s) → (rows.map (·.hash)).mapM (byHash s) = some rows
  | [], _ => by rw [List.map_nil, List.mapM_nil]; rfl
  | a :: l, h => by
    rw [List.map_cons, mapM_cons_some, byHash_mem hn (h a List.mem_cons_self),
      mapM_byHash hn l (fun r hr => h r (List.mem_cons_of_mem _ hr))]

end BHS.QueryTree
