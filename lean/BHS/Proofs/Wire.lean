/-
Helper lemmas for the wire model (C14): reader calculus (result component `.2`, allocation
meter `.1`), primitive round trips (put then get) in rewriting form. Core Lean only.
-/
import BHS.Model.Wire

namespace BHS.Wire
open BHS.Gen BHS.Gen.WireC

/-! ## reader calculus -/

theorem bind_apply (m : Rd α) (f : α → Rd β) (b : Bytes) :
    (m >>= f) b = match m b with
      | (al, .error e) => (al, .error e)
      | (al, .ok (a, b')) => (al ++ (f a b').1, (f a b').2) := rfl

theorem pure_apply (a : α) (b : Bytes) : (pure a : Rd α) b = ([], .ok (a, b)) := rfl
theorem fail_apply (e : Err) (b : Bytes) : (Rd.fail e : Rd α) b = ([], .error e) := rfl
theorem alloc_apply (n : Nat) (b : Bytes) : Rd.alloc n b = ([n], .ok ((), b)) := rfl
theorem allocs_apply (l : List Nat) (b : Bytes) : Rd.allocs l b = (l, .ok ((), b)) := rfl
theorem remaining_apply (b : Bytes) : Rd.remaining b = ([], .ok (b.length, b)) := rfl

/-- result of a bind when the first reader succeeds -/
theorem bind_snd_ok {m : Rd α} {f : α → Rd β} {b : Bytes} {a b'} (h : (m b).2 = .ok (a, b')) :
    ((m >>= f) b).2 = (f a b').2 := by
  rw [bind_apply]
  cases hm : m b with
  | mk al res => rw [hm] at h; simp only at h; subst h; rfl

theorem bind_snd_err {m : Rd α} {f : α → Rd β} {b : Bytes} {e} (h : (m b).2 = .error e) :
    ((m >>= f) b).2 = .error e := by
  rw [bind_apply]
  cases hm : m b with
  | mk al res => rw [hm] at h; simp only at h; subst h; rfl

/-- inversion: a successful bind went through a successful first reader -/
theorem bind_snd_inv {m : Rd α} {f : α → Rd β} {b : Bytes} {c r} (h : ((m >>= f) b).2 = .ok (c, r)) :
    ∃ a b', (m b).2 = .ok (a, b') ∧ (f a b').2 = .ok (c, r) := by
  rw [bind_apply] at h
  cases hm : m b with
  | mk al res =>
    rw [hm] at h
    cases res with
    | error e => simp at h
    | ok v => exact ⟨v.1, v.2, rfl, h⟩

/-- allocation meter of a bind -/
theorem bind_fst (m : Rd α) (f : α → Rd β) (b : Bytes) :
    ((m >>= f) b).1 = (m b).1 ++ (match (m b).2 with | .ok (a, b') => (f a b').1 | .error _ => []) := by
  rw [bind_apply]
  cases hm : m b with
  | mk al res =>
    cases res with
    | error e => simp
    | ok v => rfl

theorem pure_snd (a : α) (b : Bytes) : ((pure a : Rd α) b).2 = .ok (a, b) := rfl
theorem fail_snd (e : Err) (b : Bytes) : ((Rd.fail e : Rd α) b).2 = .error e := rfl

theorem remaining_bind (f : Nat → Rd β) (b : Bytes) : ((Rd.remaining >>= f) b).2 = (f b.length b).2 :=
  bind_snd_ok (m := Rd.remaining) rfl

/-! ## fixed-width integers: put then get -/

theorem get8_put8 (n : Nat) (h : n < 2^8) (r : Bytes) : (get8 (put8 n ++ r)).2 = .ok (n, r) := by
  simp only [get8, put8, List.cons_append, List.nil_append, UInt8.toNat_ofNat']
  have : n % 2^8 = n := by omega
  rw [this]

theorem get16le_put16le (n : Nat) (h : n < 2^16) (r : Bytes) : (get16le (put16le n ++ r)).2 = .ok (n, r) := by
  simp only [get16le, put16le, List.cons_append, List.nil_append, UInt8.toNat_ofNat']
  have : n % 2^8 + 2^8 * (n / 2^8 % 2^8) = n := by omega
  rw [this]

theorem get16be_put16be (n : Nat) (h : n < 2^16) (r : Bytes) : (get16be (put16be n ++ r)).2 = .ok (n, r) := by
  simp only [get16be, put16be, List.cons_append, List.nil_append, UInt8.toNat_ofNat']
  have : n % 2^8 + 2^8 * (n / 2^8 % 2^8) = n := by omega
  rw [this]

theorem get32le_put32le (n : Nat) (h : n < 2^32) (r : Bytes) : (get32le (put32le n ++ r)).2 = .ok (n, r) := by
  simp only [get32le, put32le, List.cons_append, List.nil_append, UInt8.toNat_ofNat']
  have : n % 2^8 + 2^8 * (n / 2^8 % 2^8) + 2^16 * (n / 2^16 % 2^8) + 2^24 * (n / 2^24 % 2^8) = n := by omega
  rw [this]

theorem get64le_put64le (n : Nat) (h : n < 2^64) (r : Bytes) : (get64le (put64le n ++ r)).2 = .ok (n, r) := by
  simp only [get64le, put64le, List.cons_append, List.nil_append, UInt8.toNat_ofNat']
  have : n % 2^8 + 2^8 * (n / 2^8 % 2^8) + 2^16 * (n / 2^16 % 2^8) + 2^24 * (n / 2^24 % 2^8) +
      2^32 * (n / 2^32 % 2^8) + 2^40 * (n / 2^40 % 2^8) + 2^48 * (n / 2^48 % 2^8) + 2^56 * (n / 2^56 % 2^8) = n := by omega
  rw [this]

theorem getBytes_append (x : Bytes) (n : Nat) (h : x.length = n) (r : Bytes) :
    (getBytes n (x ++ r)).2 = .ok (x, r) := by
  subst h
  simp [getBytes]

/-! rewriting forms: `get` followed by a continuation, on `put v ++ rest` -/

theorem get8_bind (n : Nat) (h : n < 2^8) (f : Nat → Rd β) (r : Bytes) :
    ((get8 >>= f) (put8 n ++ r)).2 = (f n r).2 := bind_snd_ok (get8_put8 n h r)
theorem get16be_bind (n : Nat) (h : n < 2^16) (f : Nat → Rd β) (r : Bytes) :
    ((get16be >>= f) (put16be n ++ r)).2 = (f n r).2 := bind_snd_ok (get16be_put16be n h r)
theorem get32le_bind (n : Nat) (h : n < 2^32) (f : Nat → Rd β) (r : Bytes) :
    ((get32le >>= f) (put32le n ++ r)).2 = (f n r).2 := bind_snd_ok (get32le_put32le n h r)
theorem get64le_bind (n : Nat) (h : n < 2^64) (f : Nat → Rd β) (r : Bytes) :
    ((get64le >>= f) (put64le n ++ r)).2 = (f n r).2 := bind_snd_ok (get64le_put64le n h r)
theorem getBytes_bind (x : Bytes) (n : Nat) (h : x.length = n) (f : Bytes → Rd β) (r : Bytes) :
    ((getBytes n >>= f) (x ++ r)).2 = (f x r).2 := bind_snd_ok (getBytes_append x n h r)

/-! ## var-int -/

theorem getVarInt_putVarInt (n : Nat) (h : n < 2^64) (r : Bytes) :
    (getVarInt (putVarInt n ++ r)).2 = .ok (n, r) := by
  unfold putVarInt getVarInt
  split
  · rw [get8_bind n (by omega)]
    have h1 : ¬ n = 0xff := by omega
    have h2 : ¬ n = 0xfe := by omega
    have h3 : ¬ n = 0xfd := by omega
    simp only [h1, h2, h3, if_false, pure_snd]
  · split
    · have e : (0xfd : UInt8) :: put16le n ++ r = put8 0xfd ++ (put16le n ++ r) := rfl
      rw [e, get8_bind 0xfd (by omega)]
      simp only [show ¬ (0xfd:Nat) = 0xff by decide, show ¬ (0xfd:Nat) = 0xfe by decide, if_false, if_true]
      rw [bind_snd_ok (get16le_put16le n (by omega) r)]
      have : ¬ n < 0xfd := by omega
      simp only [this, if_false, pure_snd]
    · split
      · have e : (0xfe : UInt8) :: put32le n ++ r = put8 0xfe ++ (put32le n ++ r) := rfl
        rw [e, get8_bind 0xfe (by omega)]
        simp only [show ¬ (0xfe:Nat) = 0xff by decide, if_false, if_true]
        rw [bind_snd_ok (get32le_put32le n (by omega) r)]
        have : ¬ n < 0x10000 := by omega
        simp only [this, if_false, pure_snd]
      · have e : (0xff : UInt8) :: put64le n ++ r = put8 0xff ++ (put64le n ++ r) := rfl
        rw [e, get8_bind 0xff (by omega)]
        simp only [if_true]
        rw [bind_snd_ok (get64le_put64le n h r)]
        have : ¬ n < 0x100000000 := by omega
        simp only [this, if_false, pure_snd]

theorem getVarInt_bind (n : Nat) (h : n < 2^64) (f : Nat → Rd β) (r : Bytes) :
    ((getVarInt >>= f) (putVarInt n ++ r)).2 = (f n r).2 := bind_snd_ok (getVarInt_putVarInt n h r)

theorem guardAlloc_bind (n max unit : Nat) (e : Err) (h : n ≤ max) (f : Unit → Rd β) (b : Bytes) :
    ((guardAlloc n max unit e >>= f) b).2 = (f () b).2 := by
  apply bind_snd_ok
  unfold guardAlloc
  rw [if_neg (by omega)]
  rfl

theorem getVarBytes_putVarBytes (max : Nat) (s : Bytes) (h : s.length ≤ max) (h64 : s.length < 2^64) (r : Bytes) :
    (getVarBytes max (putVarBytes s ++ r)).2 = .ok (s, r) := by
  unfold getVarBytes putVarBytes
  rw [List.append_assoc, getVarInt_bind _ h64, guardAlloc_bind _ _ _ _ h]
  exact getBytes_append s _ rfl r

theorem getVarBytes_bind (max : Nat) (s : Bytes) (h : s.length ≤ max) (h64 : s.length < 2^64) (f : Bytes → Rd β) (r : Bytes) :
    ((getVarBytes max >>= f) (putVarBytes s ++ r)).2 = (f s r).2 :=
  bind_snd_ok (getVarBytes_putVarBytes max s h h64 r)

/-! ## lists -/

theorem getMany_flatMap (g : Rd α) (p : α → Bytes) (xs : List α) (r : Bytes)
    (h : ∀ x ∈ xs, ∀ r', (g (p x ++ r')).2 = .ok (x, r')) :
    (getMany g xs.length (xs.flatMap p ++ r)).2 = .ok (xs, r) := by
  induction xs with
  | nil => rfl
  | cons x xs ih =>
    simp only [List.length_cons, getMany, List.flatMap_cons, List.append_assoc]
    rw [bind_snd_ok (h x (List.mem_cons_self ..) _)]
    rw [bind_snd_ok (ih (fun y hy => h y (List.mem_cons_of_mem _ hy)))]
    rfl

theorem getMany_bind (g : Rd α) (p : α → Bytes) (xs : List α) (n : Nat) (hn : xs.length = n) (f : List α → Rd β) (r : Bytes)
    (h : ∀ x ∈ xs, ∀ r', (g (p x ++ r')).2 = .ok (x, r')) :
    ((getMany g n >>= f) (xs.flatMap p ++ r)).2 = (f xs r).2 := by
  subst hn
  exact bind_snd_ok (getMany_flatMap g p xs r h)

/-! ## composite values -/

theorem getInvVect_put (iv : InvVect) (h : WFInv iv) (r : Bytes) :
    (getInvVect (putInvVect iv ++ r)).2 = .ok (iv, r) := by
  obtain ⟨h1, h2⟩ := h
  simp (disch := assumption) only [getInvVect, putInvVect, List.append_assoc, get32le_bind, getBytes_bind, pure_snd]

theorem getBlockHeader_put (h : BlockHeader) (wf : WFHeader h) (r : Bytes) :
    (getBlockHeader (putBlockHeader h ++ r)).2 = .ok (h, r) := by
  obtain ⟨h1, h2, h3, h4, h5, h6⟩ := wf
  simp (disch := assumption) only [getBlockHeader, putBlockHeader, List.append_assoc, get32le_bind, getBytes_bind, pure_snd]

theorem getHeaderElem_put (h : BlockHeader) (wf : WFHeader h) (r : Bytes) :
    (getHeaderElem (putHeaderElem h ++ r)).2 = .ok (h, r) := by
  unfold getHeaderElem putHeaderElem
  rw [List.append_assoc, bind_snd_ok (getBlockHeader_put h wf _), getVarInt_bind 0 (by decide)]
  rfl

theorem getHash_put (h : Bytes) (wf : h.length = 32) (r : Bytes) : (getHash (putHash h ++ r)).2 = .ok (h, r) :=
  getBytes_append h 32 wf r

theorem ip16_of_len (ip : Bytes) (h : ip.length = 16) : ip16 ip = ip := by
  unfold ip16; rw [if_pos h]

theorem getNetAddr_put (pver : Nat) (ts : Bool) (na : NetAddr) (wf : WFNetAddr pver ts na) (r : Bytes) :
    (getNetAddr pver ts (putNetAddr pver ts na ++ r)).2 = .ok (na, r) := by
  obtain ⟨h1, h2, h3, h4⟩ := wf
  unfold getNetAddr putNetAddr
  rw [ip16_of_len _ h2]
  cases hts : hasTs pver ts
  · rw [hts] at h4
    simp only [Bool.false_eq_true, if_false] at h4 ⊢
    rw [List.nil_append, bind_snd_ok (pure_snd _ _)]
    simp (disch := assumption) only [List.append_assoc, get64le_bind, getBytes_bind, get16be_bind, pure_snd]
    rw [← h4]
  · rw [hts] at h4
    simp only [if_true] at h4 ⊢
    simp (disch := assumption) only [List.append_assoc, get32le_bind, get64le_bind, getBytes_bind, get16be_bind, pure_snd]

/-! ## more reader calculus -/

theorem rd_bind_assoc (m : Rd α) (f : α → Rd β) (g : β → Rd γ) :
    ((m >>= f) >>= g) = (m >>= fun a => f a >>= g) := by
  funext b
  simp only [bind_apply]
  cases hm : m b with
  | mk al res =>
    cases res with
    | error e => rfl
    | ok v =>
      simp only
      cases hf : f v.1 v.2 with
      | mk al2 res2 =>
        cases res2 with
        | error e => simp
        | ok w => simp

/-- `if buf.Len() > 0 { read }` on a non-empty buffer -/
theorem remaining_pos_bind (g h : Rd α) (k : α → Rd β) (b : Bytes) (hb : b ≠ []) :
    ((Rd.remaining >>= fun r => (if r > 0 then g else h) >>= k) b).2 = ((g >>= k) b).2 := by
  rw [remaining_bind]
  have : b.length > 0 := by cases b with | nil => exact absurd rfl hb | cons => simp
  rw [if_pos this]

theorem remaining_zero_bind (g h : Rd α) (k : α → Rd β) :
    ((Rd.remaining >>= fun r => (if r > 0 then g else h) >>= k) []).2 = ((h >>= k) []).2 := by
  rw [remaining_bind]; rfl

theorem put32le_ne_nil (n : Nat) (r : Bytes) : put32le n ++ r ≠ [] := by simp [put32le]
theorem put64le_ne_nil (n : Nat) (r : Bytes) : put64le n ++ r ≠ [] := by simp [put64le]
theorem putVarInt_ne_nil (n : Nat) (r : Bytes) : putVarInt n ++ r ≠ [] := by
  unfold putVarInt; split
  · simp [put8]
  · split
    · simp
    · split <;> simp
theorem putNetAddr_ne_nil (pver : Nat) (ts : Bool) (na : NetAddr) (r : Bytes) : putNetAddr pver ts na ++ r ≠ [] := by
  unfold putNetAddr; cases hasTs pver ts <;> simp [put64le, put32le]

/-! ## payload decoders on their encodings -/

theorem decodePayload_of_snd {gmax pver t bs m r} (h : (decodeRd gmax pver t bs).2 = .ok (m, r)) :
    decodePayload gmax pver t bs = .ok m := by
  unfold decodePayload; rw [h]

theorem lim64 : maxInvPerMsg < 2^64 ∧ maxBlockHeadersPerMsg < 2^64 ∧ maxBlockLocatorsPerMsg < 2^64 ∧ maxAddrPerMsg < 2^64 ∧ maxUserAgentLen < 2^64 := by decide

theorem decInvList_enc (l : List InvVect) (wf : WFInvList l) (r : Bytes) :
    (decInvList (putVarInt l.length ++ l.flatMap putInvVect ++ r)).2 = .ok (l, r) := by
  obtain ⟨h1, h2⟩ := wf
  unfold decInvList
  rw [List.append_assoc, getVarInt_bind _ (by have := lim64; omega), guardAlloc_bind _ _ _ _ h1]
  exact getMany_flatMap _ _ l r (fun x hx r' => getInvVect_put x (h2 x hx) r')

theorem decLocator_enc (mk : Nat → List Bytes → Bytes → Msg) (pv : Nat) (loc : List Bytes) (stop : Bytes) (wf : WFLocator pv loc stop) (r : Bytes) :
    (decLocator mk (put32le pv ++ putVarInt loc.length ++ loc.flatMap putHash ++ putHash stop ++ r)).2 = .ok (mk pv loc stop, r) := by
  obtain ⟨h1, h2, h3, h4⟩ := wf
  unfold decLocator
  simp only [List.append_assoc]
  rw [get32le_bind _ h1, getVarInt_bind _ (by have := lim64; omega), guardAlloc_bind _ _ _ _ h2,
    getMany_bind getHash putHash loc _ rfl _ _ (fun x hx r' => getHash_put x (h3 x hx) r'),
    bind_snd_ok (getHash_put stop h4 r)]
  rfl

/-! ## frame layer -/

theorem lookup_command (m : Msg) :
    m.command.length ≤ commandSize ∧ lookupCmd (trimZeros (padCmd m.command)) = some m.msgType := by
  cases m <;> (simp only [Msg.command, Msg.msgType]; decide)

theorem padCmd_length (name : Bytes) (h : name.length ≤ commandSize) : (padCmd name).length = commandSize := by
  unfold padCmd; simp; omega

theorem checksum_length (H : Bytes → Bytes) (hH : ∀ x, (H x).length = 32) (p : Bytes) : (checksum H p).length = 4 := by
  unfold checksum; simp [hH]

/-- ReadMessage on a stream that starts with a complete 24-byte header -/
theorem readMessageRd_header (H : Bytes → Bytes) (gmax pver net magic len : Nat) (cmd ck : Bytes) (rest : Bytes)
    (hm : magic < 2^32) (hl : len < 2^32) (hc : cmd.length = commandSize) (hk : ck.length = 4) :
    (readMessageRd H gmax pver net (put32le magic ++ cmd ++ put32le len ++ ck ++ rest)).2 =
    (readBody H gmax pver net magic cmd len ck rest).2 := by
  unfold readMessageRd
  rw [remaining_bind]
  have hlen : ¬ (put32le magic ++ cmd ++ put32le len ++ ck ++ rest).length < messageHeaderSize := by
    simp only [List.length_append, hc, hk, put32le, List.length_cons, List.length_nil]
    show ¬ _ < 24
    have : commandSize = 12 := rfl
    omega
  rw [if_neg hlen]
  simp only [List.append_assoc]
  rw [get32le_bind _ hm, getBytes_bind _ _ hc, get32le_bind _ hl, getBytes_bind _ _ hk]

theorem readPayload_ok (H : Bytes → Bytes) (gmax pver : Nat) (t : MsgType) (payload rest : Bytes) (m : Msg)
    (hd : decodePayload gmax pver t payload = .ok m) :
    (readPayload H gmax pver t payload.length (checksum H payload) (payload ++ rest)).2 = .ok (m, rest) := by
  unfold readPayload
  rw [bind_snd_ok (m := Rd.alloc _) rfl, getBytes_bind _ _ rfl]
  unfold finishPayload
  rw [if_neg (by simp)]
  unfold decodePayload at hd
  cases hr : decodeRd gmax pver t payload with
  | mk al res =>
    rw [hr] at hd
    cases res with
    | error e => simp at hd
    | ok v =>
      simp only at hd
      injection hd with hd
      subst hd
      rfl

end BHS.Wire
