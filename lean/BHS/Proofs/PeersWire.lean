/-
Helper lemmas for C18, part 3: admission handlers and connection manager wired together
(M-PeerWire). Core Lean only.
-/
import BHS.Model.PeerWire
import BHS.Proofs.PeersConnMgr

namespace BHS.Proofs.PeerWire
open BHS.Model BHS.Model.ConnMgr BHS.Proofs.ConnMgr

/-- an id that is known and not being dialled stays so: `live` only ever gains fresh ids -/
def Kept (s : St) (x : Nat) : Prop := x ≤ s.nextId ∧ x ∉ s.live

theorem kept_spawn {s : St} {x : Nat} (h : Kept s x) : Kept (spawn s) x := by
  refine ⟨?_, ?_⟩
  · have := h.1; simp only [spawn]; omega
  · simp only [spawn, List.mem_append, List.mem_singleton]
    intro hh
    rcases hh with h1 | h1
    · exact h.2 h1
    · have := h.1; omega

theorem kept_failedConn {c : Cfg} {s : St} {x : Nat} (addr : Option Nat) (h : Kept s x) : Kept (failedConn c s addr) x := by
  unfold failedConn
  split
  · simp only []
    split
    · unfold afterBanAddress
      split
      · exact h
      · exact kept_spawn (s := { s with fails := _, banned := _ }) h
    · exact kept_spawn (s := { s with fails := _ }) h
  · exact kept_spawn (s := { s with gfails := _ }) h

theorem kept_step {c : Cfg} {s : St} {x : Nat} (e : Event) (h : Kept s x) : Kept (step c s e) x := by
  have herase : ∀ id, x ∉ s.live.erase id := fun id hm => h.2 (List.mem_of_mem_erase hm)
  cases e with
  | dialOk id a =>
    simp only [step]
    split
    · split
      · exact ⟨h.1, herase id⟩
      · exact ⟨h.1, herase id⟩
    · exact h
  | dialFail id a =>
    simp only [step]
    split
    · split
      · exact kept_failedConn _ ⟨h.1, herase id⟩
      · exact ⟨h.1, herase id⟩
    · exact h
  | addrFail id =>
    simp only [step]
    split
    · split
      · exact kept_failedConn _ ⟨h.1, herase id⟩
      · exact ⟨h.1, herase id⟩
    · exact h
  | disc id retry =>
    simp only [step]
    split
    · split
      · split
        · exact kept_failedConn _ ⟨h.1, h.2⟩
        · exact h
      · exact h
    · split
      · exact h
      · exact h

/-- the connection-manager part of the wired invariant -/
structure CInv (cc : Cfg) (s : St) (out : List (Nat × Peers.Peer)) : Prop where
  wf : Wf s
  tot : tot s = cc.target
  kept : ∀ x ∈ out, Kept s x.1

/-- one admissible connection-manager event keeps it -/
theorem cinv_step {cc : Cfg} {s : St} {out : List (Nat × Peers.Peer)} (e : Event) (h : CInv cc s out) (ha : Adm s e) :
    CInv cc (step cc s e) out :=
  ⟨wf_step h.wf ha, tot_step_eq h.wf ha h.tot, fun x hx => kept_step e (h.kept x hx)⟩

theorem cinv_wire_step {cfg : PeerWire.Cfg} {w : PeerWire.W} (e : PeerWire.Event) (h : CInv cfg.cc w.c w.out) :
    CInv cfg.cc (PeerWire.step cfg w e).1.c (PeerWire.step cfg w e).1.out := by
  cases e with
  | ok k host group =>
    simp only [PeerWire.step]
    split
    · exact h
    · rename_i id hk
      have hl : id ∈ w.c.live := List.mem_of_getElem? hk
      have h1 := cinv_step (.dialOk id host) h trivial
      -- after the dial result the request is no longer in flight
      have hk1 : Kept (step cfg.cc w.c (.dialOk id host)) id := by
        have hp : id ∈ w.c.pending := h.wf.livePend id hl
        refine ⟨?_, ?_⟩
        · simp only [step, hl, ↓reduceIte, hp]; exact h.wf.liveLe id hl
        · simp only [step, hl, ↓reduceIte, hp]
          exact fun hm => ((h.wf.liveNd.mem_erase_iff).1 hm).1 rfl
      split
      · split
        · refine ⟨h1.wf, h1.tot, ?_⟩
          intro x hx
          simp only [List.mem_append, List.mem_singleton] at hx
          rcases hx with hx | hx
          · exact h1.kept x hx
          · subst hx; exact hk1
        · exact cinv_step (.disc id true) h1 ⟨hk1.2, fun _ => rfl⟩
      · exact h1
  | fail k host =>
    simp only [PeerWire.step]
    split
    · exact h
    · rename_i id _
      exact cinv_step (.dialFail id host) h trivial
  | addrFail k =>
    simp only [PeerWire.step]
    split
    · exact h
    · rename_i id _
      exact cinv_step (.addrFail id) h trivial
  | done j =>
    simp only [PeerWire.step]
    split
    · exact h
    · rename_i id peer hj
      have hm : (id, peer) ∈ w.out := List.mem_of_getElem? hj
      have hk := h.kept _ hm
      have h1 := cinv_step (.disc id true) h ⟨hk.2, fun _ => rfl⟩
      exact ⟨h1.wf, h1.tot, fun x hx => h1.kept x (List.mem_of_mem_eraseIdx hx)⟩
  | inbound host group =>
    simp only [PeerWire.step]
    split <;> exact h
  | inDone j =>
    simp only [PeerWire.step]
    split <;> exact h
  | ban host => exact h
  | clock dt => exact h

theorem cinv_start (cfg : PeerWire.Cfg) : CInv cfg.cc (PeerWire.start cfg).c (PeerWire.start cfg).out :=
  ⟨wf_start cfg.cc, tot_start cfg.cc, fun x hx => by cases hx⟩

theorem cinv_run {cfg : PeerWire.Cfg} : ∀ (evs : List PeerWire.Event) (w : PeerWire.W), CInv cfg.cc w.c w.out →
    CInv cfg.cc (PeerWire.run cfg w evs).c (PeerWire.run cfg w evs).out := by
  intro evs
  induction evs with
  | nil => intro w h; exact h
  | cons e es ih => intro w h; exact ih _ (cinv_wire_step e h)

end BHS.Proofs.PeerWire
