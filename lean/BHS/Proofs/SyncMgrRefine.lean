import BHS.Model.SyncPrim
import BHS.Gen.SyncMgr
import BHS.Model.SyncGenStep
import BHS.Proofs.SyncLoop
import BHS.Proofs.SyncMulti

set_option linter.unusedSectionVars false
set_option linter.unusedSimpArgs false

namespace BHS.Sync.Refine
open BHS BHS.Chain BHS.Sync BHS.Gen.SyncMgr
variable {H : Type} [DecidableEq H]

@[simp] theorem pure_run {α : Type} (a : α) (m : MState H) : (pure a : SyncM H α) m = (.ok a, m) := rfl
theorem bind_run {α β : Type} (x : SyncM H α) (f : α → SyncM H β) (m : MState H) :
    (x >>= f) m = match x m with | (.ok a, m') => f a m' | (.fault e, m') => (.fault e, m') := rfl
theorem ite_run {α : Type} (c : Prop) [Decidable c] (x y : SyncM H α) (m : MState H) :
    (if c then x else y) m = if c then x m else y m := by split <;> rfl


/-! ### the primitives, run -/

@[simp] theorem panic_run {α : Type} (f : Fault) (m : MState H) :
    (panic_ f : SyncM H α) m = (.fault f, { m with acts := m.acts ++ [.panic] }) := rfl
@[simp] theorem deref_some_run {α : Type} (a : α) (m : MState H) : (deref (some a) : SyncM H α) m = (.ok a, m) := rfl
@[simp] theorem deref_none_run {α : Type} (m : MState H) :
    (deref (none : Option α) : SyncM H α) m = (.fault .nilDeref, { m with acts := m.acts ++ [.panic] }) := rfl
@[simp] theorem getSyncPeer_run (m : MState H) : getSyncPeer m = (.ok m.st.syncPeer, m) := rfl
@[simp] theorem getHeadersFirstMode_run (m : MState H) : getHeadersFirstMode m = (.ok m.st.headersFirst, m) := rfl
@[simp] theorem getNextCheckpoint_run (m : MState H) : getNextCheckpoint m = (.ok m.st.nextCp, m) := rfl
@[simp] theorem setSyncPeer_run (p : Option Nat) (m : MState H) :
    setSyncPeer p m = (.ok (), { m with st := { m.st with syncPeer := p } }) := rfl
@[simp] theorem setHeadersFirstMode_run (b : Bool) (m : MState H) :
    setHeadersFirstMode b m = (.ok (), { m with st := { m.st with headersFirst := b } }) := rfl
@[simp] theorem setNextCheckpoint_run (c : Option (Nat × H)) (m : MState H) :
    setNextCheckpoint c m = (.ok (), { m with st := { m.st with nextCp := c } }) := rfl
@[simp] theorem peerStatesHas_run (p : Nat) (m : MState H) :
    peerStatesHas p m = (.ok (match lookup m.st.peers p with | some q => q.inMap | none => false), m) := rfl
@[simp] theorem peerDisconnect_run (p : Nat) (m : MState H) :
    peerDisconnect p m = (.ok (), { st := { m.st with peers := (disconnectPeer m.st.peers p).1 }, acts := m.acts ++ (disconnectPeer m.st.peers p).2 }) := rfl
@[simp] theorem peerPush_run (p : Nat) (loc : List H) (stop : H) (m : MState H) :
    peerPushGetHeadersMsg p loc stop m =
      (.ok none, { st := (pushTo m.st p loc stop).1, acts := m.acts ++ (pushTo m.st p loc stop).2 }) := rfl
@[simp] theorem banPeer_run (p : Nat) (m : MState H) : banPeer p m = (.ok (), { m with acts := m.acts ++ [.ban p] }) := rfl
@[simp] theorem headersGetTipHeight_run (m : MState H) : headersGetTipHeight m = (.ok (tipHeight m.st.store : Int), m) := rfl
@[simp] theorem headersGetTip_run (m : MState H) : headersGetTip m = (.ok (getTip m.st.store), m) := rfl
@[simp] theorem headersLocator_run (m : MState H) : headersLatestHeaderLocator m = (.ok (locator m.st.store), m) := rfl
@[simp] theorem chainsAdd_run (cfg : Sync.Cfg H) (x : Src H) (m : MState H) :
    chainsAdd cfg x m =
      (.ok (match (add cfg.chain m.st.store x).2 with
        | .stored r => (some r, none)
        | .duplicate => (none, some (.code "HeaderAlreadyExists"))
        | .rejected => (none, some (.code "BlockRejected"))
        | .creationFail => (none, some (.code "HeaderCreationFail"))),
       { m with st := { m.st with store := (add cfg.chain m.st.store x).1 } }) := rfl
@[simp] theorem andThen_true (b : SyncM H Bool) : andThen true b = b := rfl
@[simp] theorem andThen_false (b : SyncM H Bool) : andThen false b = pure false := rfl
@[simp] theorem orElse_true (b : SyncM H Bool) : orElse true b = pure true := rfl
@[simp] theorem orElse_false (b : SyncM H Bool) : orElse false b = b := rfl

/-! ### verifyCheckpointHeight -/

theorem verify_run (cfg : Sync.Cfg H) (env : Env) (h : Row H) (rc : Bool) (p : Nat) (m : MState H) :
    verifyCheckpointHeight cfg env h rc p m =
      match m.st.nextCp with
      | some c =>
        if h.height = c.1 then
          (if h.hash = c.2 then (.ok (true, none), m)
           else (.ok (false, some .other), { st := { m.st with peers := (disconnectPeer m.st.peers p).1 }, acts := m.acts ++ (disconnectPeer m.st.peers p).2 }))
        else (.ok (rc, none), m)
      | none => (.ok (rc, none), m) := by
  unfold verifyCheckpointHeight
  cases hc : m.st.nextCp with
  | none => simp [bind_run, ite_run, hc]
  | some c =>
    have hcast : ((h.height : Int) = (c.1 : Int)) ↔ h.height = c.1 := by omega
    by_cases hh : h.height = c.1 <;> by_cases hx : h.hash = c.2 <;>
      simp [bind_run, ite_run, hc, rowHeight, cpHeight, cpHash, hcast, hh, hx]

/-! ### the loop of handleHeadersMsg -/

theorem errIs_code (c d : String) : errIs c (some (.code d)) = (d == c) := rfl
theorem errIs_none (c : String) : errIs c none = false := rfl

/-- one iteration: `Chains.Add`, the error switch, verifyCheckpointHeight, finalHash -/
theorem loop1_run (cfg : Sync.Cfg H) (env : Env) (p : Nat) (x : Src H) (rc : Bool) (fh : Option H) (m : MState H) :
    handleHeadersMsg_loop1 cfg env p x (rc, fh) m =
      match (add cfg.chain m.st.store x).2 with
      | .duplicate => (.ok (.next (rc, fh)), { m with st := { m.st with store := (add cfg.chain m.st.store x).1 } })
      | .creationFail => (.ok (.next (rc, fh)), { m with st := { m.st with store := (add cfg.chain m.st.store x).1 } })
      | .rejected => (.ok (.ret ()), { st := { m.st with store := (add cfg.chain m.st.store x).1, peers := (disconnectPeer m.st.peers p).1 }, acts := m.acts ++ .ban p :: (disconnectPeer m.st.peers p).2 })
      | .stored r =>
        match m.st.nextCp with
        | some c =>
          if r.height = c.1 then
            (if r.hash = c.2 then (.ok (.next (true, if r.st = .lc then some r.hash else fh)), { m with st := { m.st with store := (add cfg.chain m.st.store x).1 } })
             else (.ok (.ret ()), { st := { m.st with store := (add cfg.chain m.st.store x).1, peers := (disconnectPeer m.st.peers p).1 }, acts := m.acts ++ (disconnectPeer m.st.peers p).2 }))
          else (.ok (.next (rc, if r.st = .lc then some r.hash else fh)), { m with st := { m.st with store := (add cfg.chain m.st.store x).1 } })
        | none => (.ok (.next (rc, if r.st = .lc then some r.hash else fh)), { m with st := { m.st with store := (add cfg.chain m.st.store x).1 } }) := by
  unfold handleHeadersMsg_loop1
  cases ho : (add cfg.chain m.st.store x).2 with
  | duplicate => simp [bind_run, ite_run, ho, errIs_code]
  | creationFail => simp [bind_run, ite_run, ho, errIs_code]
  | rejected => simp [bind_run, ite_run, ho, errIs_code]
  | stored r =>
    simp only [bind_run, chainsAdd_run, ho, errIs_none, Bool.false_eq_true, if_false, ite_run, deref_some_run, verify_run]
    cases hc : m.st.nextCp with
    | none => by_cases hl : r.st = .lc <;> simp [bind_run, ite_run, verify_run, hc, hl, rowIsLongestChain]
    | some c =>
      by_cases hh : r.height = c.1 <;> by_cases hx : r.hash = c.2 <;> by_cases hl : r.st = .lc <;>
        simp [bind_run, ite_run, verify_run, hc, hh, hx, hl, rowIsLongestChain]

/-- what the loop leaves, in terms of the hand model's `headersLoop` -/
def loopResult (p : Nat) (m : MState H) (l : Store H × Bool × Option H × LoopEnd) :
    Res (LoopOut (Bool × Option H) Unit) × MState H :=
  match l.2.2.2 with
  | .completed => (.ok (.done (l.2.1, l.2.2.1)), { m with st := { m.st with store := l.1 } })
  | .rejected => (.ok (.ret ()), { st := { m.st with store := l.1, peers := (disconnectPeer m.st.peers p).1 }, acts := m.acts ++ .ban p :: (disconnectPeer m.st.peers p).2 })
  | .mismatch => (.ok (.ret ()), { st := { m.st with store := l.1, peers := (disconnectPeer m.st.peers p).1 }, acts := m.acts ++ (disconnectPeer m.st.peers p).2 })

theorem loopResult_congr (p : Nat) (m m' : MState H) (l : Store H × Bool × Option H × LoopEnd)
    (h1 : m'.acts = m.acts) (h2 : m'.st.peers = m.st.peers) (h3 : m'.st.syncPeer = m.st.syncPeer)
    (h4 : m'.st.headersFirst = m.st.headersFirst) (h5 : m'.st.nextCp = m.st.nextCp) :
    loopResult p m' l = loopResult p m l := by
  obtain ⟨⟨a1, a2, a3, a4, a5⟩, a6⟩ := m
  obtain ⟨⟨b1, b2, b3, b4, b5⟩, b6⟩ := m'
  simp only at h1 h2 h3 h4 h5
  subst h1 h2 h3 h4 h5
  unfold loopResult
  cases l.2.2.2 <;> rfl

theorem headersLoop_run (cfg : Sync.Cfg H) (env : Env) (p : Nat) : ∀ (hs : List (Src H)) (m : MState H) (rc : Bool) (fh : Option H),
    forRange hs (rc, fh) (handleHeadersMsg_loop1 cfg env p) m =
      loopResult p m (headersLoop cfg.chain m.st.nextCp m.st.store hs rc fh) := by
  intro hs
  induction hs with
  | nil => intro m rc fh; rfl
  | cons x xs ih =>
    intro m rc fh
    rw [headersLoop_cons]
    unfold forRange
    simp only [loop1_run]
    cases ho : (add cfg.chain m.st.store x).2 with
    | duplicate => simp only []; rw [ih]; exact loopResult_congr p m _ _ rfl rfl rfl rfl rfl
    | creationFail => simp only []; rw [ih]; exact loopResult_congr p m _ _ rfl rfl rfl rfl rfl
    | rejected => rfl
    | stored r =>
      simp only []
      cases hc : m.st.nextCp with
      | none => simp only []; rw [ih]; exact loopResult_congr p m _ _ rfl rfl rfl rfl hc.symm
      | some c =>
        simp only []
        by_cases hh : r.height = c.1
        · by_cases hx : r.hash = c.2
          · simp only [hh, hx, if_true]; rw [ih]; exact loopResult_congr p m _ _ rfl rfl rfl rfl hc.symm
          · simp only [hh, hx, if_true, if_false]; rw [← hc]; rfl
        · simp only [hh, if_false]; rw [ih]; exact loopResult_congr p m _ _ rfl rfl rfl rfl hc.symm

/-! ### indices -/

theorem index_mid {α : Type} (pre : List α) (v : α) (suf : List α) (m : MState H) :
    (index (pre ++ v :: suf) (pre.length : Int) : SyncM H α) m = (.ok v, m) := by
  unfold index
  have h1 : ¬ ((pre.length : Int) < 0) := by omega
  simp only [h1, if_false, Int.toNat_natCast]
  rw [List.getElem?_append_right (Nat.le_refl _)]
  simp

theorem downFrom_neg : downFrom (-1) = [] := rfl

theorem downFrom_nat (n : Nat) : downFrom (n : Int) = (n : Int) :: downFrom ((n : Int) - 1) := by
  unfold downFrom
  have h1 : ((n : Int) + 1).toNat = n + 1 := by omega
  have h2 : ((n : Int) - 1 + 1).toNat = n := by omega
  rw [h1, h2, List.range_succ, List.reverse_append]
  rfl

/-! ### findNextHeaderCheckpoint = findNext -/

theorem findNext_body (cfg : Sync.Cfg H) (env : Env) (height : Nat) (cps : List (Nat × H)) (i : Int) (c : Nat × H)
    (nc : Option (Nat × H)) (m : MState H) (hidx : ∀ m', (index cps i : SyncM H (Nat × H)) m' = (.ok c, m')) :
    findNextHeaderCheckpoint_loop1 cfg env (height : Int) cps i nc m =
      (.ok (if height ≥ c.1 then Ctl.brk nc else Ctl.next (some c)), m) := by
  unfold findNextHeaderCheckpoint_loop1
  simp only [bind_run, hidx, cpHeight, ite_run, pure_run]
  by_cases hge : height ≥ c.1
  · have : ((height : Int) ≥ (c.1 : Int)) := by omega
    simp [hge, this]
  · have : ¬ ((height : Int) ≥ (c.1 : Int)) := by omega
    simp [hge, this, bind_run, hidx]

theorem findNext_loop (cfg : Sync.Cfg H) (env : Env) (height : Nat) : ∀ (r suf : List (Nat × H)) (next : Nat × H) (m : MState H),
    forRange (downFrom ((r.length : Int) - 1)) (some next)
        (findNextHeaderCheckpoint_loop1 cfg env (height : Int) (r.reverse ++ suf)) m =
      (.ok (.done (some (findNextGo height r next))), m) := by
  intro r
  induction r with
  | nil => intro suf next m; rfl
  | cons c init ih =>
    intro suf next m
    have hlen : (((c :: init).length : Int) - 1) = (init.length : Int) := by simp
    rw [hlen, downFrom_nat]
    unfold forRange
    have hidx : ∀ m', (index ((c :: init).reverse ++ suf) (init.length : Int) : SyncM H (Nat × H)) m' = (.ok c, m') := by
      intro m'
      rw [List.reverse_cons, List.append_assoc, ← List.length_reverse]
      exact index_mid init.reverse c suf m'
    rw [findNext_body cfg env height _ _ c (some next) m hidx]
    unfold findNextGo
    by_cases hge : height ≥ c.1
    · simp [hge]
    · simp only [hge, if_false]
      have := ih ([c] ++ suf) c m
      rw [← List.append_assoc, ← List.reverse_cons] at this
      exact this

theorem findNext_run (cfg : Sync.Cfg H) (env : Env) (height : Nat) (m : MState H) :
    findNextHeaderCheckpoint cfg env (height : Int) m = (.ok (findNext cfg.checkpoints height), m) := by
  unfold findNextHeaderCheckpoint findNext
  cases hl : cfg.checkpoints.getLast? with
  | none =>
    have : cfg.checkpoints = [] := List.getLast?_eq_none_iff.1 hl
    simp [this, lenOf, ite_run]
  | some fin =>
    obtain ⟨pre, hpre⟩ := List.getLast?_eq_some_iff.1 hl
    have hne : ¬ ((lenOf cfg.checkpoints) = (0 : Int)) := by rw [hpre]; simp [lenOf]; omega
    have hidx : ∀ m', (index cfg.checkpoints (lenOf cfg.checkpoints - 1) : SyncM H (Nat × H)) m' = (.ok fin, m') := by
      intro m'
      have : lenOf cfg.checkpoints - 1 = (pre.length : Int) := by rw [hpre]; simp [lenOf]
      rw [this, hpre]
      exact index_mid pre fin [] m'
    have hloop := findNext_loop cfg env height pre.reverse [fin] fin
    rw [List.reverse_reverse, List.length_reverse] at hloop
    have h2 : lenOf cfg.checkpoints - 2 = (pre.length : Int) - 1 := by rw [hpre]; simp [lenOf]; omega
    have hdl : cfg.checkpoints.dropLast = pre := by rw [hpre]; simp
    simp only [bind_run, ite_run, hne, decide_false, Bool.false_eq_true, if_false, hidx, deref_some_run, cpHeight, h2, pure_run]
    by_cases hge : height ≥ fin.1
    · have : ((height : Int) ≥ (fin.1 : Int)) := by omega
      simp [hge, this]
    · have : ¬ ((height : Int) ≥ (fin.1 : Int)) := by omega
      simp only [hge, this, decide_false, Bool.false_eq_true, if_false]
      rw [← hpre] at hloop
      simp only [hloop, hdl]
      rfl

/-! ### searchForFinalBlock = lastBlockInv -/

/-- the index searchForFinalBlock answers: of the last block entry, -1 when there is none -/
def finalIdx (invs : List (Bool × H)) : Int :=
  match invs.reverse.findIdx? (·.1) with
  | some j => (invs.length : Int) - 1 - (j : Int)
  | none => -1

theorem search_body (cfg : Sync.Cfg H) (env : Env) (invs : List (Bool × H)) (i : Int) (v : Bool × H) (lb : Int) (m : MState H)
    (hidx : ∀ m', (index invs i : SyncM H (Bool × H)) m' = (.ok v, m')) :
    searchForFinalBlock_loop1 cfg env invs i lb m = (.ok (if v.1 then Ctl.brk i else Ctl.next lb), m) := by
  unfold searchForFinalBlock_loop1
  simp only [bind_run, hidx, invIsBlock, ite_run, pure_run]
  by_cases hv : v.1 = true <;> simp [hv]

theorem search_loop (cfg : Sync.Cfg H) (env : Env) : ∀ (r suf : List (Bool × H)) (m : MState H),
    forRange (downFrom ((r.length : Int) - 1)) (-1 : Int) (searchForFinalBlock_loop1 cfg env (r.reverse ++ suf)) m =
      (.ok (.done (match r.findIdx? (·.1) with | some j => (r.length : Int) - 1 - (j : Int) | none => -1)), m) := by
  intro r
  induction r with
  | nil => intro suf m; rfl
  | cons v init ih =>
    intro suf m
    have hlen : (((v :: init).length : Int) - 1) = (init.length : Int) := by simp
    rw [hlen, downFrom_nat]
    unfold forRange
    have hidx : ∀ m', (index ((v :: init).reverse ++ suf) (init.length : Int) : SyncM H (Bool × H)) m' = (.ok v, m') := by
      intro m'
      rw [List.reverse_cons, List.append_assoc, ← List.length_reverse]
      exact index_mid init.reverse v suf m'
    rw [search_body cfg env _ _ v (-1) m hidx, List.findIdx?_cons]
    cases hv : v.1 with
    | true => simp
    | false =>
      simp only [Bool.false_eq_true, if_false]
      have := ih ([v] ++ suf) m
      rw [← List.append_assoc, ← List.reverse_cons] at this
      rw [this]
      cases init.findIdx? (·.1) with
      | none => rfl
      | some j => simp only [Option.map_some, List.length_cons]; congr 3; omega

theorem search_run (cfg : Sync.Cfg H) (env : Env) (invs : List (Bool × H)) (m : MState H) :
    searchForFinalBlock cfg env invs m = (.ok (finalIdx invs), m) := by
  unfold searchForFinalBlock finalIdx
  have h := search_loop cfg env invs.reverse [] m
  rw [List.reverse_reverse, List.append_nil, List.length_reverse] at h
  have hl : lenOf invs - 1 = (invs.length : Int) - 1 := rfl
  simp only [bind_run, hl, h, pure_run]

/-- what the index means: none ⇔ -1; otherwise it is in range and the entry there carries the announced hash -/
theorem finalIdx_spec (invs : List (Bool × H)) :
    (lastBlockInv invs = none ∧ finalIdx invs = -1) ∨
    (∃ v, lastBlockInv invs = some v.2 ∧ finalIdx invs ≠ -1 ∧ ∀ m : MState H, (index invs (finalIdx invs) : SyncM H (Bool × H)) m = (.ok v, m)) := by
  unfold lastBlockInv finalIdx
  have key : ∀ r : List (Bool × H), (r.find? (·.1) = none ∧ r.findIdx? (·.1) = none) ∨
      (∃ v j, r.find? (·.1) = some v ∧ r.findIdx? (·.1) = some j ∧ r[j]? = some v) := by
    intro r
    induction r with
    | nil => left; exact ⟨rfl, rfl⟩
    | cons a r ih =>
      rw [List.find?_cons, List.findIdx?_cons]
      cases ha : a.1 with
      | true => right; exact ⟨a, 0, by simp, by simp, rfl⟩
      | false =>
        rcases ih with ⟨h1, h2⟩ | ⟨v, j, h1, h2, h3⟩
        · left; simp [h1, h2]
        · right; exact ⟨v, j + 1, by simp [h1], by simp [h2], by simpa using h3⟩
  rcases key invs.reverse with ⟨h1, h2⟩ | ⟨v, j, h1, h2, h3⟩
  · left; rw [h1, h2]; exact ⟨rfl, rfl⟩
  · right
    have hj : j < invs.length := by
      have := (List.getElem?_eq_some_iff.1 h3).1
      simpa using this
    rw [List.getElem?_reverse hj] at h3
    refine ⟨v, by rw [h1]; rfl, by rw [h2]; simp only []; omega, ?_⟩
    intro m
    rw [h2]
    simp only []
    unfold index
    have hnn : ¬ ((invs.length : Int) - 1 - (j : Int) < 0) := by omega
    have htn : ((invs.length : Int) - 1 - (j : Int)).toNat = invs.length - 1 - j := by omega
    simp only [hnn, if_false, htn, h3]
    rfl

/-! ### current -/

theorem peerObj_run (p : Nat) (m : MState H) :
    peerObj p m = match lookup m.st.peers p with
      | some q => (.ok q, m)
      | none => (.fault .unknownPeerObject, { m with acts := m.acts ++ [.panic] }) := rfl

theorem peerLastBlock_run (p : Nat) (m : MState H) :
    peerLastBlock p m = match lookup m.st.peers p with
      | some q => (.ok q.lastBlock, m)
      | none => (.fault .unknownPeerObject, { m with acts := m.acts ++ [.panic] }) := by
  unfold peerLastBlock
  simp only [bind_run, peerObj_run]
  cases lookup m.st.peers p <;> rfl

theorem peerStartingHeight_run (p : Nat) (m : MState H) :
    peerStartingHeight p m = match lookup m.st.peers p with
      | some q => (.ok q.startHeight, m)
      | none => (.fault .unknownPeerObject, { m with acts := m.acts ++ [.panic] }) := by
  unfold peerStartingHeight
  simp only [bind_run, peerObj_run]
  cases lookup m.st.peers p <;> rfl

theorem headersIsCurrent_run (cfg : Sync.Cfg H) (m : MState H) :
    headersIsCurrent cfg m = match isCurrentHS cfg m.st.store with
      | some b => (.ok b, m)
      | none => (.fault .indexOutOfRange, { m with acts := m.acts ++ [.panic] }) := by
  unfold headersIsCurrent
  cases isCurrentHS cfg m.st.store <;> rfl

theorem current_run (cfg : Sync.Cfg H) (env : Env) (m : MState H) :
    Gen.SyncMgr.current cfg env m =
      match isCurrentHS cfg m.st.store with
      | none => (.fault .indexOutOfRange, { m with acts := m.acts ++ [.panic] })
      | some false => (.ok false, m)
      | some true =>
        match m.st.syncPeer with
        | none => (.ok true, m)
        | some sp =>
          match lookup m.st.peers sp with
          | none => (.fault .unknownPeerObject, { m with acts := m.acts ++ [.panic] })
          | some q => (.ok (decide ((tipHeight m.st.store : Int) ≥ q.lastBlock)), m) := by
  unfold Gen.SyncMgr.current
  cases hc : isCurrentHS cfg m.st.store with
  | none => simp [bind_run, headersIsCurrent_run, hc]
  | some b =>
    cases b with
    | false => simp [bind_run, ite_run, headersIsCurrent_run, hc]
    | true =>
      cases hs : m.st.syncPeer with
      | none => simp [bind_run, ite_run, headersIsCurrent_run, hc, hs]
      | some sp =>
        cases hl : lookup m.st.peers sp with
        | none => simp [bind_run, ite_run, headersIsCurrent_run, peerLastBlock_run, hc, hs, hl]
        | some q =>
          by_cases hlt : (tipHeight m.st.store : Int) < q.lastBlock
          · have : ¬ (q.lastBlock ≤ (tipHeight m.st.store : Int)) := by omega
            simp [bind_run, ite_run, headersIsCurrent_run, peerLastBlock_run, hc, hs, hl, hlt, this]
          · have : (q.lastBlock ≤ (tipHeight m.st.store : Int)) := by omega
            simp [bind_run, ite_run, headersIsCurrent_run, peerLastBlock_run, hc, hs, hl, hlt, this]

/-! ### handleHeadersMsg = handleHeadersCore -/

theorem send_run (cfg : Sync.Cfg H) (env : Env) (loc : List H) (stop : H) (p : Nat) (m : MState H) :
    sendGetHeadersWithPassedParams cfg env loc stop p m =
      (.ok (), { st := (pushTo m.st p loc stop).1, acts := m.acts ++ (pushTo m.st p loc stop).2 }) := by
  unfold sendGetHeadersWithPassedParams
  simp [bind_run, ite_run]

theorem pushTo_nextCp (st : State H) (p : Nat) (loc : List H) (stop : H) : (pushTo st p loc stop).1.nextCp = st.nextCp := by
  unfold pushTo; split <;> rfl

theorem pushTo_syncPeer' (st : State H) (p : Nat) (loc : List H) (stop : H) : (pushTo st p loc stop).1.syncPeer = st.syncPeer := by
  unfold pushTo; split <;> rfl

theorem request_run (cfg : Sync.Cfg H) (env : Env) (prevHash : H) (p : Nat) (prevHeight : Int) (c : Nat × H) (m : MState H)
    (hc : m.st.nextCp = some c) :
    requestForNextHeaderBatch cfg env prevHash p prevHeight m =
      (.ok (), { st := (pushTo m.st p [prevHash] c.2).1, acts := m.acts ++ (pushTo m.st p [prevHash] c.2).2 }) := by
  unfold requestForNextHeaderBatch
  simp only [bind_run, getNextCheckpoint_run, hc, deref_some_run, send_run, cpHash, getSyncPeer_run, ite_run, pure_run,
    pushTo_nextCp, pushTo_syncPeer']
  cases hs : m.st.syncPeer <;> simp [hc]

theorem lenOf_eq_zero {α : Type} (xs : List α) : (lenOf xs = (0 : Int)) ↔ xs.isEmpty = true := by
  unfold lenOf
  cases xs <;> simp
  omega

theorem handleHeadersMsg_run (cfg : Sync.Cfg H) (env : Env) (st : State H) (p : Nat) (hs : List (Src H)) :
    (Gen.SyncMgr.handleHeadersMsg cfg env p hs { st := st, acts := [] }).2 =
      { st := (handleHeadersCore cfg st p hs).1, acts := (handleHeadersCore cfg st p hs).2 } := by
  unfold Gen.SyncMgr.handleHeadersMsg handleHeadersCore
  cases hq : lookup st.peers p with
  | none => simp [bind_run, ite_run, hq]
  | some q =>
    cases hin : q.inMap with
    | false => simp [bind_run, ite_run, hq, hin]
    | true =>
      cases hf : st.headersFirst with
      | false => simp [bind_run, ite_run, hq, hin, hf]
      | true =>
        cases he : hs.isEmpty with
        | true => simp [bind_run, ite_run, hq, hin, hf, lenOf_eq_zero, he]
        | false =>
          simp only [bind_run, peerStatesHas_run, pure_run, ite_run, hq, hin, hf, getHeadersFirstMode_run, lenOf_eq_zero, he,
            Bool.not_true, Bool.false_eq_true, if_false, decide_false, headersLoop_run, loopResult]
          generalize hl : headersLoop cfg.chain st.nextCp st.store hs false none = l
          obtain ⟨s', rc, fh, e⟩ := l
          cases e with
          | rejected => simp
          | mismatch => simp
          | completed =>
            cases fh with
            | none => simp
            | some f =>
              cases hc : st.nextCp with
              | none =>
                cases rc <;> simp [bind_run, send_run, ite_run, hc]
              | some c =>
                cases rc with
                | false => simp [bind_run, send_run, ite_run, hc, cpHash]
                | true =>
                  have hcast : cpHeight c = ((c.1 : Nat) : Int) := rfl
                  cases hn : findNext cfg.checkpoints c.1 with
                  | none => simp [bind_run, send_run, ite_run, hc, hcast, findNext_run, hn]
                  | some c' =>
                    simp only [bind_run, ite_run, hc, hcast, findNext_run, hn, getNextCheckpoint_run, deref_some_run,
                      setNextCheckpoint_run, Option.isNone_some, Option.isSome_some, Bool.false_eq_true, if_false, if_true, cpHash]
                    rw [request_run cfg env c.2 p _ c' _ rfl]
                    rfl

theorem handleHeadersMsg_refines (cfg : Sync.Cfg H) (env : Env) (st : State H) (p : Nat) (hs : List (Src H)) :
    runH (Gen.SyncMgr.handleHeadersMsg cfg env p hs) st = handleHeadersCore cfg st p hs := by
  unfold runH
  rw [handleHeadersMsg_run]

/-! ### handleInvMsg = handleInv -/

/-- which panic `current()` dies of when the hand model says `none` -/
def currentFault (cfg : Sync.Cfg H) (st : State H) : Fault :=
  match isCurrentHS cfg st.store with
  | none => .indexOutOfRange
  | some _ => .unknownPeerObject

theorem current_run' (cfg : Sync.Cfg H) (env : Env) (m : MState H) :
    Gen.SyncMgr.current cfg env m =
      match Sync.current cfg m.st with
      | some b => (.ok b, m)
      | none => (.fault (currentFault cfg m.st), { m with acts := m.acts ++ [.panic] }) := by
  rw [current_run]
  unfold Sync.current currentFault
  cases isCurrentHS cfg m.st.store with
  | none => rfl
  | some b =>
    cases b with
    | false => rfl
    | true =>
      simp only []
      cases m.st.syncPeer with
      | none => rfl
      | some sp => simp only []; cases lookup m.st.peers sp <;> rfl

theorem index_zero_cons {α : Type} (a : α) (l : List α) (m : MState H) : (index (a :: l) (0 : Int) : SyncM H α) m = (.ok a, m) := rfl
theorem index_zero_nil {α : Type} (m : MState H) :
    (index ([] : List α) (0 : Int) : SyncM H α) m = (.fault .indexOutOfRange, { m with acts := m.acts ++ [.panic] }) := rfl

theorem peerUpdateLastBlockHeight_run (p : Nat) (h : Int) (m : MState H) :
    peerUpdateLastBlockHeight p h m = (.ok (), { m with st := (match lookup m.st.peers p with
      | some q => { m.st with peers := update m.st.peers { q with lastBlock := h } }
      | none => m.st) }) := rfl

theorem headersGetHeightByHash_run (h : H) (m : MState H) :
    headersGetHeightByHash h m = match byHash m.st.store h with
      | some r => (.ok ((r.height : Int), none), m)
      | none => (.ok (0, some .other), m) := by
  unfold headersGetHeightByHash
  cases byHash m.st.store h <;> rfl

theorem handleInvMsg_run (cfg : Sync.Cfg H) (env : Env) (st : State H) (p : Nat) (invs : List (Bool × H))
    (hloc : locator st.store ≠ []) :
    (Gen.SyncMgr.handleInvMsg cfg env p invs { st := st, acts := [] }).2 =
      { st := (handleInv cfg st p invs).1, acts := (handleInv cfg st p invs).2 } := by
  unfold Gen.SyncMgr.handleInvMsg handleInv
  cases invs with
  | nil => simp [bind_run, index_zero_nil]
  | cons i0 rest =>
    generalize hinvs : i0 :: rest = invs
    have hne : invs.isEmpty = false := by rw [← hinvs]; rfl
    have hidx0 : ∀ m : MState H, (index invs (0 : Int) : SyncM H (Bool × H)) m = (.ok i0, m) := by
      intro m; rw [← hinvs]; rfl
    obtain ⟨l0, lrest, hlocEq⟩ : ∃ a b, locator st.store = a :: b := by
      cases hl : locator st.store with
      | nil => exact absurd hl hloc
      | cons a b => exact ⟨a, b, rfl⟩
    cases hq : lookup st.peers p with
    | none => simp [bind_run, ite_run, hidx0, hne, hq]
    | some q =>
      cases hin : q.inMap with
      | false => simp [bind_run, ite_run, hidx0, hne, hq, hin]
      | true =>
        have hsync : (decide (some p = st.syncPeer)) = (decide (st.syncPeer = some p)) := by
          by_cases h : st.syncPeer = some p
          · simp [h]
          · have : ¬ (some p = st.syncPeer) := fun e => h e.symm
            simp [h, this]
        rcases finalIdx_spec invs with ⟨hlast, hfi⟩ | ⟨v, hlast, hfi, hidx⟩
        · -- no block entry
          cases hs : decide (st.syncPeer = some p) with
          | true => simp [*, bind_run, ite_run, search_run, current_run']
          | false =>
            cases hcur : Sync.current cfg st with
            | none => simp [*, bind_run, ite_run, search_run, current_run']
            | some cur => cases cur <;> simp [*, bind_run, ite_run, search_run, current_run']
        · -- the last block entry is v
          cases hcur : Sync.current cfg st with
          | none =>
            cases hs : decide (st.syncPeer = some p) <;>
              simp [*, bind_run, ite_run, search_run, current_run', invHash, peerUpdateLastAnnouncedBlock]
          | some cur =>
            cases hs : decide (st.syncPeer = some p) <;> cases cur <;> cases hb : byHash st.store v.2 <;>
              simp [*, bind_run, ite_run, search_run, current_run', invHash, peerUpdateLastAnnouncedBlock,
                headersGetHeightByHash_run, peerUpdateLastBlockHeight_run, send_run, index_zero_cons]

/-! ### startSync -/

/-- startSync's demotion of one entry -/
def demote (best : Nat) (q : PeerSt H) : PeerSt H :=
  if q.inMap && q.candidate && decide (q.lastBlock < (best : Int)) then { q with candidate := false } else q

theorem demote_id (best : Nat) (q : PeerSt H) : (demote best q).id = q.id := by unfold demote; split <;> rfl

theorem map_demote_ids (best : Nat) (l : List (PeerSt H)) : (l.map (demote best)).map (·.id) = l.map (·.id) := by
  rw [List.map_map]; apply List.map_congr_left; intro a _; exact demote_id best a

theorem lookup_mid (a b : List (PeerSt H)) (e : PeerSt H) (h : e.id ∉ a.map (·.id)) : lookup (a ++ e :: b) e.id = some e := by
  unfold lookup
  rw [List.find?_append]
  have : a.find? (fun q => q.id == e.id) = none := by
    rw [List.find?_eq_none]
    intro x hx hid
    exact h (List.mem_map.2 ⟨x, hx, by simpa using hid⟩)
  rw [this]
  simp

theorem update_mid (a b : List (PeerSt H)) (e e' : PeerSt H) (hid : e'.id = e.id) (ha : e.id ∉ a.map (·.id))
    (hb : e.id ∉ b.map (·.id)) : update (a ++ e :: b) e' = a ++ e' :: b := by
  unfold update
  have hmap : ∀ l : List (PeerSt H), e.id ∉ l.map (·.id) → l.map (fun r => if r.id == e'.id then e' else r) = l := by
    intro l hl
    conv => rhs; rw [← List.map_id l]
    apply List.map_congr_left
    intro r hr
    have : (r.id == e'.id) = false := by
      rw [hid]
      apply beq_false_of_ne
      intro h
      exact hl (List.mem_map.2 ⟨r, hr, h⟩)
    rw [this]; rfl
  rw [List.map_append, List.map_cons, hmap a ha, hmap b hb]
  simp [hid]

def isBestP (best : Nat) (q : PeerSt H) : Bool := q.inMap && q.candidate && decide (q.lastBlock > (best : Int))
def isOkP (best : Nat) (q : PeerSt H) : Bool := q.inMap && q.candidate && decide (q.lastBlock = (best : Int))

theorem peerStatesSetCandidate_run (p : Nat) (c : Bool) (m : MState H) :
    peerStatesSetCandidate p c m = (.ok (), { m with st := (match lookup m.st.peers p with
      | some q => { m.st with peers := update m.st.peers { q with candidate := c } }
      | none => m.st) }) := rfl

theorem startSync_body (cfg : Sync.Cfg H) (env : Env) (best : Nat) (e : PeerSt H) (bs os : List Nat) (m : MState H)
    (hl : lookup m.st.peers e.id = some e) (hin : e.inMap = true) :
    startSync_loop1 cfg env (best : Int) (e.id, ⟨e.candidate⟩) (bs, os) m =
      (.ok (.next (if isBestP best e then bs ++ [e.id] else bs, if isOkP best e then os ++ [e.id] else os)),
        { m with st := { m.st with peers := if (demote best e).candidate = e.candidate then m.st.peers else update m.st.peers (demote best e) } }) := by
  unfold startSync_loop1 isBestP isOkP demote
  cases hc : e.candidate with
  | false => simp [bind_run, ite_run, hin, hc]
  | true =>
    by_cases h1 : e.lastBlock = (best : Int)
    · have h2 : ¬ (e.lastBlock < (best : Int)) := by omega
      have h3 : ¬ (e.lastBlock > (best : Int)) := by omega
      have h3' : ¬ ((best : Int) < e.lastBlock) := by omega
      simp [bind_run, ite_run, peerLastBlock_run, hl, hin, hc, h1, h2, h3, h3']
    · by_cases h2 : e.lastBlock < (best : Int)
      · have h3 : ¬ (e.lastBlock > (best : Int)) := by omega
        have h3' : ¬ ((best : Int) < e.lastBlock) := by omega
        simp [bind_run, ite_run, peerLastBlock_run, peerStatesSetCandidate_run, hl, hin, hc, h1, h2, h3, h3']
      · have h3 : (e.lastBlock > (best : Int)) := by omega
        have h3' : ((best : Int) < e.lastBlock) := by omega
        simp [bind_run, ite_run, peerLastBlock_run, hl, hin, hc, h1, h2, h3, h3']

theorem startSync_loop (cfg : Sync.Cfg H) (env : Env) (best : Nat) : ∀ (todo done : List (PeerSt H)) (bs os : List Nat) (m : MState H),
    m.st.peers = done.map (demote best) ++ todo → ((done ++ todo).map (·.id)).Nodup →
    forRange ((todo.filter (·.inMap)).map (fun q => (q.id, (⟨q.candidate⟩ : SyncStateV)))) (bs, os)
        (startSync_loop1 cfg env (best : Int)) m =
      (.ok (.done (bs ++ (todo.filter (isBestP best)).map (·.id), os ++ (todo.filter (isOkP best)).map (·.id))),
        { m with st := { m.st with peers := (done ++ todo).map (demote best) } }) := by
  intro todo
  induction todo with
  | nil =>
    intro done bs os m hp _
    simp only [List.filter_nil, List.map_nil, List.append_nil, forRange, pure_run]
    rw [List.append_nil] at hp
    rw [← hp]
  | cons e rest ih =>
    intro done bs os m hp hnd
    have hnd' : ((done ++ [e] ++ rest).map (·.id)).Nodup := by rw [List.append_assoc]; exact hnd
    have hsplit : (done ++ e :: rest).map (·.id) = done.map (·.id) ++ e.id :: rest.map (·.id) := by simp
    rw [hsplit] at hnd
    have hea : e.id ∉ done.map (·.id) := by
      intro h
      exact (List.nodup_append.1 hnd).2.2 _ h e.id List.mem_cons_self rfl
    have heb : e.id ∉ rest.map (·.id) := (List.nodup_cons.1 (List.nodup_append.1 hnd).2.1).1
    have hea' : e.id ∉ (done.map (demote best)).map (·.id) := by rw [map_demote_ids]; exact hea
    cases hin : e.inMap with
    | false =>
      have hd : demote best e = e := by unfold demote; simp [hin]
      have hb : isBestP best e = false := by unfold isBestP; simp [hin]
      have ho : isOkP best e = false := by unfold isOkP; simp [hin]
      have hp' : m.st.peers = (done ++ [e]).map (demote best) ++ rest := by
        rw [hp, List.map_append, List.map_singleton, hd, List.append_assoc]; rfl
      have := ih (done ++ [e]) bs os m hp' hnd'
      simp only [List.filter_cons, hin, hb, ho, Bool.false_eq_true, if_false]
      rw [this, List.append_assoc]
      rfl
    | true =>
      have hl : lookup m.st.peers e.id = some e := by rw [hp]; exact lookup_mid _ _ e hea'
      simp only [List.filter_cons, hin, if_true, List.map_cons]
      unfold forRange
      rw [startSync_body cfg env best e bs os m hl hin]
      simp only []
      have hp' : (if (demote best e).candidate = e.candidate then m.st.peers else update m.st.peers (demote best e)) =
          (done ++ [e]).map (demote best) ++ rest := by
        rw [List.map_append, List.map_singleton, List.append_assoc]
        by_cases hc : (demote best e).candidate = e.candidate
        · rw [if_pos hc, hp]
          have : demote best e = e := by
            unfold demote at hc ⊢
            split
            · rename_i h; rw [if_pos h] at hc; simp only at hc
              have : e.candidate = true := by simp only [Bool.and_eq_true] at h; exact h.1.2
              rw [this] at hc; cases hc
            · rfl
          rw [this]; rfl
        · rw [if_neg hc, hp]
          exact update_mid _ _ e (demote best e) (demote_id best e) hea' heb
      have := ih (done ++ [e]) (if isBestP best e then bs ++ [e.id] else bs) (if isOkP best e then os ++ [e.id] else os)
        { m with st := { m.st with peers := if (demote best e).candidate = e.candidate then m.st.peers else update m.st.peers (demote best e) } }
        hp' hnd'
      rw [this]
      cases isBestP best e <;> cases isOkP best e <;> simp [List.append_assoc]

theorem index_nat {α : Type} (xs : List α) (n : Nat) (a : α) (h : xs[n]? = some a) (m : MState H) :
    (index xs (n : Int) : SyncM H α) m = (.ok a, m) := by
  unfold index
  have h1 : ¬ ((n : Int) < 0) := by omega
  simp only [h1, if_false, Int.toNat_natCast, h]
  rfl

theorem peerStatesRange_run (m : MState H) :
    peerStatesRange m = (.ok ((m.st.peers.filter (·.inMap)).map (fun q => (q.id, (⟨q.candidate⟩ : SyncStateV)))), m) := rfl

theorem randInt_run (env : Env) (n : Nat) (m : MState H) :
    (randInt env (n : Int) : SyncM H (Int × Option GoErr)) m = (.ok (((env.pick % n : Nat) : Int), none), m) := by
  unfold randInt
  simp

theorem demote_of_ge (best : Nat) (q : PeerSt H) (h : ¬ (q.lastBlock < (best : Int))) : demote best q = q := by
  unfold demote; simp [h]

theorem lookup_demoted (best : Nat) (ps : List (PeerSt H)) (hnd : (ps.map (·.id)).Nodup) (bp : PeerSt H) (hbp : bp ∈ ps)
    (hge : ¬ (bp.lastBlock < (best : Int))) : lookup (ps.map (demote best)) bp.id = some bp := by
  have hm : demote best bp ∈ ps.map (demote best) := List.mem_map.2 ⟨bp, hbp, rfl⟩
  have := lookup_of_mem_nodup (by rw [map_demote_ids]; exact hnd) hm
  rw [demote_id, demote_of_ge best bp hge] at this
  exact this

/-- the tail of startSync once the peer is chosen -/
theorem startSync_chosen (cfg : Sync.Cfg H) (st : State H) (pick : Nat) (bp : PeerSt H) (hs : st.syncPeer = none)
    (hbp : (syncCandidates st)[pick % (syncCandidates st).length]? = some bp) :
    Sync.startSync cfg st pick =
      match (match st.nextCp with | some c => if tipHeight st.store < c.1 then some c else none | none => none) with
      | some c =>
        ({ st with peers := update (st.peers.map (demote (tipHeight st.store))) (pushGetHeaders bp (locator st.store) c.2).1,
                   syncPeer := some bp.id, headersFirst := true }, (pushGetHeaders bp (locator st.store) c.2).2)
      | none =>
        ({ st with peers := update (st.peers.map (demote (tipHeight st.store))) (pushGetHeaders bp (locator st.store) cfg.zero).1,
                   syncPeer := some bp.id }, (pushGetHeaders bp (locator st.store) cfg.zero).2) := by
  unfold Sync.startSync
  simp only [hs, Option.isSome_none, Bool.false_eq_true, if_false, hbp]
  rfl

theorem startSync_nobody (cfg : Sync.Cfg H) (st : State H) (pick : Nat) (hs : st.syncPeer = none)
    (hbp : (syncCandidates st)[pick % (syncCandidates st).length]? = none) :
    Sync.startSync cfg st pick = ({ st with peers := st.peers.map (demote (tipHeight st.store)) }, []) := by
  unfold Sync.startSync
  simp only [hs, Option.isSome_none, Bool.false_eq_true, if_false, hbp]
  rfl

theorem push_known (p : Nat) (q : PeerSt H) (loc : List H) (stop : H) (m : MState H) (hl : lookup m.st.peers p = some q) :
    peerPushGetHeadersMsg p loc stop m =
      (.ok none, { st := { m.st with peers := update m.st.peers (pushGetHeaders q loc stop).1 }, acts := m.acts ++ (pushGetHeaders q loc stop).2 }) := by
  rw [peerPush_run]
  unfold pushTo
  rw [hl]

theorem pushTo_known (ps : List (PeerSt H)) (sp : Option Nat) (hf : Bool) (nc : Option (Nat × H)) (store : Store H)
    (p : Nat) (q : PeerSt H) (loc : List H) (stop : H) (hl : lookup ps p = some q) :
    pushTo { peers := ps, syncPeer := sp, headersFirst := hf, nextCp := nc, store := store } p loc stop =
      ({ peers := update ps (pushGetHeaders q loc stop).1, syncPeer := sp, headersFirst := hf, nextCp := nc, store := store },
        (pushGetHeaders q loc stop).2) := by
  unfold pushTo
  simp only [hl]

theorem isOkP_ge (best : Nat) (q : PeerSt H) (h : isOkP best q = true) : ¬ (q.lastBlock < (best : Int)) := by
  unfold isOkP at h
  simp only [Bool.and_eq_true, decide_eq_true_eq] at h
  omega

theorem isBestP_ge (best : Nat) (q : PeerSt H) (h : isBestP best q = true) : ¬ (q.lastBlock < (best : Int)) := by
  unfold isBestP at h
  simp only [Bool.and_eq_true, decide_eq_true_eq] at h
  omega

/-- the generated tail of startSync for a chosen peer `bp` (its entry is not demoted) -/
theorem startSync_main (cfg : Sync.Cfg H) (env : Env) (m : MState H) (hnd : (m.st.peers.map (·.id)).Nodup) :
    Gen.SyncMgr.startSync cfg env m =
      (.ok (), { st := (Sync.startSync cfg m.st env.pick).1, acts := m.acts ++ (Sync.startSync cfg m.st env.pick).2 }) := by
  cases hs : m.st.syncPeer with
  | some sp =>
    unfold Gen.SyncMgr.startSync Sync.startSync
    simp [bind_run, ite_run, hs]
  | none =>
    have hloop := startSync_loop cfg env (tipHeight m.st.store) m.st.peers [] [] [] m rfl (by simpa using hnd)
    simp only [List.nil_append] at hloop
    -- who is chosen
    have hBP : bestPeers m.st = m.st.peers.filter (isBestP (tipHeight m.st.store)) := rfl
    have hOK : okPeers m.st = m.st.peers.filter (isOkP (tipHeight m.st.store)) := rfl
    have hchoice : (∃ (xs : List (PeerSt H)) (bp : PeerSt H), xs ≠ [] ∧ syncCandidates m.st = xs ∧
          xs[env.pick % xs.length]? = some bp ∧ bp ∈ m.st.peers ∧ ¬ (bp.lastBlock < (tipHeight m.st.store : Int)) ∧
          ((xs = m.st.peers.filter (isBestP (tipHeight m.st.store))) ∨
            (m.st.peers.filter (isBestP (tipHeight m.st.store)) = [] ∧ xs = m.st.peers.filter (isOkP (tipHeight m.st.store))))) ∨
        (m.st.peers.filter (isBestP (tipHeight m.st.store)) = [] ∧ m.st.peers.filter (isOkP (tipHeight m.st.store)) = [] ∧
          syncCandidates m.st = []) := by
      by_cases hB : m.st.peers.filter (isBestP (tipHeight m.st.store)) = []
      · by_cases hO : m.st.peers.filter (isOkP (tipHeight m.st.store)) = []
        · right
          refine ⟨hB, hO, ?_⟩
          unfold syncCandidates; rw [hBP, hOK, hB, hO]; rfl
        · left
          have hpos : 0 < (m.st.peers.filter (isOkP (tipHeight m.st.store))).length := List.length_pos_iff.2 hO
          have hlt := Nat.mod_lt env.pick hpos
          refine ⟨_, (m.st.peers.filter (isOkP (tipHeight m.st.store)))[env.pick % _]'hlt, hO, ?_, List.getElem?_eq_getElem hlt, ?_, ?_, Or.inr ⟨hB, rfl⟩⟩
          · unfold syncCandidates; rw [hBP, hOK, hB]; rfl
          · exact (List.mem_filter.1 (List.getElem_mem hlt)).1
          · exact isOkP_ge _ _ (List.mem_filter.1 (List.getElem_mem hlt)).2
      · left
        have hpos : 0 < (m.st.peers.filter (isBestP (tipHeight m.st.store))).length := List.length_pos_iff.2 hB
        have hlt := Nat.mod_lt env.pick hpos
        refine ⟨_, (m.st.peers.filter (isBestP (tipHeight m.st.store)))[env.pick % _]'hlt, hB, ?_, List.getElem?_eq_getElem hlt, ?_, ?_, Or.inl rfl⟩
        · unfold syncCandidates; rw [hBP]
          have : (m.st.peers.filter (isBestP (tipHeight m.st.store))).isEmpty = false := by
            cases h : m.st.peers.filter (isBestP (tipHeight m.st.store)) with
            | nil => exact absurd h hB
            | cons _ _ => rfl
          rw [this]; rfl
        · exact (List.mem_filter.1 (List.getElem_mem hlt)).1
        · exact isBestP_ge _ _ (List.mem_filter.1 (List.getElem_mem hlt)).2
    unfold Gen.SyncMgr.startSync
    simp only [bind_run, getSyncPeer_run, hs, Option.isSome_none, Bool.false_eq_true, if_false, ite_run, headersGetTipHeight_run,
      peerStatesRange_run, hloop, pure_run]
    rcases hchoice with ⟨xs, bp, hne, hcands, hget, hmem, hge, hwhich⟩ | ⟨hB, hO, hcands⟩
    · have hbp : (syncCandidates m.st)[env.pick % (syncCandidates m.st).length]? = some bp := by rw [hcands]; exact hget
      rw [startSync_chosen cfg m.st env.pick bp hs hbp]
      have hlk := lookup_demoted (tipHeight m.st.store) m.st.peers hnd bp hmem hge
      have hxpos : 0 < xs.length := List.length_pos_iff.2 hne
      have hidx : ∀ m' : MState H, (index (xs.map (·.id)) ((env.pick % xs.length : Nat) : Int) : SyncM H Nat) m' = (.ok bp.id, m') := by
        intro m'
        exact index_nat _ _ _ (by rw [List.getElem?_map, hget]; rfl) m'
      have hlen : lenOf (xs.map (·.id)) = ((xs.length : Nat) : Int) := by unfold lenOf; rw [List.length_map]
      have hgt : ((xs.length : Nat) : Int) > 0 := by omega
      rcases hwhich with hx | ⟨hB, hx⟩
      · rw [← hx]
        simp only [hlen, hgt, decide_true, if_true, bind_run, randInt_run, Option.isNone_none, hidx, Option.isSome_some,
          headersLocator_run, deref_some_run, getNextCheckpoint_run, pure_run, ite_run]
        cases hc : m.st.nextCp with
        | none => simp [bind_run, ite_run, pushTo_known _ _ _ _ _ _ bp _ _ hlk, peerSetSyncPeer, isRegressionNet]
        | some c =>
          by_cases hlt : tipHeight m.st.store < c.1
          · have : ((tipHeight m.st.store : Int) < cpHeight c) := by unfold cpHeight; omega
            simp [bind_run, ite_run, pushTo_known _ _ _ _ _ _ bp _ _ hlk, peerSetSyncPeer, isRegressionNet, hlt, this, cpHash]
          · have : ¬ ((tipHeight m.st.store : Int) < cpHeight c) := by unfold cpHeight; omega
            simp [bind_run, ite_run, pushTo_known _ _ _ _ _ _ bp _ _ hlk, peerSetSyncPeer, isRegressionNet, hlt, this, cpHash]
      · rw [hB, ← hx]
        have hl0 : ¬ (lenOf (([] : List (PeerSt H)).map (·.id)) > (0 : Int)) := by simp [lenOf]
        simp only [hl0, decide_false, Bool.false_eq_true, if_false, hlen, hgt, decide_true, if_true, bind_run, randInt_run,
          Option.isNone_none, hidx, Option.isSome_some, headersLocator_run, deref_some_run, getNextCheckpoint_run, pure_run, ite_run]
        cases hc : m.st.nextCp with
        | none => simp [bind_run, ite_run, pushTo_known _ _ _ _ _ _ bp _ _ hlk, peerSetSyncPeer, isRegressionNet]
        | some c =>
          by_cases hlt : tipHeight m.st.store < c.1
          · have : ((tipHeight m.st.store : Int) < cpHeight c) := by unfold cpHeight; omega
            simp [bind_run, ite_run, pushTo_known _ _ _ _ _ _ bp _ _ hlk, peerSetSyncPeer, isRegressionNet, hlt, this, cpHash]
          · have : ¬ ((tipHeight m.st.store : Int) < cpHeight c) := by unfold cpHeight; omega
            simp [bind_run, ite_run, pushTo_known _ _ _ _ _ _ bp _ _ hlk, peerSetSyncPeer, isRegressionNet, hlt, this, cpHash]
    · have hbp : (syncCandidates m.st)[env.pick % (syncCandidates m.st).length]? = none := by rw [hcands]; rfl
      rw [startSync_nobody cfg m.st env.pick hs hbp, hB, hO]
      simp [lenOf, bind_run, ite_run, hs]

/-! ### the peer table is a finite map: ids are distinct — an invariant of every hand-model step -/

theorem update_ids (ps : List (PeerSt H)) (q : PeerSt H) : (update ps q).map (·.id) = ps.map (·.id) := (update_frame ps q).1

theorem update_update (ps : List (PeerSt H)) (a b : PeerSt H) (h : a.id = b.id) : update (update ps a) b = update ps b := by
  unfold update
  rw [List.map_map]
  apply List.map_congr_left
  intro r _
  simp only [Function.comp]
  by_cases c : (r.id == a.id) = true
  · rw [if_pos c]
    have : (a.id == b.id) = true := by simp [h]
    have c' : (r.id == b.id) = true := by rw [← h]; exact c
    rw [if_pos this, if_pos c']
  · rw [if_neg c]

theorem disconnectPeer_ids (ps : List (PeerSt H)) (p : Nat) : (disconnectPeer ps p).1.map (·.id) = ps.map (·.id) :=
  (disconnectPeer_frame ps p).1

theorem pushTo_ids (st : State H) (p : Nat) (loc : List H) (stop : H) :
    (pushTo st p loc stop).1.peers.map (·.id) = st.peers.map (·.id) := (pushTo_frame st p loc stop).1

theorem startSync_ids (cfg : Sync.Cfg H) (st : State H) (pick : Nat) :
    (Sync.startSync cfg st pick).1.peers.map (·.id) = st.peers.map (·.id) := by
  unfold Sync.startSync
  split
  · rfl
  · have hmap : (st.peers.map (fun q => if q.inMap && q.candidate && decide (q.lastBlock < ((tipHeight st.store : Nat) : Int))
        then { q with candidate := false } else q)).map (·.id) = st.peers.map (·.id) := map_demote_ids (tipHeight st.store) st.peers
    simp only []
    split
    · exact hmap
    · split
      · simp only [update_ids]; exact hmap
      · simp only [update_ids]; exact hmap

theorem updateSyncPeer_ids (cfg : Sync.Cfg H) (st : State H) (pick : Nat) :
    (Sync.updateSyncPeer cfg st pick).1.peers.map (·.id) = st.peers.map (·.id) := by
  unfold Sync.updateSyncPeer
  split
  · rfl
  · simp only [startSync_ids, disconnectPeer_ids]

/-! ### updateSyncPeer, handleDonePeerMsg, handleCheckSyncPeer, handleNewPeerMsg -/

theorem updateSyncPeer_run (cfg : Sync.Cfg H) (env : Env) (m : MState H) (sp : Nat) (hs : m.st.syncPeer = some sp)
    (hnd : (m.st.peers.map (·.id)).Nodup) :
    Gen.SyncMgr.updateSyncPeer cfg env m =
      (.ok (), { st := (Sync.updateSyncPeer cfg m.st env.pick).1, acts := m.acts ++ (Sync.updateSyncPeer cfg m.st env.pick).2 }) := by
  unfold Gen.SyncMgr.updateSyncPeer Sync.updateSyncPeer
  have hnd' : ((disconnectPeer m.st.peers sp).1.map (·.id)).Nodup := by rw [disconnectPeer_ids]; exact hnd
  simp only [bind_run, getSyncPeer_run, hs, deref_some_run, peerDisconnect_run, peerSetSyncPeer, pure_run, setSyncPeer_run,
    getHeadersFirstMode_run, ite_run, ite_self]
  have hstart := startSync_main cfg env
    { st := { m.st with peers := (disconnectPeer m.st.peers sp).1, syncPeer := none }, acts := m.acts ++ (disconnectPeer m.st.peers sp).2 } hnd'
  rw [hstart]
  simp [List.append_assoc]

theorem peerStatesDelete_run (p : Nat) (m : MState H) :
    peerStatesDelete p m = (.ok (), { m with st := (match lookup m.st.peers p with
      | some q => { m.st with peers := update m.st.peers { q with inMap := false } }
      | none => m.st) }) := rfl

theorem handleDonePeerMsg_run (cfg : Sync.Cfg H) (env : Env) (st : State H) (p : Nat) (hnd : (st.peers.map (·.id)).Nodup) :
    (Gen.SyncMgr.handleDonePeerMsg cfg env p { st := markDisconnected st p, acts := [] }).2 =
      { st := (donePeer cfg st p env.pick).1, acts := (donePeer cfg st p env.pick).2 } := by
  unfold Gen.SyncMgr.handleDonePeerMsg donePeer markDisconnected
  cases hq : lookup st.peers p with
  | none => simp [bind_run, ite_run, hq]
  | some q =>
    obtain ⟨qid, qin, qc, qlb, qsh, qpb, qps, qd⟩ := q
    cases qin with
    | false => simp [bind_run, ite_run, hq]
    | true =>
      have hl1 : lookup (update st.peers ⟨qid, true, qc, qlb, qsh, qpb, qps, true⟩) p = some ⟨qid, true, qc, qlb, qsh, qpb, qps, true⟩ :=
        lookup_update hq rfl
      have hup : update (update st.peers ⟨qid, true, qc, qlb, qsh, qpb, qps, true⟩) ⟨qid, false, qc, qlb, qsh, qpb, qps, true⟩ =
          update st.peers ⟨qid, false, qc, qlb, qsh, qpb, qps, true⟩ := update_update _ _ _ rfl
      simp only [if_true, bind_run, peerStatesHas_run, hl1, Bool.not_true, Bool.false_eq_true, if_false, ite_run,
        peerStatesDelete_run, hup, getSyncPeer_run, pure_run, hq]
      by_cases hs : st.syncPeer = some p
      · have hs' : some p = st.syncPeer := hs.symm
        have hnd' : ((update st.peers ⟨qid, false, qc, qlb, qsh, qpb, qps, true⟩).map (·.id)).Nodup := by rw [update_ids]; exact hnd
        have := updateSyncPeer_run cfg env
          { st := { st with peers := update st.peers ⟨qid, false, qc, qlb, qsh, qpb, qps, true⟩ }, acts := [] } p hs hnd'
        simp only [hs] at this
        simp [hs, this]
      · have hs' : ¬ (some p = st.syncPeer) := fun e => hs e.symm
        simp [hs, hs']

theorem topBlock_run (cfg : Sync.Cfg H) (env : Env) (m : MState H) (sp : Nat) (hs : m.st.syncPeer = some sp) :
    Gen.SyncMgr.topBlock cfg env m = match lookup m.st.peers sp with
      | some q => (.ok (max q.lastBlock q.startHeight), m)
      | none => (.fault .unknownPeerObject, { m with acts := m.acts ++ [.panic] }) := by
  unfold Gen.SyncMgr.topBlock
  cases hl : lookup m.st.peers sp with
  | none => simp [bind_run, ite_run, hs, peerLastBlock_run, hl]
  | some q =>
    by_cases h : q.lastBlock > q.startHeight
    · have : max q.lastBlock q.startHeight = q.lastBlock := by omega
      have h' : q.startHeight < q.lastBlock := h
      simp [bind_run, ite_run, hs, peerLastBlock_run, peerStartingHeight_run, hl, h', this]
    · have : max q.lastBlock q.startHeight = q.startHeight := by omega
      have h' : ¬ (q.startHeight < q.lastBlock) := h
      simp [bind_run, ite_run, hs, peerLastBlock_run, peerStartingHeight_run, hl, h', this]

theorem handleCheckSyncPeer_run (cfg : Sync.Cfg H) (env : Env) (st : State H) (hnd : (st.peers.map (·.id)).Nodup) :
    (Gen.SyncMgr.handleCheckSyncPeer cfg env { st := st, acts := [] }).2 =
      { st := (tick cfg st (staleOf env) env.pick).1, acts := (tick cfg st (staleOf env) env.pick).2 } := by
  unfold Gen.SyncMgr.handleCheckSyncPeer tick
  cases hs : st.syncPeer with
  | none => simp [bind_run, ite_run, shutdownFlag, hs]
  | some sp =>
    cases hst : staleOf env with
    | false =>
      have : (decide (env.violations < maxNetworkViolations) && decide (env.sinceLastBlock ≤ maxLastBlockTime)) = true := by
        unfold staleOf at hst
        cases h : (decide (env.violations < maxNetworkViolations) && decide (env.sinceLastBlock ≤ maxLastBlockTime)) with
        | true => rfl
        | false => rw [h] at hst; cases hst
      simp [bind_run, ite_run, shutdownFlag, hs, this]
    | true =>
      have : (decide (env.violations < maxNetworkViolations) && decide (env.sinceLastBlock ≤ maxLastBlockTime)) = false := by
        unfold staleOf at hst
        cases h : (decide (env.violations < maxNetworkViolations) && decide (env.sinceLastBlock ≤ maxLastBlockTime)) with
        | false => rfl
        | true => rw [h] at hst; cases hst
      simp only [bind_run, ite_run, shutdownFlag, pure_run, getSyncPeer_run, hs, this, Option.isNone_some, Bool.false_eq_true, if_false,
        headersGetTip_run, Bool.not_true, topBlock_run cfg env { st := st, acts := [] } sp hs, decide_false]
      cases hl : lookup st.peers sp with
      | none => cases getTip st.store <;> simp
      | some q =>
        cases ht : getTip st.store with
        | none => simp
        | some best =>
          have hex : exhausted q best.height = decide (max q.lastBlock q.startHeight ≤ (best.height : Int)) := by
            unfold exhausted; simp [f4dFixed]
          simp only [deref_some_run, rowHeight, hex, peerStatesHasOpt, peerStatesHas_run, hl, hs]
          by_cases hle : max q.lastBlock q.startHeight ≤ (best.height : Int)
          · simp [hle]
          · cases hin : q.inMap with
            | false => simp [hle, hin]
            | true =>
              have := updateSyncPeer_run cfg env { st := st, acts := [] } sp hs hnd
              simp [hle, hin, this]

theorem isSyncCandidate_run (cfg : Sync.Cfg H) (env : Env) (p : Nat) (m : MState H) :
    Gen.SyncMgr.isSyncCandidate cfg env p m = (.ok (isFullNode env p), m) := by
  unfold Gen.SyncMgr.isSyncCandidate isFullNode peerServices
  by_cases h : bitAnd (env.services p : Int) sfNodeNetwork = sfNodeNetwork <;> simp [bind_run, ite_run, h]

theorem insert_ids_nodup (ps : List (PeerSt H)) (q : PeerSt H) (hnd : (ps.map (·.id)).Nodup) : ((Sync.insert ps q).map (·.id)).Nodup := by
  unfold Sync.insert
  split
  · rw [update_ids]; exact hnd
  · rename_i h
    rw [List.map_append, List.map_singleton]
    refine List.nodup_append.2 ⟨hnd, by simp, ?_⟩
    intro a ha b hb e
    rw [List.mem_singleton.1 hb] at e
    obtain ⟨r, hr, hid⟩ := List.mem_map.1 ha
    have : lookup ps q.id ≠ none := by
      unfold lookup
      intro hn
      rw [List.find?_eq_none] at hn
      exact hn r hr (by simp [hid, e])
    cases hl : lookup ps q.id with
    | none => exact this hl
    | some _ => rw [hl] at h; exact h rfl

theorem lookup_insert (ps : List (PeerSt H)) (q : PeerSt H) : lookup (Sync.insert ps q) q.id = some q := by
  unfold Sync.insert
  cases hl : lookup ps q.id with
  | some r => simp only [Option.isSome_some, if_true]; exact lookup_update hl (lookup_mem hl).2.symm
  | none =>
    simp only [Option.isSome_none, Bool.false_eq_true, if_false]
    unfold lookup at hl ⊢
    rw [List.find?_append, hl]
    simp

theorem update_insert (ps : List (PeerSt H)) (q0 q1 : PeerSt H) (h : q1.id = q0.id) :
    update (Sync.insert ps q0) q1 = Sync.insert ps q1 := by
  unfold Sync.insert
  rw [h]
  cases hl : lookup ps q0.id with
  | some r => simp only [Option.isSome_some, if_true]; exact update_update ps q0 q1 h.symm
  | none =>
    simp only [Option.isSome_none, Bool.false_eq_true, if_false]
    have hno : q0.id ∉ ps.map (·.id) := by
      intro hm
      obtain ⟨r, hr, hid⟩ := List.mem_map.1 hm
      unfold lookup at hl
      rw [List.find?_eq_none] at hl
      exact hl r hr (by simp [hid])
    have := update_mid ps [] q0 q1 h hno (by simp)
    exact this

theorem peerStatesPut_run (p : Nat) (c : Bool) (m : MState H) :
    peerStatesPut p c m = (.ok (), { m with st := (match lookup m.st.peers p with
      | some q => { m.st with peers := update m.st.peers { q with inMap := true, candidate := c } }
      | none => m.st) }) := rfl

theorem handleNewPeerMsg_run (cfg : Sync.Cfg H) (env : Env) (st : State H) (p : Nat) (lb : Int) (hnd : (st.peers.map (·.id)).Nodup) :
    (Gen.SyncMgr.handleNewPeerMsg cfg env p { st := withPeerObject st p lb, acts := [] }).2 =
      { st := (newPeer cfg st p (isFullNode env p) lb env.pick).1, acts := (newPeer cfg st p (isFullNode env p) lb env.pick).2 } := by
  unfold Gen.SyncMgr.handleNewPeerMsg newPeer withPeerObject
  simp only [bind_run, shutdownFlag, pure_run, ite_run, isSyncCandidate_run, peerStatesPut_run, getSyncPeer_run]
  generalize isFullNode env p = c
  have hl := lookup_insert st.peers (⟨p, false, false, lb, lb, none, none, false⟩ : PeerSt H)
  have hup := update_insert st.peers (⟨p, false, false, lb, lb, none, none, false⟩ : PeerSt H) (⟨p, true, c, lb, lb, none, none, false⟩ : PeerSt H) rfl
  have hnd' := insert_ids_nodup st.peers (⟨p, true, c, lb, lb, none, none, false⟩ : PeerSt H) hnd
  have hstart := startSync_main cfg env { st := { st with peers := Sync.insert st.peers (⟨p, true, c, lb, lb, none, none, false⟩ : PeerSt H) }, acts := [] } hnd'
  simp only [hl, hup]
  cases hs : st.syncPeer with
  | some sp => cases c <;> simp [hs]
  | none =>
    simp only [hs] at hstart
    cases c with
    | false => simp [hs]
    | true => simp [hs, hstart]

/-! ### New -/

theorem New_run (cfg : Sync.Cfg H) (env : Env) (store : Store H) :
    Gen.SyncMgr.New cfg env { st := blank store, acts := [] } = (.ok none, { st := Sync.new cfg store, acts := [] }) := by
  unfold Gen.SyncMgr.New Sync.new blank
  cases hd : cfg.disableCp with
  | true => simp [bind_run, ite_run, f4aFixed]
  | false =>
    have hcast : ∀ m : MState H, findNextHeaderCheckpoint cfg env ((tipHeight store : Nat) : Int) m = (.ok (findNext cfg.checkpoints (tipHeight store)), m) :=
      fun m => findNext_run cfg env (tipHeight store) m
    cases hn : findNext cfg.checkpoints (tipHeight store) <;> simp [bind_run, ite_run, hcast, hn]

/-! ### distinct ids: preserved by every step of the hand model -/

/-- the peer table represents a finite map -/
def IdsNodup (st : State H) : Prop := (st.peers.map (·.id)).Nodup

theorem new_nodup (cfg : Sync.Cfg H) (store : Store H) : IdsNodup (Sync.new cfg store) := by
  unfold IdsNodup Sync.new
  split <;> exact List.nodup_nil

theorem newPeer_nodup (cfg : Sync.Cfg H) (st : State H) (p : Nat) (c : Bool) (lb : Int) (pick : Nat) (h : IdsNodup st) :
    IdsNodup (newPeer cfg st p c lb pick).1 := by
  unfold IdsNodup newPeer
  simp only []
  split
  · rw [startSync_ids]; exact insert_ids_nodup _ _ h
  · exact insert_ids_nodup _ _ h

theorem donePeer_nodup (cfg : Sync.Cfg H) (st : State H) (p pick : Nat) (h : IdsNodup st) : IdsNodup (donePeer cfg st p pick).1 := by
  unfold IdsNodup donePeer
  split
  · exact h
  · split
    · exact h
    · simp only []
      split
      · rw [updateSyncPeer_ids, update_ids]; exact h
      · rw [update_ids]; exact h

theorem handleHeaders_nodup (cfg : Sync.Cfg H) (st : State H) (p : Nat) (hs : List (Src H)) (h : IdsNodup st) :
    IdsNodup (handleHeaders cfg st p hs).1 := by
  unfold IdsNodup
  rw [(handleHeaders_frame cfg st p hs).1.1]; exact h

theorem tick_nodup (cfg : Sync.Cfg H) (st : State H) (stale : Bool) (pick : Nat) (h : IdsNodup st) :
    IdsNodup (tick cfg st stale pick).1 := by
  unfold IdsNodup tick
  split
  · exact h
  · split
    · exact h
    · split
      · split
        · exact h
        · split
          · exact h
          · rw [updateSyncPeer_ids]; exact h
      · exact h

theorem handleInv_nodup (cfg : Sync.Cfg H) (st : State H) (p : Nat) (invs : List (Bool × H)) (h : IdsNodup st) :
    IdsNodup (handleInv cfg st p invs).1 := by
  unfold IdsNodup handleInv
  split
  · exact h
  · split
    · exact h
    · split
      · exact h
      · simp only []
        split
        · split
          · exact h
          · split
            · exact h
            · split
              · exact h
              · split
                · split
                  · rw [update_ids]; exact h
                  · rw [pushTo_ids]; exact h
                · rw [pushTo_ids]; exact h
        · exact h

theorem step_nodup (cfg : Sync.Cfg H) (st : State H) (pick : Nat) (ev : Event H) (h : IdsNodup st) :
    IdsNodup (step cfg st pick ev).1 := by
  cases ev with
  | newPeer p c lb => exact newPeer_nodup cfg st p c lb pick h
  | headers p hs => exact handleHeaders_nodup cfg st p hs h
  | inv p invs => exact handleInv_nodup cfg st p invs h
  | donePeer p => exact donePeer_nodup cfg st p pick h
  | tick stale => exact tick_nodup cfg st stale pick h

end BHS.Sync.Refine
