/-
Helper lemmas for the refinement `generated import = hand model` (BHS/Props/ImportGen.lean): the constants, the
representation invariants (cumulated work as a string, rowid 0), `classify` on the literal messages, the primitives of
BHS/Model/ImportPrim.lean on concrete arguments, and the shapes in which results of the generated loops are compared
with the hand model's results. The refinement theorems themselves (one per translated Go function) are in Props.
-/
import BHS.Gen.Import
import BHS.Proofs.ImpExp

set_option linter.unusedSectionVars false
set_option linter.unusedVariables false
set_option linter.unusedSimpArgs false

namespace BHS.Proofs.ImportGen
open BHS BHS.Chain BHS.ImpExp BHS.ImportPrim BHS.Gen.Import

variable {H : Type} [DecidableEq H]

/-- the constants of the Go source with the batch size as a parameter -/
def kOf (bs : Nat) : Consts := { consts with sqliteBatchSize := (bs : Int) }

theorem kOf_batch (bs : Nat) : (kOf bs).sqliteBatchSize = (bs : Int) := rfl

/-- the string the import carries for the cumulated work `n`: the `String()` of a big integer — or the empty literal of
    `var cumulatedChainWork string` before the first record, which parseBigInt reads as 0 -/
def CumOk (s : GoStr H) (n : Nat) : Prop := s = .dec n ∨ (s = .lit "" ∧ n = 0)

theorem parseBigInt_cumOk {s : GoStr H} {n : Nat} (h : CumOk s n) (w : World H) : parseBigInt s w = (.ok n, w) := by
  rcases h with rfl | ⟨rfl, rfl⟩ <;> rfl

/-- a row as the Go code builds it: the rowid is not a Go field -/
def zeroId (r : Row H) : Row H := { r with id := 0 }

theorem insertRow_zeroId (s : Store H) (r : Row H) : insertRow s (zeroId r) = insertRow s r := by
  unfold insertRow zeroId; rfl

theorem commitBatch_zeroId (rows : List (Row H)) (tbl : Store H) : commitBatch tbl (rows.map zeroId) = commitBatch tbl rows := by
  induction rows generalizing tbl with
  | nil => rfl
  | cons r rest ih => simp only [commitBatch, List.map_cons, List.foldl_cons, insertRow_zeroId] at ih ⊢; exact ih _

/-! ### `classify` on the messages of the Go text (by evaluation: the format strings are literals) -/

theorem classify_onHeight (h : Int) (e' : Err) (e : RowErr) (hf : fieldErr e' = some e) (hh : 0 ≤ h) :
    classify (.errorf "error while parsing values from block on height %d: %w" [h] e') = .refused (.row h.toNat e) := by
  show (match fieldErr e' with
    | some fe => if 0 ≤ h then Observed.refused (.row h.toNat fe) else .refusedOther
    | none => .refusedOther) = _
  simp only [hf, hh, if_true]

theorem classify_fieldCount (n : Nat) :
    classify (.errorf "error reading record: %v" [] (.csvFieldCount n)) = .refused (.row (n - 1) .fieldCount) := rfl

set_option maxRecDepth 8000 in
theorem classify_count (a : List Int) (w : Err) :
    classify (.errorf "database is not consistent with csv file, imported %d headers, number of headers in database %d" a w) =
      .refused .count := rfl

set_option maxRecDepth 8000 in
theorem classify_maxHeight (a : List Int) (w : Err) :
    classify (.errorf "database is not consistent with csv file, current maximum header height (%d) is different from imported headers number -1 (%d)" a w) =
      .refused .maxHeight := rfl

set_option maxRecDepth 8000 in
theorem classify_heights (a : List Int) :
    classify (.errorf "database is not consistent with csv file, %w" a
      (.new "height values are not unique(they should be just after import)")) = .refused .heights := rfl

set_option maxRecDepth 8000 in
theorem classify_cpAbsent (a b : List Int) (w : Err) :
    classify (.errorf "database is not consistent with csv file, %w" a
      (.errorf "newest checkpoint block with height \"%d\" is not present in the database" b w)) = .refused .checkpointAbsent := rfl

set_option maxRecDepth 8000 in
theorem classify_cpMismatch (a b : List Int) (w : Err) :
    classify (.errorf "database is not consistent with csv file, %w" a
      (.errorf "newest checkpoint block has different hash \"%s\" than hash \"%s\" of block in database with the same height (%d)" b w)) =
      .refused .checkpointMismatch := rfl

/-! ### primitives on concrete arguments -/

@[simp] theorem deref_some {α : Type} (a : α) (w : World H) : (deref (some a) : ImpM H α) w = (.ok a, w) := rfl

/-! ### small facts -/


@[simp] theorem zeroId_hash (r : Row H) : (zeroId r).hash = r.hash := rfl
@[simp] theorem zeroId_cum (r : Row H) : (zeroId r).cum = r.cum := rfl

theorem world_upd_self (w : World H) (rd : List Record) (nread : Nat) (h1 : rd = w.rd) (h2 : nread = w.nread) :
    ({ w with rd := rd, nread := nread } : World H) = w := by subst h1 h2; cases w; rfl


theorem prepareBatch_idx (cfg : Cfg H) (cd : Codec H) (k : Nat) (l : List Record) (acc : Acc H) (rows : List (Row H))
    (acc' : Acc H) (h : prepareBatch cfg cd k l acc = .ok rows acc') : acc'.idx = acc.idx + l.length := by
  induction l generalizing acc rows with
  | nil => rw [prepareBatch_nil] at h; simp only [BatchRes.ok.injEq] at h; rw [← h.2]; rfl
  | cons rec rest ih =>
    rw [prepareBatch_cons] at h
    cases hp : parseRecord cd k acc.prev rec with
    | malformed e => rw [hp] at h; cases h
    | outside => rw [hp] at h; cases h
    | ok x =>
      rw [hp] at h
      simp only [] at h
      cases hr : prepareBatch cfg cd k rest (nextAcc (mkImported cfg x acc) acc) with
      | bad i e => rw [hr] at h; cases h
      | outside i => rw [hr] at h; cases h
      | ok rows' a' =>
        rw [hr] at h
        simp only [BatchRes.ok.injEq] at h
        obtain ⟨-, rfl⟩ := h
        have := ih _ _ hr
        rw [this, List.length_cons]
        simp only [nextAcc]
        omega

/-- how a result of the adapter's loop corresponds to the hand model's result for the same batches -/
def LoopOk (r : Except Abort (Ctl (Int × Option Err × GoStr H × GoStr H × Int × Int) (Int × Option Err)) × World H)
    (w0 : World H) (t : Store H) : ImportRes → Prop
  | .done n => ∃ a b c d w', r = (.ok (.next ((n : Int), none, a, b, c, d)), w') ∧ w'.tbl = t ∧ w'.cps = w0.cps
  | .rowError j e => ∃ ar e' w', r = (.ok (.ret (ar, some e')), w') ∧ w'.tbl = t ∧ classify e' = .refused (.row j e)
  | .outside _ => ∃ w', r = (.error .outside, w') ∧ w'.tbl = t
  | .noHeaderLine => False


/-- how the adapter's result corresponds to the hand model's `importFile` -/
def AdapterOk (r : Except Abort (Int × Option Err) × World H) (w0 : World H) (t : Store H) : ImportRes → Prop
  | .done n => ∃ w' : World H, r = (.ok ((n : Int), none), w') ∧ w'.tbl = t ∧ w'.cps = w0.cps
  | .rowError j e => ∃ a e', ∃ w' : World H, r = (.ok (a, some e'), w') ∧ w'.tbl = t ∧ classify e' = .refused (.row j e)
  | .outside _ => ∃ w' : World H, r = (.error .outside, w') ∧ w'.tbl = t
  | .noHeaderLine => ∃ a, ∃ w' : World H, r = (.ok (a, some .eof), w') ∧ w'.tbl = t

/-! ### the SQL statements and `config.Checkpoints[len-1]` -/

theorem sqlExec_create (ints : List Int) (strs : List (GoStr H)) (w : World H) :
    sqlExec ⟨"CREATE UNIQUE INDEX %s ON headers (height)", ints, strs⟩ w =
      if (w.tbl.map (·.height)).Nodup then (.ok none, w) else (.ok (some .sql), w) := rfl

theorem sqlExec_drop (ints : List Int) (strs : List (GoStr H)) (w : World H) :
    sqlExec ⟨"DROP INDEX %s;", ints, strs⟩ w = (.ok none, w) := rfl

theorem sqlExec_delete (w : World H) :
    sqlExec (Fmt.ofStr (.lit "DELETE FROM headers")) w = (.ok none, { w with tbl := [] }) := rfl

theorem sqlGet_select (dest : GoStr H) (h : Int) (w : World H) :
    sqlGet dest ⟨"SELECT hash FROM %s WHERE height = %d", [h], [.lit "headers"]⟩ w =
      match w.tbl.find? (fun r => decide ((r.height : Int) = h)) with
      | some r => (.ok (.hash r.hash, none), w)
      | none => (.ok (dest, some .sql), w) := rfl

theorem index_last {α : Type} (xs : List α) (w : World H) :
    index xs ((xs.length : Int) - 1) w = match xs.getLast? with
      | some a => (.ok a, w)
      | none => (.error .panic, w) := by
  cases xs with
  | nil => simp [index]
  | cons a rest =>
    have h1 : ¬ (((a :: rest).length : Int) - 1 < 0) := by simp only [List.length_cons]; omega
    have h2 : (((a :: rest).length : Int) - 1).toNat = (a :: rest).length - 1 := by simp only [List.length_cons]; omega
    unfold index
    rw [if_neg h1, h2, ← List.getLast?_eq_getElem?]
    cases (a :: rest).getLast? <;> rfl

end BHS.Proofs.ImportGen
