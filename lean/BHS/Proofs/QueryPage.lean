/-
Helper lemmas for C08 / C13 (3/3): the page functions (`lastEvalHeight`, `rootsAfter`, `page`) and the getheaders
functions (`startHeight`, `stopHeight`, `rangeLc`) expressed over the sorted longest chain `lcAsc s`:
a page is the slice `(lcAsc s).drop i |>.take n`, a getheaders range is the slice `drop lo |>.take (hi + 1 - lo)`.
Core Lean only.
-/
import BHS.Proofs.QueryLc

set_option linter.unusedSectionVars false

namespace BHS.Chain
variable {H : Type} [DecidableEq H]

-- answers (`Except`) are compared by `decide` in the non-vacuity examples of Props/C08 and Props/C13
deriving instance DecidableEq for Except

/-! ### the page key lookup -/

theorem find_merkle_none {s : Store H} {k : H} (h : ∀ r ∈ s, r.merkle ≠ k) :
    s.find? (fun r => decide (r.merkle = k)) = none := by
  rw [List.find?_eq_none]
  intro r hr e
  exact h r hr (of_decide_eq_true e)

/-- with pairwise distinct merkle roots the lookup by merkle root returns THE row -/
theorem find_merkle_mem {s : Store H} (hm : (s.map (·.merkle)).Nodup) {r : Row H} (hr : r ∈ s) :
    s.find? (fun a => decide (a.merkle = r.merkle)) = some r := by
  cases e : s.find? (fun a => decide (a.merkle = r.merkle)) with
  | none =>
    rw [List.find?_eq_none] at e
    exact absurd (decide_eq_true rfl) (e r hr)
  | some r' =>
    have h1 := List.mem_of_find?_eq_some e
    have h2' := List.find?_some e
    have h2 : r'.merkle = r.merkle := of_decide_eq_true h2'
    rw [inj_of_nodup_map (·.merkle) hm h1 hr h2]

theorem lastEvalHeight_notFound {s : Store H} {k : H} (h : ∀ r ∈ s, r.merkle ≠ k) :
    lastEvalHeight s (some k) = .error .notFound := by
  simp only [lastEvalHeight, find_merkle_none h]

theorem lastEvalHeight_lc {s : Store H} (hm : (s.map (·.merkle)).Nodup) {r : Row H} (hr : r ∈ s)
    (hl : r.st = .lc) : lastEvalHeight s (some r.merkle) = .ok (r.height : Int) := by
  simp only [lastEvalHeight, find_merkle_mem hm hr, hl, if_true]

theorem lastEvalHeight_notLc {s : Store H} (hm : (s.map (·.merkle)).Nodup) {r : Row H} (hr : r ∈ s)
    (hl : r.st ≠ .lc) : lastEvalHeight s (some r.merkle) = .error .notLc := by
  simp only [lastEvalHeight, find_merkle_mem hm hr, hl, if_false]

/-- what a successful key lookup says, without any hypothesis on the store -/
theorem lastEvalHeight_ok {s : Store H} {key : Option H} {h : Int} (e : lastEvalHeight s key = .ok h) :
    (key = none ∧ h = -1) ∨ ∃ k r, key = some k ∧ r ∈ s ∧ r.merkle = k ∧ r.st = .lc ∧ h = r.height := by
  cases key with
  | none =>
    simp only [lastEvalHeight] at e
    cases e; exact Or.inl ⟨rfl, rfl⟩
  | some k =>
    right
    simp only [lastEvalHeight] at e
    cases e' : s.find? (fun r => decide (r.merkle = k)) with
    | none => rw [e'] at e; cases e
    | some r =>
      rw [e'] at e
      simp only at e
      by_cases hl : r.st = .lc
      · rw [if_pos hl] at e
        cases e
        have h2 := List.find?_some e'
        exact ⟨k, r, rfl, List.mem_of_find?_eq_some e', of_decide_eq_true h2, hl, rfl⟩
      · rw [if_neg hl] at e; cases e

/-! ### pages -/

/-- the `lastEvaluatedKey` of a page -/
def pageKey (t : Row H) (rows : List (Row H)) : Option H :=
  match rows.getLast? with
  | none => none
  | some last => if t.merkle = last.merkle then none else some last.merkle

theorem page_eq {s : Store H} {n : Nat} {key : Option H} {h : Int} {t : Row H}
    (e : lastEvalHeight s key = .ok h) (ht : getTip s = some t) :
    page s n key = .ok (rootsAfter s h n, pageKey t (rootsAfter s h n)) := by
  simp only [page, e, ht, pageKey]
  cases (rootsAfter s h n).getLast? <;> rfl

theorem page_error {s : Store H} {n : Nat} {key : Option H} {err : PageErr}
    (e : lastEvalHeight s key = .error err) : page s n key = .error err := by
  simp only [page, e]

/-- a successful page: the key was resolved, there is a tip, the rows are `rootsAfter` -/
theorem page_ok {s : Store H} {n : Nat} {key : Option H} {rows : List (Row H)} {k' : Option H}
    (e : page s n key = .ok (rows, k')) :
    ∃ h t, lastEvalHeight s key = .ok h ∧ getTip s = some t ∧ rows = rootsAfter s h n ∧ k' = pageKey t rows := by
  cases e1 : lastEvalHeight s key with
  | error err => rw [page_error e1] at e; cases e
  | ok h =>
    cases e2 : getTip s with
    | none => simp only [page, e1, e2] at e; cases e
    | some t =>
      rw [page_eq e1 e2] at e
      cases e
      exact ⟨h, t, rfl, rfl, rfl, rfl⟩

/-- every row of `rootsAfter` is a LONGEST_CHAIN row above the given height; at most `n` of them -/
theorem mem_rootsAfter {s : Store H} {h : Int} {n : Nat} {r : Row H} (hr : r ∈ rootsAfter s h n) :
    r ∈ s ∧ r.st = .lc ∧ h < (r.height : Int) := by
  unfold rootsAfter at hr
  have := List.mem_filter.1 (List.mem_of_mem_take hr)
  have hm := mem_lcAsc.1 this.1
  exact ⟨hm.1, hm.2, of_decide_eq_true this.2⟩

theorem length_rootsAfter_le (s : Store H) (h : Int) (n : Nat) : (rootsAfter s h n).length ≤ n := by
  unfold rootsAfter
  rw [List.length_take]; omega

/-- on consecutive heights `0, 1, …` "the rows after the one before position `i`" is the slice from `i` -/
theorem rootsAfter_pos {s : Store H} (hf : HF 0 (lcAsc s)) (i n : Nat) :
    rootsAfter s ((i : Int) - 1) n = ((lcAsc s).drop i).take n := by
  unfold rootsAfter
  have : (lcAsc s).filter (fun r => decide ((r.height : Int) > (i : Int) - 1)) =
      (lcAsc s).filter (fun r => decide (i ≤ r.height)) := by
    apply List.filter_congr
    intro r _
    apply decide_eq_decide.2
    omega
  rw [this, hf.filter_ge i, Nat.sub_zero]

section inv
variable {cfg : Cfg H} {s : Store H} {t : Row H}

/-- the key of a slice that reaches the end of the longest chain is empty -/
theorem pageKey_end (hw : WF cfg s) (ht : t ∈ s) (hl : LcAt s t) (i n : Nat)
    (h : (lcAsc s).length ≤ i + n) : pageKey t (((lcAsc s).drop i).take n) = none := by
  unfold pageKey
  rw [List.take_of_length_le (by rw [List.length_drop]; omega), List.getLast?_drop]
  by_cases hle : (lcAsc s).length ≤ i
  · rw [if_pos hle]
  · rw [if_neg hle, lcAsc_getLast hw ht hl]
    simp

/-- the key of a slice that stops before the tip is the merkle root of its last row -/
theorem pageKey_inner (hw : WF cfg s) (ht : t ∈ s) (hl : LcAt s t) (hm : (s.map (·.merkle)).Nodup)
    (i n : Nat) (hn : 1 ≤ n) (h : i + n < (lcAsc s).length) :
    pageKey t (((lcAsc s).drop i).take n) = some ((lcAsc s)[i + n - 1]'(by omega)).merkle := by
  have hidx : i + n - 1 < (lcAsc s).length := by omega
  have hlast : (((lcAsc s).drop i).take n).getLast? = some (lcAsc s)[i + n - 1] := by
    rw [List.getLast?_eq_getElem?, List.length_take, List.length_drop, List.getElem?_take, if_pos (by omega),
      List.getElem?_drop]
    have : i + (min n ((lcAsc s).length - i) - 1) = i + n - 1 := by omega
    rw [this, List.getElem?_eq_getElem hidx]
  unfold pageKey
  rw [hlast]
  simp only
  rw [if_neg]
  intro e
  have hmem := mem_lcAsc.1 (List.getElem_mem hidx)
  have : t = (lcAsc s)[i + n - 1] := inj_of_nodup_map (·.merkle) hm ht hmem.1 e
  have hh := lcAsc_getElem_height hw ht hl _ hidx
  rw [← this] at hh
  have := lcAsc_length hw ht hl
  omega

/-- a page requested with the merkle root of the `i`-th longest-chain row is the slice following position `i` -/
theorem page_at (hw : WF cfg s) (ht : t ∈ s) (hl : LcAt s t) (hm : (s.map (·.merkle)).Nodup)
    (n i : Nat) (hi : i < (lcAsc s).length) :
    page s n (some (lcAsc s)[i].merkle) =
      .ok (((lcAsc s).drop (i + 1)).take n, pageKey t (((lcAsc s).drop (i + 1)).take n)) := by
  have hmem := mem_lcAsc.1 (List.getElem_mem hi)
  have e := lastEvalHeight_lc hm hmem.1 hmem.2
  rw [lcAsc_getElem_height hw ht hl i hi] at e
  rw [page_eq e (hl.getTip ht)]
  have : ((i : Nat) : Int) = ((i + 1 : Nat) : Int) - 1 := by omega
  rw [this, rootsAfter_pos (lcAsc_hf hw ht hl)]

/-- the first page -/
theorem page_start (hw : WF cfg s) (ht : t ∈ s) (hl : LcAt s t) (n : Nat) :
    page s n none = .ok ((lcAsc s).take n, pageKey t ((lcAsc s).take n)) := by
  have e : lastEvalHeight s none = .ok (-1) := rfl
  rw [page_eq e (hl.getTip ht)]
  have : (-1 : Int) = ((0 : Nat) : Int) - 1 := by omega
  rw [this, rootsAfter_pos (lcAsc_hf hw ht hl), List.drop_zero]

end inv

/-! ### getheaders: start and stop height -/

theorem foldl_max_height (l : List (Row H)) : ∀ (k : Nat),
    k ≤ l.foldl (fun m r => max m r.height) k ∧
      (∀ r ∈ l, r.height ≤ l.foldl (fun m r => max m r.height) k) ∧
      (l.foldl (fun m r => max m r.height) k = k ∨ ∃ r ∈ l, r.height = l.foldl (fun m r => max m r.height) k) := by
  induction l with
  | nil => intro k; exact ⟨Nat.le_refl _, fun r hr => (by cases hr), Or.inl rfl⟩
  | cons a l ih =>
    intro k
    obtain ⟨h1, h2, h3⟩ := ih (max k a.height)
    rw [List.foldl_cons]
    refine ⟨by omega, ?_, ?_⟩
    · intro r hr
      rcases List.mem_cons.1 hr with rfl | hr'
      · omega
      · exact h2 r hr'
    · rcases h3 with h3 | ⟨r, hr, e⟩
      · by_cases hk : a.height ≤ k
        · left; omega
        · right; exact ⟨a, List.mem_cons_self, by omega⟩
      · right; exact ⟨r, List.mem_cons_of_mem _ hr, e⟩

/-- `startHeight` is the greatest height of a longest-chain row whose hash is in the locator, or 0 if there is none -/
theorem startHeight_spec (s : Store H) (loc : List H) :
    (∀ r ∈ s, r.st = .lc → r.hash ∈ loc → r.height ≤ startHeight s loc) ∧
      ((∃ r ∈ s, r.st = .lc ∧ r.hash ∈ loc ∧ r.height = startHeight s loc) ∨
       ((∀ r ∈ s, r.st = .lc → r.hash ∉ loc) ∧ startHeight s loc = 0)) := by
  unfold startHeight
  have hmem : ∀ r, r ∈ s.filter (fun r => decide (r.st = .lc ∧ r.hash ∈ loc)) ↔
      r ∈ s ∧ r.st = .lc ∧ r.hash ∈ loc := by
    intro r; rw [List.mem_filter, decide_eq_true_eq]
  generalize s.filter (fun r => decide (r.st = .lc ∧ r.hash ∈ loc)) = l at hmem
  obtain ⟨_, h2, h3⟩ := foldl_max_height l 0
  refine ⟨fun r hr hl hh => h2 r ((hmem r).2 ⟨hr, hl, hh⟩), ?_⟩
  rcases h3 with h3 | ⟨r, hr, e⟩
  · cases l with
    | nil =>
      right
      refine ⟨?_, h3⟩
      intro r hr hl hh
      have := (hmem r).2 ⟨hr, hl, hh⟩
      cases this
    | cons a l' =>
      left
      have ha := (hmem a).1 List.mem_cons_self
      have := h2 a List.mem_cons_self
      exact ⟨a, ha.1, ha.2.1, ha.2.2, by omega⟩
  · left
    have hr' := (hmem r).1 hr
    exact ⟨r, hr'.1, hr'.2.1, hr'.2.2, e⟩

theorem stopHeight_none {s : Store H} {stop : H} (h : ∀ r ∈ s, r.st = .lc → r.hash ≠ stop) :
    stopHeight s stop = 0 := by
  unfold stopHeight
  have : s.find? (fun r => decide (r.hash = stop ∧ r.st = .lc)) = none := by
    rw [List.find?_eq_none]
    intro r hr e
    have := of_decide_eq_true e
    exact h r hr this.2 this.1
  rw [this]

/-- hash is the primary key: the stop lookup returns THE row -/
theorem stopHeight_lc {s : Store H} (hn : (s.map (·.hash)).Nodup) {r : Row H} (hr : r ∈ s) (hl : r.st = .lc) :
    stopHeight s r.hash = r.height := by
  unfold stopHeight
  cases e : s.find? (fun a => decide (a.hash = r.hash ∧ a.st = .lc)) with
  | none =>
    rw [List.find?_eq_none] at e
    exact absurd (decide_eq_true ⟨rfl, hl⟩) (e r hr)
  | some r' =>
    have h1 := List.mem_of_find?_eq_some e
    have h2' := List.find?_some e
    have h2 := of_decide_eq_true h2'
    rw [inj_of_nodup_map (·.hash) hn h1 hr h2.1]

theorem stopHeight_pos {s : Store H} {stop : H} (h : stopHeight s stop ≠ 0) :
    ∃ r ∈ s, r.st = .lc ∧ r.hash = stop ∧ r.height = stopHeight s stop := by
  unfold stopHeight at h ⊢
  cases e : s.find? (fun r => decide (r.hash = stop ∧ r.st = .lc)) with
  | none => rw [e] at h; exact absurd rfl h
  | some r =>
    have h2' := List.find?_some e
    have h2 := of_decide_eq_true h2'
    exact ⟨r, List.mem_of_find?_eq_some e, h2.2, h2.1, rfl⟩

/-- the effective stop height of `getHeaders` before the cap: the stop row's height, or "no stop" (= start + cap)
    for the zero hash, an unknown / non-longest-chain hash and — the accident — a stop row of height 0 -/
def ghStop (s : Store H) (zero : H) (loc : List H) (stop : H) : Nat :=
  if stop = zero ∨ stopHeight s stop = 0 then startHeight s loc + Gen.maxCFHeadersPerMsg else stopHeight s stop

theorem getHeaders_eq (s : Store H) (zero : H) {loc : List H} (stop : H) (hloc : loc ≠ []) :
    getHeaders s zero loc stop =
      if ghStop s zero loc stop ≤ startHeight s loc then .error .stopLower
      else .ok (rangeLc s (startHeight s loc + 1)
        (min (ghStop s zero loc stop) (startHeight s loc + Gen.maxCFHeadersPerMsg))) := by
  have hne : loc.isEmpty = false := by
    cases loc with
    | nil => exact absurd rfl hloc
    | cons _ _ => rfl
  have hstop1 : (if (if stop = zero then startHeight s loc + Gen.maxCFHeadersPerMsg else stopHeight s stop) = 0
        then startHeight s loc + Gen.maxCFHeadersPerMsg
        else (if stop = zero then startHeight s loc + Gen.maxCFHeadersPerMsg else stopHeight s stop)) =
      ghStop s zero loc stop := by
    unfold ghStop
    by_cases hz : stop = zero
    · simp only [hz, if_true, true_or]
      split <;> rfl
    · simp only [hz, if_false, false_or]
  simp only [getHeaders, hne, Bool.false_eq_true, if_false, hstop1]
  generalize ghStop s zero loc stop = g
  generalize startHeight s loc = st
  generalize Gen.maxCFHeadersPerMsg = cap
  by_cases hle : g ≤ st
  · rw [if_pos hle, if_pos hle]
  · rw [if_neg hle, if_neg hle]
    have : (if cap < g - st then st + cap else g) = min g (st + cap) := by
      split <;> omega
    rw [this]

/-! ### getheaders: the range -/

theorem mem_rangeLc {s : Store H} {lo hi : Nat} {r : Row H} :
    r ∈ rangeLc s lo hi ↔ r ∈ s ∧ r.st = .lc ∧ lo ≤ r.height ∧ r.height ≤ hi := by
  unfold rangeLc
  rw [List.mem_filter, mem_lcAsc, decide_eq_true_eq, and_assoc]

theorem rangeLc_eq_slice {s : Store H} (hf : HF 0 (lcAsc s)) (lo hi : Nat) :
    rangeLc s lo hi = ((lcAsc s).drop lo).take (hi + 1 - lo) := by
  unfold rangeLc
  rw [hf.filter_between lo hi, Nat.sub_zero, Nat.max_eq_left (Nat.zero_le lo)]

end BHS.Chain
