/-
Helper lemmas for C17 (1/2): facts about the import/export model that need no store invariant —
  * decimal text round trips (`showNat`/`showInt` against the models of strconv.ParseUint / ParseInt),
  * `parseRecord` of an exported row,
  * `prepareBatch` over `++`, first bad record, and the batching of `importChunks`
    (the result of the batched import is the result of one pass over the whole file; a failure inside the first
    batch commits nothing; a file without a bad record commits exactly the rows of the one pass),
  * `commitBatch` of rows with fresh hashes.
Core Lean only.
-/
import BHS.Model.ImpExp
import BHS.Proofs.ChainBasic

set_option linter.unusedSectionVars false

namespace BHS.ImpExp
open BHS BHS.Chain

/-! ### decimal text -/

theorem digits?_toDigits (n : Nat) : digits? (Nat.toDigits 10 n) = some n := by
  unfold digits?
  have h1 : (Nat.toDigits 10 n).isEmpty = false := by
    cases h : Nat.toDigits 10 n with
    | nil => exact absurd h Nat.toDigits_ne_nil
    | cons a l => rfl
  have h2 : (Nat.toDigits 10 n).all Char.isDigit = true :=
    List.all_eq_true.2 (fun c hc => Nat.isDigit_of_mem_toDigits (by decide) (by decide) hc)
  simp [h1, h2]

theorem toDigits_head_isDigit (n : Nat) : ∃ c ds, Nat.toDigits 10 n = c :: ds ∧ c.isDigit = true := by
  cases h : Nat.toDigits 10 n with
  | nil => exact absurd h Nat.toDigits_ne_nil
  | cons c ds =>
    refine ⟨c, ds, rfl, ?_⟩
    exact Nat.isDigit_of_mem_toDigits (b := 10) (n := n) (by decide) (by decide) (by rw [h]; exact List.mem_cons_self)

theorem parseUint_showNat (bits n : Nat) (h : n < 2 ^ bits) : parseUint bits (showNat n) = some n := by
  unfold parseUint showNat
  rw [digits?_toDigits]
  simp [h]

/-- a non-negative number printed without sign -/
theorem parseInt_toDigits (bits n : Nat) (h : n < 2 ^ (bits - 1)) :
    parseInt bits (Nat.toDigits 10 n) = some (n : Int) := by
  obtain ⟨c, ds, e, hc⟩ := toDigits_head_isDigit n
  have hd := digits?_toDigits n
  rw [e] at hd
  rw [e]
  have h1 : c ≠ '-' := by intro k; rw [k] at hc; exact absurd hc (by decide)
  have h2 : c ≠ '+' := by intro k; rw [k] at hc; exact absurd hc (by decide)
  unfold parseInt
  simp only [h1, h2, if_false, hd, h, if_true]

/-- a negative number: '-' and the digits of its absolute value -/
theorem parseInt_neg_toDigits (bits n : Nat) (h : n ≤ 2 ^ (bits - 1)) :
    parseInt bits ('-' :: Nat.toDigits 10 n) = some (-(n : Int)) := by
  unfold parseInt
  simp only [if_true, digits?_toDigits, h]

theorem parseInt32_showInt (v : Int) (h : -2147483648 ≤ v ∧ v < 2147483648) : parseInt 32 (showInt v) = some v := by
  unfold showInt
  by_cases hn : v < 0
  · rw [if_pos hn, parseInt_neg_toDigits 32 (-v).toNat (by show (-v).toNat ≤ 2147483648; omega)]
    congr 1; omega
  · rw [if_neg hn, parseInt_toDigits 32 v.toNat (by show v.toNat < 2147483648; omega)]
    congr 1; omega

theorem parseInt64_showNat (n : Nat) (h : n < 4294967296) : parseInt 64 (showNat n) = some (n : Int) := by
  unfold showNat
  exact parseInt_toDigits 64 n (by show n < 9223372036854775808; omega)

/-! ### one record -/

variable {H : Type} [DecidableEq H]

/-- the field-level well-formedness the text round trip needs: version fits int32, time / bits / nonce fit uint32
    (true of every header that arrived as 80 bytes), and the merkle root's text form parses back -/
structure FieldsOk (cd : Codec H) (r : Row H) : Prop where
  version : -2147483648 ≤ r.version ∧ r.version < 2147483648
  time : r.time < 4294967296
  bits : r.bits < 4294967296
  nonce : r.nonce < 4294967296
  merkle : cd.parseH (cd.showH r.merkle) = some r.merkle

theorem parseRecord_exportRow (cd : Codec H) (r : Row H) (hf : FieldsOk cd r) (prev : H) :
    parseRecord cd nColumns prev (exportRow cd r) =
      .ok { version := r.version, prev := prev, merkle := r.merkle, time := r.time, bits := r.bits, nonce := r.nonce } := by
  unfold parseRecord exportRow nColumns
  simp only [List.length_cons, List.length_nil, ne_eq, not_true_eq_false, if_false]
  rw [parseInt32_showInt r.version hf.version]
  simp only [hf.merkle]
  rw [parseUint_showNat 32 r.nonce hf.nonce, parseUint_showNat 32 r.bits hf.bits]
  simp only []
  rw [parseInt64_showNat r.time hf.time]
  have ht := hf.time
  simp only [Int.toNat_natCast]
  rw [if_pos (by omega)]

/-- a record that is not five cells long is never accepted -/
theorem parseRecord_length (cd : Codec H) (k : Nat) (prev : H) (rec : Record) (h : rec.length ≠ nColumns) :
    ∃ e, parseRecord cd k prev rec = .malformed e := by
  unfold parseRecord
  by_cases hk : rec.length ≠ k
  · exact ⟨_, if_pos hk⟩
  · rw [if_neg hk]
    match rec, h with
    | [], _ => exact ⟨_, rfl⟩
    | [_], _ => exact ⟨_, rfl⟩
    | [_, _], _ => exact ⟨_, rfl⟩
    | [_, _, _], _ => exact ⟨_, rfl⟩
    | [_, _, _, _], _ => exact ⟨_, rfl⟩
    | [_, _, _, _, _], h => exact absurd rfl h
    | _ :: _ :: _ :: _ :: _ :: _ :: _, _ => exact ⟨_, rfl⟩

/-! ### batches -/

section batch
variable (cfg : Cfg H) (cd : Codec H) (k : Nat)

/-- the import result a one-pass result stands for -/
def resOf : BatchRes H → ImportRes
  | .ok _ acc => .done acc.idx
  | .bad i e => .rowError i e
  | .outside i => .outside i

theorem prepareBatch_nil (acc : Acc H) : prepareBatch cfg cd k [] acc = .ok [] acc := rfl

theorem prepareBatch_cons (rec : Record) (rest : List Record) (acc : Acc H) :
    prepareBatch cfg cd k (rec :: rest) acc =
      match parseRecord cd k acc.prev rec with
      | .malformed e => .bad acc.idx e
      | .outside => .outside acc.idx
      | .ok x =>
        match prepareBatch cfg cd k rest (nextAcc (mkImported cfg x acc) acc) with
        | .ok rows acc' => .ok (mkImported cfg x acc :: rows) acc'
        | .bad i e => .bad i e
        | .outside i => .outside i := rfl

/-- sequencing two stretches of records -/
def andThen (a : BatchRes H) (f : Acc H → BatchRes H) : BatchRes H :=
  match a with
  | .ok rows acc =>
    match f acc with
    | .ok rows' acc' => .ok (rows ++ rows') acc'
    | .bad i e => .bad i e
    | .outside i => .outside i
  | .bad i e => .bad i e
  | .outside i => .outside i

theorem prepareBatch_append (a b : List Record) (acc : Acc H) :
    prepareBatch cfg cd k (a ++ b) acc = andThen (prepareBatch cfg cd k a acc) (prepareBatch cfg cd k b) := by
  induction a generalizing acc with
  | nil =>
    show prepareBatch cfg cd k b acc = andThen (.ok [] acc) (prepareBatch cfg cd k b)
    simp only [andThen, List.nil_append]
    cases h : prepareBatch cfg cd k b acc <;> rfl
  | cons rec rest ih =>
    rw [List.cons_append, prepareBatch_cons, prepareBatch_cons]
    cases parseRecord cd k acc.prev rec with
    | malformed e => rfl
    | outside => rfl
    | ok x =>
      simp only []
      rw [ih]
      cases prepareBatch cfg cd k rest (nextAcc (mkImported cfg x acc) acc) with
      | bad i e => rfl
      | outside i => rfl
      | ok rows acc' =>
        simp only [andThen]
        cases prepareBatch cfg cd k b acc' <;> simp

theorem andThen_ok {a : BatchRes H} {f : Acc H → BatchRes H} {rows : List (Row H)} {acc' : Acc H}
    (h : andThen a f = .ok rows acc') :
    ∃ r1 a1 r2, a = .ok r1 a1 ∧ f a1 = .ok r2 acc' ∧ rows = r1 ++ r2 := by
  unfold andThen at h
  cases a with
  | bad i e => cases h
  | outside i => cases h
  | ok r1 a1 =>
    simp only [] at h
    cases hf : f a1 with
    | bad i e => rw [hf] at h; cases h
    | outside i => rw [hf] at h; cases h
    | ok r2 a2 =>
      rw [hf] at h
      simp only [BatchRes.ok.injEq] at h
      exact ⟨r1, a1, r2, rfl, by rw [← h.2]; exact hf, h.1.symm⟩

/-- the index of a bad record is not below the starting index -/
theorem prepareBatch_bad_ge (l : List Record) (acc : Acc H) (i : Nat) (e : RowErr)
    (h : prepareBatch cfg cd k l acc = .bad i e) : acc.idx ≤ i := by
  induction l generalizing acc with
  | nil => cases h
  | cons rec rest ih =>
    rw [prepareBatch_cons] at h
    cases hp : parseRecord cd k acc.prev rec with
    | malformed e' => rw [hp] at h; simp only [BatchRes.bad.injEq] at h; omega
    | outside => rw [hp] at h; cases h
    | ok x =>
      rw [hp] at h
      simp only [] at h
      cases hr : prepareBatch cfg cd k rest (nextAcc (mkImported cfg x acc) acc) with
      | ok rows acc' => rw [hr] at h; cases h
      | outside j => rw [hr] at h; cases h
      | bad j e' =>
        rw [hr] at h
        simp only [BatchRes.bad.injEq] at h
        obtain ⟨rfl, rfl⟩ := h
        have := ih _ hr
        simp only [nextAcc] at this
        omega

/-- the first bad record is found by any prefix that reaches it -/
theorem prepareBatch_take_bad (l : List Record) (acc : Acc H) (i : Nat) (e : RowErr) (n : Nat)
    (h : prepareBatch cfg cd k l acc = .bad i e) (hn : i < acc.idx + n) :
    prepareBatch cfg cd k (l.take n) acc = .bad i e := by
  induction l generalizing acc n with
  | nil => cases h
  | cons rec rest ih =>
    have hge := prepareBatch_bad_ge cfg cd k _ acc i e h
    cases n with
    | zero => omega
    | succ n =>
      rw [List.take_succ_cons, prepareBatch_cons]
      rw [prepareBatch_cons] at h
      cases hp : parseRecord cd k acc.prev rec with
      | malformed e' => rw [hp] at h; exact h
      | outside => rw [hp] at h; cases h
      | ok x =>
        rw [hp] at h
        simp only [] at h ⊢
        cases hr : prepareBatch cfg cd k rest (nextAcc (mkImported cfg x acc) acc) with
        | ok rows acc' => rw [hr] at h; cases h
        | outside j => rw [hr] at h; cases h
        | bad j e' =>
          rw [hr] at h
          simp only [BatchRes.bad.injEq] at h
          rw [ih _ n (by rw [hr, h.1, h.2]) (by simp only [nextAcc]; omega)]

theorem commitBatch_append (tbl : Store H) (a b : List (Row H)) :
    commitBatch tbl (a ++ b) = commitBatch (commitBatch tbl a) b := by
  unfold commitBatch
  rw [List.foldl_append]

theorem chunkGo_succ {α : Type} (bs fuel : Nat) (l : List α) :
    chunkGo bs (fuel + 1) l = if l.isEmpty then [] else l.take bs :: chunkGo bs fuel (l.drop bs) := rfl

theorem importChunks_nil (tbl : Store H) (acc : Acc H) :
    importChunks cfg cd k [] tbl acc = (tbl, .done acc.idx) := rfl

theorem importChunks_cons (c : List Record) (cs : List (List Record)) (tbl : Store H) (acc : Acc H) :
    importChunks cfg cd k (c :: cs) tbl acc =
      match prepareBatch cfg cd k c acc with
      | .ok rows acc' => importChunks cfg cd k cs (commitBatch tbl rows) acc'
      | .bad i e => (tbl, .rowError i e)
      | .outside i => (tbl, .outside i) := rfl

/-- a file without a bad record: every batch is committed, the table grows by exactly the rows of the one pass -/
theorem importChunks_chunkGo_ok (bs : Nat) (hbs : 0 < bs) :
    ∀ (fuel : Nat) (l : List Record) (tbl : Store H) (acc : Acc H) (rows : List (Row H)) (acc' : Acc H),
      l.length ≤ fuel → prepareBatch cfg cd k l acc = .ok rows acc' →
      importChunks cfg cd k (chunkGo bs fuel l) tbl acc = (commitBatch tbl rows, .done acc'.idx) := by
  intro fuel
  induction fuel with
  | zero =>
    intro l tbl acc rows acc' hl h
    have : l = [] := List.eq_nil_of_length_eq_zero (by omega)
    subst this
    rw [prepareBatch_nil] at h
    simp only [BatchRes.ok.injEq] at h
    rw [← h.1, ← h.2]
    rfl
  | succ fuel ih =>
    intro l tbl acc rows acc' hl h
    rw [chunkGo_succ]
    cases l with
    | nil =>
      rw [prepareBatch_nil] at h
      simp only [BatchRes.ok.injEq] at h
      rw [← h.1, ← h.2]
      rfl
    | cons a l =>
      simp only [List.isEmpty_cons, Bool.false_eq_true, if_false]
      have hsplit : (a :: l) = (a :: l).take bs ++ (a :: l).drop bs := (List.take_append_drop bs (a :: l)).symm
      rw [hsplit, prepareBatch_append] at h
      obtain ⟨r1, a1, r2, e1, e2, e3⟩ := andThen_ok h
      rw [importChunks_cons, e1]
      simp only []
      rw [ih _ _ _ r2 acc' (by rw [List.length_drop]; simp only [List.length_cons] at hl ⊢; omega) e2, e3,
        commitBatch_append]

/-- the RESULT of the batched import is the result of one pass over the whole file -/
theorem importChunks_chunkGo_res (bs : Nat) (hbs : 0 < bs) :
    ∀ (fuel : Nat) (l : List Record) (tbl : Store H) (acc : Acc H), l.length ≤ fuel →
      (importChunks cfg cd k (chunkGo bs fuel l) tbl acc).2 = resOf (prepareBatch cfg cd k l acc) := by
  intro fuel
  induction fuel with
  | zero =>
    intro l tbl acc hl
    have : l = [] := List.eq_nil_of_length_eq_zero (by omega)
    subst this
    rfl
  | succ fuel ih =>
    intro l tbl acc hl
    rw [chunkGo_succ]
    cases l with
    | nil => rfl
    | cons a l =>
      simp only [List.isEmpty_cons, Bool.false_eq_true, if_false]
      have hsplit : (a :: l) = (a :: l).take bs ++ (a :: l).drop bs := (List.take_append_drop bs (a :: l)).symm
      conv => rhs; rw [hsplit, prepareBatch_append]
      rw [importChunks_cons]
      cases h1 : prepareBatch cfg cd k ((a :: l).take bs) acc with
      | bad i e => rfl
      | outside i => rfl
      | ok r1 a1 =>
        simp only [andThen]
        rw [ih _ _ _ (by rw [List.length_drop]; simp only [List.length_cons] at hl ⊢; omega)]
        cases prepareBatch cfg cd k ((a :: l).drop bs) a1 <;> rfl

/-- a bad record inside the FIRST batch: nothing is committed -/
theorem importChunks_chunkGo_first_bad (bs fuel : Nat) (l : List Record) (tbl : Store H) (acc : Acc H) (i : Nat)
    (e : RowErr) (hl : l.length ≤ fuel) (h : prepareBatch cfg cd k l acc = .bad i e) (hi : i < acc.idx + bs) :
    importChunks cfg cd k (chunkGo bs fuel l) tbl acc = (tbl, .rowError i e) := by
  cases l with
  | nil => cases h
  | cons a l =>
    cases fuel with
    | zero => simp only [List.length_cons] at hl; omega
    | succ fuel =>
      rw [chunkGo_succ]
      simp only [List.isEmpty_cons, Bool.false_eq_true, if_false]
      rw [importChunks_cons, prepareBatch_take_bad cfg cd k (a :: l) acc i e bs h hi]

end batch

/-! ### committing rows with fresh hashes -/

theorem setId_self (r : Row H) : { r with id := r.id } = r := by cases r; rfl

theorem commitBatch_fresh : ∀ (rows : List (Row H)) (tbl : Store H),
    ((tbl ++ rows).map (·.hash)).Nodup → (∀ (i : Nat) (h : i < rows.length), rows[i].id = tbl.length + i) →
    commitBatch tbl rows = tbl ++ rows := by
  intro rows
  induction rows with
  | nil => intro tbl _ _; simp [commitBatch]
  | cons r rest ih =>
    intro tbl hn hid
    have hfresh : ∀ a ∈ tbl, a.hash ≠ r.hash := by
      intro a ha e
      rw [List.map_append, List.map_cons] at hn
      have hd := (List.nodup_append.1 hn).2.2
      exact hd a.hash (List.mem_map_of_mem ha) r.hash List.mem_cons_self e
    have h0 : r.id = tbl.length := by have := hid 0 (by simp); simpa using this
    show commitBatch (insertRow tbl r) rest = tbl ++ r :: rest
    have hr : ({ r with id := tbl.length } : Row H) = r := by rw [← h0]
    rw [insertRow_fresh hfresh, hr]
    rw [ih (tbl ++ [r]) (by rw [List.append_assoc]; exact hn)
      (by
        intro i h
        have := hid (i + 1) (by simp only [List.length_cons]; omega)
        simp only [List.getElem_cons_succ] at this
        rw [this, List.length_append]
        simp only [List.length_cons, List.length_nil]
        omega)]
    simp

end BHS.ImpExp
