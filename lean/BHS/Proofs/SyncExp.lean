/-
Lemmas about the header-processing loop of the experimental engine (`SyncExp.headersLoop`).
-/
import BHS.Model.SyncExp
import BHS.Proofs.SyncStore

set_option linter.unusedSectionVars false

namespace BHS.SyncExp
open BHS.Chain
variable {H : Type} [DecidableEq H]

/-- one step of the loop -/
theorem headersLoop_cons (cfg : Cfg H) (s : Store H) (cp : Option (Nat × H)) (ci : Nat) (x : Src H) (xs : List (Src H))
    (lh n : Nat) :
    headersLoop cfg s cp ci (x :: xs) lh n =
      match (add cfg.chain s x).2 with
      | .duplicate => headersLoop cfg (add cfg.chain s x).1 cp ci xs lh n
      | .creationFail => headersLoop cfg (add cfg.chain s x).1 cp ci xs lh n
      | .rejected => ((add cfg.chain s x).1, cp, ci, lh, n, .rejected)
      | .stored r =>
        if r.st ≠ .lc then headersLoop cfg (add cfg.chain s x).1 cp ci xs lh n
        else
          match cp with
          | none => headersLoop cfg (add cfg.chain s x).1 cp ci xs r.height (n + 1)
          | some c =>
            if r.height < c.1 then headersLoop cfg (add cfg.chain s x).1 cp ci xs r.height (n + 1)
            else if r.height = c.1 then
              if r.hash ≠ c.2 then ((add cfg.chain s x).1, cp, ci, lh, n, .checkpointError)
              else
                match findNextCheckpoint cfg.checkpoints cp ci r.height with
                | .found c' i' => headersLoop cfg (add cfg.chain s x).1 (some c') i' xs r.height (n + 1)
                | .last => headersLoop cfg (add cfg.chain s x).1 none 0 xs r.height (n + 1)
                | .panic => ((add cfg.chain s x).1, cp, ci, lh, n, .panicked)
            else ((add cfg.chain s x).1, cp, ci, lh, n, .checkpointError) := by
  rw [headersLoop]
  generalize (add cfg.chain s x).2 = o
  cases o with
  | duplicate => rfl
  | creationFail => rfl
  | rejected => rfl
  | stored r =>
    simp only []
    by_cases hl : r.st ≠ .lc
    · simp only [if_pos hl]
    · simp only [if_neg hl]
      cases cp <;> rfl

/-- a prefix that is processed completely: the loop continues on the rest from where the prefix ended -/
theorem headersLoop_append (cfg : Cfg H) (rest : List (Src H)) :
    ∀ (pre : List (Src H)) (s : Store H) (cp : Option (Nat × H)) (ci lh n : Nat),
      (headersLoop cfg s cp ci pre lh n).2.2.2.2.2 = .completed →
      headersLoop cfg s cp ci (pre ++ rest) lh n =
        headersLoop cfg (headersLoop cfg s cp ci pre lh n).1 (headersLoop cfg s cp ci pre lh n).2.1
          (headersLoop cfg s cp ci pre lh n).2.2.1 rest (headersLoop cfg s cp ci pre lh n).2.2.2.1
          (headersLoop cfg s cp ci pre lh n).2.2.2.2.1 := by
  intro pre
  induction pre with
  | nil => intro s cp ci lh n _; rfl
  | cons x xs ih =>
    intro s cp ci lh n h
    rw [List.cons_append, headersLoop_cons cfg s cp ci x (xs ++ rest) lh n]
    rw [headersLoop_cons cfg s cp ci x xs lh n] at h ⊢
    cases ho : (add cfg.chain s x).2 with
    | duplicate => simp only [ho] at h ⊢; exact ih _ _ _ _ _ h
    | creationFail => simp only [ho] at h ⊢; exact ih _ _ _ _ _ h
    | rejected => simp only [ho] at h; cases h
    | stored r =>
      simp only [ho] at h ⊢
      by_cases hl : r.st ≠ .lc
      · simp only [if_pos hl] at h ⊢; exact ih _ _ _ _ _ h
      · simp only [if_neg hl] at h ⊢
        cases cp with
        | none => simp only [] at h ⊢; exact ih _ _ _ _ _ h
        | some c =>
          simp only [] at h ⊢
          by_cases h1 : r.height < c.1
          · simp only [if_pos h1] at h ⊢; exact ih _ _ _ _ _ h
          · simp only [if_neg h1] at h ⊢
            by_cases h2 : r.height = c.1
            · simp only [if_pos h2] at h ⊢
              by_cases h3 : r.hash ≠ c.2
              · simp only [if_pos h3] at h; cases h
              · simp only [if_neg h3] at h ⊢
                cases hf : findNextCheckpoint cfg.checkpoints (some c) ci r.height with
                | found c' i' => simp only [hf] at h ⊢; exact ih _ _ _ _ _ h
                | last => simp only [hf] at h ⊢; exact ih _ _ _ _ _ h
                | panic => simp only [hf] at h; cases h
            · simp only [if_neg h2] at h; cases h

/-- a completely processed batch leaves the table `run` leaves -/
theorem headersLoop_store_completed (cfg : Cfg H) :
    ∀ (hs : List (Src H)) (s : Store H) (cp : Option (Nat × H)) (ci lh n : Nat),
      (headersLoop cfg s cp ci hs lh n).2.2.2.2.2 = .completed → (headersLoop cfg s cp ci hs lh n).1 = run cfg.chain s hs := by
  intro hs
  induction hs with
  | nil => intro s cp ci lh n _; rfl
  | cons x xs ih =>
    intro s cp ci lh n h
    show _ = run cfg.chain (add cfg.chain s x).1 xs
    rw [headersLoop_cons] at h ⊢
    cases ho : (add cfg.chain s x).2 with
    | duplicate => simp only [ho] at h ⊢; exact ih _ _ _ _ _ h
    | creationFail => simp only [ho] at h ⊢; exact ih _ _ _ _ _ h
    | rejected => simp only [ho] at h; cases h
    | stored r =>
      simp only [ho] at h ⊢
      by_cases hl : r.st ≠ .lc
      · simp only [if_pos hl] at h ⊢; exact ih _ _ _ _ _ h
      · simp only [if_neg hl] at h ⊢
        cases cp with
        | none => simp only [] at h ⊢; exact ih _ _ _ _ _ h
        | some c =>
          simp only [] at h ⊢
          by_cases h1 : r.height < c.1
          · simp only [if_pos h1] at h ⊢; exact ih _ _ _ _ _ h
          · simp only [if_neg h1] at h ⊢
            by_cases h2 : r.height = c.1
            · simp only [if_pos h2] at h ⊢
              by_cases h3 : r.hash ≠ c.2
              · simp only [if_pos h3] at h; cases h
              · simp only [if_neg h3] at h ⊢
                cases hf : findNextCheckpoint cfg.checkpoints (some c) ci r.height with
                | found c' i' => simp only [hf] at h ⊢; exact ih _ _ _ _ _ h
                | last => simp only [hf] at h ⊢; exact ih _ _ _ _ _ h
                | panic => simp only [hf] at h; cases h
            · simp only [if_neg h2] at h; cases h

/-- a forbidden header at the head of the remaining batch ends the loop with `rejected`, the table unchanged -/
theorem headersLoop_forbidden (cfg : Cfg H) (s : Store H) (cp : Option (Nat × H)) (ci lh n : Nat) (x : Src H)
    (post : List (Src H)) (hs : NoForbidden cfg.chain s) (hx : cfg.chain.hashOf x ∈ cfg.chain.forbidden) :
    headersLoop cfg s cp ci (x :: post) lh n = (s, cp, ci, lh, n, .rejected) := by
  have hn : ¬ (byHash s (cfg.chain.hashOf x)).isSome = true := by
    intro hsome
    obtain ⟨r, hr, e⟩ := byHash_isSome.1 hsome
    exact hs r hr (e ▸ hx)
  have hadd : add cfg.chain s x = (s, .rejected) := by
    rcases add_cases cfg.chain s x with ⟨hd, _⟩ | ⟨_, _, e⟩ | ⟨_, hnf, _⟩
    · exact absurd hd hn
    · exact e
    · exact absurd hx hnf
  rw [headersLoop_cons]
  simp only [hadd]

/-- a longest-chain header at (or above) the cursor's height that is not the checkpoint ends the loop with
    `checkpointError`; it IS in the table -/
theorem headersLoop_mismatch (cfg : Cfg H) (s : Store H) (c : Nat × H) (ci lh n : Nat) (x : Src H) (post : List (Src H))
    (r : Row H) (ha : (add cfg.chain s x).2 = .stored r) (hl : r.st = .lc) (hh : r.height = c.1) (hne : r.hash ≠ c.2) :
    headersLoop cfg s (some c) ci (x :: post) lh n = ((add cfg.chain s x).1, some c, ci, lh, n, .checkpointError) := by
  rw [headersLoop_cons]
  have h1 : ¬ r.height < c.1 := by omega
  simp only [ha, hl, ne_eq, not_true_eq_false, if_false]
  rw [if_neg h1, if_pos hh, if_pos hne]

end BHS.SyncExp
