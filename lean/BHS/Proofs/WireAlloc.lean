/-
Allocation-meter calculus for the wire model (C14): `AllocsLe B m` — every allocation the
reader `m` records, on every input (also on failing paths), is at most `B` — is compositional
over bind / if / repetition, and the guard-then-make pattern is bounded by its guard. Core Lean only.
-/
import BHS.Proofs.Wire

namespace BHS.Wire
open BHS.Gen BHS.Gen.WireC

/-- every allocation the reader records, on every input, is at most `B` -/
structure AllocsLe (B : Nat) (m : Rd α) : Prop where
  le : ∀ bs, ∀ a ∈ (m bs).1, a ≤ B

theorem allocsLe_of_nil {m : Rd α} (h : ∀ bs, (m bs).1 = []) (B : Nat) : AllocsLe B m := by
  refine ⟨fun bs a ha => ?_⟩; rw [h bs] at ha; cases ha

theorem allocsLe_pure (B : Nat) (a : α) : AllocsLe B (pure a : Rd α) := allocsLe_of_nil (fun _ => rfl) B
theorem allocsLe_fail (B : Nat) (e : Err) : AllocsLe B (Rd.fail e : Rd α) := allocsLe_of_nil (fun _ => rfl) B
theorem allocsLe_remaining (B : Nat) : AllocsLe B Rd.remaining := allocsLe_of_nil (fun _ => rfl) B
theorem allocsLe_get8 (B : Nat) : AllocsLe B get8 := allocsLe_of_nil (fun bs => by unfold get8; split <;> rfl) B
theorem allocsLe_get16le (B : Nat) : AllocsLe B get16le := allocsLe_of_nil (fun bs => by unfold get16le; split <;> rfl) B
theorem allocsLe_get16be (B : Nat) : AllocsLe B get16be := allocsLe_of_nil (fun bs => by unfold get16be; split <;> rfl) B
theorem allocsLe_get32le (B : Nat) : AllocsLe B get32le := allocsLe_of_nil (fun bs => by unfold get32le; split <;> rfl) B
theorem allocsLe_get64le (B : Nat) : AllocsLe B get64le := allocsLe_of_nil (fun bs => by unfold get64le; split <;> rfl) B
theorem allocsLe_getBytes (B n : Nat) : AllocsLe B (getBytes n) := allocsLe_of_nil (fun bs => by unfold getBytes; split <;> rfl) B

theorem allocsLe_bind {B : Nat} {m : Rd α} {f : α → Rd β} (hm : AllocsLe B m) (hf : ∀ a, AllocsLe B (f a)) :
    AllocsLe B (m >>= f) := by
  refine ⟨fun bs a ha => ?_⟩
  rw [bind_fst] at ha
  rcases List.mem_append.mp ha with h | h
  · exact hm.le bs a h
  · cases hr : (m bs).2 with
    | error e => rw [hr] at h; cases h
    | ok v => rw [hr] at h; exact (hf v.1).le v.2 a h

theorem allocsLe_guardAlloc {B : Nat} (n max unit : Nat) (e : Err) (h : max * unit ≤ B) :
    AllocsLe B (guardAlloc n max unit e) := by
  refine ⟨fun bs a ha => ?_⟩
  unfold guardAlloc at ha
  split at ha
  · cases ha
  · rename_i hn
    simp only [alloc_apply, List.mem_singleton] at ha
    subst ha
    calc n * unit ≤ max * unit := Nat.mul_le_mul_right _ (by omega)
      _ ≤ B := h

theorem allocsLe_getMany {B : Nat} {g : Rd α} (hg : AllocsLe B g) (n : Nat) : AllocsLe B (getMany g n) := by
  induction n with
  | zero => exact allocsLe_pure B _
  | succ n ih =>
    unfold getMany
    exact allocsLe_bind hg (fun _ => allocsLe_bind ih (fun _ => allocsLe_pure B _))

macro "allocs_step" : tactic =>
  `(tactic| first
    | exact allocsLe_pure _ _ | exact allocsLe_fail _ _ | exact allocsLe_remaining _
    | exact allocsLe_get8 _ | exact allocsLe_get16le _ | exact allocsLe_get16be _ | exact allocsLe_get32le _
    | exact allocsLe_get64le _ | exact allocsLe_getBytes _ _
    | (apply allocsLe_bind)
    | (intro _)
    | split)

theorem allocsLe_getVarInt (B : Nat) : AllocsLe B getVarInt := by
  unfold getVarInt
  repeat allocs_step

theorem allocsLe_getVarBytes {B : Nat} (max : Nat) (h : max ≤ B) : AllocsLe B (getVarBytes max) := by
  unfold getVarBytes
  apply allocsLe_bind (allocsLe_getVarInt B); intro n
  apply allocsLe_bind (allocsLe_guardAlloc _ _ _ _ (by omega)); intro _
  exact allocsLe_getBytes _ _

theorem allocsLe_getNetAddr (B pver : Nat) (ts : Bool) : AllocsLe B (getNetAddr pver ts) := by
  unfold getNetAddr
  repeat allocs_step

theorem allocsLe_getInvVect (B : Nat) : AllocsLe B getInvVect := by
  unfold getInvVect
  repeat allocs_step

theorem allocsLe_getHeaderElem (B : Nat) : AllocsLe B getHeaderElem := by
  unfold getHeaderElem getBlockHeader
  repeat (first | exact allocsLe_getVarInt _ | allocs_step)

theorem allocsLe_decInvList {B : Nat} (h : maxInvPerMsg * invVectSize ≤ B) : AllocsLe B decInvList := by
  unfold decInvList
  apply allocsLe_bind (allocsLe_getVarInt B); intro n
  apply allocsLe_bind (allocsLe_guardAlloc _ _ _ _ h); intro _
  exact allocsLe_getMany (allocsLe_getInvVect B) _

theorem allocsLe_decLocator {B : Nat} (mk) (h : maxBlockLocatorsPerMsg * hashSize ≤ B) : AllocsLe B (decLocator mk) := by
  unfold decLocator
  apply allocsLe_bind (allocsLe_get32le B); intro _
  apply allocsLe_bind (allocsLe_getVarInt B); intro n
  apply allocsLe_bind (allocsLe_guardAlloc _ _ _ _ h); intro _
  apply allocsLe_bind (allocsLe_getMany (allocsLe_getBytes B 32) _); intro _
  apply allocsLe_bind (allocsLe_getBytes B 32); intro _
  exact allocsLe_pure _ _

theorem allocsLe_decAddr {B : Nat} (pver : Nat) (h : maxAddrPerMsg * maxNetAddressPayload pver ≤ B) : AllocsLe B (decAddr pver) := by
  unfold decAddr
  apply allocsLe_bind (allocsLe_getVarInt B); intro n
  apply allocsLe_bind (allocsLe_guardAlloc _ _ _ _ h); intro _
  apply allocsLe_bind (allocsLe_getMany (allocsLe_getNetAddr B pver true) _); intro _
  exact allocsLe_pure _ _

theorem allocsLe_decHeaders {B : Nat} (h : maxBlockHeadersPerMsg * headerElemSize ≤ B) : AllocsLe B decHeaders := by
  unfold decHeaders
  apply allocsLe_bind (allocsLe_getVarInt B); intro n
  apply allocsLe_bind (allocsLe_guardAlloc _ _ _ _ h); intro _
  apply allocsLe_bind (allocsLe_getMany (allocsLe_getHeaderElem B) _); intro _
  exact allocsLe_pure _ _

theorem allocsLe_decReject {B : Nat} (gmax pver : Nat) (h : gmax ≤ B) : AllocsLe B (decReject gmax pver) := by
  unfold decReject
  split
  · exact allocsLe_fail _ _
  · apply allocsLe_bind (allocsLe_getVarBytes gmax h); intro _
    apply allocsLe_bind (allocsLe_get8 B); intro _
    apply allocsLe_bind (allocsLe_getVarBytes gmax h); intro _
    apply allocsLe_bind
    · split
      · exact allocsLe_getBytes _ _
      · exact allocsLe_pure _ _
    · intro _; exact allocsLe_pure _ _

theorem allocsLe_decVersion {B : Nat} (pver : Nat) (h : maxUserAgentLen ≤ B) : AllocsLe B (decVersion pver) := by
  unfold decVersion
  repeat (first | exact allocsLe_getNetAddr _ _ _ | exact allocsLe_getVarBytes maxUserAgentLen h | allocs_step)

theorem allocsLe_decodeRd_global (gmax pver : Nat) (hg : maxInvPerMsg * invVectSize ≤ gmax) (t : MsgType) :
    AllocsLe gmax (decodeRd gmax pver t) := by
  have e1 : maxInvPerMsg * invVectSize = 1800000 := by decide
  have e2 : maxBlockLocatorsPerMsg * hashSize = 16000 := by decide
  have e3 : maxBlockHeadersPerMsg * headerElemSize = 162000 := by decide
  have e4 : maxAddrPerMsg * maxNetAddressPayload pver ≤ 30000 := by
    unfold maxNetAddressPayload; split <;> decide
  cases t <;> simp only [decodeRd]
  case MsgVersion =>
    have e5 : maxUserAgentLen = 256 := rfl
    exact allocsLe_decVersion pver (by omega)
  case MsgAddr => exact allocsLe_decAddr pver (by omega)
  case MsgGetHeaders => exact allocsLe_decLocator _ (by omega)
  case MsgGetBlocks => exact allocsLe_decLocator _ (by omega)
  case MsgHeaders => exact allocsLe_decHeaders (by omega)
  case MsgInv => exact allocsLe_bind (allocsLe_decInvList hg) (fun _ => allocsLe_pure _ _)
  case MsgGetData => exact allocsLe_bind (allocsLe_decInvList hg) (fun _ => allocsLe_pure _ _)
  case MsgNotFound => exact allocsLe_bind (allocsLe_decInvList hg) (fun _ => allocsLe_pure _ _)
  case MsgReject => exact allocsLe_decReject gmax pver (Nat.le_refl _)
  all_goals repeat allocs_step

theorem allocsLe_decodeRd_type (gmax pver : Nat) (t : MsgType) (mpl : Nat)
    (hm : maxPayloadLength gmax pver t = some mpl)
    (ha : t = .MsgAddr → multipleAddressVersion ≤ pver) :
    AllocsLe mpl (decodeRd gmax pver t) := by
  cases t <;> simp only [decodeRd] <;> simp only [maxPayloadLength] at hm
  case MsgVersion => injection hm with hm; subst hm; exact allocsLe_decVersion pver (by omega)
  case MsgAddr =>
    have := ha rfl
    rw [if_neg (by omega)] at hm
    injection hm with hm; subst hm
    exact allocsLe_decAddr pver (by omega)
  case MsgGetHeaders => injection hm with hm; subst hm; exact allocsLe_decLocator _ (by omega)
  case MsgGetBlocks => injection hm with hm; subst hm; exact allocsLe_decLocator _ (by omega)
  case MsgHeaders =>
    injection hm with hm; subst hm
    exact allocsLe_decHeaders (by rw [Nat.mul_comm]; omega)
  case MsgInv => injection hm with hm; subst hm; exact allocsLe_bind (allocsLe_decInvList (by omega)) (fun _ => allocsLe_pure _ _)
  case MsgGetData => injection hm with hm; subst hm; exact allocsLe_bind (allocsLe_decInvList (by omega)) (fun _ => allocsLe_pure _ _)
  case MsgNotFound => injection hm with hm; subst hm; exact allocsLe_bind (allocsLe_decInvList (by omega)) (fun _ => allocsLe_pure _ _)
  case MsgReject =>
    injection hm with hm; subst hm
    by_cases h : rejectVersion ≤ pver
    · rw [if_pos h]; exact allocsLe_decReject gmax pver (Nat.le_refl _)
    · rw [if_neg h]
      unfold decReject
      rw [if_pos (by omega)]
      exact allocsLe_fail _ _
  all_goals repeat allocs_step

theorem allocsLe_mono {B B' : Nat} {m : Rd α} (h : AllocsLe B m) (hb : B ≤ B') : AllocsLe B' m :=
  ⟨fun bs a ha => Nat.le_trans (h.le bs a ha) hb⟩

theorem allocsLe_discard (B len : Nat) (h : 10240 ≤ B) : AllocsLe B (Rd.allocs (discardAllocs len)) := by
  refine ⟨fun bs a ha => ?_⟩
  simp only [allocs_apply, discardAllocs, List.mem_append] at ha
  rcases ha with ha | ha
  · split at ha
    · simp only [List.mem_singleton] at ha; omega
    · cases ha
  · split at ha
    · simp only [List.mem_singleton] at ha
      have : len % 10240 < 10240 := Nat.mod_lt _ (by decide)
      omega
    · cases ha

theorem allocsLe_finishPayload (B : Nat) (H : Bytes → Bytes) (gmax pver : Nat) (t : MsgType) (ck payload : Bytes)
    (h : AllocsLe B (decodeRd gmax pver t)) : AllocsLe B (finishPayload H gmax pver t ck payload) := by
  refine ⟨fun bs a ha => ?_⟩
  unfold finishPayload at ha
  split at ha
  · cases ha
  · have := h.le payload a
    cases hr : decodeRd gmax pver t payload with
    | mk al res =>
      rw [hr] at ha this
      cases res with
      | error e => exact this ha
      | ok v => exact this ha

theorem allocsLe_alloc (B n : Nat) (h : n ≤ B) : AllocsLe B (Rd.alloc n) :=
  ⟨fun bs a ha => by simp only [alloc_apply, List.mem_singleton] at ha; omega⟩

/-- every allocation of one ReadMessage — payload buffer, discard buffers, decoder allocations — is
    bounded by the global limit (and the 10 KiB discard chunk), on every input stream -/
theorem allocsLe_readMessageRd (H : Bytes → Bytes) (gmax pver net : Nat) (hg : maxInvPerMsg * invVectSize ≤ gmax) :
    AllocsLe gmax (readMessageRd H gmax pver net) := by
  have h10 : 10240 ≤ gmax := by have : maxInvPerMsg * invVectSize = 1800000 := by decide
                                omega
  unfold readMessageRd
  apply allocsLe_bind (allocsLe_remaining _); intro r
  split
  · exact allocsLe_fail _ _
  · apply allocsLe_bind (allocsLe_get32le _); intro magic
    apply allocsLe_bind (allocsLe_getBytes _ _); intro cmd
    apply allocsLe_bind (allocsLe_get32le _); intro len
    apply allocsLe_bind (allocsLe_getBytes _ _); intro ck
    unfold readBody
    split
    · exact allocsLe_fail _ _
    · rename_i hlen
      split
      · exact allocsLe_bind (allocsLe_discard _ _ h10) (fun _ => allocsLe_fail _ _)
      · split
        · exact allocsLe_bind (allocsLe_discard _ _ h10) (fun _ => allocsLe_fail _ _)
        · split
          · exact allocsLe_fail _ _
          · split
            · exact allocsLe_bind (allocsLe_discard _ _ h10) (fun _ => allocsLe_fail _ _)
            · unfold readPayload
              apply allocsLe_bind (allocsLe_alloc _ _ (by omega)); intro _
              apply allocsLe_bind (allocsLe_getBytes _ _); intro payload
              exact allocsLe_finishPayload _ H gmax pver _ ck payload (allocsLe_decodeRd_global gmax pver hg _)

end BHS.Wire
