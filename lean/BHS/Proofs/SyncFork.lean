/-
Adoption of a competing branch (C06_fork), store side: ingesting a linked run of new, clean, positive-work headers on top
of a connected row, whose total cumulative work exceeds that of every other connected row, makes its last header the
tip and puts all of them on the longest chain. Built on C01's invariant (`Inv.add`), not re-proving it.
-/
import BHS.Model.Sync
import BHS.Proofs.ChainLc
import BHS.Proofs.SyncLinear
import BHS.Proofs.SyncMulti

set_option linter.unusedSectionVars false

namespace BHS.Sync
open BHS.Chain
variable {H : Type} [DecidableEq H]

/-- cumulative work after a run of headers on top of a row with cumulative work `c0` -/
def cumAlong (c0 : Nat) (hs : List (Src H)) : Nat := hs.foldl (fun c x => c + work x.bits) c0

theorem cumAlong_cons (c0 : Nat) (x : Src H) (xs : List (Src H)) :
    cumAlong c0 (x :: xs) = cumAlong (c0 + work x.bits) xs := rfl

theorem cumAlong_ge (xs : List (Src H)) : ∀ c0, c0 ≤ cumAlong c0 xs := by
  induction xs with
  | nil => intro c0; exact Nat.le_refl _
  | cons x xs ih => intro c0; rw [cumAlong_cons]; have := ih (c0 + work x.bits); omega

/-- a stored submission appends its row to the (possibly relabelled) old rows; relabelling keeps identity, parent,
    rowid, cumulative work and orphan-ness -/
theorem add_stored_shape (cfg : Chain.Cfg H) (s : Store H) (x : Src H) (hw : WF cfg s)
    (hfresh : ¬ (byHash s (cfg.hashOf x)).isSome = true) (hclean : cfg.hashOf x ∉ cfg.forbidden)
    (htip : ∃ t, getTip s = some t) :
    ∃ (f : Row H → Row H) (r : Row H), add cfg s x = (s.map f ++ [r], .stored r) ∧
      (r = mkRow cfg s x ∨ ∃ st, (st = St.lc ∨ st = St.stale) ∧ r = setSt (mkRow cfg s x) st) ∧
      ∀ a ∈ s, (f a).hash = a.hash ∧ (f a).prev = a.prev ∧ (f a).id = a.id ∧ (f a).cum = a.cum ∧
        ((f a).st = .orphan ↔ a.st = .orphan) := by
  have hid : ∀ a ∈ s, (id a).hash = a.hash ∧ (id a).prev = a.prev ∧ (id a).id = a.id ∧ (id a).cum = a.cum ∧
      ((id a).st = .orphan ↔ a.st = .orphan) := fun a _ => ⟨rfl, rfl, rfl, rfl, Iff.rfl⟩
  rcases add_cases cfg s x with ⟨hd, _⟩ | ⟨_, hf, _⟩ | ⟨_, _, k⟩
  · exact absurd hd hfresh
  · exact absurd hf hclean
  · rcases k with ⟨_, e⟩ | ⟨_, hn, _⟩ | ⟨_, _, _, _, e⟩ | ⟨_, _, _, _, e⟩
    · exact ⟨id, mkRow cfg s x, by rw [e, List.map_id], Or.inl rfl, hid⟩
    · obtain ⟨t, ht⟩ := htip; rw [ht] at hn; cases hn
    · exact ⟨id, setSt (mkRow cfg s x) .stale, by rw [e, List.map_id], Or.inr ⟨_, Or.inr rfl, rfl⟩, hid⟩
    · refine ⟨relab (hs1 cfg s x) (hs2 s x), setSt (mkRow cfg s x) .lc, e, Or.inr ⟨_, Or.inl rfl, rfl⟩, ?_⟩
      intro a ha
      have hf := relab_fields (hs1 cfg s x) (hs2 s x) a
      refine ⟨relab_hash _ _ a, ?_, ?_, ?_, hw.relab_orphan_iff x ha⟩
      · rw [hf]; rfl
      · rw [hf]; rfl
      · rw [hf]; rfl

/-- ONE header on top of a connected row `a`: it is stored, connected, with cumulative work `a.cum + work` -/
theorem fork_step (cfg : Chain.Cfg H) (s : Store H) (g a : Row H) (x : Src H) (hinv : Inv cfg s) (hg : g ∈ s)
    (_hg0 : g.id = 0) (ha : a ∈ s) (hac : connected a) (hp : x.prev = a.hash)
    (hfresh : cfg.hashOf x ∉ s.map (·.hash)) (hclean : cfg.hashOf x ∉ cfg.forbidden) :
    ∃ (f : Row H → Row H) (r : Row H), add cfg s x = (s.map f ++ [r], .stored r) ∧
      r.hash = cfg.hashOf x ∧ r.prev = x.prev ∧ r.id ≠ 0 ∧ r.cum = a.cum + work x.bits ∧ connected r ∧
      ∀ b ∈ s, (f b).hash = b.hash ∧ (f b).prev = b.prev ∧ (f b).id = b.id ∧ (f b).cum = b.cum ∧
        ((f b).st = .orphan ↔ b.st = .orphan) := by
  obtain ⟨hw, t, ht, hl⟩ := hinv
  have hnone : ¬ (byHash s (cfg.hashOf x)).isSome = true := by
    intro hs
    obtain ⟨r, hr, e⟩ := byHash_isSome.1 hs
    exact hfresh (List.mem_map.2 ⟨r, hr, e⟩)
  obtain ⟨f, r, hadd, hr, hf⟩ := add_stored_shape cfg s x hw hnone hclean ⟨t, hl.getTip ht⟩
  have hbt : byHash s x.prev = some a := by rw [hp]; exact byHash_mem hw.nodup ha
  obtain ⟨_, mc, mst⟩ := mkRow_some (cfg := cfg) hbt
  have hlen : 0 < s.length := List.length_pos_iff.2 (List.ne_nil_of_mem hg)
  refine ⟨f, r, hadd, ?_, ?_, ?_, ?_, ?_, hf⟩
  · rcases hr with e | ⟨st, _, e⟩ <;> rw [e] <;> rfl
  · rcases hr with e | ⟨st, _, e⟩ <;> rw [e] <;> rfl
  · rcases hr with e | ⟨st, _, e⟩ <;> rw [e] <;> (show s.length ≠ 0; omega)
  · rcases hr with e | ⟨st, _, e⟩ <;> rw [e] <;> exact mc
  · rcases hr with e | ⟨st, hst, e⟩
    · rw [e]; unfold connected; rw [mst]; exact hac
    · rw [e]; unfold connected; rcases hst with h | h <;> rw [setSt_st, h] <;> intro k <;> cases k

theorem run_cons (cfg : Chain.Cfg H) (s : Store H) (x : Src H) (xs : List (Src H)) :
    run cfg s (x :: xs) = run cfg (add cfg s x).1 xs := rfl

/-- every hash in the table after a history was there before or belongs to a submitted header -/
theorem run_hashes (cfg : Chain.Cfg H) : ∀ (hs : List (Src H)) (s : Store H), ∀ r ∈ run cfg s hs,
    r.hash ∈ s.map (·.hash) ∨ r.hash ∈ hs.map cfg.hashOf := by
  intro hs
  induction hs with
  | nil => intro s r hr; exact Or.inl (List.mem_map.2 ⟨r, hr, rfl⟩)
  | cons x xs ih =>
    intro s r hr
    rw [run_cons] at hr
    rcases ih _ r hr with h | h
    · obtain ⟨b, hb, e⟩ := List.mem_map.1 h
      rcases add_hash_cases cfg s x b hb with ⟨a, ha, e'⟩ | ⟨e', _⟩
      · exact Or.inl (List.mem_map.2 ⟨a, ha, by rw [e', e]⟩)
      · right; rw [List.map_cons]; rw [← e, e']; exact List.mem_cons_self
    · right; rw [List.map_cons]; exact List.mem_cons_of_mem _ h

/-- A RUN of headers on top of a connected row `a`: linked, new, clean, of positive work, and heavier in total than every
    other connected row. Afterwards the row of the last header is connected with cumulative work `cumAlong a.cum news`,
    every OTHER connected row is strictly lighter, C01's invariant holds, every old row is still there (same hash, parent,
    rowid) and every header of the run has its row. `z` is the root's previous-hash (nobody's hash). -/
theorem fork_steps (cfg : Chain.Cfg H) (z : H) (hz : ∀ y, cfg.hashOf y ≠ z) :
    ∀ (news : List (Src H)) (s : Store H) (a : Row H), Inv cfg s → (∃ g ∈ s, g.id = 0 ∧ g.prev = z) → a ∈ s → connected a →
      Linked cfg.hashOf a.hash news → (s.map (·.hash) ++ news.map cfg.hashOf).Nodup →
      (∀ x ∈ news, cfg.hashOf x ∉ cfg.forbidden) → (∀ x ∈ news, work x.bits ≠ 0) →
      (∀ r ∈ s, connected r → r.hash ≠ a.hash → r.cum < cumAlong a.cum news) →
      ∃ a', a' ∈ run cfg s news ∧ connected a' ∧ a'.hash = lastHash cfg.hashOf a.hash news ∧
        a'.cum = cumAlong a.cum news ∧ Inv cfg (run cfg s news) ∧ (∃ g ∈ run cfg s news, g.id = 0 ∧ g.prev = z) ∧
        (∀ r ∈ run cfg s news, connected r → r.hash ≠ a'.hash → r.cum < a'.cum) ∧
        (∀ b ∈ s, ∃ b' ∈ run cfg s news, b'.hash = b.hash ∧ b'.prev = b.prev ∧ b'.id = b.id) ∧
        (∀ x ∈ news, ∃ r ∈ run cfg s news, r.hash = cfg.hashOf x ∧ r.prev = x.prev ∧ r.id ≠ 0) := by
  intro news
  induction news with
  | nil =>
    intro s a hinv hroot ha hac _ _ _ _ hlight
    exact ⟨a, ha, hac, rfl, rfl, hinv, hroot, hlight, fun b hb => ⟨b, hb, rfl, rfl, rfl⟩, fun x hx => (by cases hx)⟩
  | cons x xs ih =>
    intro s a hinv hroot ha hac hlink hnd hclean hwork hlight
    obtain ⟨g, hg, hg0, hgz⟩ := hroot
    obtain ⟨hp, hlink'⟩ := hlink
    have hfresh : cfg.hashOf x ∉ s.map (·.hash) := by
      intro hm
      exact (List.nodup_append.1 hnd).2.2 _ hm (cfg.hashOf x) (by simp) rfl
    obtain ⟨f, r, hadd, hrh, hrp, hrid, hrc, hrconn, hf⟩ :=
      fork_step cfg s g a x hinv hg hg0 ha hac hp hfresh (hclean x List.mem_cons_self)
    have hs' : (add cfg s x).1 = s.map f ++ [r] := by rw [hadd]
    have hinv' : Inv cfg (s.map f ++ [r]) := by
      rw [← hs']; exact hinv.add x hg hg0 (by rw [hgz]; exact hz)
    have hroot' : ∃ g' ∈ s.map f ++ [r], g'.id = 0 ∧ g'.prev = z :=
      ⟨f g, List.mem_append_left _ (List.mem_map.2 ⟨g, hg, rfl⟩), by rw [(hf g hg).2.2.1]; exact hg0,
        by rw [(hf g hg).2.1]; exact hgz⟩
    have hr' : r ∈ s.map f ++ [r] := List.mem_append_right _ (List.mem_singleton.2 rfl)
    have hmaphash : (s.map f).map (·.hash) = s.map (·.hash) := by
      rw [List.map_map]
      apply List.map_congr_left
      intro b hb
      exact (hf b hb).1
    have hnd' : ((s.map f ++ [r]).map (·.hash) ++ xs.map cfg.hashOf).Nodup := by
      rw [List.map_append, hmaphash, List.map_singleton, hrh, List.append_assoc]
      simpa using hnd
    have hwpos : 0 < work x.bits := Nat.pos_of_ne_zero (hwork x List.mem_cons_self)
    have hlight' : ∀ r' ∈ s.map f ++ [r], connected r' → r'.hash ≠ r.hash → r'.cum < cumAlong r.cum xs := by
      intro r' hr'm hc hne
      rw [hrc, ← cumAlong_cons]
      rcases List.mem_append.1 hr'm with hm | hm
      · obtain ⟨b, hb, e⟩ := List.mem_map.1 hm
        obtain ⟨fh, _, _, fc, fo⟩ := hf b hb
        have hbc : connected b := by
          intro ho; exact hc (by rw [← e]; exact fo.2 ho)
        rw [← e, fc]
        by_cases hba : b.hash = a.hash
        · have : b = a := hinv.1.hash_inj hb ha hba
          rw [this, cumAlong_cons]
          have := cumAlong_ge xs (a.cum + work x.bits)
          omega
        · exact hlight b hb hbc hba
      · exact absurd (by rw [List.mem_singleton.1 hm]) hne
    obtain ⟨a', ha', hac', hah', hacum', hinv'', hroot'', hlight'', hold'', hnew''⟩ :=
      ih (s.map f ++ [r]) r hinv' hroot' hr' hrconn (by rw [hrh]; exact hlink') hnd'
        (fun y hy => hclean y (List.mem_cons_of_mem _ hy)) (fun y hy => hwork y (List.mem_cons_of_mem _ hy)) hlight'
    rw [run_cons, hs']
    refine ⟨a', ha', hac', ?_, ?_, hinv'', hroot'', hlight'', ?_, ?_⟩
    · rw [hah', hrh, lastHash_cons]
    · rw [hacum', hrc, cumAlong_cons]
    · intro b hb
      obtain ⟨b', hb', e1, e2, e3⟩ := hold'' (f b) (List.mem_append_left _ (List.mem_map.2 ⟨b, hb, rfl⟩))
      exact ⟨b', hb', by rw [e1, (hf b hb).1], by rw [e2, (hf b hb).2.1], by rw [e3, (hf b hb).2.2.1]⟩
    · intro y hy
      rcases List.mem_cons.1 hy with e | hm
      · obtain ⟨b', hb', e1, e2, e3⟩ := hold'' r hr'
        exact ⟨b', hb', by rw [e1, hrh, e], by rw [e2, hrp, e], by rw [e3]; exact hrid⟩
      · exact hnew'' y hm

/-- longest-chain membership runs backwards along a linked run whose last header is on the longest chain -/
theorem lc_backwards (cfg : Chain.Cfg H) (s : Store H) (hw : WF cfg s) (t : Row H) (hl : LcAt s t) :
    ∀ (news : List (Src H)) (h : H), news ≠ [] → Linked cfg.hashOf h news →
      (∀ x ∈ news, ∃ r ∈ s, r.hash = cfg.hashOf x ∧ r.prev = x.prev ∧ r.id ≠ 0) →
      (∃ r ∈ s, r.hash = lastHash cfg.hashOf h news ∧ r.st = .lc) →
      ∀ x ∈ news, ∃ r ∈ s, r.hash = cfg.hashOf x ∧ r.st = .lc := by
  intro news
  induction news with
  | nil => intro h hne; exact absurd rfl hne
  | cons x xs ih =>
    intro h _ hlink hrows hlast y hy
    cases xs with
    | nil =>
      rw [List.mem_singleton.1 hy]
      obtain ⟨r, hr, e, hlc⟩ := hlast
      exact ⟨r, hr, by rw [e]; rfl, hlc⟩
    | cons y' rest =>
      have hlast' : ∃ r ∈ s, r.hash = lastHash cfg.hashOf (cfg.hashOf x) (y' :: rest) ∧ r.st = .lc := by
        obtain ⟨r, hr, e, hlc⟩ := hlast
        exact ⟨r, hr, by rw [e, lastHash_cons], hlc⟩
      have ihx := ih (cfg.hashOf x) (by simp) hlink.2 (fun w hw' => hrows w (List.mem_cons_of_mem _ hw')) hlast'
      rcases List.mem_cons.1 hy with e | hm
      · -- x itself: the parent of y'
        obtain ⟨ry, hry, hyh, hylc⟩ := ihx y' List.mem_cons_self
        obtain ⟨ry', hry', hyh', hyp', hyid'⟩ := hrows y' (List.mem_cons_of_mem _ List.mem_cons_self)
        have : ry = ry' := hw.hash_inj hry hry' (by rw [hyh, hyh'])
        obtain ⟨rx, hrx, hxh, _, _⟩ := hrows x List.mem_cons_self
        have hpar : rx.hash = ry.prev := by rw [this, hyp', hxh]; exact hlink.2.1.symm
        rw [e]
        exact ⟨rx, hrx, hxh, hl.par ry hry hylc (by rw [this]; exact hyid') rx hrx hpar⟩
      · exact ihx y hm

/-- THE STORE SIDE OF FORK ADOPTION. A linked run `news ≠ []` of new, clean, positive-work headers on top of a connected
    row `a`, heavier in total than every other connected row: afterwards its last header is the reported tip (longest
    chain, cumulative work `cumAlong a.cum news`), every header of the run is on the longest chain, C01's invariant holds -/
theorem fork_adopted (cfg : Chain.Cfg H) (z : H) (hz : ∀ y, cfg.hashOf y ≠ z) (news : List (Src H)) (s : Store H)
    (a : Row H) (hne : news ≠ []) (hinv : Inv cfg s) (hroot : ∃ g ∈ s, g.id = 0 ∧ g.prev = z) (ha : a ∈ s)
    (hac : connected a) (hlink : Linked cfg.hashOf a.hash news) (hnd : (s.map (·.hash) ++ news.map cfg.hashOf).Nodup)
    (hclean : ∀ x ∈ news, cfg.hashOf x ∉ cfg.forbidden) (hwork : ∀ x ∈ news, work x.bits ≠ 0)
    (hlight : ∀ r ∈ s, connected r → r.hash ≠ a.hash → r.cum < cumAlong a.cum news) :
    ∃ t, getTip (run cfg s news) = some t ∧ t ∈ run cfg s news ∧ t.hash = lastHash cfg.hashOf a.hash news ∧
      t.cum = cumAlong a.cum news ∧ t.st = .lc ∧ Inv cfg (run cfg s news) ∧
      (∃ g ∈ run cfg s news, g.id = 0 ∧ g.prev = z) ∧
      (∀ x ∈ news, ∃ r ∈ run cfg s news, r.hash = cfg.hashOf x ∧ r.st = .lc) ∧
      (∀ b ∈ s, ∃ b' ∈ run cfg s news, b'.hash = b.hash ∧ b'.prev = b.prev ∧ b'.id = b.id) ∧
      (∀ x ∈ news, ∃ r ∈ run cfg s news, r.hash = cfg.hashOf x ∧ r.prev = x.prev ∧ r.id ≠ 0) := by
  obtain ⟨a', ha', hac', hah', hacum', hinv', hroot', hlight', hold', hnew'⟩ :=
    fork_steps cfg z hz news s a hinv hroot ha hac hlink hnd hclean hwork hlight
  obtain ⟨hw, t, ht, hl⟩ := hinv'
  have hta : t = a' := by
    apply hw.hash_inj ht ha'
    apply Classical.byContradiction
    intro hne'
    have h1 := hlight' t ht (connected_of_lc hl.lc) hne'
    have h2 := (hl.best a' ha' hac').1
    omega
  refine ⟨t, hl.getTip ht, ht, by rw [hta, hah'], by rw [hta, hacum'], hl.lc, ⟨hw, t, ht, hl⟩, hroot', ?_, hold', hnew'⟩
  exact lc_backwards cfg _ hw t hl news a.hash hne hlink hnew' ⟨t, ht, by rw [hta, hah'], hl.lc⟩

/-! ### the engine side: a reply = headers the table already has, then the new branch -/

instance decLinked (hashOf : Src H → H) : ∀ (h : H) (l : List (Src H)), Decidable (Linked hashOf h l)
  | _, [] => isTrue trivial
  | h, x :: xs =>
    match decEq x.prev h, decLinked hashOf (hashOf x) xs with
    | isTrue h1, isTrue h2 => isTrue ⟨h1, h2⟩
    | isFalse h1, _ => isFalse (fun k => h1 k.1)
    | _, isFalse h2 => isFalse (fun k => h2 k.2)

/-- the part of a reply the table already has (its leading headers) and the rest -/
def knownPart (ccfg : Chain.Cfg H) (s : Store H) (hs : List (Src H)) : List (Src H) :=
  hs.takeWhile (fun x => (byHash s (ccfg.hashOf x)).isSome)

def newPart (ccfg : Chain.Cfg H) (s : Store H) (hs : List (Src H)) : List (Src H) :=
  hs.dropWhile (fun x => (byHash s (ccfg.hashOf x)).isSome)

theorem known_new (ccfg : Chain.Cfg H) (s : Store H) (hs : List (Src H)) : hs = knownPart ccfg s hs ++ newPart ccfg s hs :=
  (List.takeWhile_append_dropWhile).symm

theorem knownPart_known (ccfg : Chain.Cfg H) (s : Store H) (hs : List (Src H)) :
    ∀ x ∈ knownPart ccfg s hs, (byHash s (ccfg.hashOf x)).isSome = true := by
  intro x hx
  have hall := List.all_takeWhile (l := hs) (p := fun x => (byHash s (ccfg.hashOf x)).isSome)
  exact List.all_eq_true.1 hall x hx

/-- headers the table has leave it, and the loop's flags, as they are -/
theorem headersLoop_known (ccfg : Chain.Cfg H) (nc : Option (Nat × H)) (s : Store H) :
    ∀ (hs : List (Src H)) (rc : Bool) (fh : Option H), (∀ x ∈ hs, (byHash s (ccfg.hashOf x)).isSome = true) →
      headersLoop ccfg nc s hs rc fh = (s, rc, fh, .completed) := by
  intro hs
  induction hs with
  | nil => intro rc fh _; rfl
  | cons x xs ih =>
    intro rc fh h
    have hadd : add ccfg s x = (s, .duplicate) := by
      rcases add_cases ccfg s x with ⟨_, e⟩ | ⟨hd, _⟩ | ⟨hd, _⟩
      · exact e
      · exact absurd (h x List.mem_cons_self) hd
      · exact absurd (h x List.mem_cons_self) hd
    rw [headersLoop_cons, hadd]
    exact ih rc fh (fun y hy => h y (List.mem_cons_of_mem _ hy))

/-- without a checkpoint ahead the loop over clean headers completes and never lowers `finalHash` -/
theorem headersLoop_none (ccfg : Chain.Cfg H) : ∀ (hs : List (Src H)) (s : Store H) (rc : Bool) (fh : Option H),
    (∀ x ∈ hs, ccfg.hashOf x ∉ ccfg.forbidden) →
    (headersLoop ccfg none s hs rc fh).2.2.2 = .completed ∧ (headersLoop ccfg none s hs rc fh).2.1 = rc ∧
      (fh.isSome = true → (headersLoop ccfg none s hs rc fh).2.2.1.isSome = true) := by
  intro hs
  induction hs with
  | nil => intro s rc fh _; exact ⟨rfl, rfl, fun h => h⟩
  | cons x xs ih =>
    intro s rc fh hc
    have hcx := hc x List.mem_cons_self
    have hc' : ∀ y ∈ xs, ccfg.hashOf y ∉ ccfg.forbidden := fun y hy => hc y (List.mem_cons_of_mem _ hy)
    rw [headersLoop_cons]
    cases ho : (add ccfg s x).2 with
    | duplicate => simp only []; exact ih _ _ _ hc'
    | creationFail => simp only []; exact ih _ _ _ hc'
    | rejected =>
      exfalso
      rcases add_cases ccfg s x with ⟨_, e⟩ | ⟨_, hf, _⟩ | ⟨_, _, k⟩
      · rw [e] at ho; cases ho
      · exact hcx hf
      · rcases k with ⟨_, e⟩ | ⟨_, _, e⟩ | ⟨_, _, _, _, e⟩ | ⟨_, _, _, _, e⟩ <;> rw [e] at ho <;> cases ho
    | stored r =>
      simp only []
      obtain ⟨h1, h2, h3⟩ := ih (add ccfg s x).1 rc (if r.st = .lc then some r.hash else fh) hc'
      refine ⟨h1, h2, fun hfh => h3 ?_⟩
      split
      · rfl
      · exact hfh

/-- … and ends with `finalHash` set when its last header is stored on the longest chain -/
theorem headersLoop_none_last (ccfg : Chain.Cfg H) (pre : List (Src H)) (x : Src H) (s : Store H) (r : Row H)
    (hc : ∀ y ∈ pre ++ [x], ccfg.hashOf y ∉ ccfg.forbidden)
    (ha : (add ccfg (run ccfg s pre) x).2 = .stored r) (hl : r.st = .lc) :
    (headersLoop ccfg none s (pre ++ [x]) false none).2.2.1.isSome = true := by
  have hpre := headersLoop_none ccfg pre s false none (fun y hy => hc y (List.mem_append_left _ hy))
  rw [headersLoop_append ccfg none [x] pre s false none hpre.1,
    headersLoop_store_completed ccfg none pre s false none hpre.1, headersLoop_cons, ha]
  simp only [hl, if_true]
  rfl

theorem run_append (ccfg : Chain.Cfg H) (s : Store H) (a b : List (Src H)) :
    run ccfg s (a ++ b) = run ccfg (run ccfg s a) b := by
  unfold run; rw [List.foldl_append]

theorem run_known (ccfg : Chain.Cfg H) (s : Store H) : ∀ (hs : List (Src H)),
    (∀ x ∈ hs, (byHash s (ccfg.hashOf x)).isSome = true) → run ccfg s hs = s := by
  intro hs
  induction hs with
  | nil => intro _; rfl
  | cons x xs ih =>
    intro h
    have hadd : add ccfg s x = (s, .duplicate) := by
      rcases add_cases ccfg s x with ⟨_, e⟩ | ⟨hd, _⟩ | ⟨hd, _⟩
      · exact e
      · exact absurd (h x List.mem_cons_self) hd
      · exact absurd (h x List.mem_cons_self) hd
    rw [run_cons, hadd]
    exact ih (fun y hy => h y (List.mem_cons_of_mem _ hy))

/-- "ONE REPLY SUFFICES" (decidable): the node's answer to the outstanding request consists of headers the table already
    has followed by a non-empty run `news` that
      * hangs, linked header by header, on a connected row `a` of the table (the fork point),
      * is new (hashes distinct and not in the table), clean and of positive work,
      * ends with the node's tip (the reply cap did not cut it short),
      * carries more cumulative work than every other connected row: `r.cum < a.cum + Σ work news`. -/
def OneReplySuffices (cfg : Cfg H) (st : State H) (n : Node H) (req : List H × H) (a : Row H) : Prop :=
  a ∈ st.store ∧ connected a ∧
  newPart cfg.chain st.store (reply cfg.chain.hashOf n req.1 req.2) ≠ [] ∧
  Linked cfg.chain.hashOf a.hash (newPart cfg.chain st.store (reply cfg.chain.hashOf n req.1 req.2)) ∧
  (st.store.map (·.hash) ++ (newPart cfg.chain st.store (reply cfg.chain.hashOf n req.1 req.2)).map cfg.chain.hashOf).Nodup ∧
  (∀ x ∈ newPart cfg.chain st.store (reply cfg.chain.hashOf n req.1 req.2), cfg.chain.hashOf x ∉ cfg.chain.forbidden) ∧
  (∀ x ∈ newPart cfg.chain st.store (reply cfg.chain.hashOf n req.1 req.2), work x.bits ≠ 0) ∧
  lastHash cfg.chain.hashOf a.hash (newPart cfg.chain st.store (reply cfg.chain.hashOf n req.1 req.2)) =
    lastHash cfg.chain.hashOf n.genesis n.chain ∧
  (∀ r ∈ st.store, connected r → r.hash ≠ a.hash →
    r.cum < cumAlong a.cum (newPart cfg.chain st.store (reply cfg.chain.hashOf n req.1 req.2)))

instance (cfg : Cfg H) (st : State H) (n : Node H) (req : List H × H) (a : Row H) :
    Decidable (OneReplySuffices cfg st n req a) := by
  unfold OneReplySuffices; infer_instance

/-- the new branch in the node's answer -/
def forkNews (cfg : Cfg H) (st : State H) (n : Node H) (req : List H × H) : List (Src H) :=
  newPart cfg.chain st.store (reply cfg.chain.hashOf n req.1 req.2)

/-- THE ROUND THAT ADOPTS A FORK: the manager handles the node's answer; see `C06_fork` -/
theorem fork_round (cfg : Cfg H) (z : H) (hz : ∀ y, cfg.chain.hashOf y ≠ z) (st : State H) (n : Node H) (p : Nat)
    (q : PeerSt H) (req : List H × H) (a : Row H) (hinv : Inv cfg.chain st.store)
    (hroot : ∃ g ∈ st.store, g.id = 0 ∧ g.prev = z) (hq : lookup st.peers p = some q) (hin : q.inMap = true)
    (hd : q.disc = false) (hf : st.headersFirst = true) (hcp : st.nextCp = none)
    (hone : OneReplySuffices cfg st n req a) :
    (handleHeaders cfg st p (reply cfg.chain.hashOf n req.1 req.2)).2 =
        [Action.getheaders p (locator (handleHeaders cfg st p (reply cfg.chain.hashOf n req.1 req.2)).1.store) cfg.zero] ∧
      (handleHeaders cfg st p (reply cfg.chain.hashOf n req.1 req.2)).1.store =
        run cfg.chain st.store (reply cfg.chain.hashOf n req.1 req.2) ∧
      (∃ t, getTip (handleHeaders cfg st p (reply cfg.chain.hashOf n req.1 req.2)).1.store = some t ∧
        t.hash = lastHash cfg.chain.hashOf n.genesis n.chain ∧ t.st = .lc ∧
        t.cum = cumAlong a.cum (forkNews cfg st n req)) ∧
      Inv cfg.chain (handleHeaders cfg st p (reply cfg.chain.hashOf n req.1 req.2)).1.store ∧
      (∀ x ∈ forkNews cfg st n req, ∃ r ∈ (handleHeaders cfg st p (reply cfg.chain.hashOf n req.1 req.2)).1.store,
        r.hash = cfg.chain.hashOf x ∧ r.st = .lc) ∧
      (∀ b ∈ st.store, ∃ b' ∈ (handleHeaders cfg st p (reply cfg.chain.hashOf n req.1 req.2)).1.store,
        b'.hash = b.hash ∧ b'.prev = b.prev ∧ b'.id = b.id) ∧
      (∀ x ∈ forkNews cfg st n req, ∃ r ∈ (handleHeaders cfg st p (reply cfg.chain.hashOf n req.1 req.2)).1.store,
        r.hash = cfg.chain.hashOf x ∧ r.prev = x.prev ∧ r.id ≠ 0) ∧
      (handleHeaders cfg st p (reply cfg.chain.hashOf n req.1 req.2)).1.headersFirst = true ∧
      (∃ q', lookup (handleHeaders cfg st p (reply cfg.chain.hashOf n req.1 req.2)).1.peers p = some q' ∧
        q'.inMap = true ∧ q'.disc = false) := by
  obtain ⟨ha, hac, hne, hlink, hnd, hclean, hwork, hreach, hlight⟩ := hone
  -- names
  generalize hhs : reply cfg.chain.hashOf n req.1 req.2 = hs at *
  have hsplit := known_new cfg.chain st.store hs
  have hknown := knownPart_known cfg.chain st.store hs
  generalize hdups : knownPart cfg.chain st.store hs = dups at hsplit hknown
  generalize hnews : newPart cfg.chain st.store hs = news at *
  have hfn : forkNews cfg st n req = news := by unfold forkNews; rw [hhs, hnews]
  rw [hfn]
  -- the table afterwards
  have hrun : run cfg.chain st.store hs = run cfg.chain st.store news := by
    rw [hsplit, run_append, run_known cfg.chain st.store dups hknown]
  obtain ⟨t, htip, htm, hth, htc, htl, hinv', _, hlc, hold, hnewrows⟩ :=
    fork_adopted cfg.chain z hz news st.store a hne hinv hroot ha hac hlink hnd hclean hwork hlight
  -- the loop
  have hloop : headersLoop cfg.chain none st.store hs false none = headersLoop cfg.chain none st.store news false none := by
    rw [hsplit, headersLoop_append cfg.chain none news dups st.store false none
      (by rw [headersLoop_known cfg.chain none st.store dups false none hknown]),
      headersLoop_known cfg.chain none st.store dups false none hknown]
  obtain ⟨hcomp, hrc, _⟩ := headersLoop_none cfg.chain news st.store false none hclean
  have hstore := headersLoop_store_completed cfg.chain none news st.store false none hcomp
  -- finalHash is set: the last header is stored on the longest chain
  have hfh : (headersLoop cfg.chain none st.store news false none).2.2.1.isSome = true := by
    have hcat : news = news.dropLast ++ [news.getLast hne] := (List.dropLast_concat_getLast hne).symm
    have hxm : news.getLast hne ∈ news := List.getLast_mem hne
    have hinvp : Inv cfg.chain (run cfg.chain st.store news.dropLast) := by
      obtain ⟨g, hg, hg0, hgz⟩ := hroot
      exact Inv.run (by rw [hgz]; exact hz) news.dropLast hinv hg hg0
    have hfreshp : ¬ (byHash (run cfg.chain st.store news.dropLast) (cfg.chain.hashOf (news.getLast hne))).isSome = true := by
      intro hs'
      obtain ⟨r, hr, e⟩ := byHash_isSome.1 hs'
      have hnd' : (st.store.map (·.hash) ++ (news.dropLast ++ [news.getLast hne]).map cfg.chain.hashOf).Nodup := by
        rw [← hcat]; exact hnd
      rw [List.map_append, List.map_singleton, ← List.append_assoc] at hnd'
      have hdis := (List.nodup_append.1 hnd').2.2
      rcases run_hashes cfg.chain news.dropLast st.store r hr with h | h
      · exact hdis _ (List.mem_append_left _ h) _ (List.mem_singleton.2 rfl) e
      · exact hdis _ (List.mem_append_right _ h) _ (List.mem_singleton.2 rfl) e
    obtain ⟨hwp, tp, htp, hlp⟩ := hinvp
    obtain ⟨f, r, hadd, _, _⟩ := add_stored_shape cfg.chain _ (news.getLast hne) hwp hfreshp (hclean _ hxm)
      ⟨tp, hlp.getTip htp⟩
    have hout : (add cfg.chain (run cfg.chain st.store news.dropLast) (news.getLast hne)).2 = .stored r := by rw [hadd]
    obtain ⟨hrm, hrh⟩ := add_stored_mem cfg.chain _ _ r hout
    have hrun' : (add cfg.chain (run cfg.chain st.store news.dropLast) (news.getLast hne)).1 = run cfg.chain st.store news := by
      conv => rhs; rw [hcat, run_append]
      rfl
    rw [hrun'] at hrm
    have hlast : lastHash cfg.chain.hashOf a.hash news = cfg.chain.hashOf (news.getLast hne) := by
      unfold lastHash
      rw [List.getLast?_eq_some_getLast hne]
    have hrt : r = t := hinv'.1.hash_inj hrm htm (by rw [hrh, hth, hlast])
    have := headersLoop_none_last cfg.chain news.dropLast (news.getLast hne) st.store r
      (by rw [← hcat]; exact hclean) hout (by rw [hrt]; exact htl)
    rw [← hcat] at this
    exact this
  obtain ⟨fhv, hfhv⟩ := Option.isSome_iff_exists.1 hfh
  -- the manager
  have hq1 : lookup (onHeadersReceived st.peers p) p = some (headersSeen q) := lookup_onHeadersReceived hq
  have hin1 : (headersSeen q).inMap = true := by rw [headersSeen_inMap]; exact hin
  have hd1 : (headersSeen q).disc = false := by rw [headersSeen_disc]; exact hd
  have hemp : hs.isEmpty = false := by
    rw [hsplit]
    cases dups <;> cases news <;> first | rfl | exact absurd rfl hne
  have hl : headersLoop cfg.chain ({ st with peers := onHeadersReceived st.peers p } : State H).nextCp
      ({ st with peers := onHeadersReceived st.peers p } : State H).store hs false none =
      (run cfg.chain st.store news, false, some fhv, .completed) := by
    show headersLoop cfg.chain st.nextCp st.store hs false none = _
    rw [hcp, hloop]
    apply Prod.ext
    · exact hstore
    · apply Prod.ext
      · exact hrc
      · apply Prod.ext
        · exact hfhv
        · exact hcomp
  have hwrap : handleHeaders cfg st p hs = handleHeadersCore cfg { st with peers := onHeadersReceived st.peers p } p hs := rfl
  have hh := handleHeadersCore_completed cfg { st with peers := onHeadersReceived st.peers p } p (headersSeen q) hs _ _ fhv
    hq1 hin1 hf hemp hl
  have hncp : ({ st with peers := onHeadersReceived st.peers p } : State H).nextCp = none := hcp
  rw [hncp] at hh
  simp only [Bool.false_eq_true, if_false] at hh
  obtain ⟨more, hloc⟩ := locator_head htip
  have hfresh : (headersSeen q).prevBegin ≠ (locator (run cfg.chain st.store news)).head? := by
    rw [hloc]
    unfold headersSeen
    simp [f4bFixed]
  have hpush := pushTo_fresh { ({ st with peers := onHeadersReceived st.peers p } : State H) with store := run cfg.chain st.store news }
    p (headersSeen q) (locator (run cfg.chain st.store news)) cfg.zero hq1 hfresh hd1
  rw [hcp] at hpush
  rw [hwrap, hcp, hh, hpush]
  refine ⟨rfl, hrun.symm, ⟨t, htip, by rw [hth, hreach], htl, htc⟩, hinv', hlc, hold, hnewrows, hf, ?_⟩
  exact ⟨_, lookup_update hq1 rfl, hin1, hd1⟩

/-- an empty headers message from the peer: nothing happens (beyond the inHandler clearing the duplicate filter) -/
theorem handleHeaders_empty (cfg : Cfg H) (st : State H) (p : Nat) (q : PeerSt H) (hq : lookup st.peers p = some q)
    (hin : q.inMap = true) (hf : st.headersFirst = true) :
    (handleHeaders cfg st p []).2 = [] ∧ (handleHeaders cfg st p []).1.store = st.store := by
  have hq1 : lookup (onHeadersReceived st.peers p) p = some (headersSeen q) := lookup_onHeadersReceived hq
  unfold handleHeaders handleHeadersCore
  simp only [hq1]
  simp [headersSeen_inMap, hin, hf]

/-- THE CLOSED LOOP ADOPTS A FORK IN ONE REPLY: round 1 is `fork_round`; the request it sends starts at the node's own
    tip, so the node's second answer is empty and the loop is quiescent after two rounds -/
theorem fork_closed (cfg : Cfg H) (z : H) (hz : ∀ y, cfg.chain.hashOf y ≠ z) (st : State H) (n : Node H) (p : Nat)
    (q : PeerSt H) (req : List H × H) (a : Row H) (hinv : Inv cfg.chain st.store)
    (hroot : ∃ g ∈ st.store, g.id = 0 ∧ g.prev = z) (hq : lookup st.peers p = some q) (hin : q.inMap = true)
    (hd : q.disc = false) (hf : st.headersFirst = true) (hcp : st.nextCp = none)
    (hnode : (n.genesis :: n.chain.map cfg.chain.hashOf).Nodup)
    (hone : OneReplySuffices cfg st n req a) :
    ∃ st', rounds cfg n p 2 (st, some req) = (st', none) ∧
      st'.store = run cfg.chain st.store (reply cfg.chain.hashOf n req.1 req.2) ∧
      (∃ t, getTip st'.store = some t ∧ t.hash = lastHash cfg.chain.hashOf n.genesis n.chain ∧ t.st = .lc ∧
        t.cum = cumAlong a.cum (forkNews cfg st n req)) ∧
      Inv cfg.chain st'.store ∧
      (∀ x ∈ forkNews cfg st n req, ∃ r ∈ st'.store, r.hash = cfg.chain.hashOf x ∧ r.st = .lc) ∧
      (∀ b ∈ st.store, ∃ b' ∈ st'.store, b'.hash = b.hash ∧ b'.prev = b.prev ∧ b'.id = b.id) ∧
      (Linked cfg.chain.hashOf n.genesis n.chain →
        (∀ x ∈ n.chain, x ∉ forkNews cfg st n req →
          ∃ r ∈ st.store, r.hash = cfg.chain.hashOf x ∧ r.prev = x.prev ∧ r.id ≠ 0) →
        ∀ x ∈ n.chain, ∃ r ∈ st'.store, r.hash = cfg.chain.hashOf x ∧ r.st = .lc) := by
  obtain ⟨hact, hstore, ⟨t, htip, hth, htl, htc⟩, hinv', hlc, hold, hnewrows, hf', q', hq', hin', _⟩ :=
    fork_round cfg z hz st n p q req a hinv hroot hq hin hd hf hcp hone
  generalize hst1 : (handleHeaders cfg st p (reply cfg.chain.hashOf n req.1 req.2)).1 = st1 at *
  -- round 2: the node has nothing beyond its tip
  obtain ⟨more, hloc⟩ := locator_head htip
  have hstart : startOf cfg.chain.hashOf n (t.hash :: more) = n.chain.length :=
    startOf_tip cfg.chain.hashOf n n.chain [] t.hash more (List.append_nil _).symm hnode (by rw [hth]; rfl)
  have hrep : reply cfg.chain.hashOf n (locator st1.store) cfg.zero = [] := by
    unfold reply
    rw [hloc, hstart, List.drop_length, List.take_nil]
    rfl
  obtain ⟨hact2, hstore2⟩ := handleHeaders_empty cfg st1 p q' hq' hin' hf'
  have hrounds : rounds cfg n p 2 (st, some req) = ((handleHeaders cfg st1 p []).1, none) := by
    show rounds cfg n p 1 ((handleHeaders cfg st p (reply cfg.chain.hashOf n req.1 req.2)).1,
      requestTo p (handleHeaders cfg st p (reply cfg.chain.hashOf n req.1 req.2)).2) = _
    rw [hact, hst1]
    have : requestTo p [Action.getheaders p (locator st1.store) cfg.zero] = some (locator st1.store, cfg.zero) := by
      unfold requestTo; simp
    rw [this]
    show rounds cfg n p 0 ((handleHeaders cfg st1 p (reply cfg.chain.hashOf n (locator st1.store) cfg.zero)).1,
      requestTo p (handleHeaders cfg st1 p (reply cfg.chain.hashOf n (locator st1.store) cfg.zero)).2) = _
    rw [hrep, hact2]
    rfl
  refine ⟨_, hrounds, by rw [hstore2]; exact hstore, ⟨t, by rw [hstore2]; exact htip, hth, htl, htc⟩,
    by rw [hstore2]; exact hinv', by rw [hstore2]; exact hlc, by rw [hstore2]; exact hold, ?_⟩
  intro hlinked hstored
  rw [hstore2]
  by_cases hne : n.chain = []
  · intro x hx; rw [hne] at hx; cases hx
  · obtain ⟨hw, t', ht', hl⟩ := hinv'
    have htm : t ∈ st1.store := by
      have := hl.getTip ht'
      rw [htip] at this
      rw [Option.some.inj this]; exact ht'
    refine lc_backwards cfg.chain st1.store hw t' hl n.chain n.genesis hne hlinked ?_ ⟨t, htm, hth, htl⟩
    intro x hx
    by_cases hm : x ∈ forkNews cfg st n req
    · exact hnewrows x hm
    · obtain ⟨b, hb, e1, e2, e3⟩ := hstored x hx hm
      obtain ⟨b', hb', f1, f2, f3⟩ := hold b hb
      exact ⟨b', hb', by rw [f1, e1], by rw [f2, e2], by rw [f3]; exact e3⟩

/-- a completely processed batch without a longest-chain header: the manager requests nothing more from that peer -/
theorem handleHeaders_no_lc (cfg : Cfg H) (st : State H) (p : Nat) (q : PeerSt H) (hs : List (Src H))
    (hq : lookup st.peers p = some q) (hin : q.inMap = true) (hf : st.headersFirst = true)
    (hend : (headersLoop cfg.chain st.nextCp st.store hs false none).2.2.2 = .completed)
    (hfh : (headersLoop cfg.chain st.nextCp st.store hs false none).2.2.1 = none) :
    (handleHeaders cfg st p hs).2 = [] ∧
      (handleHeaders cfg st p hs).1.store = run cfg.chain st.store hs ∧
      (handleHeaders cfg st p hs).1.syncPeer = st.syncPeer ∧ (handleHeaders cfg st p hs).1.nextCp = st.nextCp := by
  have hq1 : lookup (onHeadersReceived st.peers p) p = some (headersSeen q) := lookup_onHeadersReceived hq
  have hstore := headersLoop_store_completed cfg.chain st.nextCp hs st.store false none hend
  unfold handleHeaders handleHeadersCore
  simp only [hq1]
  simp only [headersSeen_inMap, hin, hf, Bool.not_true, Bool.false_eq_true, if_false]
  by_cases he : hs.isEmpty = true
  · have : hs = [] := List.isEmpty_iff.1 he
    subst this
    simp
    rfl
  · simp only [he, Bool.false_eq_true, if_false]
    rw [hend]
    simp only []
    rw [hfh]
    exact ⟨rfl, hstore, rfl, rfl⟩

/-! ### the complement: a batch none of whose headers lands on the longest chain -/

/-- "NO LONGEST-CHAIN HEADER" (decidable): ingesting the batch in order, no header is stored as LONGEST_CHAIN (each is a
    duplicate, refused, an orphan, or stored STALE because its branch does not carry more work than the tip's) -/
def NoLcHeader (ccfg : Chain.Cfg H) : Store H → List (Src H) → Prop
  | _, [] => True
  | s, x :: xs => (∀ r, (add ccfg s x).2 = .stored r → r.st ≠ .lc) ∧ NoLcHeader ccfg (add ccfg s x).1 xs

instance decStoredNotLc (o : Outcome H) : Decidable (∀ r, o = .stored r → r.st ≠ .lc) :=
  match o with
  | .stored r => if h : r.st = .lc then isFalse (fun k => k r rfl h) else isTrue (fun r' e => by cases e; exact h)
  | .duplicate => isTrue (fun _ e => by cases e)
  | .rejected => isTrue (fun _ e => by cases e)
  | .creationFail => isTrue (fun _ e => by cases e)

instance decNoLcHeader (ccfg : Chain.Cfg H) : ∀ (s : Store H) (hs : List (Src H)), Decidable (NoLcHeader ccfg s hs)
  | _, [] => isTrue trivial
  | s, x :: xs =>
    match decStoredNotLc (add ccfg s x).2, decNoLcHeader ccfg (add ccfg s x).1 xs with
    | isTrue h1, isTrue h2 => isTrue ⟨h1, h2⟩
    | isFalse h1, _ => isFalse (fun k => h1 k.1)
    | _, isFalse h2 => isFalse (fun k => h2 k.2)

/-- then `finalHash` is never set — whatever the cursor, however the loop ends -/
theorem headersLoop_no_lc (ccfg : Chain.Cfg H) (nc : Option (Nat × H)) : ∀ (hs : List (Src H)) (s : Store H) (rc : Bool)
    (fh : Option H), NoLcHeader ccfg s hs → (headersLoop ccfg nc s hs rc fh).2.2.1 = fh := by
  intro hs
  induction hs with
  | nil => intro s rc fh _; rfl
  | cons x xs ih =>
    intro s rc fh h
    obtain ⟨h1, h2⟩ := h
    rw [headersLoop_cons]
    cases ho : (add ccfg s x).2 with
    | duplicate => exact ih _ _ _ h2
    | creationFail => exact ih _ _ _ h2
    | rejected => rfl
    | stored r =>
      have hr : (if r.st = .lc then some r.hash else fh) = fh := if_neg (h1 r ho)
      simp only [hr]
      cases nc with
      | none => exact ih _ _ _ h2
      | some c =>
        simp only []
        split
        · split
          · exact ih _ _ _ h2
          · rfl
        · exact ih _ _ _ h2

theorem getTip_append_non_lc (s : Store H) (r : Row H) (h : r.st ≠ .lc) : getTip (s ++ [r]) = getTip s := by
  have hf : (s ++ [r]).filter (fun r => decide (r.st = .lc)) = s.filter (fun r => decide (r.st = .lc)) := by
    rw [List.filter_append]; simp [h]
  have hm : maxLcHeight (s ++ [r]) = maxLcHeight s := by unfold maxLcHeight; rw [hf]
  unfold getTip
  rw [hm]
  cases maxLcHeight s with
  | none => rfl
  | some m =>
    simp only []
    unfold lcAtHeight
    rw [List.find?_append]
    simp [h]

/-- … and the reported tip stays what it was -/
theorem run_no_lc_tip (ccfg : Chain.Cfg H) : ∀ (hs : List (Src H)) (s : Store H), NoLcHeader ccfg s hs →
    getTip (run ccfg s hs) = getTip s := by
  intro hs
  induction hs with
  | nil => intro s _; rfl
  | cons x xs ih =>
    intro s h
    obtain ⟨h1, h2⟩ := h
    rw [run_cons, ih _ h2]
    rcases add_cases ccfg s x with ⟨_, e⟩ | ⟨_, _, e⟩ | ⟨_, _, k⟩
    · rw [e]
    · rw [e]
    · rcases k with ⟨_, e⟩ | ⟨_, _, e⟩ | ⟨_, _, _, _, e⟩ | ⟨_, _, _, _, e⟩
      · rw [e] at h1 ⊢
        exact getTip_append_non_lc s _ (h1 _ rfl)
      · rw [e]
      · rw [e]
        exact getTip_append_non_lc s _ (by simp)
      · rw [e] at h1
        exact absurd (setSt_st _ _) (h1 _ rfl)

theorem disconnectPeer_no_gh (ps : List (PeerSt H)) (p : Nat) :
    ∀ a ∈ (disconnectPeer ps p).2, ∀ p' loc stop, a ≠ Action.getheaders p' loc stop := by
  unfold disconnectPeer
  split
  · intro a ha; cases ha
  · split
    · intro a ha; cases ha
    · intro a ha p' loc stop e
      rw [List.mem_singleton.1 ha] at e
      cases e

/-- NO LONGEST-CHAIN HEADER ⇒ NO REQUEST, in every state and for every batch (any cursor, forbidden headers and
    checkpoint contradictions included): the manager sends no getheaders to anybody, and the sync peer stays -/
theorem no_lc_no_request (cfg : Cfg H) (st : State H) (p : Nat) (hs : List (Src H))
    (hno : NoLcHeader cfg.chain st.store hs) :
    (∀ a ∈ (handleHeaders cfg st p hs).2, ∀ p' loc stop, a ≠ Action.getheaders p' loc stop) ∧
      (handleHeaders cfg st p hs).1.syncPeer = st.syncPeer := by
  refine ⟨?_, (handleHeaders_frame cfg st p hs).2⟩
  have hfh : (headersLoop cfg.chain st.nextCp st.store hs false none).2.2.1 = none :=
    headersLoop_no_lc cfg.chain st.nextCp hs st.store false none hno
  unfold handleHeaders handleHeadersCore
  split
  · intro a ha; cases ha
  · split
    · intro a ha; cases ha
    · split
      · exact disconnectPeer_no_gh _ p
      · split
        · intro a ha; cases ha
        · simp only []
          split
          · intro a ha p' loc stop e
            rcases List.mem_cons.1 ha with h | h
            · rw [h] at e; cases e
            · exact disconnectPeer_no_gh _ p a h p' loc stop e
          · exact disconnectPeer_no_gh _ p
          · rw [hfh]
            intro a ha; cases ha

/-- the quiet case: a clean batch, no checkpoint ahead, the peer in the map, headers-first mode: the batch is ingested,
    NOTHING is sent, the tip, the sync peer and the cursor are what they were -/
theorem no_lc_quiet (cfg : Cfg H) (st : State H) (p : Nat) (q : PeerSt H) (hs : List (Src H))
    (hq : lookup st.peers p = some q) (hin : q.inMap = true) (hf : st.headersFirst = true) (hcp : st.nextCp = none)
    (hclean : ∀ x ∈ hs, cfg.chain.hashOf x ∉ cfg.chain.forbidden) (hno : NoLcHeader cfg.chain st.store hs) :
    (handleHeaders cfg st p hs).2 = [] ∧
      (handleHeaders cfg st p hs).1.store = run cfg.chain st.store hs ∧
      getTip (handleHeaders cfg st p hs).1.store = getTip st.store ∧
      (handleHeaders cfg st p hs).1.syncPeer = st.syncPeer ∧ (handleHeaders cfg st p hs).1.nextCp = st.nextCp := by
  have hend := (headersLoop_none cfg.chain hs st.store false none hclean).1
  have hfh := headersLoop_no_lc cfg.chain none hs st.store false none hno
  rw [← hcp] at hend hfh
  obtain ⟨h1, h2, h3, h4⟩ := handleHeaders_no_lc cfg st p q hs hq hin hf hend hfh
  exact ⟨h1, h2, by rw [h2]; exact run_no_lc_tip cfg.chain hs st.store hno, h3, h4⟩

end BHS.Sync
