/-
Helper lemmas for C15 (2/2): worlds and schedules.
Definitions used by the property theorems:
  `Thread.inAdd`     the thread is inside `Add` (has made its first repository call, has not returned)
  `Allowed w i`      thread i may take a step in world w under the mutex: nobody ELSE is inside `Add`
  `Exclusive`        every step of the schedule is allowed (= the schedules a mutex around `Add` admits)
  `startOrder`       the thread numbers in the order in which they entered `Add`
  `blockSchedule`    the schedule that runs the given threads one after the other, `maxSteps` calls each
  `AllDone`          every thread has returned
`Mutex cfg s w l`: the invariant of exclusive schedules — `l` are the submissions whose `Add` has been entered so far,
in order; either nobody is inside `Add` and the store is `run cfg s l`, or the last of them is, alone, and the store and
its locals are what `steps` (the thread running alone) gives from `run cfg s (l without the last)`.
Core Lean only.
-/
import BHS.Proofs.Interleave

set_option linter.unusedSectionVars false
set_option linter.unusedVariables false

namespace BHS.Chain
variable {H : Type} [DecidableEq H]

/-! ### definitions -/

/-- inside `Add`: holds the mutex of the repaired code -/
def Thread.inAdd (t : Thread H) : Bool := !t.isStart && !t.isDone

/-- thread `i` may take a step: no other thread is inside `Add`
    (scheduling a returned or non-existent thread is a no-op of `stepWorld`; it is admitted only when nobody else is
    inside `Add`, which loses nothing: dropping no-op steps from a schedule does not change the run) -/
def Allowed (w : World H) (i : Nat) : Prop :=
  ∀ k (h : k < w.threads.length), (w.threads[k]).inAdd = true → k = i

instance (w : World H) (i : Nat) : Decidable (Allowed w i) := by unfold Allowed; infer_instance

/-- the schedules a mutex held for the whole of `Add` admits -/
def Exclusive (cfg : Cfg H) : World H → List Nat → Prop
  | _, [] => True
  | w, i :: rest => Allowed w i ∧ Exclusive cfg (stepWorld cfg w i) rest

instance decExclusive (cfg : Cfg H) : ∀ (w : World H) (sched : List Nat), Decidable (Exclusive cfg w sched)
  | _, [] => isTrue trivial
  | w, i :: rest =>
    match (inferInstance : Decidable (Allowed w i)), decExclusive cfg (stepWorld cfg w i) rest with
    | isTrue h1, isTrue h2 => isTrue ⟨h1, h2⟩
    | isFalse h1, _ => isFalse (fun h => h1 h.1)
    | _, isFalse h2 => isFalse (fun h => h2 h.2)

/-- `[i]` when this step is thread i's first repository call -/
def startAt (w : World H) (i : Nat) : List Nat :=
  match w.threads[i]? with
  | some t => if t.isStart then [i] else []
  | none => []

/-- the threads in the order in which they entered `Add` -/
def startOrder (cfg : Cfg H) : World H → List Nat → List Nat
  | _, [] => []
  | w, i :: rest => startAt w i ++ startOrder cfg (stepWorld cfg w i) rest

/-- run the listed threads one after the other, each for `maxSteps` repository calls -/
def blockSchedule (order : List Nat) : List Nat := order.flatMap (fun i => List.replicate maxSteps i)

def AllDone (w : World H) : Prop := ∀ t ∈ w.threads, t.isDone = true

instance (w : World H) : Decidable (AllDone w) := by unfold AllDone; infer_instance

/-- the row a finished thread reported as stored -/
def Thread.storedRow (t : Thread H) : Option (Row H) :=
  match t.pc with
  | .done (.stored r) => some r
  | _ => none

def Outcome.isDuplicate : Outcome H → Bool
  | .duplicate => true
  | _ => false

/-- the submission of thread `k` -/
def srcAt (w : World H) (k : Nat) : Option (Src H) := (w.threads[k]?).map (·.x)

/-! ### one step of the world -/

theorem stepWorld_none (cfg : Cfg H) {w : World H} {i : Nat} (h : w.threads[i]? = none) : stepWorld cfg w i = w := by
  unfold stepWorld; rw [h]

theorem stepWorld_some (cfg : Cfg H) {w : World H} {i : Nat} {t : Thread H} (h : w.threads[i]? = some t) :
    stepWorld cfg w i =
      { store := (stepThread cfg w.store t).1, threads := w.threads.set i (stepThread cfg w.store t).2 } := by
  unfold stepWorld; rw [h]

theorem stepWorld_get_self (cfg : Cfg H) {w : World H} {i : Nat} {t : Thread H} (h : w.threads[i]? = some t) :
    (stepWorld cfg w i).threads[i]? = some (stepThread cfg w.store t).2 := by
  rw [stepWorld_some cfg h]
  obtain ⟨hi, _⟩ := List.getElem?_eq_some_iff.1 h
  exact List.getElem?_set_self hi

theorem stepWorld_get_ne (cfg : Cfg H) (w : World H) {i k : Nat} (h : k ≠ i) :
    (stepWorld cfg w i).threads[k]? = w.threads[k]? := by
  cases e : w.threads[i]? with
  | none => rw [stepWorld_none cfg e]
  | some t =>
    rw [stepWorld_some cfg e]
    exact List.getElem?_set_ne (fun k' => h k'.symm)

theorem stepWorld_done (cfg : Cfg H) {w : World H} {i : Nat} {t : Thread H} (h : w.threads[i]? = some t)
    (hd : t.isDone = true) : stepWorld cfg w i = w := by
  rw [stepWorld_some cfg h, stepThread_done cfg w.store hd]
  obtain ⟨hi, e⟩ := List.getElem?_eq_some_iff.1 h
  subst e
  rw [List.set_getElem_self]

theorem srcAt_step (cfg : Cfg H) (w : World H) (i k : Nat) : srcAt (stepWorld cfg w i) k = srcAt w k := by
  unfold srcAt
  by_cases hk : k = i
  · subst hk
    cases e : w.threads[k]? with
    | none => rw [stepWorld_none cfg e, e]
    | some t => rw [stepWorld_get_self cfg e]; simp [step_x]
  · rw [stepWorld_get_ne cfg w hk]

theorem srcAt_step_fun (cfg : Cfg H) (w : World H) (i : Nat) : srcAt (stepWorld cfg w i) = srcAt w :=
  funext (srcAt_step cfg w i)

theorem runSchedule_nil (cfg : Cfg H) (w : World H) : runSchedule cfg w [] = w := rfl

theorem runSchedule_cons (cfg : Cfg H) (w : World H) (i : Nat) (rest : List Nat) :
    runSchedule cfg w (i :: rest) = runSchedule cfg (stepWorld cfg w i) rest := rfl

theorem runSchedule_append (cfg : Cfg H) (w : World H) (a b : List Nat) :
    runSchedule cfg w (a ++ b) = runSchedule cfg (runSchedule cfg w a) b := List.foldl_append

theorem srcAt_run (cfg : Cfg H) : ∀ (sched : List Nat) (w : World H), srcAt (runSchedule cfg w sched) = srcAt w
  | [], _ => rfl
  | i :: rest, w => by rw [runSchedule_cons, srcAt_run cfg rest, srcAt_step_fun]

theorem Allowed.get {w : World H} {i k : Nat} {t : Thread H} (h : Allowed w i) (e : w.threads[k]? = some t)
    (ht : t.inAdd = true) : k = i := by
  obtain ⟨hk, rfl⟩ := List.getElem?_eq_some_iff.1 e
  exact h k hk ht

theorem exclusive_append (cfg : Cfg H) : ∀ (a b : List Nat) (w : World H),
    Exclusive cfg w (a ++ b) ↔ Exclusive cfg w a ∧ Exclusive cfg (runSchedule cfg w a) b
  | [], b, w => by simp [Exclusive, runSchedule_nil]
  | i :: a, b, w => by
    show Allowed w i ∧ Exclusive cfg (stepWorld cfg w i) (a ++ b) ↔ _
    rw [exclusive_append cfg a b, runSchedule_cons]
    simp only [Exclusive, and_assoc]

theorem exclusive_take (cfg : Cfg H) {w : World H} {sched : List Nat} (h : Exclusive cfg w sched) (n : Nat) :
    Exclusive cfg w (sched.take n) := by
  rw [← List.take_append_drop n sched] at h
  exact ((exclusive_append cfg _ _ w).1 h).1

/-! ### the invariant of exclusive schedules -/

theorem inAdd_false_of_start {t : Thread H} (h : t.isStart = true) : t.inAdd = false := by
  simp [Thread.inAdd, h]

theorem inAdd_false_of_done {t : Thread H} (h : t.isDone = true) : t.inAdd = false := by
  simp [Thread.inAdd, h]

theorem idle_cases {t : Thread H} (h : t.inAdd = false) : t.isStart = true ∨ t.isDone = true := by
  unfold Thread.inAdd at h
  cases h1 : t.isStart <;> cases h2 : t.isDone <;> simp [h1, h2] at h ⊢

theorem not_done_of_start {t : Thread H} (h : t.isStart = true) : t.isDone = false := by
  have := isStart_iff.1 h
  unfold Thread.isDone; rw [this]

/-- nobody but (possibly) `c` is inside `Add` -/
def IdleBut (w : World H) (c : Option Nat) : Prop :=
  ∀ k t, w.threads[k]? = some t → some k ≠ c → t.inAdd = false

def Mutex (cfg : Cfg H) (s : Store H) (w : World H) (l : List (Src H)) : Prop :=
  (IdleBut w none ∧ w.store = run cfg s l) ∨
  (∃ c t j l0, l = l0 ++ [t.x] ∧ w.threads[c]? = some t ∧ IdleBut w (some c) ∧ 1 ≤ j ∧
      (w.store, t) = steps cfg j (run cfg s l0, { x := t.x, pc := .start }))

theorem steps_pos_not_start (cfg : Cfg H) {j : Nat} (hj : 1 ≤ j) (p : Store H × Thread H) :
    (steps cfg j p).2.isStart = false := by
  obtain ⟨j, rfl⟩ : ∃ j', j = j' + 1 := ⟨j - 1, by omega⟩
  rw [steps_succ']
  exact step_not_start cfg _ _

theorem mutex_init (cfg : Cfg H) (s : Store H) (xs : List (Src H)) : Mutex cfg s (initWorld s xs) [] := by
  left
  refine ⟨?_, rfl⟩
  intro k t e _
  have := List.mem_of_getElem? e
  unfold initWorld at this
  obtain ⟨x, _, rfl⟩ := List.mem_map.1 this
  rfl

/-- when every thread has returned, the store is the sequential ingestion of the entered submissions -/
theorem Mutex.store_of_idle {cfg : Cfg H} {s : Store H} {w : World H} {l : List (Src H)} (h : Mutex cfg s w l)
    (hidle : IdleBut w none) : w.store = run cfg s l := by
  rcases h with ⟨_, e⟩ | ⟨c, t, j, l0, rfl, ht, _, hj, e⟩
  · exact e
  · have hi := hidle c t ht (by simp)
    have hns : t.isStart = false := by
      have := steps_pos_not_start cfg hj (run cfg s l0, { x := t.x, pc := .start })
      rw [← e] at this; exact this
    have hd : t.isDone = true := by
      rcases idle_cases hi with h1 | h1
      · rw [hns] at h1; cases h1
      · exact h1
    have hd' : (steps cfg j (run cfg s l0, { x := t.x, pc := .start })).2.isDone = true := by rw [← e]; exact hd
    have := steps_done_eq cfg (run cfg s l0) t.x hd'
    rw [← e] at this
    rw [run_snoc]
    exact congrArg Prod.fst this

theorem Mutex.store_of_done {cfg : Cfg H} {s : Store H} {w : World H} {l : List (Src H)} (h : Mutex cfg s w l)
    (hd : AllDone w) : w.store = run cfg s l :=
  h.store_of_idle (fun k t e _ => inAdd_false_of_done (hd t (List.mem_of_getElem? e)))

/-- the store an observer sees: a sequential result, or a write prefix of the `Add` in progress on a sequential result -/
theorem Mutex.store_shape {cfg : Cfg H} {s : Store H} {w : World H} {l : List (Src H)} (h : Mutex cfg s w l) :
    w.store = run cfg s l ∨ ∃ l0 x k, l = l0 ++ [x] ∧ w.store = addPrefix cfg (run cfg s l0) x k := by
  rcases h with ⟨_, e⟩ | ⟨c, t, j, l0, rfl, ht, _, hj, e⟩
  · exact Or.inl e
  · right
    obtain ⟨k, hk⟩ := sim_store (sim_steps cfg (run cfg s l0) t.x j)
    rw [← e] at hk
    exact ⟨l0, t.x, k, rfl, hk⟩

theorem idleBut_step_other (cfg : Cfg H) {w : World H} {i : Nat} {c : Option Nat}
    (h : IdleBut w c) (hc : c = some i ∨ ∀ t, w.threads[i]? = some t → (stepThread cfg w.store t).2.inAdd = false) :
    IdleBut (stepWorld cfg w i) c := by
  intro k t e hne
  by_cases hk : k = i
  · subst hk
    cases e0 : w.threads[k]? with
    | none => rw [stepWorld_none cfg e0] at e; rw [e0] at e; cases e
    | some t0 =>
      rw [stepWorld_get_self cfg e0] at e
      cases e
      rcases hc with hc | hc
      · exact absurd hc.symm hne
      · exact hc t0 e0
  · rw [stepWorld_get_ne cfg w hk] at e
    exact h k t e hne

/-- one allowed step keeps the invariant; a thread's first step appends its submission -/
theorem Mutex.step {cfg : Cfg H} {s : Store H} {w : World H} {l : List (Src H)} (h : Mutex cfg s w l) {i : Nat}
    (ha : Allowed w i) : Mutex cfg s (stepWorld cfg w i) (l ++ (startAt w i).filterMap (srcAt w)) := by
  cases hi : w.threads[i]? with
  | none =>
    have : startAt w i = [] := by unfold startAt; rw [hi]
    rw [stepWorld_none cfg hi, this]
    simpa using h
  | some t =>
    -- normalise: nobody is inside `Add`, or thread i is
    have hnorm : (IdleBut w none ∧ w.store = run cfg s l) ∨
        (∃ j l0, l = l0 ++ [t.x] ∧ IdleBut w (some i) ∧ 1 ≤ j ∧
          (w.store, t) = steps cfg j (run cfg s l0, { x := t.x, pc := .start })) := by
      rcases h with h0 | ⟨c, tc, j, l0, hl, htc, hidle, hj, e⟩
      · exact Or.inl h0
      · by_cases hci : c = i
        · subst hci
          rw [hi] at htc; cases htc
          exact Or.inr ⟨j, l0, hl, hidle, hj, e⟩
        · left
          have hall : IdleBut w none := by
            intro k t' e' _
            by_cases hkc : k = c
            · subst hkc
              cases hin : t'.inAdd with
              | false => rfl
              | true => exact absurd (ha.get e' hin) hci
            · exact hidle k t' e' (by simpa using hkc)
          exact ⟨hall, Mutex.store_of_idle (Or.inr ⟨c, tc, j, l0, hl, htc, hidle, hj, e⟩) hall⟩
    rcases hnorm with ⟨hidle, hst⟩ | ⟨j, l0, hl, hidle, hj, e⟩
    · have hti := hidle i t hi (by simp)
      rcases idle_cases hti with hs | hd
      · -- thread i enters `Add`
        have hsa : startAt w i = [i] := by unfold startAt; rw [hi]; simp [hs]
        have hsrc : srcAt w i = some t.x := by unfold srcAt; rw [hi]; rfl
        rw [hsa]
        simp only [List.filterMap_cons, hsrc, List.filterMap_nil]
        right
        refine ⟨i, (stepThread cfg w.store t).2, 1, l, ?_, stepWorld_get_self cfg hi, ?_, Nat.le_refl _, ?_⟩
        · rw [step_x]
        · apply idleBut_step_other cfg _ (Or.inl rfl)
          intro k t' e' hne
          exact hidle k t' e' (by simp)
        · rw [stepWorld_some cfg hi, step_x]
          show _ = stepThread cfg (run cfg s l) { x := t.x, pc := .start }
          rw [← hst, ← isStart_eta hs]
      · -- thread i has returned already: nothing happens
        have hsa : startAt w i = [] := by
          unfold startAt; rw [hi]
          have : t.isStart = false := by
            cases h1 : t.isStart with
            | false => rfl
            | true => rw [not_done_of_start h1] at hd; cases hd
          simp [this]
        rw [hsa, stepWorld_done cfg hi hd]
        simp only [List.filterMap_nil, List.append_nil]
        exact Or.inl ⟨hidle, hst⟩
    · -- thread i is inside `Add` and makes its next call
      have hns : t.isStart = false := by
        have := steps_pos_not_start cfg hj (run cfg s l0, { x := t.x, pc := .start })
        rw [← e] at this; exact this
      have hsa : startAt w i = [] := by unfold startAt; rw [hi]; simp [hns]
      rw [hsa]
      simp only [List.filterMap_nil, List.append_nil]
      right
      refine ⟨i, (stepThread cfg w.store t).2, j + 1, l0, ?_, stepWorld_get_self cfg hi, ?_, by omega, ?_⟩
      · rw [step_x]; exact hl
      · exact idleBut_step_other cfg hidle (Or.inl rfl)
      · rw [stepWorld_some cfg hi, step_x, steps_succ', ← e]
        rfl

/-- the invariant along an exclusive schedule -/
theorem Mutex.run {cfg : Cfg H} {s : Store H} : ∀ (sched : List Nat) {w : World H} {l : List (Src H)},
    Mutex cfg s w l → Exclusive cfg w sched →
      Mutex cfg s (runSchedule cfg w sched) (l ++ (startOrder cfg w sched).filterMap (srcAt w))
  | [], w, l, h, _ => by simpa [startOrder, runSchedule_nil] using h
  | i :: rest, w, l, h, hex => by
    have := Mutex.run rest (h.step hex.1) hex.2
    rw [srcAt_step_fun, List.append_assoc, ← List.filterMap_append] at this
    exact this

theorem srcAt_init (s : Store H) (xs : List (Src H)) : srcAt (initWorld s xs) = fun k : Nat => xs[k]? := by
  funext k
  unfold srcAt initWorld
  simp only [List.getElem?_map]
  cases xs[k]? <;> rfl

/-! ### the entry order is a permutation of the threads -/

theorem runSchedule_get_of_not_mem (cfg : Cfg H) {k : Nat} : ∀ (sched : List Nat) (w : World H), k ∉ sched →
    (runSchedule cfg w sched).threads[k]? = w.threads[k]?
  | [], _, _ => rfl
  | i :: rest, w, h => by
    rw [runSchedule_cons, runSchedule_get_of_not_mem cfg rest _ (fun h' => h (List.mem_cons_of_mem _ h'))]
    exact stepWorld_get_ne cfg w (fun e => h (e ▸ List.mem_cons_self))

theorem startOrder_spec (cfg : Cfg H) : ∀ (sched : List Nat) (w : World H),
    (startOrder cfg w sched).Nodup ∧
      ∀ k, k ∈ startOrder cfg w sched ↔ (∃ t, w.threads[k]? = some t ∧ t.isStart = true) ∧ k ∈ sched
  | [], w => ⟨List.nodup_nil, fun k => by simp [startOrder]⟩
  | i :: rest, w => by
    obtain ⟨ihn, ihm⟩ := startOrder_spec cfg rest (stepWorld cfg w i)
    -- thread i is not at `.start` after the step
    have hi' : ¬ ∃ t, (stepWorld cfg w i).threads[i]? = some t ∧ t.isStart = true := by
      rintro ⟨t, e, hs⟩
      cases e0 : w.threads[i]? with
      | none =>
        rw [stepWorld_none cfg e0, e0] at e; cases e
      | some t0 =>
        rw [stepWorld_get_self cfg e0] at e; cases e
        rw [step_not_start] at hs; cases hs
    have hso : startOrder cfg w (i :: rest) = startAt w i ++ startOrder cfg (stepWorld cfg w i) rest := rfl
    rw [hso]
    by_cases hs : ∃ t, w.threads[i]? = some t ∧ t.isStart = true
    · obtain ⟨t, e, hst⟩ := hs
      have hsa : startAt w i = [i] := by unfold startAt; rw [e]; simp [hst]
      rw [hsa]
      refine ⟨?_, ?_⟩
      · rw [List.singleton_append, List.nodup_cons]
        refine ⟨?_, ihn⟩
        intro hm
        exact hi' ((ihm i).1 hm).1
      · intro k
        rw [List.singleton_append, List.mem_cons, List.mem_cons, ihm]
        by_cases hk : k = i
        · subst hk
          constructor
          · intro _; exact ⟨⟨t, e, hst⟩, Or.inl rfl⟩
          · intro _; exact Or.inl rfl
        · rw [stepWorld_get_ne cfg w hk]
          constructor
          · rintro (h | ⟨h1, h2⟩)
            · exact absurd h hk
            · exact ⟨h1, Or.inr h2⟩
          · rintro ⟨h1, h2 | h2⟩
            · exact absurd h2 hk
            · exact Or.inr ⟨h1, h2⟩
    · have hsa : startAt w i = [] := by
        unfold startAt
        cases e : w.threads[i]? with
        | none => rfl
        | some t =>
          cases hst : t.isStart with
          | false => simp [hst]
          | true => exact absurd ⟨t, e, hst⟩ hs
      rw [hsa, List.nil_append]
      refine ⟨ihn, ?_⟩
      intro k
      rw [ihm, List.mem_cons]
      by_cases hk : k = i
      · subst hk
        constructor
        · rintro ⟨h1, _⟩; exact absurd h1 hi'
        · rintro ⟨h1, _⟩; exact absurd h1 hs
      · rw [stepWorld_get_ne cfg w hk]
        constructor
        · rintro ⟨h1, h2⟩; exact ⟨h1, Or.inr h2⟩
        · rintro ⟨h1, h2 | h2⟩
          · exact absurd h2 hk
          · exact ⟨h1, h2⟩

theorem filterMap_range_getElem? {α : Type} : ∀ (xs : List α),
    (List.range xs.length).filterMap (fun k : Nat => xs[k]?) = xs
  | [] => rfl
  | a :: xs => by
    rw [List.length_cons, List.range_succ_eq_map, List.filterMap_cons]
    simp only [List.getElem?_cons_zero, List.filterMap_map]
    have : ((fun k : Nat => (a :: xs)[k]?) ∘ Nat.succ) = fun k : Nat => xs[k]? := by
      funext k; simp
    rw [this, filterMap_range_getElem? xs]

/-- when every thread has returned, the entry order lists every thread exactly once -/
theorem startOrder_perm (cfg : Cfg H) (s : Store H) (xs : List (Src H)) (sched : List Nat)
    (hd : AllDone (runSchedule cfg (initWorld s xs) sched)) :
    (startOrder cfg (initWorld s xs) sched).Perm (List.range xs.length) := by
  obtain ⟨hn, hm⟩ := startOrder_spec cfg sched (initWorld s xs)
  rw [List.perm_ext_iff_of_nodup hn List.nodup_range]
  intro k
  rw [hm, List.mem_range]
  have hthreads : ∀ k : Nat, (initWorld s xs).threads[k]? = (xs[k]?).map (fun x => ({ x := x, pc := .start } : Thread H)) := by
    intro k; unfold initWorld; simp [List.getElem?_map]
  constructor
  · rintro ⟨⟨t, e, _⟩, _⟩
    rw [hthreads] at e
    cases e' : xs[k]? with
    | none => rw [e'] at e; cases e
    | some x => exact (List.getElem?_eq_some_iff.1 e').1
  · intro hk
    have e' : xs[k]? = some xs[k] := List.getElem?_eq_some_iff.2 ⟨hk, rfl⟩
    have e : (initWorld s xs).threads[k]? = some { x := xs[k], pc := .start } := by rw [hthreads, e']; rfl
    refine ⟨⟨_, e, rfl⟩, ?_⟩
    apply Classical.byContradiction
    intro hnot
    have := runSchedule_get_of_not_mem cfg sched (initWorld s xs) hnot
    rw [e] at this
    have := hd _ (List.mem_of_getElem? this)
    cases this

/-! ### block schedules are exclusive -/

theorem idleBut_mono {w : World H} {c : Option Nat} (h : IdleBut w none) : IdleBut w c :=
  fun k t e _ => h k t e (by simp)

theorem allowed_of_idleBut {w : World H} {i : Nat} (h : IdleBut w (some i)) : Allowed w i := by
  intro k hk hin
  apply Classical.byContradiction
  intro hne
  have := h k w.threads[k] (List.getElem?_eq_some_iff.2 ⟨hk, rfl⟩) (by simpa using hne)
  rw [this] at hin; cases hin

/-- a block of steps of one thread, everybody else outside `Add`: exclusive, and everybody else stays outside -/
theorem exclusive_block (cfg : Cfg H) (i : Nat) : ∀ (n : Nat) (w : World H), IdleBut w (some i) →
    Exclusive cfg w (List.replicate n i) ∧ IdleBut (runSchedule cfg w (List.replicate n i)) (some i)
  | 0, w, h => ⟨trivial, h⟩
  | n + 1, w, h => by
    have h' := idleBut_step_other cfg h (Or.inl rfl)
    obtain ⟨h1, h2⟩ := exclusive_block cfg i n (stepWorld cfg w i) h'
    exact ⟨⟨allowed_of_idleBut h, h1⟩, h2⟩

/-- thread `i`'s state along a block of its own steps -/
theorem block_thread (cfg : Cfg H) (i : Nat) : ∀ (n : Nat) (w : World H) (t : Thread H), w.threads[i]? = some t →
    (runSchedule cfg w (List.replicate n i)).threads[i]? = some (steps cfg n (w.store, t)).2 ∧
      (runSchedule cfg w (List.replicate n i)).store = (steps cfg n (w.store, t)).1
  | 0, w, t, h => ⟨h, rfl⟩
  | n + 1, w, t, h => by
    have := block_thread cfg i n (stepWorld cfg w i) _ (stepWorld_get_self cfg h)
    rw [List.replicate_succ, runSchedule_cons, steps_succ]
    rw [stepWorld_some cfg h] at this ⊢
    exact this

theorem mu_le_of_idle {t : Thread H} (h : t.inAdd = false) : t.pc.mu ≤ maxSteps := by
  rcases idle_cases h with h | h
  · rw [isStart_iff.1 h]; exact Nat.le_refl _
  · obtain ⟨o, e⟩ := isDone_iff.1 h
    rw [e]; exact Nat.zero_le _

/-- after a whole block nobody is inside `Add` -/
theorem block_idle (cfg : Cfg H) (i : Nat) (w : World H) (h : IdleBut w none) :
    IdleBut (runSchedule cfg w (List.replicate maxSteps i)) none := by
  have h2 := (exclusive_block cfg i maxSteps w (idleBut_mono h)).2
  intro k t e _
  by_cases hk : k = i
  · subst hk
    cases e0 : w.threads[k]? with
    | none =>
      have : ∀ n, runSchedule cfg w (List.replicate n k) = w := by
        intro n
        induction n with
        | zero => rfl
        | succ n ih => rw [List.replicate_succ, runSchedule_cons, stepWorld_none cfg e0, ih]
      rw [this, e0] at e; cases e
    | some t0 =>
      rw [(block_thread cfg k maxSteps w t0 e0).1] at e
      cases e
      apply inAdd_false_of_done
      rcases mu_steps cfg maxSteps (w.store, t0) with hd | hle
      · exact hd
      · apply mu_zero
        have := mu_le_of_idle (h k t0 e0 (by simp))
        have h' : (steps cfg maxSteps (w.store, t0)).2.pc.mu + maxSteps ≤ t0.pc.mu := hle
        omega
  · exact h2 k t e (by simpa using hk)

/-- running threads one after the other is an exclusive schedule, whatever the order (repetitions are no-ops) -/
theorem exclusive_blockSchedule (cfg : Cfg H) : ∀ (order : List Nat) (w : World H), IdleBut w none →
    Exclusive cfg w (blockSchedule order)
  | [], _, _ => trivial
  | i :: order, w, h => by
    show Exclusive cfg w (List.replicate maxSteps i ++ blockSchedule order)
    rw [exclusive_append]
    exact ⟨(exclusive_block cfg i maxSteps w (idleBut_mono h)).1,
      exclusive_blockSchedule cfg order _ (block_idle cfg i w h)⟩

theorem idleBut_init (s : Store H) (xs : List (Src H)) : IdleBut (initWorld s xs) none := by
  intro k t e _
  have := List.mem_of_getElem? e
  unfold initWorld at this
  obtain ⟨x, _, rfl⟩ := List.mem_map.1 this
  rfl

/-! ### the root row along a history -/

theorem run_keeps_root {cfg : Cfg H} {g : Row H} (hz : ∀ y, cfg.hashOf y ≠ g.prev) (hg0 : g.id = 0) :
    ∀ (hist : List (Src H)) (s : Store H), WF cfg s → g ∈ s → g ∈ run cfg s hist
  | [], _, _, hm => hm
  | y :: hist, s, hw, hm =>
    run_keeps_root hz hg0 hist _ (hw.add_wf y hm hg0 hz) (hw.add_keeps y hm (Or.inl hg0))

theorem getTip_lc {s : Store H} {t : Row H} (h : getTip s = some t) : t ∈ s ∧ t.st = .lc := by
  unfold getTip at h
  cases e : maxLcHeight s with
  | none => rw [e] at h; cases h
  | some m =>
    rw [e] at h
    have := lcAtHeight_some h
    exact ⟨this.1, this.2.2⟩

end BHS.Chain
