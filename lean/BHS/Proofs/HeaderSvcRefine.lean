/-
Refinement: the REGENERATED translation of the query side of the service (BHS/Gen/HeaderSvc.lean, produced from
/repo/service/header_service.go, /repo/database/repository/header_repository.go and /repo/database/sql/headers.go by
harness/cmd/extract/gen_headersvc.go on every run) computes exactly the hand models of BHS/Model/Query.lean.

One lemma per translated Go function, bottom-up (SQL layer, repository, service): its value on every store expressed with
the hand model's functions, proved by unfolding the generated definition and simplifying, so that a cosmetic change of
the Go text is absorbed while a semantic change leaves a goal open. Main results (re-exported in
BHS/Props/HeaderSvcGen.lean): `Gen_locator_refines`, `Gen_getheaders_refines`, `Gen_ancestors_refines`,
`Gen_common_refines`, `Gen_byheight_refines`, `Gen_tips_refines`, `Gen_tip_refines`, `Gen_byhash_refines`.
Core Lean only.
-/
import BHS.Model.QueryM
import BHS.Gen.HeaderSvc
import BHS.Proofs.ChainBasic

set_option linter.unusedSectionVars false
set_option linter.unusedSimpArgs false

namespace BHS.QueryM.Refine
open BHS BHS.Chain BHS.QueryM BHS.Gen.HeaderSvc
variable {H : Type} [DecidableEq H] [Inhabited H]

/-! ### the monad and the primitives -/

theorem readStore_run {α : Type} (f : Store H → α) (env : QEnv H) : (readStore f).run env = pure (f env.store) := rfl

theorem deref_some {α : Type} (a : α) : deref (H := H) (some a) = pure a := rfl

theorem toBlockHeader_some (r : Row H) : toBlockHeader (some r) = pure (some r) := rfl

theorem pure_ok {α : Type} (a : α) : (pure a : Except Fault α) = .ok a := rfl

theorem ok_bind {α β : Type} (a : α) (f : α → Except Fault β) : (Except.ok a >>= f) = f a := rfl

theorem convert_map_some (l : List (Row H)) : convertToBlockHeader (l.map some) = pure (l.map some) := by
  unfold convertToBlockHeader
  induction l with
  | nil => rfl
  | cons a l ih => simp [List.mapM_cons, toBlockHeader_some, ih]

theorem index_zero {α : Type} (a : α) (l : List α) : index (H := H) (a :: l) 0 = pure a := rfl

theorem firstRow_eq (l : List (Row H)) :
    firstRow l = match l.head? with | some r => (some r, none) | none => (none, some .sqlNoRows) := by
  cases l <;> rfl

/-- the greatest longest-chain height is attained by a longest-chain row -/
theorem lcAt_max {s : Store H} {m : Nat} (e : maxLcHeight s = some m) : ∃ r, lcAtHeight s m = some r := by
  cases hf : s.filter (fun r => decide (r.st = .lc)) with
  | nil => rw [maxLcHeight_eq, hf] at e; cases e
  | cons g l =>
    have hg : g ∈ s.filter (fun r => decide (r.st = .lc)) := by rw [hf]; exact List.mem_cons_self
    obtain ⟨hgs, hgl⟩ := List.mem_filter.1 hg
    obtain ⟨m', e', _, r, hr, hrl, hrm⟩ := maxLcHeight_some hgs (of_decide_eq_true hgl)
    rw [e] at e'
    cases e'
    rw [← hrm]
    exact lcAtHeight_of_mem hr hrl

/-! ### database/sql/headers.go and database/repository/header_repository.go -/

/-- what GetHeaderByHash answers for an unknown hash -/
def errNotFound : Err := .bhsWrap "ErrHeaderNotFound" .sqlNoRows

theorem HeadersDb_GetHeaderByHash_run (h : H) (env : QEnv H) :
    (HeadersDb_GetHeaderByHash h).run env = pure (match byHash env.store h with
      | some r => (some r, none) | none => (none, some errNotFound)) := by
  unfold HeadersDb_GetHeaderByHash dbGet_sqlHeader
  simp only [ReaderT.run_bind, readStore_run, pure_bind]
  cases byHash env.store h <;> rfl

theorem HeaderRepository_GetHeaderByHash_run (h : H) (env : QEnv H) :
    (HeaderRepository_GetHeaderByHash h).run env = pure (match byHash env.store h with
      | some r => (some r, none) | none => (none, some errNotFound)) := by
  unfold HeaderRepository_GetHeaderByHash
  simp only [ReaderT.run_bind, HeadersDb_GetHeaderByHash_run, pure_bind]
  cases byHash env.store h <;> rfl

theorem HeaderService_GetHeaderByHash_run (h : H) (env : QEnv H) :
    (HeaderService_GetHeaderByHash h).run env = pure (match byHash env.store h with
      | some r => (some r, none) | none => (none, some errNotFound)) := by
  unfold HeaderService_GetHeaderByHash
  simp only [ReaderT.run_bind, HeaderRepository_GetHeaderByHash_run, pure_bind]
  cases byHash env.store h <;> rfl

/-- the previous header of the row with hash `h` -/
def prevOf (s : Store H) (h : H) : Option (Row H) :=
  match byHash s h with
  | some r => byHash s r.prev
  | none => none

theorem HeaderRepository_GetPreviousHeader_run (h : H) (env : QEnv H) :
    (HeaderRepository_GetPreviousHeader h).run env = pure (match prevOf env.store h with
      | some r => (some r, none) | none => (none, some errNotFound)) := by
  unfold HeaderRepository_GetPreviousHeader HeadersDb_GetPreviousHeader dbGet_sqlSelectPreviousBlock prevOf
  simp only [ReaderT.run_bind, readStore_run, pure_bind]
  cases h1 : byHash env.store h with
  | none => rfl
  | some r => cases h2 : byHash env.store r.prev <;> simp [h2, firstRow, bhsWrap, errNotFound, toBlockHeader_some] <;> rfl

theorem HeaderRepository_GetHeaderByHeight_run (n : Nat) (env : QEnv H) :
    (HeaderRepository_GetHeaderByHeight (n : Int)).run env = pure (match lcAtHeight env.store n with
      | some r => (some r, none) | none => (none, some (.msg "could not find height"))) := by
  unfold HeaderRepository_GetHeaderByHeight HeadersDb_GetHeaderByHeight dbGet_sqlHeaderByHeight lcAtHeight
  simp only [ReaderT.run_bind, readStore_run, pure_bind, firstRow_eq, List.head?_filter]
  have e : (fun (r : Row H) => decide ((r.height : Int) = (n : Int) ∧ r.st = St.lc)) =
      (fun r => decide (r.height = n ∧ r.st = .lc)) := by
    funext r; simp [Int.natCast_inj]
  rw [e]
  cases List.find? (fun r => decide (r.height = n ∧ r.st = St.lc)) env.store <;> rfl

theorem HeaderService_GetTip_run (env : QEnv H) : (HeaderService_GetTip (H := H)).run env = pure (getTip env.store) := by
  unfold HeaderService_GetTip HeaderRepository_GetTip HeadersDb_GetTip dbSelect_sqlSelectTip getTip
  simp only [ReaderT.run_bind, readStore_run, pure_bind]
  cases hm : maxLcHeight env.store with
  | none => rfl
  | some m =>
    obtain ⟨r, hr⟩ := lcAt_max hm
    have hh : (env.store.filter (fun (r : Row H) => decide (r.height = m ∧ r.st = St.lc))).head? = some r := by
      rw [List.head?_filter]; exact hr
    cases hf : env.store.filter (fun (r : Row H) => decide (r.height = m ∧ r.st = St.lc)) with
    | nil => rw [hf] at hh; cases hh
    | cons a l =>
      rw [hf] at hh
      simp only [List.head?_cons, Option.some.injEq] at hh
      subst hh
      simp only [hf, hr, List.map_cons, List.cons_append, index_zero]
      simp [toBlockHeader_some]

theorem HeaderRepository_GetAncestorOnHeight_run (h : H) (ht : Int) (env : QEnv H) :
    (HeaderRepository_GetAncestorOnHeight h ht).run env = pure (match ancestorOnHeight env.store h ht with
      | some r => (some r, none) | none => (none, some (.bhs "ErrAncestorNotFound"))) := by
  unfold HeaderRepository_GetAncestorOnHeight HeadersDb_GetAncestorOnHeight dbSelect_sqlSelectAncestorOnHeight
    ancestorOnHeight
  simp only [ReaderT.run_bind, readStore_run, pure_bind]
  cases byHash env.store h with
  | none => rfl
  | some r =>
    simp only [← List.head?_filter]
    cases List.filter (fun (a : Row H) => decide ((a.height : Int) = ht)) (walkWhileHeight env.store ht env.store.length r) with
    | nil => rfl
    | cons a l => simp [index_zero, toBlockHeader_some]

theorem HeaderRepository_GetChainBetweenTwoHashes_run (low high : H) (env : QEnv H) :
    (HeaderRepository_GetChainBetweenTwoHashes low high).run env = pure (match chainBetween env.store low high with
      | [] => ([], some (Err.bhs "ErrHeadersForGivenRangeNotFound")) | l => (l.map some, none)) := by
  unfold HeaderRepository_GetChainBetweenTwoHashes HeadersDb_GetChainBetweenTwoHashes dbSelect_sqlChainBetweenTwoHashes
  simp only [ReaderT.run_bind, readStore_run, pure_bind]
  show _ = pure (match chainBetween env.store low high with
      | [] => ([], some (Err.bhs "ErrHeadersForGivenRangeNotFound")) | l => (l.map some, none))
  unfold chainBetween
  cases ((match byHash env.store high with
      | some r => walkUntil env.store low env.store.length r
      | none => []) ++ (match byHash env.store low with | some l => [l] | none => [])) with
  | nil => rfl
  | cons a l => simp [← List.map_cons, convert_map_some]

theorem HeaderRepository_GetHeadersStartHeight_run (hashes : List H) (env : QEnv H) :
    (HeaderRepository_GetHeadersStartHeight hashes).run env = pure (
      if hashes.isEmpty then ((0 : Int), some (Err.msg "empty slice passed to 'in' query"))
      else (((startHeight env.store hashes : Nat) : Int), none)) := by
  unfold HeaderRepository_GetHeadersStartHeight HeadersDb_GetHeadersStartHeight
  simp only [ReaderT.run_bind, readStore_run, pure_bind]
  cases hashes <;> rfl

theorem HeaderRepository_GetHeadersStopHeight_run (stop : H) (env : QEnv H) :
    (HeaderRepository_GetHeadersStopHeight stop).run env = pure (((stopHeight env.store stop : Nat) : Int), (none : Option Err)) := by
  unfold HeaderRepository_GetHeadersStopHeight HeadersDb_GetHeadersStopHeight dbGet_sqlHeaderHeightFromHashAndState
    stopHeight
  simp only [ReaderT.run_bind, readStore_run, pure_bind]
  cases List.find? (fun (r : Row H) => decide (r.hash = stop ∧ r.st = St.lc)) env.store <;> rfl

/-- sqlHeaderByHeightRangeLongestChain with integer bounds -/
def rangeLcI (s : Store H) (lo hi : Int) : List (Row H) :=
  (lcAsc s).filter (fun r => decide (lo ≤ (r.height : Int) ∧ (r.height : Int) ≤ hi))

theorem HeaderRepository_GetHeadersByHeightRange_run (lo hi : Int) (env : QEnv H) :
    (HeaderRepository_GetHeadersByHeightRange lo hi).run env = pure ((rangeLcI env.store lo hi).map some, none) := by
  unfold HeaderRepository_GetHeadersByHeightRange HeadersDb_GetHeadersByHeightRange
    dbSelect_sqlHeaderByHeightRangeLongestChain rangeLcI
  simp [readStore_run, convert_map_some]

theorem HeaderRepository_GetHeaderByHeightRange_run (lo hi : Int) (env : QEnv H) :
    (HeaderRepository_GetHeaderByHeightRange lo hi).run env = pure ((byHeightRange env.store lo hi).map some, none) := by
  unfold HeaderRepository_GetHeaderByHeightRange HeadersDb_GetHeaderByHeightRange dbSelect_sqlHeaderByHeightRange
  simp [readStore_run, convert_map_some]

theorem HeaderRepository_GetAllTips_run (env : QEnv H) :
    (HeaderRepository_GetAllTips (H := H)).run env = pure ((allTips env.store).map some, none) := by
  unfold HeaderRepository_GetAllTips HeadersDb_GetAllTips dbSelect_sqlSelectTips
  simp [readStore_run, convert_map_some]

/-! ### service/header_service.go: the functions without loops -/

theorem Gen_byhash_refines (h : H) (env : QEnv H) :
    (HeaderService_GetHeaderByHash h).run env = pure (match byHash env.store h with
      | some r => (some r, none) | none => (none, some errNotFound)) :=
  HeaderService_GetHeaderByHash_run h env

theorem Gen_tip_refines (env : QEnv H) : (HeaderService_GetTip (H := H)).run env = pure (getTip env.store) :=
  HeaderService_GetTip_run env

theorem Gen_byheight_refines (height count : Int) (env : QEnv H) :
    (HeaderService_GetHeadersByHeight height count).run env =
      pure ((byHeightRange env.store height (height + count - 1)).map some, none) := by
  unfold HeaderService_GetHeadersByHeight
  simp [HeaderRepository_GetHeaderByHeightRange_run]

theorem Gen_tips_refines (env : QEnv H) :
    (HeaderService_GetTips (H := H)).run env = pure ((allTips env.store).map some, none) := by
  unfold HeaderService_GetTips
  simp [HeaderRepository_GetAllTips_run]

/-- the answer of GetHeaderAncestorsByHash in the vocabulary of the hand model (`none`: an error the hand model has no
    constructor for); the errors are told apart by the name of the outermost bhserrors value, as the HTTP layer does -/
def ancObs (res : List (Option (Row H)) × Option Err) : Option (Except AncErr (List (Option (Row H)))) :=
  match res with
  | (l, none) => some (.ok l)
  | (_, some e) =>
    match e.bhsName with
    | some n =>
      if n = "ErrHeaderWithGivenHashes" then some (.error .notFound)
      else if n = "ErrAncestorHashHigher" then some (.error .ancestorHigher)
      else if n = "ErrHeadersNotPartOfTheSameChain" then some (.error .notSameChain)
      else none
    | none => none

theorem chainBetween_ne_nil {s : Store H} {low high : H} {a : Row H} (h : byHash s low = some a) :
    chainBetween s low high ≠ [] := by
  unfold chainBetween
  rw [h]
  simp

theorem Gen_ancestors_refines (hash anc : H) (env : QEnv H) :
    ((HeaderService_GetHeaderAncestorsByHash hash anc).run env).map ancObs =
      .ok (some ((ancestors env.store hash anc).map (·.map some))) := by
  unfold HeaderService_GetHeaderAncestorsByHash ancestors
  simp only [ReaderT.run_bind, HeaderRepository_GetHeaderByHash_run, pure_bind]
  cases hr : byHash env.store hash with
  | none => cases byHash env.store anc <;> simp [ancObs, Err.bhsName, Except.map, pure_ok] 
  | some r =>
    cases ha : byHash env.store anc with
    | none => simp [ancObs, Err.bhsName, Except.map, pure_ok]
    | some a =>
      rcases Nat.lt_trichotomy a.height r.height with hlt | heq | hgt
      · have f1 : ¬ a.height > r.height := by omega
        have f2 : ¬ a.height = r.height := by omega
        have f3 : ¬ r.height = a.height := by omega
        have f4 : ¬ r.height < a.height := by omega
        have f5 : a.height ≤ r.height := by omega
        have f6 : ¬ r.height ≤ a.height := by omega
        simp only [Option.isSome_none, Option.isNone_none, Bool.or_self, Bool.and_self, Bool.not_true, Bool.false_eq_true,
          ↓reduceIte, deref_some, pure_bind, gt_iff_lt, ge_iff_le, Int.ofNat_lt, Int.ofNat_le, f1, f2, f3, f4, f5, f6, hlt,
          Nat.lt_asymm hlt, Nat.le_of_lt hlt, decide_false, decide_true, beq_iff_eq, Int.natCast_inj, ReaderT.run_bind,
          HeaderRepository_GetAncestorOnHeight_run, Bool.not_false, bne_iff_ne, ne_eq, not_true_eq_false, not_false_eq_true]
        cases hx : ancestorOnHeight env.store r.hash (a.height : Int) with
        | none => simp [ancObs, Err.bhsName, bhsWrap, Except.map, pure_ok]
        | some x =>
          by_cases hxa : x.hash = a.hash
          · have hne := chainBetween_ne_nil (high := hash) ha
            have hxa' : a.hash = x.hash := hxa.symm
            simp only [Option.isSome_none, Option.isNone_none, Bool.false_eq_true, ↓reduceIte, deref_some, pure_bind, hxa,
              bne_self_eq_false, ne_eq, not_true_eq_false, ReaderT.run_bind, HeaderRepository_GetChainBetweenTwoHashes_run,
              Bool.not_true, beq_self_eq_true, not_false_eq_true]
            cases hc : chainBetween env.store anc hash with
            | nil => exact absurd hc hne
            | cons c l => simp [ancObs, Except.map, pure_ok]
          · have hxa' : ¬ a.hash = x.hash := fun e => hxa e.symm
            simp [hxa, hxa', deref_some, ancObs, Err.bhsName, Except.map, pure_ok]
      · have h1 : ¬ a.height > r.height := by omega
        have h2 : ¬ r.height < a.height := by omega
        by_cases hh : a.hash = r.hash
        · simp [heq, hh, deref_some, ancObs, Err.bhsName, Except.map, pure_ok]
        · have hh' : ¬ r.hash = a.hash := fun e => hh e.symm
          simp [heq, hh, hh', deref_some, ancObs, Err.bhsName, Except.map, pure_ok]
      · have h1 : a.height > r.height := hgt
        have h2 : ¬ a.height ≤ r.height := by omega
        have h3 : ¬ a.height = r.height := by omega
        simp [h1, h2, h3, hgt, deref_some, ancObs, Err.bhsName, Except.map, pure_ok]

/-! ### loops -/

/-- a `for … range` loop without early exit whose body, on the elements and loop states that occur, is a pure update
    of the loop state -/
theorem forIn_map_yield {α β γ : Type} (e : γ → α) (l : List γ) (P : β → Prop) (b : β)
    (body : α → β → QueryM H (ForInStep β)) (g : β → γ → β)
    (hP : P b) (hg : ∀ b c, c ∈ l → P b → P (g b c))
    (hb : ∀ c b, c ∈ l → P b → body (e c) b = pure (.yield (g b c))) :
    forIn (l.map e) b body = pure (l.foldl g b) := by
  induction l generalizing b with
  | nil => rfl
  | cons a l ih =>
    simp only [List.map_cons, List.forIn_cons, List.foldl_cons]
    rw [hb a b (List.mem_cons_self) hP]
    simp only [pure_bind]
    exact ih (g b a) (hg b a (List.mem_cons_self) hP) (fun b c hc => hg b c (List.mem_cons_of_mem _ hc))
      (fun c b hc => hb c b (List.mem_cons_of_mem _ hc))

theorem foldl_set_zipIdx {α : Type} (l : List α) (pre mid suf : List α) (hm : mid.length = l.length) :
    (l.zipIdx pre.length).foldl (fun hs (c : α × Nat) => hs.set c.2 c.1) (pre ++ mid ++ suf) = pre ++ l ++ suf := by
  induction l generalizing pre mid with
  | nil =>
    cases mid with
    | nil => rfl
    | cons _ _ => cases hm
  | cons a l ih =>
    cases mid with
    | nil => cases hm
    | cons m mid =>
      simp only [List.zipIdx_cons, List.foldl_cons]
      have e : (pre ++ m :: mid ++ suf).set pre.length a = (pre ++ [a]) ++ mid ++ suf := by simp
      have e2 : pre.length + 1 = (pre ++ [a]).length := by simp
      rw [e, e2, ih (pre ++ [a]) mid (by simpa using hm)]
      simp

/-- the loop of locateHeadersGetHeaders that renders the locator hashes: a copy -/
theorem copy_loop (l : List H) (body : H × Nat → List H → QueryM H (ForInStep (List H)))
    (hb : ∀ (c : H × Nat) (hs : List H), c ∈ l.zipIdx → hs.length = l.length →
      body c hs = pure (.yield (hs.set c.2 c.1))) :
    forIn l.zipIdx (List.replicate l.length (default : H)) body = pure l := by
  have := forIn_map_yield (H := H) id l.zipIdx (fun hs : List H => hs.length = l.length)
    (List.replicate l.length default) body (fun hs c => hs.set c.2 c.1) (by simp)
    (by intro b c _ hb; simpa using hb) (by intro c b hc hP; exact hb c b hc hP)
  rw [List.map_id] at this
  rw [this]
  have h2 := foldl_set_zipIdx l [] (List.replicate l.length default) [] (by simp)
  simp only [List.nil_append, List.append_nil, List.length_nil] at h2
  rw [h2]

/-! ### locateHeadersGetHeaders -/

theorem rangeLcI_cast (s : Store H) (lo hi : Nat) : rangeLcI s (lo : Int) (hi : Int) = rangeLc s lo hi := by
  unfold rangeLcI rangeLc
  congr 1
  funext r
  simp [Int.ofNat_le]

/-- the answer of locateHeadersGetHeaders for the hand model's result -/
def ghAnswer (r : Except GhErr (List (Row H))) : List (Option (Src H)) × Option Err :=
  match r with
  | .ok rows => (rows.map (fun r => some (srcOf r)), none)
  | .error .noLocators => ([], some (.msg "no locators provided"))
  | .error .stopLower => ([], some (.msg "hashStop is lower than first valid height"))

theorem wire_loop (rows : List (Row H)) (acc : List (Option (Src H)))
    (body : Option (Row H) → List (Option (Src H)) → QueryM H (ForInStep (List (Option (Src H)))))
    (hb : ∀ (r : Row H) (hs : List (Option (Src H))), body (some r) hs = pure (.yield (hs ++ [some (srcOf r)]))) :
    forIn (rows.map some) acc body = pure (acc ++ rows.map (fun r => some (srcOf r))) := by
  rw [forIn_map_yield some rows (fun _ => True) acc body (fun hs r => hs ++ [some (srcOf r)]) trivial
    (fun _ _ _ _ => trivial) (fun c b _ _ => hb c b)]
  congr 1
  induction rows generalizing acc with
  | nil => simp
  | cons a l ih => simp [ih]

theorem Gen_getheaders_inner (loc : List H) (stop : H) (env : QEnv H) :
    (HeaderService_locateHeadersGetHeaders loc stop).run env =
      pure (ghAnswer (getHeaders env.store default loc stop)) := by
  unfold HeaderService_locateHeadersGetHeaders getHeaders
  cases loc with
  | nil => rfl
  | cons l0 ls =>
    have hcopy : ∀ (body : H × Nat → List H → QueryM H (ForInStep (List H))),
        (∀ (c : H × Nat) (hs : List H), c ∈ (l0 :: ls).zipIdx → hs.length = (l0 :: ls).length →
          body c hs = pure (.yield (hs.set c.2 c.1))) →
        forIn (l0 :: ls).zipIdx (List.replicate (ls.length + 1) (default : H)) body = pure (l0 :: ls) :=
      fun body hb => copy_loop (l0 :: ls) body hb
    simp only [List.length_cons, Nat.add_one_ne_zero, beq_iff_eq, ↓reduceIte, List.isEmpty_cons, Bool.false_eq_true,
      ReaderT.run_bind]
    rw [hcopy _ (by
      intro c hs hc hl
      have hi : c.2 < ls.length + 1 := by simpa using (List.mem_zipIdx' hc).1
      simp [setIndex, hl, hi])]
    simp only [ReaderT.run_pure, pure_bind, HeaderRepository_GetHeadersStartHeight_run,
      HeaderRepository_GetHeadersStopHeight_run, Option.isSome_none, List.isEmpty_cons, Bool.false_eq_true, ↓reduceIte]
    generalize startHeight env.store (l0 :: ls) = start
    have hMpos : 0 < Gen.maxCFHeadersPerMsg := by decide
    generalize Gen.maxCFHeadersPerMsg = M at hMpos
    -- the range query and the copy into wire headers, once the final bounds are known
    have tail : ∀ (hi : Nat) (hiI : Int), hiI = (hi : Int) →
        ∀ (body : Option (Row H) → List (Option (Src H)) → QueryM H (ForInStep (List (Option (Src H))))),
        (∀ (r : Row H) (hs : List (Option (Src H))), body (some r) hs = pure (.yield (hs ++ [some (srcOf r)]))) →
        (do
          let x ← (HeaderRepository_GetHeadersByHeightRange ((start : Int) + 1) hiI).run env
          (if x.snd.isSome = true then pure ([], some (Err.msg "error getting headers between heights: %v"))
            else do
              let s ← forIn x.fst [] body
              pure (s, none) : QueryM H _).run env) =
        pure ((rangeLc env.store (start + 1) hi).map (fun r => some (srcOf r)), none) := by
      intro hi hiI ehi body hb
      have e : ((start : Int) + 1) = ((start + 1 : Nat) : Int) := by simp
      rw [ehi, e, HeaderRepository_GetHeadersByHeightRange_run, rangeLcI_cast]
      simp only [pure_bind, Option.isSome_none, Bool.false_eq_true, ↓reduceIte, ReaderT.run_bind]
      rw [wire_loop _ _ _ hb]
      simp
    have n1 : ¬ ((start : Int) + (M : Int) = 0) := by omega
    have n1' : ¬ ((0 : Int) = (start : Int) + (M : Int)) := by omega
    have n2 : ¬ ((start : Int) + (M : Int) ≤ (start : Int)) := by omega
    have n2' : ¬ ((start : Int) + (M : Int) < (start : Int) + 1) := by omega
    have n3 : ¬ ((M : Int) < (start : Int) + (M : Int) - (start : Int)) := by omega
    have g1 : ¬ (start + M = 0) := by omega
    have g2 : ¬ (start + M ≤ start) := by omega
    have g3 : ¬ (M < start + M - start) := by omega
    by_cases hz : stop = default
    · simp only [hz, n1, n1', n2, n2', n3, g1, g2, g3, gt_iff_lt, ge_iff_le, ↓reduceIte, decide_false, Bool.false_eq_true,
        ReaderT.run_bind, ghAnswer, beq_iff_eq]
      rw [tail (start + M) _ (by simp) _ (by intro r hs; simp [deref_some, srcOf])]
    · simp only [hz, ↓reduceIte, ReaderT.run_bind, HeaderRepository_GetHeadersStopHeight_run, pure_bind,
        Option.isSome_none, Bool.false_eq_true]
      generalize stopHeight env.store stop = sh
      by_cases hs0 : sh = 0
      · subst hs0
        simp only [hz, Int.ofNat_zero, Int.cast_ofNat_Int, n1, n1', n2, n2', n3, g1, g2, g3, gt_iff_lt, ge_iff_le, ↓reduceIte, decide_false,
          Bool.false_eq_true, ReaderT.run_bind, ghAnswer, pure_bind, Option.isSome_none, Int.natCast_eq_zero, beq_iff_eq,
          Int.natCast_zero, beq_self_eq_true]
        rw [tail (start + M) _ (by simp) _ (by intro r hs; simp [deref_some, srcOf])]
      · have f0 : ¬ ((sh : Int) = 0) := by omega
        have f0' : ¬ ((0 : Int) = (sh : Int)) := by omega
        by_cases hle : sh ≤ start
        · have f1 : ((sh : Int) ≤ (start : Int)) := by omega
          have f1' : ((sh : Int) < (start : Int) + 1) := by omega
          simp [hz, hs0, f0, f0', f1, f1', hle, ghAnswer]
        · have f1 : ¬ ((sh : Int) ≤ (start : Int)) := by omega
          have f1' : ¬ ((sh : Int) < (start : Int) + 1) := by omega
          by_cases hcap : M < sh - start
          · have f2 : ((M : Int) < (sh : Int) - (start : Int)) := by omega
            simp only [hz, hs0, f0, f0', f1, f1', f2, hle, hcap, gt_iff_lt, ge_iff_le, ↓reduceIte, decide_false, decide_true,
              Bool.false_eq_true, ReaderT.run_bind, ghAnswer, pure_bind, Option.isSome_none, Int.natCast_eq_zero, beq_iff_eq]
            rw [tail (start + M) _ (by simp) _ (by intro r hs; simp [deref_some, srcOf])]
          · have f2 : ¬ ((M : Int) < (sh : Int) - (start : Int)) := by omega
            simp only [hz, hs0, f0, f0', f1, f1', f2, hle, hcap, gt_iff_lt, ge_iff_le, ↓reduceIte, decide_false, decide_true,
              Bool.false_eq_true, ReaderT.run_bind, ghAnswer, pure_bind, Option.isSome_none, Int.natCast_eq_zero, beq_iff_eq]
            rw [tail sh _ rfl _ (by intro r hs; simp [deref_some, srcOf])]

theorem Gen_getheaders_refines (loc : List H) (stop : H) (env : QEnv H) :
    (HeaderService_LocateHeadersGetHeaders loc stop).run env =
      pure (ghAnswer (getHeaders env.store default loc stop)) := by
  unfold HeaderService_LocateHeadersGetHeaders
  simp only [ReaderT.run_bind, Gen_getheaders_inner, pure_bind]
  cases getHeaders env.store default loc stop with
  | ok rows => rfl
  | error e => cases e <;> rfl

/-! ### LatestHeaderLocator -/

theorem fuelLoop_succ {β : Type} (body : Unit → β → QueryM H (ForInStep β)) (n : Nat) (b : β) (env : QEnv H) :
    (fuelLoop body (n + 1) b).run env = (body () b).run env >>= fun r =>
      match r with
      | .done b => pure b
      | .yield b => (fuelLoop body n b).run env := by
  show (do match ← body () b with | .done b => pure b | .yield b => fuelLoop body n b : QueryM H β).run env = _
  simp only [ReaderT.run_bind]
  congr 1
  funext r
  cases r <;> rfl

theorem forIn_fuel {β : Type} (f : Fuel) (b : β) (body : Unit → β → QueryM H (ForInStep β)) :
    forIn f b body = fuelLoop body f.n b := rfl

theorem loopFuel_run (env : QEnv H) : (loopFuel (H := H)).run env = pure ⟨env.fuel⟩ := rfl

/-- the next step width of the locator loop, after the entry number `n + 1` has been appended -/
def nextStep (st n : Nat) : Nat := if n + 1 > 10 then st * 2 else st

theorem nextStep_pos {st n : Nat} (h : 1 ≤ st) : 1 ≤ nextStep st n := by
  unfold nextStep; split <;> omega

theorem locatorGo_succ (s : Store H) (fuel : Nat) (t : Row H) (st n : Nat) :
    locatorGo s (fuel + 1) t st n = t.hash :: (if t.height = 0 then [] else
      match lcAtHeight s (t.height - st) with
      | none => []
      | some v => locatorGo s fuel v (nextStep st n) (n + 1)) := rfl

/-- `locatorGo` does not depend on its fuel once the fuel exceeds the height it starts from -/
theorem locatorGo_fuel (s : Store H) : ∀ (f1 f2 : Nat) (t : Row H) (st n : Nat), 1 ≤ st → t.height < f1 → t.height < f2 →
    locatorGo s f1 t st n = locatorGo s f2 t st n := by
  intro f1
  induction f1 with
  | zero => intro f2 t st n _ h; omega
  | succ f1 ih =>
    intro f2 t st n hst h1 h2
    cases f2 with
    | zero => omega
    | succ f2 =>
      rw [locatorGo_succ, locatorGo_succ]
      congr 1
      by_cases h0 : t.height = 0
      · simp [h0]
      · simp only [h0, ↓reduceIte]
        cases hv : lcAtHeight s (t.height - st) with
        | none => rfl
        | some v =>
          have hvh := (lcAtHeight_some hv).2.1
          exact ih f2 v _ _ (nextStep_pos hst) (by omega) (by omega)

/-- the state in which the loop of LatestHeaderLocator stops: (early return value, tip, locator, step) -/
def locFin (s : Store H) : Nat → Row H → List H → Nat → Option (List H) × Option (Row H) × List H × Int
  | 0, t, acc, st => (none, some t, acc, (st : Int))
  | k + 1, t, acc, st =>
    if t.height = 0 then (none, some t, acc ++ [t.hash], (st : Int))
    else match lcAtHeight s (t.height - st) with
      | none => (some (acc ++ [t.hash]), some t, acc ++ [t.hash], (st : Int))
      | some v => locFin s k v (acc ++ [t.hash]) (nextStep st acc.length)

/-- the loop of LatestHeaderLocator, for any body that behaves on the running states (no early return yet, a tip,
    the entries so far, a positive step width) as the Go text says: it stops within (height of the tip + 1) iterations -/
theorem locator_loop (env : QEnv H)
    (body : Unit → Option (List H) × Option (Row H) × List H × Int → QueryM H (ForInStep (Option (List H) × Option (Row H) × List H × Int)))
    (hbody : ∀ (t : Row H) (acc : List H) (st : Nat), 1 ≤ st →
      (body () (none, some t, acc, (st : Int))).run env = pure (
        if t.height = 0 then .done (none, some t, acc ++ [t.hash], (st : Int))
        else match lcAtHeight env.store (t.height - st) with
          | none => .done (some (acc ++ [t.hash]), some t, acc ++ [t.hash], (st : Int))
          | some v => .yield (none, some v, acc ++ [t.hash], ((nextStep st acc.length : Nat) : Int)))) :
    ∀ (k : Nat) (t : Row H) (acc : List H) (st : Nat) (stI : Int), stI = (st : Int) → 1 ≤ st → t.height < k →
      (fuelLoop body k (none, some t, acc, stI)).run env = pure (locFin env.store k t acc st) := by
  intro k
  induction k with
  | zero => intro t acc st _ _ _ h; omega
  | succ k ih =>
    intro t acc st stI hI hst hk
    subst hI
    rw [fuelLoop_succ, hbody t acc st hst]
    unfold locFin
    by_cases h0 : t.height = 0
    · simp only [h0, ↓reduceIte, pure_bind]
    · simp only [h0, ↓reduceIte]
      cases hv : lcAtHeight env.store (t.height - st) with
      | none => rfl
      | some v =>
        have hvh := (lcAtHeight_some hv).2.1
        simp only [pure_bind]
        exact ih v (acc ++ [t.hash]) (nextStep st acc.length) _ rfl (nextStep_pos hst) (by omega)

theorem locFin_out (s : Store H) : ∀ (k : Nat) (t : Row H) (acc : List H) (st : Nat), 1 ≤ st → t.height < k →
    ((locFin s k t acc st).1).getD (locFin s k t acc st).2.2.1 = acc ++ locatorGo s (t.height + 1) t st acc.length := by
  intro k
  induction k with
  | zero => intro t acc st _ h; omega
  | succ k ih =>
    intro t acc st hst hk
    rw [locatorGo_succ]
    unfold locFin
    by_cases h0 : t.height = 0
    · simp [h0]
    · simp only [h0, ↓reduceIte]
      cases hv : lcAtHeight s (t.height - st) with
      | none => simp
      | some v =>
        have hvh := (lcAtHeight_some hv).2.1
        simp only []
        rw [ih v (acc ++ [t.hash]) (nextStep st acc.length) (nextStep_pos hst) (by omega), List.length_append,
          List.length_singleton,
          locatorGo_fuel s (v.height + 1) t.height v _ _ (nextStep_pos hst) (by omega) (by omega)]
        simp

theorem Gen_locator_refines (env : QEnv H) (hf : ∀ t, getTip env.store = some t → t.height < env.fuel) :
    (HeaderService_LatestHeaderLocator (H := H)).run env = pure (locator env.store) := by
  unfold HeaderService_LatestHeaderLocator locator
  simp only [ReaderT.run_bind, HeaderService_GetTip_run, pure_bind]
  cases ht : getTip env.store with
  | none => rfl
  | some t =>
    have hfuel := hf t ht
    simp only [Option.isNone_some, Bool.false_eq_true, ↓reduceIte, deref_some, pure_bind, ReaderT.run_bind,
      loopFuel_run, forIn_fuel, ite_self]
    rw [locator_loop env _ ?hb env.fuel t [] 1 1 rfl (Nat.le_refl 1) hfuel]
    case hb =>
      intro t' acc st hst
      have e0 : (0 : Int) = ((0 : Nat) : Int) := rfl
      by_cases h0 : t'.height = 0
      · simp [h0, deref_some]
      · have h0' : ¬ ((t'.height : Int) = 0) := by omega
        have h0'' : ¬ ((0 : Int) = (t'.height : Int)) := by omega
        by_cases hlt : t'.height < st
        · have c1 : ((t'.height : Int) - (st : Int) < 0) := by omega
          have c1' : ¬ ((0 : Int) ≤ (t'.height : Int) - (st : Int)) := by omega
          have c2 : t'.height - st = 0 := by omega
          simp only [Bool.not_true, Bool.false_eq_true, ↓reduceIte, deref_some, pure_bind, beq_iff_eq, h0', h0'', h0, c1,
            c1', c2, decide_true, decide_false, gt_iff_lt, ge_iff_le, ReaderT.run_bind, Bool.not_false]
          rw [e0, HeaderRepository_GetHeaderByHeight_run]
          cases lcAtHeight env.store 0 <;>
            simp [nextStep, Int.natCast_mul] <;> split <;> simp_all
        · have c1 : ¬ ((t'.height : Int) - (st : Int) < 0) := by omega
          have c1' : ((0 : Int) ≤ (t'.height : Int) - (st : Int)) := by omega
          have c2 : (t'.height : Int) - (st : Int) = ((t'.height - st : Nat) : Int) := by omega
          simp only [Bool.not_true, Bool.false_eq_true, ↓reduceIte, deref_some, pure_bind, beq_iff_eq, h0', h0'', h0, c1,
            c1', decide_false, decide_true, gt_iff_lt, ge_iff_le, ReaderT.run_bind, Bool.not_false]
          rw [c2, HeaderRepository_GetHeaderByHeight_run]
          cases lcAtHeight env.store (t'.height - st) <;>
            simp [nextStep, Int.natCast_mul] <;> split <;> simp_all
    simp only [pure_bind]
    have e2 := locFin_out env.store env.fuel t [] 1 (Nat.le_refl 1) hfuel
    simp only [List.nil_append, List.length_nil] at e2
    rw [← e2]
    cases (locFin env.store env.fuel t [] 1).1 <;> rfl

/-! ### loops with an early return -/

/-- iterate `g` over `l`, stopping at the first `.error` -/
def foldStop {β γ : Type} (g : β → γ → Except β β) : β → List γ → Except β β
  | b, [] => .ok b
  | b, c :: l => match g b c with
    | .ok b' => foldStop g b' l
    | .error b' => .error b'

/-- the state a loop stops in -/
def stopState {β : Type} : Except β β → β
  | .ok b => b
  | .error b => b

/-- a `for … range` loop whose body, on the elements and loop states that occur, either updates the loop state or
    leaves the loop (`return` / `break`) -/
theorem forIn_map_stop {α β γ : Type} (e : γ → α) (l : List γ) (P : β → Prop) (b : β)
    (body : α → β → QueryM H (ForInStep β)) (g : β → γ → Except β β)
    (hP : P b) (hg : ∀ b c b', c ∈ l → P b → g b c = .ok b' → P b')
    (hb : ∀ c b, c ∈ l → P b → body (e c) b = pure (match g b c with | .ok b' => .yield b' | .error b' => .done b')) :
    forIn (l.map e) b body = pure (stopState (foldStop g b l)) := by
  induction l generalizing b with
  | nil => rfl
  | cons a l ih =>
    simp only [List.map_cons, List.forIn_cons]
    rw [hb a b (List.mem_cons_self) hP]
    unfold foldStop
    cases hga : g b a with
    | error b' => simp [stopState]
    | ok b' =>
      simp only [pure_bind]
      exact ih b' (hg b a b' (List.mem_cons_self) hP hga) (fun b c b'' hc => hg b c b'' (List.mem_cons_of_mem _ hc))
        (fun c b hc => hb c b (List.mem_cons_of_mem _ hc))

/-! ### GetCommonAncestor -/

abbrev CaRet (H : Type) := Option (Option (Row H) × Option Err)

/-- the first loop of GetCommonAncestor: look every hash up, keep the lowest height -/
def g1 (s : Store H) (st : CaRet H × List (Option (Row H)) × Int) (h : H) :
    Except (CaRet H × List (Option (Row H)) × Int) (CaRet H × List (Option (Row H)) × Int) :=
  match byHash s h with
  | none => .error (some (none, some errNotFound), st.2.1, st.2.2)
  | some r => .ok (none, st.2.1 ++ [some r], if (r.height : Int) < st.2.2 then (r.height : Int) else st.2.2)

theorem g1_fold (s : Store H) (hashes : List H) : ∀ (acc : List (Row H)) (m : Nat),
    (match hashes.mapM (byHash s) with
     | none => (stopState (foldStop (g1 s) (none, acc.map some, (m : Int)) hashes)).1 = some (none, some errNotFound)
     | some rows => stopState (foldStop (g1 s) (none, acc.map some, (m : Int)) hashes) =
        (none, (acc ++ rows).map some, ((rows.foldl (fun m r => min m r.height) m : Nat) : Int))) := by
  induction hashes with
  | nil => intro acc m; simp [foldStop, stopState]
  | cons h hs ih =>
    intro acc m
    simp only [List.mapM_cons]
    cases hb : byHash s h with
    | none => simp [foldStop, g1, hb, stopState]
    | some r =>
      have e : (if (r.height : Int) < (m : Int) then (r.height : Int) else (m : Int)) = ((min m r.height : Nat) : Int) := by
        simp only [Nat.min_def]; split <;> split <;> omega
      have := ih (acc ++ [r]) (min m r.height)
      simp only [foldStop, g1, hb, e]
      simp only [List.map_append, List.map_cons, List.map_nil] at this
      cases hm : hs.mapM (byHash s) with
      | none => rw [hm] at this; simpa using this
      | some rows => rw [hm] at this; simpa using this

/-- the second loop: every header is replaced by its ancestor on height `T` -/
def g2 (s : Store H) (T : Int) (st : CaRet H × List (Option (Row H))) (c : Row H × Nat) :
    Except (CaRet H × List (Option (Row H))) (CaRet H × List (Option (Row H))) :=
  match ancestorOnHeight s c.1.hash T with
  | none => .error (some (none, some (Err.bhs "ErrAncestorNotFound")), st.2)
  | some a => .ok (none, st.2.set c.2 (some a))

theorem g2_fold (s : Store H) (T : Int) (rows : List (Row H)) : ∀ (pre mid suf : List (Option (Row H))),
    mid.length = rows.length →
    (match rows.mapM (fun r => ancestorOnHeight s r.hash T) with
     | none => (stopState (foldStop (g2 s T) (none, pre ++ mid ++ suf) (rows.zipIdx pre.length))).1 =
        some (none, some (Err.bhs "ErrAncestorNotFound"))
     | some as => stopState (foldStop (g2 s T) (none, pre ++ mid ++ suf) (rows.zipIdx pre.length)) =
        (none, pre ++ as.map some ++ suf)) := by
  induction rows with
  | nil =>
    intro pre mid suf hm
    cases mid with
    | nil => simp [foldStop, stopState]
    | cons _ _ => cases hm
  | cons r rows ih =>
    intro pre mid suf hm
    cases mid with
    | nil => cases hm
    | cons m0 mid =>
      simp only [List.mapM_cons, List.zipIdx_cons]
      cases ha : ancestorOnHeight s r.hash T with
      | none => simp [foldStop, g2, ha, stopState]
      | some a =>
        have e : (pre ++ m0 :: mid ++ suf).set pre.length (some a) = (pre ++ [some a]) ++ mid ++ suf := by simp
        have e2 : pre.length + 1 = (pre ++ [some a]).length := by simp
        have := ih (pre ++ [some a]) mid suf (by simpa using hm)
        simp only [foldStop, g2, ha, e]
        rw [e2]
        cases hm2 : rows.mapM (fun r => ancestorOnHeight s r.hash T) with
        | none => rw [hm2] at this; simpa using this
        | some as => rw [hm2] at this; simpa using this

/-- the inner loop of the third loop: every header is replaced by its previous header -/
def g4 (s : Store H) (st : CaRet H × List (Option (Row H))) (i : Nat) :
    Except (CaRet H × List (Option (Row H))) (CaRet H × List (Option (Row H))) :=
  match st.2[i]? with
  | some (some r) =>
    (match prevOf s r.hash with
     | none => .error (some (none, some errNotFound), st.2)
     | some p => .ok (none, st.2.set i (some p)))
  | _ => .error st

theorem g4_fold (s : Store H) (rows : List (Row H)) : ∀ (pre : List (Row H)),
    (match rows.mapM (fun r => prevOf s r.hash) with
     | none => (stopState (foldStop (g4 s) (none, (pre ++ rows).map some) (List.range' pre.length rows.length))).1 =
        some (none, some errNotFound)
     | some ps => stopState (foldStop (g4 s) (none, (pre ++ rows).map some) (List.range' pre.length rows.length)) =
        (none, (pre ++ ps).map some)) := by
  induction rows with
  | nil => intro pre; simp [foldStop, stopState]
  | cons r rows ih =>
    intro pre
    simp only [List.mapM_cons, List.length_cons, List.range'_succ]
    have hget : ((pre ++ r :: rows).map some)[pre.length]? = some (some r) := by simp
    cases hp : prevOf s r.hash with
    | none => simp [foldStop, g4, hget, hp, stopState]
    | some p =>
      have e : ((pre ++ r :: rows).map some).set pre.length (some p) = ((pre ++ [p]) ++ rows).map some := by
        simp [List.set_append]
      have e2 : pre.length + 1 = (pre ++ [p]).length := by simp
      have := ih (pre ++ [p])
      simp only [foldStop, g4, hget, hp, e]
      rw [e2]
      cases hm : rows.mapM (fun r => prevOf s r.hash) with
      | none => rw [hm] at this; simpa using this
      | some ps => rw [hm] at this; simpa using this

/-- a row that is the one stored under its hash -/
def SelfRow (s : Store H) (r : Row H) : Prop := byHash s r.hash = some r

theorem selfRow_of_byHash {s : Store H} {h : H} {r : Row H} (e : byHash s h = some r) : SelfRow s r := by
  unfold SelfRow
  have := List.find?_some e
  simp at this
  rw [this]; exact e

theorem prevOf_self {s : Store H} {r : Row H} (h : SelfRow s r) : prevOf s r.hash = byHash s r.prev := by
  unfold prevOf; rw [h]

theorem walk_self (s : Store H) (T : Int) : ∀ (fuel : Nat) (r : Row H), SelfRow s r →
    ∀ a ∈ walkWhileHeight s T fuel r, SelfRow s a := by
  intro fuel
  induction fuel with
  | zero => intro r hr a ha; simp [walkWhileHeight] at ha; rw [ha]; exact hr
  | succ fuel ih =>
    intro r hr a ha
    simp only [walkWhileHeight, List.mem_cons] at ha
    rcases ha with rfl | ha
    · exact hr
    · cases hp : byHash s r.prev with
      | none => rw [hp] at ha; cases ha
      | some p =>
        rw [hp] at ha
        simp only at ha
        by_cases hc : (p.height : Int) ≥ T
        · rw [if_pos hc] at ha
          exact ih p (selfRow_of_byHash hp) a ha
        · rw [if_neg hc] at ha
          cases ha

theorem selfRow_of_ancestor {s : Store H} {h : H} {T : Int} {a : Row H} (e : ancestorOnHeight s h T = some a) :
    SelfRow s a := by
  unfold ancestorOnHeight at e
  cases hb : byHash s h with
  | none => rw [hb] at e; cases e
  | some r =>
    rw [hb] at e
    exact walk_self s T s.length r (selfRow_of_byHash hb) a (List.mem_of_find?_eq_some e)

theorem mapM_all {α β : Type} {f : α → Option β} {P : β → Prop} (hf : ∀ a b, f a = some b → P b) :
    ∀ {l : List α} {bs : List β}, l.mapM f = some bs → ∀ b ∈ bs, P b := by
  intro l
  induction l with
  | nil => intro bs h b hb; simp at h; subst h; cases hb
  | cons a l ih =>
    intro bs h b hb
    simp only [List.mapM_cons] at h
    cases ha : f a with
    | none => rw [ha] at h; cases h
    | some x =>
      rw [ha] at h
      cases hl : l.mapM f with
      | none => rw [hl] at h; cases h
      | some xs =>
        rw [hl] at h
        simp at h
        subst h
        rcases List.mem_cons.1 hb with rfl | hb'
        · exact hf a _ ha
        · exact ih hl b hb'

theorem mapM_length {α β : Type} {f : α → Option β} : ∀ {l : List α} {bs : List β}, l.mapM f = some bs →
    bs.length = l.length := by
  intro l
  induction l with
  | nil => intro bs h; simp at h; subst h; rfl
  | cons a l ih =>
    intro bs h
    simp only [List.mapM_cons] at h
    cases ha : f a with
    | none => rw [ha] at h; cases h
    | some x =>
      rw [ha] at h
      cases hl : l.mapM f with
      | none => rw [hl] at h; cases h
      | some xs =>
        rw [hl] at h
        simp at h
        subst h
        simp [ih hl]

theorem mapM_congr {α β : Type} {f g : α → Option β} : ∀ {l : List α}, (∀ a ∈ l, f a = g a) → l.mapM f = l.mapM g := by
  intro l
  induction l with
  | nil => intro _; rfl
  | cons a l ih =>
    intro h
    simp only [List.mapM_cons]
    rw [h a List.mem_cons_self, ih (fun b hb => h b (List.mem_cons_of_mem _ hb))]

def gEq (a : Row H) (_ : Option Bool × Unit) (r : Row H) : Except (Option Bool × Unit) (Option Bool × Unit) :=
  if r.hash ≠ a.hash then .error (some false, ()) else .ok (none, ())

theorem gEq_fold (a : Row H) : ∀ (suf : List (Row H)), stopState (foldStop (gEq a) (none, ()) suf) =
    if suf.all (fun b => decide (b.hash = a.hash)) then (none, ()) else (some false, ()) := by
  intro suf
  induction suf with
  | nil => rfl
  | cons b suf ih =>
    simp only [foldStop]
    by_cases hb : b.hash = a.hash
    · have e : gEq a (none, ()) b = .ok (none, ()) := by simp [gEq, hb]
      rw [e]
      simp only []
      rw [ih]
      simp [hb]
    · have e : gEq a (none, ()) b = .error (some false, ()) := by simp [gEq, hb]
      rw [e]
      simp [stopState, hb]

theorem areAll_eq (a : Row H) (l : List (Row H)) :
    areAllElementsEqual ((a :: l).map some) = pure (allSame (a :: l)) := by
  unfold areAllElementsEqual
  rw [forIn_map_stop some (a :: l) (fun _ => True) (none, ()) _ (gEq a) trivial (fun _ _ _ _ _ _ => trivial)
    (by
      intro c b _ _
      simp only [List.map_cons, deref_some, index_zero, pure_bind, gEq]
      by_cases hc : c.hash = a.hash <;> simp [hc])]
  rw [gEq_fold]
  simp only [allSame, List.all_cons, decide_true, Bool.true_and]
  cases l.all (fun b => decide (b.hash = a.hash)) <;> rfl

/-- the early return value of the third loop (`none`: the loop ends by its condition), the Go-level reading of `caLoop` -/
def caRet (s : Store H) : Nat → List (Row H) → CaRet H
  | 0, _ => none
  | h + 1, hs =>
    if allSame hs then some (hs.head?, none)
    else match hs.mapM (fun r => byHash s r.prev) with
      | none => some (none, some errNotFound)
      | some ps => caRet s h ps

/-- the third loop of GetCommonAncestor (`for height >= 0`), for any body that behaves on the running states as the Go
    text says; `K` is the rest of the function, which only looks at the early return value -/
theorem ca_loop (env : QEnv H)
    (body : Unit → CaRet H × List (Option (Row H)) × Int → QueryM H (ForInStep (CaRet H × List (Option (Row H)) × Int)))
    (hbody : ∀ (hs : List (Row H)) (ht : Int), hs ≠ [] → (∀ r ∈ hs, SelfRow env.store r) →
      ∃ st, (body () (none, hs.map some, ht)).run env = pure st ∧
        (if ht < 0 then st = .done (none, hs.map some, ht)
         else if allSame hs then st = .done (some (hs.head?, none), hs.map some, ht)
         else match hs.mapM (fun r => byHash env.store r.prev) with
           | none => ∃ l, st = .done (some (none, some errNotFound), l, ht)
           | some ps => st = .yield (none, ps.map some, ht - 1))) :
    ∀ (k : Nat) (hs : List (Row H)) (h : Nat), hs ≠ [] → (∀ r ∈ hs, SelfRow env.store r) → h < k →
      ∀ {α : Type} (K : CaRet H × List (Option (Row H)) × Int → Except Fault α) (K' : CaRet H → Except Fault α),
        (∀ fin, K fin = K' fin.1) →
        ((fuelLoop body k (none, hs.map some, (h : Int) - 1)).run env >>= K) = K' (caRet env.store h hs) := by
  intro k
  induction k with
  | zero => intro hs h _ _ hk; omega
  | succ k ih =>
    intro hs h hne hself hk α K K' hK
    obtain ⟨st, e1, e2⟩ := hbody hs ((h : Int) - 1) hne hself
    rw [fuelLoop_succ, e1]
    cases h with
    | zero =>
      have c : ((0 : Nat) : Int) - 1 < 0 := by omega
      rw [if_pos c] at e2
      subst e2
      simp only [pure_bind, bind_assoc]
      show K _ = _
      rw [hK]; rfl
    | succ h =>
      have c : ¬ (((h + 1 : Nat) : Int) - 1 < 0) := by omega
      rw [if_neg c] at e2
      unfold caRet
      by_cases hall : allSame hs
      · rw [if_pos hall] at e2
        subst e2
        simp only [pure_bind, hall, ↓reduceIte]
        show K _ = _
        rw [hK]
      · rw [if_neg hall] at e2
        simp only [hall, Bool.false_eq_true, ↓reduceIte]
        cases hm : hs.mapM (fun r => byHash env.store r.prev) with
        | none =>
          rw [hm] at e2
          obtain ⟨l, e2⟩ := e2
          subst e2
          simp only [pure_bind]
          show K _ = _
          rw [hK]
        | some ps =>
          rw [hm] at e2
          subst e2
          simp only [pure_bind]
          have e3 : ((h + 1 : Nat) : Int) - 1 - 1 = (h : Int) - 1 := by omega
          rw [e3]
          have hlen := mapM_length hm
          have hps : ps ≠ [] := by
            intro hnil; rw [hnil] at hlen; simp at hlen; exact hne (List.eq_nil_of_length_eq_zero hlen.symm)
          exact ih ps h hps (mapM_all (fun a b hab => selfRow_of_byHash hab) hm) (by omega) K K' hK

/-- what a caller of GetCommonAncestor can tell apart -/
inductive CaObs (H : Type) where
  | found (r : Row H)
  | notFound          -- ErrHeaderNotFound / ErrAncestorNotFound
  | empty             -- ErrCommonAncestorEmptyList
deriving DecidableEq, Repr

/-- the hand model's result as the caller sees it (the repairs 397583f / 15c8125 turned `nilResult` and `panicEmpty`
    into structured errors; the constructor names are kept from the original code) -/
def caClass : CaRes H → CaObs H
  | .found r => .found r
  | .notFound => .notFound
  | .nilResult => .notFound
  | .panicEmpty => .empty

/-- the answer `(header, error)` of GetCommonAncestor as the caller sees it (`none`: an answer outside the three classes) -/
def caObs (res : Option (Row H) × Option Err) : Option (CaObs H) :=
  match res with
  | (some r, none) => some (.found r)
  | (_, some e) =>
    if e.bhsName = some "ErrCommonAncestorEmptyList" then some .empty
    else if e.bhsName = some "ErrAncestorNotFound" ∨ e.bhsName = some "ErrHeaderNotFound" then some .notFound
    else none
  | (none, none) => none

/-- `forIn_map_stop` for a body whose behaviour is known in one environment only (it reads the store) -/
theorem forIn_map_stop_run {α β γ : Type} (env : QEnv H) (e : γ → α) (l : List γ) (P : β → Prop) (b : β)
    (body : α → β → QueryM H (ForInStep β)) (g : β → γ → Except β β)
    (hP : P b) (hg : ∀ b c b', c ∈ l → P b → g b c = .ok b' → P b')
    (hb : ∀ c b, c ∈ l → P b →
      (body (e c) b).run env = pure (match g b c with | .ok b' => .yield b' | .error b' => .done b')) :
    (forIn (l.map e) b body).run env = pure (stopState (foldStop g b l)) := by
  induction l generalizing b with
  | nil => rfl
  | cons a l ih =>
    simp only [List.map_cons, List.forIn_cons, ReaderT.run_bind]
    rw [hb a b (List.mem_cons_self) hP]
    unfold foldStop
    cases hga : g b a with
    | error b' => simp [stopState]
    | ok b' =>
      simp only [pure_bind]
      exact ih b' (hg b a b' (List.mem_cons_self) hP hga) (fun b c b'' hc => hg b c b'' (List.mem_cons_of_mem _ hc))
        (fun c b hc => hb c b (List.mem_cons_of_mem _ hc))

theorem forIn_stop_run {β γ : Type} (env : QEnv H) (l : List γ) (P : β → Prop) (b : β)
    (body : γ → β → QueryM H (ForInStep β)) (g : β → γ → Except β β)
    (hP : P b) (hg : ∀ b c b', c ∈ l → P b → g b c = .ok b' → P b')
    (hb : ∀ c b, c ∈ l → P b →
      (body c b).run env = pure (match g b c with | .ok b' => .yield b' | .error b' => .done b')) :
    (forIn l b body).run env = pure (stopState (foldStop g b l)) := by
  have := forIn_map_stop_run env id l P b body g hP hg hb
  rwa [List.map_id] at this

theorem foldl_min_le (rows : List (Row H)) : ∀ (m : Nat), rows.foldl (fun m r => min m r.height) m ≤ m ∧
    ∀ r ∈ rows, rows.foldl (fun m r => min m r.height) m ≤ r.height := by
  induction rows with
  | nil => intro m; exact ⟨Nat.le_refl _, fun r hr => by cases hr⟩
  | cons a rows ih =>
    intro m
    obtain ⟨h1, h2⟩ := ih (min m a.height)
    refine ⟨by simp only [List.foldl_cons]; omega, ?_⟩
    intro r hr
    simp only [List.foldl_cons]
    rcases List.mem_cons.1 hr with rfl | hr'
    · omega
    · exact h2 r hr'

theorem caRet_class (s : Store H) : ∀ (h : Nat) (hs : List (Row H)), hs ≠ [] →
    caObs (match caRet s h hs with | some r => r | none => (none, some (Err.bhs "ErrAncestorNotFound"))) =
      some (caClass (caLoop s h hs)) := by
  intro h
  induction h with
  | zero => intro hs _; rfl
  | succ h ih =>
    intro hs hne
    unfold caRet caLoop
    by_cases hall : allSame hs
    · cases hs with
      | nil => exact absurd rfl hne
      | cons a l => simp [hall, caObs, caClass]
    · simp only [hall, Bool.false_eq_true, ↓reduceIte]
      cases hm : hs.mapM (fun r => byHash s r.prev) with
      | none => rfl
      | some ps =>
        have hlen := mapM_length hm
        have hps : ps ≠ [] := by
          intro hnil; rw [hnil] at hlen; simp at hlen; exact hne (List.eq_nil_of_length_eq_zero hlen.symm)
        exact ih ps hps

theorem byHash_mem' {s : Store H} {h : H} {r : Row H} (e : byHash s h = some r) : r ∈ s :=
  List.mem_of_find?_eq_some e

theorem Gen_common_refines (hashes : List H) (env : QEnv H) (hf : ∀ r ∈ env.store, r.height < env.fuel) :
    ((HeaderService_GetCommonAncestor hashes).run env).map caObs =
      .ok (some (caClass (commonAncestor env.store hashes))) := by
  unfold HeaderService_GetCommonAncestor commonAncestor
  cases hashes with
  | nil => rfl
  | cons h0 hs0 =>
    simp only [List.length_cons, Nat.add_one_ne_zero, beq_iff_eq, ↓reduceIte, ReaderT.run_bind]
    -- the first loop
    have e0 : ((none, [], (2147483647 : Int)) : CaRet H × List (Option (Row H)) × Int) =
        (none, ([] : List (Row H)).map some, ((2147483647 : Nat) : Int)) := rfl
    rw [forIn_stop_run env (h0 :: hs0) (fun _ => True) _ _ (g1 env.store) trivial (fun _ _ _ _ _ _ => trivial) ?hb1, e0]
    case hb1 =>
      intro c b _ _
      simp only [ReaderT.run_bind, HeaderRepository_GetHeaderByHash_run, pure_bind, g1]
      cases byHash env.store c with
      | none => rfl
      | some r =>
        simp only [Option.isSome_none, Bool.false_eq_true, ↓reduceIte, deref_some, pure_bind, ReaderT.run_bind]
        by_cases hlt : (r.height : Int) < b.2.2 <;> simp [hlt, deref_some]
    simp only [pure_bind]
    have hfold := g1_fold env.store (h0 :: hs0) [] 2147483647
    cases hm : (h0 :: hs0).mapM (byHash env.store) with
    | none =>
      rw [hm] at hfold
      simp only [hfold]
      rfl
    | some rows =>
      rw [hm] at hfold
      simp only [List.nil_append] at hfold
      rw [hfold]
      have hlen := mapM_length hm
      have hmem : ∀ r ∈ rows, r ∈ env.store := mapM_all (fun a b hab => byHash_mem' hab) hm
      have hself : ∀ r ∈ rows, SelfRow env.store r := mapM_all (fun a b hab => selfRow_of_byHash hab) hm
      have hmin := (foldl_min_le rows 2147483647).2
      dsimp only
      generalize List.foldl (fun m r => min m r.height) 2147483647 rows = m at hmin ⊢
      cases rows with
      | nil => simp at hlen
      | cons r0 rs =>
        dsimp only
        by_cases hm1 : m < 1
        · have hm0 : m = 0 := by omega
          subst hm0
          simp [caObs, caClass, Err.bhsName, Except.map, pure_ok]
        · have c : ¬ ((m : Int) < 1) := by omega
          have c' : ¬ ((m : Int) ≤ 0) := by omega
          simp only [hm1, c, c', gt_iff_lt, ge_iff_le, decide_false, Bool.false_eq_true, ↓reduceIte, ReaderT.run_bind]
          -- the second loop
          rw [List.zipIdx_map, forIn_map_stop_run env (Prod.map some id) (r0 :: rs).zipIdx
            (fun st => st.2.length = (r0 :: rs).length) _ _ (g2 env.store ((m : Int) - 1)) (by simp) ?hg2 ?hb2]
          case hg2 =>
            intro b c b' _ hP hgc
            unfold g2 at hgc
            cases ha : ancestorOnHeight env.store c.1.hash ((m : Int) - 1) with
            | none => rw [ha] at hgc; cases hgc
            | some a => rw [ha] at hgc; cases hgc; simpa using hP
          case hb2 =>
            intro c b hc hP
            obtain ⟨r, i⟩ := c
            have hi : i < b.2.length := by rw [hP]; exact (List.mem_zipIdx' hc).1
            simp only [Prod.map, id, deref_some, pure_bind, ReaderT.run_bind, HeaderRepository_GetAncestorOnHeight_run, g2]
            cases ancestorOnHeight env.store r.hash ((m : Int) - 1) <;> simp [setIndex, hi]
          simp only [pure_bind]
          have hf2 := g2_fold env.store ((m : Int) - 1) (r0 :: rs) [] ((r0 :: rs).map some) [] (by simp)
          simp only [List.nil_append, List.append_nil, List.length_nil] at hf2
          cases hma : (r0 :: rs).mapM (fun r => ancestorOnHeight env.store r.hash ((m : Int) - 1)) with
          | none =>
            rw [hma] at hf2
            simp only [hf2]
            rfl
          | some as =>
            rw [hma] at hf2
            rw [hf2]
            dsimp only
            have hlen2 := mapM_length hma
            have has : as ≠ [] := by
              intro hnil; rw [hnil] at hlen2; simp at hlen2
            have hselfas : ∀ r ∈ as, SelfRow env.store r := mapM_all (fun a b hab => selfRow_of_ancestor hab) hma
            have hfuel : m < env.fuel := by
              have h1 := hmin r0 List.mem_cons_self
              have h2 := hf r0 (hmem r0 List.mem_cons_self)
              omega
            simp only [ReaderT.run_bind, loopFuel_run, pure_bind, forIn_fuel]
            rw [ca_loop env _ ?hb3 env.fuel as m has hselfas hfuel _
              (fun o => (match o with | some r => pure r | none => pure (none, some (Err.bhs "ErrAncestorNotFound")) :
                Except Fault (Option (Row H) × Option Err))) ?hK]
            case hK => intro fin; cases fin.1 <;> rfl
            case hb3 =>
              intro hs ht hne hsf
              cases hs with
              | nil => exact absurd rfl hne
              | cons a l =>
                by_cases hneg : ht < 0
                · have c1 : ¬ (ht ≥ 0) := by omega
                  simp only [ge_iff_le, c1, decide_false, Bool.not_false, ↓reduceIte, ReaderT.run_pure, hneg]
                  exact ⟨_, rfl, rfl⟩
                · have c1 : ht ≥ 0 := by omega
                  simp only [ge_iff_le, c1, decide_true, Bool.not_true, Bool.false_eq_true, ↓reduceIte, ReaderT.run_bind,
                    hneg, areAll_eq, ReaderT.run_pure, pure_bind]
                  by_cases hall : allSame (a :: l)
                  · simp only [hall, ↓reduceIte, List.map_cons, index_zero, pure_bind, ReaderT.run_bind, ReaderT.run_pure]
                    exact ⟨_, rfl, by simp⟩
                  · simp only [hall, Bool.false_eq_true, ↓reduceIte, ReaderT.run_bind]
                    -- the inner loop
                    rw [forIn_stop_run env (List.range ((a :: l).map some).length)
                      (fun st => st.2.length = (a :: l).length ∧ ∀ x ∈ st.2, x ≠ none) _ _ (g4 env.store)
                      (by simp) ?hg4 ?hb4]
                    case hg4 =>
                      intro b c b' _ hP hgc
                      unfold g4 at hgc
                      cases hx : b.2[c]? with
                      | none => rw [hx] at hgc; cases hgc
                      | some x =>
                        cases x with
                        | none => rw [hx] at hgc; cases hgc
                        | some r =>
                          rw [hx] at hgc
                          simp only at hgc
                          cases hp : prevOf env.store r.hash with
                          | none => rw [hp] at hgc; cases hgc
                          | some p =>
                            rw [hp] at hgc
                            cases hgc
                            refine ⟨by simpa using hP.1, ?_⟩
                            intro x hx'
                            rcases List.mem_or_eq_of_mem_set hx' with h1 | h1
                            · exact hP.2 x h1
                            · rw [h1]; simp
                    case hb4 =>
                      intro i b hi hP
                      have hil : i < b.2.length := by
                        rw [hP.1]; simpa using List.mem_range.1 hi
                      cases hx : b.2[i]? with
                      | none => rw [List.getElem?_eq_none_iff] at hx; omega
                      | some x =>
                        cases x with
                        | none => exact absurd rfl (hP.2 none (List.mem_of_getElem? hx))
                        | some r =>
                          simp only [index, hx, deref_some, pure_bind, ReaderT.run_bind,
                            HeaderRepository_GetPreviousHeader_run, g4]
                          cases prevOf env.store r.hash <;> simp [setIndex, hil]
                    simp only [pure_bind]
                    have hf4 := g4_fold env.store (a :: l) []
                    simp only [List.nil_append, List.length_nil, ← List.range_eq_range'] at hf4
                    have hcg : (a :: l).mapM (fun r => prevOf env.store r.hash) =
                        (a :: l).mapM (fun r => byHash env.store r.prev) :=
                      mapM_congr (fun r hr => prevOf_self (hsf r hr))
                    rw [hcg] at hf4
                    simp only [List.length_map]
                    cases hmp : (a :: l).mapM (fun r => byHash env.store r.prev) with
                    | none =>
                      rw [hmp] at hf4
                      generalize stopState (foldStop (g4 env.store) (none, List.map some (a :: l)) (List.range (a :: l).length)) = fin at hf4 ⊢
                      obtain ⟨f1, f2⟩ := fin
                      simp only at hf4
                      subst hf4
                      exact ⟨_, rfl, f2, rfl⟩
                    | some ps =>
                      rw [hmp] at hf4
                      rw [hf4]
                      exact ⟨_, rfl, rfl⟩
            have := caRet_class env.store m as has
            cases hr : caRet env.store m as with
            | none => rw [hr] at this; simp only [Except.map, pure_ok]; rw [this]
            | some r => rw [hr] at this; simp only [Except.map, pure_ok]; rw [this]

end BHS.QueryM.Refine
