/-
Helper lemmas about M-Sync (BHS/Model/Sync.lean): peer-table bookkeeping, and the containment invariant
"once Disconnect() has been called on every peer object with id p, no getheaders is ever sent to p again".
-/
import BHS.Model.Sync

set_option linter.unusedSectionVars false

namespace BHS.Sync
open BHS.Chain
variable {H : Type} [DecidableEq H]

/-- Disconnect() has been called on every peer object with this id -/
def AllDisc (ps : List (PeerSt H)) (p : Nat) : Prop := ∀ q ∈ ps, q.id = p → q.disc = true

/-- no request goes to p -/
def NoGhTo (acts : List (Action H)) (p : Nat) : Prop := ∀ a ∈ acts, ∀ loc stop, a ≠ Action.getheaders p loc stop

theorem NoGhTo.nil (p : Nat) : NoGhTo ([] : List (Action H)) p := by
  intro a ha; cases ha

theorem NoGhTo.append {a b : List (Action H)} {p : Nat} (ha : NoGhTo a p) (hb : NoGhTo b p) : NoGhTo (a ++ b) p := by
  intro x hx
  rcases List.mem_append.1 hx with h | h
  · exact ha x h
  · exact hb x h

theorem NoGhTo.cons_ban {a : List (Action H)} {p p' : Nat} (ha : NoGhTo a p) : NoGhTo (Action.ban p' :: a) p := by
  intro x hx loc stop
  rcases List.mem_cons.1 hx with h | h
  · rw [h]; intro e; cases e
  · exact ha x h loc stop

theorem NoGhTo.panic (p : Nat) : NoGhTo ([Action.panic] : List (Action H)) p := by
  intro x hx loc stop
  rw [List.mem_singleton.1 hx]; intro e; cases e

theorem lookup_mem {ps : List (PeerSt H)} {p : Nat} {q : PeerSt H} (h : lookup ps p = some q) : q ∈ ps ∧ q.id = p := by
  unfold lookup at h
  refine ⟨List.mem_of_find?_eq_some h, ?_⟩
  have := List.find?_some h
  simpa using this

theorem mem_update {ps : List (PeerSt H)} {q r : PeerSt H} (h : r ∈ update ps q) : r = q ∨ r ∈ ps := by
  unfold update at h
  obtain ⟨a, ha, e⟩ := List.mem_map.1 h
  by_cases c : (a.id == q.id) = true
  · rw [if_pos c] at e; exact Or.inl e.symm
  · rw [if_neg c] at e; rw [← e]; exact Or.inr ha

theorem AllDisc.update {ps : List (PeerSt H)} {p : Nat} (h : AllDisc ps p) {q : PeerSt H}
    (hq : q.id = p → q.disc = true) : AllDisc (update ps q) p := by
  intro r hr hid
  rcases mem_update hr with e | hm
  · rw [e]; exact hq (e ▸ hid)
  · exact h r hm hid

theorem pushGetHeaders_fst (q : PeerSt H) (loc : List H) (stop : H) :
    (pushGetHeaders q loc stop).1.id = q.id ∧ (pushGetHeaders q loc stop).1.disc = q.disc := by
  unfold pushGetHeaders
  split <;> exact ⟨rfl, rfl⟩

theorem pushGetHeaders_acts (q : PeerSt H) (loc : List H) (stop : H) :
    ∀ a ∈ (pushGetHeaders q loc stop).2, a = Action.getheaders q.id loc stop ∧ q.disc = false := by
  intro a ha
  unfold pushGetHeaders at ha
  split at ha
  · cases ha
  · cases hd : q.disc with
    | true => simp [hd] at ha
    | false =>
      simp [hd] at ha
      exact ⟨ha, rfl⟩

theorem pushGetHeaders_noGh {ps : List (PeerSt H)} {p : Nat} (h : AllDisc ps p) {q : PeerSt H} (hq : q ∈ ps)
    (loc : List H) (stop : H) : NoGhTo (pushGetHeaders q loc stop).2 p := by
  intro a ha loc' stop' e
  obtain ⟨ea, hd⟩ := pushGetHeaders_acts q loc stop a ha
  rw [ea] at e
  injection e with e1 _ _
  rw [h q hq e1] at hd
  cases hd

theorem pushTo_pres (st : State H) {p : Nat} (h : AllDisc st.peers p) (p' : Nat) (loc : List H) (stop : H) :
    AllDisc (pushTo st p' loc stop).1.peers p ∧ NoGhTo (pushTo st p' loc stop).2 p := by
  unfold pushTo
  split
  · exact ⟨h, NoGhTo.nil p⟩
  · rename_i q hq
    obtain ⟨hm, _⟩ := lookup_mem hq
    refine ⟨?_, pushGetHeaders_noGh h hm loc stop⟩
    apply h.update
    intro hid
    rw [(pushGetHeaders_fst q loc stop).2]
    exact h q hm ((pushGetHeaders_fst q loc stop).1 ▸ hid)

theorem pushTo_store (st : State H) (p' : Nat) (loc : List H) (stop : H) :
    (pushTo st p' loc stop).1.store = st.store := by
  unfold pushTo; split <;> rfl

theorem disconnectPeer_pres {ps : List (PeerSt H)} {p : Nat} (h : AllDisc ps p) (p' : Nat) :
    AllDisc (disconnectPeer ps p').1 p ∧ NoGhTo (disconnectPeer ps p').2 p := by
  unfold disconnectPeer
  split
  · exact ⟨h, NoGhTo.nil p⟩
  · rename_i q hq
    split
    · exact ⟨h, NoGhTo.nil p⟩
    · refine ⟨h.update (fun _ => rfl), ?_⟩
      intro a ha loc stop
      rw [List.mem_singleton.1 ha]; intro e; cases e

theorem mem_update' {ps : List (PeerSt H)} {q r : PeerSt H} (h : r ∈ update ps q) :
    r = q ∨ (r ∈ ps ∧ (r.id == q.id) = false) := by
  unfold update at h
  obtain ⟨a, ha, e⟩ := List.mem_map.1 h
  by_cases c : (a.id == q.id) = true
  · rw [if_pos c] at e; exact Or.inl e.symm
  · rw [if_neg c] at e; rw [← e]; exact Or.inr ⟨ha, by simpa using c⟩

/-- Disconnect() on a connected peer: one `disconnect` action, and afterwards every object with that id is disconnected -/
theorem disconnectPeer_connected {ps : List (PeerSt H)} {p : Nat} {q : PeerSt H} (hq : lookup ps p = some q)
    (hd : q.disc = false) :
    AllDisc (disconnectPeer ps p).1 p ∧ (disconnectPeer ps p).2 = [Action.disconnect p] := by
  obtain ⟨_, hid⟩ := lookup_mem hq
  unfold disconnectPeer
  rw [hq]
  simp only [hd, Bool.false_eq_true, if_false, and_true]
  intro r hr hrid
  rcases mem_update' hr with e | ⟨_, hne⟩
  · rw [e]
  · exfalso
    have : (r.id == q.id) = true := by simp [hrid, hid]
    rw [this] at hne; cases hne


theorem AllDisc.map_candidate {ps : List (PeerSt H)} {p : Nat} (h : AllDisc ps p) (f : PeerSt H → Bool) :
    AllDisc (ps.map (fun q => if f q then { q with candidate := false } else q)) p := by
  intro r hr hid
  obtain ⟨a, ha, e⟩ := List.mem_map.1 hr
  by_cases c : f a = true
  · rw [if_pos c] at e; rw [← e] at hid ⊢; exact h a ha hid
  · rw [if_neg c] at e; rw [← e] at hid ⊢; exact h a ha hid

theorem mem_map_candidate {ps : List (PeerSt H)} (f : PeerSt H → Bool) {r : PeerSt H}
    (hr : r ∈ ps.map (fun q => if f q then { q with candidate := false } else q)) :
    ∃ a ∈ ps, a.id = r.id ∧ a.disc = r.disc := by
  obtain ⟨a, ha, e⟩ := List.mem_map.1 hr
  by_cases c : f a = true
  · rw [if_pos c] at e; rw [← e]; exact ⟨a, ha, rfl, rfl⟩
  · rw [if_neg c] at e; rw [← e]; exact ⟨a, ha, rfl, rfl⟩

theorem syncCandidates_mem {st : State H} {q : PeerSt H} (h : q ∈ syncCandidates st) : q ∈ st.peers := by
  unfold syncCandidates at h
  split at h
  · exact (List.mem_filter.1 h).1
  · exact (List.mem_filter.1 h).1

theorem getElem?_mem' {α : Type} {l : List α} {i : Nat} {a : α} (h : l[i]? = some a) : a ∈ l :=
  List.mem_of_getElem? h

theorem startSync_pres (cfg : Cfg H) {st : State H} {p : Nat} (h : AllDisc st.peers p) (pick : Nat) :
    AllDisc (startSync cfg st pick).1.peers p ∧ NoGhTo (startSync cfg st pick).2 p := by
  unfold startSync
  split
  · exact ⟨h, NoGhTo.nil p⟩
  · simp only []
    split
    · exact ⟨h.map_candidate _, NoGhTo.nil p⟩
    · rename_i bp hbp
      have hm : bp ∈ st.peers := syncCandidates_mem (getElem?_mem' hbp)
      split
      · rename_i c _
        refine ⟨?_, pushGetHeaders_noGh h hm _ _⟩
        apply (h.map_candidate _).update
        intro hid
        rw [(pushGetHeaders_fst bp _ _).2]
        exact h bp hm ((pushGetHeaders_fst bp _ _).1 ▸ hid)
      · refine ⟨?_, pushGetHeaders_noGh h hm _ _⟩
        apply (h.map_candidate _).update
        intro hid
        rw [(pushGetHeaders_fst bp _ _).2]
        exact h bp hm ((pushGetHeaders_fst bp _ _).1 ▸ hid)

theorem startSync_store (cfg : Cfg H) (st : State H) (pick : Nat) : (startSync cfg st pick).1.store = st.store := by
  unfold startSync
  split
  · rfl
  · simp only []
    split
    · rfl
    · split <;> rfl

theorem AllDisc.insert {ps : List (PeerSt H)} {p : Nat} (h : AllDisc ps p) {q : PeerSt H} (hq : q.id ≠ p) :
    AllDisc (insert ps q) p := by
  unfold Sync.insert
  split
  · exact h.update (fun e => absurd e hq)
  · intro r hr hid
    rcases List.mem_append.1 hr with hm | hm
    · exact h r hm hid
    · rw [List.mem_singleton.1 hm] at hid; exact absurd hid hq

theorem newPeer_pres (cfg : Cfg H) {st : State H} {p : Nat} (h : AllDisc st.peers p) (p' : Nat) (hne : p' ≠ p)
    (cand : Bool) (lb : Int) (pick : Nat) :
    AllDisc (newPeer cfg st p' cand lb pick).1.peers p ∧ NoGhTo (newPeer cfg st p' cand lb pick).2 p := by
  unfold newPeer
  simp only []
  have h' : AllDisc (Sync.insert st.peers
      { id := p', inMap := true, candidate := cand, lastBlock := lb, startHeight := lb, prevBegin := none,
        prevStop := none, disc := false }) p := h.insert hne
  split
  · exact startSync_pres cfg (st := { st with peers := _ }) h' pick
  · exact ⟨h', NoGhTo.nil p⟩

theorem updateSyncPeer_pres (cfg : Cfg H) {st : State H} {p : Nat} (h : AllDisc st.peers p) (pick : Nat) :
    AllDisc (updateSyncPeer cfg st pick).1.peers p ∧ NoGhTo (updateSyncPeer cfg st pick).2 p := by
  unfold updateSyncPeer
  split
  · exact ⟨h, NoGhTo.nil p⟩
  · rename_i sp _
    simp only []
    have hd := disconnectPeer_pres h sp
    have hs := startSync_pres cfg (st := { st with peers := (disconnectPeer st.peers sp).1, syncPeer := none }) hd.1 pick
    exact ⟨hs.1, hd.2.append hs.2⟩

theorem updateSyncPeer_store (cfg : Cfg H) (st : State H) (pick : Nat) :
    (updateSyncPeer cfg st pick).1.store = st.store := by
  unfold updateSyncPeer
  split
  · rfl
  · simp only []; rw [startSync_store]

theorem donePeer_pres (cfg : Cfg H) {st : State H} {p : Nat} (h : AllDisc st.peers p) (p' : Nat) (pick : Nat) :
    AllDisc (donePeer cfg st p' pick).1.peers p ∧ NoGhTo (donePeer cfg st p' pick).2 p := by
  unfold donePeer
  split
  · exact ⟨h, NoGhTo.nil p⟩
  · rename_i q hq
    split
    · exact ⟨h, NoGhTo.nil p⟩
    · simp only []
      have h' : AllDisc (update st.peers { q with inMap := false, disc := true }) p := h.update (fun _ => rfl)
      split
      · exact updateSyncPeer_pres cfg (st := { st with peers := _ }) h' pick
      · exact ⟨h', NoGhTo.nil p⟩

theorem handleHeadersCore_pres (cfg : Cfg H) {st : State H} {p : Nat} (h : AllDisc st.peers p) (p' : Nat) (hs : List (Src H)) :
    AllDisc (handleHeadersCore cfg st p' hs).1.peers p ∧ NoGhTo (handleHeadersCore cfg st p' hs).2 p := by
  unfold handleHeadersCore
  split
  · exact ⟨h, NoGhTo.nil p⟩
  · split
    · exact ⟨h, NoGhTo.nil p⟩
    · split
      · exact disconnectPeer_pres h p'
      · split
        · exact ⟨h, NoGhTo.nil p⟩
        · simp only []
          split
          · have := disconnectPeer_pres h p'
            exact ⟨this.1, this.2.cons_ban⟩
          · exact disconnectPeer_pres h p'
          · split
            · exact ⟨h, NoGhTo.nil p⟩
            · split
              · split
                · exact ⟨h, NoGhTo.panic p⟩
                · split
                  · (refine pushTo_pres _ ?_ p' _ _; exact h)
                  · (refine pushTo_pres _ ?_ p' _ _; exact h)
              · split
                · (refine pushTo_pres _ ?_ p' _ _; exact h)
                · (refine pushTo_pres _ ?_ p' _ _; exact h)


/-! ### the inHandler's part of a headers message (F4b switch) -/

theorem headersSeen_id (q : PeerSt H) : (headersSeen q).id = q.id := by unfold headersSeen; split <;> rfl
theorem headersSeen_inMap (q : PeerSt H) : (headersSeen q).inMap = q.inMap := by unfold headersSeen; split <;> rfl
theorem headersSeen_disc (q : PeerSt H) : (headersSeen q).disc = q.disc := by unfold headersSeen; split <;> rfl

/-- the filter afterwards holds what it held, or nothing -/
theorem headersSeen_prevBegin (q : PeerSt H) : (headersSeen q).prevBegin = q.prevBegin ∨ (headersSeen q).prevBegin = none := by
  unfold headersSeen; split
  · exact Or.inr rfl
  · exact Or.inl rfl

theorem headersSeen_asked (q : PeerSt H) (b : Option H) (s : Option H) :
    ({ headersSeen q with prevBegin := b, prevStop := s } : PeerSt H) = { q with prevBegin := b, prevStop := s } := by
  unfold headersSeen; split <;> rfl

theorem AllDisc.onHeadersReceived {ps : List (PeerSt H)} {p : Nat} (h : AllDisc ps p) (p' : Nat) :
    AllDisc (onHeadersReceived ps p') p := by
  intro r hr hid
  unfold Sync.onHeadersReceived at hr
  obtain ⟨a, ha, e⟩ := List.mem_map.1 hr
  by_cases c : (a.id == p') = true
  · rw [if_pos c] at e
    rw [← e, headersSeen_disc]
    rw [← e, headersSeen_id] at hid
    exact h a ha hid
  · rw [if_neg c] at e; rw [← e] at hid ⊢; exact h a ha hid

theorem lookup_onHeadersReceived {ps : List (PeerSt H)} {p : Nat} {q : PeerSt H} (h : lookup ps p = some q) :
    lookup (onHeadersReceived ps p) p = some (headersSeen q) := by
  unfold lookup at h ⊢
  unfold onHeadersReceived
  induction ps with
  | nil => simp at h
  | cons a rest ih =>
    rw [List.map_cons, List.find?_cons]
    rw [List.find?_cons] at h
    cases hc : (a.id == p) with
    | true =>
      rw [hc] at h
      simp only [Option.some.injEq] at h
      subst h
      have : ((headersSeen a).id == p) = true := by rw [headersSeen_id]; exact hc
      simp only [if_true, this]
    | false =>
      rw [hc] at h
      simp only [] at h
      simp only [Bool.false_eq_true, if_false, hc]
      exact ih h

theorem lookup_onHeadersReceived_none {ps : List (PeerSt H)} {p : Nat} (h : lookup ps p = none) :
    lookup (onHeadersReceived ps p) p = none := by
  unfold lookup at h ⊢
  unfold onHeadersReceived
  rw [List.find?_eq_none] at h ⊢
  intro r hr
  obtain ⟨a, ha, e⟩ := List.mem_map.1 hr
  have hne := h a ha
  by_cases c : (a.id == p) = true
  · exact absurd c hne
  · rw [if_neg c] at e; rw [← e]; exact hne

/-- replacing the entries of id p afterwards makes the inHandler's change invisible -/
theorem update_onHeadersReceived (ps : List (PeerSt H)) (p : Nat) (q' : PeerSt H) (hid : q'.id = p) :
    update (onHeadersReceived ps p) q' = update ps q' := by
  unfold update onHeadersReceived
  rw [List.map_map]
  apply List.map_congr_left
  intro a _
  simp only [Function.comp]
  by_cases c : (a.id == p) = true
  · have h1 : ((headersSeen a).id == q'.id) = true := by rw [headersSeen_id, hid]; exact c
    have h2 : (a.id == q'.id) = true := by rw [hid]; exact c
    simp only [c, if_true, h1, h2]
  · simp only [c, Bool.false_eq_true, if_false]

theorem handleHeaders_pres (cfg : Cfg H) {st : State H} {p : Nat} (h : AllDisc st.peers p) (p' : Nat) (hs : List (Src H)) :
    AllDisc (handleHeaders cfg st p' hs).1.peers p ∧ NoGhTo (handleHeaders cfg st p' hs).2 p := by
  unfold handleHeaders
  exact handleHeadersCore_pres cfg (st := { st with peers := onHeadersReceived st.peers p' }) (h.onHeadersReceived p') p' hs

theorem handleInv_pres (cfg : Cfg H) {st : State H} {p : Nat} (h : AllDisc st.peers p) (p' : Nat) (invs : List (Bool × H)) :
    AllDisc (handleInv cfg st p' invs).1.peers p ∧ NoGhTo (handleInv cfg st p' invs).2 p := by
  unfold handleInv
  split
  · exact ⟨h, NoGhTo.panic p⟩
  · split
    · exact ⟨h, NoGhTo.nil p⟩
    · rename_i q hq
      obtain ⟨hm, _⟩ := lookup_mem hq
      split
      · exact ⟨h, NoGhTo.nil p⟩
      · simp only []
        split
        · split
          · exact ⟨h, NoGhTo.panic p⟩
          · split
            · exact ⟨h, NoGhTo.nil p⟩
            · split
              · exact ⟨h, NoGhTo.nil p⟩
              · split
                · split
                  · exact ⟨h.update (fun hid => h q hm hid), NoGhTo.nil p⟩
                  · exact pushTo_pres st h p' _ _
                · exact pushTo_pres st h p' _ _
        · exact ⟨h, NoGhTo.nil p⟩

theorem tick_pres (cfg : Cfg H) {st : State H} {p : Nat} (h : AllDisc st.peers p) (stale : Bool) (pick : Nat) :
    AllDisc (tick cfg st stale pick).1.peers p ∧ NoGhTo (tick cfg st stale pick).2 p := by
  unfold tick
  split
  · exact ⟨h, NoGhTo.nil p⟩
  · split
    · exact ⟨h, NoGhTo.nil p⟩
    · split
      · split
        · exact ⟨h, NoGhTo.nil p⟩
        · split
          · exact ⟨h, NoGhTo.nil p⟩
          · exact updateSyncPeer_pres cfg h pick
      · exact ⟨h, NoGhTo.panic p⟩

/-- the event does not announce a NEW peer object under the id p -/
def NotNewPeer (p : Nat) : Event H → Prop
  | .newPeer p' _ _ => p' ≠ p
  | _ => True

theorem step_pres (cfg : Cfg H) {st : State H} {p : Nat} (h : AllDisc st.peers p) (pick : Nat) (ev : Event H)
    (hev : NotNewPeer p ev) :
    AllDisc (step cfg st pick ev).1.peers p ∧ NoGhTo (step cfg st pick ev).2 p := by
  cases ev with
  | newPeer p' c lb => exact newPeer_pres cfg h p' hev c lb pick
  | headers p' hs => exact handleHeaders_pres cfg h p' hs
  | inv p' invs => exact handleInv_pres cfg h p' invs
  | donePeer p' => exact donePeer_pres cfg h p' pick
  | tick stale => exact tick_pres cfg h stale pick

/-- a run of the state machine: events with their random picks -/
def runEvents (cfg : Cfg H) : State H → List (Nat × Event H) → State H × List (Action H)
  | st, [] => (st, [])
  | st, (pick, ev) :: rest =>
    let r := step cfg st pick ev
    let r' := runEvents cfg r.1 rest
    (r'.1, r.2 ++ r'.2)

theorem runEvents_pres (cfg : Cfg H) (p : Nat) : ∀ (evs : List (Nat × Event H)) (st : State H), AllDisc st.peers p →
    (∀ e ∈ evs, NotNewPeer p e.2) →
    AllDisc (runEvents cfg st evs).1.peers p ∧ NoGhTo (runEvents cfg st evs).2 p := by
  intro evs
  induction evs with
  | nil => intro st h _; exact ⟨h, NoGhTo.nil p⟩
  | cons e rest ih =>
    intro st h hev
    obtain ⟨pick, ev⟩ := e
    have h1 := step_pres cfg h pick ev (hev (pick, ev) List.mem_cons_self)
    have h2 := ih (step cfg st pick ev).1 h1.1 (fun e he => hev e (List.mem_cons_of_mem _ he))
    exact ⟨h2.1, h1.2.append h2.2⟩

end BHS.Sync
