/-
Helper lemmas for the Auth model (C09, C10): `strings.Split` on one space,
the exact set of headers `parseAuthHeader` accepts, token-table statements.
Core Lean only.
-/
import BHS.Model.Auth

namespace BHS.Proofs.Auth
open BHS.Model.Auth

/-! ### split -/

/-- inverse of `split`: parts joined with single spaces -/
def joinSp : List Char → List (List Char) → List Char
  | p, [] => p
  | p, q :: qs => p ++ ' ' :: joinSp q qs

theorem splitSp_nospace (s : List Char) (h : ' ' ∉ s) : splitSp s = (s, []) := by
  induction s with
  | nil => rfl
  | cons c cs ih =>
    have hc : c ≠ ' ' := fun e => h (by simp [e])
    have hcs : ' ' ∉ cs := fun e => h (by simp [e])
    simp [splitSp, ih hcs, hc]

theorem splitSp_append (a rest : List Char) (h : ' ' ∉ a) :
    splitSp (a ++ ' ' :: rest) = (a, split rest) := by
  induction a with
  | nil => simp [splitSp, split]
  | cons c cs ih =>
    have hc : c ≠ ' ' := fun e => h (by simp [e])
    have hcs : ' ' ∉ cs := fun e => h (by simp [e])
    simp [splitSp, ih hcs, hc]

/-- every part is space-free and the parts joined by single spaces give the input back -/
theorem splitSp_spec (s : List Char) :
    s = joinSp (splitSp s).1 (splitSp s).2 ∧ ' ' ∉ (splitSp s).1 ∧ ∀ q ∈ (splitSp s).2, ' ' ∉ q := by
  induction s with
  | nil => simp [splitSp, joinSp]
  | cons c cs ih =>
    obtain ⟨h1, h2, h3⟩ := ih
    by_cases hc : c = ' '
    · subst hc
      refine ⟨?_, ?_, ?_⟩
      · simp only [splitSp, if_true, joinSp, List.nil_append]; rw [← h1]
      · simp [splitSp]
      · intro q hq
        simp only [splitSp, if_true, List.mem_cons] at hq
        rcases hq with rfl | hq
        · exact h2
        · exact h3 q hq
    · refine ⟨?_, ?_, ?_⟩
      · simp only [splitSp, if_neg hc]
        cases hps : (splitSp cs).2 with
        | nil => rw [hps] at h1; simp only [joinSp] at h1 ⊢; rw [← h1]
        | cons q qs => rw [hps] at h1; simp only [joinSp, List.cons_append] at h1 ⊢; rw [← h1]
      · simp only [splitSp, if_neg hc, List.mem_cons, not_or]
        exact ⟨fun e => hc e.symm, h2⟩
      · simpa only [splitSp, if_neg hc] using h3

/-- `strings.Split(s," ")` has exactly two parts `a`,`b` iff `s = a ++ " " ++ b` with both parts space-free -/
theorem split_two (s a b : List Char) :
    split s = [a, b] ↔ s = a ++ ' ' :: b ∧ ' ' ∉ a ∧ ' ' ∉ b := by
  constructor
  · intro h
    obtain ⟨h1, h2, h3⟩ := splitSp_spec s
    simp only [split, List.cons.injEq] at h
    obtain ⟨ha, hb⟩ := h
    rw [ha, hb] at h1
    rw [ha] at h2
    rw [hb] at h3
    exact ⟨by simpa [joinSp] using h1, h2, h3 b (by simp)⟩
  · rintro ⟨rfl, ha, hb⟩
    simp [split, splitSp_append a b ha, splitSp_nospace b hb]

/-! ### the header parser -/

/-- the parser accepts exactly `"Bearer " ++ t` for space-free `t`, and returns that `t` -/
theorem parse_token_iff (h t : String) :
    parseAuthHeader h = .token t ↔ h = bearer t ∧ ' ' ∉ t.toList := by
  unfold parseAuthHeader
  constructor
  · intro hp
    split at hp
    · cases hp
    · split at hp
      · rename_i a b hs
        split at hp
        · rename_i ha
          injection hp with hp
          subst hp
          obtain ⟨e, _, hb⟩ := (split_two _ _ _).1 hs
          subst ha
          refine ⟨?_, by simpa using hb⟩
          apply String.toList_inj.1
          rw [e]; simp [bearer, String.toList_append]
        · cases hp
      · cases hp
  · rintro ⟨rfl, ht⟩
    have hne : bearer t ≠ "" := by
      intro e
      have := congrArg String.toList e
      simp [bearer, String.toList_append] at this
    rw [if_neg hne]
    have hs : split (bearer t).toList = ["Bearer".toList, t.toList] := by
      rw [split_two]
      refine ⟨by simp [bearer, String.toList_append], by decide, ht⟩
    rw [hs]
    simp [String.ofList_toList]

theorem parse_missing_iff (h : String) : parseAuthHeader h = .missing ↔ h = "" := by
  unfold parseAuthHeader
  constructor
  · intro hp
    split at hp
    · assumption
    · split at hp
      · split at hp <;> cases hp
      · cases hp
  · rintro rfl; simp

/-! ### token table -/

theorem mem_insertTok (st : Store) (t u : String) : u ∈ insertTok st t ↔ u ∈ st ∨ u = t := by
  unfold insertTok
  split
  · rename_i h
    constructor
    · exact Or.inl
    · rintro (h' | rfl)
      · exact h'
      · exact h
  · simp

theorem mem_deleteTok (st : Store) (t u : String) : u ∈ deleteTok st t ↔ u ∈ st ∧ u ≠ t := by
  simp [deleteTok]

theorem deleteTok_absent (st : Store) (t : String) (h : t ∉ st) : deleteTok st t = st := by
  unfold deleteTok
  apply List.filter_eq_self.2
  intro x hx
  simp only [ne_eq, decide_not, Bool.not_eq_eq_eq_not, Bool.not_true, decide_eq_false_iff_not]
  rintro rfl
  exact h hx

theorem insertTok_present (st : Store) (t : String) (h : t ∈ st) : insertTok st t = st := by
  simp [insertTok, h]

theorem nodup_insertTok (st : Store) (t : String) (h : st.Nodup) : (insertTok st t).Nodup := by
  unfold insertTok
  split
  · exact h
  · rename_i hn
    rw [List.nodup_append]
    refine ⟨h, by simp, ?_⟩
    intro a ha b hb
    simp only [List.mem_singleton] at hb
    subst hb
    rintro rfl
    exact hn ha

theorem nodup_deleteTok (st : Store) (t : String) (h : st.Nodup) : (deleteTok st t).Nodup :=
  List.Nodup.sublist List.filter_sublist h

/-- `getToken` succeeds exactly on the admin token and the stored tokens -/
theorem getToken_isSome (admin : String) (st : Store) (t : String) :
    (getToken admin st t).isSome = true ↔ t = admin ∨ t ∈ st := by
  unfold getToken
  split
  · simp_all
  · split <;> simp_all

theorem getToken_admin (admin : String) (st : Store) (t : String) :
    getToken admin st t = some true ↔ t = admin := by
  unfold getToken
  split
  · simp_all
  · split <;> simp_all

theorem getToken_user (admin : String) (st : Store) (t : String) :
    getToken admin st t = some false ↔ t ≠ admin ∧ t ∈ st := by
  unfold getToken
  split
  · simp_all
  · split <;> simp_all

theorem getToken_none (admin : String) (st : Store) (t : String) :
    getToken admin st t = none ↔ t ≠ admin ∧ t ∉ st := by
  unfold getToken
  split
  · simp_all
  · split <;> simp_all

/-! ### middleware and RequireAdmin -/

theorem middleware_off (env : Env) (st : Store) (hdr : String) (hu : env.useAuth = false) :
    middleware env st hdr = .next none := by
  simp [middleware, hu]

/-- with auth on, the middleware lets a request through with context token `a` exactly when the
    header is `Bearer t`, `t` space-free, and `GetToken t` gives `a` -/
theorem middleware_next_iff (env : Env) (st : Store) (hdr : String) (hu : env.useAuth = true) (c : Option Bool) :
    middleware env st hdr = .next c ↔
      ∃ t a, c = some a ∧ hdr = bearer t ∧ ' ' ∉ t.toList ∧ getToken env.admin st t = some a := by
  unfold middleware
  rw [if_pos hu]
  cases hp : parseAuthHeader hdr with
  | missing =>
    simp only [reduceCtorEq, false_iff, not_exists]
    rintro t a ⟨_, h, hs, _⟩
    have := (parse_token_iff hdr t).2 ⟨h, hs⟩
    rw [hp] at this; cases this
  | invalid =>
    simp only [reduceCtorEq, false_iff, not_exists]
    rintro t a ⟨_, h, hs, _⟩
    have := (parse_token_iff hdr t).2 ⟨h, hs⟩
    rw [hp] at this; cases this
  | token t =>
    obtain ⟨hh, hs⟩ := (parse_token_iff hdr t).1 hp
    dsimp only
    cases hg : getToken env.admin st t with
    | none =>
      dsimp only
      simp only [reduceCtorEq, false_iff, not_exists]
      rintro t' a ⟨_, h, hs', hg'⟩
      have := (parse_token_iff hdr t').2 ⟨h, hs'⟩
      rw [hp] at this
      injection this with this
      subst this
      rw [hg] at hg'; cases hg'
    | some a =>
      dsimp only
      constructor
      · intro h
        injection h with h
        exact ⟨t, a, h.symm, hh, hs, hg⟩
      · rintro ⟨t', a', rfl, h, hs', hg'⟩
        have := (parse_token_iff hdr t').2 ⟨h, hs'⟩
        rw [hp] at this
        injection this with this
        subst this
        rw [hg] at hg'
        injection hg' with hg'
        rw [hg']

theorem middleware_cases (env : Env) (st : Store) (hdr : String) :
    (∃ why, middleware env st hdr = .abort why) ∨ (∃ c, middleware env st hdr = .next c) := by
  cases h : middleware env st hdr with
  | abort w => exact Or.inl ⟨w, rfl⟩
  | next c => exact Or.inr ⟨c, rfl⟩

/-- with auth on, the middleware aborts (always with a 401) exactly when the header is not a valid credential -/
theorem middleware_abort_iff (env : Env) (st : Store) (hdr : String) (hu : env.useAuth = true) :
    (∃ why, middleware env st hdr = .abort why) ↔ ¬ validCred env st hdr := by
  constructor
  · rintro ⟨why, hw⟩ ⟨t, h, hs, hv⟩
    have hsome : (getToken env.admin st t).isSome = true := (getToken_isSome _ _ _).2 hv
    cases hg : getToken env.admin st t with
    | none => rw [hg] at hsome; cases hsome
    | some a =>
      have := (middleware_next_iff env st hdr hu (some a)).2 ⟨t, a, rfl, h, hs, hg⟩
      rw [hw] at this; cases this
  · intro hn
    rcases middleware_cases env st hdr with h | ⟨c, hc⟩
    · exact h
    · exfalso
      obtain ⟨t, a, _, h, hs, hg⟩ := (middleware_next_iff env st hdr hu c).1 hc
      apply hn
      refine ⟨t, h, hs, (getToken_isSome _ _ _).1 ?_⟩
      rw [hg]; rfl

/-- RequireAdmin routes: the request gets through iff authentication is off or the header is the
    admin credential — whatever the tokens table holds -/
theorem authorize_admin_iff (env : Env) (st : Store) (hdr : String) :
    (∃ c, authorize env st true hdr = .pass c) ↔ (env.useAuth = false ∨ adminCred env hdr) := by
  cases hu : env.useAuth with
  | false => simp [authorize, middleware_off env st hdr hu, hu, requireAdmin]
  | true =>
    simp only [reduceCtorEq, false_or]
    constructor
    · rintro ⟨c, hc⟩
      unfold authorize at hc
      cases hm : middleware env st hdr with
      | abort w => rw [hm] at hc; cases hc
      | next c' =>
        rw [hm] at hc
        obtain ⟨t, a, rfl, h, hs, hg⟩ := (middleware_next_iff env st hdr hu c').1 hm
        cases a with
        | true =>
          have := (getToken_admin _ _ _).1 hg
          subst this
          exact ⟨h, hs⟩
        | false => simp [hu, requireAdmin] at hc
    · rintro ⟨h, hs⟩
      have hg : getToken env.admin st env.admin = some true := (getToken_admin _ _ _).2 rfl
      have := (middleware_next_iff env st hdr hu (some true)).2 ⟨env.admin, _, rfl, h, hs, hg⟩
      exact ⟨some true, by simp [authorize, this, hu, requireAdmin]⟩

theorem authorize_cases (env : Env) (st : Store) (a : Bool) (hdr : String) :
    (∃ c, authorize env st a hdr = .pass c) ∨ (∃ w, authorize env st a hdr = .unauthorized401 w) := by
  cases h : authorize env st a hdr with
  | pass c => exact Or.inl ⟨c, rfl⟩
  | unauthorized401 w => exact Or.inr ⟨w, rfl⟩

theorem adminPass_iff (env : Env) (hdr : String) :
    adminPass env hdr = true ↔ (env.useAuth = false ∨ adminCred env hdr) := by
  rw [← authorize_admin_iff env [] hdr]
  unfold adminPass
  cases authorize env [] true hdr <;> simp

/-- `adminPass` decides the RequireAdmin outcome for every table -/
theorem authorize_admin_pass (env : Env) (st : Store) (hdr : String) :
    (∃ c, authorize env st true hdr = .pass c) ↔ adminPass env hdr = true := by
  rw [adminPass_iff, authorize_admin_iff]

/-- exact effect of one operation on the tokens table -/
theorem mem_step (s : Sys) (op : Op) (u : String) :
    u ∈ (step s op).store ↔
      match op with
      | .create hdr t => u ∈ s.store ∨ (adminPass s.env hdr = true ∧ u = t)
      | .revoke hdr t => u ∈ s.store ∧ ¬ (adminPass s.env hdr = true ∧ u = t)
      | _ => u ∈ s.store := by
  cases op with
  | create hdr t =>
    simp only [step]
    rcases authorize_cases s.env s.store true hdr with ⟨c, hc⟩ | ⟨w, hw⟩
    · have hp := (authorize_admin_pass s.env s.store hdr).1 ⟨c, hc⟩
      rw [hc]; simp [mem_insertTok, hp]
    · have hp : ¬ adminPass s.env hdr = true := fun h => by
        obtain ⟨c, hc⟩ := (authorize_admin_pass s.env s.store hdr).2 h
        rw [hw] at hc; cases hc
      rw [hw]; simp [hp]
  | revoke hdr t =>
    simp only [step]
    rcases authorize_cases s.env s.store true hdr with ⟨c, hc⟩ | ⟨w, hw⟩
    · have hp := (authorize_admin_pass s.env s.store hdr).1 ⟨c, hc⟩
      rw [hc]; simp [mem_deleteTok, hp]
    · have hp : ¬ adminPass s.env hdr = true := fun h => by
        obtain ⟨c, hc⟩ := (authorize_admin_pass s.env s.store hdr).2 h
        rw [hw] at hc; cases hc
      rw [hw]; simp [hp]
  | auth h => simp [step]
  | ws t => simp [step]
  | restart => simp [step, restart]

theorem env_step (s : Sys) (op : Op) : (step s op).env = s.env := by
  cases op <;> simp only [step, restart]
  all_goals (split <;> rfl)

theorem env_run (s : Sys) (ops : List Op) : (run s ops).env = s.env := by
  induction ops generalizing s with
  | nil => rfl
  | cons o os ih => simp only [run, List.foldl_cons] at ih ⊢; rw [ih, env_step]

theorem run_append (s : Sys) (a b : List Op) : run s (a ++ b) = run (run s a) b := by
  simp [run, List.foldl_append]

theorem run_cons (s : Sys) (o : Op) (os : List Op) : run s (o :: os) = run (step s o) os := rfl

end BHS.Proofs.Auth
