/-
Inversion lemmas for the wire model (C14): when a reader succeeds, the bytes it consumed are
exactly the canonical encoding of the value it returned (so re-encoding reproduces them).
Core Lean only.
-/
import BHS.Proofs.Wire

namespace BHS.Wire
open BHS.Gen BHS.Gen.WireC

theorem ofNat_toNat_add (a : UInt8) (k : Nat) : UInt8.ofNat (a.toNat + 2^8 * k) = a := by
  apply UInt8.toNat.inj
  simp only [UInt8.toNat_ofNat']
  have := a.toNat_lt
  omega

theorem get8_inv {bs r : Bytes} {n : Nat} (h : (get8 bs).2 = .ok (n, r)) : bs = put8 n ++ r ∧ n < 2^8 := by
  unfold get8 at h
  split at h
  · rename_i x r'
    simp only [Except.ok.injEq, Prod.mk.injEq] at h
    obtain ⟨h1, h2⟩ := h
    subst h1 h2
    refine ⟨?_, x.toNat_lt⟩
    simp only [put8, UInt8.ofNat_toNat, List.cons_append, List.nil_append]
  · simp at h

theorem get16le_inv {bs r : Bytes} {n : Nat} (h : (get16le bs).2 = .ok (n, r)) : bs = put16le n ++ r ∧ n < 2^16 := by
  unfold get16le at h
  split at h
  · rename_i x0 x1 r'
    simp only [Except.ok.injEq, Prod.mk.injEq] at h
    obtain ⟨h1, h2⟩ := h
    subst h1 h2
    have b0 := x0.toNat_lt; have b1 := x1.toNat_lt
    refine ⟨?_, by omega⟩
    simp only [put16le, List.cons_append, List.nil_append]
    congr 1
    · exact (ofNat_toNat_add x0 _).symm
    · congr 1
      have : (x0.toNat + 2^8 * x1.toNat) / 2^8 = x1.toNat + 2^8 * 0 := by omega
      rw [this]; exact (ofNat_toNat_add x1 0).symm
  · simp at h

theorem get16be_inv {bs r : Bytes} {n : Nat} (h : (get16be bs).2 = .ok (n, r)) : bs = put16be n ++ r ∧ n < 2^16 := by
  unfold get16be at h
  split at h
  · rename_i x1 x0 r'
    simp only [Except.ok.injEq, Prod.mk.injEq] at h
    obtain ⟨h1, h2⟩ := h
    subst h1 h2
    have b0 := x0.toNat_lt; have b1 := x1.toNat_lt
    refine ⟨?_, by omega⟩
    simp only [put16be, List.cons_append, List.nil_append]
    congr 1
    · have : (x0.toNat + 2^8 * x1.toNat) / 2^8 = x1.toNat + 2^8 * 0 := by omega
      rw [this]; exact (ofNat_toNat_add x1 0).symm
    · congr 1
      exact (ofNat_toNat_add x0 _).symm
  · simp at h

theorem get32le_inv {bs r : Bytes} {n : Nat} (h : (get32le bs).2 = .ok (n, r)) : bs = put32le n ++ r ∧ n < 2^32 := by
  unfold get32le at h
  split at h
  · rename_i x0 x1 x2 x3 r'
    simp only [Except.ok.injEq, Prod.mk.injEq] at h
    obtain ⟨h1, h2⟩ := h
    subst h1 h2
    have b0 := x0.toNat_lt; have b1 := x1.toNat_lt; have b2 := x2.toNat_lt; have b3 := x3.toNat_lt
    refine ⟨?_, by omega⟩
    simp only [put32le, List.cons_append, List.nil_append]
    have e0 : x0.toNat + 2^8 * x1.toNat + 2^16 * x2.toNat + 2^24 * x3.toNat = x0.toNat + 2^8 * (x1.toNat + 2^8 * x2.toNat + 2^16 * x3.toNat) := by omega
    have e1 : (x0.toNat + 2^8 * x1.toNat + 2^16 * x2.toNat + 2^24 * x3.toNat) / 2^8 = x1.toNat + 2^8 * (x2.toNat + 2^8 * x3.toNat) := by omega
    have e2 : (x0.toNat + 2^8 * x1.toNat + 2^16 * x2.toNat + 2^24 * x3.toNat) / 2^16 = x2.toNat + 2^8 * x3.toNat := by omega
    have e3 : (x0.toNat + 2^8 * x1.toNat + 2^16 * x2.toNat + 2^24 * x3.toNat) / 2^24 = x3.toNat + 2^8 * 0 := by omega
    rw [e1, e2, e3, e0, ofNat_toNat_add, ofNat_toNat_add, ofNat_toNat_add, ofNat_toNat_add]
  · simp at h

theorem get64le_inv {bs r : Bytes} {n : Nat} (h : (get64le bs).2 = .ok (n, r)) : bs = put64le n ++ r ∧ n < 2^64 := by
  unfold get64le at h
  split at h
  · rename_i x0 x1 x2 x3 x4 x5 x6 x7 r'
    simp only [Except.ok.injEq, Prod.mk.injEq] at h
    obtain ⟨h1, h2⟩ := h
    subst h1 h2
    have b0 := x0.toNat_lt; have b1 := x1.toNat_lt; have b2 := x2.toNat_lt; have b3 := x3.toNat_lt
    have b4 := x4.toNat_lt; have b5 := x5.toNat_lt; have b6 := x6.toNat_lt; have b7 := x7.toNat_lt
    refine ⟨?_, by omega⟩
    simp only [put64le, List.cons_append, List.nil_append]
    generalize hN : x0.toNat + 2^8 * x1.toNat + 2^16 * x2.toNat + 2^24 * x3.toNat +
              2^32 * x4.toNat + 2^40 * x5.toNat + 2^48 * x6.toNat + 2^56 * x7.toNat = N
    have e0 : N = x0.toNat + 2^8 * (N / 2^8) := by omega
    have e1 : N / 2^8 = x1.toNat + 2^8 * (N / 2^16) := by omega
    have e2 : N / 2^16 = x2.toNat + 2^8 * (N / 2^24) := by omega
    have e3 : N / 2^24 = x3.toNat + 2^8 * (N / 2^32) := by omega
    have e4 : N / 2^32 = x4.toNat + 2^8 * (N / 2^40) := by omega
    have e5 : N / 2^40 = x5.toNat + 2^8 * (N / 2^48) := by omega
    have e6 : N / 2^48 = x6.toNat + 2^8 * (N / 2^56) := by omega
    have e7 : N / 2^56 = x7.toNat + 2^8 * 0 := by omega
    have f0 := ofNat_toNat_add x0 (N / 2^8); rw [← e0] at f0
    have f1 := ofNat_toNat_add x1 (N / 2^16); rw [← e1] at f1
    have f2 := ofNat_toNat_add x2 (N / 2^24); rw [← e2] at f2
    have f3 := ofNat_toNat_add x3 (N / 2^32); rw [← e3] at f3
    have f4 := ofNat_toNat_add x4 (N / 2^40); rw [← e4] at f4
    have f5 := ofNat_toNat_add x5 (N / 2^48); rw [← e5] at f5
    have f6 := ofNat_toNat_add x6 (N / 2^56); rw [← e6] at f6
    have f7 := ofNat_toNat_add x7 0; rw [← e7] at f7
    rw [f0, f1, f2, f3, f4, f5, f6, f7]
  · simp at h

theorem getBytes_inv {bs r x : Bytes} {n : Nat} (h : (getBytes n bs).2 = .ok (x, r)) : bs = x ++ r ∧ x.length = n := by
  unfold getBytes at h
  split at h
  · rename_i hn
    simp only [Except.ok.injEq, Prod.mk.injEq] at h
    obtain ⟨h1, h2⟩ := h
    subst h1 h2
    exact ⟨(List.take_append_drop n bs).symm, by simp; omega⟩
  · simp at h

theorem pure_inv {a c : α} {b r : Bytes} (h : ((pure a : Rd α) b).2 = .ok (c, r)) : c = a ∧ r = b := by
  simp only [pure_snd, Except.ok.injEq, Prod.mk.injEq] at h
  exact ⟨h.1.symm, h.2.symm⟩

theorem fail_inv {e : Err} {c : α} {b r : Bytes} (h : ((Rd.fail e : Rd α) b).2 = .ok (c, r)) : False := by
  simp [fail_snd] at h

/-- ReadVarInt accepts only the canonical encoding of the value it returns -/
theorem getVarInt_inv {bs r : Bytes} {n : Nat} (h : (getVarInt bs).2 = .ok (n, r)) :
    bs = putVarInt n ++ r ∧ n < 2^64 := by
  unfold getVarInt at h
  obtain ⟨d, b1, h1, h2⟩ := bind_snd_inv h
  obtain ⟨e1, hd⟩ := get8_inv h1
  subst e1
  split at h2
  · rename_i hd1
    obtain ⟨v, b2, h3, h4⟩ := bind_snd_inv h2
    obtain ⟨e2, hv⟩ := get64le_inv h3
    split at h4
    · exact (fail_inv h4).elim
    · rename_i hv2
      obtain ⟨e3, e4⟩ := pure_inv h4
      subst e2 e3 e4 hd1
      refine ⟨?_, hv⟩
      unfold putVarInt
      rw [if_neg (by omega), if_neg (by omega), if_neg (by omega)]
      rfl
  · split at h2
    · rename_i _ hd1
      obtain ⟨v, b2, h3, h4⟩ := bind_snd_inv h2
      obtain ⟨e2, hv⟩ := get32le_inv h3
      split at h4
      · exact (fail_inv h4).elim
      · rename_i hv2
        obtain ⟨e3, e4⟩ := pure_inv h4
        subst e2 e3 e4 hd1
        refine ⟨?_, by omega⟩
        unfold putVarInt
        rw [if_neg (by omega), if_neg (by omega), if_pos (by omega)]
        rfl
    · split at h2
      · rename_i _ _ hd1
        obtain ⟨v, b2, h3, h4⟩ := bind_snd_inv h2
        obtain ⟨e2, hv⟩ := get16le_inv h3
        split at h4
        · exact (fail_inv h4).elim
        · rename_i hv2
          obtain ⟨e3, e4⟩ := pure_inv h4
          subst e2 e3 e4 hd1
          refine ⟨?_, by omega⟩
          unfold putVarInt
          rw [if_neg (by omega), if_pos (by omega)]
          rfl
      · rename_i g1 g2 g3
        obtain ⟨e3, e4⟩ := pure_inv h2
        subst e3 e4
        refine ⟨?_, by omega⟩
        unfold putVarInt
        rw [if_pos (by omega)]

theorem guardAlloc_inv {n max unit : Nat} {e : Err} {b r : Bytes} {u : Unit}
    (h : (guardAlloc n max unit e b).2 = .ok (u, r)) : n ≤ max ∧ r = b := by
  unfold guardAlloc at h
  split at h
  · exact (fail_inv h).elim
  · rename_i hn
    simp only [alloc_apply, Except.ok.injEq, Prod.mk.injEq] at h
    exact ⟨by omega, h.2.symm⟩

theorem getVarBytes_inv {max : Nat} {bs r s : Bytes} (h : (getVarBytes max bs).2 = .ok (s, r)) :
    bs = putVarBytes s ++ r ∧ s.length ≤ max ∧ s.length < 2^64 := by
  unfold getVarBytes at h
  obtain ⟨n, b1, h1, h2⟩ := bind_snd_inv h
  obtain ⟨e1, hn⟩ := getVarInt_inv h1
  obtain ⟨u, b2, h3, h4⟩ := bind_snd_inv h2
  obtain ⟨hmax, e2⟩ := guardAlloc_inv h3
  obtain ⟨e3, hl⟩ := getBytes_inv h4
  subst e1 e2 e3
  unfold putVarBytes
  rw [hl]
  exact ⟨by simp, by omega, by omega⟩

theorem getMany_inv {g : Rd α} {p : α → Bytes} {P : α → Prop}
    (hg : ∀ b x r, (g b).2 = .ok (x, r) → b = p x ++ r ∧ P x) :
    ∀ (n : Nat) (bs : Bytes) (xs : List α) (r : Bytes), (getMany g n bs).2 = .ok (xs, r) →
      bs = xs.flatMap p ++ r ∧ xs.length = n ∧ ∀ x ∈ xs, P x := by
  intro n
  induction n with
  | zero =>
    intro bs xs r h
    obtain ⟨e1, e2⟩ := pure_inv (a := ([] : List α)) h
    subst e1 e2
    exact ⟨rfl, rfl, by simp⟩
  | succ n ih =>
    intro bs xs r h
    unfold getMany at h
    obtain ⟨x, b1, h1, h2⟩ := bind_snd_inv h
    obtain ⟨ys, b2, h3, h4⟩ := bind_snd_inv h2
    obtain ⟨e1, e2⟩ := pure_inv h4
    obtain ⟨e3, hx⟩ := hg _ _ _ h1
    obtain ⟨e4, hl, hall⟩ := ih _ _ _ h3
    subst e1 e2 e3 e4
    refine ⟨by simp, by simp [hl], ?_⟩
    intro y hy
    rcases List.mem_cons.mp hy with rfl | hy
    · exact hx
    · exact hall y hy

/-! ## composite values -/

theorem getInvVect_inv (b : Bytes) (iv : InvVect) (r : Bytes) (h : (getInvVect b).2 = .ok (iv, r)) :
    b = putInvVect iv ++ r ∧ WFInv iv := by
  unfold getInvVect at h
  obtain ⟨t, b1, h1, h⟩ := bind_snd_inv h
  obtain ⟨hs, b2, h2, h⟩ := bind_snd_inv h
  obtain ⟨e1, k1⟩ := get32le_inv h1
  obtain ⟨e2, k2⟩ := getBytes_inv h2
  obtain ⟨e3, e4⟩ := pure_inv h
  subst e1 e2 e3 e4
  exact ⟨by simp [putInvVect], k1, k2⟩

theorem getHash_inv (b : Bytes) (x : Bytes) (r : Bytes) (h : (getHash b).2 = .ok (x, r)) :
    b = putHash x ++ r ∧ x.length = 32 := getBytes_inv h

theorem getBlockHeader_inv (b : Bytes) (x : BlockHeader) (r : Bytes) (h : (getBlockHeader b).2 = .ok (x, r)) :
    b = putBlockHeader x ++ r ∧ WFHeader x := by
  unfold getBlockHeader at h
  obtain ⟨v, b1, h1, h⟩ := bind_snd_inv h
  obtain ⟨p, b2, h2, h⟩ := bind_snd_inv h
  obtain ⟨m, b3, h3, h⟩ := bind_snd_inv h
  obtain ⟨t, b4, h4, h⟩ := bind_snd_inv h
  obtain ⟨bi, b5, h5, h⟩ := bind_snd_inv h
  obtain ⟨n, b6, h6, h⟩ := bind_snd_inv h
  obtain ⟨e1, k1⟩ := get32le_inv h1
  obtain ⟨e2, k2⟩ := getBytes_inv h2
  obtain ⟨e3, k3⟩ := getBytes_inv h3
  obtain ⟨e4, k4⟩ := get32le_inv h4
  obtain ⟨e5, k5⟩ := get32le_inv h5
  obtain ⟨e6, k6⟩ := get32le_inv h6
  obtain ⟨e7, e8⟩ := pure_inv h
  subst e1 e2 e3 e4 e5 e6 e7 e8
  exact ⟨by simp [putBlockHeader], k1, k2, k3, k4, k5, k6⟩

theorem getHeaderElem_inv (b : Bytes) (x : BlockHeader) (r : Bytes) (h : (getHeaderElem b).2 = .ok (x, r)) :
    b = putHeaderElem x ++ r ∧ WFHeader x := by
  unfold getHeaderElem at h
  obtain ⟨hd, b1, h1, h⟩ := bind_snd_inv h
  obtain ⟨tc, b2, h2, h⟩ := bind_snd_inv h
  obtain ⟨e1, k1⟩ := getBlockHeader_inv _ _ _ h1
  obtain ⟨e2, k2⟩ := getVarInt_inv h2
  split at h
  · exact (fail_inv h).elim
  · rename_i htc
    obtain ⟨e3, e4⟩ := pure_inv h
    have : tc = 0 := by omega
    subst e1 e2 e3 e4 this
    exact ⟨by simp [putHeaderElem], k1⟩

theorem getNetAddr_inv (pver : Nat) (ts : Bool) (b : Bytes) (na : NetAddr) (r : Bytes)
    (h : (getNetAddr pver ts b).2 = .ok (na, r)) :
    b = putNetAddr pver ts na ++ r ∧ WFNetAddr pver ts na := by
  unfold getNetAddr at h
  obtain ⟨t, b1, h1, h⟩ := bind_snd_inv h
  obtain ⟨sv, b2, h2, h⟩ := bind_snd_inv h
  obtain ⟨ip, b3, h3, h⟩ := bind_snd_inv h
  obtain ⟨port, b4, h4, h⟩ := bind_snd_inv h
  obtain ⟨e2, k2⟩ := get64le_inv h2
  obtain ⟨e3, k3⟩ := getBytes_inv h3
  obtain ⟨e4, k4⟩ := get16be_inv h4
  obtain ⟨e5, e6⟩ := pure_inv h
  subst e5 e6 e4 e3 e2
  unfold putNetAddr WFNetAddr
  simp only [ip16_of_len _ k3]
  cases hts : hasTs pver ts
  · rw [hts] at h1
    simp only [Bool.false_eq_true, if_false] at h1 ⊢
    obtain ⟨e7, e8⟩ := pure_inv h1
    subst e7 e8
    exact ⟨by simp, k2, k3, k4, rfl⟩
  · rw [hts] at h1
    simp only [if_true] at h1 ⊢
    obtain ⟨e1, k1⟩ := get32le_inv h1
    subst e1
    exact ⟨by simp, k2, k3, k4, k1⟩

/-! ## payload decoders -/

theorem decodePayload_inv {gmax pver t bs m} (h : decodePayload gmax pver t bs = .ok m) :
    ∃ rest, (decodeRd gmax pver t bs).2 = .ok (m, rest) := by
  unfold decodePayload at h
  split at h
  · rename_i m' r heq
    injection h with h; subst h
    exact ⟨r, heq⟩
  · simp at h

theorem decInvList_inv (bs : Bytes) (l : List InvVect) (r : Bytes) (h : (decInvList bs).2 = .ok (l, r)) :
    bs = putVarInt l.length ++ l.flatMap putInvVect ++ r ∧ WFInvList l := by
  unfold decInvList at h
  obtain ⟨n, b1, h1, h⟩ := bind_snd_inv h
  obtain ⟨u, b2, h2, h⟩ := bind_snd_inv h
  obtain ⟨e1, k1⟩ := getVarInt_inv h1
  obtain ⟨k2, e2⟩ := guardAlloc_inv h2
  obtain ⟨e3, hl, hall⟩ := getMany_inv (p := putInvVect) (P := WFInv) getInvVect_inv _ _ _ _ h
  subst e1 e2 e3 hl
  exact ⟨by simp, k2, hall⟩

theorem decLocator_inv (mk : Nat → List Bytes → Bytes → Msg) (bs : Bytes) (m : Msg) (r : Bytes)
    (h : (decLocator mk bs).2 = .ok (m, r)) :
    ∃ pv loc stop, m = mk pv loc stop ∧ bs = put32le pv ++ putVarInt loc.length ++ loc.flatMap putHash ++ putHash stop ++ r ∧
      WFLocator pv loc stop := by
  unfold decLocator at h
  obtain ⟨pv, b0, h0, h⟩ := bind_snd_inv h
  obtain ⟨n, b1, h1, h⟩ := bind_snd_inv h
  obtain ⟨u, b2, h2, h⟩ := bind_snd_inv h
  obtain ⟨loc, b3, h3, h⟩ := bind_snd_inv h
  obtain ⟨stop, b4, h4, h⟩ := bind_snd_inv h
  obtain ⟨e0, k0⟩ := get32le_inv h0
  obtain ⟨e1, k1⟩ := getVarInt_inv h1
  obtain ⟨k2, e2⟩ := guardAlloc_inv h2
  obtain ⟨e3, hl, hall⟩ := getMany_inv (p := putHash) (P := fun x => x.length = 32) getHash_inv _ _ _ _ h3
  obtain ⟨e4, k4⟩ := getHash_inv _ _ _ h4
  obtain ⟨e5, e6⟩ := pure_inv h
  subst e0 e1 e2 e3 e4 e5 e6 hl
  exact ⟨pv, loc, stop, rfl, by simp, k0, k2, hall, k4⟩

theorem reencode_trivial (gmax pver : Nat) (t : MsgType) (m0 : Msg) (bs : Bytes) (m : Msg) (gate : Nat)
    (hdec : decodeRd gmax pver t = if pver < gate then Rd.fail .badPver else pure m0)
    (henc : encodePayload pver m0 = if pver < gate then .error .badPver else .ok [])
    (hwf : WF gmax pver m0 ↔ gate ≤ pver)
    (h : decodePayload gmax pver t bs = .ok m) :
    ∃ enc rest, encodePayload pver m = .ok enc ∧ bs = enc ++ rest ∧ WF gmax pver m := by
  obtain ⟨rest, h⟩ := decodePayload_inv h
  rw [hdec] at h
  split at h
  · exact (fail_inv h).elim
  · rename_i hp
    obtain ⟨e1, e2⟩ := pure_inv h
    subst e1 e2
    refine ⟨[], rest, ?_, rfl, hwf.mpr (by omega)⟩
    rw [henc, if_neg hp]

theorem bytes4_eq_put32le (l : Bytes) (h : l.length = 4) : ∃ n, n < 2^32 ∧ l = put32le n := by
  match l, h with
  | [a, b, c, d], _ =>
    have := get32le_inv (bs := [a, b, c, d]) (n := a.toNat + 2^8 * b.toNat + 2^16 * c.toNat + 2^24 * d.toNat) (r := []) rfl
    exact ⟨_, this.2, by simpa using this.1⟩

end BHS.Wire
