/-
Helper lemmas for C08 / C13 (2/3): the sorted longest chain `lcAsc s` of a store that satisfies the chain invariant
(`WF cfg s`, `t ∈ s`, `LcAt s t` — the three components of `Inv cfg s`):
it is a permutation of the LONGEST_CHAIN rows, strictly ascending by height, its heights are `0, 1, …, t.height`
(`HF 0`), its `i`-th element has height `i`, its last element is the tip `t`, consecutive elements are parent-linked;
`lcAtHeight` finds exactly its `k`-th element.
Core Lean only.
-/
import BHS.Proofs.QuerySort
import BHS.Proofs.ChainLc

set_option linter.unusedSectionVars false

namespace BHS.Chain
variable {H : Type} [DecidableEq H]

/-! ### facts that need no invariant -/

theorem mem_lcAsc {s : Store H} {r : Row H} : r ∈ lcAsc s ↔ r ∈ s ∧ r.st = .lc := by
  unfold lcAsc
  rw [mem_sortByHeight, List.mem_filter, decide_eq_true_eq]

/-- `lcAsc s` is a permutation of the LONGEST_CHAIN rows of `s` -/
theorem perm_lcAsc (s : Store H) : (lcAsc s).Perm (s.filter (fun r => decide (r.st = .lc))) :=
  perm_sortByHeight _

theorem length_lcAsc_le (s : Store H) : (lcAsc s).length ≤ s.length := by
  unfold lcAsc
  rw [length_sortByHeight]
  exact List.length_filter_le _ _

/-! ### under the invariant -/

section inv
variable {cfg : Cfg H} {s : Store H} {t : Row H}

/-- strictly ascending: one LONGEST_CHAIN row per height -/
theorem ascH_lcAsc (hw : WF cfg s) (hl : LcAt s t) : AscH (lcAsc s) := by
  unfold lcAsc
  apply ascH_sortByHeight
  have hn : s.Pairwise (fun a b => a.hash ≠ b.hash) := List.pairwise_map.1 hw.nodup
  refine List.Pairwise.imp_of_mem ?_ (List.Pairwise.filter _ hn)
  intro a b ha hb hne e
  rw [List.mem_filter, decide_eq_true_eq] at ha hb
  exact hne (by rw [hl.uniq a ha.1 b hb.1 ha.2 hb.2 e])

/-- the heights of the sorted longest chain are `0, 1, …, t.height` -/
theorem lcAsc_heights (hw : WF cfg s) (ht : t ∈ s) (hl : LcAt s t) :
    (lcAsc s).map (·.height) = List.range (t.height + 1) := by
  apply eq_range_of_pairwise_lt
  · exact List.pairwise_map.2 (ascH_lcAsc hw hl)
  · intro k
    rw [List.mem_map]
    constructor
    · rintro ⟨r, hr, rfl⟩
      have := mem_lcAsc.1 hr
      exact hl.top r this.1 this.2
    · intro hk
      obtain ⟨a, ha, hal, e⟩ := hw.lc_contiguous hl.par ht hl.lc hk
      exact ⟨a, mem_lcAsc.2 ⟨ha, hal⟩, e⟩

/-- exactly one row at every height `0 … t.height` -/
theorem lcAsc_length (hw : WF cfg s) (ht : t ∈ s) (hl : LcAt s t) : (lcAsc s).length = t.height + 1 := by
  have := congrArg List.length (lcAsc_heights hw ht hl)
  simpa using this

theorem lcAsc_hf (hw : WF cfg s) (ht : t ∈ s) (hl : LcAt s t) : HF 0 (lcAsc s) := by
  unfold HF
  rw [lcAsc_heights hw ht hl, lcAsc_length hw ht hl, List.range_eq_range']

/-- the `i`-th element has height `i` -/
theorem lcAsc_getElem_height (hw : WF cfg s) (ht : t ∈ s) (hl : LcAt s t) (i : Nat) (hi : i < (lcAsc s).length) :
    (lcAsc s)[i].height = i := by
  have := (lcAsc_hf hw ht hl).getElem i hi
  omega

/-- a LONGEST_CHAIN row sits at the position of its height -/
theorem lcAsc_getElem_of_mem (hw : WF cfg s) (ht : t ∈ s) (hl : LcAt s t) {r : Row H} (hr : r ∈ s)
    (hrl : r.st = .lc) : ∃ h : r.height < (lcAsc s).length, (lcAsc s)[r.height] = r := by
  have hlt : r.height < (lcAsc s).length := by
    rw [lcAsc_length hw ht hl]; have := hl.top r hr hrl; omega
  refine ⟨hlt, ?_⟩
  have hm := mem_lcAsc.1 (List.getElem_mem hlt)
  exact hl.uniq _ hm.1 r hr hm.2 hrl (lcAsc_getElem_height hw ht hl _ hlt)

/-- the last element is the tip -/
theorem lcAsc_getLast (hw : WF cfg s) (ht : t ∈ s) (hl : LcAt s t) : (lcAsc s).getLast? = some t := by
  obtain ⟨h, e⟩ := lcAsc_getElem_of_mem hw ht hl ht hl.lc
  rw [List.getLast?_eq_getElem?, lcAsc_length hw ht hl, Nat.add_sub_cancel, List.getElem?_eq_getElem h, e]

/-- `lcAtHeight` returns THE longest-chain row of that height -/
theorem lcAtHeight_of_lc (hl : LcAt s t) {r : Row H} (hr : r ∈ s) (hrl : r.st = .lc) :
    lcAtHeight s r.height = some r := by
  obtain ⟨r', e⟩ := lcAtHeight_of_mem hr hrl
  obtain ⟨h1, h2, h3⟩ := lcAtHeight_some e
  rw [e, hl.uniq r' h1 r hr h3 hrl h2]

theorem lcAtHeight_le (hw : WF cfg s) (ht : t ∈ s) (hl : LcAt s t) {k : Nat} (hk : k ≤ t.height) :
    ∃ r, lcAtHeight s k = some r ∧ r ∈ s ∧ r.st = .lc ∧ r.height = k := by
  obtain ⟨a, ha, hal, e⟩ := hw.lc_contiguous hl.par ht hl.lc hk
  exact ⟨a, by rw [← e]; exact lcAtHeight_of_lc hl ha hal, ha, hal, e⟩

theorem lcAtHeight_eq_getElem (hw : WF cfg s) (ht : t ∈ s) (hl : LcAt s t) (k : Nat) (hk : k < (lcAsc s).length) :
    lcAtHeight s k = some (lcAsc s)[k] := by
  have hm := mem_lcAsc.1 (List.getElem_mem hk)
  have := lcAtHeight_of_lc hl hm.1 hm.2
  rw [lcAsc_getElem_height hw ht hl k hk] at this
  exact this

/-- a longest-chain row above height 0 is not the root, and its parent is the longest-chain row one below -/
theorem lc_parent (hw : WF cfg s) (hl : LcAt s t) {r : Row H} (hr : r ∈ s) (hrl : r.st = .lc)
    (hpos : r.height ≠ 0) : ∃ p ∈ s, p.st = .lc ∧ p.hash = r.prev ∧ r.height = p.height + 1 := by
  have h0 : r.id ≠ 0 := fun h0 => hpos (hw.root_of_id hr h0).2.1
  obtain ⟨p, hp, e1, _, _, e4, _⟩ := hw.par r hr (connected_of_lc hrl) h0
  exact ⟨p, hp, hl.par r hr hrl h0 p hp e1, e1, e4⟩

/-- consecutive elements are parent-linked -/
theorem lcAsc_prev (hw : WF cfg s) (ht : t ∈ s) (hl : LcAt s t) (i : Nat) (hi : i + 1 < (lcAsc s).length) :
    (lcAsc s)[i + 1].prev = (lcAsc s)[i].hash := by
  have hm := mem_lcAsc.1 (List.getElem_mem hi)
  have hh := lcAsc_getElem_height hw ht hl (i + 1) hi
  obtain ⟨p, hp, hpl, e1, e4⟩ := lc_parent hw hl hm.1 hm.2 (by omega)
  obtain ⟨h, e⟩ := lcAsc_getElem_of_mem hw ht hl hp hpl
  have : p.height = i := by omega
  subst this
  rw [e, e1]

/-- the tip exists and is the `t` of the invariant -/
theorem Inv.tip {cfg : Cfg H} {s : Store H} (h : Inv cfg s) :
    ∃ t, t ∈ s ∧ LcAt s t ∧ getTip s = some t := by
  obtain ⟨_, t, ht, hl⟩ := h
  exact ⟨t, ht, hl, hl.getTip ht⟩

end inv

/-! ### slices of a list -/

theorem slice_getElem {α : Type} (l : List α) (a b i : Nat) (hi : i < ((l.drop a).take b).length) :
    ∃ h : a + i < l.length, ((l.drop a).take b)[i] = l[a + i] := by
  have h1 : i < b ∧ a + i < l.length := by
    rw [List.length_take, List.length_drop] at hi; omega
  refine ⟨h1.2, ?_⟩
  rw [List.getElem_take, List.getElem_drop]

theorem slice_length_le {α : Type} (l : List α) (a b : Nat) : ((l.drop a).take b).length ≤ b := by
  rw [List.length_take]; omega

end BHS.Chain
