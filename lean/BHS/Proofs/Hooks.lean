/-
Lemmas about the webhook model (C12): what the notify loop does to each row, and the
invariants of the table. Core Lean only. None of the proofs unfolds the three switches
`restoredMaxTries`, `emptyHeaderNameSkipped`, `toWebhookMapsLastEmit`: they stay valid when
a switch is flipped.
-/
import BHS.Model.Hooks

namespace BHS.Proofs.Hooks
open BHS.Model.Hooks

/-- the deactivation threshold in force: `updateWebhookAfterNotification` compares
`ErrorsCount + 1 ≥ MaxTries` with the restored `MaxTries`; thresholds 0 and 1 behave alike. -/
def effThr (cfgMax : Nat) : Nat := max 1 (restoredMaxTries cfgMax)

theorem effThr_pos (m : Nat) : 1 ≤ effThr m := by unfold effThr; omega

/-! ## one row through one event -/

/-- the attempt made for a row (none when the row is inactive). -/
def rowAttempt (cfg : Cfg) (out : String → Outcome) (r : Row) : Option Attempt :=
  if r.active then some (attempt cfg out (toWebhook cfg.maxTries r)) else none

/-- what one event does to a row. -/
def rowStep (cfg : Cfg) (out : String → Outcome) (now : Nat) (r : Row) : Row :=
  if r.active then
    let w' := afterOutcome (toWebhook cfg.maxTries r) now (attempt cfg out (toWebhook cfg.maxTries r)).seen
    { r with lastStatus := w'.lastStatus, lastAt := w'.lastAt, errors := w'.errors, active := w'.active }
  else r

@[simp] theorem toWebhook_url (m : Nat) (r : Row) : (toWebhook m r).url = r.url := rfl
@[simp] theorem toWebhook_active (m : Nat) (r : Row) : (toWebhook m r).active = r.active := rfl
@[simp] theorem toWebhook_errors (m : Nat) (r : Row) : (toWebhook m r).errors = r.errors := rfl
@[simp] theorem toWebhook_header (m : Nat) (r : Row) : (toWebhook m r).tokenHeader = r.tokenHeader := rfl
@[simp] theorem toWebhook_token (m : Nat) (r : Row) : (toWebhook m r).token = r.token := rfl
@[simp] theorem toWebhook_maxTries (m : Nat) (r : Row) : (toWebhook m r).maxTries = restoredMaxTries m := rfl

theorem updateAfter_url (w : Hook) (c : Nat) (st : Status) (now : Nat) : (updateAfter w c st now).url = w.url := by
  unfold updateAfter; split <;> rfl

theorem afterOutcome_url (w : Hook) (now : Nat) (o : Outcome) : (afterOutcome w now o).url = w.url := by
  cases o <;> simp [afterOutcome, updateAfter_url]

/-- the in-memory update in terms of success / failure. -/
theorem afterOutcome_ok (w : Hook) (now : Nat) (o : Outcome) (h : o.isOk = true) :
    (afterOutcome w now o).errors = 0 ∧ (afterOutcome w now o).active = true ∧ (afterOutcome w now o).lastAt = .at now := by
  cases o with
  | reply c b =>
    have : c = 200 := by simpa [Outcome.isOk] using h
    subst this
    simp [afterOutcome, updateAfter]
  | transportErr => simp [Outcome.isOk] at h
  | unreadableBody c => simp [Outcome.isOk] at h

theorem afterOutcome_fail (w : Hook) (now : Nat) (o : Outcome) (h : o.isOk = false) :
    (afterOutcome w now o).errors = w.errors + 1 ∧
    (afterOutcome w now o).active = (if w.errors + 1 ≥ w.maxTries then false else w.active) ∧
    (afterOutcome w now o).lastAt = .at now := by
  cases o with
  | reply c b =>
    have : c ≠ 200 := by simpa [Outcome.isOk] using h
    simp [afterOutcome, updateAfter, this]
  | transportErr => simp [afterOutcome, updateAfter]
  | unreadableBody c => simp [afterOutcome, updateAfter]

/-- the status recorded for an outcome. -/
def statusOf : Outcome → Status
  | .reply c b => .reply c b
  | _ => .err

theorem afterOutcome_status (w : Hook) (now : Nat) (o : Outcome) : (afterOutcome w now o).lastStatus = statusOf o := by
  cases o <;> simp [afterOutcome, updateAfter, statusOf] <;> split <;> rfl

@[simp] theorem rowStep_url (cfg : Cfg) (out : String → Outcome) (now : Nat) (r : Row) : (rowStep cfg out now r).url = r.url := by
  unfold rowStep; split <;> rfl

@[simp] theorem rowStep_header (cfg : Cfg) (out : String → Outcome) (now : Nat) (r : Row) :
    (rowStep cfg out now r).tokenHeader = r.tokenHeader ∧ (rowStep cfg out now r).token = r.token := by
  unfold rowStep; split <;> exact ⟨rfl, rfl⟩

theorem rowStep_inactive (cfg : Cfg) (out : String → Outcome) (now : Nat) (r : Row) (h : r.active = false) :
    rowStep cfg out now r = r := by
  simp [rowStep, h]

/-- the outcome the service sees for a row. -/
def rowSeen (cfg : Cfg) (out : String → Outcome) (r : Row) : Outcome :=
  (attempt cfg out (toWebhook cfg.maxTries r)).seen

theorem rowStep_ok (cfg : Cfg) (out : String → Outcome) (now : Nat) (r : Row) (ha : r.active = true)
    (h : (rowSeen cfg out r).isOk = true) :
    (rowStep cfg out now r).errors = 0 ∧ (rowStep cfg out now r).active = true := by
  have := afterOutcome_ok (toWebhook cfg.maxTries r) now (attempt cfg out (toWebhook cfg.maxTries r)).seen h
  simp only [rowStep, ha, if_true]
  exact ⟨this.1, this.2.1⟩

theorem rowStep_fail (cfg : Cfg) (out : String → Outcome) (now : Nat) (r : Row) (ha : r.active = true)
    (h : (rowSeen cfg out r).isOk = false) :
    (rowStep cfg out now r).errors = r.errors + 1 ∧
    ((rowStep cfg out now r).active = true ↔ r.errors + 1 < restoredMaxTries cfg.maxTries) := by
  have := afterOutcome_fail (toWebhook cfg.maxTries r) now (attempt cfg out (toWebhook cfg.maxTries r)).seen h
  simp only [toWebhook_errors, toWebhook_maxTries, toWebhook_active] at this
  simp only [rowStep, ha, if_true]
  refine ⟨this.1, ?_⟩
  rw [this.2.1, ha]
  by_cases hc : r.errors + 1 ≥ restoredMaxTries cfg.maxTries
  · simp [hc]
  · simp [hc]; omega

theorem rowStep_last (cfg : Cfg) (out : String → Outcome) (now : Nat) (r : Row) (ha : r.active = true) :
    (rowStep cfg out now r).lastStatus = statusOf (rowSeen cfg out r) ∧ (rowStep cfg out now r).lastAt = .at now := by
  simp only [rowStep, ha, if_true, rowSeen]
  refine ⟨afterOutcome_status _ _ _, ?_⟩
  cases h : (attempt cfg out (toWebhook cfg.maxTries r)).seen.isOk
  · exact (afterOutcome_fail _ now _ h).2.2
  · exact (afterOutcome_ok _ now _ h).2.2

/-! ## the SQL update touches exactly the row with that url -/

theorem sqlUpdate_other (t : List Row) (u : String) (ls : Status) (la : Stamp) (e : Nat) (a : Bool)
    (h : ∀ r ∈ t, r.url ≠ u) : sqlUpdate t u ls la e a = t := by
  unfold sqlUpdate
  induction t with
  | nil => rfl
  | cons r t ih =>
    have hr : r.url ≠ u := h r (List.mem_cons_self)
    simp only [List.map_cons, hr, if_false]
    rw [ih (fun x hx => h x (List.mem_cons_of_mem _ hx))]

theorem sqlUpdate_append (t1 t2 : List Row) (u : String) (ls : Status) (la : Stamp) (e : Nat) (a : Bool) :
    sqlUpdate (t1 ++ t2) u ls la e a = sqlUpdate t1 u ls la e a ++ sqlUpdate t2 u ls la e a := by
  simp [sqlUpdate]

theorem sqlUpdate_urls (t : List Row) (u : String) (ls : Status) (la : Stamp) (e : Nat) (a : Bool) :
    (sqlUpdate t u ls la e a).map (·.url) = t.map (·.url) := by
  unfold sqlUpdate
  induction t with
  | nil => rfl
  | cons r t ih =>
    simp only [List.map_cons]
    rw [ih]
    split <;> rfl

/-! ## the notify loop = one `rowStep` per row, one attempt per active row -/

theorem notifyLoop_attempts (cfg : Cfg) (out : String → Outcome) (now : Nat) (ws : List Hook) (t : List Row) (as : List Attempt) :
    (notifyLoop cfg out now ws (t, as)).2 =
      as ++ ws.filterMap (fun w => if w.active then some (attempt cfg out w) else none) := by
  induction ws generalizing t as with
  | nil => simp [notifyLoop]
  | cons w ws ih =>
    unfold notifyLoop
    by_cases ha : w.active = true
    · simp only [ha, if_true]
      rw [ih]
      simp [ha]
    · have hf : w.active = false := by simpa using ha
      simp only [hf, Bool.false_eq_true, if_false]
      rw [ih]
      simp [hf]

theorem notifyLoop_table (cfg : Cfg) (out : String → Outcome) (now : Nat) (pre suf : List Row) (as : List Attempt)
    (hu : ((pre ++ suf).map (·.url)).Nodup) :
    (notifyLoop cfg out now (suf.map (toWebhook cfg.maxTries)) (pre.map (rowStep cfg out now) ++ suf, as)).1 =
      (pre ++ suf).map (rowStep cfg out now) := by
  induction suf generalizing pre as with
  | nil => simp [notifyLoop]
  | cons r suf ih =>
    have hu' : (((pre ++ [r]) ++ suf).map (·.url)).Nodup := by simpa using hu
    simp only [List.map_cons]
    unfold notifyLoop
    by_cases ha : r.active = true
    · simp only [toWebhook_active, ha, if_true]
      have key : repoUpdate (pre.map (rowStep cfg out now) ++ r :: suf)
            (afterOutcome (toWebhook cfg.maxTries r) now (attempt cfg out (toWebhook cfg.maxTries r)).seen)
          = (pre ++ [r]).map (rowStep cfg out now) ++ suf := by
        simp only [List.map_append, List.map_cons, List.nodup_append, List.nodup_cons] at hu
        obtain ⟨_, ⟨hr, _⟩, hdis⟩ := hu
        unfold repoUpdate
        rw [afterOutcome_url, toWebhook_url]
        rw [show pre.map (rowStep cfg out now) ++ r :: suf = pre.map (rowStep cfg out now) ++ ([r] ++ suf) from rfl]
        rw [sqlUpdate_append, sqlUpdate_append]
        rw [sqlUpdate_other (pre.map (rowStep cfg out now))]
        · rw [sqlUpdate_other suf]
          · simp [sqlUpdate, rowStep, ha]
          · intro x hx heq
            exact hr (by rw [← heq]; exact List.mem_map_of_mem hx)
        · intro x hx heq
          obtain ⟨y, hy, rfl⟩ := List.mem_map.mp hx
          rw [rowStep_url] at heq
          exact hdis y.url (List.mem_map_of_mem hy) r.url (List.mem_cons_self) heq
      rw [key, ih (pre ++ [r]) _ hu']
      simp
    · have hf : r.active = false := by simpa using ha
      simp only [toWebhook_active, hf]
      have : pre.map (rowStep cfg out now) ++ r :: suf = (pre ++ [r]).map (rowStep cfg out now) ++ suf := by
        simp [rowStep_inactive cfg out now r hf]
      simp only [Bool.false_eq_true, if_false]
      rw [this, ih (pre ++ [r]) _ hu']
      simp

/-- `WebhooksService.Notify` on a table with unique urls: every row takes one `rowStep`. -/
theorem notify_table (cfg : Cfg) (s : State) (out : String → Outcome) (hu : (s.table.map (·.url)).Nodup) :
    (notify cfg s out).1.table = s.table.map (rowStep cfg out (s.clock + 1)) := by
  have := notifyLoop_table cfg out (s.clock + 1) [] s.table [] (by simpa using hu)
  simpa [notify, sqlGetAll] using this

/-- the attempts of one event: one per active row, in table order. -/
theorem notify_attempts (cfg : Cfg) (s : State) (out : String → Outcome) :
    (notify cfg s out).2 = s.table.filterMap (rowAttempt cfg out) := by
  simp only [notify, sqlGetAll, notifyLoop_attempts, List.nil_append, List.filterMap_map]
  rfl

theorem notify_clock (cfg : Cfg) (s : State) (out : String → Outcome) : (notify cfg s out).1.clock = s.clock + 1 := rfl

/-! ## lookups -/

theorem getByUrl_some {t : List Row} {u : String} {r : Row} (h : sqlGetByUrl t u = some r) : r ∈ t ∧ r.url = u := by
  unfold sqlGetByUrl at h
  exact ⟨List.mem_of_find?_eq_some h, by simpa using List.find?_some h⟩

theorem getByUrl_none {t : List Row} {u : String} (h : sqlGetByUrl t u = none) : ∀ r ∈ t, r.url ≠ u := by
  unfold sqlGetByUrl at h
  intro r hr
  simpa using (List.find?_eq_none.mp h) r hr

/-- with unique urls, the lookup finds THE row with that url. -/
theorem getByUrl_of_mem {t : List Row} {r : Row} (hu : (t.map (·.url)).Nodup) (hr : r ∈ t) :
    sqlGetByUrl t r.url = some r := by
  unfold sqlGetByUrl
  induction t with
  | nil => cases hr
  | cons a t ih =>
    simp only [List.map_cons, List.nodup_cons] at hu
    rcases List.mem_cons.mp hr with rfl | h
    · simp
    · have hne : a.url ≠ r.url := fun heq => hu.1 (by rw [heq]; exact List.mem_map_of_mem h)
      simp only [List.find?_cons, hne, decide_false]
      exact ih hu.2 h

theorem insert_some {t t' : List Row} {u h k : String} (hi : sqlInsert t u h k = some t') :
    (∀ r ∈ t, r.url ≠ u) ∧
    t' = t ++ [{ url := u, tokenHeader := h, token := k, lastStatus := .none, lastAt := .never, errors := 0, active := true }] := by
  unfold sqlInsert at hi
  split at hi
  · cases hi
  · rename_i hany
    refine ⟨?_, by injection hi with hi; exact hi.symm⟩
    have h2 : ∀ x ∈ t, ¬ x.url = u := by simpa using hany
    exact h2

theorem insert_none {t : List Row} {u h k : String} (hi : sqlInsert t u h k = none) : ∃ r ∈ t, r.url = u := by
  unfold sqlInsert at hi
  split at hi
  · rename_i hany
    obtain ⟨r, hr, hp⟩ := List.any_eq_true.mp hany
    exact ⟨r, hr, by simpa using hp⟩
  · cases hi

/-! ## invariant of the table -/

/-- urls are unique (PRIMARY KEY), and for every row: active ⇔ count below the threshold in
force, count never above it. -/
structure Inv (cfg : Cfg) (s : State) : Prop where
  uniq : (s.table.map (·.url)).Nodup
  nonempty : ∀ r ∈ s.table, r.url ≠ ""
  thr : ∀ r ∈ s.table, (r.active = true ↔ r.errors < effThr cfg.maxTries) ∧ r.errors ≤ effThr cfg.maxTries

theorem inv_init (cfg : Cfg) : Inv cfg {} := ⟨by simp, by simp, by simp⟩

theorem rowStep_thr (cfg : Cfg) (out : String → Outcome) (now : Nat) (r : Row)
    (h : (r.active = true ↔ r.errors < effThr cfg.maxTries) ∧ r.errors ≤ effThr cfg.maxTries) :
    ((rowStep cfg out now r).active = true ↔ (rowStep cfg out now r).errors < effThr cfg.maxTries) ∧
      (rowStep cfg out now r).errors ≤ effThr cfg.maxTries := by
  by_cases ha : r.active = true
  · cases hs : (rowSeen cfg out r).isOk
    · obtain ⟨he, hact⟩ := rowStep_fail cfg out now r ha hs
      have hlt := h.1.mp ha
      rw [he, hact]
      simp only [effThr] at *
      omega
    · obtain ⟨he, hact⟩ := rowStep_ok cfg out now r ha hs
      have := effThr_pos cfg.maxTries
      rw [he, hact]
      exact ⟨by simp; omega, by omega⟩
  · rw [rowStep_inactive cfg out now r (by simpa using ha)]
    exact h

theorem inv_notify (cfg : Cfg) (s : State) (out : String → Outcome) (hi : Inv cfg s) : Inv cfg (notify cfg s out).1 := by
  have ht := notify_table cfg s out hi.uniq
  constructor
  · rw [ht, List.map_map]
    have : ((fun r : Row => r.url) ∘ rowStep cfg out (s.clock + 1)) = (fun r : Row => r.url) := by
      funext r; simp
    rw [this]; exact hi.uniq
  · intro r hr
    rw [ht] at hr
    obtain ⟨r0, hr0, rfl⟩ := List.mem_map.mp hr
    rw [rowStep_url]; exact hi.nonempty r0 hr0
  · intro r hr
    rw [ht] at hr
    obtain ⟨r0, hr0, rfl⟩ := List.mem_map.mp hr
    exact rowStep_thr cfg out _ r0 (hi.thr r0 hr0)

theorem inv_delete (cfg : Cfg) (s : State) (u : String) (hi : Inv cfg s) : Inv cfg (delete s u).1 := by
  unfold delete
  split
  · exact hi
  · split
    · exact hi
    · constructor
      · exact List.Nodup.sublist (List.Sublist.map _ List.filter_sublist) hi.uniq
      · intro r hr
        exact hi.nonempty r (List.mem_filter.mp hr).1
      · intro r hr
        exact hi.thr r (List.mem_filter.mp hr).1

theorem inv_register (cfg : Cfg) (s : State) (k : AuthKind) (h t u : String) (hi : Inv cfg s) :
    Inv cfg (register cfg s k h t u).1 := by
  unfold register
  split
  · exact hi
  · split
    · rename_i t' hins
      obtain ⟨hnew, rfl⟩ := insert_some hins
      constructor
      · simp only [List.map_append, List.map_cons, List.map_nil]
        refine List.nodup_append.mpr ⟨hi.uniq, by simp, ?_⟩
        intro a ha b hb heq
        simp only [List.mem_singleton] at hb
        obtain ⟨r, hr, rfl⟩ := List.mem_map.mp ha
        exact hnew r hr (heq.trans hb)
      · intro r hr
        rcases List.mem_append.mp hr with hr | hr
        · exact hi.nonempty r hr
        · simp only [List.mem_singleton] at hr
          subst hr
          assumption
      · intro r hr
        rcases List.mem_append.mp hr with hr | hr
        · exact hi.thr r hr
        · simp only [List.mem_singleton] at hr
          subst hr
          have := effThr_pos cfg.maxTries
          simp; omega
    · split
      · exact hi
      · rename_i r hget
        dsimp only
        split
        · exact hi
        · constructor
          · show ((repoUpdate s.table _).map (·.url)).Nodup
            unfold repoUpdate
            rw [sqlUpdate_urls]; exact hi.uniq
          · intro x hx
            change x ∈ repoUpdate s.table _ at hx
            unfold repoUpdate sqlUpdate at hx
            obtain ⟨y, hy, rfl⟩ := List.mem_map.mp hx
            have := hi.nonempty y hy
            split <;> exact this
          · intro x hx
            change x ∈ repoUpdate s.table _ at hx
            unfold repoUpdate sqlUpdate at hx
            obtain ⟨y, hy, rfl⟩ := List.mem_map.mp hx
            split
            · have := effThr_pos cfg.maxTries
              simp; omega
            · exact hi.thr y hy

theorem inv_step (cfg : Cfg) (s : State) (op : Op) (hi : Inv cfg s) : Inv cfg (step cfg s op).1 := by
  cases op with
  | register k h t u => exact inv_register cfg s k h t u hi
  | delete u => exact inv_delete cfg s u hi
  | notify out => exact inv_notify cfg s out hi
  | get u => exact hi
  | restart => exact hi

theorem inv_run (cfg : Cfg) (ops : List Op) (s : State) (hi : Inv cfg s) : Inv cfg (run cfg ops s) := by
  induction ops generalizing s with
  | nil => exact hi
  | cons op ops ih => exact ih _ (inv_step cfg s op hi)

end BHS.Proofs.Hooks
