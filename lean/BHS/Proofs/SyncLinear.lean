/-
Linear catch-up (C06_linear): the header store along one chain, the conformant node's answers, and the loop of
handleHeadersMsg on such an answer.
-/
import BHS.Model.Sync
import BHS.Model.Node
import BHS.Proofs.SyncLoop
import BHS.Proofs.SyncBasic

set_option linter.unusedSectionVars false

namespace BHS.Sync
open BHS.Chain
variable {H : Type} [DecidableEq H]

/-! ### a store that is one chain: every row on the longest chain, one row on top -/

/-- `t` is the top of an all-longest-chain store with unique hashes -/
structure Top (s : Store H) (t : Row H) : Prop where
  mem : t ∈ s
  lc : ∀ r ∈ s, r.st = .lc
  le : ∀ r ∈ s, r.height ≤ t.height
  uniq : ∀ r ∈ s, r.height = t.height → r = t
  nodup : (s.map (·.hash)).Nodup

theorem Top.getTip {s : Store H} {t : Row H} (h : Top s t) : getTip s = some t := by
  obtain ⟨t', e, hm, _, hmax⟩ := getTip_some h.mem (h.lc t h.mem)
  have h1 : t.height ≤ t'.height := hmax t h.mem (h.lc t h.mem)
  have h2 : t'.height ≤ t.height := h.le t' hm
  rw [e, h.uniq t' hm (by omega)]

theorem Top.tipHeight_eq {s : Store H} {t : Row H} (h : Top s t) : Sync.tipHeight s = t.height := by
  unfold Sync.tipHeight; rw [h.getTip]

theorem locator_head {s : Store H} {t : Row H} (h : getTip s = some t) : ∃ rest, locator s = t.hash :: rest := by
  unfold locator
  rw [h]
  simp only []
  unfold locatorGo
  exact ⟨_, rfl⟩

/-- extending the top by a fresh, clean child: stored on the longest chain, and the new row is the top -/
theorem Top.add (ccfg : Chain.Cfg H) {s : Store H} {t : Row H} (h : Top s t) (x : Src H) (hp : x.prev = t.hash)
    (hfresh : ccfg.hashOf x ∉ s.map (·.hash)) (hclean : ccfg.hashOf x ∉ ccfg.forbidden) (hwork : work x.bits ≠ 0) :
    ∃ r, add ccfg s x = (s ++ [r], .stored r) ∧ r.hash = ccfg.hashOf x ∧ r.height = t.height + 1 ∧ r.st = .lc ∧
      Top (s ++ [r]) r := by
  have hbt : byHash s x.prev = some t := by rw [hp]; exact byHash_mem h.nodup h.mem
  obtain ⟨mh, _, mst⟩ := mkRow_some (cfg := ccfg) hbt
  have mst' : (mkRow ccfg s x).st = .lc := by rw [mst]; exact h.lc t h.mem
  have hnone : ¬ (byHash s (ccfg.hashOf x)).isSome = true := by
    intro hs
    obtain ⟨r, hr, e⟩ := byHash_isSome.1 hs
    exact hfresh (List.mem_map.2 ⟨r, hr, e⟩)
  have hconc : concurrent s (mkRow ccfg s x) = false := by
    unfold concurrent
    rw [mst']
    simp only []
    rw [if_neg (by rw [mkRow_work]; exact hwork)]
    cases e : lcAtHeight s (mkRow ccfg s x).height with
    | none => rfl
    | some oh =>
      exfalso
      obtain ⟨hm, hh, _⟩ := lcAtHeight_some e
      have := h.le oh hm
      omega
  rcases add_cases ccfg s x with ⟨hd, _⟩ | ⟨_, hf, _⟩ | ⟨_, _, k⟩
  · exact absurd hd hnone
  · exact absurd hf hclean
  · rcases k with ⟨_, e⟩ | ⟨hc, _⟩ | ⟨hc, _⟩ | ⟨hc, _⟩
    · refine ⟨mkRow ccfg s x, e, mkRow_hash ccfg s x, mh, mst', ?_⟩
      refine ⟨List.mem_append_right _ (List.mem_singleton.2 rfl), ?_, ?_, ?_, ?_⟩
      · intro r hr
        rcases List.mem_append.1 hr with hm | hm
        · exact h.lc r hm
        · rw [List.mem_singleton.1 hm]; exact mst'
      · intro r hr
        rcases List.mem_append.1 hr with hm | hm
        · have := h.le r hm; omega
        · rw [List.mem_singleton.1 hm]; exact Nat.le_refl _
      · intro r hr hh
        rcases List.mem_append.1 hr with hm | hm
        · have := h.le r hm; omega
        · exact List.mem_singleton.1 hm
      · rw [List.map_append, List.map_singleton, mkRow_hash]
        refine List.nodup_append.2 ⟨h.nodup, List.pairwise_singleton _ _, ?_⟩
        intro a ha b hb
        rw [List.mem_singleton.1 hb]
        intro e'
        exact hfresh (e' ▸ ha)
    · rw [hconc] at hc; cases hc
    · rw [hconc] at hc; cases hc
    · rw [hconc] at hc; cases hc

/-! ### a batch of headers that extends the top -/

/-- each header has the previous one as its parent, the first one has `h` -/
def Linked (hashOf : Src H → H) : H → List (Src H) → Prop
  | _, [] => True
  | h, x :: xs => x.prev = h ∧ Linked hashOf (hashOf x) xs

/-- the hash on top of `h` after the headers `A` -/
def lastHash (hashOf : Src H → H) (h : H) (A : List (Src H)) : H :=
  match A.getLast? with
  | some y => hashOf y
  | none => h

theorem lastHash_cons (hashOf : Src H → H) (h : H) (x : Src H) (xs : List (Src H)) :
    lastHash hashOf h (x :: xs) = lastHash hashOf (hashOf x) xs := by
  unfold lastHash
  rw [List.getLast?_cons]
  cases xs.getLast? <;> rfl

/-- the loop of handleHeadersMsg on a batch of new, clean, positive-work headers that extends the top of a one-chain
    store, does not reach beyond the next checkpoint and agrees with it: every header is stored on the longest chain,
    the loop completes, the last header is the new top and `finalHash`, and the checkpoint flag is raised exactly when
    the batch ends at the checkpoint height -/
theorem headersLoop_linear (ccfg : Chain.Cfg H) (nc : Option (Nat × H)) :
    ∀ (B : List (Src H)) (s : Store H) (t : Row H) (rc : Bool) (fh : Option H),
      Top s t → Linked ccfg.hashOf t.hash B → (s.map (·.hash) ++ B.map ccfg.hashOf).Nodup →
      (∀ x ∈ B, ccfg.hashOf x ∉ ccfg.forbidden) → (∀ x ∈ B, work x.bits ≠ 0) →
      (∀ c, nc = some c → t.height + B.length ≤ c.1 ∧
          ∀ i (hi : i < B.length), t.height + i + 1 = c.1 → ccfg.hashOf B[i] = c.2) →
      ∃ t', (headersLoop ccfg nc s B rc fh).2.2.2 = .completed ∧ Top (headersLoop ccfg nc s B rc fh).1 t' ∧
        t'.height = t.height + B.length ∧
        (headersLoop ccfg nc s B rc fh).1.map (·.hash) = s.map (·.hash) ++ B.map ccfg.hashOf ∧
        (B ≠ [] → (headersLoop ccfg nc s B rc fh).2.2.1 = some t'.hash) ∧
        t'.hash = lastHash ccfg.hashOf t.hash B ∧
        ((headersLoop ccfg nc s B rc fh).2.1 = true ↔
          rc = true ∨ (B ≠ [] ∧ ∃ c, nc = some c ∧ t.height + B.length = c.1)) := by
  intro B
  induction B with
  | nil =>
    intro s t rc fh ht _ _ _ _ _
    refine ⟨t, rfl, ht, rfl, (by rw [headersLoop_nil]; simp), fun h => absurd rfl h, rfl, ?_⟩
    rw [headersLoop_nil]
    constructor
    · intro h; exact Or.inl h
    · rintro (h | ⟨h, _⟩)
      · exact h
      · exact absurd rfl h
  | cons x xs ih =>
    intro s t rc fh ht hlink hnd hclean hwork hcp
    obtain ⟨hp, hlink'⟩ := hlink
    have hfresh : ccfg.hashOf x ∉ s.map (·.hash) := by
      intro hm
      have := (List.nodup_append.1 hnd).2.2 _ hm (ccfg.hashOf x) (by simp)
      exact this rfl
    obtain ⟨r, hadd, hrh, hrht, hrst, htop'⟩ :=
      ht.add ccfg x hp hfresh (hclean x List.mem_cons_self) (hwork x List.mem_cons_self)
    have hnd' : ((s ++ [r]).map (·.hash) ++ xs.map ccfg.hashOf).Nodup := by
      rw [List.map_append, List.map_singleton, hrh, List.append_assoc]
      simpa using hnd
    have hlink'' : Linked ccfg.hashOf r.hash xs := by rw [hrh]; exact hlink'
    have hcp' : ∀ c, nc = some c → r.height + xs.length ≤ c.1 ∧
        ∀ i (hi : i < xs.length), r.height + i + 1 = c.1 → ccfg.hashOf xs[i] = c.2 := by
      intro c hc
      obtain ⟨h1, h2⟩ := hcp c hc
      refine ⟨by rw [hrht]; simp only [List.length_cons] at h1; omega, ?_⟩
      intro i hi hh
      have := h2 (i + 1) (by simp only [List.length_cons]; omega) (by rw [hrht] at hh; omega)
      simpa using this
    -- the recursive call, in the three places it can occur
    have step : ∀ rc', ∃ t', (headersLoop ccfg nc (s ++ [r]) xs rc' (some r.hash)).2.2.2 = .completed ∧
        Top (headersLoop ccfg nc (s ++ [r]) xs rc' (some r.hash)).1 t' ∧ t'.height = t.height + (x :: xs).length ∧
        (headersLoop ccfg nc (s ++ [r]) xs rc' (some r.hash)).1.map (·.hash) = s.map (·.hash) ++ (x :: xs).map ccfg.hashOf ∧
        (headersLoop ccfg nc (s ++ [r]) xs rc' (some r.hash)).2.2.1 = some t'.hash ∧
        t'.hash = lastHash ccfg.hashOf t.hash (x :: xs) ∧
        ((headersLoop ccfg nc (s ++ [r]) xs rc' (some r.hash)).2.1 = true ↔
          rc' = true ∨ (xs ≠ [] ∧ ∃ c, nc = some c ∧ r.height + xs.length = c.1)) := by
      intro rc'
      obtain ⟨t', g1, g2, g3, g4, g5, g6, g7⟩ := ih (s ++ [r]) r rc' (some r.hash) htop' hlink'' hnd'
        (fun y hy => hclean y (List.mem_cons_of_mem _ hy)) (fun y hy => hwork y (List.mem_cons_of_mem _ hy)) hcp'
      refine ⟨t', g1, g2, by rw [g3, hrht]; simp only [List.length_cons]; omega, ?_, ?_, ?_, g7⟩
      · rw [g4, List.map_append, List.map_singleton, hrh, List.append_assoc]; rfl
      · cases xs with
        | nil =>
          have : t'.hash = r.hash := by rw [g6]; rfl
          rw [this]; rfl
        | cons y ys => exact g5 (by simp)
      · rw [g6, lastHash_cons, hrh]
    rw [headersLoop_cons]
    simp only [hadd, hrst, if_true]
    cases hnc : nc with
    | none =>
      simp only []
      obtain ⟨t', g1, g2, g3, g4, g5, g6, g7⟩ := step rc
      rw [hnc] at g1 g2 g4 g5 g7
      refine ⟨t', g1, g2, g3, g4, fun _ => g5, g6, ?_⟩
      rw [g7]
      constructor
      · rintro (h | ⟨_, c, hc, _⟩)
        · exact Or.inl h
        · cases hc
      · rintro (h | ⟨_, c, hc, _⟩)
        · exact Or.inl h
        · cases hc
    | some c =>
      simp only []
      obtain ⟨hle, hcons⟩ := hcp c hnc
      by_cases hh : r.height = c.1
      · have hk : r.hash = c.2 := by
          rw [hrh]
          have := hcons 0 (by simp) (by rw [hrht] at hh; omega)
          simpa using this
        have hxs : xs = [] := by
          simp only [List.length_cons] at hle
          have : xs.length = 0 := by omega
          exact List.length_eq_zero_iff.1 this
        simp only [if_pos hh, if_pos hk]
        obtain ⟨t', g1, g2, g3, g4, g5, g6, g7⟩ := step true
        rw [hnc] at g1 g2 g4 g5 g7
        refine ⟨t', g1, g2, g3, g4, fun _ => g5, g6, ?_⟩
        rw [g7]
        constructor
        · intro _
          exact Or.inr ⟨by simp, c, rfl, by rw [hxs]; simp only [List.length_cons, List.length_nil]; omega⟩
        · intro _; exact Or.inl rfl
      · simp only [if_neg hh]
        obtain ⟨t', g1, g2, g3, g4, g5, g6, g7⟩ := step rc
        rw [hnc] at g1 g2 g4 g5 g7
        refine ⟨t', g1, g2, g3, g4, fun _ => g5, g6, ?_⟩
        rw [g7]
        constructor
        · rintro (h | ⟨hne, c', hc', he⟩)
          · exact Or.inl h
          · refine Or.inr ⟨by simp, c', hc', ?_⟩
            simp only [List.length_cons]; omega
        · rintro (h | ⟨_, c', hc', he⟩)
          · exact Or.inl h
          · right
            simp only [List.length_cons] at he
            have hc'' : c' = c := by cases hc'; rfl
            refine ⟨?_, c', hc', by omega⟩
            intro hxs
            rw [hxs] at he
            simp only [List.length_nil] at he
            rw [hc''] at he
            omega

/-! ### the conformant node's answer -/

theorem cutAtStop_prefix (hashOf : Src H → H) (stop : H) : ∀ l : List (Src H), ∃ R, l = cutAtStop hashOf stop l ++ R := by
  intro l
  induction l with
  | nil => exact ⟨[], rfl⟩
  | cons x xs ih =>
    unfold cutAtStop
    by_cases h : hashOf x = stop
    · rw [if_pos h]; exact ⟨xs, rfl⟩
    · rw [if_neg h]
      obtain ⟨R, hR⟩ := ih
      exact ⟨R, by rw [List.cons_append, ← hR]⟩

theorem cutAtStop_ne_nil (hashOf : Src H → H) (stop : H) {l : List (Src H)} (h : l ≠ []) : cutAtStop hashOf stop l ≠ [] := by
  cases l with
  | nil => exact absurd rfl h
  | cons x xs =>
    unfold cutAtStop
    split <;> simp

/-- the answer does not go beyond the stop hash -/
theorem cutAtStop_length_le (hashOf : Src H → H) (stop : H) : ∀ (l : List (Src H)) (j : Nat) (y : Src H),
    l[j]? = some y → hashOf y = stop → (cutAtStop hashOf stop l).length ≤ j + 1 := by
  intro l
  induction l with
  | nil => intro j y h; simp at h
  | cons x xs ih =>
    intro j y h hy
    unfold cutAtStop
    by_cases hx : hashOf x = stop
    · rw [if_pos hx]; simp
    · rw [if_neg hx]
      cases j with
      | zero => simp at h; rw [h] at hx; exact absurd hy hx
      | succ j' =>
        simp only [List.getElem?_cons_succ] at h
        have := ih j' y h hy
        simp only [List.length_cons]; omega

theorem cutAtStop_cases (hashOf : Src H → H) (stop : H) : ∀ l : List (Src H),
    cutAtStop hashOf stop l = l ∨ ∃ y, (cutAtStop hashOf stop l).getLast? = some y ∧ hashOf y = stop := by
  intro l
  induction l with
  | nil => exact Or.inl rfl
  | cons x xs ih =>
    unfold cutAtStop
    by_cases h : hashOf x = stop
    · rw [if_pos h]; exact Or.inr ⟨x, rfl, h⟩
    · rw [if_neg h]
      rcases ih with e | ⟨y, hy, hh⟩
      · rw [e]; exact Or.inl rfl
      · right
        refine ⟨y, ?_, hh⟩
        have hne : cutAtStop hashOf stop xs ≠ [] := by
          intro e; rw [e] at hy; cases hy
        rw [List.getLast?_cons_of_ne_nil hne]; exact hy

theorem take_prefix {α : Type} (n : Nat) (l : List α) : ∃ R, l = l.take n ++ R := ⟨l.drop n, (List.take_append_drop n l).symm⟩

/-- in a list with distinct images the first index with a given image is THE index -/
theorem findIdx?_of_nodup {α : Type} (f : α → H) : ∀ (l : List α) (i : Nat) (a : α), (l.map f).Nodup → l[i]? = some a →
    l.findIdx? (fun x => decide (f x = f a)) = some i := by
  intro l
  induction l with
  | nil => intro i a _ h; simp at h
  | cons x xs ih =>
    intro i a hn h
    rw [List.map_cons, List.nodup_cons] at hn
    cases i with
    | zero =>
      simp at h
      rw [List.findIdx?_cons, h]
      simp
    | succ i' =>
      simp only [List.getElem?_cons_succ] at h
      have hne : f x ≠ f a := by
        intro e
        apply hn.1
        rw [e]
        exact List.mem_map.2 ⟨a, List.mem_of_getElem? h, rfl⟩
      rw [List.findIdx?_cons]
      simp only [hne, decide_false, Bool.false_eq_true, if_false]
      rw [ih i' a hn.2 h]
      rfl

/-- in a list with distinct images, equal images sit at equal positions -/
theorem index_unique {α : Type} (f : α → H) (l : List α) (i j : Nat) (a b : α) (hn : (l.map f).Nodup)
    (hi : l[i]? = some a) (hj : l[j]? = some b) (e : f a = f b) : i = j := by
  have h1 := findIdx?_of_nodup f l i a hn hi
  have h2 := findIdx?_of_nodup f l j b hn hj
  rw [e] at h1
  rw [h1] at h2
  exact Option.some.inj h2

/-- the node finds the requester's tip: `done` headers are known, the rest is what it sends -/
theorem startOf_tip (hashOf : Src H → H) (n : Node H) (done rest : List (Src H)) (tipHash : H) (more : List H)
    (hc : n.chain = done ++ rest) (hn : (n.genesis :: n.chain.map hashOf).Nodup)
    (ht : tipHash = match done.getLast? with | some y => hashOf y | none => n.genesis) :
    startOf hashOf n (tipHash :: more) = done.length := by
  unfold startOf
  rw [List.nodup_cons] at hn
  cases hl : done.getLast? with
  | none =>
    rw [hl] at ht
    have : done = [] := List.getLast?_eq_none_iff.1 hl
    rw [if_pos ht, this]; rfl
  | some y =>
    rw [hl] at ht
    simp only [] at ht
    have hy : y ∈ n.chain := by rw [hc]; exact List.mem_append_left _ (List.mem_of_getLast? hl)
    have hne : tipHash ≠ n.genesis := by
      intro e
      apply hn.1
      rw [← e, ht]
      exact List.mem_map.2 ⟨y, hy, rfl⟩
    rw [if_neg hne]
    obtain ⟨ys, hys⟩ := List.getLast?_eq_some_iff.1 hl
    have hidx : n.chain[ys.length]? = some y := by
      rw [hc, hys, List.append_assoc]
      simp
    have := findIdx?_of_nodup hashOf n.chain ys.length y hn.2 hidx
    rw [ht, this, hys]
    simp

/-! ### pieces of one round of linear catch-up -/


theorem lastHash_append_ne_nil (hashOf : Src H → H) (h : H) (A B : List (Src H)) (hB : B ≠ []) :
    lastHash hashOf h (A ++ B) = lastHash hashOf h B := by
  unfold lastHash
  rw [List.getLast?_append]
  cases hb : B.getLast? with
  | none => exact absurd (List.getLast?_eq_none_iff.1 hb) hB
  | some y => rfl

theorem linked_split (hashOf : Src H → H) : ∀ (A R : List (Src H)) (h : H), Linked hashOf h (A ++ R) →
    Linked hashOf (lastHash hashOf h A) R := by
  intro A
  induction A with
  | nil => intro R h hl; exact hl
  | cons x xs ih =>
    intro R h hl
    have := ih R (hashOf x) hl.2
    unfold lastHash at this ⊢
    cases hx : xs.getLast? with
    | none =>
      rw [hx] at this
      have : xs = [] := List.getLast?_eq_none_iff.1 hx
      subst this
      simpa using ‹Linked hashOf (hashOf x) R›
    | some y =>
      rw [hx] at this
      rw [List.getLast?_cons, hx]
      exact this

theorem linked_prefix (hashOf : Src H → H) : ∀ (A R : List (Src H)) (h : H), Linked hashOf h (A ++ R) → Linked hashOf h A := by
  intro A
  induction A with
  | nil => intro _ _ _; trivial
  | cons x xs ih => intro R h hl; exact ⟨hl.1, ih R _ hl.2⟩

theorem lookup_update {ps : List (PeerSt H)} {p : Nat} {q q' : PeerSt H} (h : lookup ps p = some q) (hid : q'.id = q.id) :
    lookup (update ps q') p = some q' := by
  have hqid : q.id = p := (lookup_mem h).2
  unfold lookup at h ⊢
  unfold update
  induction ps with
  | nil => simp at h
  | cons a rest ih =>
    rw [List.map_cons, List.find?_cons]
    rw [List.find?_cons] at h
    cases hc : (a.id == p) with
    | true =>
      rw [hc] at h
      simp only [Option.some.injEq] at h
      subst h
      have h1 : (a.id == q'.id) = true := by rw [hid]; simp
      have h2 : (q'.id == p) = true := by rw [hid]; exact hc
      simp only [h1, if_true, h2]
    | false =>
      rw [hc] at h
      simp only [] at h
      have h1 : (a.id == q'.id) = false := by rw [hid, hqid]; exact hc
      simp only [h1, Bool.false_eq_true, if_false, hc]
      exact ih h

/-- the request goes out when the duplicate filter holds another begin hash (or nothing) -/
theorem pushGetHeaders_fresh (q : PeerSt H) (loc : List H) (stop : H) (hne : q.prevBegin ≠ loc.head?) (hd : q.disc = false) :
    pushGetHeaders q loc stop =
      ({ q with prevBegin := loc.head?, prevStop := some stop }, [Action.getheaders q.id loc stop]) := by
  unfold pushGetHeaders
  have : decide (q.prevBegin = loc.head?) = false := by simp [hne]
  simp [this, hd]

theorem pushTo_fresh (st : State H) (p : Nat) (q : PeerSt H) (loc : List H) (stop : H)
    (hq : lookup st.peers p = some q) (hne : q.prevBegin ≠ loc.head?) (hd : q.disc = false) :
    pushTo st p loc stop =
      ({ st with peers := update st.peers { q with prevBegin := loc.head?, prevStop := some stop } },
        [Action.getheaders p loc stop]) := by
  obtain ⟨_, hid⟩ := lookup_mem hq
  unfold pushTo
  rw [hq]
  simp only [pushGetHeaders_fresh q loc stop hne hd, hid]

theorem getElem?_of_split {α : Type} (done rest pre post : List α) (x : α) (h : done ++ rest = pre ++ x :: post)
    (hle : done.length ≤ pre.length) : rest[pre.length - done.length]? = some x := by
  have h1 : (done ++ rest)[pre.length]? = some x := by
    rw [h]; simp
  rw [List.getElem?_append_right hle] at h1
  exact h1

/-- with the next checkpoint's hash as stop hash, the node's answer ends at the checkpoint at the latest, and if it
    reaches the checkpoint height it carries the checkpoint's hash there -/
theorem batch_cp (hashOf : Src H → H) (C done rest : List (Src H)) (hsplit : C = done ++ rest) (c : Nat × H) (cap : Nat)
    (hcons : ∃ pre x post, C = pre ++ x :: post ∧ pre.length + 1 = c.1 ∧ hashOf x = c.2) (hk : done.length < c.1) :
    done.length + (cutAtStop hashOf c.2 (rest.take cap)).length ≤ c.1 ∧
      ∀ i (hi : i < (cutAtStop hashOf c.2 (rest.take cap)).length), done.length + i + 1 = c.1 →
        hashOf (cutAtStop hashOf c.2 (rest.take cap))[i] = c.2 := by
  obtain ⟨pre, x, post, hC, hlen, hx⟩ := hcons
  have hle : done.length ≤ pre.length := by omega
  have hj : rest[pre.length - done.length]? = some x :=
    getElem?_of_split done rest pre post x (by rw [← hsplit, hC]) hle
  obtain ⟨R1, hR1⟩ := cutAtStop_prefix hashOf c.2 (rest.take cap)
  have hBle : (cutAtStop hashOf c.2 (rest.take cap)).length ≤ cap := by
    have h1 : (rest.take cap).length ≤ cap := List.length_take_le _ _
    have h2 : (rest.take cap).length = (cutAtStop hashOf c.2 (rest.take cap)).length + R1.length := by
      conv => lhs; rw [hR1]
      rw [List.length_append]
    omega
  constructor
  · by_cases hjc : pre.length - done.length < cap
    · have : (rest.take cap)[pre.length - done.length]? = some x := by
        rw [List.getElem?_take_of_lt hjc]; exact hj
      have := cutAtStop_length_le hashOf c.2 _ _ x this hx
      omega
    · omega
  · intro i hi he
    have hi' : i = pre.length - done.length := by omega
    have hic : i < cap := by omega
    have h1 : (cutAtStop hashOf c.2 (rest.take cap))[i]? = some x := by
      have h2 : (rest.take cap)[i]? = some x := by
        rw [List.getElem?_take_of_lt hic, hi']; exact hj
      rw [hR1, List.getElem?_append_left hi] at h2
      exact h2
    have : (cutAtStop hashOf c.2 (rest.take cap))[i] = x := by
      rw [List.getElem?_eq_getElem hi] at h1
      exact Option.some.inj h1
    rw [this]; exact hx

/-- handleHeadersMsg after a completely processed batch that brought a longest-chain header -/
theorem handleHeadersCore_completed (cfg : Cfg H) (st : State H) (p : Nat) (q : PeerSt H) (hs : List (Src H)) (s' : Store H)
    (rc : Bool) (fh : H) (hq : lookup st.peers p = some q) (hin : q.inMap = true) (hf : st.headersFirst = true)
    (hne : hs.isEmpty = false)
    (hl : headersLoop cfg.chain st.nextCp st.store hs false none = (s', rc, some fh, .completed)) :
    handleHeadersCore cfg st p hs =
      if rc = true then
        match st.nextCp with
        | none => ({ st with store := s' }, [.panic])
        | some prev =>
          match findNext cfg.checkpoints prev.1 with
          | some c => pushTo { st with store := s', nextCp := some c } p [prev.2] c.2
          | none => pushTo { st with store := s', nextCp := none } p (locator s') cfg.zero
      else
        match st.nextCp with
        | none => pushTo { st with store := s' } p (locator s') cfg.zero
        | some c => pushTo { st with store := s' } p (locator s') c.2 := by
  unfold handleHeadersCore
  rw [hq]
  simp only [hin, hf, hne, hl, Bool.not_true, Bool.false_eq_true, if_false]
  cases rc <;> cases st.nextCp <;> rfl

/-! ### one round of linear catch-up -/

/-- the fixed data: a conformant node whose best chain `C` sits on the genesis row `g`; new, clean, positive-work
    headers; an ascending checkpoint list that `C` contains -/
structure LinSetup (cfg : Cfg H) (g : Row H) (C : List (Src H)) (n : Node H) : Prop where
  gen : n.genesis = g.hash
  chain : n.chain = C
  cap : 1 ≤ n.cap
  linked : Linked cfg.chain.hashOf g.hash C
  nodup : (g.hash :: C.map cfg.chain.hashOf).Nodup
  clean : ∀ x ∈ C, cfg.chain.hashOf x ∉ cfg.chain.forbidden
  work : ∀ x ∈ C, work x.bits ≠ 0
  zeroFresh : cfg.zero ∉ C.map cfg.chain.hashOf     -- the all-zero hash is nobody's hash
  asc : Asc cfg.checkpoints
  consistent : ∀ c ∈ cfg.checkpoints, ∃ pre x post, C = pre ++ x :: post ∧ pre.length + 1 = c.1 ∧ cfg.chain.hashOf x = c.2

/-- where the checkpoint cursor belongs when the tip has height `k` -/
def cursorOf (cfg : Cfg H) (k : Nat) : Option (Nat × H) := if cfg.disableCp then none else findNext cfg.checkpoints k

/-- the stop hash of a request under this cursor -/
def stopOf (cfg : Cfg H) (nc : Option (Nat × H)) : H :=
  match nc with
  | some c => c.2
  | none => cfg.zero

/-- the state between two rounds: `done` is stored (one chain, top = its last header), `rest` is still missing,
    `req` is the request on its way to the sync peer `p` -/
structure LinInv (cfg : Cfg H) (g : Row H) (C : List (Src H)) (p : Nat) (st : State H) (done rest : List (Src H))
    (req : List H × H) : Prop where
  split : C = done ++ rest
  hf : st.headersFirst = true
  cursor : st.nextCp = cursorOf cfg done.length
  stop : req.2 = stopOf cfg st.nextCp
  core : ∃ t q, Top st.store t ∧ t.height = done.length ∧ t.hash = lastHash cfg.chain.hashOf g.hash done ∧
      st.store.map (·.hash) = g.hash :: done.map cfg.chain.hashOf ∧
      lookup st.peers p = some q ∧ q.inMap = true ∧ q.disc = false ∧ q.prevBegin = some t.hash ∧
      req.1.head? = some t.hash

theorem cursorOf_some {cfg : Cfg H} {k : Nat} {c : Nat × H} (h : cursorOf cfg k = some c) :
    cfg.disableCp = false ∧ findNext cfg.checkpoints k = some c := by
  unfold cursorOf at h
  cases hd : cfg.disableCp with
  | true => rw [hd] at h; simp at h
  | false => rw [hd] at h; simpa using h

theorem lastHash_getElem (hashOf : Src H → H) (h : H) (B : List (Src H)) (hB : B ≠ []) :
    ∃ (hi : B.length - 1 < B.length), lastHash hashOf h B = hashOf B[B.length - 1] := by
  have hpos : 0 < B.length := List.length_pos_iff.2 hB
  refine ⟨by omega, ?_⟩
  unfold lastHash
  rw [List.getLast?_eq_getElem?, List.getElem?_eq_getElem (by omega)]

/-- the end of a round: the request that goes out and the invariant it re-establishes -/
theorem lin_round_finish {cfg : Cfg H} {g : Row H} {C : List (Src H)} {p : Nat} {st : State H}
    {doneB rest' : List (Src H)} {t' : Row H} {q : PeerSt H} {s' : Store H}
    (hq : lookup st.peers p = some q) (hin : q.inMap = true) (hdisc : q.disc = false)
    (hprev : q.prevBegin ≠ some t'.hash) (gtop : Top s' t') (ht'h : t'.height = doneB.length)
    (ht'hash : t'.hash = lastHash cfg.chain.hashOf g.hash doneB)
    (gmap : s'.map (·.hash) = g.hash :: doneB.map cfg.chain.hashOf) (hsplit : C = doneB ++ rest')
    (hf : st.headersFirst = true) (nc' : Option (Nat × H)) (loc' : List H)
    (hnc' : nc' = cursorOf cfg doneB.length) (hhead' : loc'.head? = some t'.hash) :
    (pushTo { st with store := s', nextCp := nc' } p loc' (stopOf cfg nc')).2 =
        [Action.getheaders p loc' (stopOf cfg nc')] ∧
      LinInv cfg g C p (pushTo { st with store := s', nextCp := nc' } p loc' (stopOf cfg nc')).1 doneB rest'
        (loc', stopOf cfg nc') := by
  have hne : q.prevBegin ≠ loc'.head? := by rw [hhead']; exact hprev
  have hpush := pushTo_fresh { st with store := s', nextCp := nc' } p q loc' (stopOf cfg nc') hq hne hdisc
  rw [hpush]
  refine ⟨rfl, ⟨hsplit, hf, hnc', rfl, ?_⟩⟩
  refine ⟨t', { q with prevBegin := loc'.head?, prevStop := some (stopOf cfg nc') }, gtop, ht'h, ht'hash, gmap, ?_, hin, hdisc,
    hhead', hhead'⟩
  exact lookup_update hq rfl

/-- ONE ROUND. With headers still missing, the node's answer to the outstanding request is a non-empty batch of the
    next headers; handling it stores them all, keeps the cursor where it belongs, and sends exactly one new request
    to the same peer, which starts at the new tip and stops at the cursor (zero hash when there is none). -/
theorem lin_round {cfg : Cfg H} {g : Row H} {C : List (Src H)} {n : Node H} {p : Nat} {st : State H}
    {done rest : List (Src H)} {req : List H × H} (hs : LinSetup cfg g C n) (hi : LinInv cfg g C p st done rest req)
    (hne : rest ≠ []) :
    ∃ B rest' req', rest = B ++ rest' ∧ B ≠ [] ∧ B.length ≤ n.cap ∧
      (B.length = n.cap ∨ rest' = [] ∨ ∃ c, st.nextCp = some c ∧ (done ++ B).length = c.1) ∧
      reply cfg.chain.hashOf n req.1 req.2 = B ∧
      (handleHeaders cfg st p B).2 = [Action.getheaders p req'.1 req'.2] ∧
      LinInv cfg g C p (handleHeaders cfg st p B).1 (done ++ B) rest' req' := by
  obtain ⟨t, q, htop, hth, hthash, hmap, hq, hin, hdisc, hprev, hhead⟩ := hi.core
  have hsplit := hi.split
  -- the request starts at the tip
  obtain ⟨more, hloc⟩ : ∃ more, req.1 = t.hash :: more := by
    cases hr : req.1 with
    | nil => rw [hr] at hhead; simp at hhead
    | cons a more =>
      rw [hr] at hhead
      simp only [List.head?_cons, Option.some.injEq] at hhead
      exact ⟨more, by rw [hhead]⟩
  -- the node's answer
  have hstart : startOf cfg.chain.hashOf n (t.hash :: more) = done.length :=
    startOf_tip cfg.chain.hashOf n done rest t.hash more (by rw [hs.chain]; exact hsplit)
      (by rw [hs.gen, hs.chain]; exact hs.nodup) (by rw [hthash, hs.gen]; rfl)
  have hreply : reply cfg.chain.hashOf n req.1 req.2 = cutAtStop cfg.chain.hashOf req.2 (rest.take n.cap) := by
    unfold reply
    rw [hloc, hstart, hs.chain, hsplit, List.drop_left]
  have htake_ne : rest.take n.cap ≠ [] := by
    cases rest with
    | nil => exact absurd rfl hne
    | cons a r =>
      have := hs.cap
      cases hc : n.cap with
      | zero => omega
      | succ m => simp
  have hBne := cutAtStop_ne_nil cfg.chain.hashOf req.2 htake_ne
  obtain ⟨R1, hR1⟩ := cutAtStop_prefix cfg.chain.hashOf req.2 (rest.take n.cap)
  obtain ⟨R2, hR2⟩ := take_prefix n.cap rest
  have hBcap : (cutAtStop cfg.chain.hashOf req.2 (rest.take n.cap)).length ≤ n.cap := by
    have h1 : (rest.take n.cap).length ≤ n.cap := List.length_take_le _ _
    have h2 : (rest.take n.cap).length = (cutAtStop cfg.chain.hashOf req.2 (rest.take n.cap)).length + R1.length := by
      conv => lhs; rw [hR1]
      rw [List.length_append]
    omega
  -- name the batch
  generalize hB : cutAtStop cfg.chain.hashOf req.2 (rest.take n.cap) = B at hreply hBne hR1 hBcap
  have hrest : rest = B ++ (R1 ++ R2) := by
    conv => lhs; rw [hR2, hR1]
    rw [List.append_assoc]
  have hCsplit : C = done ++ B ++ (R1 ++ R2) := by rw [hsplit, hrest, List.append_assoc]
  have hBsub : ∀ x ∈ B, x ∈ C := by
    intro x hx; rw [hCsplit]; exact List.mem_append_left _ (List.mem_append_right _ hx)
  -- why the batch is as long as it is: a full reply, or everything that was missing, or it ends on the checkpoint
  have hprog : B.length = n.cap ∨ (R1 ++ R2) = [] ∨ ∃ c, st.nextCp = some c ∧ (done ++ B).length = c.1 := by
    rcases cutAtStop_cases cfg.chain.hashOf req.2 (rest.take n.cap) with e | ⟨y, hy, hyh⟩
    · rw [hB] at e
      by_cases hle : n.cap ≤ rest.length
      · left; rw [e, List.length_take]; omega
      · right; left
        have htk : rest.take n.cap = rest := List.take_of_length_le (by omega)
        have hlen : rest.length = B.length + (R1 ++ R2).length := by
          conv => lhs; rw [hrest]
          rw [List.length_append]
        have : B.length = rest.length := by rw [e, htk]
        exact List.length_eq_zero_iff.1 (by omega)
    · rw [hB] at hy
      right; right
      have hpos : 0 < B.length := List.length_pos_iff.2 hBne
      have hyB : B[B.length - 1]? = some y := by rw [← List.getLast?_eq_getElem?]; exact hy
      have hyC : C[done.length + (B.length - 1)]? = some y := by
        rw [hCsplit, List.append_assoc, List.getElem?_append_right (by omega)]
        simp only [Nat.add_sub_cancel_left]
        rw [List.getElem?_append_left (by omega)]
        exact hyB
      cases hnc : st.nextCp with
      | none =>
        exfalso
        have hz : req.2 = cfg.zero := by rw [hi.stop, hnc]; rfl
        apply hs.zeroFresh
        rw [← hz, ← hyh]
        exact List.mem_map.2 ⟨y, List.mem_of_getElem? hyC, rfl⟩
      | some c =>
        refine ⟨c, rfl, ?_⟩
        have hcur := hi.cursor
        rw [hnc] at hcur
        obtain ⟨_, hfn⟩ := cursorOf_some hcur.symm
        obtain ⟨hcm, _, _⟩ := (findNext_spec cfg.checkpoints hs.asc done.length).1 c hfn
        obtain ⟨pre, x, post, hC, hlen, hx⟩ := hs.consistent c hcm
        have hxC : C[pre.length]? = some x := by rw [hC]; simp
        have hstop : req.2 = c.2 := by rw [hi.stop, hnc]; rfl
        have hnd : (C.map cfg.chain.hashOf).Nodup := (List.nodup_cons.1 hs.nodup).2
        have := index_unique cfg.chain.hashOf C _ _ y x hnd hyC hxC (by rw [hyh, hstop, hx])
        rw [List.length_append]; omega
  -- hypotheses of the batch lemma
  have hlinkB : Linked cfg.chain.hashOf t.hash B := by
    rw [hthash]
    have h1 : Linked cfg.chain.hashOf g.hash (done ++ (B ++ (R1 ++ R2))) := by
      rw [← List.append_assoc, ← hCsplit]; exact hs.linked
    exact linked_prefix _ _ _ _ (linked_split _ _ _ _ h1)
  have hndB : (st.store.map (·.hash) ++ B.map cfg.chain.hashOf).Nodup := by
    rw [hmap]
    have hsub : List.Sublist (g.hash :: List.map cfg.chain.hashOf done ++ List.map cfg.chain.hashOf B)
        (g.hash :: C.map cfg.chain.hashOf) := by
      rw [hCsplit, List.map_append, List.map_append, List.cons_append]
      exact List.Sublist.cons_cons _ (List.sublist_append_left _ _)
    exact List.Nodup.sublist hsub hs.nodup
  have hcpB : ∀ c, st.nextCp = some c → t.height + B.length ≤ c.1 ∧
      ∀ i (hi : i < B.length), t.height + i + 1 = c.1 → cfg.chain.hashOf B[i] = c.2 := by
    intro c hc
    have hcur := hi.cursor
    rw [hc] at hcur
    obtain ⟨_, hfn⟩ := cursorOf_some hcur.symm
    obtain ⟨hcm, hck, _⟩ := (findNext_spec cfg.checkpoints hs.asc done.length).1 c hfn
    have hstop : req.2 = c.2 := by rw [hi.stop, hc]; rfl
    have := batch_cp cfg.chain.hashOf C done rest hsplit c n.cap (hs.consistent c hcm) hck
    rw [hstop] at hB
    rw [hB] at this
    rw [hth]
    exact this
  obtain ⟨t', gend, gtop, ght, gmap, gfh, ghash, grc⟩ :=
    headersLoop_linear cfg.chain st.nextCp B st.store t false none htop hlinkB hndB
      (fun x hx => hs.clean x (hBsub x hx)) (fun x hx => hs.work x (hBsub x hx)) hcpB
  have gfh' := gfh hBne
  -- the loop result as a tuple
  have hl : headersLoop cfg.chain st.nextCp st.store B false none =
      ((headersLoop cfg.chain st.nextCp st.store B false none).1, (headersLoop cfg.chain st.nextCp st.store B false none).2.1,
        some t'.hash, .completed) := by
    rw [← gfh', ← gend]
  have hBemp : B.isEmpty = false := by
    cases B with
    | nil => exact absurd rfl hBne
    | cons _ _ => rfl
  -- the new top's hash
  have ht'hash : t'.hash = lastHash cfg.chain.hashOf g.hash (done ++ B) := by
    rw [lastHash_append_ne_nil _ _ _ _ hBne, ghash]
    unfold lastHash
    cases hb : B.getLast? with
    | none => exact absurd (List.getLast?_eq_none_iff.1 hb) hBne
    | some y => rfl
  have hnew : t'.hash ≠ t.hash := by
    obtain ⟨hi', hlast⟩ := lastHash_getElem cfg.chain.hashOf t.hash B hBne
    rw [ghash, hlast]
    intro e
    have hmemB : cfg.chain.hashOf B[B.length - 1] ∈ B.map cfg.chain.hashOf := List.mem_map.2 ⟨_, List.getElem_mem hi', rfl⟩
    have hmemS : t.hash ∈ st.store.map (·.hash) := List.mem_map.2 ⟨t, htop.mem, rfl⟩
    exact (List.nodup_append.1 hndB).2.2 _ hmemS _ hmemB e.symm
  have ht'h : t'.height = (done ++ B).length := by rw [ght, hth, List.length_append]
  have gmap' : (headersLoop cfg.chain st.nextCp st.store B false none).1.map (·.hash) =
      g.hash :: (done ++ B).map cfg.chain.hashOf := by
    rw [gmap, hmap, List.map_append]; rfl
  have hCsplit' : C = (done ++ B) ++ (R1 ++ R2) := hCsplit
  have hhead_loc : (locator (headersLoop cfg.chain st.nextCp st.store B false none).1).head? = some t'.hash := by
    obtain ⟨r', hr'⟩ := locator_head gtop.getTip
    rw [hr']; rfl
  -- the inHandler's part (F4b switch), then the manager's
  have hq1 : lookup (onHeadersReceived st.peers p) p = some (headersSeen q) := lookup_onHeadersReceived hq
  have hin1 : (headersSeen q).inMap = true := by rw [headersSeen_inMap]; exact hin
  have hdisc1 : (headersSeen q).disc = false := by rw [headersSeen_disc]; exact hdisc
  have hprev1 : (headersSeen q).prevBegin ≠ some t'.hash := by
    rcases headersSeen_prevBegin q with e | e
    · rw [e, hprev]; intro e'; exact hnew (Option.some.inj e').symm
    · rw [e]; intro e'; cases e'
  have hwrap : handleHeaders cfg st p B = handleHeadersCore cfg { st with peers := onHeadersReceived st.peers p } p B := rfl
  have hh := handleHeadersCore_completed cfg { st with peers := onHeadersReceived st.peers p } p (headersSeen q) B _ _ t'.hash
    hq1 hin1 hi.hf hBemp hl
  refine ⟨B, R1 ++ R2, ?_⟩
  by_cases hrc : (headersLoop cfg.chain st.nextCp st.store B false none).2.1 = true
  · -- the batch ended on the checkpoint
    rcases grc.1 hrc with h | ⟨_, c, hc, hkc⟩
    · cases h
    have hcur := hi.cursor
    rw [hc] at hcur
    obtain ⟨hen, hfn⟩ := cursorOf_some hcur.symm
    have hlen : (done ++ B).length = c.1 := by rw [List.length_append, ← hth]; exact hkc
    have hc2 : c.2 = t'.hash := by
      obtain ⟨hi', hlast⟩ := lastHash_getElem cfg.chain.hashOf t.hash B hBne
      rw [ghash, hlast]
      exact ((hcpB c hc).2 (B.length - 1) hi' (by have := List.length_pos_iff.2 hBne; omega)).symm
    rw [if_pos hrc, hc] at hh
    simp only [] at hh
    cases hfn' : findNext cfg.checkpoints c.1 with
    | some c' =>
      rw [hfn'] at hh
      simp only [] at hh
      have hnc' : some c' = cursorOf cfg (done ++ B).length := by
        unfold cursorOf; rw [hen, hlen, hfn']; rfl
      have := lin_round_finish (cfg := cfg) (g := g) (C := C) (st := { st with peers := onHeadersReceived st.peers p }) hq1 hin1 hdisc1 hprev1 gtop ht'h ht'hash gmap'
        hCsplit' hi.hf (some c') [c.2] hnc' (by rw [hc2]; rfl)
      rw [hc] at this
      refine ⟨([c.2], c'.2), hrest, hBne, hBcap, hprog, hreply, ?_, ?_⟩
      · rw [hwrap, hc, hh]; exact this.1
      · rw [hwrap, hc, hh]; exact this.2
    | none =>
      rw [hfn'] at hh
      simp only [] at hh
      have hnc' : none = cursorOf cfg (done ++ B).length := by
        unfold cursorOf; rw [hen, hlen, hfn']; rfl
      have := lin_round_finish (cfg := cfg) (g := g) (C := C) (st := { st with peers := onHeadersReceived st.peers p }) hq1 hin1 hdisc1 hprev1 gtop ht'h ht'hash gmap'
        hCsplit' hi.hf none (locator (headersLoop cfg.chain st.nextCp st.store B false none).1) hnc' hhead_loc
      rw [hc] at this
      refine ⟨(locator (headersLoop cfg.chain (some c) st.store B false none).1, cfg.zero), hrest, hBne, hBcap, hprog, hreply, ?_, ?_⟩
      · rw [hwrap, hc, hh]; exact this.1
      · rw [hwrap, hc, hh]; exact this.2
  · -- the cursor stays
    rw [if_neg hrc] at hh
    have hnot : ¬ (B ≠ [] ∧ ∃ c, st.nextCp = some c ∧ t.height + B.length = c.1) := fun h => hrc (grc.2 (Or.inr h))
    cases hnc : st.nextCp with
    | none =>
      rw [hnc] at hh
      simp only [] at hh
      have hnc' : none = cursorOf cfg (done ++ B).length := by
        have hcur := hi.cursor
        rw [hnc] at hcur
        unfold cursorOf at hcur ⊢
        cases hd : cfg.disableCp with
        | true => rfl
        | false =>
          rw [hd] at hcur
          simp only [Bool.false_eq_true, if_false] at hcur ⊢
          exact (findNext_none_mono cfg.checkpoints hs.asc done.length _ hcur.symm
            (by rw [List.length_append]; omega)).symm
      have hst : ({ ({ st with peers := onHeadersReceived st.peers p } : State H) with store := (headersLoop cfg.chain st.nextCp st.store B false none).1 } : State H) =
          { ({ st with peers := onHeadersReceived st.peers p } : State H) with store := (headersLoop cfg.chain st.nextCp st.store B false none).1, nextCp := none } := by
        cases st; simp only [] at hnc; subst hnc; rfl
      rw [hnc] at hst
      have := lin_round_finish (cfg := cfg) (g := g) (C := C) (st := { st with peers := onHeadersReceived st.peers p }) hq1 hin1 hdisc1 hprev1 gtop ht'h ht'hash gmap'
        hCsplit' hi.hf none (locator (headersLoop cfg.chain st.nextCp st.store B false none).1) hnc' hhead_loc
      rw [hnc] at this
      refine ⟨(locator (headersLoop cfg.chain none st.store B false none).1, cfg.zero), hrest, hBne, hBcap, (by rw [← hnc]; exact hprog), hreply, ?_, ?_⟩
      · rw [hwrap, hnc, hh, hst]; exact this.1
      · rw [hwrap, hnc, hh, hst]; exact this.2
    | some c =>
      rw [hnc] at hh
      simp only [] at hh
      have hklt : (done ++ B).length < c.1 := by
        have h1 := (hcpB c hnc).1
        have h2 : t.height + B.length ≠ c.1 := fun e => hnot ⟨hBne, c, hnc, e⟩
        rw [List.length_append, ← hth]; omega
      have hnc' : some c = cursorOf cfg (done ++ B).length := by
        have hcur := hi.cursor
        rw [hnc] at hcur
        obtain ⟨hen, hfn⟩ := cursorOf_some hcur.symm
        unfold cursorOf
        rw [hen]
        simp only [Bool.false_eq_true, if_false]
        exact (findNext_stable cfg.checkpoints hs.asc done.length _ c hfn (by rw [List.length_append]; omega) hklt).symm
      have hst : ({ ({ st with peers := onHeadersReceived st.peers p } : State H) with store := (headersLoop cfg.chain st.nextCp st.store B false none).1 } : State H) =
          { ({ st with peers := onHeadersReceived st.peers p } : State H) with store := (headersLoop cfg.chain st.nextCp st.store B false none).1, nextCp := some c } := by
        cases st; simp only [] at hnc; subst hnc; rfl
      rw [hnc] at hst
      have := lin_round_finish (cfg := cfg) (g := g) (C := C) (st := { st with peers := onHeadersReceived st.peers p }) hq1 hin1 hdisc1 hprev1 gtop ht'h ht'hash gmap'
        hCsplit' hi.hf (some c) (locator (headersLoop cfg.chain st.nextCp st.store B false none).1) hnc' hhead_loc
      rw [hnc] at this
      refine ⟨(locator (headersLoop cfg.chain (some c) st.store B false none).1, c.2), hrest, hBne, hBcap, (by rw [← hnc]; exact hprog), hreply, ?_, ?_⟩
      · rw [hwrap, hnc, hh, hst]; exact this.1
      · rw [hwrap, hnc, hh, hst]; exact this.2

/-! ### the closed loop terminates on the node's chain -/

theorem rounds_none (cfg : Cfg H) (n : Node H) (p : Nat) (k : Nat) (st : State H) :
    rounds cfg n p k (st, none) = (st, none) := by
  cases k <;> rfl

theorem lin_final {cfg : Cfg H} {g : Row H} {C : List (Src H)} {n : Node H} {p : Nat} {st : State H}
    {done : List (Src H)} {req : List H × H} (hs : LinSetup cfg g C n) (hi : LinInv cfg g C p st done [] req) :
    reply cfg.chain.hashOf n req.1 req.2 = [] ∧ (handleHeaders cfg st p []).2 = [] ∧
      (handleHeaders cfg st p []).1.store = st.store := by
  obtain ⟨t, q, htop, hth, hthash, hmap, hq, hin, hdisc, hprev, hhead⟩ := hi.core
  obtain ⟨more, hloc⟩ : ∃ more, req.1 = t.hash :: more := by
    cases hr : req.1 with
    | nil => rw [hr] at hhead; simp at hhead
    | cons a more =>
      rw [hr] at hhead
      simp only [List.head?_cons, Option.some.injEq] at hhead
      exact ⟨more, by rw [hhead]⟩
  have hstart : startOf cfg.chain.hashOf n (t.hash :: more) = done.length :=
    startOf_tip cfg.chain.hashOf n done [] t.hash more (by rw [hs.chain]; exact hi.split)
      (by rw [hs.gen, hs.chain]; exact hs.nodup) (by rw [hthash, hs.gen]; rfl)
  constructor
  · unfold reply
    rw [hloc, hstart, hs.chain, hi.split, List.drop_left, List.take_nil]
    rfl
  · have hq1 : lookup (onHeadersReceived st.peers p) p = some (headersSeen q) := lookup_onHeadersReceived hq
    unfold handleHeaders handleHeadersCore
    simp only [hq1]
    simp [headersSeen_inMap, hin, hi.hf]

/-- what "synced" means: the table is exactly the node's chain on top of genesis, its last header is the tip -/
def SyncedTo (ccfg : Chain.Cfg H) (g : Row H) (C : List (Src H)) (s : Store H) : Prop :=
  s.map (·.hash) = g.hash :: C.map ccfg.hashOf ∧
    ∃ t, getTip s = some t ∧ t.hash = lastHash ccfg.hashOf g.hash C ∧ t.height = C.length ∧ ∀ r ∈ s, r.st = .lc

/-- from any point of a linear catch-up the loop becomes quiescent within (missing headers + 1) rounds, synced -/
theorem lin_rounds {cfg : Cfg H} {g : Row H} {C : List (Src H)} {n : Node H} {p : Nat} (hs : LinSetup cfg g C n) :
    ∀ (m : Nat) (st : State H) (done rest : List (Src H)) (req : List H × H), rest.length = m →
      LinInv cfg g C p st done rest req →
      ∃ k st', k ≤ rest.length + 1 ∧ rounds cfg n p k (st, some req) = (st', none) ∧ SyncedTo cfg.chain g C st'.store := by
  intro m
  induction m using Nat.strongRecOn with
  | _ m ih =>
    intro st done rest req hm hi
    by_cases hne : rest = []
    · subst hne
      obtain ⟨hr, hh, hst⟩ := lin_final hs hi
      refine ⟨1, (handleHeaders cfg st p []).1, by simp, ?_, ?_⟩
      · show rounds cfg n p 0 _ = _
        rw [hr, hh]; rfl
      · obtain ⟨t, q, htop, hth, hthash, hmap, _⟩ := hi.core
        have hC : C = done := by rw [hi.split, List.append_nil]
        rw [hst]
        refine ⟨by rw [hmap, hC], t, htop.getTip, by rw [hthash, hC], by rw [hth, hC], htop.lc⟩
    · obtain ⟨B, rest', req', hrest, hBne, _, _, hreply, hact, hinv'⟩ := lin_round hs hi hne
      have hlt : rest'.length < m := by
        rw [← hm, hrest, List.length_append]
        have := List.length_pos_iff.2 hBne
        omega
      obtain ⟨k, st', hk, hrounds, hsync⟩ := ih rest'.length hlt _ _ _ _ rfl hinv'
      refine ⟨k + 1, st', ?_, ?_, hsync⟩
      · rw [hrest, List.length_append]
        have := List.length_pos_iff.2 hBne
        omega
      · show rounds cfg n p k _ = _
        rw [hreply, hact]
        have : requestTo p [Action.getheaders p req'.1 req'.2] = some req' := by
          unfold requestTo; simp
        rw [this]
        exact hrounds

/-! ### how a linear catch-up starts: New, then the first peer -/

/-- ingesting a linked, new, clean, positive-work chain into the genesis-only table gives the one-chain store -/
theorem run_linear (ccfg : Chain.Cfg H) (g : Row H) (A : List (Src H)) (hg : g.st = .lc)
    (hl : Linked ccfg.hashOf g.hash A) (hn : (g.hash :: A.map ccfg.hashOf).Nodup)
    (hc : ∀ x ∈ A, ccfg.hashOf x ∉ ccfg.forbidden) (hw : ∀ x ∈ A, work x.bits ≠ 0) :
    ∃ t, Top (run ccfg [g] A) t ∧ t.height = g.height + A.length ∧ t.hash = lastHash ccfg.hashOf g.hash A ∧
      (run ccfg [g] A).map (·.hash) = g.hash :: A.map ccfg.hashOf := by
  have htop : Top [g] g := by
    refine ⟨List.mem_singleton.2 rfl, ?_, ?_, ?_, ?_⟩
    · intro r hr; rw [List.mem_singleton.1 hr]; exact hg
    · intro r hr; rw [List.mem_singleton.1 hr]; exact Nat.le_refl _
    · intro r hr _; exact List.mem_singleton.1 hr
    · simp
  obtain ⟨t', gend, gtop, ght, gmap, _, ghash, _⟩ :=
    headersLoop_linear ccfg none A [g] g false none htop hl (by simpa using hn) hc hw (fun c h => by cases h)
  have hrun := headersLoop_store_completed ccfg none A [g] false none gend
  rw [hrun] at gtop gmap
  exact ⟨t', gtop, ght, ghash, by rw [gmap]; rfl⟩

/-- headersFirstMode as New leaves it -/
def newHeadersFirst (cfg : Cfg H) (store : Store H) : Bool :=
  if cfg.disableCp then f4aFixed else (findNext cfg.checkpoints (tipHeight store)).isNone

theorem new_eq (cfg : Cfg H) (store : Store H) :
    new cfg store = { peers := [], syncPeer := none, headersFirst := newHeadersFirst cfg store,
                      nextCp := cursorOf cfg (tipHeight store), store := store } := by
  unfold new cursorOf newHeadersFirst
  cases cfg.disableCp <;> rfl

/-- the peer object of a freshly announced candidate -/
def freshPeer (p : Nat) (lastBlock : Int) : PeerSt H :=
  { id := p, inMap := true, candidate := true, lastBlock := lastBlock, startHeight := lastBlock,
    prevBegin := none, prevStop := none, disc := false }

/-- the peer object after a request went out -/
def asked (q : PeerSt H) (b : Option H) (stop : H) : PeerSt H := { q with prevBegin := b, prevStop := some stop }

/-- startSync with exactly one candidate, whose advertised height is not below ours -/
theorem startSync_single (cfg : Cfg H) (p pick : Nat) (lb : Int) (hf0 : Bool) (nc0 : Option (Nat × H)) (store0 : Store H)
    (hlb : (tipHeight store0 : Int) ≤ lb) :
    startSync cfg { peers := [freshPeer p lb], syncPeer := none, headersFirst := hf0, nextCp := nc0, store := store0 } pick =
      match (match nc0 with | some c => if tipHeight store0 < c.1 then some c else none | none => none) with
      | some c =>
        ({ peers := [asked (freshPeer p lb) (locator store0).head? c.2], syncPeer := some p, headersFirst := true, nextCp := nc0, store := store0 }, [Action.getheaders p (locator store0) c.2])
      | none =>
        ({ peers := [asked (freshPeer p lb) (locator store0).head? cfg.zero], syncPeer := some p, headersFirst := hf0, nextCp := nc0, store := store0 },
          [Action.getheaders p (locator store0) cfg.zero]) := by
  have hcands : syncCandidates ({ peers := [freshPeer p lb], syncPeer := none, headersFirst := hf0, nextCp := nc0, store := store0 } : State H) = [freshPeer p lb] := by
    unfold syncCandidates bestPeers okPeers
    by_cases hlt : (tipHeight store0 : Int) < lb
    · simp [freshPeer, hlt]
    · have heq : lb = (tipHeight store0 : Int) := by omega
      simp [freshPeer, heq]
  have hnlt : ¬ (lb < (tipHeight store0 : Int)) := by omega
  unfold startSync
  simp only [Option.isSome_none, Bool.false_eq_true, if_false, hcands, List.length_singleton, Nat.mod_one,
    List.getElem?_cons_zero]
  cases nc0 with
  | none => simp [pushGetHeaders, freshPeer, asked, update, hnlt]
  | some c =>
    by_cases hk : tipHeight store0 < c.1
    · simp [hk, pushGetHeaders, freshPeer, asked, update, hnlt]
    · simp [hk, pushGetHeaders, freshPeer, asked, update, hnlt]

/-- New on a one-chain store, then the first (candidate) peer whose advertised height is not below ours:
    one request goes out and the round invariant holds -/
theorem lin_start {cfg : Cfg H} {g : Row H} {C : List (Src H)} {n : Node H} (hs : LinSetup cfg g C n) (p pick : Nat)
    (done rest : List (Src H)) (hsplit : C = done ++ rest) (store0 : Store H) (t0 : Row H) (htop : Top store0 t0)
    (hth : t0.height = done.length) (hthash : t0.hash = lastHash cfg.chain.hashOf g.hash done)
    (hmap : store0.map (·.hash) = g.hash :: done.map cfg.chain.hashOf)
    (hen : cfg.disableCp = false ∨ f4aFixed = true) :
    ∃ req, (newPeer cfg (new cfg store0) p true (C.length : Int) pick).2 = [Action.getheaders p req.1 req.2] ∧
      LinInv cfg g C p (newPeer cfg (new cfg store0) p true (C.length : Int) pick).1 done rest req := by
  have htip : tipHeight store0 = done.length := by rw [htop.tipHeight_eq, hth]
  have hle : done.length ≤ C.length := by rw [hsplit, List.length_append]; omega
  obtain ⟨more, hloc⟩ := locator_head htop.getTip
  have hlb : (tipHeight store0 : Int) ≤ (C.length : Int) := by rw [htip]; omega
  have hnp : newPeer cfg (new cfg store0) p true (C.length : Int) pick =
      startSync cfg { peers := [freshPeer p (C.length : Int)], syncPeer := none, headersFirst := newHeadersFirst cfg store0, nextCp := cursorOf cfg (tipHeight store0), store := store0 } pick := by
    rw [new_eq]
    unfold newPeer
    simp [Sync.insert, lookup, freshPeer]
  rw [hnp, startSync_single cfg p pick _ _ _ _ hlb, htip, hloc]
  cases hc : cursorOf cfg done.length with
  | some c =>
    obtain ⟨_, hfn⟩ := cursorOf_some hc
    obtain ⟨_, hk, _⟩ := (findNext_spec cfg.checkpoints hs.asc done.length).1 c hfn
    simp only [hk, if_true]
    refine ⟨(t0.hash :: more, c.2), rfl, ⟨hsplit, rfl, hc.symm, rfl, ?_⟩⟩
    exact ⟨t0, asked (freshPeer p (C.length : Int)) (t0.hash :: more).head? c.2, htop, hth, hthash, hmap, by simp [lookup, freshPeer, asked], rfl, rfl, rfl, rfl⟩
  | none =>
    simp only []
    have hhf : newHeadersFirst cfg store0 = true := by
      unfold newHeadersFirst
      rw [htip]
      cases hd : cfg.disableCp with
      | true =>
        rcases hen with h | h
        · rw [hd] at h; cases h
        · simp [h]
      | false =>
        unfold cursorOf at hc
        rw [hd] at hc
        simp only [Bool.false_eq_true, if_false] at hc
        simp [hc]
    refine ⟨(t0.hash :: more, cfg.zero), rfl, ⟨hsplit, hhf, hc.symm, rfl, ?_⟩⟩
    exact ⟨t0, asked (freshPeer p (C.length : Int)) (t0.hash :: more).head? cfg.zero, htop, hth, hthash, hmap, by simp [lookup, freshPeer, asked], rfl, rfl, rfl, rfl⟩

/-! ### how many rounds: ⌈missing / cap⌉ + (checkpoints still above) + 1 -/

theorem filter_length_le_of_imp {α : Type} (p q : α → Bool) : ∀ l : List α, (∀ a ∈ l, p a = true → q a = true) →
    (l.filter p).length ≤ (l.filter q).length := by
  intro l
  induction l with
  | nil => intro _; exact Nat.le_refl _
  | cons x xs ih =>
    intro h
    have ih' := ih (fun a ha => h a (List.mem_cons_of_mem _ ha))
    cases hp : p x with
    | false =>
      rw [List.filter_cons_of_neg (by simp [hp])]
      cases hq : q x with
      | false => rw [List.filter_cons_of_neg (by simp [hq])]; exact ih'
      | true => rw [List.filter_cons_of_pos hq]; simp only [List.length_cons]; omega
    | true =>
      have hq := h x List.mem_cons_self hp
      rw [List.filter_cons_of_pos hp, List.filter_cons_of_pos hq]
      simp only [List.length_cons]; omega

theorem filter_length_lt_of_imp {α : Type} (p q : α → Bool) : ∀ l : List α, (∀ a ∈ l, p a = true → q a = true) →
    ∀ c ∈ l, q c = true → p c = false → (l.filter p).length < (l.filter q).length := by
  intro l
  induction l with
  | nil => intro _ c hc; cases hc
  | cons x xs ih =>
    intro h c hc hqc hpc
    have hle := filter_length_le_of_imp p q xs (fun a ha => h a (List.mem_cons_of_mem _ ha))
    rcases List.mem_cons.1 hc with e | hm
    · subst e
      rw [List.filter_cons_of_neg (by simp [hpc]), List.filter_cons_of_pos hqc]
      simp only [List.length_cons]; omega
    · have ih' := ih (fun a ha => h a (List.mem_cons_of_mem _ ha)) c hm hqc hpc
      cases hp : p x with
      | false =>
        rw [List.filter_cons_of_neg (by simp [hp])]
        cases hq : q x with
        | false => rw [List.filter_cons_of_neg (by simp [hq])]; exact ih'
        | true => rw [List.filter_cons_of_pos hq]; simp only [List.length_cons]; omega
      | true =>
        have hq := h x List.mem_cons_self hp
        rw [List.filter_cons_of_pos hp, List.filter_cons_of_pos hq]
        simp only [List.length_cons]; omega

/-- checkpoints sync still has to pass -/
def cpAbove (cfg : Cfg H) (k : Nat) : Nat :=
  if cfg.disableCp then 0 else (cfg.checkpoints.filter (fun c => decide (k < c.1))).length

theorem cpAbove_mono (cfg : Cfg H) {k k' : Nat} (h : k ≤ k') : cpAbove cfg k' ≤ cpAbove cfg k := by
  unfold cpAbove
  split
  · exact Nat.le_refl _
  · apply filter_length_le_of_imp
    intro a _ ha
    simp only [decide_eq_true_eq] at ha ⊢
    omega

theorem cpAbove_lt (cfg : Cfg H) {k k' : Nat} (c : Nat × H) (hen : cfg.disableCp = false) (hc : c ∈ cfg.checkpoints)
    (h1 : k < c.1) (h2 : c.1 ≤ k') : cpAbove cfg k' < cpAbove cfg k := by
  unfold cpAbove
  rw [hen]
  simp only [Bool.false_eq_true, if_false]
  apply filter_length_lt_of_imp _ _ _ _ c hc
  · simp only [decide_eq_true_eq]; exact h1
  · simp only [decide_eq_false_iff_not]; omega
  · intro a _ ha
    simp only [decide_eq_true_eq] at ha ⊢
    omega

theorem cpAbove_le (cfg : Cfg H) (k : Nat) : cpAbove cfg k ≤ cfg.checkpoints.length := by
  unfold cpAbove
  split
  · exact Nat.zero_le _
  · exact List.length_filter_le _ _

/-- the measure that every round decreases -/
def potential (cfg : Cfg H) (cap missing k : Nat) : Nat := (missing + cap - 1) / cap + cpAbove cfg k

/-- from any point of a linear catch-up the loop becomes quiescent within
    ⌈missing / cap⌉ + (checkpoints above the tip) + 1 rounds, synced -/
theorem lin_rounds_tight {cfg : Cfg H} {g : Row H} {C : List (Src H)} {n : Node H} {p : Nat} (hs : LinSetup cfg g C n) :
    ∀ (m : Nat) (st : State H) (done rest : List (Src H)) (req : List H × H),
      potential cfg n.cap rest.length done.length = m → LinInv cfg g C p st done rest req →
      ∃ k st', k ≤ m + 1 ∧ rounds cfg n p k (st, some req) = (st', none) ∧ SyncedTo cfg.chain g C st'.store := by
  intro m
  induction m using Nat.strongRecOn with
  | _ m ih =>
    intro st done rest req hm hi
    by_cases hne : rest = []
    · subst hne
      obtain ⟨hr, hh, hst⟩ := lin_final hs hi
      refine ⟨1, (handleHeaders cfg st p []).1, by omega, ?_, ?_⟩
      · show rounds cfg n p 0 _ = _
        rw [hr, hh]; rfl
      · obtain ⟨t, q, htop, hth, hthash, hmap, _⟩ := hi.core
        have hC : C = done := by rw [hi.split, List.append_nil]
        rw [hst]
        refine ⟨by rw [hmap, hC], t, htop.getTip, by rw [hthash, hC], by rw [hth, hC], htop.lc⟩
    · obtain ⟨B, rest', req', hrest, hBne, hBcap, hprog, hreply, hact, hinv'⟩ := lin_round hs hi hne
      have hcap := hs.cap
      have hBpos : 0 < B.length := List.length_pos_iff.2 hBne
      have hlen : rest.length = B.length + rest'.length := by rw [hrest, List.length_append]
      have hk' : (done ++ B).length = done.length + B.length := List.length_append
      have hmono := cpAbove_mono cfg (k := done.length) (k' := (done ++ B).length) (by omega)
      have hdec : potential cfg n.cap rest'.length (done ++ B).length < m := by
        rw [← hm]
        unfold potential
        rcases hprog with hfull | hend | ⟨c, hc, hkc⟩
        · -- a full reply
          have : (rest.length + n.cap - 1) / n.cap = (rest'.length + n.cap - 1) / n.cap + 1 := by
            rw [hlen, hfull]
            have : n.cap + rest'.length + n.cap - 1 = (rest'.length + n.cap - 1) + n.cap := by omega
            rw [this, Nat.add_div_right _ (by omega)]
          omega
        · -- everything that was missing
          rw [hend]
          have h0 : (([] : List (Src H)).length + n.cap - 1) / n.cap = 0 := by
            simp only [List.length_nil, Nat.zero_add]
            exact Nat.div_eq_of_lt (by omega)
          have h1 : 1 ≤ (rest.length + n.cap - 1) / n.cap := by
            apply (Nat.le_div_iff_mul_le (by omega)).2
            omega
          omega
        · -- the batch ends on the checkpoint
          have hcur := hi.cursor
          rw [hc] at hcur
          obtain ⟨hen, hfn⟩ := cursorOf_some hcur.symm
          obtain ⟨hcm, hck, _⟩ := (findNext_spec cfg.checkpoints hs.asc done.length).1 c hfn
          have hlt := cpAbove_lt cfg (k := done.length) (k' := (done ++ B).length) c hen hcm hck (by omega)
          have hle : (rest'.length + n.cap - 1) / n.cap ≤ (rest.length + n.cap - 1) / n.cap :=
            Nat.div_le_div_right (by omega)
          omega
      obtain ⟨k, st', hk, hrounds, hsync⟩ := ih _ hdec _ _ _ _ rfl hinv'
      refine ⟨k + 1, st', by omega, ?_, hsync⟩
      show rounds cfg n p k _ = _
      rw [hreply, hact]
      have : requestTo p [Action.getheaders p req'.1 req'.2] = some req' := by
        unfold requestTo; simp
      rw [this]
      exact hrounds

theorem potential_le (cfg : Cfg H) (cap missing k : Nat) :
    potential cfg cap missing k ≤ (missing + cap - 1) / cap + cfg.checkpoints.length := by
  unfold potential
  have := cpAbove_le cfg k
  omega

end BHS.Sync
