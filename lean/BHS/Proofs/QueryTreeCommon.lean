/-
Helper lemmas for C04 (3/3): `allSame`, `caLoop`, `commonAncestor` for CONNECTED rows of a well-formed
store. The loop keeps one row per request on the parent walk of that request, all at the same height `k`;
it stops at the first height where they coincide, which is the highest common ancestor below the start.
Core Lean only.
-/
import BHS.Proofs.QueryTreeWalk

set_option linter.unusedSectionVars false

namespace BHS.QueryTree
open BHS BHS.Chain
variable {H : Type} [DecidableEq H]

/-! ### `allSame` -/

theorem allSame_cons {a : Row H} {l : List (Row H)} :
    allSame (a :: l) = true ↔ ∀ b ∈ l, b.hash = a.hash := by
  unfold allSame
  rw [List.all_eq_true]
  constructor
  · intro h b hb; exact of_decide_eq_true (h b hb)
  · intro h b hb; exact decide_eq_true (h b hb)

/-- rows that all equal one row are `allSame` -/
theorem allSame_of_eq {l : List (Row H)} {c : Row H} (h : ∀ x ∈ l, x = c) : allSame l = true := by
  cases l with
  | nil => rfl
  | cons a l =>
    rw [allSame_cons]
    intro b hb
    rw [h b (List.mem_cons_of_mem _ hb), h a List.mem_cons_self]

/-! ### the start height -/

/-- the fold of `GetCommonAncestor` is the lowest requested height (within Go's int32 start value) -/
theorem startHeight_eq {rows : List (Row H)} {m : Nat} (hle : ∀ r ∈ rows, m ≤ r.height)
    (hat : ∃ r ∈ rows, r.height = m) (hcap : m ≤ 2147483647) :
    rows.foldl (fun m r => min m r.height) 2147483647 = m := by
  show lowestHeight rows 2147483647 = m
  obtain ⟨r0, hr0, e0⟩ := hat
  have h1 := lowestHeight_le_mem rows 2147483647 r0 hr0
  have h2 := lowestHeight_le rows 2147483647
  rcases lowestHeight_attained rows 2147483647 with k | ⟨b, hb, k⟩
  · omega
  · have := hle b hb; omega

/-! ### `caLoop` -/

theorem caLoop_succ (s : Store H) (fuel : Nat) (hs : List (Row H)) :
    caLoop s (fuel + 1) hs =
      if allSame hs then (match hs with | a :: _ => .found a | [] => .panicEmpty)
      else
        match hs.mapM (fun r => byHash s r.prev) with
        | none => .notFound
        | some ps => caLoop s fuel ps := rfl

/-- a connected row of height 0 is the root row -/
theorem id_zero_of_height_zero {cfg : Cfg H} {s : Store H} (hw : WF cfg s) {x : Row H} (hx : x ∈ s)
    (hc : connected x) (h0 : x.height = 0) : x.id = 0 := by
  apply Classical.byContradiction
  intro hne
  have := hw.height_pos hx hc hne
  omega

/-- the loop invariant: `as` holds, for every requested row, the row of its parent walk at height `k`
    (and nothing else); with more than `k` fuel the loop returns the highest common row at height ≤ `k` -/
theorem caLoop_spec {cfg : Cfg H} {s : Store H} (hw : WF cfg s) (rows : List (Row H))
    (hrows : ∀ r ∈ rows, r ∈ s ∧ connected r) :
    ∀ (k : Nat) (as : List (Row H)) (fuel : Nat), k < fuel → as ≠ [] →
      (∀ x ∈ as, x.height = k) →
      (∀ r ∈ rows, ∃ x ∈ as, x ∈ chainTo s r) →
      (∀ x ∈ as, ∃ r ∈ rows, x ∈ chainTo s r) →
      ∃ c, caLoop s fuel as = .found c ∧ (∀ r ∈ rows, c ∈ chainTo s r) ∧ c.height ≤ k ∧
        ∀ c', (∀ r ∈ rows, c' ∈ chainTo s r) → c'.height ≤ k → c'.height ≤ c.height := by
  intro k
  induction k with
  | zero =>
    intro as fuel hf hne hk h2 h3
    obtain ⟨f, rfl⟩ : ∃ f, fuel = f + 1 := ⟨fuel - 1, by omega⟩
    -- every row of `as` is the root row
    have hin : ∀ x ∈ as, x ∈ s ∧ connected x := by
      intro x hx
      obtain ⟨r, hr, hxr⟩ := h3 x hx
      exact ⟨chainTo_mem hxr, (hw.chainTo_le r (hrows r hr).1 (hrows r hr).2 x hxr).1⟩
    cases as with
    | nil => exact absurd rfl hne
    | cons a rest =>
      have ha := hin a List.mem_cons_self
      have ha0 := id_zero_of_height_zero hw ha.1 ha.2 (hk a List.mem_cons_self)
      have hall : ∀ x ∈ a :: rest, x = a := by
        intro x hx
        have hx' := hin x hx
        exact hw.id_inj hx'.1 ha.1 (by rw [id_zero_of_height_zero hw hx'.1 hx'.2 (hk x hx), ha0])
      rw [caLoop_succ, if_pos (allSame_of_eq hall)]
      refine ⟨a, rfl, ?_, by rw [hk a List.mem_cons_self]; exact Nat.le_refl _, ?_⟩
      · intro r hr
        obtain ⟨x, hx, hxr⟩ := h2 r hr
        rw [← hall x hx]; exact hxr
      · intro c' _ hc'; rw [hk a List.mem_cons_self]; exact hc'
  | succ k ih =>
    intro as fuel hf hne hk h2 h3
    obtain ⟨f, rfl⟩ : ∃ f, fuel = f + 1 := ⟨fuel - 1, by omega⟩
    have hin : ∀ x ∈ as, x ∈ s ∧ connected x := by
      intro x hx
      obtain ⟨r, hr, hxr⟩ := h3 x hx
      exact ⟨chainTo_mem hxr, (hw.chainTo_le r (hrows r hr).1 (hrows r hr).2 x hxr).1⟩
    rw [caLoop_succ]
    by_cases hsame : allSame as = true
    · rw [if_pos hsame]
      cases as with
      | nil => exact absurd rfl hne
      | cons a rest =>
        have hall : ∀ x ∈ a :: rest, x = a := by
          intro x hx
          rcases List.mem_cons.1 hx with h | h
          · exact h
          · exact hw.hash_inj (hin x hx).1 (hin a List.mem_cons_self).1 (allSame_cons.1 hsame x h)
        refine ⟨a, rfl, ?_, by rw [hk a List.mem_cons_self]; exact Nat.le_refl _, ?_⟩
        · intro r hr
          obtain ⟨x, hx, hxr⟩ := h2 r hr
          rw [← hall x hx]; exact hxr
        · intro c' _ hc'; rw [hk a List.mem_cons_self]; exact hc'
    · rw [if_neg hsame]
      -- no common row at height k + 1
      have hnone : ∀ c', (∀ r ∈ rows, c' ∈ chainTo s r) → c'.height ≠ k + 1 := by
        intro c' hc' hh
        apply hsame
        apply allSame_of_eq (c := c')
        intro x hx
        obtain ⟨r, hr, hxr⟩ := h3 x hx
        exact hw.chainTo_height_inj r (hrows r hr).1 (hrows r hr).2 x hxr c' (hc' r hr)
          (by rw [hk x hx, hh])
      -- every row of `as` has a stored connected parent, one lower, on the same walks
      have hpar : ∀ x ∈ as, ∃ q, byHash s x.prev = some q ∧ q.height = k ∧
          ∀ r ∈ rows, x ∈ chainTo s r → q ∈ chainTo s r := by
        intro x hx
        have hx' := hin x hx
        have hid : x.id ≠ 0 := by
          intro h0
          have := (hw.root_of_id hx'.1 h0).2.1
          have := hk x hx
          omega
        obtain ⟨q, hq, e1, e2, e3, e4, _⟩ := hw.par x hx'.1 hx'.2 hid
        refine ⟨q, byHash_eq_of_mem hw.nodup hq e1, by have := hk x hx; omega, ?_⟩
        intro r hr hxr
        exact hw.chainTo_parent_sub (hrows r hr).1 (hrows r hr).2 hxr hid hq e1 q (hw.chainTo_self hq)
      obtain ⟨ps, hps⟩ := mapM_exists (fun r => byHash s r.prev) as
        (fun x hx => let ⟨q, hq, _⟩ := hpar x hx; ⟨q, hq⟩)
      obtain ⟨m1, m2, m3⟩ := mapM_some _ as ps hps
      rw [hps]
      have hps_ne : ps ≠ [] := by
        intro e
        rw [e] at m3
        cases as with
        | nil => exact hne rfl
        | cons a rest => simp at m3
      obtain ⟨c, e, hc1, hc2, hc3⟩ := ih ps f (by omega) hps_ne
        (by
          intro y hy
          obtain ⟨x, hx, hxy⟩ := m1 y hy
          obtain ⟨q, hq, hqk, _⟩ := hpar x hx
          rw [hq] at hxy
          have hxy' := Option.some.inj hxy
          subst hxy'
          exact hqk)
        (by
          intro r hr
          obtain ⟨x, hx, hxr⟩ := h2 r hr
          obtain ⟨y, hy, hxy⟩ := m2 x hx
          obtain ⟨q, hq, _, hqr⟩ := hpar x hx
          rw [hq] at hxy
          have hxy' := Option.some.inj hxy
          subst hxy'
          exact ⟨q, hy, hqr r hr hxr⟩)
        (by
          intro y hy
          obtain ⟨x, hx, hxy⟩ := m1 y hy
          obtain ⟨r, hr, hxr⟩ := h3 x hx
          obtain ⟨q, hq, _, hqr⟩ := hpar x hx
          rw [hq] at hxy
          have hxy' := Option.some.inj hxy
          subst hxy'
          exact ⟨r, hr, hqr r hr hxr⟩)
      refine ⟨c, e, hc1, by omega, ?_⟩
      intro c' hc' hle
      have := hnone c' hc'
      exact hc3 c' hc' (by omega)

/-! ### `commonAncestor` -/

theorem commonAncestor_eq {s : Store H} {hashes : List H} {rows : List (Row H)}
    (e : hashes.mapM (byHash s) = some rows) (hne : rows ≠ []) :
    commonAncestor s hashes =
      if rows.foldl (fun m r => min m r.height) 2147483647 < 1 then .nilResult
      else
        match rows.mapM (fun r => ancestorOnHeight s r.hash
            (((rows.foldl (fun m r => min m r.height) 2147483647 : Nat) : Int) - 1)) with
        | none => .notFound
        | some as => caLoop s (rows.foldl (fun m r => min m r.height) 2147483647) as := by
  unfold commonAncestor
  rw [e]
  cases rows with
  | nil => exact absurd rfl hne
  | cons a l => rfl

theorem commonAncestor_nil (s : Store H) : commonAncestor s [] = .panicEmpty := by
  unfold commonAncestor
  rw [List.mapM_nil]
  rfl

theorem commonAncestor_unknown {s : Store H} {hashes : List H} {h : H} (hh : h ∈ hashes)
    (e : byHash s h = none) : commonAncestor s hashes = .notFound := by
  unfold commonAncestor
  rw [mapM_none (byHash s) hashes h hh e]

theorem commonAncestor_zero {s : Store H} (hn : (s.map (·.hash)).Nodup) {rows : List (Row H)}
    (hrows : ∀ r ∈ rows, r ∈ s) {r0 : Row H} (hr0 : r0 ∈ rows) (h0 : r0.height = 0) :
    commonAncestor s (rows.map (·.hash)) = .nilResult := by
  have hne : rows ≠ [] := by intro e; rw [e] at hr0; cases hr0
  rw [commonAncestor_eq (mapM_byHash hn rows hrows) hne]
  have : rows.foldl (fun m r => min m r.height) 2147483647 ≤ r0.height :=
    lowestHeight_le_mem rows 2147483647 r0 hr0
  rw [if_pos (by omega)]

/-- connected rows, lowest height `m ≥ 1`: the answer is the highest common row of the parent walks
    strictly below `m` -/
theorem commonAncestor_spec {cfg : Cfg H} {s : Store H} (hw : WF cfg s) (rows : List (Row H))
    (hrows : ∀ r ∈ rows, r ∈ s ∧ connected r) (m : Nat) (hm1 : 1 ≤ m)
    (hle : ∀ r ∈ rows, m ≤ r.height) (hat : ∃ r ∈ rows, r.height = m) (hcap : m ≤ 2147483647) :
    ∃ c, commonAncestor s (rows.map (·.hash)) = .found c ∧ (∀ r ∈ rows, c ∈ chainTo s r) ∧ c.height < m ∧
      ∀ c', (∀ r ∈ rows, c' ∈ chainTo s r) → c'.height < m → c'.height ≤ c.height := by
  have hne : rows ≠ [] := by
    obtain ⟨r, hr, _⟩ := hat
    intro e; rw [e] at hr; cases hr
  rw [commonAncestor_eq (mapM_byHash hw.nodup rows (fun r hr => (hrows r hr).1)) hne,
    startHeight_eq hle hat hcap, if_neg (by omega)]
  -- the rows at height m - 1
  have hstart : ∀ r ∈ rows, ∃ x, ancestorOnHeight s r.hash ((m : Int) - 1) = some x ∧
      x ∈ chainTo s r ∧ x.height = m - 1 := by
    intro r hr
    obtain ⟨x, hx, hxk⟩ := hw.chainTo_height_surj r (hrows r hr).1 (hrows r hr).2 (m - 1)
      (by have := hle r hr; omega)
    exact ⟨x, ancestorOnHeight_eq hw (hrows r hr).1 (hrows r hr).2 hx (by omega), hx, hxk⟩
  obtain ⟨as, has⟩ := mapM_exists (fun r => ancestorOnHeight s r.hash ((m : Int) - 1)) rows
    (fun r hr => let ⟨x, hx, _⟩ := hstart r hr; ⟨x, hx⟩)
  obtain ⟨m1, m2, m3⟩ := mapM_some _ rows as has
  rw [has]
  have has_ne : as ≠ [] := by
    intro e
    rw [e] at m3
    cases rows with
    | nil => exact hne rfl
    | cons a rest => simp at m3
  obtain ⟨c, e, hc1, hc2, hc3⟩ := caLoop_spec hw rows hrows (m - 1) as m (by omega) has_ne
    (by
      intro y hy
      obtain ⟨r, hr, hry⟩ := m1 y hy
      obtain ⟨x, hx, _, hxk⟩ := hstart r hr
      rw [hx] at hry
      have hry' := Option.some.inj hry
      subst hry'
      exact hxk)
    (by
      intro r hr
      obtain ⟨y, hy, hry⟩ := m2 r hr
      obtain ⟨x, hx, hxr, _⟩ := hstart r hr
      rw [hx] at hry
      have hry' := Option.some.inj hry
      subst hry'
      exact ⟨x, hy, hxr⟩)
    (by
      intro y hy
      obtain ⟨r, hr, hry⟩ := m1 y hy
      obtain ⟨x, hx, hxr, _⟩ := hstart r hr
      rw [hx] at hry
      have hry' := Option.some.inj hry
      subst hry'
      exact ⟨r, hr, hxr⟩)
  exact ⟨c, e, hc1, by omega, fun c' h1 h2 => hc3 c' h1 (by omega)⟩

/-! ### decidable equality of the answers (for the `decide` examples of Props/C04.lean) -/

deriving instance DecidableEq for BHS.Chain.CaRes
deriving instance DecidableEq for Except

end BHS.QueryTree
