/-
Helper lemmas for C05 (3/3): redelivery after a crash.
Re-planning the same header on each store a crash can leave behind (`addPrefix_cases`) produces exactly
the store of the uninterrupted `add`; re-running an already ingested history is the identity.
Core Lean only.
-/
import BHS.Proofs.CrashStruct

set_option linter.unusedSectionVars false
set_option linter.unusedVariables false

namespace BHS.Chain
variable {H : Type} [DecidableEq H]

/-! ### `add` from the branch conditions -/

theorem add_dup {cfg : Cfg H} {s : Store H} {x : Src H} (hd : (byHash s (cfg.hashOf x)).isSome = true) :
    add cfg s x = (s, .duplicate) := by
  rw [add_eq, plan_eq, if_pos hd]; rfl

theorem add_rejected {cfg : Cfg H} {s : Store H} {x : Src H} (hd : ¬ (byHash s (cfg.hashOf x)).isSome = true)
    (hf : cfg.hashOf x ∈ cfg.forbidden) : add cfg s x = (s, .rejected) := by
  rw [add_eq, plan_eq, if_neg hd, if_pos hf]; rfl

theorem add_plain {cfg : Cfg H} {s : Store H} {x : Src H} (hd : ¬ (byHash s (cfg.hashOf x)).isSome = true)
    (hf : cfg.hashOf x ∉ cfg.forbidden) (hc : concurrent s (mkRow cfg s x) = false) :
    add cfg s x = (s ++ [mkRow cfg s x], .stored (mkRow cfg s x)) := by
  rcases add_cases cfg s x with ⟨h, _⟩ | ⟨_, h, _⟩ | ⟨_, _, ⟨_, e⟩ | ⟨h, _⟩ | ⟨h, _⟩ | ⟨h, _⟩⟩
  · exact absurd h hd
  · exact absurd h hf
  · exact e
  · rw [hc] at h; cases h
  · rw [hc] at h; cases h
  · rw [hc] at h; cases h

theorem add_switch {cfg : Cfg H} {s : Store H} {x : Src H} (hd : ¬ (byHash s (cfg.hashOf x)).isSome = true)
    (hf : cfg.hashOf x ∉ cfg.forbidden) (hc : concurrent s (mkRow cfg s x) = true) {tip : Row H}
    (ht : getTip s = some tip) (hlt : tip.cum < (mkRow cfg s x).cum) :
    add cfg s x = (s.map (relab (hs1 cfg s x) (hs2 s x)) ++ [setSt (mkRow cfg s x) .lc],
      .stored (setSt (mkRow cfg s x) .lc)) := by
  rcases add_cases cfg s x with ⟨h, _⟩ | ⟨_, h, _⟩ | ⟨_, _, ⟨h, _⟩ | ⟨_, h, _⟩ | ⟨_, tip', h, hn, _⟩ | ⟨_, _, _, _, e⟩⟩
  · exact absurd h hd
  · exact absurd h hf
  · rw [hc] at h; cases h
  · rw [ht] at h; cases h
  · rw [ht] at h; cases h; exact absurd hlt hn
  · exact e

/-- either the header was stored, or nothing was written -/
theorem add_outcome (cfg : Cfg H) (s : Store H) (x : Src H) :
    (∃ r, (add cfg s x).2 = .stored r) ∨ (add cfg s x).1 = s := by
  rcases add_cases cfg s x with ⟨_, e⟩ | ⟨_, _, e⟩ | ⟨_, _, ⟨_, e⟩ | ⟨_, _, e⟩ | ⟨_, _, _, _, e⟩ | ⟨_, _, _, _, e⟩⟩ <;>
    rw [e]
  · exact Or.inr rfl
  · exact Or.inr rfl
  · exact Or.inl ⟨_, rfl⟩
  · exact Or.inr rfl
  · exact Or.inl ⟨_, rfl⟩
  · exact Or.inl ⟨_, rfl⟩

/-- a stored header is present afterwards -/
theorem add_stored_present {cfg : Cfg H} {s : Store H} {x : Src H} (h : ∃ r, (add cfg s x).2 = .stored r) :
    (byHash (add cfg s x).1 (cfg.hashOf x)).isSome = true := by
  obtain ⟨r, hr⟩ := h
  have last : ∀ (l : Store H) (a : Row H), a.hash = cfg.hashOf x → (byHash (l ++ [a]) (cfg.hashOf x)).isSome = true :=
    fun l a e => byHash_isSome.2 ⟨a, List.mem_append_right _ (List.mem_singleton.2 rfl), e⟩
  rcases add_cases cfg s x with ⟨_, e⟩ | ⟨_, _, e⟩ | ⟨_, _, ⟨_, e⟩ | ⟨_, _, e⟩ | ⟨_, _, _, _, e⟩ | ⟨_, _, _, _, e⟩⟩ <;>
    rw [e] at hr ⊢
  · cases hr
  · cases hr
  · exact last _ _ rfl
  · cases hr
  · exact last _ _ rfl
  · exact last _ _ rfl

/-- under well-formedness `Add` never answers HeaderCreationFail -/
theorem WF.add_ne_fail {cfg : Cfg H} {s : Store H} (hw : WF cfg s) (x : Src H) :
    (add cfg s x).2 = .duplicate ∨ (add cfg s x).2 = .rejected ∨ ∃ r, (add cfg s x).2 = .stored r := by
  rcases add_cases cfg s x with ⟨_, e⟩ | ⟨_, _, e⟩ | ⟨_, _, ⟨_, e⟩ | ⟨_, hn, _⟩ | ⟨_, _, _, _, e⟩ | ⟨_, _, _, _, e⟩⟩
  · rw [e]; exact Or.inl rfl
  · rw [e]; exact Or.inr (Or.inl rfl)
  · rw [e]; exact Or.inr (Or.inr ⟨_, rfl⟩)
  · obtain ⟨g, hg, _, hl, _⟩ := hw.root
    obtain ⟨t, e, _⟩ := getTip_some hg hl
    rw [e] at hn; cases hn
  · rw [e]; exact Or.inr (Or.inr ⟨_, rfl⟩)
  · rw [e]; exact Or.inr (Or.inr ⟨_, rfl⟩)

/-! ### `concurrent` -/

theorem concurrent_lc_none {s : Store H} {r : Row H} (hl : r.st = .lc) (hwk : r.work ≠ 0)
    (hn : lcAtHeight s r.height = none) : concurrent s r = false := by
  simp [concurrent, hl, hwk, hn]

theorem concurrent_stale {s : Store H} {r : Row H} (h : r.st = .stale) : concurrent s r = true := by
  simp [concurrent, h]

/-! ### relabelling twice -/

theorem relab_comp (h1 h2 : List H) (a : Row H) : relab [] h2 (relab h1 [] a) = relab h1 h2 a := by
  by_cases k1 : a.hash ∈ h1 <;> by_cases k2 : a.hash ∈ h2 <;> simp [relab, k1, k2, setSt]

theorem relab_no_promote {h1 h2 : List H} {a : Row H} (k : a.hash ∉ h2) : relab h1 h2 a = relab h1 [] a := by
  simp [relab, k]

/-! ### re-planning the same header inside a reorganisation -/

section sw
variable {cfg : Cfg H} {s : Store H} {x : Src H} {t p : Row H}

/-- a header that triggers a reorganisation adds work: otherwise its cumulative work is its parent's, which the tip
    dominates -/
theorem Sw.work_ne_zero (c : Sw cfg s x t p) : (setSt (mkRow cfg s x) .lc).work ≠ 0 := by
  show work x.bits ≠ 0
  have h1 := (c.hl.best p c.hp c.hpc).1
  have h2 := c.hcum
  have h3 := c.hmc
  omega

theorem Sw.final (c : Sw cfg s x t p) :
    add cfg s x = (s.map (rel2 cfg s x) ++ [setSt (mkRow cfg s x) .lc], .stored (setSt (mkRow cfg s x) .lc)) :=
  add_switch c.hd c.hf c.hc (c.hl.getTip c.ht) c.hcum

/-- killed after both updates: the parent is now the top of the longest chain, the header is simply appended -/
theorem Sw.redeliver2 (c : Sw cfg s x t p) : add cfg (s.map (rel2 cfg s x)) x = add cfg s x := by
  have hmk : mkRow cfg (s.map (rel2 cfg s x)) x = setSt (mkRow cfg s x) .lc := by
    rw [mkRow_map cfg s x _ (relab_fields _ _) c.hbh, c.rel2_p_lc]
  have hd2 := fresh_map (f := rel2 cfg s x) (relab_hash _ _) c.hd
  have hc2 : concurrent (s.map (rel2 cfg s x)) (mkRow cfg (s.map (rel2 cfg s x)) x) = false := by
    rw [hmk]
    apply concurrent_lc_none rfl c.work_ne_zero
    apply lcAtHeight_eq_none
    intro a' ha' hal e
    have h1 := c.rel2_top.top a' ha' hal
    rw [relab_height] at h1
    have h2 : (setSt (mkRow cfg s x) .lc).height = p.height + 1 := c.hm
    omega
  rw [add_plain hd2 c.hf hc2, hmk, c.final]

/-- no row of the new branch is touched by the first update -/
theorem Sw.rel1_chain (c : Sw cfg s x t p) : ∀ a ∈ chainTo s p, rel1 cfg s x a = a := by
  intro a ha
  have has := chainTo_mem ha
  apply relab_st_of_not_mem
  · intro k
    have k' := (c.hw.mem_hs1 has).1 k
    have := c.hw.lc_below_lowH c.hl c.hp c.hpc c.hpe c.hm ha k'.2
    omega
  · intro k; cases k

/-- killed after the first update only -/
theorem Sw.redeliver1 (c : Sw cfg s x t p) : add cfg (s.map (rel1 cfg s x)) x = add cfg s x := by
  have hd1 := fresh_map (f := rel1 cfg s x) (relab_hash _ _) c.hd
  have hp1 : relab (hs1 cfg s x) [] p = p := c.rel1_chain p (c.hw.chainTo_self c.hp)
  have hmk : mkRow cfg (s.map (rel1 cfg s x)) x = setSt (mkRow cfg s x) p.st := by
    rw [mkRow_map cfg s x _ (relab_fields _ _) c.hbh, hp1]
  rcases St.lc_or_stale_of_ne_orphan c.hpc with k | k
  · -- the parent is on the longest chain: a sibling branch overtakes, nothing is promoted
    rw [k] at hmk
    have hc1 : concurrent (s.map (rel1 cfg s x)) (mkRow cfg (s.map (rel1 cfg s x)) x) = false := by
      rw [hmk]
      apply concurrent_lc_none rfl c.work_ne_zero
      apply lcAtHeight_eq_none
      intro a' ha' hal e
      obtain ⟨a, ha, rfl⟩ := List.mem_map.1 ha'
      have h1 := ((c.hw.rel1_lc_iff ha).1 hal).1
      have h2 : (setSt (mkRow cfg s x) .lc).height = p.height + 1 := c.hm
      have h3 := lowH_le (cfg := cfg) c.hm
      rw [relab_height] at e
      omega
    have hsame : s.map (rel1 cfg s x) = s.map (rel2 cfg s x) := by
      apply List.map_congr_left
      intro a ha
      refine (relab_no_promote ?_).symm
      intro k2
      have k2' := (c.hw.mem_hs2 ha).1 k2
      rw [anc_eq_chainTo c.hpe] at k2'
      have := c.hw.chainTo_lc c.hl.par p c.hp c.hpc k a k2'.1
      rw [k2'.2] at this; cases this
    rw [add_plain hd1 c.hf hc1, hmk, c.final, hsame]
  · -- the parent is stale: the same stale prefix is found again, nothing is left to demote
    rw [k] at hmk
    have hc1 : concurrent (s.map (rel1 cfg s x)) (mkRow cfg (s.map (rel1 cfg s x)) x) = true := by
      rw [hmk]; exact concurrent_stale rfl
    obtain ⟨t1, ht1, hl1, ht1l⟩ := c.hw.rel1_top c.hl.toLcS x
    have htip1 := hl1.getTip (List.mem_map.2 ⟨t1, ht1, rfl⟩)
    have hlt1 : (rel1 cfg s x t1).cum < (mkRow cfg (s.map (rel1 cfg s x)) x).cum := by
      rw [relab_cum, hmk]
      show t1.cum < (mkRow cfg s x).cum
      have := (c.hl.best t1 ht1 (connected_of_lc ht1l)).1
      have := c.hcum
      omega
    have hanc : ancestorsFrom (s.map (rel1 cfg s x)) (s.map (rel1 cfg s x)).length x.prev =
        ancestorsFrom s s.length x.prev := by
      rw [List.length_map, anc_map s _ (relab_hash _ _) (relab_prev _ _), anc_eq_chainTo c.hpe]
      conv => rhs; rw [← List.map_id (chainTo s p)]
      apply List.map_congr_left
      intro a ha; exact c.rel1_chain a ha
    have hstale : stalePre (s.map (rel1 cfg s x)) x = stalePre s x := by
      unfold stalePre staleBackFrom; rw [hanc]
    have hs2eq : hs2 (s.map (rel1 cfg s x)) x = hs2 s x := by
      unfold hs2; rw [hstale]
    have hlow : lowH cfg (s.map (rel1 cfg s x)) x = lowH cfg s x := by
      unfold lowH; rw [hstale, hmk]; rfl
    have hs1nil : hs1 cfg (s.map (rel1 cfg s x)) x = [] := by
      unfold hs1
      rw [hlow]
      have : lcFromHeight (s.map (rel1 cfg s x)) (lowH cfg s x) = [] := by
        unfold lcFromHeight
        rw [List.filter_eq_nil_iff]
        intro a' ha' hdec
        obtain ⟨a, ha, rfl⟩ := List.mem_map.1 ha'
        have k' := of_decide_eq_true hdec
        have := ((c.hw.rel1_lc_iff ha).1 k'.2).1
        rw [relab_height] at k'
        omega
      rw [this]; rfl
    rw [add_switch hd1 c.hf hc1 htip1 hlt1, hs1nil, hs2eq, hmk, c.final, List.map_map]
    have hsame : s.map (relab [] (hs2 s x) ∘ rel1 cfg s x) = s.map (rel2 cfg s x) := by
      apply List.map_congr_left
      intro a _; exact relab_comp _ _ a
    rw [hsame]; rfl

end sw

/-- kill at any write boundary, restart, redelivery of the same header: the same store as the uninterrupted `add`;
    the answer is the original one, or `duplicate` when the header had already been inserted -/
theorem Inv.redeliver {cfg : Cfg H} {s : Store H} (h : Inv cfg s) {g : Row H} (hg : g ∈ s) (x : Src H) (k : Nat) :
    crashRedeliver cfg g s x k = Chain.add cfg s x ∨
      ((∃ r, (Chain.add cfg s x).2 = .stored r) ∧
        crashRedeliver cfg g s x k = ((Chain.add cfg s x).1, .duplicate)) := by
  unfold crashRedeliver
  rw [restart_of_preserved (rowsPreserved_addPrefix cfg s x k) hg]
  rcases addPrefix_cases cfg s x k with e | e | ⟨hd, hf, hc, tip, htip, hlt, e⟩
  · rw [e]; exact Or.inl rfl
  · rw [e]
    rcases add_outcome cfg s x with hs | hs
    · exact Or.inr ⟨hs, add_dup (add_stored_present hs)⟩
    · rw [hs]; exact Or.inl rfl
  · obtain ⟨t, p, c⟩ := Sw.of_inv h hd hf hc htip hlt
    rcases e with e | e <;> rw [e]
    · exact Or.inl c.redeliver1
    · exact Or.inl c.redeliver2

/-! ### re-running an ingested history -/

/-- the header is present or forbidden: submitting it writes nothing -/
def Known (cfg : Cfg H) (s : Store H) (y : Src H) : Prop :=
  (byHash s (cfg.hashOf y)).isSome = true ∨ cfg.hashOf y ∈ cfg.forbidden

theorem WF.add_known {cfg : Cfg H} {s : Store H} (hw : WF cfg s) (y : Src H) : Known cfg (add cfg s y).1 y := by
  rcases add_cases cfg s y with ⟨hd, e⟩ | ⟨_, hf, e⟩ | ⟨_, _, ⟨_, e⟩ | ⟨_, hn, _⟩ | ⟨_, _, _, _, e⟩ | ⟨_, _, _, _, e⟩⟩
  · rw [e]; exact Or.inl hd
  · rw [e]; exact Or.inr hf
  · exact Or.inl (add_stored_present ⟨_, by rw [e]⟩)
  · obtain ⟨g, hg, _, hl, _⟩ := hw.root
    obtain ⟨t, et, _⟩ := getTip_some hg hl
    rw [et] at hn; cases hn
  · exact Or.inl (add_stored_present ⟨_, by rw [e]⟩)
  · exact Or.inl (add_stored_present ⟨_, by rw [e]⟩)

theorem Known.mono {cfg : Cfg H} {s s' : Store H} (h : rowsPreserved s s') {y : Src H} (k : Known cfg s y) :
    Known cfg s' y := by
  rcases k with k | k
  · obtain ⟨a, ha, e⟩ := byHash_isSome.1 k
    obtain ⟨a', ha', e'⟩ := rowsPreserved_hash h ha
    exact Or.inl (byHash_isSome.2 ⟨a', ha', e'.trans e⟩)
  · exact Or.inr k

theorem Known.add {cfg : Cfg H} {s : Store H} {y : Src H} (k : Known cfg s y) : (Chain.add cfg s y).1 = s := by
  by_cases hd : (byHash s (cfg.hashOf y)).isSome = true
  · rw [add_dup hd]
  · rcases k with k | k
    · exact absurd k hd
    · rw [add_rejected hd k]

theorem run_of_known {cfg : Cfg H} : ∀ (hist : List (Src H)) (s : Store H), (∀ y ∈ hist, Known cfg s y) →
    run cfg s hist = s := by
  intro hist
  induction hist with
  | nil => intro s _; rfl
  | cons y hist ih =>
    intro s hk
    show run cfg (Chain.add cfg s y).1 hist = s
    rw [(hk y List.mem_cons_self).add]
    exact ih s (fun z hz => hk z (List.mem_cons_of_mem _ hz))

/-- every header of an ingested history is known afterwards -/
theorem run_known {cfg : Cfg H} {g : Row H} (hz : ∀ y, cfg.hashOf y ≠ g.prev) :
    ∀ (hist : List (Src H)) (s : Store H), WF cfg s → g ∈ s → g.id = 0 →
      ∀ y ∈ hist, Known cfg (run cfg s hist) y := by
  intro hist
  induction hist with
  | nil => intro s _ _ _ y hy; cases hy
  | cons y0 hist ih =>
    intro s hw hg hg0 y hy
    show Known cfg (run cfg (Chain.add cfg s y0).1 hist) y
    rcases List.mem_cons.1 hy with rfl | hy'
    · exact (hw.add_known y).mono (rowsPreserved_run cfg hist _)
    · exact ih _ (hw.add_wf y0 hg hg0 hz) (hw.add_keeps y0 hg (Or.inl hg0)) hg0 y hy'

theorem run_append (cfg : Cfg H) (s : Store H) (h1 h2 : List (Src H)) :
    run cfg s (h1 ++ h2) = run cfg (run cfg s h1) h2 := List.foldl_append

theorem run_snoc (cfg : Cfg H) (s : Store H) (h1 : List (Src H)) (x : Src H) :
    run cfg s (h1 ++ [x]) = (add cfg (run cfg s h1) x).1 := by
  rw [run_append]; rfl

end BHS.Chain
