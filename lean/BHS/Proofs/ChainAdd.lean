/-
Helper lemmas for C01 (2/5): the shape of `add` — which store and outcome each branch of `plan` produces.
Core Lean only.
-/
import BHS.Proofs.ChainBasic

set_option linter.unusedSectionVars false

namespace BHS.Chain
variable {H : Type} [DecidableEq H]

/-- the STALE rows among the ancestors of the submitted header's parent (the rows a switch promotes) -/
def stalePre (s : Store H) (x : Src H) : List (Row H) := staleBackFrom s x.prev

/-- the height from which the switch demotes LONGEST_CHAIN rows -/
def lowH (cfg : Cfg H) (s : Store H) (x : Src H) : Nat :=
  lowestHeight (stalePre s x) (mkRow cfg s x).height

/-- hashes demoted by the first update of a switch -/
def hs1 (cfg : Cfg H) (s : Store H) (x : Src H) : List H := (lcFromHeight s (lowH cfg s x)).map (·.hash)

/-- hashes promoted by the second update of a switch -/
def hs2 (s : Store H) (x : Src H) : List H := (stalePre s x).map (·.hash)

theorem mkRow_id (cfg : Cfg H) (s : Store H) (x : Src H) : (mkRow cfg s x).id = s.length := rfl
theorem mkRow_hash (cfg : Cfg H) (s : Store H) (x : Src H) : (mkRow cfg s x).hash = cfg.hashOf x := rfl
theorem mkRow_prev (cfg : Cfg H) (s : Store H) (x : Src H) : (mkRow cfg s x).prev = x.prev := rfl
theorem mkRow_work (cfg : Cfg H) (s : Store H) (x : Src H) : (mkRow cfg s x).work = work x.bits := rfl
theorem mkRow_bits (cfg : Cfg H) (s : Store H) (x : Src H) : (mkRow cfg s x).bits = x.bits := rfl
theorem mkRow_srcOf (cfg : Cfg H) (s : Store H) (x : Src H) : srcOf (mkRow cfg s x) = x := rfl

theorem mkRow_some {cfg : Cfg H} {s : Store H} {x : Src H} {p : Row H} (e : byHash s x.prev = some p) :
    (mkRow cfg s x).height = p.height + 1 ∧ (mkRow cfg s x).cum = p.cum + work x.bits ∧
      (mkRow cfg s x).st = p.st := by
  simp [mkRow, parentInfo, e]

theorem mkRow_none {cfg : Cfg H} {s : Store H} {x : Src H} (e : byHash s x.prev = none) :
    (mkRow cfg s x).height = 1 ∧ (mkRow cfg s x).st = .orphan := by
  simp [mkRow, parentInfo, e]

theorem mkRow_height_pos (cfg : Cfg H) (s : Store H) (x : Src H) : 1 ≤ (mkRow cfg s x).height := by
  simp [mkRow]

theorem row_with_id {r : Row H} {n : Nat} (h : r.id = n) : { r with id := n } = r := by
  cases r; simp_all

theorem applyWrites_switch (s : Store H) (r' : Row H) :
    applyWrites s (switchWrites s r' ++ [.insert r']) =
      insertRow (s.map (relab
        ((lcFromHeight s (lowestHeight (staleBackFrom s r'.prev) r'.height)).map (·.hash))
        ((staleBackFrom s r'.prev).map (·.hash)))) r' := by
  rw [← setState_setState]
  unfold switchWrites applyWrites
  simp only []
  generalize lcFromHeight s _ = conc
  generalize staleBackFrom s r'.prev = stale
  cases conc <;> cases stale <;> simp [applyWrite, setState_nil]

theorem add_eq (cfg : Cfg H) (s : Store H) (x : Src H) :
    add cfg s x = (applyWrites s (plan cfg s x).2, (plan cfg s x).1) := rfl

theorem plan_eq (cfg : Cfg H) (s : Store H) (x : Src H) :
    plan cfg s x =
      if (byHash s (cfg.hashOf x)).isSome = true then (.duplicate, [])
      else if cfg.hashOf x ∈ cfg.forbidden then (.rejected, [])
      else if concurrent s (mkRow cfg s x) = true then
        match getTip s with
        | none => (.creationFail, [])
        | some tip =>
          if tip.cum < (mkRow cfg s x).cum then
            (.stored (setSt (mkRow cfg s x) .lc),
              switchWrites s (setSt (mkRow cfg s x) .lc) ++ [.insert (setSt (mkRow cfg s x) .lc)])
          else (.stored (setSt (mkRow cfg s x) .stale), [.insert (setSt (mkRow cfg s x) .stale)])
      else (.stored (mkRow cfg s x), [.insert (mkRow cfg s x)]) := rfl

theorem applyWrites_nil (s : Store H) : applyWrites s [] = s := rfl

theorem applyWrites_insert (s : Store H) (r : Row H) : applyWrites s [.insert r] = insertRow s r := rfl

/-- the branches of `Chains.Add` -/
theorem add_cases (cfg : Cfg H) (s : Store H) (x : Src H) :
    ((byHash s (cfg.hashOf x)).isSome = true ∧ add cfg s x = (s, .duplicate)) ∨
    (¬ (byHash s (cfg.hashOf x)).isSome = true ∧ cfg.hashOf x ∈ cfg.forbidden ∧ add cfg s x = (s, .rejected)) ∨
    (¬ (byHash s (cfg.hashOf x)).isSome = true ∧ cfg.hashOf x ∉ cfg.forbidden ∧
      ((concurrent s (mkRow cfg s x) = false ∧
          add cfg s x = (s ++ [mkRow cfg s x], .stored (mkRow cfg s x))) ∨
       (concurrent s (mkRow cfg s x) = true ∧ getTip s = none ∧ add cfg s x = (s, .creationFail)) ∨
       (concurrent s (mkRow cfg s x) = true ∧ ∃ tip, getTip s = some tip ∧ ¬ tip.cum < (mkRow cfg s x).cum ∧
          add cfg s x = (s ++ [(setSt (mkRow cfg s x) .stale)], .stored (setSt (mkRow cfg s x) .stale))) ∨
       (concurrent s (mkRow cfg s x) = true ∧ ∃ tip, getTip s = some tip ∧ tip.cum < (mkRow cfg s x).cum ∧
          add cfg s x = (s.map (relab (hs1 cfg s x) (hs2 s x)) ++ [(setSt (mkRow cfg s x) .lc)],
            .stored (setSt (mkRow cfg s x) .lc))))) := by
  by_cases hd : (byHash s (cfg.hashOf x)).isSome = true
  · left
    refine ⟨hd, ?_⟩
    have hp : plan cfg s x = (.duplicate, []) := by
      rw [plan_eq, if_pos hd]
    rw [add_eq, hp]; rfl
  · right
    by_cases hf : cfg.hashOf x ∈ cfg.forbidden
    · left
      refine ⟨hd, hf, ?_⟩
      have hp : plan cfg s x = (.rejected, []) := by
        rw [plan_eq, if_neg hd, if_pos hf]
      rw [add_eq, hp]; rfl
    · right
      refine ⟨hd, hf, ?_⟩
      have fresh := byHash_not_isSome hd
      cases hc : concurrent s (mkRow cfg s x) with
      | false =>
        left
        refine ⟨rfl, ?_⟩
        have hp : plan cfg s x = (.stored (mkRow cfg s x), [.insert (mkRow cfg s x)]) := by
          rw [plan_eq, if_neg hd, if_neg hf, if_neg (by rw [hc]; exact Bool.false_ne_true)]
        rw [add_eq, hp]
        show (insertRow s (mkRow cfg s x), _) = _
        rw [insertRow_fresh fresh, row_with_id (mkRow_id cfg s x)]
      | true =>
        right
        cases ht : getTip s with
        | none =>
          left
          refine ⟨rfl, rfl, ?_⟩
          have hp : plan cfg s x = (.creationFail, []) := by
            rw [plan_eq, if_neg hd, if_neg hf, if_pos hc, ht]
          rw [add_eq, hp]; rfl
        | some tip =>
          right
          by_cases hlt : tip.cum < (mkRow cfg s x).cum
          · right
            refine ⟨rfl, tip, rfl, hlt, ?_⟩
            have hp : plan cfg s x = (.stored (setSt (mkRow cfg s x) .lc),
                switchWrites s (setSt (mkRow cfg s x) .lc) ++ [.insert (setSt (mkRow cfg s x) .lc)]) := by
              rw [plan_eq, if_neg hd, if_neg hf, if_pos hc, ht]
              simp only [hlt, if_true]
            rw [add_eq, hp]
            show (applyWrites s (switchWrites s _ ++ [.insert _]), _) = _
            rw [applyWrites_switch, insertRow_fresh]
            · rw [List.length_map, row_with_id (r := setSt (mkRow cfg s x) .lc) (n := s.length) rfl]
              rfl
            · intro a ha
              obtain ⟨a0, ha0, rfl⟩ := List.mem_map.1 ha
              rw [relab_hash]
              exact fresh a0 ha0
          · left
            refine ⟨rfl, tip, rfl, hlt, ?_⟩
            have hp : plan cfg s x = (.stored (setSt (mkRow cfg s x) .stale),
                [.insert (setSt (mkRow cfg s x) .stale)]) := by
              rw [plan_eq, if_neg hd, if_neg hf, if_pos hc, ht]
              simp only [hlt, if_false]
            rw [add_eq, hp]
            show (insertRow s _, _) = _
            rw [insertRow_fresh fresh, row_with_id (r := setSt (mkRow cfg s x) .stale) (n := s.length) rfl]

end BHS.Chain
