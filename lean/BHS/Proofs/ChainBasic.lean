/-
Helper lemmas for C01 (1/5): list / lookup lemmas about the store model
(`byHash`, `lcAtHeight`, `maxLcHeight`, `getTip`, `setState`, `insertRow`),
accessors of `WF`, and the shape of `add`.
Core Lean only.
-/
import BHS.Model.Chain
import BHS.Spec.BestChain

set_option linter.unusedSectionVars false

namespace BHS.Chain
variable {H : Type} [DecidableEq H]

/-! ### generic list facts -/

theorem inj_of_nodup_map {α β : Type} (f : α → β) :
    ∀ {l : List α}, (l.map f).Nodup → ∀ {x y : α}, x ∈ l → y ∈ l → f x = f y → x = y
  | [], _, _, _, hx, _, _ => by cases hx
  | a :: l, hn, x, y, hx, hy, e => by
    rw [List.map_cons, List.nodup_cons] at hn
    rcases List.mem_cons.1 hx with rfl | hx' <;> rcases List.mem_cons.1 hy with rfl | hy'
    · rfl
    · exact absurd (List.mem_map.2 ⟨y, hy', e.symm⟩) hn.1
    · exact absurd (List.mem_map.2 ⟨x, hx', e⟩) hn.1
    · exact inj_of_nodup_map f hn.2 hx' hy' e

/-! ### state facts -/

theorem St.lc_or_stale_of_ne_orphan {st : St} (h : st ≠ .orphan) : st = .lc ∨ st = .stale := by
  cases st
  · exact Or.inl rfl
  · exact Or.inr rfl
  · exact absurd rfl h

theorem connected_of_lc {r : Row H} (h : r.st = .lc) : connected r := by
  unfold connected; rw [h]; intro e; cases e

theorem connected_of_stale {r : Row H} (h : r.st = .stale) : connected r := by
  unfold connected; rw [h]; intro e; cases e

/-! ### byHash -/

theorem byHash_some {s : Store H} {h : H} {r : Row H} (e : byHash s h = some r) :
    r ∈ s ∧ r.hash = h := by
  unfold byHash at e
  refine ⟨List.mem_of_find?_eq_some e, ?_⟩
  have := List.find?_some e
  exact of_decide_eq_true this

theorem byHash_none {s : Store H} {h : H} : byHash s h = none ↔ ∀ r ∈ s, r.hash ≠ h := by
  unfold byHash
  rw [List.find?_eq_none]
  constructor
  · intro k r hr e; exact k r hr (decide_eq_true e)
  · intro k r hr e; exact k r hr (of_decide_eq_true e)

theorem byHash_isSome {s : Store H} {h : H} : (byHash s h).isSome = true ↔ ∃ r ∈ s, r.hash = h := by
  unfold byHash
  rw [List.find?_isSome]
  constructor
  · rintro ⟨r, hr, e⟩; exact ⟨r, hr, of_decide_eq_true e⟩
  · rintro ⟨r, hr, e⟩; exact ⟨r, hr, decide_eq_true e⟩

theorem byHash_not_isSome {s : Store H} {h : H} (k : ¬ (byHash s h).isSome = true) :
    ∀ r ∈ s, r.hash ≠ h := by
  intro r hr e
  exact k (byHash_isSome.2 ⟨r, hr, e⟩)

/-- with unique hashes a lookup returns THE row -/
theorem byHash_mem {s : Store H} (hn : (s.map (·.hash)).Nodup) {r : Row H} (hr : r ∈ s) :
    byHash s r.hash = some r := by
  cases e : byHash s r.hash with
  | none => exact absurd rfl (byHash_none.1 e r hr)
  | some r' =>
    have h' := byHash_some e
    rw [inj_of_nodup_map (·.hash) hn h'.1 hr h'.2]

theorem byHash_eq_of_mem {s : Store H} (hn : (s.map (·.hash)).Nodup) {r : Row H} {h : H}
    (hr : r ∈ s) (e : r.hash = h) : byHash s h = some r := by
  subst e; exact byHash_mem hn hr

/-! ### lcAtHeight, maxLcHeight, getTip -/

theorem lcAtHeight_some {s : Store H} {k : Nat} {r : Row H} (e : lcAtHeight s k = some r) :
    r ∈ s ∧ r.height = k ∧ r.st = .lc := by
  unfold lcAtHeight at e
  have h2 := List.find?_some e
  exact ⟨List.mem_of_find?_eq_some e, of_decide_eq_true h2⟩

theorem lcAtHeight_none {s : Store H} {k : Nat} (e : lcAtHeight s k = none) :
    ∀ r ∈ s, r.st = .lc → r.height ≠ k := by
  unfold lcAtHeight at e
  rw [List.find?_eq_none] at e
  intro r hr hl hk
  exact e r hr (decide_eq_true ⟨hk, hl⟩)

theorem lcAtHeight_of_mem {s : Store H} {r : Row H} (hr : r ∈ s) (hl : r.st = .lc) :
    ∃ r', lcAtHeight s r.height = some r' := by
  cases e : lcAtHeight s r.height with
  | none => exact absurd rfl (lcAtHeight_none e r hr hl)
  | some r' => exact ⟨r', rfl⟩

/-- the fold of `maxLcHeight` -/
def maxStep (m : Option Nat) (r : Row H) : Option Nat :=
  match m with
  | none => some r.height
  | some k => some (max k r.height)

theorem foldl_maxStep_some (l : List (Row H)) : ∀ (k : Nat),
    ∃ m, l.foldl maxStep (some k) = some m ∧ k ≤ m ∧ (∀ r ∈ l, r.height ≤ m) ∧
      (m = k ∨ ∃ r ∈ l, r.height = m) := by
  induction l with
  | nil => intro k; exact ⟨k, rfl, Nat.le_refl _, fun r hr => (by cases hr), Or.inl rfl⟩
  | cons a l ih =>
    intro k
    obtain ⟨m, e, h1, h2, h3⟩ := ih (max k a.height)
    refine ⟨m, by simpa [List.foldl_cons, maxStep] using e, by omega, ?_, ?_⟩
    · intro r hr
      rcases List.mem_cons.1 hr with rfl | hr'
      · omega
      · exact h2 r hr'
    · rcases h3 with h3 | ⟨r, hr, e'⟩
      · by_cases hk : a.height ≤ k
        · left; omega
        · right; exact ⟨a, List.mem_cons_self, by omega⟩
      · right; exact ⟨r, List.mem_cons_of_mem _ hr, e'⟩

theorem maxLcHeight_eq (s : Store H) :
    maxLcHeight s = (s.filter (fun r => decide (r.st = .lc))).foldl maxStep none := rfl

/-- a store with a longest-chain row has a maximal longest-chain height, and it is attained -/
theorem maxLcHeight_some {s : Store H} {g : Row H} (hg : g ∈ s) (hl : g.st = .lc) :
    ∃ m, maxLcHeight s = some m ∧ (∀ r ∈ s, r.st = .lc → r.height ≤ m) ∧
      ∃ r ∈ s, r.st = .lc ∧ r.height = m := by
  rw [maxLcHeight_eq]
  have hgf : g ∈ s.filter (fun r => decide (r.st = .lc)) :=
    List.mem_filter.2 ⟨hg, decide_eq_true hl⟩
  have hall : ∀ r ∈ s, r.st = .lc → r ∈ s.filter (fun r => decide (r.st = .lc)) :=
    fun r hr h => List.mem_filter.2 ⟨hr, decide_eq_true h⟩
  have hback : ∀ r ∈ s.filter (fun r => decide (r.st = .lc)), r ∈ s ∧ r.st = .lc :=
    fun r hr => ⟨(List.mem_filter.1 hr).1, of_decide_eq_true (List.mem_filter.1 hr).2⟩
  generalize s.filter (fun r => decide (r.st = .lc)) = l at hgf hall hback
  cases l with
  | nil => cases hgf
  | cons a l =>
    obtain ⟨m, e, h1, h2, h3⟩ := foldl_maxStep_some l a.height
    refine ⟨m, by simpa [List.foldl_cons, maxStep] using e, ?_, ?_⟩
    · intro r hr h
      rcases List.mem_cons.1 (hall r hr h) with rfl | h'
      · exact h1
      · exact h2 r h'
    · rcases h3 with h3 | ⟨r, hr, e'⟩
      · exact ⟨a, (hback a List.mem_cons_self).1, (hback a List.mem_cons_self).2, h3.symm⟩
      · exact ⟨r, (hback r (List.mem_cons_of_mem _ hr)).1, (hback r (List.mem_cons_of_mem _ hr)).2, e'⟩

/-- a store with a longest-chain row has a tip: a highest longest-chain row -/
theorem getTip_some {s : Store H} {g : Row H} (hg : g ∈ s) (hl : g.st = .lc) :
    ∃ t, getTip s = some t ∧ t ∈ s ∧ t.st = .lc ∧ ∀ r ∈ s, r.st = .lc → r.height ≤ t.height := by
  obtain ⟨m, e, hmax, r, hr, hrl, hrm⟩ := maxLcHeight_some hg hl
  obtain ⟨t, et⟩ := lcAtHeight_of_mem hr hrl
  rw [hrm] at et
  obtain ⟨ht, htm, htl⟩ := lcAtHeight_some et
  refine ⟨t, ?_, ht, htl, ?_⟩
  · unfold getTip; rw [e]; exact et
  · intro r' hr' hl'; rw [htm]; exact hmax r' hr' hl'

/-! ### setState -/

/-- change the state column of a row -/
def setSt (r : Row H) (st : St) : Row H := { r with st := st }

@[simp] theorem setSt_st (r : Row H) (st : St) : (setSt r st).st = st := rfl
@[simp] theorem setSt_id (r : Row H) (st : St) : (setSt r st).id = r.id := rfl
@[simp] theorem setSt_hash (r : Row H) (st : St) : (setSt r st).hash = r.hash := rfl
@[simp] theorem setSt_prev (r : Row H) (st : St) : (setSt r st).prev = r.prev := rfl
@[simp] theorem setSt_height (r : Row H) (st : St) : (setSt r st).height = r.height := rfl
@[simp] theorem setSt_cum (r : Row H) (st : St) : (setSt r st).cum = r.cum := rfl
@[simp] theorem setSt_work (r : Row H) (st : St) : (setSt r st).work = r.work := rfl
@[simp] theorem setSt_bits (r : Row H) (st : St) : (setSt r st).bits = r.bits := rfl
@[simp] theorem setSt_srcOf (r : Row H) (st : St) : srcOf (setSt r st) = srcOf r := rfl
theorem setSt_self (r : Row H) : setSt r r.st = r := rfl

/-- the two updates of a chain switch seen as one relabelling of each row -/
def relab (hs1 hs2 : List H) (r : Row H) : Row H :=
  if r.hash ∈ hs2 then setSt r .lc else if r.hash ∈ hs1 then setSt r .stale else r

theorem setState_nil (s : Store H) (st : St) : setState s [] st = s := by
  unfold setState
  conv => rhs; rw [← List.map_id s]
  apply List.map_congr_left
  intro r _
  simp

theorem setState_setState (s : Store H) (hs1 hs2 : List H) :
    setState (setState s hs1 .stale) hs2 .lc = s.map (relab hs1 hs2) := by
  unfold setState
  rw [List.map_map]
  apply List.map_congr_left
  intro r _
  simp only [Function.comp, relab]
  by_cases h1 : r.hash ∈ hs1 <;> by_cases h2 : r.hash ∈ hs2 <;> simp [h1, h2, setSt]

theorem relab_nil (r : Row H) : relab ([] : List H) [] r = r := by
  simp [relab]

theorem relab_fields (hs1 hs2 : List H) (r : Row H) :
    relab hs1 hs2 r = setSt r (relab hs1 hs2 r).st := by
  unfold relab
  split
  · rfl
  · split <;> rfl

theorem relab_hash (hs1 hs2 : List H) (r : Row H) : (relab hs1 hs2 r).hash = r.hash := by
  rw [relab_fields]; rfl

theorem relab_st_lc {hs1 hs2 : List H} {r : Row H} :
    (relab hs1 hs2 r).st = .lc ↔ r.hash ∈ hs2 ∨ (r.hash ∉ hs1 ∧ r.st = .lc) := by
  unfold relab
  by_cases h2 : r.hash ∈ hs2
  · simp [h2]
  · by_cases h1 : r.hash ∈ hs1
    · simp [h1, h2]
    · simp [h1, h2]

theorem relab_st_of_not_mem {hs1 hs2 : List H} {r : Row H} (h1 : r.hash ∉ hs1) (h2 : r.hash ∉ hs2) :
    relab hs1 hs2 r = r := by
  simp [relab, h1, h2]

theorem relab_st_cases (hs1 hs2 : List H) (r : Row H) :
    (relab hs1 hs2 r = r) ∨ ((r.hash ∈ hs1 ∨ r.hash ∈ hs2) ∧
      ((relab hs1 hs2 r).st = .lc ∨ (relab hs1 hs2 r).st = .stale)) := by
  unfold relab
  by_cases h2 : r.hash ∈ hs2
  · right; simp [h2]
  · by_cases h1 : r.hash ∈ hs1
    · right; simp [h1, h2]
    · left; simp [h1, h2]

/-! ### insertRow -/

theorem insertRow_fresh {s : Store H} {r : Row H} (h : ∀ a ∈ s, a.hash ≠ r.hash) :
    insertRow s r = s ++ [{ r with id := s.length }] := by
  unfold insertRow
  rw [if_neg]
  intro k
  obtain ⟨a, ha, e⟩ := byHash_isSome.1 k
  exact h a ha e

/-! ### accessors of WF -/

theorem WF.ids {cfg : Cfg H} {s : Store H} (h : WF cfg s) : s.map (·.id) = List.range s.length := h.1
theorem WF.nodup {cfg : Cfg H} {s : Store H} (h : WF cfg s) : (s.map (·.hash)).Nodup := h.2.1
theorem WF.root {cfg : Cfg H} {s : Store H} (h : WF cfg s) :
    ∃ g ∈ s, g.id = 0 ∧ g.st = .lc ∧ g.height = 0 ∧ ∀ r ∈ s, r.hash ≠ g.prev := h.2.2.1
theorem WF.par {cfg : Cfg H} {s : Store H} (h : WF cfg s) :
    ∀ r ∈ s, connected r → r.id ≠ 0 →
      ∃ p ∈ s, p.hash = r.prev ∧ p.id < r.id ∧ connected p ∧ r.height = p.height + 1 ∧
        r.cum = p.cum + r.work := h.2.2.2.1
theorem WF.orph {cfg : Cfg H} {s : Store H} (h : WF cfg s) :
    ∀ r ∈ s, r.st = .orphan → ∀ p ∈ s, p.hash = r.prev → p.st = .orphan ∨ r.id < p.id := h.2.2.2.2.1
theorem WF.hashes {cfg : Cfg H} {s : Store H} (h : WF cfg s) :
    ∀ r ∈ s, r.id ≠ 0 → r.hash = cfg.hashOf (srcOf r) ∧ r.work = work r.bits ∧ r.hash ∉ cfg.forbidden :=
  h.2.2.2.2.2

/-- rowids are positions -/
theorem ids_getElem {s : Store H} (hi : s.map (·.id) = List.range s.length) {r : Row H} (hr : r ∈ s) :
    ∃ h : r.id < s.length, s[r.id] = r := by
  obtain ⟨i, hlt, e⟩ := List.mem_iff_getElem.1 hr
  have h1 : (s.map (·.id))[i]'(by simpa using hlt) = s[i].id := by simp
  have h2 : (s.map (·.id))[i]'(by simpa using hlt) = i := by
    simp only [hi]; simp
  have : r.id = i := by rw [← e, ← h1, h2]
  subst this
  exact ⟨hlt, e⟩

theorem ids_lt {s : Store H} (hi : s.map (·.id) = List.range s.length) {r : Row H} (hr : r ∈ s) :
    r.id < s.length := (ids_getElem hi hr).1

theorem ids_inj {s : Store H} (hi : s.map (·.id) = List.range s.length) {a b : Row H}
    (ha : a ∈ s) (hb : b ∈ s) (e : a.id = b.id) : a = b := by
  obtain ⟨h1, e1⟩ := ids_getElem hi ha
  obtain ⟨h2, e2⟩ := ids_getElem hi hb
  rw [← e1, ← e2]
  simp only [e]

theorem WF.hash_inj {cfg : Cfg H} {s : Store H} (h : WF cfg s) {a b : Row H}
    (ha : a ∈ s) (hb : b ∈ s) (e : a.hash = b.hash) : a = b :=
  inj_of_nodup_map (·.hash) h.nodup ha hb e

theorem WF.id_inj {cfg : Cfg H} {s : Store H} (h : WF cfg s) {a b : Row H}
    (ha : a ∈ s) (hb : b ∈ s) (e : a.id = b.id) : a = b := ids_inj h.ids ha hb e

/-- the root row is the row with id 0 -/
theorem WF.root_of_id {cfg : Cfg H} {s : Store H} (h : WF cfg s) {g : Row H} (hg : g ∈ s) (hg0 : g.id = 0) :
    g.st = .lc ∧ g.height = 0 ∧ ∀ r ∈ s, r.hash ≠ g.prev := by
  obtain ⟨g', hg', h0, h1⟩ := h.root
  have : g' = g := h.id_inj hg' hg (by rw [h0, hg0])
  subst this
  exact h1

/-- a connected row that is not the root has height ≥ 1 -/
theorem WF.height_pos {cfg : Cfg H} {s : Store H} (h : WF cfg s) {r : Row H} (hr : r ∈ s)
    (hc : connected r) (h0 : r.id ≠ 0) : 1 ≤ r.height := by
  obtain ⟨p, _, _, _, _, e, _⟩ := h.par r hr hc h0
  omega

theorem WF.stale_height_pos {cfg : Cfg H} {s : Store H} (h : WF cfg s) {r : Row H} (hr : r ∈ s)
    (hs : r.st = .stale) : 1 ≤ r.height := by
  apply h.height_pos hr (connected_of_stale hs)
  intro h0
  have := (h.root_of_id hr h0).1
  rw [hs] at this; cases this

end BHS.Chain
