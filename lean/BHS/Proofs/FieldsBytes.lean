/-
Helper lemmas for C03 (2/3): the byte level of the 80-byte header.
  * little-endian 32-bit and int32 round trips
  * hex round trip `ofHex (toHex b) = some b`
  * layout / length of `serialize`, and `parse (serialize x) = some x` for well-formed `x`
SHA-256 is used only as "a function on bytes". Core Lean only.
-/
import BHS.Model.Header

namespace BHS.Header
open BHS.Sha256 BHS.Chain

/-! ### integers -/

theorem le32_length (n : Nat) : (le32 n).length = 4 := rfl

theorem getLe32_le32 (n : Nat) (h : n < 2 ^ 32) : getLe32 (le32 n) = n := by
  simp only [le32, getLe32, UInt8.toNat_ofNat']
  omega

theorem int32Bits_lt (v : Int) : int32Bits v < 2 ^ 32 := by
  unfold int32Bits
  omega

theorem bitsToInt32_int32Bits (v : Int) (h1 : -2 ^ 31 ≤ v) (h2 : v < 2 ^ 31) :
    bitsToInt32 (int32Bits v) = v := by
  unfold bitsToInt32 int32Bits
  split <;> omega

/-! ### hex -/

theorem hexVal_hexDigit : ∀ n, n < 16 → hexVal (hexDigit n) = some n := by decide

theorem uint8_nibbles (b : UInt8) : UInt8.ofNat (16 * (b.toNat / 16) + b.toNat % 16) = b := by
  rw [Nat.div_add_mod]
  exact UInt8.ofNat_toNat

theorem ofHexList_hexDigits (bs : List UInt8) :
    ofHexList (bs.flatMap fun b => [hexDigit (b.toNat / 16), hexDigit (b.toNat % 16)]) = some bs := by
  induction bs with
  | nil => rfl
  | cons b bs ih =>
    have hb : b.toNat < 256 := UInt8.toNat_lt b
    rw [List.flatMap_cons]
    show ofHexList (hexDigit (b.toNat / 16) :: hexDigit (b.toNat % 16) ::
      (bs.flatMap fun b => [hexDigit (b.toNat / 16), hexDigit (b.toNat % 16)])) = _
    rw [ofHexList]
    rw [hexVal_hexDigit _ (by omega), hexVal_hexDigit _ (by omega), ih]
    show some (UInt8.ofNat (16 * (b.toNat / 16) + b.toNat % 16) :: bs) = _
    rw [uint8_nibbles]

theorem ofHex_toHex (bs : List UInt8) : ofHex (toHex bs) = some bs := by
  unfold ofHex toHex
  rw [String.toList_ofList]
  exact ofHexList_hexDigits bs

/-- display form back to wire bytes -/
theorem hashBytes_displayHash (b : List UInt8) : hashBytes (displayHash b) = b := by
  unfold hashBytes displayHash
  rw [ofHex_toHex]
  exact List.reverse_reverse b

/-! ### layout -/

theorem serialize_layout (x : Src String) :
    serialize x = le32 (int32Bits x.version) ++ hashBytes x.prev ++ hashBytes x.merkle ++ le32 x.time ++
      le32 x.bits ++ le32 x.nonce := rfl

theorem serialize_length (x : Src String) (hp : (hashBytes x.prev).length = 32)
    (hm : (hashBytes x.merkle).length = 32) : (serialize x).length = 80 := by
  unfold serialize
  simp only [List.length_append, le32_length, hp, hm]

/-- the six fields sit at offsets 0, 4, 36, 68, 72, 76 -/
theorem parse_layout (v p m t b n : List UInt8) (hv : v.length = 4) (hp : p.length = 32) (hm : m.length = 32)
    (ht : t.length = 4) (hb : b.length = 4) (hn : n.length = 4) :
    parse (v ++ p ++ m ++ t ++ b ++ n) =
      some { version := bitsToInt32 (getLe32 v), prev := displayHash p, merkle := displayHash m,
             time := getLe32 t, bits := getLe32 b, nonce := getLe32 n } := by
  have e : v ++ p ++ m ++ t ++ b ++ n = v ++ (p ++ (m ++ (t ++ (b ++ n)))) := by
    simp only [List.append_assoc]
  have hlen : (v ++ (p ++ (m ++ (t ++ (b ++ n))))).length = 80 := by
    simp only [List.length_append, hv, hp, hm, ht, hb, hn]
  rw [e]
  unfold parse
  rw [if_neg (by rw [hlen]; exact fun k => k rfl)]
  have d4 : (v ++ (p ++ (m ++ (t ++ (b ++ n))))).drop 4 = p ++ (m ++ (t ++ (b ++ n))) := List.drop_left' hv
  have d36 : (v ++ (p ++ (m ++ (t ++ (b ++ n))))).drop 36 = m ++ (t ++ (b ++ n)) := by
    rw [show (36 : Nat) = 4 + 32 from rfl, ← List.drop_drop, d4]; exact List.drop_left' hp
  have d68 : (v ++ (p ++ (m ++ (t ++ (b ++ n))))).drop 68 = t ++ (b ++ n) := by
    rw [show (68 : Nat) = 36 + 32 from rfl, ← List.drop_drop, d36]; exact List.drop_left' hm
  have d72 : (v ++ (p ++ (m ++ (t ++ (b ++ n))))).drop 72 = b ++ n := by
    rw [show (72 : Nat) = 68 + 4 from rfl, ← List.drop_drop, d68]; exact List.drop_left' ht
  have d76 : (v ++ (p ++ (m ++ (t ++ (b ++ n))))).drop 76 = n := by
    rw [show (76 : Nat) = 72 + 4 from rfl, ← List.drop_drop, d72]; exact List.drop_left' hb
  rw [d4, d36, d68, d72, d76, List.take_left' hv, List.take_left' hp, List.take_left' hm, List.take_left' ht,
    List.take_left' hb, List.take_of_length_le (Nat.le_of_eq hn)]

/-- a header as it comes off the wire: int32 version, three uint32, two 32-byte hashes in display form -/
def WellFormed (x : Src String) : Prop :=
  -2 ^ 31 ≤ x.version ∧ x.version < 2 ^ 31 ∧ x.time < 2 ^ 32 ∧ x.bits < 2 ^ 32 ∧ x.nonce < 2 ^ 32 ∧
  (∃ b : List UInt8, b.length = 32 ∧ x.prev = displayHash b) ∧
  (∃ b : List UInt8, b.length = 32 ∧ x.merkle = displayHash b)

theorem parse_serialize (x : Src String) (h : WellFormed x) : parse (serialize x) = some x := by
  obtain ⟨v1, v2, ht, hb, hn, ⟨bp, lp, ep⟩, ⟨bm, lm, em⟩⟩ := h
  have hp : hashBytes x.prev = bp := by rw [ep]; exact hashBytes_displayHash bp
  have hm : hashBytes x.merkle = bm := by rw [em]; exact hashBytes_displayHash bm
  unfold serialize
  rw [hp, hm, parse_layout _ _ _ _ _ _ (le32_length _) lp lm (le32_length _) (le32_length _) (le32_length _),
    getLe32_le32 _ (int32Bits_lt _), bitsToInt32_int32Bits _ v1 v2, getLe32_le32 _ ht, getLe32_le32 _ hb,
    getLe32_le32 _ hn, ← ep, ← em]

end BHS.Header
