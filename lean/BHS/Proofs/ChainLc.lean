/-
Helper lemmas for C01 (5/5): preservation of the longest-chain invariant `LcInv` by `add`
(every branch of `plan`), and `Inv → Canon`.
Core Lean only.
-/
import BHS.Proofs.ChainWF

set_option linter.unusedSectionVars false

namespace BHS.Chain
variable {H : Type} [DecidableEq H]

/-! ### accessors of LcAt -/

theorem LcAt.lc {s : Store H} {t : Row H} (h : LcAt s t) : t.st = .lc := h.1
theorem LcAt.best {s : Store H} {t : Row H} (h : LcAt s t) :
    ∀ r ∈ s, connected r → r.cum ≤ t.cum ∧ (r.cum = t.cum → t.id ≤ r.id) := h.2.1
theorem LcAt.top {s : Store H} {t : Row H} (h : LcAt s t) : ∀ r ∈ s, r.st = .lc → r.height ≤ t.height := h.2.2.1
theorem LcAt.uniq {s : Store H} {t : Row H} (h : LcAt s t) :
    ∀ r ∈ s, ∀ r' ∈ s, r.st = .lc → r'.st = .lc → r.height = r'.height → r = r' := h.2.2.2.1
theorem LcAt.par {s : Store H} {t : Row H} (h : LcAt s t) :
    ∀ r ∈ s, r.st = .lc → r.id ≠ 0 → ∀ p ∈ s, p.hash = r.prev → p.st = .lc := h.2.2.2.2

/-- the reported tip is the top of the longest chain -/
theorem LcAt.getTip {s : Store H} {t : Row H} (ht : t ∈ s) (hl : LcAt s t) : getTip s = some t := by
  obtain ⟨t', e, ht', hl', hmax⟩ := getTip_some ht hl.lc
  have h1 := hl.top t' ht' hl'
  have h2 := hmax t ht hl.lc
  have : t' = t := hl.uniq t' ht' t ht hl' hl.lc (by omega)
  rw [e, this]

/-! ### Inv → Canon -/

theorem canon_of_inv {cfg : Cfg H} {s : Store H} (h : Inv cfg s) : Canon s := by
  obtain ⟨hw, t, ht, hl⟩ := h
  have htc := connected_of_lc hl.lc
  refine ⟨t, ht, hl.getTip ht, ⟨ht, htc, hl.best⟩, ?_⟩
  intro r hr
  constructor
  · intro hrl
    obtain ⟨a, ha, e⟩ := hw.chainTo_height_surj t ht htc r.height (hl.top r hr hrl)
    have hal := hw.chainTo_lc hl.par t ht htc hl.lc a ha
    have : a = r := hl.uniq a (chainTo_mem ha) r hr hal hrl e
    rw [← this]; exact ha
  · intro hm; exact hw.chainTo_lc hl.par t ht htc hl.lc r hm

/-! ### appending a row that is not on the longest chain -/

theorem LcAt.append_nonlc {cfg : Cfg H} {s : Store H} (hw : WF cfg s) {t : Row H} (ht : t ∈ s)
    (hl : LcAt s t) (r : Row H) (hst : r.st ≠ .lc) (hfresh : ∀ a ∈ s, a.hash ≠ r.hash)
    (hid : r.id = s.length) (hcum : connected r → r.cum ≤ t.cum) : LcAt (s ++ [r]) t := by
  have mem : ∀ a, a ∈ s ++ [r] → a ∈ s ∨ a = r := by
    intro a ha; rw [List.mem_append, List.mem_singleton] at ha; exact ha
  refine ⟨hl.lc, ?_, ?_, ?_, ?_⟩
  · intro a ha hc
    rcases mem a ha with ha' | rfl
    · exact hl.best a ha' hc
    · refine ⟨hcum hc, fun _ => ?_⟩
      rw [hid]; exact Nat.le_of_lt (ids_lt hw.ids ht)
  · intro a ha hal
    rcases mem a ha with ha' | rfl
    · exact hl.top a ha' hal
    · exact absurd hal hst
  · intro a ha b hb hal hbl e
    rcases mem a ha with ha' | rfl
    · rcases mem b hb with hb' | rfl
      · exact hl.uniq a ha' b hb' hal hbl e
      · exact absurd hbl hst
    · exact absurd hal hst
  · intro a ha hal h0 q hq e
    rcases mem a ha with ha' | rfl
    · rcases mem q hq with hq' | rfl
      · exact hl.par a ha' hal h0 q hq' e
      · obtain ⟨p, hp, e1, _⟩ := hw.par a ha' (connected_of_lc hal) h0
        exact absurd (e1.trans e.symm) (hfresh p hp)
    · exact absurd hal hst

/-! ### appending a row that becomes the new top of the longest chain -/

theorem LcAt.append_lc {cfg : Cfg H} {s : Store H} (hw : WF cfg s) {t : Row H} (hl : LcAt s t)
    (f : Row H → Row H) (hf : ∀ a ∈ s, f a = setSt a (f a).st)
    (ho : ∀ a ∈ s, (f a).st = .orphan ↔ a.st = .orphan)
    (r : Row H) (hst : r.st = .lc) (hfresh : ∀ a ∈ s, a.hash ≠ r.hash)
    {p : Row H} (hp : p ∈ s) (hpe : p.hash = r.prev) (hh : r.height = p.height + 1) (hcum : t.cum < r.cum)
    (h3 : ∀ a ∈ s, (f a).st = .lc → a.height ≤ p.height)
    (h4 : ∀ a ∈ s, ∀ b ∈ s, (f a).st = .lc → (f b).st = .lc → a.height = b.height → a = b)
    (h5 : ∀ a ∈ s, (f a).st = .lc → a.id ≠ 0 → ∀ q ∈ s, q.hash = a.prev → (f q).st = .lc)
    (hpl : (f p).st = .lc) : LcAt (s.map f ++ [r]) r := by
  have fld := fun a ha => setSt_fields_of_eq (hf a ha)
  have mem : ∀ a', a' ∈ s.map f ++ [r] → (∃ a ∈ s, a' = f a) ∨ a' = r := by
    intro a' ha'
    rw [List.mem_append, List.mem_singleton] at ha'
    rcases ha' with k | k
    · obtain ⟨a, ha, e⟩ := List.mem_map.1 k; exact Or.inl ⟨a, ha, e.symm⟩
    · exact Or.inr k
  refine ⟨hst, ?_, ?_, ?_, ?_⟩
  · intro a' ha' hc
    rcases mem a' ha' with ⟨a, ha, rfl⟩ | rfl
    · have hca : connected a := (not_congr (ho a ha)).1 hc
      have := (hl.best a ha hca).1
      rw [(fld a ha).2.2.2.2.1]
      exact ⟨by omega, fun e => by omega⟩
    · exact ⟨Nat.le_refl _, fun _ => Nat.le_refl _⟩
  · intro a' ha' hal
    rcases mem a' ha' with ⟨a, ha, rfl⟩ | rfl
    · have := h3 a ha hal
      rw [(fld a ha).2.2.2.1]; omega
    · exact Nat.le_refl _
  · intro a' ha' b' hb' hal hbl e
    rcases mem a' ha' with ⟨a, ha, rfl⟩ | rfl
    · rcases mem b' hb' with ⟨b, hb, rfl⟩ | rfl
      · rw [(fld a ha).2.2.2.1, (fld b hb).2.2.2.1] at e
        rw [h4 a ha b hb hal hbl e]
      · have := h3 a ha hal
        rw [(fld a ha).2.2.2.1] at e; omega
    · rcases mem b' hb' with ⟨b, hb, rfl⟩ | rfl
      · have := h3 b hb hbl
        rw [(fld b hb).2.2.2.1] at e; omega
      · rfl
  · intro a' ha' hal h0 q' hq' e
    rcases mem a' ha' with ⟨a, ha, rfl⟩ | rfl
    · rw [(fld a ha).1] at h0
      rw [(fld a ha).2.2.1] at e
      rcases mem q' hq' with ⟨q, hq, rfl⟩ | rfl
      · rw [(fld q hq).2.1] at e
        exact h5 a ha hal h0 q hq e
      · have hca : connected a := (not_congr (ho a ha)).1 (connected_of_lc hal)
        obtain ⟨p0, hp0, e1, _⟩ := hw.par a ha hca h0
        exact absurd (e1.trans e.symm) (hfresh p0 hp0)
    · rcases mem q' hq' with ⟨q, hq, rfl⟩ | rfl
      · rw [(fld q hq).2.1] at e
        have : q = p := hw.hash_inj hq hp (e.trans hpe.symm)
        rw [this]; exact hpl
      · exact absurd (hpe.trans e.symm) (hfresh p hp)

/-! ### the switch: which old rows are on the longest chain afterwards -/

section switch
variable {cfg : Cfg H} {s : Store H} {x : Src H} {p : Row H}

theorem anc_eq_chainTo (hpe : p.hash = x.prev) : ancestorsFrom s s.length x.prev = chainTo s p := by
  unfold chainTo; rw [hpe]

theorem WF.relab_lc_iff (hw : WF cfg s) (hpe : p.hash = x.prev) {a : Row H} (ha : a ∈ s) :
    (relab (hs1 cfg s x) (hs2 s x) a).st = .lc ↔
      (a ∈ chainTo s p ∧ a.st = .stale) ∨ (a.height < lowH cfg s x ∧ a.st = .lc) := by
  rw [relab_st_lc, hw.mem_hs1 ha, hw.mem_hs2 ha, anc_eq_chainTo hpe]
  constructor
  · rintro (k | ⟨k1, k2⟩)
    · exact Or.inl k
    · refine Or.inr ⟨?_, k2⟩
      apply Nat.lt_of_not_le
      intro hle; exact k1 ⟨hle, k2⟩
  · rintro (k | ⟨k1, k2⟩)
    · exact Or.inl k
    · refine Or.inr ⟨?_, k2⟩
      intro hle; omega

theorem lowH_le (hm : (mkRow cfg s x).height = p.height + 1) : lowH cfg s x ≤ p.height + 1 := by
  unfold lowH; rw [← hm]; exact lowestHeight_le _ _

theorem lowH_le_stale (hpe : p.hash = x.prev) {b : Row H} (hb : b ∈ chainTo s p) (hs : b.st = .stale) :
    lowH cfg s x ≤ b.height := by
  unfold lowH
  apply lowestHeight_le_mem
  rw [mem_stalePre, anc_eq_chainTo hpe]
  exact ⟨hb, hs⟩

theorem lowH_attained (hpe : p.hash = x.prev) (hm : (mkRow cfg s x).height = p.height + 1) :
    lowH cfg s x = p.height + 1 ∨ ∃ b ∈ chainTo s p, b.st = .stale ∧ lowH cfg s x = b.height := by
  unfold lowH
  rcases lowestHeight_attained (stalePre s x) (mkRow cfg s x).height with k | ⟨b, hb, k⟩
  · left; rw [k, hm]
  · right
    rw [mem_stalePre, anc_eq_chainTo hpe] at hb
    exact ⟨b, hb.1, hb.2, k⟩

/-- a longest-chain row of the ancestor walk lies strictly below the switch height -/
theorem WF.lc_below_lowH (hw : WF cfg s) {t : Row H} (hl : LcAt s t) (hp : p ∈ s) (hpc : connected p)
    (hpe : p.hash = x.prev) (hm : (mkRow cfg s x).height = p.height + 1)
    {q : Row H} (hq : q ∈ chainTo s p) (hql : q.st = .lc) : q.height < lowH cfg s x := by
  rcases lowH_attained (cfg := cfg) hpe hm with k | ⟨b, hb, hbs, k⟩
  · have := (hw.chainTo_le p hp hpc q hq).2; omega
  · rw [k]
    apply Nat.lt_of_not_le
    intro hle
    have hqs := chainTo_mem hq
    have hqc := connected_of_lc hql
    obtain ⟨c, hc, e⟩ := hw.chainTo_height_surj q hqs hqc b.height hle
    have hcl := hw.chainTo_lc hl.par q hqs hqc hql c hc
    have hcp := hw.chainTo_sub p hp hpc q hq c hc
    have : c = b := hw.chainTo_height_inj p hp hpc c hcp b hb e
    rw [this, hbs] at hcl; cases hcl

/-- a switch makes the appended row the new top of the longest chain -/
theorem LcAt.switch (hw : WF cfg s) {t : Row H} (hl : LcAt s t) (hp : p ∈ s) (hpc : connected p)
    (hpe : p.hash = x.prev) (hm : (mkRow cfg s x).height = p.height + 1)
    (hfresh : ∀ a ∈ s, a.hash ≠ cfg.hashOf x) (hcum : t.cum < (mkRow cfg s x).cum) :
    LcAt (s.map (relab (hs1 cfg s x) (hs2 s x)) ++ [setSt (mkRow cfg s x) .lc])
      (setSt (mkRow cfg s x) .lc) := by
  have iff := fun a ha => hw.relab_lc_iff (cfg := cfg) hpe (a := a) ha
  have below := fun q hq hql => hw.lc_below_lowH hl hp hpc hpe hm (q := q) hq hql
  have hle := lowH_le (cfg := cfg) hm
  refine LcAt.append_lc hw hl (relab (hs1 cfg s x) (hs2 s x)) (fun a _ => relab_fields _ _ a)
    (fun a ha => hw.relab_orphan_iff x ha) (setSt (mkRow cfg s x) .lc) rfl hfresh hp hpe hm hcum
    ?_ ?_ ?_ ?_
  · -- clause 3
    intro a ha hal
    rcases (iff a ha).1 hal with ⟨k, _⟩ | ⟨k, _⟩
    · exact (hw.chainTo_le p hp hpc a k).2
    · omega
  · -- clause 4
    intro a ha b hb hal hbl e
    rcases (iff a ha).1 hal with ⟨ka, sa⟩ | ⟨ka, sa⟩ <;> rcases (iff b hb).1 hbl with ⟨kb, sb⟩ | ⟨kb, sb⟩
    · exact hw.chainTo_height_inj p hp hpc a ka b kb e
    · have := lowH_le_stale (cfg := cfg) hpe ka sa; omega
    · have := lowH_le_stale (cfg := cfg) hpe kb sb; omega
    · exact hl.uniq a ha b hb sa sb e
  · -- clause 5
    intro a ha hal h0 q hq e
    rw [iff q hq]
    rcases (iff a ha).1 hal with ⟨ka, sa⟩ | ⟨ka, sa⟩
    · have hqw : q ∈ chainTo s p := hw.chainTo_parent_sub hp hpc ka h0 hq e q (hw.chainTo_self hq)
      rcases St.lc_or_stale_of_ne_orphan (hw.chainTo_le p hp hpc q hqw).1 with k | k
      · exact Or.inr ⟨below q hqw k, k⟩
      · exact Or.inl ⟨hqw, k⟩
    · have hql := hl.par a ha sa h0 q hq e
      obtain ⟨q', hq', e1, _, _, e4, _⟩ := hw.par a ha (connected_of_lc sa) h0
      have : q' = q := hw.hash_inj hq' hq (e1.trans e.symm)
      subst this
      exact Or.inr ⟨by omega, hql⟩
  · -- the parent of the new row
    rw [iff p hp]
    rcases St.lc_or_stale_of_ne_orphan hpc with k | k
    · exact Or.inr ⟨below p (hw.chainTo_self hp) k, k⟩
    · exact Or.inl ⟨hw.chainTo_self hp, k⟩

end switch

/-! ### `concurrent` -/

theorem concurrent_false_st {s : Store H} {r : Row H} (hc : concurrent s r = false) :
    r.st = .orphan ∨ r.st = .lc := by
  cases e : r.st with
  | orphan => exact Or.inl rfl
  | lc => exact Or.inr rfl
  | stale => simp [concurrent, e] at hc

theorem concurrent_false_lc {s : Store H} {r : Row H} (hc : concurrent s r = false) (hl : r.st = .lc)
    (hfresh : ∀ a ∈ s, a.hash ≠ r.hash) : ∀ a ∈ s, a.st = .lc → a.height ≠ r.height := by
  cases e : lcAtHeight s r.height with
  | none => exact lcAtHeight_none e
  | some oh =>
    have := hfresh oh (lcAtHeight_some e).1
    simp [concurrent, hl, e, this] at hc

/-- a header on the longest chain's side that is not compared with the tip adds work -/
theorem concurrent_false_work {s : Store H} {r : Row H} (hc : concurrent s r = false) (hl : r.st = .lc) :
    r.work ≠ 0 := by
  intro hz
  simp [concurrent, hl, hz] at hc

/-- a zero-work child of a longest-chain row is always compared with the tip -/
theorem concurrent_zero_work {s : Store H} {r : Row H} (hl : r.st = .lc) (hz : r.work = 0) :
    concurrent s r = true := by
  simp [concurrent, hl, hz]

/-! ### the step -/

/-- `add` preserves the invariant — for EVERY submission. A zero-work child of a longest-chain row is compared
    with the tip (`concurrent_zero_work`); its cumulative work is its parent's, which the tip dominates, so it falls
    into the "a stale row is appended" branch below. -/
theorem Inv.add {cfg : Cfg H} {s : Store H} (h : Inv cfg s) (x : Src H) {g : Row H} (hg : g ∈ s)
    (hg0 : g.id = 0) (hz : ∀ y, cfg.hashOf y ≠ g.prev) : Inv cfg (Chain.add cfg s x).1 := by
  refine ⟨h.1.add_wf x hg hg0 hz, ?_⟩
  obtain ⟨hw, t, ht, hl⟩ := h
  have htip := hl.getTip ht
  rcases add_cases cfg s x with ⟨_, e⟩ | ⟨_, _, e⟩ | ⟨hd, hf, k⟩
  · rw [e]; exact ⟨t, ht, hl⟩
  · rw [e]; exact ⟨t, ht, hl⟩
  · have fresh := byHash_not_isSome hd
    rcases k with ⟨hc, e⟩ | ⟨_, _, e⟩ | ⟨hc, tip, htip', hcum, e⟩ | ⟨hc, tip, htip', hcum, e⟩
    · rw [e]
      rcases concurrent_false_st hc with hst | hst
      · -- an orphan is appended
        refine ⟨t, List.mem_append_left _ ht, hl.append_nonlc hw ht _ ?_ fresh rfl ?_⟩
        · rw [hst]; intro k; cases k
        · intro k; exact absurd hst k
      · -- the tip is extended
        obtain ⟨p, hp, _, hpe, hpc, hm, hmc, hps⟩ := mkRow_par (connected_of_lc hst)
        have hpl : p.st = .lc := by rw [← hps]; exact hst
        have hnone := concurrent_false_lc hc hst fresh
        have hpt : p = t := by
          have h1 := hl.top p hp hpl
          apply hl.uniq p hp t ht hpl hl.lc
          apply Nat.le_antisymm h1
          apply Nat.le_of_not_lt
          intro hlt
          obtain ⟨a, ha, hal, hah⟩ := hw.lc_contiguous hl.par ht hl.lc (k := p.height + 1) (by omega)
          exact hnone a ha hal (by rw [hah, hm])
        subst hpt
        have hwork : work x.bits ≠ 0 := concurrent_false_work hc hst
        refine ⟨_, List.mem_append_right _ (List.mem_singleton.2 rfl), ?_⟩
        have := LcAt.append_lc hw hl id (fun a _ => rfl) (fun a _ => Iff.rfl) (mkRow cfg s x) hst fresh
          hp hpe hm (by omega) (fun a ha hal => hl.top a ha hal) hl.uniq hl.par hpl
        rw [List.map_id] at this
        exact this
    · rw [e]; exact ⟨t, ht, hl⟩
    · -- a stale row is appended
      rw [e]
      rw [htip] at htip'; cases htip'
      refine ⟨t, List.mem_append_left _ ht, hl.append_nonlc hw ht _ ?_ fresh rfl ?_⟩
      · intro k; cases k
      · intro _; show (mkRow cfg s x).cum ≤ t.cum; omega
    · -- the switch
      rw [e]
      rw [htip] at htip'; cases htip'
      obtain ⟨p, hp, _, hpe, hpc, hm, _, _⟩ := mkRow_par (concurrent_connected hc)
      exact ⟨_, List.mem_append_right _ (List.mem_singleton.2 rfl),
        LcAt.switch hw hl hp hpc hpe hm fresh hcum⟩

/-- a header that adds no work never gets onto the longest chain: it is appended STALE (connected parent) or ORPHAN,
    and no old row is relabelled -/
theorem Inv.add_zero_work {cfg : Cfg H} {s : Store H} (h : Inv cfg s) (x : Src H) (hwk : work x.bits = 0)
    (hd : ¬ (byHash s (cfg.hashOf x)).isSome = true) (hf : cfg.hashOf x ∉ cfg.forbidden) :
    ∃ r, Chain.add cfg s x = (s ++ [r], .stored r) ∧ r.hash = cfg.hashOf x ∧ r.work = 0 ∧ r.st ≠ .lc := by
  obtain ⟨hw, t, ht, hl⟩ := h
  have htip := hl.getTip ht
  rcases add_cases cfg s x with ⟨k, _⟩ | ⟨_, k, _⟩ | ⟨_, _, k⟩
  · exact absurd k hd
  · exact absurd k hf
  · rcases k with ⟨hc, e⟩ | ⟨_, hn, _⟩ | ⟨hc, tip, htip', hcum, e⟩ | ⟨hc, tip, htip', hcum, e⟩
    · refine ⟨_, e, rfl, hwk, fun hst => ?_⟩
      exact concurrent_false_work hc hst hwk
    · rw [htip] at hn; cases hn
    · exact ⟨_, e, rfl, hwk, fun k => by cases k⟩
    · rw [htip] at htip'; cases htip'
      obtain ⟨p, hp, _, _, hpc, _, hmc, _⟩ := mkRow_par (concurrent_connected hc)
      have := (hl.best p hp hpc).1
      omega

/-- the invariant along any history -/
theorem Inv.run {cfg : Cfg H} {g : Row H} (hz : ∀ y, cfg.hashOf y ≠ g.prev) :
    ∀ (hist : List (Src H)) {s : Store H}, Inv cfg s → g ∈ s → g.id = 0 → Inv cfg (Chain.run cfg s hist) := by
  intro hist
  induction hist with
  | nil => intro s h _ _; exact h
  | cons x hist ih =>
    intro s h hg hg0
    show Inv cfg (Chain.run cfg (Chain.add cfg s x).1 hist)
    exact ih (h.add x hg hg0 hz) (h.1.add_keeps x hg (Or.inl hg0)) hg0

end BHS.Chain
