/-
Helper lemmas for C04 (2/3): the height-driven walks of BHS/Model/Query.lean
(`walkWhileHeight`/`ancestorOnHeight`, `walkUntil`/`chainBetween`, `ancestors`) from a CONNECTED row of a
well-formed store, expressed through the parent walk `chainTo`.
Along `chainTo` heights drop by exactly one per link (WF), which is why comparing heights finds the
right row. Core Lean only.
-/
import BHS.Proofs.QueryTree

set_option linter.unusedSectionVars false

namespace BHS.QueryTree
open BHS BHS.Chain
variable {H : Type} [DecidableEq H]

/-! ### more about `chainTo` -/

theorem chainTo_head {cfg : Cfg H} {s : Store H} (hw : WF cfg s) {r : Row H} (hr : r ∈ s) :
    ∃ tl, chainTo s r = r :: tl := by
  unfold chainTo
  obtain ⟨n, hn⟩ : ∃ n, s.length = n + 1 := ⟨s.length - 1, by have := List.length_pos_of_mem hr; omega⟩
  rw [hn, anc_some (byHash_mem hw.nodup hr)]
  exact ⟨_, rfl⟩

/-- heights strictly decrease along the walk -/
theorem chainTo_desc {cfg : Cfg H} {s : Store H} (hw : WF cfg s) :
    ∀ r ∈ s, connected r → (chainTo s r).Pairwise (fun x y => y.height < x.height) := by
  refine hw.chain_induction (P := fun r => (chainTo s r).Pairwise (fun x y => y.height < x.height)) ?_ ?_
  · intro g hg hg0
    rw [hw.chainTo_root hg hg0]
    exact List.pairwise_singleton _ _
  · intro r hr _ _ q hq e1 e2 hqc e4 _ ih
    rw [hw.chainTo_cons hr hq e1 e2 hqc]
    refine List.pairwise_cons.2 ⟨?_, ih⟩
    intro b hb
    have := (hw.chainTo_le q hq hqc b hb).2
    omega

/-- a row of the walk that is not the start is strictly lower -/
theorem chainTo_lt {cfg : Cfg H} {s : Store H} (hw : WF cfg s) {r a : Row H} (hr : r ∈ s) (hc : connected r)
    (ha : a ∈ chainTo s r) (hne : a ≠ r) : a.height < r.height := by
  have h1 := (hw.chainTo_le r hr hc a ha).2
  by_cases e : a.height = r.height
  · exact absurd (hw.chainTo_height_inj r hr hc a ha r (hw.chainTo_self hr) e) hne
  · omega

/-- two rows of one walk: the lower one is on the walk from the higher one -/
theorem chainTo_of_le {cfg : Cfg H} {s : Store H} (hw : WF cfg s) {r x a : Row H} (hr : r ∈ s) (hc : connected r)
    (hx : x ∈ chainTo s r) (ha : a ∈ chainTo s r) (hle : a.height ≤ x.height) : a ∈ chainTo s x := by
  have hxs := chainTo_mem hx
  have hxc := (hw.chainTo_le r hr hc x hx).1
  obtain ⟨a', ha', e⟩ := hw.chainTo_height_surj x hxs hxc a.height hle
  have := hw.chainTo_height_inj r hr hc a' (hw.chainTo_sub r hr hc x hx a' ha') a ha e
  rw [← this]; exact ha'

/-- consecutive rows are child and stored parent (raw form of `Linked` of Props/C04.lean) -/
def linked (s : Store H) : List (Row H) → Prop
  | [] => True
  | [_] => True
  | x :: y :: l => (y ∈ s ∧ x ∈ s ∧ y.hash = x.prev) ∧ linked s (y :: l)

theorem chainTo_linked {cfg : Cfg H} {s : Store H} (hw : WF cfg s) :
    ∀ r ∈ s, connected r → linked s (chainTo s r) := by
  refine hw.chain_induction (P := fun r => linked s (chainTo s r)) ?_ ?_
  · intro g hg hg0
    rw [hw.chainTo_root hg hg0]
    exact True.intro
  · intro r hr _ _ q hq e1 e2 hqc _ _ ih
    rw [hw.chainTo_cons hr hq e1 e2 hqc]
    obtain ⟨tl, htl⟩ := chainTo_head hw hq
    rw [htl] at ih ⊢
    exact ⟨⟨hq, hr, e1⟩, ih⟩

theorem linked_prefix {s : Store H} : ∀ (l1 l2 : List (Row H)), linked s (l1 ++ l2) → linked s l1
  | [], _, _ => True.intro
  | [_], _, _ => True.intro
  | x :: y :: l, l2, h => by
    have h' : (y ∈ s ∧ x ∈ s ∧ y.hash = x.prev) ∧ linked s ((y :: l) ++ l2) := h
    exact ⟨h'.1, linked_prefix (y :: l) l2 h'.2⟩

/-! ### the segment of a walk down to one of its rows -/

/-- the hash test `sqlChainBetweenTwoHashes` stops on -/
def notHash (a : Row H) : Row H → Bool := fun x => decide (x.hash ≠ a.hash)

/-- a list with unique hashes splits at the row with the given hash -/
theorem split_at {a : Row H} : ∀ (l : List (Row H)), a ∈ l → (∀ x ∈ l, x.hash = a.hash → x = a) →
    ∃ rest, l = l.takeWhile (notHash a) ++ a :: rest
  | [], h, _ => by cases h
  | x :: l, h, hu => by
    by_cases e : x.hash = a.hash
    · have hx : x = a := hu x List.mem_cons_self e
      subst hx
      refine ⟨l, ?_⟩
      rw [List.takeWhile_cons_of_neg (by simp [notHash])]
      rfl
    · have ha : a ∈ l := by
        rcases List.mem_cons.1 h with rfl | h
        · exact absurd rfl e
        · exact h
      obtain ⟨rest, hrest⟩ := split_at l ha (fun y hy => hu y (List.mem_cons_of_mem _ hy))
      refine ⟨rest, ?_⟩
      rw [List.takeWhile_cons_of_pos (by simp [notHash, e]), List.cons_append, ← hrest]

/-- the segment of the walk from `r` down to `a` inclusive -/
def segment (s : Store H) (r a : Row H) : List (Row H) := (chainTo s r).takeWhile (notHash a) ++ [a]

theorem chainTo_split {cfg : Cfg H} {s : Store H} (hw : WF cfg s) {r a : Row H} (ha : a ∈ chainTo s r) :
    ∃ rest, chainTo s r = segment s r a ++ rest := by
  obtain ⟨rest, h⟩ := split_at (chainTo s r) ha
    (fun x hx e => hw.hash_inj (chainTo_mem hx) (chainTo_mem ha) e)
  refine ⟨rest, ?_⟩
  unfold segment
  rw [List.append_assoc]
  exact h

/-- the segment holds exactly the rows of the walk that are not lower than `a` -/
theorem mem_segment {cfg : Cfg H} {s : Store H} (hw : WF cfg s) {r a : Row H} (hr : r ∈ s) (hc : connected r)
    (ha : a ∈ chainTo s r) {x : Row H} :
    x ∈ segment s r a ↔ x ∈ chainTo s r ∧ a.height ≤ x.height := by
  obtain ⟨rest, h⟩ := chainTo_split hw ha
  have hd := chainTo_desc hw r hr hc
  rw [h] at hd
  unfold segment at hd h ⊢
  rw [List.append_assoc, List.pairwise_append] at hd
  obtain ⟨_, hd2, hd3⟩ := hd
  have hd2' := (List.pairwise_cons.1 hd2).1
  constructor
  · intro hx
    refine ⟨by rw [h]; exact List.mem_append_left _ hx, ?_⟩
    rcases List.mem_append.1 hx with hx | hx
    · have := hd3 x hx a (by simp); omega
    · have : x = a := by simpa using hx
      rw [this]; exact Nat.le_refl _
  · rintro ⟨hx, hle⟩
    rw [h, List.append_assoc] at hx
    rcases List.mem_append.1 hx with hx | hx
    · exact List.mem_append_left _ hx
    · rcases List.mem_cons.1 hx with rfl | hx
      · simp
      · have := hd2' x hx; omega

theorem segment_head {cfg : Cfg H} {s : Store H} (hw : WF cfg s) {r a : Row H} (hr : r ∈ s) (ha : a ∈ s) :
    (segment s r a).head? = some r := by
  obtain ⟨tl, htl⟩ := chainTo_head hw hr
  unfold segment
  rw [htl]
  by_cases e : r.hash = a.hash
  · rw [List.takeWhile_cons_of_neg (by simp [notHash, e]), hw.hash_inj hr ha e]
    rfl
  · rw [List.takeWhile_cons_of_pos (by simp [notHash, e])]
    rfl

theorem segment_getLast {s : Store H} {r a : Row H} : (segment s r a).getLast? = some a := by
  unfold segment
  simp

theorem segment_linked {cfg : Cfg H} {s : Store H} (hw : WF cfg s) {r a : Row H} (hr : r ∈ s) (hc : connected r)
    (ha : a ∈ chainTo s r) : linked s (segment s r a) := by
  obtain ⟨rest, h⟩ := chainTo_split hw ha
  have := chainTo_linked hw r hr hc
  rw [h] at this
  exact linked_prefix _ _ this

/-! ### `walkWhileHeight` / `ancestorOnHeight` -/

theorem walkWhile_head (s : Store H) (t : Int) (f : Nat) (r : Row H) :
    ∃ tl, walkWhileHeight s t f r = r :: tl := by
  cases f <;> exact ⟨_, rfl⟩

theorem walkWhile_succ {s : Store H} {t : Int} {f : Nat} {r p : Row H} (e : byHash s r.prev = some p)
    (hge : (p.height : Int) ≥ t) : walkWhileHeight s t (f + 1) r = r :: walkWhileHeight s t f p := by
  simp [walkWhileHeight, e, hge]

/-- from a connected row the height-driven walk finds the row of the parent walk at the target height -/
theorem find_walkWhile {cfg : Cfg H} {s : Store H} (hw : WF cfg s) (k : Nat) :
    ∀ r ∈ s, connected r → ∀ fuel, r.id ≤ fuel → ∀ a ∈ chainTo s r, a.height = k →
      (walkWhileHeight s (k : Int) fuel r).find? (fun x => decide ((x.height : Int) = (k : Int))) = some a := by
  refine hw.chain_induction (P := fun r => ∀ fuel, r.id ≤ fuel → ∀ a ∈ chainTo s r, a.height = k →
      (walkWhileHeight s (k : Int) fuel r).find? (fun x => decide ((x.height : Int) = (k : Int))) = some a) ?_ ?_
  · intro g hg hg0 fuel _ a ha hk
    rw [hw.chainTo_root hg hg0] at ha
    have : a = g := by simpa using ha
    subst this
    obtain ⟨tl, htl⟩ := walkWhile_head s (k : Int) fuel a
    rw [htl, List.find?_cons_of_pos (by simp [hk])]
  · intro r hr hc _ q hq e1 e2 hqc e4 _ ih fuel hf a ha hk
    rw [hw.chainTo_cons hr hq e1 e2 hqc] at ha
    by_cases hkr : r.height = k
    · have : a = r := by
        rcases List.mem_cons.1 ha with h | h
        · exact h
        · have := (hw.chainTo_le q hq hqc a h).2; omega
      subst this
      obtain ⟨tl, htl⟩ := walkWhile_head s (k : Int) fuel a
      rw [htl, List.find?_cons_of_pos (by simp [hk])]
    · have ha' : a ∈ chainTo s q := by
        rcases List.mem_cons.1 ha with h | h
        · rw [h] at hk; exact absurd hk hkr
        · exact h
      have hle := (hw.chainTo_le q hq hqc a ha').2
      obtain ⟨f, rfl⟩ : ∃ f, fuel = f + 1 := ⟨fuel - 1, by omega⟩
      have eq : byHash s r.prev = some q := byHash_eq_of_mem hw.nodup hq e1
      rw [walkWhile_succ eq (by omega), List.find?_cons_of_neg (by simp; omega)]
      exact ih f (by omega) a ha' hk

theorem ancestorOnHeight_eq {cfg : Cfg H} {s : Store H} (hw : WF cfg s) {r a : Row H} (hr : r ∈ s)
    (hc : connected r) (ha : a ∈ chainTo s r) {t : Int} (ht : t = (a.height : Int)) :
    ancestorOnHeight s r.hash t = some a := by
  subst ht
  unfold ancestorOnHeight
  rw [byHash_mem hw.nodup hr]
  exact find_walkWhile hw a.height r hr hc s.length (Nat.le_of_lt (ids_lt hw.ids hr)) a ha rfl

/-! ### `walkUntil` / `chainBetween` -/

theorem walkUntil_succ_ne {s : Store H} {low : H} {f : Nat} {r p : Row H} (e : byHash s r.prev = some p)
    (hne : p.hash ≠ low) : walkUntil s low (f + 1) r = r :: walkUntil s low f p := by
  simp [walkUntil, e, hne]

theorem walkUntil_succ_eq {s : Store H} {low : H} {f : Nat} {r p : Row H} (e : byHash s r.prev = some p)
    (heq : p.hash = low) : walkUntil s low (f + 1) r = [r] := by
  simp [walkUntil, e, heq]

/-- from a connected row the walk towards a proper ancestor is the part of the parent walk above it -/
theorem walkUntil_eq {cfg : Cfg H} {s : Store H} (hw : WF cfg s) (a : Row H) :
    ∀ r ∈ s, connected r → ∀ fuel, r.id ≤ fuel → a ∈ chainTo s r → a ≠ r →
      walkUntil s a.hash fuel r = (chainTo s r).takeWhile (notHash a) := by
  refine hw.chain_induction (P := fun r => ∀ fuel, r.id ≤ fuel → a ∈ chainTo s r → a ≠ r →
      walkUntil s a.hash fuel r = (chainTo s r).takeWhile (notHash a)) ?_ ?_
  · intro g hg hg0 fuel _ ha hne
    rw [hw.chainTo_root hg hg0] at ha
    exact absurd (by simpa using ha) hne
  · intro r hr hc _ q hq e1 e2 hqc e4 _ ih fuel hf ha hne
    have has := chainTo_mem ha
    rw [hw.chainTo_cons hr hq e1 e2 hqc] at ha ⊢
    have ha' : a ∈ chainTo s q := by
      rcases List.mem_cons.1 ha with h | h
      · exact absurd h hne
      · exact h
    have hrh : r.hash ≠ a.hash := fun e => hne (hw.hash_inj hr has e).symm
    obtain ⟨f, rfl⟩ : ∃ f, fuel = f + 1 := ⟨fuel - 1, by omega⟩
    have eq : byHash s r.prev = some q := byHash_eq_of_mem hw.nodup hq e1
    rw [List.takeWhile_cons_of_pos (by simp [notHash, hrh])]
    by_cases hqa : q.hash = a.hash
    · obtain ⟨tl, htl⟩ := chainTo_head hw hq
      rw [walkUntil_succ_eq eq hqa, htl, List.takeWhile_cons_of_neg (by simp [notHash, hqa])]
    · rw [walkUntil_succ_ne eq hqa]
      have hqne : a ≠ q := fun e => hqa (by rw [e])
      rw [ih f (by omega) ha' hqne]

theorem chainBetween_eq {cfg : Cfg H} {s : Store H} (hw : WF cfg s) {r a : Row H} (hr : r ∈ s)
    (hc : connected r) (ha : a ∈ chainTo s r) (hne : a ≠ r) :
    chainBetween s a.hash r.hash = segment s r a := by
  unfold chainBetween segment
  rw [byHash_mem hw.nodup hr, byHash_mem hw.nodup (chainTo_mem ha)]
  simp only
  rw [walkUntil_eq hw a r hr hc s.length (Nat.le_of_lt (ids_lt hw.ids hr)) ha hne]

/-! ### `ancestors` -/

theorem ancestors_notFound {s : Store H} {h a : H} (e : byHash s h = none ∨ byHash s a = none) :
    ancestors s h a = .error .notFound := by
  unfold ancestors
  rcases e with e | e
  · rw [e]
  · rw [e]; cases byHash s h <;> rfl

theorem ancestors_self {s : Store H} (hn : (s.map (·.hash)).Nodup) {r : Row H} (hr : r ∈ s) :
    ancestors s r.hash r.hash = .ok [] := by
  unfold ancestors
  rw [byHash_mem hn hr]
  simp

/-- `hash` connected, `anc` a proper ancestor: the answer is the segment of the parent walk -/
theorem ancestors_path {cfg : Cfg H} {s : Store H} (hw : WF cfg s) {r a : Row H} (hr : r ∈ s)
    (hc : connected r) (ha : a ∈ chainTo s r) (hne : a ≠ r) :
    ancestors s r.hash a.hash = .ok (segment s r a) := by
  have hlt := chainTo_lt hw hr hc ha hne
  unfold ancestors
  rw [byHash_mem hw.nodup hr, byHash_mem hw.nodup (chainTo_mem ha)]
  simp only
  rw [if_neg (by omega), if_neg (by omega), ancestorOnHeight_eq hw hr hc ha rfl]
  simp only
  rw [if_neg (by simp), chainBetween_eq hw hr hc ha hne]

/-- `hash` connected, `anc` stored but not an ancestor: an error, by heights -/
theorem ancestors_error {cfg : Cfg H} {s : Store H} (hw : WF cfg s) {r a : Row H} (hr : r ∈ s)
    (has : a ∈ s) (hc : connected r) (hn : a ∉ chainTo s r) :
    ancestors s r.hash a.hash =
      .error (if r.height < a.height then AncErr.ancestorHigher else AncErr.notSameChain) := by
  have hne : a.hash ≠ r.hash := by
    intro e
    rw [hw.hash_inj has hr e] at hn
    exact hn (hw.chainTo_self hr)
  unfold ancestors
  rw [byHash_mem hw.nodup hr, byHash_mem hw.nodup has]
  simp only
  by_cases h1 : r.height < a.height
  · rw [if_pos h1, if_pos h1]
  · rw [if_neg h1, if_neg h1]
    by_cases h2 : a.height = r.height
    · rw [if_pos h2, if_pos hne]
    · rw [if_neg h2]
      obtain ⟨x, hx, hxk⟩ := hw.chainTo_height_surj r hr hc a.height (by omega)
      rw [ancestorOnHeight_eq hw hr hc hx (by rw [hxk])]
      simp only
      have : x.hash ≠ a.hash := by
        intro e
        rw [hw.hash_inj (chainTo_mem hx) has e] at hx
        exact hn hx
      rw [if_pos this]

end BHS.QueryTree
