/-
Helper lemmas for C05 (1/3): restart, `rowsPreserved`, the structural part `LcS` of the longest-chain
invariant (everything of `LcAt` except "greatest cumulative work"), `LcS → StructAt`, and how lookups,
the ancestor walk and `mkRow` behave on a relabelled store `s.map f`.
Core Lean only.
-/
import BHS.Model.Crash
import BHS.Proofs.ChainLc

set_option linter.unusedSectionVars false
set_option linter.unusedVariables false

namespace BHS.Chain
variable {H : Type} [DecidableEq H]

/-! ### restart -/

theorem restart_of_hash {g : Row H} {s : Store H} (h : ∃ a ∈ s, a.hash = g.hash) : restart g s = s := by
  unfold restart insertRow
  rw [if_pos (byHash_isSome.2 h)]

theorem restart_of_mem {g : Row H} {s : Store H} (hg : g ∈ s) : restart g s = s :=
  restart_of_hash ⟨g, hg, rfl⟩

theorem restart_nil (g : Row H) : restart g [] = [{ g with id := 0 }] := by
  simp [restart, insertRow, byHash]

/-! ### rowsPreserved -/

/-- decidable, so that the examples can evaluate it on concrete stores -/
instance (s s' : Store H) : Decidable (rowsPreserved s s') := by unfold rowsPreserved; infer_instance

theorem sameButState_refl (a : Row H) : sameButState a a :=
  ⟨rfl, rfl, rfl, rfl, rfl, rfl, rfl, rfl, rfl, rfl, rfl⟩

theorem sameButState_setSt (a : Row H) (st : St) : sameButState a (setSt a st) :=
  ⟨rfl, rfl, rfl, rfl, rfl, rfl, rfl, rfl, rfl, rfl, rfl⟩

theorem sameButState_trans {a b c : Row H} (h1 : sameButState a b) (h2 : sameButState b c) :
    sameButState a c := by
  obtain ⟨a1, a2, a3, a4, a5, a6, a7, a8, a9, a10, a11⟩ := h1
  obtain ⟨b1, b2, b3, b4, b5, b6, b7, b8, b9, b10, b11⟩ := h2
  exact ⟨b1.trans a1, b2.trans a2, b3.trans a3, b4.trans a4, b5.trans a5, b6.trans a6, b7.trans a7,
    b8.trans a8, b9.trans a9, b10.trans a10, b11.trans a11⟩

theorem sameButState_relab (hs1 hs2 : List H) (a : Row H) : sameButState a (relab hs1 hs2 a) := by
  have := relab_fields hs1 hs2 a
  rw [this]; exact sameButState_setSt _ _

theorem rowsPreserved_refl (s : Store H) : rowsPreserved s s :=
  ⟨Nat.le_refl _, fun _ _ _ => sameButState_refl _⟩

theorem rowsPreserved_trans {s s' s'' : Store H} (h1 : rowsPreserved s s') (h2 : rowsPreserved s' s'') :
    rowsPreserved s s'' := by
  refine ⟨Nat.le_trans h1.1 h2.1, ?_⟩
  intro i h h''
  have h' : i < s'.length := Nat.lt_of_lt_of_le h h1.1
  exact sameButState_trans (h1.2 i h h') (h2.2 i h' h'')

theorem rowsPreserved_map (s : Store H) (f : Row H → Row H) (hf : ∀ a, sameButState a (f a)) :
    rowsPreserved s (s.map f) := by
  refine ⟨by simp, ?_⟩
  intro i h h'
  simp only [List.getElem_map]
  exact hf _

theorem rowsPreserved_append (s l : Store H) : rowsPreserved s (s ++ l) := by
  refine ⟨by simp, ?_⟩
  intro i h h'
  rw [List.getElem_append_left h]
  exact sameButState_refl _

theorem rowsPreserved_setState (s : Store H) (hs : List H) (st : St) : rowsPreserved s (setState s hs st) := by
  unfold setState
  apply rowsPreserved_map
  intro a
  split
  · exact sameButState_setSt a st
  · exact sameButState_refl a

theorem rowsPreserved_insertRow (s : Store H) (r : Row H) : rowsPreserved s (insertRow s r) := by
  unfold insertRow
  split
  · exact rowsPreserved_refl s
  · exact rowsPreserved_append s _

theorem rowsPreserved_applyWrites (ws : List (Write H)) : ∀ s : Store H, rowsPreserved s (applyWrites s ws) := by
  induction ws with
  | nil => intro s; exact rowsPreserved_refl s
  | cons w ws ih =>
    intro s
    show rowsPreserved s (applyWrites (applyWrite s w) ws)
    refine rowsPreserved_trans ?_ (ih _)
    cases w with
    | setState hs st => exact rowsPreserved_setState s hs st
    | insert r => exact rowsPreserved_insertRow s r

theorem rowsPreserved_addPrefix (cfg : Cfg H) (s : Store H) (x : Src H) (k : Nat) :
    rowsPreserved s (addPrefix cfg s x k) := rowsPreserved_applyWrites _ s

theorem rowsPreserved_add (cfg : Cfg H) (s : Store H) (x : Src H) : rowsPreserved s (add cfg s x).1 :=
  rowsPreserved_applyWrites _ s

theorem rowsPreserved_run (cfg : Cfg H) (hist : List (Src H)) : ∀ s : Store H, rowsPreserved s (run cfg s hist) := by
  induction hist with
  | nil => intro s; exact rowsPreserved_refl s
  | cons x hist ih =>
    intro s
    show rowsPreserved s (run cfg (add cfg s x).1 hist)
    exact rowsPreserved_trans (rowsPreserved_add cfg s x) (ih _)

/-- a preserved row is found again, up to its label -/
theorem rowsPreserved_mem {s s' : Store H} (h : rowsPreserved s s') {r : Row H} (hr : r ∈ s) :
    ∃ r' ∈ s', sameButState r r' := by
  obtain ⟨i, hi, e⟩ := List.mem_iff_getElem.1 hr
  have hi' : i < s'.length := Nat.lt_of_lt_of_le hi h.1
  exact ⟨s'[i], List.getElem_mem hi', e ▸ h.2 i hi hi'⟩

theorem rowsPreserved_hash {s s' : Store H} (h : rowsPreserved s s') {r : Row H} (hr : r ∈ s) :
    ∃ r' ∈ s', r'.hash = r.hash := by
  obtain ⟨r', hr', k⟩ := rowsPreserved_mem h hr
  exact ⟨r', hr', k.2.1⟩

theorem restart_of_preserved {g : Row H} {s s' : Store H} (h : rowsPreserved s s') (hg : g ∈ s) :
    restart g s' = s' := restart_of_hash (rowsPreserved_hash h hg)

/-! ### the structural part of the longest-chain invariant -/

/-- `LcAt` without the clause "greatest cumulative work" -/
def LcS (s : Store H) (t : Row H) : Prop :=
  t.st = .lc ∧
    (∀ r ∈ s, r.st = .lc → r.height ≤ t.height) ∧
    (∀ r ∈ s, ∀ r' ∈ s, r.st = .lc → r'.st = .lc → r.height = r'.height → r = r') ∧
    (∀ r ∈ s, r.st = .lc → r.id ≠ 0 → ∀ p ∈ s, p.hash = r.prev → p.st = .lc)

theorem LcAt.toLcS {s : Store H} {t : Row H} (h : LcAt s t) : LcS s t := ⟨h.lc, h.top, h.uniq, h.par⟩

theorem LcS.lc {s : Store H} {t : Row H} (h : LcS s t) : t.st = .lc := h.1
theorem LcS.top {s : Store H} {t : Row H} (h : LcS s t) : ∀ r ∈ s, r.st = .lc → r.height ≤ t.height := h.2.1
theorem LcS.uniq {s : Store H} {t : Row H} (h : LcS s t) :
    ∀ r ∈ s, ∀ r' ∈ s, r.st = .lc → r'.st = .lc → r.height = r'.height → r = r' := h.2.2.1
theorem LcS.par {s : Store H} {t : Row H} (h : LcS s t) :
    ∀ r ∈ s, r.st = .lc → r.id ≠ 0 → ∀ p ∈ s, p.hash = r.prev → p.st = .lc := h.2.2.2

theorem LcS.getTip {s : Store H} {t : Row H} (ht : t ∈ s) (hl : LcS s t) : getTip s = some t := by
  obtain ⟨t', e, ht', hl', hmax⟩ := getTip_some ht hl.lc
  have h1 := hl.top t' ht' hl'
  have h2 := hmax t ht hl.lc
  have : t' = t := hl.uniq t' ht' t ht hl' hl.lc (by omega)
  rw [e, this]

/-- exactly one longest-chain row at every height from 0 to the tip, parent-linked -/
theorem LcS.struct {cfg : Cfg H} {s : Store H} {t : Row H} (hw : WF cfg s) (ht : t ∈ s) (hl : LcS s t) :
    StructAt s t := by
  refine ⟨hl.getTip ht, ?_, hl.uniq, hl.top, ?_⟩
  · intro k hk
    have hk' : k ≤ t.height := by have := List.mem_range.1 hk; omega
    exact hw.lc_contiguous hl.par ht hl.lc hk'
  · intro r hr hrl hh
    have h0 : r.id ≠ 0 := fun h0 => hh (hw.root_of_id hr h0).2.1
    obtain ⟨p, hp, e1, _, _, e4, _⟩ := hw.par r hr (connected_of_lc hrl) h0
    exact ⟨p, hp, e1, hl.par r hr hrl h0 p hp e1, e4⟩

theorem LcS.structValid {cfg : Cfg H} {s : Store H} {t : Row H} (hw : WF cfg s) (ht : t ∈ s) (hl : LcS s t) :
    StructValid s := ⟨t, ht, hl.struct hw ht⟩

/-- relabelling: the clauses are checked on the old rows -/
theorem LcS.map {s : Store H} (f : Row H → Row H) (hf : ∀ a ∈ s, f a = setSt a (f a).st)
    {t : Row H} (ht : t ∈ s) (htl : (f t).st = .lc)
    (h3 : ∀ a ∈ s, (f a).st = .lc → a.height ≤ t.height)
    (h4 : ∀ a ∈ s, ∀ b ∈ s, (f a).st = .lc → (f b).st = .lc → a.height = b.height → a = b)
    (h5 : ∀ a ∈ s, (f a).st = .lc → a.id ≠ 0 → ∀ q ∈ s, q.hash = a.prev → (f q).st = .lc) :
    LcS (s.map f) (f t) := by
  have fld := fun a ha => setSt_fields_of_eq (hf a ha)
  refine ⟨htl, ?_, ?_, ?_⟩
  · intro a' ha' hal
    obtain ⟨a, ha, rfl⟩ := List.mem_map.1 ha'
    rw [(fld a ha).2.2.2.1, (fld t ht).2.2.2.1]
    exact h3 a ha hal
  · intro a' ha' b' hb' hal hbl e
    obtain ⟨a, ha, rfl⟩ := List.mem_map.1 ha'
    obtain ⟨b, hb, rfl⟩ := List.mem_map.1 hb'
    rw [(fld a ha).2.2.2.1, (fld b hb).2.2.2.1] at e
    rw [h4 a ha b hb hal hbl e]
  · intro a' ha' hal h0 q' hq' e
    obtain ⟨a, ha, rfl⟩ := List.mem_map.1 ha'
    obtain ⟨q, hq, rfl⟩ := List.mem_map.1 hq'
    rw [(fld a ha).1] at h0
    rw [(fld a ha).2.2.1, (fld q hq).2.1] at e
    exact h5 a ha hal h0 q hq e

/-- a row that is not on the longest chain is appended -/
theorem LcS.append_nonlc {cfg : Cfg H} {s : Store H} (hw : WF cfg s) {t : Row H} (hl : LcS s t)
    (r : Row H) (hst : r.st ≠ .lc) (hfresh : ∀ a ∈ s, a.hash ≠ r.hash) : LcS (s ++ [r]) t := by
  have mem : ∀ a, a ∈ s ++ [r] → a ∈ s ∨ a = r := by
    intro a ha; rw [List.mem_append, List.mem_singleton] at ha; exact ha
  refine ⟨hl.lc, ?_, ?_, ?_⟩
  · intro a ha hal
    rcases mem a ha with ha' | rfl
    · exact hl.top a ha' hal
    · exact absurd hal hst
  · intro a ha b hb hal hbl e
    rcases mem a ha with ha' | rfl
    · rcases mem b hb with hb' | rfl
      · exact hl.uniq a ha' b hb' hal hbl e
      · exact absurd hbl hst
    · exact absurd hal hst
  · intro a ha hal h0 q hq e
    rcases mem a ha with ha' | rfl
    · rcases mem q hq with hq' | rfl
      · exact hl.par a ha' hal h0 q hq' e
      · obtain ⟨p, hp, e1, _⟩ := hw.par a ha' (connected_of_lc hal) h0
        exact absurd (e1.trans e.symm) (hfresh p hp)
    · exact absurd hal hst

/-- a child of the top row is appended as the new top -/
theorem LcS.append_top {cfg : Cfg H} {s : Store H} (hw : WF cfg s) {t : Row H} (ht : t ∈ s) (hl : LcS s t)
    (r : Row H) (hst : r.st = .lc) (hfresh : ∀ a ∈ s, a.hash ≠ r.hash) (hpe : t.hash = r.prev)
    (hh : r.height = t.height + 1) : LcS (s ++ [r]) r := by
  have mem : ∀ a, a ∈ s ++ [r] → a ∈ s ∨ a = r := by
    intro a ha; rw [List.mem_append, List.mem_singleton] at ha; exact ha
  refine ⟨hst, ?_, ?_, ?_⟩
  · intro a ha hal
    rcases mem a ha with ha' | rfl
    · have := hl.top a ha' hal; omega
    · exact Nat.le_refl _
  · intro a ha b hb hal hbl e
    rcases mem a ha with ha' | rfl
    · rcases mem b hb with hb' | rfl
      · exact hl.uniq a ha' b hb' hal hbl e
      · have := hl.top a ha' hal; omega
    · rcases mem b hb with hb' | rfl
      · have := hl.top b hb' hbl; omega
      · rfl
  · intro a ha hal h0 q hq e
    rcases mem a ha with ha' | rfl
    · rcases mem q hq with hq' | rfl
      · exact hl.par a ha' hal h0 q hq' e
      · obtain ⟨p, hp, e1, _⟩ := hw.par a ha' (connected_of_lc hal) h0
        exact absurd (e1.trans e.symm) (hfresh p hp)
    · rcases mem q hq with hq' | rfl
      · have : q = t := hw.hash_inj hq' ht (e.trans hpe.symm)
        rw [this]; exact hl.lc
      · exact absurd (hpe.trans e.symm) (hfresh t ht)

/-- conversely: before the top row was appended, its parent was the top -/
theorem LcS.of_append_top {s : Store H} {r tp : Row H} (h : LcS (s ++ [r]) r) (htp : tp ∈ s)
    (hpe : tp.hash = r.prev) (hh : r.height = tp.height + 1) (hfresh : ∀ a ∈ s, a.hash ≠ r.hash)
    (hid : r.id ≠ 0) : LcS s tp := by
  have inl : ∀ a, a ∈ s → a ∈ s ++ [r] := fun a ha => List.mem_append_left _ ha
  have inr : r ∈ s ++ [r] := List.mem_append_right _ (List.mem_singleton.2 rfl)
  refine ⟨h.par r inr h.lc hid tp (inl tp htp) hpe, ?_, ?_, ?_⟩
  · intro a ha hal
    have h1 := h.top a (inl a ha) hal
    have : a.height ≠ r.height := by
      intro e
      have := h.uniq a (inl a ha) r inr hal h.lc e
      exact hfresh a ha (by rw [this])
    omega
  · intro a ha b hb hal hbl e
    exact h.uniq a (inl a ha) b (inl b hb) hal hbl e
  · intro a ha hal h0 q hq e
    exact h.par a (inl a ha) hal h0 q (inl q hq) e

theorem lcAtHeight_eq_none {s : Store H} {k : Nat} (h : ∀ r ∈ s, r.st = .lc → r.height ≠ k) :
    lcAtHeight s k = none := by
  unfold lcAtHeight
  rw [List.find?_eq_none]
  intro r hr hd
  have := of_decide_eq_true hd
  exact h r hr this.2 this.1

/-! ### lookups, the ancestor walk and `mkRow` on a relabelled store -/

theorem byHash_map (s : Store H) (f : Row H → Row H) (hf : ∀ a, (f a).hash = a.hash) (h : H) :
    byHash (s.map f) h = (byHash s h).map f := by
  unfold byHash
  rw [List.find?_map]
  congr 2
  funext a
  simp [Function.comp, hf]

theorem anc_map (s : Store H) (f : Row H → Row H) (hf : ∀ a, (f a).hash = a.hash)
    (hp : ∀ a, (f a).prev = a.prev) : ∀ (n : Nat) (h : H),
    ancestorsFrom (s.map f) n h = (ancestorsFrom s n h).map f
  | 0, _ => rfl
  | n + 1, h => by
    cases e : byHash s h with
    | none =>
      have e' : byHash (s.map f) h = none := by rw [byHash_map s f hf, e]; rfl
      rw [anc_none e, anc_none e']; rfl
    | some r =>
      have e' : byHash (s.map f) h = some (f r) := by rw [byHash_map s f hf, e]; rfl
      rw [anc_some e, anc_some e', hp, anc_map s f hf hp n r.prev]; rfl

/-- the candidate row computed on a relabelled store: only its label may differ -/
theorem mkRow_map (cfg : Cfg H) (s : Store H) (x : Src H) (f : Row H → Row H)
    (hf : ∀ a, f a = setSt a (f a).st) {p : Row H} (e : byHash s x.prev = some p) :
    mkRow cfg (s.map f) x = setSt (mkRow cfg s x) (f p).st := by
  have hh : ∀ a, (f a).hash = a.hash := fun a => (setSt_fields_of_eq (hf a)).2.1
  have e' : byHash (s.map f) x.prev = some (f p) := by rw [byHash_map s f hh, e]; rfl
  have fp := setSt_fields_of_eq (hf p)
  simp [mkRow, parentInfo, e, e', setSt, fp.2.2.2.1, fp.2.2.2.2.1]

theorem fresh_map {s : Store H} {f : Row H → Row H} (hh : ∀ a, (f a).hash = a.hash) {h : H}
    (hd : ¬ (byHash s h).isSome = true) : ¬ (byHash (s.map f) h).isSome = true := by
  intro k
  obtain ⟨a', ha', e⟩ := byHash_isSome.1 k
  obtain ⟨a, ha, rfl⟩ := List.mem_map.1 ha'
  exact hd (byHash_isSome.2 ⟨a, ha, (hh a).symm.trans e⟩)

end BHS.Chain
