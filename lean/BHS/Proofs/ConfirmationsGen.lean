/-
Helper lemmas for Props/ConfirmationsGen.lean about the loop primitive of BHS/Model/MerkleRootsCore.lean: a range loop
whose body appends zero or one element per item (an `append`, or a `continue`) computes a `flatMap`.
Imports the vocabulary only (not the regenerated module), core Lean only.
-/
import BHS.Model.ConfirmationsPrim

namespace BHS.Proofs.ConfirmationsGen
open BHS BHS.Chain BHS.MerkleRootsPrim

theorem forRangeFrom_append {α β : Type} {f : Int → α → List β → Except Fault (List β)} (g : α → List β)
    (hf : ∀ i x acc, f i x acc = .ok (acc ++ g x)) (xs : List α) (i : Int) (acc : List β) :
    forRangeFrom f i xs acc = .ok (acc ++ xs.flatMap g) := by
  induction xs generalizing i acc with
  | nil => simp [forRangeFrom, pure, Except.pure]
  | cons x xs ih =>
    simp only [forRangeFrom, hf, bind, Except.bind, ih, List.flatMap_cons, List.append_assoc]

/-- the loop of a body that appends `g x` (a list: empty for `continue`) for every item -/
theorem forRange_append {α β : Type} {f : Int → α → List β → Except Fault (List β)} (g : α → List β)
    (hf : ∀ i x acc, f i x acc = .ok (acc ++ g x)) (xs : List α) (acc : List β) :
    forRange xs acc f = .ok (acc ++ xs.flatMap g) := forRangeFrom_append g hf xs 0 acc

/-- a loop over pointers that were all built non-nil (`some`), with a body defined on the pointed-to values -/
theorem forRange_append_some {α β : Type} {f : Int → Option α → List β → Except Fault (List β)} (g : α → List β)
    (hf : ∀ i x acc, f i (some x) acc = .ok (acc ++ g x)) (xs : List α) (acc : List β) :
    forRange (xs.map some) acc f = .ok (acc ++ xs.flatMap g) := by
  unfold forRange
  generalize (0 : Int) = i
  induction xs generalizing i acc with
  | nil => simp [forRangeFrom, pure, Except.pure]
  | cons x xs ih =>
    simp only [List.map_cons, forRangeFrom, hf, bind, Except.bind, ih, List.flatMap_cons, List.append_assoc]

theorem flatMap_singleton {α β : Type} (g : α → β) (xs : List α) : xs.flatMap (fun x => [g x]) = xs.map g := by
  induction xs with
  | nil => rfl
  | cons x xs ih => simp [List.flatMap_cons, ih]

end BHS.Proofs.ConfirmationsGen
