/-
Helper lemmas for C18, part 1: the admission bookkeeping (M-Peers). Core Lean only.
-/
import BHS.Model.Peers

namespace BHS.Proofs.Peers
open BHS.Model.Peers

/-- ids are pairwise distinct inside one Go map (they are its keys). -/
def Distinct (l : List Peer) : Prop := l.Pairwise (fun a b => a.id ≠ b.id)

theorem put_fresh {l : List Peer} {p : Peer} (h : ∀ q ∈ l, q.id ≠ p.id) : put l p = p :: l := by
  unfold put
  congr 1
  apply List.filter_eq_self.2
  intro q hq
  simpa using h q hq

theorem del_absent {l : List Peer} {id : Nat} (h : ∀ q ∈ l, q.id ≠ id) : del l id = l := by
  unfold del
  apply List.filter_eq_self.2
  intro q hq
  simpa using h q hq

theorem mem_del {l : List Peer} {id : Nat} {q : Peer} : q ∈ del l id ↔ q ∈ l ∧ q.id ≠ id := by
  unfold del
  simp [List.mem_filter]

theorem distinct_del {l : List Peer} (id : Nat) (h : Distinct l) : Distinct (del l id) := by
  unfold Distinct del
  exact List.Pairwise.filter _ h

theorem has_iff {l : List Peer} {id : Nat} : has l id = true ↔ ∃ q ∈ l, q.id = id := by
  unfold has
  simp [List.any_eq_true]

/-- deleting the key of a stored peer removes exactly that peer from every count. -/
theorem countP_del (f : Peer → Bool) : ∀ (l : List Peer) (p : Peer), p ∈ l → Distinct l →
    (del l p.id).countP f + (if f p then 1 else 0) = l.countP f := by
  intro l
  induction l with
  | nil => intro p hp; cases hp
  | cons q l ih =>
    intro p hp hd
    have hd' : (∀ r ∈ l, q.id ≠ r.id) ∧ Distinct l := by
      simpa [Distinct, List.pairwise_cons] using hd
    by_cases hq : q = p
    · subst hq
      have : del (q :: l) q.id = l := by
        have h1 : del l q.id = l := del_absent (fun r hr => fun e => hd'.1 r hr e.symm)
        simpa [del] using h1
      rw [this, List.countP_cons]
    · have hpl : p ∈ l := by
        rcases List.mem_cons.1 hp with h | h
        · exact absurd h.symm hq
        · exact h
      have hne : q.id ≠ p.id := hd'.1 p hpl
      have : del (q :: l) p.id = q :: del l p.id := by
        simp [del, hne]
      rw [this, List.countP_cons, List.countP_cons]
      have := ih p hpl hd'.2
      omega

theorem length_del {l : List Peer} {p : Peer} (hp : p ∈ l) (hd : Distinct l) :
    (del l p.id).length + 1 = l.length := by
  have := countP_del (fun _ => true) l p hp hd
  simpa [List.countP_true] using this

/-- the bookkeeping invariant of `peerState` -/
structure Inv (s : State) : Prop where
  kin : ∀ p ∈ s.inb, p.kind = .inbound
  kout : ∀ p ∈ s.outb, p.kind = .outbound
  kper : ∀ p ∈ s.pers, p.kind = .persistent
  vk : ∀ p ∈ s.outb ++ s.pers, p.vk = true
  din : Distinct s.inb
  dout : Distinct s.outb
  dper : Distinct s.pers
  conn : ∀ h, s.conn h = (hostCount s h : Int)
  grp : ∀ g, s.groups g = (groupCount s g : Int)

theorem inv_init : Inv init := by
  constructor <;> simp [init, hostCount, groupCount, Distinct]

theorem inv_clearBan {s : State} (h : Nat) (hi : Inv s) : Inv (clearBan s h) :=
  ⟨hi.kin, hi.kout, hi.kper, hi.vk, hi.din, hi.dout, hi.dper, hi.conn, hi.grp⟩

theorem distinct_cons {l : List Peer} {p : Peer} (h : ∀ q ∈ l, q.id ≠ p.id) (hd : Distinct l) :
    Distinct (p :: l) := by
  unfold Distinct at *
  rw [List.pairwise_cons]
  exact ⟨fun q hq e => h q hq e.symm, hd⟩

theorem inv_admitPeer {s : State} {p : Peer} (hi : Inv s) (hf : ∀ q ∈ all s, q.id ≠ p.id)
    (hv : p.kind ≠ .inbound → p.vk = true) : Inv (admitPeer s p) := by
  have fin : ∀ q ∈ s.inb, q.id ≠ p.id := fun q hq => hf q (by simp [all, hq])
  have fout : ∀ q ∈ s.outb, q.id ≠ p.id := fun q hq => hf q (by simp [all, hq])
  have fper : ∀ q ∈ s.pers, q.id ≠ p.id := fun q hq => hf q (by simp [all, hq])
  unfold admitPeer
  cases hk : p.kind with
  | inbound =>
    simp only [put_fresh fin]
    refine ⟨?_, hi.kout, hi.kper, hi.vk, distinct_cons fin hi.din, hi.dout, hi.dper, ?_, hi.grp⟩
    · intro q hq
      rcases List.mem_cons.1 hq with h | h
      · rw [h]; exact hk
      · exact hi.kin q h
    · intro h
      have := hi.conn h
      simp only [hostCount, bump, List.cons_append, List.countP_cons, List.countP_append] at this ⊢
      by_cases hh : h = p.host
      · subst hh; simp; omega
      · have : ¬ p.host = h := fun e => hh e.symm
        simp [hh, this]; omega
  | outbound =>
    simp only [put_fresh fout]
    refine ⟨hi.kin, ?_, hi.kper, ?_, hi.din, distinct_cons fout hi.dout, hi.dper, ?_, ?_⟩
    · intro q hq
      rcases List.mem_cons.1 hq with h | h
      · rw [h]; exact hk
      · exact hi.kout q h
    · intro q hq
      simp only [List.cons_append, List.mem_cons] at hq
      rcases hq with h | h
      · rw [h]; exact hv (by rw [hk]; decide)
      · exact hi.vk q h
    · intro h
      have := hi.conn h
      simp only [hostCount, bump, List.countP_append, List.countP_cons] at this ⊢
      by_cases hh : h = p.host
      · subst hh; simp; omega
      · have : ¬ p.host = h := fun e => hh e.symm
        simp [hh, this]; omega
    · intro g
      have := hi.grp g
      simp only [groupCount, bump, List.cons_append, List.countP_cons, List.countP_append] at this ⊢
      by_cases hh : g = p.group
      · subst hh; simp; omega
      · have : ¬ p.group = g := fun e => hh e.symm
        simp [hh, this]; omega
  | persistent =>
    simp only [put_fresh fper]
    refine ⟨hi.kin, hi.kout, ?_, ?_, hi.din, hi.dout, distinct_cons fper hi.dper, hi.conn, ?_⟩
    · intro q hq
      rcases List.mem_cons.1 hq with h | h
      · rw [h]; exact hk
      · exact hi.kper q h
    · intro q hq
      simp only [List.mem_append, List.mem_cons] at hq
      rcases hq with h | h | h
      · exact hi.vk q (by simp [h])
      · rw [h]; exact hv (by rw [hk]; decide)
      · exact hi.vk q (by simp [h])
    · intro g
      have := hi.grp g
      simp only [groupCount, bump, List.countP_append, List.countP_cons] at this ⊢
      by_cases hh : g = p.group
      · subst hh; simp; omega
      · have : ¬ p.group = g := fun e => hh e.symm
        simp [hh, this]; omega

theorem inv_add {c : Cfg} {s : State} {p : Peer} (hi : Inv s) (hok : Ok s (.add p)) :
    Inv (addPeer c s p).1 := by
  unfold addPeer
  split
  · exact hi
  split
  · exact hi
  split
  · exact inv_clearBan _ hi
  split
  · exact inv_clearBan _ hi
  · exact inv_admitPeer (inv_clearBan _ hi) hok.1 hok.2

/-- a stored peer with the key of `p` is `p` itself, hence `p` is in its map. -/
theorem mem_of_has {s : State} {p : Peer} (hok : Ok s (.done p)) (hh : has (listOf s p.kind) p.id = true) :
    p ∈ listOf s p.kind := by
  rcases has_iff.1 hh with ⟨q, hq, e⟩
  have hqa : q ∈ all s := by
    unfold listOf at hq
    unfold all
    split at hq <;> simp [hq]
  have := hok q hqa e
  rwa [this] at hq

theorem decGroup_groups_inbound {s : State} {p : Peer} (hk : p.kind = .inbound) : (decGroup s p).groups = s.groups := by
  unfold decGroup; simp [hk]

theorem decGroup_groups_other {s : State} {p : Peer} (hk : p.kind ≠ .inbound) (hv : p.vk = true) :
    (decGroup s p).groups = bump s.groups p.group (-1) := by
  unfold decGroup; simp [hk, hv]

theorem bump_apply (f : Nat → Int) (k : Nat) (d : Int) (x : Nat) : bump f k d x = if x = k then f x + d else f x := rfl

theorem inv_done {s : State} {p : Peer} (hi : Inv s) (hok : Ok s (.done p)) : Inv (donePeer s p) := by
  unfold donePeer
  split
  · rename_i hh
    have hm := mem_of_has hok hh
    cases hk : p.kind with
    | inbound =>
      rw [hk] at hm
      simp only [listOf] at hm
      have hc := fun f => countP_del f s.inb p hm hi.din
      refine ⟨fun q hq => hi.kin q (mem_del.1 hq).1, by simpa using hi.kout, by simpa using hi.kper, by simpa using hi.vk,
        distinct_del _ hi.din, by simpa using hi.dout, by simpa using hi.dper, ?_, ?_⟩
      · intro h
        have h1 := hi.conn h
        have h2 := hc (fun q => q.host == h)
        simp only [hostCount, bump_apply, List.countP_append, decGroup_outb] at h1 h2 ⊢
        by_cases e : h = p.host
        · subst e; simp at h2 ⊢; omega
        · have : ¬ p.host = h := fun e' => e e'.symm
          simp [e, this] at h2 ⊢; omega
      · intro g
        simpa [groupCount, decGroup_groups_inbound hk] using hi.grp g
    | outbound =>
      rw [hk] at hm
      simp only [listOf] at hm
      have hv : p.vk = true := hi.vk p (by simp [hm])
      have hne : p.kind ≠ .inbound := by rw [hk]; decide
      have hc := fun f => countP_del f s.outb p hm hi.dout
      refine ⟨by simpa using hi.kin, fun q hq => hi.kout q (mem_del.1 hq).1, by simpa using hi.kper, ?_,
        by simpa using hi.din, distinct_del _ hi.dout, by simpa using hi.dper, ?_, ?_⟩
      · intro q hq
        simp only [decGroup_pers, List.mem_append] at hq
        rcases hq with h | h
        · exact hi.vk q (by simp [(mem_del.1 h).1])
        · exact hi.vk q (by simp [h])
      · intro h
        have h1 := hi.conn h
        have h2 := hc (fun q => q.host == h)
        simp only [hostCount, bump_apply, List.countP_append, decGroup_inb] at h1 h2 ⊢
        by_cases e : h = p.host
        · subst e; simp at h2 ⊢; omega
        · have : ¬ p.host = h := fun e' => e e'.symm
          simp [e, this] at h2 ⊢; omega
      · intro g
        have h1 := hi.grp g
        have h2 := hc (fun q => q.group == g)
        simp only [groupCount, decGroup_groups_other hne hv, bump_apply, List.countP_append, decGroup_pers] at h1 h2 ⊢
        by_cases e : g = p.group
        · subst e; simp at h2 ⊢; omega
        · have : ¬ p.group = g := fun e' => e e'.symm
          simp [e, this] at h2 ⊢; omega
    | persistent =>
      rw [hk] at hm
      simp only [listOf] at hm
      have hv : p.vk = true := hi.vk p (by simp [hm])
      have hne : p.kind ≠ .inbound := by rw [hk]; decide
      have hc := fun f => countP_del f s.pers p hm hi.dper
      refine ⟨by simpa using hi.kin, by simpa using hi.kout, fun q hq => hi.kper q (mem_del.1 hq).1, ?_,
        by simpa using hi.din, by simpa using hi.dout, distinct_del _ hi.dper, ?_, ?_⟩
      · intro q hq
        simp only [decGroup_outb, List.mem_append] at hq
        rcases hq with h | h
        · exact hi.vk q (by simp [h])
        · exact hi.vk q (by simp [(mem_del.1 h).1])
      · intro h
        simpa [hostCount] using hi.conn h
      · intro g
        have h1 := hi.grp g
        have h2 := hc (fun q => q.group == g)
        simp only [groupCount, decGroup_groups_other hne hv, bump_apply, List.countP_append, decGroup_outb] at h1 h2 ⊢
        by_cases e : g = p.group
        · subst e; simp at h2 ⊢; omega
        · have : ¬ p.group = g := fun e' => e e'.symm
          simp [e, this] at h2 ⊢; omega
  · exact hi

theorem inv_step {c : Cfg} {s : State} {e : Event} (hi : Inv s) (hok : Ok s e) : Inv (step c s e).1 := by
  cases e with
  | add p => exact inv_add hi hok
  | addBad => simp only [step, addBad]; split <;> exact hi
  | done p => exact inv_done hi hok
  | ban h => exact ⟨hi.kin, hi.kout, hi.kper, hi.vk, hi.din, hi.dout, hi.dper, hi.conn, hi.grp⟩
  | clock dt => exact ⟨hi.kin, hi.kout, hi.kper, hi.vk, hi.din, hi.dout, hi.dper, hi.conn, hi.grp⟩
  | shutdown => exact ⟨hi.kin, hi.kout, hi.kper, hi.vk, hi.din, hi.dout, hi.dper, hi.conn, hi.grp⟩

theorem inv_run {c : Cfg} : ∀ (evs : List Event) (s : State), Inv s → Valid c s evs → Inv (run c s evs) := by
  intro evs
  induction evs with
  | nil => intro s hi _; exact hi
  | cons e es ih =>
    intro s hi hv
    exact ih _ (inv_step hi hv.1) hv.2

/-! ### bounds that hold for EVERY event sequence (no assumption on ids) -/

theorem length_put_le (l : List Peer) (p : Peer) : (put l p).length ≤ l.length + 1 := by
  unfold put
  have := List.length_filter_le (fun q => q.id != p.id) l
  simp only [List.length_cons]
  omega

theorem length_del_le (l : List Peer) (id : Nat) : (del l id).length ≤ l.length := by
  unfold del
  exact List.length_filter_le _ l

structure Bound (c : Cfg) (s : State) : Prop where
  total : count s ≤ c.maxPeers
  perHost : ∀ h, s.conn h ≤ (c.maxPerIP : Int)

theorem bound_init (c : Cfg) : Bound c init := by
  constructor
  · simp [init, count]
  · intro h; simp only [init]; omega

theorem bound_admitPeer {c : Cfg} {s : State} {p : Peer} (hb : Bound c s)
    (h1 : ¬ (c.maxPerIP : Int) ≤ s.conn p.host) (h2 : ¬ c.maxPeers ≤ count s) : Bound c (admitPeer s p) := by
  have hc := hb.total
  have hp := hb.perHost
  unfold admitPeer
  cases p.kind with
  | inbound =>
    constructor
    · have := length_put_le s.inb p
      simp only [count] at *
      omega
    · intro h
      have := hp h
      simp only [bump]
      split
      · rename_i e; subst e; omega
      · exact this
  | outbound =>
    constructor
    · have := length_put_le s.outb p
      simp only [count] at *
      omega
    · intro h
      have := hp h
      simp only [bump]
      split
      · rename_i e; subst e; omega
      · exact this
  | persistent =>
    constructor
    · have := length_put_le s.pers p
      simp only [count] at *
      omega
    · exact hp

theorem bound_step {c : Cfg} {s : State} (e : Event) (hb : Bound c s) : Bound c (step c s e).1 := by
  cases e with
  | add p =>
    simp only [step, addPeer]
    split
    · exact hb
    split
    · exact hb
    split
    · exact ⟨hb.total, hb.perHost⟩
    split
    · exact ⟨hb.total, hb.perHost⟩
    · rename_i h1 h2
      exact bound_admitPeer (s := clearBan s p.host) ⟨hb.total, hb.perHost⟩ h1 h2
  | addBad => simp only [step, addBad]; split <;> exact hb
  | done p =>
    simp only [step, donePeer]
    split
    · have hc := hb.total
      have hp := hb.perHost
      cases hk : p.kind with
      | inbound =>
        constructor
        · have := length_del_le s.inb p.id
          simp only [count, decGroup_outb, decGroup_pers] at *
          omega
        · intro h
          have := hp h
          simp only [bump_apply]
          split <;> omega
      | outbound =>
        constructor
        · have := length_del_le s.outb p.id
          simp only [count, decGroup_inb, decGroup_pers] at *
          omega
        · intro h
          have := hp h
          simp only [bump_apply]
          split <;> omega
      | persistent =>
        constructor
        · have := length_del_le s.pers p.id
          simp only [count, decGroup_inb, decGroup_outb] at *
          omega
        · intro h
          simpa using hp h
    · exact hb
  | ban h => exact ⟨hb.total, hb.perHost⟩
  | clock dt => exact ⟨hb.total, hb.perHost⟩
  | shutdown => exact ⟨hb.total, hb.perHost⟩

theorem bound_run {c : Cfg} : ∀ (evs : List Event) (s : State), Bound c s → Bound c (run c s evs) := by
  intro evs
  induction evs with
  | nil => intro s hb; exact hb
  | cons e es ih => intro s hb; exact ih _ (bound_step e hb)

/-! ### the ban table against the history's own notion of "banned until" -/

structure BanRel (s : State) (g : Ghost) : Prop where
  now : s.now = g.now
  some_ : ∀ h e, s.banned h = some e → g.banEnd h = some e
  none_ : ∀ h, s.banned h = none → ∀ e, g.banEnd h = some e → e ≤ s.now

theorem banRel_init : BanRel init {} := by
  constructor <;> simp [init]

theorem banRel_clearBan {s : State} {g : Ghost} {h : Nat} (hr : BanRel s g) (hb : banActive s h = false) :
    BanRel (clearBan s h) g := by
  refine ⟨hr.now, ?_, ?_⟩
  · intro x e hx
    simp only [clearBan, upd] at hx
    split at hx
    · cases hx
    · exact hr.some_ x e hx
  · intro x hx e he
    simp only [clearBan, upd] at hx ⊢
    by_cases hxh : x = h
    · subst hxh
      cases hs : s.banned x with
      | none => exact hr.none_ x hs e he
      | some e' =>
        have := hr.some_ x e' hs
        rw [this] at he
        cases he
        simp only [banActive, hs, decide_eq_false_iff_not] at hb
        omega
    · simp only [hxh, ↓reduceIte] at hx
      exact hr.none_ x hx e he

theorem banRel_admitPeer {s : State} {g : Ghost} (p : Peer) (hr : BanRel s g) : BanRel (admitPeer s p) g := by
  unfold admitPeer
  cases p.kind <;> exact ⟨hr.now, hr.some_, hr.none_⟩

theorem banRel_step {c : Cfg} {s : State} {g : Ghost} (e : Event) (hr : BanRel s g) :
    BanRel (step c s e).1 (gstep c g e) := by
  cases e with
  | add p =>
    simp only [step, addPeer, gstep]
    split
    · exact hr
    split
    · exact hr
    · rename_i hb
      have hb' : banActive s p.host = false := by simpa using hb
      split
      · exact banRel_clearBan hr hb'
      split
      · exact banRel_clearBan hr hb'
      · exact banRel_admitPeer p (banRel_clearBan hr hb')
  | addBad => simp only [step, addBad, gstep]; split <;> exact hr
  | done p =>
    simp only [step, donePeer, gstep]
    split
    · cases p.kind <;> exact ⟨by simpa using hr.now, by simpa using hr.some_, by simpa using hr.none_⟩
    · exact hr
  | ban h =>
    simp only [step, banHost, gstep]
    refine ⟨hr.now, ?_, ?_⟩
    · intro x e hx
      simp only [upd] at hx ⊢
      split
      · rename_i hxh; simp only [hxh, ↓reduceIte] at hx; rw [← hr.now]; exact hx
      · rename_i hxh; simp only [hxh, ↓reduceIte] at hx; exact hr.some_ x e hx
    · intro x hx e he
      simp only [upd] at hx he
      split at hx
      · cases hx
      · rename_i hxh; simp only [hxh, ↓reduceIte] at he; exact hr.none_ x hx e he
  | clock dt =>
    simp only [step, gstep]
    refine ⟨by simp [hr.now], hr.some_, ?_⟩
    intro x hx e he
    have := hr.none_ x hx e he
    simp only
    omega
  | shutdown => exact ⟨hr.now, hr.some_, hr.none_⟩

theorem banRel_run {c : Cfg} : ∀ (evs : List Event) (s : State) (g : Ghost), BanRel s g →
    BanRel (run c s evs) (evs.foldl (gstep c) g) := by
  intro evs
  induction evs with
  | nil => intro s g hr; exact hr
  | cons e es ih => intro s g hr; exact ih _ _ (banRel_step e hr)

/-! ### the history-only form of the assumptions implies the state-dependent one -/

theorem mem_put {l : List Peer} {p q : Peer} (h : q ∈ put l p) : q = p ∨ q ∈ l := by
  unfold put at h
  rcases List.mem_cons.1 h with h | h
  · exact Or.inl h
  · exact Or.inr (List.mem_filter.1 h).1

theorem all_step_subset {c : Cfg} {s : State} (e : Event) (added : List Peer) (h : ∀ q ∈ all s, q ∈ added) :
    ∀ q ∈ all (step c s e).1, q ∈ (match e with | .add p => p :: added | _ => added) := by
  cases e with
  | add p =>
    simp only [step, addPeer]
    have hs : ∀ q ∈ all s, q ∈ p :: added := fun q hq => List.mem_cons_of_mem _ (h q hq)
    split
    · exact hs
    split
    · exact hs
    split
    · exact hs
    split
    · exact hs
    · intro q hq
      unfold admitPeer at hq
      cases hk : p.kind <;> simp only [hk, all, clearBan, List.mem_append] at hq
      · rcases hq with (hq | hq) | hq
        · rcases mem_put hq with e | hq
          · simp [e]
          · exact hs q (by simp [all, hq])
        · exact hs q (by simp [all, hq])
        · exact hs q (by simp [all, hq])
      · rcases hq with (hq | hq) | hq
        · exact hs q (by simp [all, hq])
        · rcases mem_put hq with e | hq
          · simp [e]
          · exact hs q (by simp [all, hq])
        · exact hs q (by simp [all, hq])
      · rcases hq with (hq | hq) | hq
        · exact hs q (by simp [all, hq])
        · exact hs q (by simp [all, hq])
        · rcases mem_put hq with e | hq
          · simp [e]
          · exact hs q (by simp [all, hq])
  | addBad => simp only [step, addBad]; split <;> exact h
  | done p =>
    simp only [step, donePeer]
    split
    · intro q hq
      cases hk : p.kind <;> simp only [hk, all, decGroup_inb, decGroup_outb, decGroup_pers, List.mem_append] at hq
      · rcases hq with (hq | hq) | hq
        · exact h q (by simp [all, (mem_del.1 hq).1])
        · exact h q (by simp [all, hq])
        · exact h q (by simp [all, hq])
      · rcases hq with (hq | hq) | hq
        · exact h q (by simp [all, hq])
        · exact h q (by simp [all, (mem_del.1 hq).1])
        · exact h q (by simp [all, hq])
      · rcases hq with (hq | hq) | hq
        · exact h q (by simp [all, hq])
        · exact h q (by simp [all, hq])
        · exact h q (by simp [all, (mem_del.1 hq).1])
    · exact h
  | ban x => exact h
  | clock dt => exact h
  | shutdown => exact h

theorem valid_of_validH {c : Cfg} : ∀ (evs : List Event) (s : State) (added : List Peer),
    (∀ q ∈ all s, q ∈ added) → ValidH added evs → Valid c s evs := by
  intro evs
  induction evs with
  | nil => intro _ _ _ _; trivial
  | cons e es ih =>
    intro s added hsub hv
    have hstep := all_step_subset (c := c) e added hsub
    cases e with
    | add p =>
      exact ⟨⟨fun q hq => hv.1 q (hsub q hq), hv.2.1⟩, ih _ (p :: added) hstep hv.2.2⟩
    | done p =>
      exact ⟨fun q hq => hv.1 q (hsub q hq), ih _ added hstep hv.2⟩
    | addBad => exact ⟨trivial, ih _ added hstep hv⟩
    | ban x => exact ⟨trivial, ih _ added hstep hv⟩
    | clock dt => exact ⟨trivial, ih _ added hstep hv⟩
    | shutdown => exact ⟨trivial, ih _ added hstep hv⟩

end BHS.Proofs.Peers
