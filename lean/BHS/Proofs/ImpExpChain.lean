/-
Helper lemmas for C17 (2/2): the export of a store that satisfies the chain invariant (`Inv cfg s`, proved for
every store reachable by ingestion in C01) is imported back as exactly its sorted longest chain:
  * `Linked`: a list of rows that the import's fold reproduces (each row's previous hash, height, hash, work and
    cumulated work are what the fold computes from its predecessor);
  * `prepareBatch` of the exported records of a `Linked` list gives the list itself (rowid := height);
  * the sorted longest chain `lcAsc s` is `Linked` from (zero hash, 0, 0) when the root row is a genesis
    (`IsGenesis`) and the rows' fields fit their column types (`FieldsOk`);
  * `validate` accepts that table when the newest checkpoint is a block of the chain.
Core Lean only.
-/
import BHS.Proofs.ImpExp
import BHS.Proofs.QueryLc

set_option linter.unusedSectionVars false

namespace BHS.ImpExp
open BHS BHS.Chain

variable {H : Type} [DecidableEq H]

/-- the imported form of a longest-chain row: the rowid is the height (everything else is kept) -/
def canon (r : Row H) : Row H := { r with id := r.height }

theorem canon_hash (r : Row H) : (canon r).hash = r.hash := rfl
theorem canon_height (r : Row H) : (canon r).height = r.height := rfl
theorem canon_id (r : Row H) : (canon r).id = r.height := rfl
theorem canon_st (r : Row H) : (canon r).st = r.st := rfl

/-- what the root row of the store has to be for the import to recompute it: its previous hash is the zero hash,
    its hash is the hash of its own fields, its work is the work of its bits and its cumulated work is its work
    (true of the row written by database/genesis.go, see `C17_genesis`) -/
structure IsGenesis (cfg : Cfg H) (cd : Codec H) (g : Row H) : Prop where
  prev : g.prev = cd.zero
  hash : g.hash = cfg.hashOf (srcOf g)
  work : g.work = work g.bits
  cum : g.cum = g.work

/-- rows the import's fold reproduces, starting from the loop state `acc` -/
def Linked (cfg : Cfg H) (cd : Codec H) : Acc H → List (Row H) → Prop
  | _, [] => True
  | acc, r :: l =>
    r.prev = acc.prev ∧ r.height = acc.idx ∧ r.hash = cfg.hashOf (srcOf r) ∧ r.work = work r.bits ∧
      r.cum = acc.cum + r.work ∧ r.st = .lc ∧ FieldsOk cd r ∧
      Linked cfg cd { prev := r.hash, cum := r.cum, idx := acc.idx + 1 } l

theorem mkImported_linked (cfg : Cfg H) (r : Row H) (acc : Acc H) (h1 : r.prev = acc.prev) (h2 : r.height = acc.idx)
    (h3 : r.hash = cfg.hashOf (srcOf r)) (h4 : r.work = work r.bits) (h5 : r.cum = acc.cum + r.work) (h6 : r.st = .lc) :
    mkImported cfg (Src.mk r.version acc.prev r.merkle r.time r.bits r.nonce) acc = canon r := by
  cases r
  simp only [srcOf] at *
  subst h1 h2 h4 h6
  simp only [mkImported, canon, ← h3, h5]

/-- importing the exported records of a `Linked` list gives the list back, row for row -/
theorem prepareBatch_linked (cfg : Cfg H) (cd : Codec H) :
    ∀ (l : List (Row H)) (acc : Acc H), Linked cfg cd acc l →
      ∃ acc', prepareBatch cfg cd nColumns (l.map (exportRow cd)) acc = .ok (l.map canon) acc' ∧
        acc'.idx = acc.idx + l.length := by
  intro l
  induction l with
  | nil => intro acc _; exact ⟨acc, rfl, rfl⟩
  | cons r l ih =>
    intro acc h
    obtain ⟨h1, h2, h3, h4, h5, h6, hf, hl⟩ := h
    rw [List.map_cons, prepareBatch_cons, parseRecord_exportRow cd r hf acc.prev]
    simp only []
    rw [mkImported_linked cfg r acc h1 h2 h3 h4 h5 h6]
    have hn : nextAcc (canon r) acc = { prev := r.hash, cum := r.cum, idx := acc.idx + 1 } := rfl
    rw [hn]
    obtain ⟨acc', e, hi⟩ := ih _ hl
    rw [e]
    refine ⟨acc', rfl, ?_⟩
    rw [hi, List.length_cons]
    simp only []
    omega

/-- `Linked` from index-wise facts -/
theorem linked_of_getElem (cfg : Cfg H) (cd : Codec H) :
    ∀ (l : List (Row H)) (acc : Acc H),
      (∀ (i : Nat) (h : i < l.length), l[i].height = acc.idx + i ∧ l[i].hash = cfg.hashOf (srcOf l[i]) ∧
          l[i].work = work l[i].bits ∧ l[i].st = .lc ∧ FieldsOk cd l[i]) →
      (∀ (h : 0 < l.length), l[0].prev = acc.prev ∧ l[0].cum = acc.cum + l[0].work) →
      (∀ (i : Nat) (h : i + 1 < l.length), l[i + 1].prev = l[i].hash ∧ l[i + 1].cum = l[i].cum + l[i + 1].work) →
      Linked cfg cd acc l := by
  intro l
  induction l with
  | nil => intro _ _ _ _; trivial
  | cons r l ih =>
    intro acc hall hhead hstep
    have h0 := hall 0 (by simp)
    have hh := hhead (by simp)
    simp only [List.getElem_cons_zero, Nat.add_zero] at h0 hh
    refine ⟨hh.1, h0.1, h0.2.1, h0.2.2.1, hh.2, h0.2.2.2.1, h0.2.2.2.2, ?_⟩
    apply ih
    · intro i h
      have := hall (i + 1) (by simp only [List.length_cons]; omega)
      simp only [List.getElem_cons_succ] at this
      refine ⟨?_, this.2⟩
      rw [this.1]; simp only []; omega
    · intro h
      have := hstep 0 (by simp only [List.length_cons]; omega)
      simpa using this
    · intro i h
      have := hstep (i + 1) (by simp only [List.length_cons]; omega)
      simpa using this

/-! ### the sorted longest chain of a store under the invariant -/

section inv
variable {cfg : Cfg H} {cd : Codec H} {s : Store H} {t g : Row H}

/-- the first row of the sorted longest chain is the root -/
theorem lcAsc_zero (hw : WF cfg s) (ht : t ∈ s) (hl : LcAt s t) (hg : g ∈ s) (hg0 : g.id = 0) :
    ∃ h : 0 < (lcAsc s).length, (lcAsc s)[0] = g := by
  obtain ⟨hgl, hgh, _⟩ := hw.root_of_id hg hg0
  obtain ⟨h, e⟩ := lcAsc_getElem_of_mem hw ht hl hg hgl
  have h' : 0 < (lcAsc s).length := by omega
  refine ⟨h', ?_⟩
  have : (lcAsc s)[0] = (lcAsc s)[g.height] := by congr 1; omega
  rw [this, e]

/-- cumulated work of consecutive rows -/
theorem lcAsc_cum (hw : WF cfg s) (ht : t ∈ s) (hl : LcAt s t) (i : Nat) (hi : i + 1 < (lcAsc s).length) :
    (lcAsc s)[i + 1].cum = (lcAsc s)[i].cum + (lcAsc s)[i + 1].work := by
  have hm := mem_lcAsc.1 (List.getElem_mem hi)
  have hm' := mem_lcAsc.1 (List.getElem_mem (show i < (lcAsc s).length by omega))
  have hh := lcAsc_getElem_height hw ht hl (i + 1) hi
  have h0 : (lcAsc s)[i + 1].id ≠ 0 := by
    intro k
    have := (hw.root_of_id hm.1 k).2.1
    omega
  obtain ⟨p, hp, e1, _, _, _, e5⟩ := hw.par _ hm.1 (connected_of_lc hm.2) h0
  have hprev := lcAsc_prev hw ht hl i hi
  have : p = (lcAsc s)[i] := hw.hash_inj hp hm'.1 (by rw [e1, hprev])
  rw [e5, this]

/-- a longest-chain row that is not the root is identified by its fields; the root by `IsGenesis` -/
theorem lc_local (hw : WF cfg s) (hg : g ∈ s) (hg0 : g.id = 0) (hgen : IsGenesis cfg cd g) {r : Row H} (hr : r ∈ s) :
    r.hash = cfg.hashOf (srcOf r) ∧ r.work = work r.bits := by
  by_cases h0 : r.id = 0
  · have : r = g := hw.id_inj hr hg (by rw [h0, hg0])
    rw [this]
    exact ⟨hgen.hash, hgen.work⟩
  · have := hw.hashes r hr h0
    exact ⟨this.1, this.2.1⟩

theorem linked_lcAsc (hw : WF cfg s) (ht : t ∈ s) (hl : LcAt s t) (hg : g ∈ s) (hg0 : g.id = 0)
    (hgen : IsGenesis cfg cd g) (hf : ∀ r ∈ s, r.st = .lc → FieldsOk cd r) :
    Linked cfg cd { prev := cd.zero, cum := 0, idx := 0 } (lcAsc s) := by
  apply linked_of_getElem
  · intro i h
    have hm := mem_lcAsc.1 (List.getElem_mem h)
    have hloc := lc_local hw hg hg0 hgen hm.1
    refine ⟨?_, hloc.1, hloc.2, hm.2, hf _ hm.1 hm.2⟩
    rw [lcAsc_getElem_height hw ht hl i h]; simp
  · intro h
    obtain ⟨_, e⟩ := lcAsc_zero hw ht hl hg hg0
    rw [e]
    exact ⟨hgen.prev, by rw [hgen.cum]; simp⟩
  · intro i h
    exact ⟨lcAsc_prev hw ht hl i h, lcAsc_cum hw ht hl i h⟩

/-- the hashes of the sorted longest chain are pairwise different -/
theorem nodup_lcAsc_hash (hw : WF cfg s) : ((lcAsc s).map (·.hash)).Nodup := by
  have h1 : ((s.filter (fun r => decide (r.st = .lc))).map (·.hash)).Nodup :=
    List.Nodup.sublist (List.Sublist.map _ List.filter_sublist) hw.nodup
  exact ((perm_lcAsc s).map _).nodup_iff.2 h1

theorem commit_canon_lcAsc (hw : WF cfg s) (ht : t ∈ s) (hl : LcAt s t) :
    commitBatch [] ((lcAsc s).map canon) = (lcAsc s).map canon := by
  rw [commitBatch_fresh _ [] ?_ ?_]
  · simp
  · rw [List.nil_append, List.map_map]
    exact nodup_lcAsc_hash hw
  · intro i h
    rw [List.length_map] at h
    rw [List.getElem_map, canon_id, lcAsc_getElem_height hw ht hl i h]
    simp

end inv

/-! ### validation of the imported table -/

theorem maxHeight_eq_foldl (tbl : Store H) : maxHeight tbl = (tbl.map (·.height)).foldl max 0 := by
  unfold maxHeight
  rw [List.foldl_map]

theorem foldl_max_range (n : Nat) : (List.range (n + 1)).foldl max 0 = n := by
  induction n with
  | zero => rfl
  | succ n ih => rw [List.range_succ, List.foldl_append, ih]; simp

theorem find_height_canon {l : List (Row H)} (hu : ∀ a ∈ l, ∀ b ∈ l, a.height = b.height → a = b) {c : Row H} (hc : c ∈ l) :
    (l.map canon).find? (fun r => decide (r.height = c.height)) = some (canon c) := by
  cases hfind : (l.map canon).find? (fun r => decide (r.height = c.height)) with
  | none =>
    have := List.find?_eq_none.1 hfind (canon c) (List.mem_map_of_mem hc)
    simp [canon_height] at this
  | some r =>
    have hm := List.mem_of_find?_eq_some hfind
    have hp := List.find?_some hfind
    simp only [decide_eq_true_eq] at hp
    obtain ⟨a, ha, e⟩ := List.mem_map.1 hm
    rw [← e, canon_height] at hp
    rw [← e, hu a ha c hc hp]

section inv
variable {cfg : Cfg H} {s : Store H} {t : Row H}

theorem validate_canon_lcAsc (hw : WF cfg s) (ht : t ∈ s) (hl : LcAt s t) (cps : List (Nat × H)) (c : Row H)
    (hc : c ∈ s) (hcl : c.st = .lc) (hcp : cps.getLast? = some (c.height, c.hash)) :
    validate cps (lcAsc s).length ((lcAsc s).map canon) = .ok := by
  have hmap : ((lcAsc s).map canon).map (·.height) = List.range (t.height + 1) := by
    rw [List.map_map, ← lcAsc_heights hw ht hl]; rfl
  unfold validate
  rw [if_neg (by simp)]
  rw [if_neg (by
    rw [maxHeight_eq_foldl, hmap, foldl_max_range, lcAsc_length hw ht hl]
    simp only [Int.natCast_add, Int.cast_ofNat_Int, ne_eq, Decidable.not_not]
    omega)]
  rw [if_neg (by rw [hmap]; simp [List.nodup_range])]
  rw [hcp]
  simp only []
  rw [find_height_canon (l := lcAsc s) ?_ (mem_lcAsc.2 ⟨hc, hcl⟩)]
  · simp [canon_hash]
  · intro a ha b hb e
    have ha' := mem_lcAsc.1 ha
    have hb' := mem_lcAsc.1 hb
    exact hl.uniq a ha'.1 b hb'.1 ha'.2 hb'.2 e

end inv

end BHS.ImpExp
