/-
History-side vocabulary of C12 and the invariant tying the table to the history.

The history of a run is the list of externally visible events (oldest first): a URL was
created with an authorisation header, re-registered, deleted, or a delivery to it was made
and seen to succeed / fail.  `trailingFailures u log` is, literally, the length of the
trailing run of failed deliveries among the events of `u`; `configuredAuth u log` is the
header given when `u` was last created.  Core Lean only.
-/
import BHS.Proofs.Hooks

namespace BHS.Proofs.Hooks
open BHS.Model.Hooks

inductive Ev where
  | created (url name value : String)
  | refreshed (url : String)
  | deleted (url : String)
  | delivered (url : String) (ok : Bool)
deriving DecidableEq, Repr

def Ev.url : Ev → String
  | .created u _ _ => u
  | .refreshed u => u
  | .deleted u => u
  | .delivered u _ => u

def Ev.isFail : Ev → Bool
  | .delivered _ ok => !ok
  | _ => false

/-- length of the trailing run of failed deliveries among the events of `u`
(a success, a registration, a re-registration or a deletion ends the run). -/
def trailingFailures (u : String) (log : List Ev) : Nat :=
  ((log.filter (fun e => decide (e.url = u))).reverse.takeWhile Ev.isFail).length

/-- the authorisation header `u` was created with, most recently; none once deleted. -/
def configuredAuth (u : String) (log : List Ev) : Option (String × String) :=
  log.foldl (fun acc e => match e with
    | .created v n x => if v = u then some (n, x) else acc
    | .deleted v => if v = u then none else acc
    | _ => acc) none

/-- the events one operation adds to the history, from its visible result. -/
def stepEvents (cfg : Cfg) (s : State) (op : Op) : List Ev :=
  match op, (step cfg s op).2 with
  | .register k h t u, .reply (.ok _) =>
      if (sqlGetByUrl s.table u).isSome then [.refreshed u]
      else [.created u (authHeader k h t).1 (authHeader k h t).2]
  | .delete u, .reply .done => [.deleted u]
  | .notify _, .attempts as => as.map (fun a => .delivered a.call.url a.seen.isOk)
  | _, _ => []

/-- state and history after a sequence of operations. -/
def runLog (cfg : Cfg) : List Op → State × List Ev → State × List Ev
  | [], p => p
  | op :: ops, (s, log) => runLog cfg ops ((step cfg s op).1, log ++ stepEvents cfg s op)

theorem runLog_state (cfg : Cfg) (ops : List Op) (s : State) (log : List Ev) :
    (runLog cfg ops (s, log)).1 = run cfg ops s := by
  induction ops generalizing s log with
  | nil => rfl
  | cons op ops ih => simp [runLog, run, ih]

/-! ## `trailingFailures` under appended events -/

theorem trail_snoc_other (u : String) (log : List Ev) (e : Ev) (h : e.url ≠ u) :
    trailingFailures u (log ++ [e]) = trailingFailures u log := by
  simp [trailingFailures, List.filter_append, h]

theorem trail_snoc_same (u : String) (log : List Ev) (e : Ev) (h : e.url = u) :
    trailingFailures u (log ++ [e]) = if e.isFail then trailingFailures u log + 1 else 0 := by
  simp only [trailingFailures, List.filter_append, List.filter_cons, h, decide_true, if_true, List.filter_nil,
    List.reverse_append, List.reverse_cons, List.reverse_nil, List.nil_append, List.cons_append, List.takeWhile_cons]
  split <;> simp

theorem trail_append_other (u : String) (log evs : List Ev) (h : ∀ e ∈ evs, e.url ≠ u) :
    trailingFailures u (log ++ evs) = trailingFailures u log := by
  have : evs.filter (fun e => decide (e.url = u)) = [] := by
    apply List.filter_eq_nil_iff.mpr
    intro e he
    simpa using h e he
  simp [trailingFailures, List.filter_append, this]

/-! ## `configuredAuth` under appended events -/

theorem auth_snoc (u : String) (log : List Ev) (e : Ev) :
    configuredAuth u (log ++ [e]) = (match e with
      | .created v n x => if v = u then some (n, x) else configuredAuth u log
      | .deleted v => if v = u then none else configuredAuth u log
      | _ => configuredAuth u log) := by
  simp only [configuredAuth, List.foldl_append, List.foldl_cons, List.foldl_nil]

theorem auth_append_delivered (u : String) (log evs : List Ev)
    (h : ∀ e ∈ evs, ∃ v ok, e = .delivered v ok) : configuredAuth u (log ++ evs) = configuredAuth u log := by
  induction evs generalizing log with
  | nil => simp
  | cons e evs ih =>
    rw [show log ++ e :: evs = (log ++ [e]) ++ evs by simp]
    rw [ih _ (fun x hx => h x (List.mem_cons_of_mem _ hx))]
    obtain ⟨v, ok, rfl⟩ := h e (List.mem_cons_self)
    rw [auth_snoc]

/-! ## the events of one `notify` -/

/-- the event a row contributes to one `notify`. -/
def rowEv (cfg : Cfg) (out : String → Outcome) (r : Row) : Option Ev :=
  if r.active then some (.delivered r.url (rowSeen cfg out r).isOk) else none

theorem notify_events (cfg : Cfg) (s : State) (out : String → Outcome) :
    stepEvents cfg s (.notify out) = s.table.filterMap (rowEv cfg out) := by
  simp only [stepEvents, step, notify_attempts, List.map_filterMap]
  congr 1
  funext r
  unfold rowAttempt rowEv rowSeen attempt
  by_cases ha : r.active = true <;> by_cases hw : wireAccepts cfg.prod r.tokenHeader = true <;> simp [ha, hw]

theorem rowEv_url {cfg : Cfg} {out : String → Outcome} {r : Row} {e : Ev} (h : rowEv cfg out r = some e) : e.url = r.url := by
  unfold rowEv at h
  split at h
  · injection h with h; subst h; rfl
  · cases h

theorem filterMap_rowEv_urls (cfg : Cfg) (out : String → Outcome) (t : List Row) (u : String)
    (h : ∀ r ∈ t, r.url ≠ u) : ∀ e ∈ t.filterMap (rowEv cfg out), e.url ≠ u := by
  intro e he
  obtain ⟨r, hr, hre⟩ := List.mem_filterMap.mp he
  rw [rowEv_url hre]
  exact h r hr

/-- over one event, for a row of a table with unique urls: the trailing run of its url is
reset by a success, extended by a failure, untouched when the row is inactive. -/
theorem trail_notify (cfg : Cfg) (out : String → Outcome) (t : List Row) (log : List Ev)
    (hu : (t.map (·.url)).Nodup) (r : Row) (hr : r ∈ t) :
    trailingFailures r.url (log ++ t.filterMap (rowEv cfg out)) =
      if r.active then (if (rowSeen cfg out r).isOk then 0 else trailingFailures r.url log + 1)
      else trailingFailures r.url log := by
  induction t generalizing log with
  | nil => cases hr
  | cons a t ih =>
    simp only [List.map_cons, List.nodup_cons] at hu
    have hsplit : log ++ (a :: t).filterMap (rowEv cfg out) =
        (log ++ (rowEv cfg out a).toList) ++ t.filterMap (rowEv cfg out) := by
      simp only [List.filterMap_cons]
      cases rowEv cfg out a <;> simp
    rw [hsplit]
    rcases List.mem_cons.mp hr with rfl | hmem
    · -- the row itself: later rows have other urls
      have hothers : ∀ x ∈ t, x.url ≠ r.url := fun x hx heq => hu.1 (by rw [← heq]; exact List.mem_map_of_mem hx)
      rw [trail_append_other _ _ _ (filterMap_rowEv_urls cfg out t r.url hothers)]
      unfold rowEv
      by_cases ha : r.active = true
      · simp only [ha, if_true, Option.toList_some]
        rw [trail_snoc_same r.url log (.delivered r.url (rowSeen cfg out r).isOk) rfl]
        cases (rowSeen cfg out r).isOk <;> simp [Ev.isFail]
      · have hf : r.active = false := by simpa using ha
        simp [hf]
    · have hne : a.url ≠ r.url := fun heq => hu.1 (by rw [heq]; exact List.mem_map_of_mem hmem)
      rw [ih _ hu.2 hmem]
      have : trailingFailures r.url (log ++ (rowEv cfg out a).toList) = trailingFailures r.url log := by
        apply trail_append_other
        intro e he
        cases hre : rowEv cfg out a with
        | none => rw [hre] at he; cases he
        | some e' =>
          rw [hre] at he
          simp only [Option.toList_some, List.mem_singleton] at he
          subst he
          rw [rowEv_url hre]; exact hne
      rw [this]

/-! ## the invariant tying table and history -/

/-- for every row: its count is the trailing run of failures of its url, and its header is
the one its url was created with. -/
structure HistInv (s : State) (log : List Ev) : Prop where
  uniq : (s.table.map (·.url)).Nodup
  count : ∀ r ∈ s.table, r.errors = trailingFailures r.url log
  auth : ∀ r ∈ s.table, configuredAuth r.url log = some (r.tokenHeader, r.token)

theorem hist_init : HistInv {} [] := ⟨by simp, by simp, by simp⟩

theorem rowStep_errors (cfg : Cfg) (out : String → Outcome) (now : Nat) (r : Row) :
    (rowStep cfg out now r).errors =
      if r.active then (if (rowSeen cfg out r).isOk then 0 else r.errors + 1) else r.errors := by
  by_cases ha : r.active = true
  · cases hs : (rowSeen cfg out r).isOk
    · simp [ha, (rowStep_fail cfg out now r ha hs).1]
    · simp [ha, (rowStep_ok cfg out now r ha hs).1]
  · have hf : r.active = false := by simpa using ha
    simp [hf, rowStep_inactive cfg out now r hf]

theorem hist_notify (cfg : Cfg) (s : State) (log : List Ev) (out : String → Outcome) (hi : HistInv s log) :
    HistInv (notify cfg s out).1 (log ++ stepEvents cfg s (.notify out)) := by
  have ht := notify_table cfg s out hi.uniq
  rw [notify_events]
  constructor
  · rw [ht, List.map_map]
    have : ((fun r : Row => r.url) ∘ rowStep cfg out (s.clock + 1)) = (fun r : Row => r.url) := by
      funext r; simp
    rw [this]; exact hi.uniq
  · intro r hr
    rw [ht] at hr
    obtain ⟨r0, hr0, rfl⟩ := List.mem_map.mp hr
    rw [rowStep_url, trail_notify cfg out s.table log hi.uniq r0 hr0, rowStep_errors, hi.count r0 hr0]
  · intro r hr
    rw [ht] at hr
    obtain ⟨r0, hr0, rfl⟩ := List.mem_map.mp hr
    rw [rowStep_url, (rowStep_header cfg out _ r0).1, (rowStep_header cfg out _ r0).2]
    rw [auth_append_delivered]
    · exact hi.auth r0 hr0
    · intro e he
      obtain ⟨x, _, hx⟩ := List.mem_filterMap.mp he
      unfold rowEv at hx
      split at hx
      · injection hx with hx; exact ⟨_, _, hx.symm⟩
      · cases hx

theorem hist_delete (cfg : Cfg) (s : State) (log : List Ev) (u : String) (hi : HistInv s log) :
    HistInv (delete s u).1 (log ++ stepEvents cfg s (.delete u)) := by
  simp only [stepEvents, step]
  unfold delete
  split
  · simpa using hi
  · split
    · simpa using hi
    · constructor
      · exact List.Nodup.sublist (List.Sublist.map _ List.filter_sublist) hi.uniq
      · intro r hr
        obtain ⟨hr, hne⟩ := List.mem_filter.mp hr
        have hne : r.url ≠ u := by simpa using hne
        rw [trail_snoc_other _ _ _ (by simpa [Ev.url] using fun h => hne h.symm)]
        exact hi.count r hr
      · intro r hr
        obtain ⟨hr, hne⟩ := List.mem_filter.mp hr
        have hne : r.url ≠ u := by simpa using hne
        rw [auth_snoc]
        have hne' : ¬ (u = r.url) := fun h => hne h.symm
        simp only [hne', if_false]
        exact hi.auth r hr

theorem hist_register (cfg : Cfg) (s : State) (log : List Ev) (k : AuthKind) (h t u : String) (hi : HistInv s log) :
    HistInv (register cfg s k h t u).1 (log ++ stepEvents cfg s (.register k h t u)) := by
  simp only [stepEvents, step]
  unfold register
  split
  · simpa using hi
  · split
    · -- a new row
      rename_i t' hins
      obtain ⟨hnew, rfl⟩ := insert_some hins
      have hnone : sqlGetByUrl s.table u = none := by
        unfold sqlGetByUrl
        exact List.find?_eq_none.mpr (fun x hx => by simpa using hnew x hx)
      simp only [hnone, Option.isSome_none, Bool.false_eq_true, if_false]
      constructor
      · simp only [List.map_append, List.map_cons, List.map_nil]
        refine List.nodup_append.mpr ⟨hi.uniq, by simp, ?_⟩
        intro a ha b hb heq
        simp only [List.mem_singleton] at hb
        obtain ⟨r, hr, rfl⟩ := List.mem_map.mp ha
        exact hnew r hr (heq.trans hb)
      · intro r hr
        rcases List.mem_append.mp hr with hr | hr
        · rw [trail_snoc_other _ _ _ (by simpa [Ev.url] using fun h => hnew r hr h.symm)]
          exact hi.count r hr
        · simp only [List.mem_singleton] at hr
          subst hr
          rw [trail_snoc_same u log (.created u _ _) rfl]
          simp [Ev.isFail]
      · intro r hr
        rw [auth_snoc]
        rcases List.mem_append.mp hr with hr | hr
        · have hne' : ¬ (u = r.url) := fun h => hnew r hr h.symm
          simp only [hne', if_false]
          exact hi.auth r hr
        · simp only [List.mem_singleton] at hr
          subst hr
          simp
    · split
      · simpa using hi
      · rename_i r hget
        obtain ⟨hrmem, hrurl⟩ := getByUrl_some hget
        dsimp only
        split
        · simpa using hi
        · -- refresh of an inactive row
          simp only [hget, Option.isSome_some, if_true]
          constructor
          · show ((repoUpdate s.table _).map (·.url)).Nodup
            unfold repoUpdate
            rw [sqlUpdate_urls]; exact hi.uniq
          · intro x hx
            change x ∈ repoUpdate s.table _ at hx
            unfold repoUpdate sqlUpdate at hx
            obtain ⟨y, hy, rfl⟩ := List.mem_map.mp hx
            simp only [toWebhook_url, hrurl]
            by_cases hyu : y.url = u
            · simp only [hyu, if_true]
              rw [trail_snoc_same u log (.refreshed u) rfl]
              simp [Ev.isFail]
            · simp only [hyu, if_false]
              rw [trail_snoc_other _ _ _ (by simpa [Ev.url] using fun h => hyu h.symm)]
              exact hi.count y hy
          · intro x hx
            change x ∈ repoUpdate s.table _ at hx
            unfold repoUpdate sqlUpdate at hx
            obtain ⟨y, hy, rfl⟩ := List.mem_map.mp hx
            simp only [auth_snoc]
            have := hi.auth y hy
            by_cases hyu : y.url = r.url
            · simpa [hyu] using this
            · simpa [hyu] using this

theorem hist_step (cfg : Cfg) (s : State) (log : List Ev) (op : Op) (hi : HistInv s log) :
    HistInv (step cfg s op).1 (log ++ stepEvents cfg s op) := by
  cases op with
  | register k h t u => exact hist_register cfg s log k h t u hi
  | delete u => exact hist_delete cfg s log u hi
  | notify out => exact hist_notify cfg s log out hi
  | get u => simpa [stepEvents, step] using hi
  | restart => simpa [stepEvents, step] using hi

theorem hist_run (cfg : Cfg) (ops : List Op) (s : State) (log : List Ev) (hi : HistInv s log) :
    HistInv (runLog cfg ops (s, log)).1 (runLog cfg ops (s, log)).2 := by
  induction ops generalizing s log with
  | nil => exact hi
  | cons op ops ih => exact ih _ _ (hist_step cfg s log op hi)

end BHS.Proofs.Hooks
