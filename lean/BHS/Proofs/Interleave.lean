/-
Helper lemmas for C15 (1/2): one thread of the small-step model of `Chains.Add` (Model/Interleave.lean).
`steps cfg n (s, t)` = n repository calls of thread `t` with nobody else touching the store (= `runThread` with fuel n).
`Sim cfg s x p`: the forward simulation between the small-step thread started on store `s` with submission `x`
and the big-step `plan`/`add` — in every state the store is `applyWrites s (a prefix of the plan's writes)`.
`Pc.mu`: a measure that every step of a not-finished thread decreases (start = `maxSteps`).
Core Lean only.
-/
import BHS.Model.Interleave
import BHS.Proofs.CrashRedeliver

set_option linter.unusedSectionVars false
set_option linter.unusedVariables false

namespace BHS.Chain
variable {H : Type} [DecidableEq H]

/-! ### iterating `stepThread` -/

def stepP (cfg : Cfg H) (p : Store H × Thread H) : Store H × Thread H := stepThread cfg p.1 p.2

/-- `n` steps of one thread, nobody else running -/
def steps (cfg : Cfg H) : Nat → Store H × Thread H → Store H × Thread H
  | 0, p => p
  | n + 1, p => steps cfg n (stepP cfg p)

theorem steps_zero (cfg : Cfg H) (p : Store H × Thread H) : steps cfg 0 p = p := rfl

theorem steps_succ (cfg : Cfg H) (n : Nat) (p : Store H × Thread H) :
    steps cfg (n + 1) p = steps cfg n (stepP cfg p) := rfl

theorem steps_succ' (cfg : Cfg H) : ∀ (n : Nat) (p : Store H × Thread H),
    steps cfg (n + 1) p = stepP cfg (steps cfg n p)
  | 0, _ => rfl
  | n + 1, p => by rw [steps_succ, steps_succ' cfg n, ← steps_succ]

theorem steps_add (cfg : Cfg H) : ∀ (m n : Nat) (p : Store H × Thread H),
    steps cfg (m + n) p = steps cfg n (steps cfg m p)
  | 0, n, p => by rw [Nat.zero_add]; rfl
  | m + 1, n, p => by
    rw [Nat.add_right_comm, steps_succ, steps_add cfg m n, ← steps_succ]

theorem isDone_iff {t : Thread H} : t.isDone = true ↔ ∃ o, t.pc = .done o := by
  unfold Thread.isDone
  cases t.pc <;> simp

theorem stepThread_done (cfg : Cfg H) (s : Store H) {t : Thread H} (h : t.isDone = true) :
    stepThread cfg s t = (s, t) := by
  obtain ⟨o, e⟩ := isDone_iff.1 h
  unfold stepThread
  rw [e]

theorem stepP_done (cfg : Cfg H) {p : Store H × Thread H} (h : p.2.isDone = true) : stepP cfg p = p :=
  stepThread_done cfg p.1 h

theorem steps_done (cfg : Cfg H) {p : Store H × Thread H} (h : p.2.isDone = true) :
    ∀ n, steps cfg n p = p
  | 0 => rfl
  | n + 1 => by rw [steps_succ, stepP_done cfg h, steps_done cfg h n]

/-- `runThread` with fuel `n` is `n` steps: a finished thread's step is the identity -/
theorem runThread_eq_steps (cfg : Cfg H) : ∀ (n : Nat) (s : Store H) (t : Thread H),
    runThread cfg n s t = steps cfg n (s, t)
  | 0, _, _ => rfl
  | n + 1, s, t => by
    unfold runThread
    by_cases h : t.isDone = true
    · rw [if_pos h, steps_done cfg (p := (s, t)) h]
    · rw [if_neg h]
      exact runThread_eq_steps cfg n _ _

/-- once finished, finished for good: the state no longer changes -/
theorem steps_stable (cfg : Cfg H) {p : Store H × Thread H} {j : Nat} (h : (steps cfg j p).2.isDone = true)
    (m : Nat) : steps cfg (j + m) p = steps cfg j p := by
  rw [steps_add, steps_done cfg h]

/-! ### the measure -/

def Pc.mu : Pc H → Nat
  | .start => 10
  | .readParent => 9
  | .readAtHeight _ => 8
  | .readTip _ => 7
  | .readStale _ => 6
  | .readConc _ _ => 5
  | .writes _ ws => ws.length + 1
  | .done _ => 0

theorem mu_start : (Pc.start : Pc H).mu = maxSteps := rfl

theorem mu_zero {t : Thread H} (h : t.pc.mu = 0) : t.isDone = true := by
  unfold Thread.isDone
  cases e : t.pc <;> rw [e] at h <;> simp [Pc.mu] at h ⊢

/-- every repository call of a thread that has not finished brings it closer to the end -/
theorem mu_step (cfg : Cfg H) (s : Store H) (t : Thread H) (h : ¬ t.isDone = true) :
    (stepThread cfg s t).2.pc.mu < t.pc.mu := by
  obtain ⟨x, pc⟩ := t
  cases pc with
  | start =>
    simp only [stepThread]
    split
    · simp [Pc.mu]
    · split <;> simp [Pc.mu]
  | readParent =>
    simp only [stepThread]
    split
    · simp [Pc.mu]
    · split <;> simp [Pc.mu]
    · simp [Pc.mu]
  | readAtHeight r =>
    simp only [stepThread]
    split
    · split <;> simp [Pc.mu]
    · simp [Pc.mu]
  | readTip r =>
    simp only [stepThread]
    split
    · simp [Pc.mu]
    · split <;> simp [Pc.mu]
  | readStale r => simp [stepThread, Pc.mu]
  | readConc r stale =>
    simp only [stepThread, Pc.mu]
    split <;> split <;> simp
  | writes r ws =>
    cases ws with
    | nil => simp [stepThread, Pc.mu]
    | cons w ws =>
      simp only [stepThread]
      split <;> simp [Pc.mu]
  | done o => exact absurd rfl h

theorem mu_steps (cfg : Cfg H) : ∀ (n : Nat) (p : Store H × Thread H),
    (steps cfg n p).2.isDone = true ∨ (steps cfg n p).2.pc.mu + n ≤ p.2.pc.mu
  | 0, p => Or.inr (Nat.le_refl _)
  | n + 1, p => by
    rw [steps_succ']
    rcases mu_steps cfg n p with h | h
    · left; rw [stepP_done cfg h]; exact h
    · by_cases hd : (steps cfg n p).2.isDone = true
      · left; rw [stepP_done cfg hd]; exact hd
      · right
        have := mu_step cfg (steps cfg n p).1 (steps cfg n p).2 hd
        show (stepThread cfg _ _).2.pc.mu + (n + 1) ≤ _
        omega

/-- a thread started at `.start` has finished after `maxSteps` repository calls -/
theorem steps_max_done (cfg : Cfg H) (s : Store H) (x : Src H) :
    (steps cfg maxSteps (s, { x := x, pc := .start })).2.isDone = true := by
  rcases mu_steps cfg maxSteps (s, { x := x, pc := .start }) with h | h
  · exact h
  · apply mu_zero
    have h' : (steps cfg maxSteps (s, { x := x, pc := .start })).2.pc.mu + 10 ≤ 10 := h
    omega

/-- the thread has not yet made its first repository call (it has not entered `Add`) -/
def Thread.isStart (t : Thread H) : Bool := match t.pc with | .start => true | _ => false

theorem isStart_iff {t : Thread H} : t.isStart = true ↔ t.pc = .start := by
  unfold Thread.isStart
  cases t.pc <;> simp

theorem isStart_eta {t : Thread H} (h : t.isStart = true) : t = { x := t.x, pc := .start } := by
  obtain ⟨x, pc⟩ := t
  have := isStart_iff.1 h
  simp only at this
  rw [this]

/-- a step never leads (back) to `.start` -/
theorem step_not_start (cfg : Cfg H) (s : Store H) (t : Thread H) : (stepThread cfg s t).2.isStart = false := by
  obtain ⟨x, pc⟩ := t
  cases pc with
  | start =>
    simp only [stepThread]
    split
    · rfl
    · split <;> rfl
  | readParent =>
    simp only [stepThread]
    split
    · rfl
    · split <;> rfl
    · rfl
  | readAtHeight r =>
    simp only [stepThread]
    split
    · split <;> rfl
    · rfl
  | readTip r =>
    simp only [stepThread]
    split
    · rfl
    · split <;> rfl
  | readStale r => rfl
  | readConc r stale => rfl
  | writes r ws =>
    cases ws with
    | nil => rfl
    | cons w ws =>
      simp only [stepThread]
      split <;> rfl
  | done o => rfl

/-- the thread's submission never changes -/
theorem step_x (cfg : Cfg H) (s : Store H) (t : Thread H) : (stepThread cfg s t).2.x = t.x := by
  obtain ⟨x, pc⟩ := t
  cases pc with
  | start =>
    simp only [stepThread]
    split
    · rfl
    · split <;> rfl
  | readParent =>
    simp only [stepThread]
    split
    · rfl
    · split <;> rfl
    · rfl
  | readAtHeight r =>
    simp only [stepThread]
    split
    · split <;> rfl
    · rfl
  | readTip r =>
    simp only [stepThread]
    split
    · rfl
    · split <;> rfl
  | readStale r => rfl
  | readConc r stale => rfl
  | writes r ws => cases ws <;> rfl
  | done o => rfl

/-- each step performs at most one write transaction -/
theorem step_one_write (cfg : Cfg H) (s : Store H) (t : Thread H) :
    (stepThread cfg s t).1 = s ∨ ∃ w, (stepThread cfg s t).1 = applyWrite s w := by
  obtain ⟨x, pc⟩ := t
  cases pc with
  | start =>
    left
    simp only [stepThread]
    split
    · rfl
    · split <;> rfl
  | readParent =>
    left
    simp only [stepThread]
    split
    · rfl
    · split <;> rfl
    · rfl
  | readAtHeight r =>
    left
    simp only [stepThread]
    split
    · split <;> rfl
    · rfl
  | readTip r =>
    left
    simp only [stepThread]
    split
    · rfl
    · split <;> rfl
  | readStale r => left; rfl
  | readConc r stale => left; rfl
  | writes r ws =>
    cases ws with
    | nil => left; rfl
    | cons w ws => right; exact ⟨w, rfl⟩
  | done o => left; rfl

/-! ### writes that only relabel -/

/-- a list of `setState` transactions -/
def AllSet (ws : List (Write H)) : Prop := ∀ w ∈ ws, ∃ hs st, w = Write.setState hs st

theorem setState_hashes (s : Store H) (hs : List H) (st : St) :
    (setState s hs st).map (·.hash) = s.map (·.hash) := by
  unfold setState
  rw [List.map_map]
  apply List.map_congr_left
  intro a _
  simp only [Function.comp]
  split <;> rfl

theorem applyWrites_allSet_hashes : ∀ (ws : List (Write H)) (s : Store H), AllSet ws →
    (applyWrites s ws).map (·.hash) = s.map (·.hash)
  | [], _, _ => rfl
  | w :: ws, s, h => by
    obtain ⟨hs, st, rfl⟩ := h w List.mem_cons_self
    show (applyWrites (setState s hs st) ws).map (·.hash) = _
    rw [applyWrites_allSet_hashes ws _ (fun w hw => h w (List.mem_cons_of_mem _ hw)), setState_hashes]

theorem allSet_length {ws : List (Write H)} {s : Store H} (h : AllSet ws) : (applyWrites s ws).length = s.length := by
  have := congrArg List.length (applyWrites_allSet_hashes ws s h)
  simpa using this

theorem allSet_fresh {ws : List (Write H)} {s : Store H} (h : AllSet ws) {k : H} (hf : ∀ a ∈ s, a.hash ≠ k) :
    byHash (applyWrites s ws) k = none := by
  rw [byHash_none]
  intro a ha e
  have hm : k ∈ (applyWrites s ws).map (·.hash) := List.mem_map.2 ⟨a, ha, e⟩
  rw [applyWrites_allSet_hashes ws s h] at hm
  obtain ⟨b, hb, e'⟩ := List.mem_map.1 hm
  exact hf b hb e'

theorem allSet_switchWrites (s : Store H) (r : Row H) : AllSet (switchWrites s r) := by
  unfold switchWrites
  simp only []
  intro w hw
  rw [List.mem_append] at hw
  rcases hw with hw | hw
  · split at hw
    · cases hw
    · exact ⟨_, _, List.mem_singleton.1 hw⟩
  · split at hw
    · cases hw
    · exact ⟨_, _, List.mem_singleton.1 hw⟩

theorem allSet_nil : AllSet ([] : List (Write H)) := fun _ h => by cases h

theorem allSet_append_single {ws : List (Write H)} {w : Write H} {ws' : List (Write H)}
    (h : AllSet (ws ++ w :: ws')) : AllSet ((ws ++ [w]) ++ ws') := by
  intro a ha
  apply h a
  simp only [List.mem_append, List.mem_cons, List.not_mem_nil, or_false] at ha ⊢
  rcases ha with (ha | ha) | ha
  · exact Or.inl ha
  · exact Or.inr (Or.inl ha)
  · exact Or.inr (Or.inr ha)

/-! ### `plan` from the branch conditions -/

theorem plan_plain {cfg : Cfg H} {s : Store H} {x : Src H} (hd : ¬ (byHash s (cfg.hashOf x)).isSome = true)
    (hf : cfg.hashOf x ∉ cfg.forbidden) (hc : concurrent s (mkRow cfg s x) = false) :
    plan cfg s x = (.stored (mkRow cfg s x), [.insert (mkRow cfg s x)]) := by
  rw [plan_eq, if_neg hd, if_neg hf, if_neg (by rw [hc]; exact Bool.false_ne_true)]

theorem plan_fail {cfg : Cfg H} {s : Store H} {x : Src H} (hd : ¬ (byHash s (cfg.hashOf x)).isSome = true)
    (hf : cfg.hashOf x ∉ cfg.forbidden) (hc : concurrent s (mkRow cfg s x) = true) (ht : getTip s = none) :
    plan cfg s x = (.creationFail, []) := by
  rw [plan_eq, if_neg hd, if_neg hf, if_pos hc, ht]

theorem plan_stale {cfg : Cfg H} {s : Store H} {x : Src H} (hd : ¬ (byHash s (cfg.hashOf x)).isSome = true)
    (hf : cfg.hashOf x ∉ cfg.forbidden) (hc : concurrent s (mkRow cfg s x) = true) {tip : Row H}
    (ht : getTip s = some tip) (hlt : ¬ tip.cum < (mkRow cfg s x).cum) :
    plan cfg s x = (.stored (setSt (mkRow cfg s x) .stale), [.insert (setSt (mkRow cfg s x) .stale)]) := by
  rw [plan_eq, if_neg hd, if_neg hf, if_pos hc, ht]
  simp only [hlt, if_false]

theorem plan_switch {cfg : Cfg H} {s : Store H} {x : Src H} (hd : ¬ (byHash s (cfg.hashOf x)).isSome = true)
    (hf : cfg.hashOf x ∉ cfg.forbidden) (hc : concurrent s (mkRow cfg s x) = true) {tip : Row H}
    (ht : getTip s = some tip) (hlt : tip.cum < (mkRow cfg s x).cum) :
    plan cfg s x = (.stored (setSt (mkRow cfg s x) .lc),
      switchWrites s (setSt (mkRow cfg s x) .lc) ++ [.insert (setSt (mkRow cfg s x) .lc)]) := by
  rw [plan_eq, if_neg hd, if_neg hf, if_pos hc, ht]
  simp only [hlt, if_true]

/-! ### the simulation -/

/-- the two checks of `.start` passed -/
def Fresh (cfg : Cfg H) (s : Store H) (x : Src H) : Prop :=
  ¬ (byHash s (cfg.hashOf x)).isSome = true ∧ cfg.hashOf x ∉ cfg.forbidden

/-- the state `p` of a thread that was started with submission `x` on store `s` and ran alone:
    what its locals are in terms of `plan cfg s x`, and which prefix of the plan's writes the store has seen -/
def Sim (cfg : Cfg H) (s : Store H) (x : Src H) (p : Store H × Thread H) : Prop :=
  p.2.x = x ∧
  match p.2.pc with
  | .start => p.1 = s
  | .readParent => p.1 = s ∧ Fresh cfg s x
  | .readAtHeight r => p.1 = s ∧ Fresh cfg s x ∧ r = mkRow cfg s x ∧ r.st = .lc ∧ r.work ≠ 0
  | .readTip r => p.1 = s ∧ Fresh cfg s x ∧ r = mkRow cfg s x ∧ concurrent s r = true
  | .readStale r => p.1 = s ∧ Fresh cfg s x ∧ concurrent s (mkRow cfg s x) = true ∧
      (∃ tip, getTip s = some tip ∧ tip.cum < (mkRow cfg s x).cum) ∧ r = setSt (mkRow cfg s x) .lc
  | .readConc r stale => p.1 = s ∧ Fresh cfg s x ∧ concurrent s (mkRow cfg s x) = true ∧
      (∃ tip, getTip s = some tip ∧ tip.cum < (mkRow cfg s x).cum) ∧ r = setSt (mkRow cfg s x) .lc ∧
      stale = staleBackFrom s r.prev
  | .writes r ws => ∃ pre1 pre2, plan cfg s x = (.stored r, pre1 ++ pre2 ++ [.insert r]) ∧
      AllSet (pre1 ++ pre2) ∧ ws = pre2 ++ [.insert r] ∧ p.1 = applyWrites s pre1 ∧ r.id = s.length ∧
      ∀ a ∈ s, a.hash ≠ r.hash
  | .done o => p.1 = (add cfg s x).1 ∧ o = (add cfg s x).2

theorem sim_start (cfg : Cfg H) (s : Store H) (x : Src H) : Sim cfg s x (s, { x := x, pc := .start }) :=
  ⟨rfl, rfl⟩

/-- entering the write phase with the whole plan still to do -/
theorem sim_enter {cfg : Cfg H} {s : Store H} {x : Src H} {r : Row H} {pre : List (Write H)}
    (hp : plan cfg s x = (.stored r, pre ++ [.insert r])) (hs : AllSet pre) (hid : r.id = s.length)
    (hfr : ∀ a ∈ s, a.hash ≠ r.hash) : Sim cfg s x (s, { x := x, pc := .writes r (pre ++ [.insert r]) }) :=
  ⟨rfl, [], pre, by simpa using hp, by simpa using hs, rfl, rfl, hid, hfr⟩

theorem sim_step {cfg : Cfg H} {s : Store H} {x : Src H} {p : Store H × Thread H} (h : Sim cfg s x p) :
    Sim cfg s x (stepP cfg p) := by
  obtain ⟨s', x', pc⟩ := p
  obtain ⟨hx, h⟩ := h
  simp only at hx h
  subst hx
  unfold stepP
  cases pc with
  | start =>
    simp only at h
    subst h
    simp only [stepThread]
    by_cases hd : (byHash s' (cfg.hashOf x')).isSome = true
    · rw [if_pos hd]
      exact ⟨rfl, by rw [add_dup hd], by rw [add_dup hd]⟩
    · rw [if_neg hd]
      by_cases hf : cfg.hashOf x' ∈ cfg.forbidden
      · rw [if_pos hf]
        exact ⟨rfl, by rw [add_rejected hd hf], by rw [add_rejected hd hf]⟩
      · rw [if_neg hf]
        exact ⟨rfl, rfl, hd, hf⟩
  | readParent =>
    obtain ⟨rfl, hd, hf⟩ := h
    have fresh := byHash_not_isSome hd
    simp only [stepThread]
    split
    · rename_i hst
      have hc : concurrent s' (mkRow cfg s' x') = false := by simp [concurrent, hst]
      exact sim_enter (pre := []) (plan_plain hd hf hc) allSet_nil rfl fresh
    · rename_i hst
      split
      · rename_i hwk
        exact ⟨rfl, rfl, ⟨hd, hf⟩, rfl, concurrent_zero_work hst hwk⟩
      · rename_i hwk
        exact ⟨rfl, rfl, ⟨hd, hf⟩, rfl, hst, hwk⟩
    · rename_i hst
      exact ⟨rfl, rfl, ⟨hd, hf⟩, rfl, concurrent_stale hst⟩
  | readAtHeight r =>
    obtain ⟨rfl, ⟨hd, hf⟩, rfl, hst, hwk⟩ := h
    have fresh := byHash_not_isSome hd
    simp only [stepThread]
    split
    · rename_i oh e
      split
      · rename_i hne
        refine ⟨rfl, rfl, ⟨hd, hf⟩, rfl, ?_⟩
        simp [concurrent, hst, hwk, e, hne]
      · rename_i hne
        have hc : concurrent s' (mkRow cfg s' x') = false := by
          simp only [concurrent, hst, e]
          simpa [hwk] using hne
        exact sim_enter (pre := []) (plan_plain hd hf hc) allSet_nil rfl fresh
    · rename_i e
      exact sim_enter (pre := []) (plan_plain hd hf (concurrent_lc_none hst hwk e)) allSet_nil rfl fresh
  | readTip r =>
    obtain ⟨rfl, ⟨hd, hf⟩, rfl, hc⟩ := h
    have fresh := byHash_not_isSome hd
    simp only [stepThread]
    split
    · rename_i e
      have hp := plan_fail hd hf hc e
      exact ⟨rfl, by rw [add_eq, hp]; rfl, by rw [add_eq, hp]⟩
    · rename_i tip e
      split
      · rename_i hlt
        exact ⟨rfl, rfl, ⟨hd, hf⟩, hc, ⟨tip, e, hlt⟩, rfl⟩
      · rename_i hlt
        exact sim_enter (pre := []) (plan_stale hd hf hc e hlt) allSet_nil rfl fresh
  | readStale r =>
    obtain ⟨rfl, hfr, hc, ht, rfl⟩ := h
    exact ⟨rfl, rfl, hfr, hc, ht, rfl, rfl⟩
  | readConc r stale =>
    obtain ⟨rfl, ⟨hd, hf⟩, hc, ⟨tip, ht, hlt⟩, rfl, rfl⟩ := h
    have fresh := byHash_not_isSome hd
    exact sim_enter (pre := switchWrites s' (setSt (mkRow cfg s' x') .lc)) (plan_switch hd hf hc ht hlt)
      (allSet_switchWrites _ _) rfl fresh
  | writes r ws =>
    obtain ⟨pre1, pre2, hp, hs, rfl, rfl, hid, hfr⟩ := h
    cases pre2 with
    | nil =>
      have hs1 : AllSet pre1 := by simpa using hs
      have hnone := allSet_fresh (s := s) hs1 hfr
      have hlen := allSet_length (s := s) hs1
      have hadd : add cfg s x' = (insertRow (applyWrites s pre1) r, .stored r) := by
        rw [add_eq, hp]
        simp only [List.append_nil]
        rw [applyWrites_append]
        rfl
      simp only [stepThread, List.nil_append, List.isEmpty_nil, if_true, hnone, hlen]
      refine ⟨rfl, by rw [hadd]; rfl, ?_⟩
      rw [hadd]
      simp only
      rw [row_with_id hid]
    | cons w pre2 =>
      simp only [stepThread, List.cons_append]
      have hne : (pre2 ++ [Write.insert r]).isEmpty = false := by cases pre2 <;> rfl
      rw [hne]
      refine ⟨rfl, pre1 ++ [w], pre2, ?_, allSet_append_single hs, rfl, ?_, hid, hfr⟩
      · rw [hp]; simp
      · show applyWrite (applyWrites s pre1) w = applyWrites s (pre1 ++ [w])
        rw [applyWrites_append]; rfl
  | done o => exact ⟨rfl, h⟩

theorem sim_steps (cfg : Cfg H) (s : Store H) (x : Src H) : ∀ n,
    Sim cfg s x (steps cfg n (s, { x := x, pc := .start }))
  | 0 => sim_start cfg s x
  | n + 1 => by rw [steps_succ']; exact sim_step (sim_steps cfg s x n)

/-- in every state of the simulation the store is the old store after a prefix of the plan's writes -/
theorem sim_store {cfg : Cfg H} {s : Store H} {x : Src H} {p : Store H × Thread H} (h : Sim cfg s x p) :
    ∃ k, p.1 = addPrefix cfg s x k := by
  obtain ⟨s', x', pc⟩ := p
  obtain ⟨hx, h⟩ := h
  simp only at hx h
  cases pc with
  | start => exact ⟨0, h⟩
  | readParent => exact ⟨0, h.1⟩
  | readAtHeight r => exact ⟨0, h.1⟩
  | readTip r => exact ⟨0, h.1⟩
  | readStale r => exact ⟨0, h.1⟩
  | readConc r stale => exact ⟨0, h.1⟩
  | writes r ws =>
    obtain ⟨pre1, pre2, hp, _, _, e, _⟩ := h
    refine ⟨pre1.length, ?_⟩
    unfold addPrefix
    rw [hp]
    simp only [List.append_assoc, List.take_left']
    exact e
  | done o =>
    exact ⟨(plan cfg s x).2.length, by rw [addPrefix_of_le cfg s x (Nat.le_refl _)]; exact h.1⟩

/-- a finished simulation state is the result of `add` -/
theorem sim_done {cfg : Cfg H} {s : Store H} {x : Src H} {p : Store H × Thread H} (h : Sim cfg s x p)
    (hd : p.2.isDone = true) : p = ((add cfg s x).1, { x := x, pc := .done (add cfg s x).2 }) := by
  obtain ⟨s', x', pc⟩ := p
  obtain ⟨o, e⟩ := isDone_iff.1 hd
  simp only at e
  subst e
  obtain ⟨hx, h1, h2⟩ := h
  simp only at hx h1 h2
  rw [hx, h1, h2]

/-- a thread running alone from `.start` for `maxSteps` calls is exactly `add` -/
theorem steps_max (cfg : Cfg H) (s : Store H) (x : Src H) :
    steps cfg maxSteps (s, { x := x, pc := .start }) = ((add cfg s x).1, { x := x, pc := .done (add cfg s x).2 }) :=
  sim_done (sim_steps cfg s x maxSteps) (steps_max_done cfg s x)

/-- whenever a thread running alone from `.start` is finished, the store is the one `add` produces -/
theorem steps_done_eq (cfg : Cfg H) (s : Store H) (x : Src H) {j : Nat}
    (h : (steps cfg j (s, { x := x, pc := .start })).2.isDone = true) :
    steps cfg j (s, { x := x, pc := .start }) = ((add cfg s x).1, { x := x, pc := .done (add cfg s x).2 }) :=
  sim_done (sim_steps cfg s x j) h

end BHS.Chain
