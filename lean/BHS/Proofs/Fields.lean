/-
Helper lemmas for C03 / C11 (1/3): the store level.
  * the shape of one `add` (store unchanged and no event, or exactly one row appended at position `s.length`)
  * the fields of the row `Add` stores
  * immutability: `setState` / `insertRow` / `applyWrites` / `add` / `addPrefix` / `restart` / `run`
    preserve every row up to its state label, at the same position
  * `WF` lifted over histories
  * the ADD events of a history (`eventsOf`) match the rows the history appended
Core Lean only.
-/
import BHS.Model.Chain
import BHS.Model.Crash
import BHS.Spec.BestChain
import BHS.Proofs.ChainWF

set_option linter.unusedSectionVars false

namespace BHS.Chain
variable {H : Type} [DecidableEq H]

deriving instance DecidableEq for Outcome

instance (s s' : Store H) : Decidable (rowsPreserved s s') := by unfold rowsPreserved; infer_instance

/-! ### sameButState / rowsPreserved are preorders -/

theorem sameButState_refl (r : Row H) : sameButState r r :=
  ⟨rfl, rfl, rfl, rfl, rfl, rfl, rfl, rfl, rfl, rfl, rfl⟩

theorem sameButState_setSt (r : Row H) (st : St) : sameButState r (setSt r st) :=
  ⟨rfl, rfl, rfl, rfl, rfl, rfl, rfl, rfl, rfl, rfl, rfl⟩

theorem sameButState.trans {a b c : Row H} (h1 : sameButState a b) (h2 : sameButState b c) :
    sameButState a c := by
  obtain ⟨a1, a2, a3, a4, a5, a6, a7, a8, a9, a10, a11⟩ := h1
  obtain ⟨b1, b2, b3, b4, b5, b6, b7, b8, b9, b10, b11⟩ := h2
  exact ⟨b1.trans a1, b2.trans a2, b3.trans a3, b4.trans a4, b5.trans a5, b6.trans a6, b7.trans a7,
    b8.trans a8, b9.trans a9, b10.trans a10, b11.trans a11⟩

theorem sameButState.hash {a b : Row H} (h : sameButState a b) : b.hash = a.hash := h.2.1

theorem sameButState.srcOf {a b : Row H} (h : sameButState a b) : srcOf b = srcOf a := by
  obtain ⟨_, _, a3, a4, _, a6, a7, a8, a9, _, _⟩ := h
  simp only [BHS.Chain.srcOf, a3, a4, a6, a7, a8, a9]

/-- two rows that agree up to the state label and carry the same label are equal -/
theorem sameButState.eq_of_st {a b : Row H} (h : sameButState a b) (e : b.st = a.st) : b = a := by
  obtain ⟨a1, a2, a3, a4, a5, a6, a7, a8, a9, a10, a11⟩ := h
  cases a; cases b; simp_all

/-- a row equals the stored one with its own label put back -/
theorem sameButState.eq_setSt {a b : Row H} (h : sameButState a b) : a = setSt b a.st :=
  (sameButState.eq_of_st (a := setSt b a.st) (b := a)
    ⟨h.1.symm, h.2.1.symm, h.2.2.1.symm, h.2.2.2.1.symm, h.2.2.2.2.1.symm, h.2.2.2.2.2.1.symm,
      h.2.2.2.2.2.2.1.symm, h.2.2.2.2.2.2.2.1.symm, h.2.2.2.2.2.2.2.2.1.symm,
      h.2.2.2.2.2.2.2.2.2.1.symm, h.2.2.2.2.2.2.2.2.2.2.symm⟩ rfl)

theorem rowsPreserved_refl (s : Store H) : rowsPreserved s s :=
  ⟨Nat.le_refl _, fun _ _ _ => sameButState_refl _⟩

theorem rowsPreserved.trans {s1 s2 s3 : Store H} (h1 : rowsPreserved s1 s2) (h2 : rowsPreserved s2 s3) :
    rowsPreserved s1 s3 := by
  refine ⟨Nat.le_trans h1.1 h2.1, ?_⟩
  intro i hi hi3
  have hi2 : i < s2.length := Nat.lt_of_lt_of_le hi h1.1
  exact (h1.2 i hi hi2).trans (h2.2 i hi2 hi3)

/-- membership form: every old row has a counterpart in the new store -/
theorem rowsPreserved.mem {s s' : Store H} (h : rowsPreserved s s') {r : Row H} (hr : r ∈ s) :
    ∃ r' ∈ s', sameButState r r' := by
  obtain ⟨i, hi, e⟩ := List.mem_iff_getElem.1 hr
  have hi' : i < s'.length := Nat.lt_of_lt_of_le hi h.1
  exact ⟨s'[i], List.getElem_mem hi', e ▸ h.2 i hi hi'⟩

/-! ### the writes -/

theorem rowsPreserved_map (s : Store H) (f : Row H → Row H) (hf : ∀ r, sameButState r (f r)) :
    rowsPreserved s (s.map f) := by
  refine ⟨by rw [List.length_map]; exact Nat.le_refl _, ?_⟩
  intro i hi hi'
  rw [List.getElem_map]
  exact hf _

theorem rowsPreserved_setState (s : Store H) (hs : List H) (st : St) : rowsPreserved s (setState s hs st) := by
  unfold setState
  apply rowsPreserved_map
  intro r
  split
  · exact sameButState_setSt r st
  · exact sameButState_refl r

theorem rowsPreserved_append (s t : Store H) : rowsPreserved s (s ++ t) := by
  refine ⟨by rw [List.length_append]; exact Nat.le_add_right _ _, ?_⟩
  intro i hi hi'
  rw [List.getElem_append_left hi]
  exact sameButState_refl _

theorem rowsPreserved_insertRow (s : Store H) (r : Row H) : rowsPreserved s (insertRow s r) := by
  unfold insertRow
  split
  · exact rowsPreserved_refl s
  · exact rowsPreserved_append s _

theorem rowsPreserved_applyWrite (s : Store H) (w : Write H) : rowsPreserved s (applyWrite s w) := by
  cases w with
  | setState hs st => exact rowsPreserved_setState s hs st
  | insert r => exact rowsPreserved_insertRow s r

theorem rowsPreserved_applyWrites (ws : List (Write H)) : ∀ s : Store H, rowsPreserved s (applyWrites s ws) := by
  induction ws with
  | nil => intro s; exact rowsPreserved_refl s
  | cons w ws ih =>
    intro s
    exact (rowsPreserved_applyWrite s w).trans (ih (applyWrite s w))

theorem rowsPreserved_add (cfg : Cfg H) (s : Store H) (x : Src H) : rowsPreserved s (add cfg s x).1 :=
  rowsPreserved_applyWrites _ s

theorem rowsPreserved_addPrefix (cfg : Cfg H) (s : Store H) (x : Src H) (k : Nat) :
    rowsPreserved s (addPrefix cfg s x k) :=
  rowsPreserved_applyWrites _ s

theorem rowsPreserved_restart (g : Row H) (s : Store H) : rowsPreserved s (restart g s) :=
  rowsPreserved_insertRow s g

theorem run_cons (cfg : Cfg H) (s : Store H) (x : Src H) (hist : List (Src H)) :
    run cfg s (x :: hist) = run cfg (add cfg s x).1 hist := rfl

theorem rowsPreserved_run (cfg : Cfg H) (hist : List (Src H)) : ∀ s : Store H, rowsPreserved s (run cfg s hist) := by
  induction hist with
  | nil => intro s; exact rowsPreserved_refl s
  | cons x hist ih =>
    intro s
    rw [run_cons]
    exact (rowsPreserved_add cfg s x).trans (ih _)

/-! ### the row `Add` stores -/

/-- the identity and derived fields of the candidate row, whatever state label the branch gives it -/
def storedFields (cfg : Cfg H) (s : Store H) (x : Src H) (r : Row H) : Prop :=
  r.id = s.length ∧ r.hash = cfg.hashOf x ∧ srcOf r = x ∧ r.work = work x.bits ∧
  (∀ p, byHash s x.prev = some p → r.height = p.height + 1 ∧ r.cum = p.cum + r.work) ∧
  (byHash s x.prev = none → r.height = 1 ∧ r.cum = r.work)

theorem storedFields_mkRow (cfg : Cfg H) (s : Store H) (x : Src H) (st : St) :
    storedFields cfg s x (setSt (mkRow cfg s x) st) := by
  refine ⟨rfl, rfl, rfl, rfl, ?_, ?_⟩
  · intro p e
    have k := mkRow_some (cfg := cfg) e
    exact ⟨k.1, k.2.1⟩
  · intro e
    refine ⟨(mkRow_none (cfg := cfg) e).1, ?_⟩
    show (mkRow cfg s x).cum = (mkRow cfg s x).work
    simp [mkRow, parentInfo, e]

/-- one submission: either nothing is written and nothing is announced, or exactly one row — the announced one — is
    appended at position `s.length` -/
theorem add_shape (cfg : Cfg H) (s : Store H) (x : Src H) :
    ((add cfg s x).1 = s ∧ events (add cfg s x).2 = [] ∧ ∀ r, (add cfg s x).2 ≠ .stored r) ∨
    (∃ r s', (add cfg s x).2 = .stored r ∧ (add cfg s x).1 = s' ++ [r] ∧ s'.length = s.length ∧
      storedFields cfg s x r ∧ ¬ (byHash s (cfg.hashOf x)).isSome = true ∧ cfg.hashOf x ∉ cfg.forbidden ∧
      s'.map (·.hash) = s.map (·.hash)) := by
  rcases add_cases cfg s x with ⟨_, e⟩ | ⟨_, _, e⟩ | ⟨hd, hf, k⟩
  · left; rw [e]; exact ⟨rfl, rfl, fun r h => by cases h⟩
  · left; rw [e]; exact ⟨rfl, rfl, fun r h => by cases h⟩
  · rcases k with ⟨_, e⟩ | ⟨_, _, e⟩ | ⟨_, _, _, _, e⟩ | ⟨_, _, _, _, e⟩
    · right; rw [e]
      exact ⟨_, s, rfl, rfl, rfl, storedFields_mkRow cfg s x (mkRow cfg s x).st, hd, hf, rfl⟩
    · left; rw [e]; exact ⟨rfl, rfl, fun r h => by cases h⟩
    · right; rw [e]
      exact ⟨_, s, rfl, rfl, rfl, storedFields_mkRow cfg s x .stale, hd, hf, rfl⟩
    · right; rw [e]
      refine ⟨_, _, rfl, rfl, List.length_map _, storedFields_mkRow cfg s x .lc, hd, hf, ?_⟩
      rw [List.map_map]
      apply List.map_congr_left
      intro a _
      exact relab_hash _ _ a

theorem getElem?_append_singleton {α : Type} (l : List α) (a : α) (n : Nat) (h : l.length = n) :
    (l ++ [a])[n]? = some a := by
  subst h
  rw [List.getElem?_append_right (Nat.le_refl _), Nat.sub_self]
  rfl

theorem drop_append_singleton {α : Type} (l : List α) (a : α) (n : Nat) (h : l.length = n) :
    (l ++ [a]).drop n = [a] := List.drop_left' h

/-- a lookup of the row just appended returns it, when its hash is new -/
theorem byHash_append_new {s' : Store H} {r : Row H} (h : ∀ a ∈ s', a.hash ≠ r.hash) :
    byHash (s' ++ [r]) r.hash = some r := by
  unfold byHash
  rw [List.find?_append]
  have e : List.find? (fun a => decide (a.hash = r.hash)) s' = none := by
    rw [List.find?_eq_none]
    intro a ha k
    exact h a ha (of_decide_eq_true k)
  rw [e]
  simp

/-- after a successful `Add`, looking the header up by its hash returns exactly the stored row -/
theorem add_lookup (cfg : Cfg H) (s : Store H) (x : Src H) (r : Row H) (h : (add cfg s x).2 = .stored r) :
    byHash (add cfg s x).1 (cfg.hashOf x) = some r := by
  rcases add_shape cfg s x with ⟨_, _, k⟩ | ⟨r', s', e1, e2, _, f, hd, _, hm⟩
  · exact absurd h (k r)
  · rw [e1] at h
    injection h with h
    subst h
    rw [e2, ← f.2.1]
    apply byHash_append_new
    intro a ha k
    have : a.hash ∈ s.map (·.hash) := by rw [← hm]; exact List.mem_map.2 ⟨a, ha, rfl⟩
    obtain ⟨a0, ha0, e⟩ := List.mem_map.1 this
    exact byHash_not_isSome hd a0 ha0 (by rw [e, k, f.2.1])

/-- the rows one submission appends are exactly its events -/
theorem add_drop (cfg : Cfg H) (s : Store H) (x : Src H) :
    (add cfg s x).1.drop s.length = events (add cfg s x).2 := by
  rcases add_shape cfg s x with ⟨e1, e2, _⟩ | ⟨r, s', e1, e2, e3, _⟩
  · rw [e1, e2]; exact List.drop_length
  · rw [e1, e2, drop_append_singleton _ _ _ e3]; rfl

/-! ### WF over histories -/

theorem WF.init (cfg : Cfg H) (g : Row H) (h0 : g.id = 0) (hl : g.st = .lc) (hh : g.height = 0)
    (hne : g.hash ≠ g.prev) : WF cfg [g] := by
  have one : ∀ r, r ∈ [g] → r = g := fun r hr => List.mem_singleton.1 hr
  refine ⟨?_, ?_, ?_, ?_, ?_, ?_⟩
  · simp [h0]
  · simp
  · refine ⟨g, List.mem_singleton.2 rfl, h0, hl, hh, ?_⟩
    intro r hr; rw [one r hr]; exact hne
  · intro r hr _ hn; rw [one r hr] at hn; exact absurd h0 hn
  · intro r hr ho; rw [one r hr, hl] at ho; cases ho
  · intro r hr hn; rw [one r hr] at hn; exact absurd h0 hn

/-- `WF` is preserved by every history (also by zero-work headers); the root row stays -/
theorem WF.run {cfg : Cfg H} {g : Row H} (hg0 : g.id = 0) (hz : ∀ y, cfg.hashOf y ≠ g.prev)
    (hist : List (Src H)) : ∀ {s : Store H}, WF cfg s → g ∈ s → WF cfg (run cfg s hist) ∧ g ∈ run cfg s hist := by
  induction hist with
  | nil => intro s h hg; exact ⟨h, hg⟩
  | cons x hist ih =>
    intro s h hg
    rw [run_cons]
    exact ih (h.add_wf x hg hg0 hz) (h.add_keeps x hg (Or.inl hg0))

/-! ### height and cumulative work of EVERY row (orphans included) -/

/-- every non-root row derives its height and cumulative work from the row stored before it that carries its previous
    hash; when there was none it starts at height 1 with only its own work -/
def Derived (s : Store H) : Prop :=
  ∀ r ∈ s, r.id ≠ 0 →
    (∃ p ∈ s, p.id < r.id ∧ p.hash = r.prev ∧ r.height = p.height + 1 ∧ r.cum = p.cum + r.work) ∨
    ((∀ p ∈ s, p.id < r.id → p.hash ≠ r.prev) ∧ r.height = 1 ∧ r.cum = r.work)

instance (s : Store H) : Decidable (Derived s) := by unfold Derived; infer_instance

/-- the first `s.length` rows of a store that preserves `s` are the rows of `s` up to state labels -/
theorem rowsPreserved.prefix {s s' t : Store H} (h : rowsPreserved s (s' ++ t)) (hl : s'.length = s.length) :
    (∀ a ∈ s, ∃ a' ∈ s', sameButState a a') ∧ (∀ a' ∈ s', ∃ a ∈ s, sameButState a a') := by
  constructor
  · intro a ha
    obtain ⟨i, hi, e⟩ := List.mem_iff_getElem.1 ha
    have hi' : i < s'.length := by omega
    have k := h.2 i hi (by rw [List.length_append]; omega)
    rw [List.getElem_append_left hi', e] at k
    exact ⟨s'[i], List.getElem_mem hi', k⟩
  · intro a' ha'
    obtain ⟨i, hi', e⟩ := List.mem_iff_getElem.1 ha'
    have hi : i < s.length := by omega
    have k := h.2 i hi (by rw [List.length_append]; omega)
    rw [List.getElem_append_left hi', e] at k
    exact ⟨s[i], List.getElem_mem hi, k⟩

theorem Derived.add {cfg : Cfg H} {s : Store H} (hd : Derived s) (hi : s.map (·.id) = List.range s.length)
    (x : Src H) : Derived (add cfg s x).1 := by
  have rp := rowsPreserved_add cfg s x
  rcases add_shape cfg s x with ⟨e1, _, _⟩ | ⟨r, s', _, e2, e3, f, _⟩
  · rw [e1]; exact hd
  · rw [e2] at rp ⊢
    obtain ⟨fwd, bwd⟩ := rp.prefix e3
    obtain ⟨f1, _, f3, _, f5, f6⟩ := f
    have hprev : r.prev = x.prev := congrArg Src.prev f3
    intro q hq hq0
    rcases List.mem_append.1 hq with hq' | hq'
    · obtain ⟨a, ha, m⟩ := bwd q hq'
      have hida : a.id < s.length := ids_lt hi ha
      rcases hd a ha (by rw [← m.1]; exact hq0) with ⟨p, hp, k1, k2, k3, k4⟩ | ⟨k1, k2, k3⟩
      · left
        obtain ⟨p', hp', mp⟩ := fwd p hp
        refine ⟨p', List.mem_append_left _ hp', ?_, ?_, ?_, ?_⟩
        · rw [mp.1, m.1]; exact k1
        · rw [mp.2.1, m.2.2.1]; exact k2
        · rw [m.2.2.2.2.1, mp.2.2.2.2.1]; exact k3
        · rw [m.2.2.2.2.2.2.2.2.2.2, mp.2.2.2.2.2.2.2.2.2.2, m.2.2.2.2.2.2.2.2.2.1]; exact k4
      · right
        refine ⟨?_, by rw [m.2.2.2.2.1]; exact k2,
          by rw [m.2.2.2.2.2.2.2.2.2.2, m.2.2.2.2.2.2.2.2.2.1]; exact k3⟩
        intro p' hp' hlt
        rcases List.mem_append.1 hp' with hp'' | hp''
        · obtain ⟨p, hp, mp⟩ := bwd p' hp''
          rw [mp.2.1, m.2.2.1]
          exact k1 p hp (by rw [← mp.1, ← m.1]; exact hlt)
        · rw [List.mem_singleton.1 hp'', f1, m.1] at hlt
          omega
    · have hqr : q = r := List.mem_singleton.1 hq'
      subst hqr
      cases e : byHash s x.prev with
      | some p =>
        left
        obtain ⟨hp, hph⟩ := byHash_some e
        obtain ⟨p', hp', mp⟩ := fwd p hp
        obtain ⟨g1, g2⟩ := f5 p e
        refine ⟨p', List.mem_append_left _ hp', ?_, ?_, ?_, ?_⟩
        · rw [mp.1, f1]; exact ids_lt hi hp
        · rw [mp.2.1, hprev]; exact hph
        · rw [mp.2.2.2.2.1]; exact g1
        · rw [mp.2.2.2.2.2.2.2.2.2.2]; exact g2
      | none =>
        right
        obtain ⟨g1, g2⟩ := f6 e
        refine ⟨?_, g1, g2⟩
        intro p' hp' hlt
        rcases List.mem_append.1 hp' with hp'' | hp''
        · obtain ⟨p, hp, mp⟩ := bwd p' hp''
          rw [mp.2.1, hprev]
          exact byHash_none.1 e p hp
        · rw [List.mem_singleton.1 hp''] at hlt
          omega

theorem Derived.run {cfg : Cfg H} {g : Row H} (hg0 : g.id = 0) (hz : ∀ y, cfg.hashOf y ≠ g.prev)
    (hist : List (Src H)) : ∀ {s : Store H}, WF cfg s → g ∈ s → Derived s → Derived (run cfg s hist) := by
  induction hist with
  | nil => intro s _ _ hd; exact hd
  | cons x hist ih =>
    intro s h hg hd
    rw [run_cons]
    exact ih (h.add_wf x hg hg0 hz) (h.add_keeps x hg (Or.inl hg0)) (hd.add h.ids x)

/-! ### the events of a history -/

/-- the ADD events along `run`, in order -/
def eventsOf (cfg : Cfg H) : Store H → List (Src H) → List (Row H)
  | _, [] => []
  | s, x :: hist => events (add cfg s x).2 ++ eventsOf cfg (add cfg s x).1 hist

/-- pointwise: same length, and each announced row agrees with the stored row up to the state label -/
def rowsMatch : List (Row H) → List (Row H) → Prop
  | [], [] => True
  | a :: l, b :: l' => sameButState a b ∧ rowsMatch l l'
  | _, _ => False

theorem rowsMatch.length : ∀ {l l' : List (Row H)}, rowsMatch l l' → l.length = l'.length
  | [], [], _ => rfl
  | _ :: _, _ :: _, h => by
    simp only [List.length_cons]
    rw [rowsMatch.length h.2]
  | [], _ :: _, h => h.elim
  | _ :: _, [], h => h.elim

theorem rowsMatch.map_hash : ∀ {l l' : List (Row H)}, rowsMatch l l' → l.map (·.hash) = l'.map (·.hash)
  | [], [], _ => rfl
  | a :: _, b :: _, h => by
    simp only [List.map_cons]
    rw [rowsMatch.map_hash h.2, h.1.hash]
  | [], _ :: _, h => h.elim
  | _ :: _, [], h => h.elim

theorem rowsMatch.getElem : ∀ {l l' : List (Row H)}, rowsMatch l l' →
    ∀ (i : Nat) (h : i < l.length) (h' : i < l'.length), sameButState l[i] l'[i]
  | [], [], _, _, h, _ => by cases h
  | _ :: _, _ :: _, m, 0, _, _ => m.1
  | _ :: _, _ :: _, m, i + 1, h, h' => by
    simp only [List.getElem_cons_succ]
    exact rowsMatch.getElem m.2 i (Nat.lt_of_succ_lt_succ h) (Nat.lt_of_succ_lt_succ h')
  | [], _ :: _, m, _, _, _ => m.elim
  | _ :: _, [], m, _, _, _ => m.elim

/-- the events of a history are, in order and up to later relabelling, exactly the rows the history appended -/
theorem eventsOf_match (cfg : Cfg H) (hist : List (Src H)) :
    ∀ s : Store H, rowsMatch (eventsOf cfg s hist) ((run cfg s hist).drop s.length) := by
  induction hist with
  | nil =>
    intro s
    show rowsMatch [] (List.drop s.length s)
    rw [List.drop_length]
    trivial
  | cons x hist ih =>
    intro s
    rw [run_cons]
    show rowsMatch (events (add cfg s x).2 ++ eventsOf cfg (add cfg s x).1 hist) _
    have rp := rowsPreserved_run cfg hist (add cfg s x).1
    have ih' := ih (add cfg s x).1
    rcases add_shape cfg s x with ⟨e1, e2, _⟩ | ⟨r, s', e1, e2, e3, _⟩
    · rw [e2, List.nil_append]
      rw [e1] at ih' ⊢
      exact ih'
    · rw [e1]
      show rowsMatch (r :: eventsOf cfg (add cfg s x).1 hist) _
      have hlen : (add cfg s x).1.length = s.length + 1 := by rw [e2, List.length_append, e3]; rfl
      have hlt : s.length < (run cfg (add cfg s x).1 hist).length := by
        have := rp.1; omega
      rw [List.drop_eq_getElem_cons hlt]
      refine ⟨?_, ?_⟩
      · have k := rp.2 s.length (by omega) hlt
        have er : (add cfg s x).1[s.length]'(by omega) = r := by
          have h1 := getElem?_append_singleton s' r s.length e3
          rw [← e2] at h1
          rw [List.getElem?_eq_getElem (by omega)] at h1
          exact Option.some.inj h1
        rw [er] at k
        exact k
      · rw [hlen] at ih'
        exact ih'

/-- the number of events equals the number of rows appended -/
theorem eventsOf_length (cfg : Cfg H) (s : Store H) (hist : List (Src H)) :
    (eventsOf cfg s hist).length = (run cfg s hist).length - s.length := by
  rw [(eventsOf_match cfg hist s).length, List.length_drop]

end BHS.Chain
