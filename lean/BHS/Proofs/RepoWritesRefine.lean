/-
Refinement of the write path: the REGENERATED translation of `HeaderRepository.AddHeaderToDatabase` / `UpdateState` and of
`HeadersDb.Create` / `UpdateState` (BHS/Gen/RepoWrites.lean, produced by harness/cmd/extract/gen_repowrites.go on every
run) against the hand model's `Write.insert` / `Write.setState`, for every store, every argument and EVERY fault schedule
of the transactional store monad BHS/Model/TxM.lean. Main results (re-exported in BHS/Props/RepoWritesGen.lean):
`Gen_UpdateState_refines`, `Gen_AddHeaderToDatabase_refines`; the lemmas that depend on the generated text carry the name
of the property theorem they serve (`UpdateState_atomic.sql_layer`, `….repository_layer`, `AddHeaderToDatabase_atomic.…`). Core Lean only.
-/
import BHS.Model.TxM
import BHS.Gen.RepoWrites

set_option linter.unusedSectionVars false
set_option linter.unusedSimpArgs false

namespace BHS.TxM.Refine
open BHS BHS.Chain BHS.TxM BHS.Gen.RepoWrites
variable {H : Type} [DecidableEq H] [Inhabited H]

/-- a state of the run: committed store, committed transactions, open transaction, next id, calls made, schedule -/
abbrev mk (s : Store H) (cm : List (List (Write H))) (o : Option (Nat × List (Write H))) (n c : Nat) (sched : Nat → Bool) :
    TxState H := { store := s, committed := cm, open_ := o, nextId := n, calls := c, sched := sched }

/-! ### the primitives -/

local macro "tx_unfold" : tactic => `(tactic|
  simp [StateT.run, bind, StateT.bind, get, getThe, MonadStateOf.get, StateT.get, pure, StateT.pure, Except.pure,
    Except.bind, modify, modifyGet, MonadStateOf.modifyGet, StateT.modifyGet, deref, isOpen, dbCall, throw, throwThe,
    MonadExceptOf.throw, StateT.lift, liftM, monadLift, MonadLift.monadLift])

theorem txBegin_run (s : Store H) (cm : List (List (Write H))) (n c : Nat) (sched : Nat → Bool) :
    (txBegin (H := H)).run (mk s cm none n c sched) =
      pure (if sched c then ((none, some (.db "begin")), mk s cm none n (c + 1) sched)
        else ((some ⟨n⟩, none), mk s cm (some (n, [])) (n + 1) (c + 1) sched)) := by
  unfold txBegin
  cases h : sched c <;> tx_unfold <;> (try simp [h]) <;> (try rfl)

theorem txWrite_run (w : Write H) (s : Store H) (cm : List (List (Write H))) (id : Nat) (ws : List (Write H))
    (n c : Nat) (sched : Nat → Bool) :
    (txWrite (some ⟨id⟩) w).run (mk s cm (some (id, ws)) n c sched) =
      pure (if sched c then (((), some (.db "exec")), mk s cm (some (id, ws)) n (c + 1) sched)
        else (((), none), mk s cm (some (id, ws ++ [w])) n (c + 1) sched)) := by
  unfold txWrite
  cases h : sched c <;> tx_unfold <;> (try simp [h]) <;> (try rfl)

theorem txCommit_run (s : Store H) (cm : List (List (Write H))) (id : Nat) (ws : List (Write H))
    (n c : Nat) (sched : Nat → Bool) :
    (txCommit (some ⟨id⟩)).run (mk s cm (some (id, ws)) n c sched) =
      pure (if sched c then (some (.db "commit"), mk s cm none n (c + 1) sched)
        else (none, mk (applyWrites s ws) (cm ++ [ws]) none n (c + 1) sched)) := by
  unfold txCommit
  cases h : sched c <;> tx_unfold <;> (try simp [h]) <;> (try rfl)

/-- the deferred rollback of a transaction that is still open: it reaches the database and ends the transaction -/
theorem txRollback_open (s : Store H) (cm : List (List (Write H))) (id : Nat) (ws : List (Write H))
    (n c : Nat) (sched : Nat → Bool) :
    (txRollback (some ⟨id⟩)).run (mk s cm (some (id, ws)) n c sched) =
      pure (if sched c then some (.db "rollback") else none, mk s cm none n (c + 1) sched) := by
  unfold txRollback
  cases h : sched c <;> tx_unfold <;> (try simp [h]) <;> (try rfl)

/-- the deferred rollback after Commit (successful or not): sql.ErrTxDone, nothing reaches the database -/
theorem txRollback_done (s : Store H) (cm : List (List (Write H))) (id : Nat) (n c : Nat) (sched : Nat → Bool) :
    (txRollback (some ⟨id⟩)).run (mk s cm none n c sched) = pure (some .txDone, mk s cm none n c sched) := by
  unfold txRollback
  tx_unfold
  try rfl

theorem txNamedExec_run (r : Row H) (s : Store H) (cm : List (List (Write H))) (id : Nat) (ws : List (Write H))
    (n c : Nat) (sched : Nat → Bool) :
    (txNamedExec_sqlInsertHeader (some ⟨id⟩) r).run (mk s cm (some (id, ws)) n c sched) =
      pure (if sched c then (((), some (.db "exec")), mk s cm (some (id, ws)) n (c + 1) sched)
        else (((), none), mk s cm (some (id, ws ++ [.insert r])) n (c + 1) sched)) :=
  txWrite_run _ s cm id ws n c sched

theorem hashArgs_map (hs : List H) : hashArgs (hs.map SqlArg.hash) = some hs := by
  induction hs with
  | nil => rfl
  | cons h hs ih => simp [hashArgs, ih]

/-- the query sqlx.In builds for a non-empty list, executed with its arguments: the update of exactly these hashes -/
theorem txExec_in_run (st : St) (hs : List H) (hne : hs ≠ []) (s : Store H) (cm : List (List (Write H))) (id : Nat)
    (ws : List (Write H)) (n c : Nat) (sched : Nat → Bool) :
    (txExec (some ⟨id⟩) (sqlxIn_sqlUpdateState st hs).1 (sqlxIn_sqlUpdateState st hs).2.1).run
        (mk s cm (some (id, ws)) n c sched) =
      pure (if sched c then (((), some (.db "exec")), mk s cm (some (id, ws)) n (c + 1) sched)
        else (((), none), mk s cm (some (id, ws ++ [.setState hs st])) n (c + 1) sched)) := by
  have hpos : hs.length > 0 := List.length_pos_iff.2 hne
  cases hs with
  | nil => exact absurd rfl hne
  | cons h hs =>
    simp only [sqlxIn_sqlUpdateState, List.isEmpty_cons, Bool.false_eq_true, ↓reduceIte, txExec, hashArgs_map]
    simp only [beq_self_eq_true, Bool.true_and, decide_eq_true hpos, ↓reduceIte, Bool.and_self]
    exact txWrite_run _ s cm id ws n c sched

/-! ### database/sql/headers.go -/

/-- the outcome of one transaction `begin; exec w; commit` started at call index `c`:
    (error, committed?, database calls made) -/
def txOutcome (sched : Nat → Bool) (c : Nat) : Option Err × Bool × Nat :=
  if sched c then (some (.db "begin"), false, 1)
  else if sched (c + 1) then (some (.wrap (.db "exec")), false, 3)
  else if sched (c + 2) then (some (.wrap (.db "commit")), false, 3)
  else (none, true, 3)

theorem AddHeaderToDatabase_atomic.sql_layer (r : Row H) (s : Store H) (cm : List (List (Write H))) (n c : Nat) (sched : Nat → Bool) :
    (HeadersDb_Create r).run (mk s cm none n c sched) =
      pure ((txOutcome sched c).1,
        if (txOutcome sched c).2.1
        then mk (applyWrites s [.insert r]) (cm ++ [[.insert r]]) none (n + 1) (c + 3) sched
        else mk s cm none (if sched c then n else n + 1) (c + (txOutcome sched c).2.2) sched) := by
  unfold HeadersDb_Create deferred txOutcome
  simp only [StateT.run_bind, txBegin_run]
  cases h0 : sched c
  · simp only [Bool.false_eq_true, ↓reduceIte, pure_bind, Option.isSome_none, StateT.run_bind, txNamedExec_run]
    cases h1 : sched (c + 1)
    · simp only [Bool.false_eq_true, ↓reduceIte, pure_bind, Option.isSome_none, StateT.run_bind, txCommit_run,
        List.nil_append]
      cases h2 : sched (c + 2) <;>
        simp [errorsWrap, txRollback_done]
    · simp [errorsWrap, txRollback_open]
  · simp

theorem UpdateState_atomic.sql_layer (hs : List H) (st : St) (hne : hs ≠ []) (s : Store H) (cm : List (List (Write H)))
    (n c : Nat) (sched : Nat → Bool) :
    (HeadersDb_UpdateState hs st).run (mk s cm none n c sched) =
      pure ((txOutcome sched c).1,
        if (txOutcome sched c).2.1
        then mk (applyWrites s [.setState hs st]) (cm ++ [[.setState hs st]]) none (n + 1) (c + 3) sched
        else mk s cm none (if sched c then n else n + 1)
          (c + (txOutcome sched c).2.2) sched) := by
  have hin : (sqlxIn_sqlUpdateState st hs).2.2 = none := by
    cases hs with
    | nil => exact absurd rfl hne
    | cons _ _ => rfl
  unfold HeadersDb_UpdateState deferred txOutcome
  simp only [StateT.run_bind, txBegin_run]
  cases h0 : sched c
  · simp only [Bool.false_eq_true, ↓reduceIte, pure_bind, Option.isSome_none, StateT.run_bind, hin,
      txExec_in_run st hs hne]
    cases h1 : sched (c + 1)
    · simp only [Bool.false_eq_true, ↓reduceIte, pure_bind, Option.isSome_none, StateT.run_bind, txCommit_run,
        List.nil_append]
      cases h2 : sched (c + 2) <;>
        simp [errorsWrap, txRollback_done]
    · simp [errorsWrap, txRollback_open]
  · simp

/-- the empty list: sqlx.In refuses it, nothing is written (the transaction is rolled back by the deferred call) -/
theorem UpdateState_atomic.sql_layer_nil (st : St) (s : Store H) (cm : List (List (Write H))) (n c : Nat) (sched : Nat → Bool) :
    (HeadersDb_UpdateState ([] : List H) st).run (mk s cm none n c sched) =
      pure (if sched c then (some (.db "begin"), mk s cm none n (c + 1) sched)
        else (some (.wrap .emptyIn), mk s cm none (n + 1) (c + 2) sched)) := by
  unfold HeadersDb_UpdateState deferred
  simp only [StateT.run_bind, txBegin_run]
  cases h0 : sched c
  · simp [errorsWrap, sqlxIn_sqlUpdateState, txRollback_open]
  · simp

/-! ### loops -/

theorem forIn_map_yield {α β γ : Type} (e : γ → α) (l : List γ) (P : β → Prop) (b : β)
    (body : α → β → TxM H (ForInStep β)) (g : β → γ → β)
    (hP : P b) (hg : ∀ b c, c ∈ l → P b → P (g b c))
    (hb : ∀ c b, c ∈ l → P b → body (e c) b = pure (.yield (g b c))) :
    forIn (l.map e) b body = pure (l.foldl g b) := by
  induction l generalizing b with
  | nil => rfl
  | cons a l ih =>
    simp only [List.map_cons, List.forIn_cons, List.foldl_cons]
    rw [hb a b (List.mem_cons_self) hP]
    simp only [pure_bind]
    exact ih (g b a) (hg b a (List.mem_cons_self) hP) (fun b c hc => hg b c (List.mem_cons_of_mem _ hc))
      (fun c b hc => hb c b (List.mem_cons_of_mem _ hc))

theorem foldl_set_zipIdx {α : Type} (l : List α) (pre mid suf : List α) (hm : mid.length = l.length) :
    (l.zipIdx pre.length).foldl (fun hs (c : α × Nat) => hs.set c.2 c.1) (pre ++ mid ++ suf) = pre ++ l ++ suf := by
  induction l generalizing pre mid with
  | nil =>
    cases mid with
    | nil => rfl
    | cons _ _ => cases hm
  | cons a l ih =>
    cases mid with
    | nil => cases hm
    | cons m mid =>
      simp only [List.zipIdx_cons, List.foldl_cons]
      have e : (pre ++ m :: mid ++ suf).set pre.length a = (pre ++ [a]) ++ mid ++ suf := by simp
      have e2 : pre.length + 1 = (pre ++ [a]).length := by simp
      rw [e, e2, ih (pre ++ [a]) mid (by simpa using hm)]
      simp

/-- the loop of HeaderRepository.UpdateState that renders the hashes: a copy -/
theorem copy_loop (l : List H) (body : H × Nat → List H → TxM H (ForInStep (List H)))
    (hb : ∀ (c : H × Nat) (hs : List H), c ∈ l.zipIdx → hs.length = l.length →
      body c hs = pure (.yield (hs.set c.2 c.1))) :
    forIn l.zipIdx (List.replicate l.length (default : H)) body = pure l := by
  have := forIn_map_yield (H := H) id l.zipIdx (fun hs : List H => hs.length = l.length)
    (List.replicate l.length default) body (fun hs c => hs.set c.2 c.1) (by simp)
    (by intro b c _ hb; simpa using hb) (by intro c b hc hP; exact hb c b hc hP)
  rw [List.map_id] at this
  rw [this]
  have h2 := foldl_set_zipIdx l [] (List.replicate l.length default) [] (by simp)
  simp only [List.nil_append, List.append_nil, List.length_nil] at h2
  rw [h2]

/-! ### database/repository/header_repository.go -/

/-- what a run started in a fresh connection state observes -/
theorem observe_eq {s : Store H} {c : Nat} {sched : Nat → Bool} {m : TxM H (Option Err)} {e : Option Err} {st : TxState H}
    (h : m.run (mk s [] none 0 c sched) = pure (e, st)) :
    observe s c sched m = .ok (e, st.store, st.committed, st.calls) := by
  unfold observe start
  have h' : m.run { store := s, calls := c, sched := sched } = pure (e, st) := h
  rw [h']
  rfl

theorem UpdateState_atomic.repository_layer (hashes : List H) (st : St) :
    HeaderRepository_UpdateState hashes st = HeadersDb_UpdateState hashes st := by
  unfold HeaderRepository_UpdateState
  dsimp only
  rw [copy_loop hashes _ (by
    intro c hs hc hl
    have hi : c.2 < hs.length := by rw [hl]; exact (List.mem_zipIdx' hc).1
    simp [setIndex, hi])]
  simp

theorem AddHeaderToDatabase_atomic.repository_layer (r : Row H) :
    HeaderRepository_AddHeaderToDatabase r = HeadersDb_Create r := by
  unfold HeaderRepository_AddHeaderToDatabase toDbBlockHeader
  simp

/-- FULL STATEMENT: `HeaderRepository.UpdateState` with a non-empty hash list, from every store, at every position `c` of
    every fault schedule: one transaction `begin; update; commit` over the calls `c, c+1, c+2`. If none of the three fails
    it returns nil, the store is the hand model's `Write.setState` applied once and exactly that transaction is
    committed; if one fails it returns the (wrapped) error of the first failing call and the store is unchanged. -/
theorem Gen_UpdateState_refines (s : Store H) (c : Nat) (sched : Nat → Bool) (hashes : List H) (st : St)
    (hne : hashes ≠ []) :
    observe s c sched (HeaderRepository_UpdateState hashes st) = .ok (
      (txOutcome sched c).1,
      (if (txOutcome sched c).2.1 then applyWrite s (.setState hashes st) else s),
      (if (txOutcome sched c).2.1 then [[.setState hashes st]] else []),
      c + (txOutcome sched c).2.2) := by
  rw [UpdateState_atomic.repository_layer, observe_eq (UpdateState_atomic.sql_layer hashes st hne s [] 0 c sched)]
  unfold txOutcome
  cases sched c <;> cases sched (c + 1) <;> cases sched (c + 2) <;> simp [applyWrites]

/-- the empty hash list (never passed by `switchChainsStates` since the fix d436b56: both calls are guarded by
    `len(…) > 0`): sqlx.In refuses it, an error is returned and nothing is written -/
theorem Gen_UpdateState_nil (s : Store H) (c : Nat) (sched : Nat → Bool) (st : St) :
    observe s c sched (HeaderRepository_UpdateState ([] : List H) st) = .ok (
      if sched c then (some (.db "begin"), s, [], c + 1)
      else (some (.wrap .emptyIn), s, [], c + 2)) := by
  rw [UpdateState_atomic.repository_layer]
  have h := UpdateState_atomic.sql_layer_nil st s [] 0 c sched
  cases hc : sched c <;> rw [hc] at h <;> simp only [Bool.false_eq_true, ↓reduceIte] at h <;> rw [observe_eq h] <;> rfl

/-- FULL STATEMENT for the insert -/
theorem Gen_AddHeaderToDatabase_refines (s : Store H) (c : Nat) (sched : Nat → Bool) (r : Row H) :
    observe s c sched (HeaderRepository_AddHeaderToDatabase r) = .ok (
      (txOutcome sched c).1,
      (if (txOutcome sched c).2.1 then applyWrite s (.insert r) else s),
      (if (txOutcome sched c).2.1 then [[.insert r]] else []),
      c + (txOutcome sched c).2.2) := by
  rw [AddHeaderToDatabase_atomic.repository_layer, observe_eq (AddHeaderToDatabase_atomic.sql_layer r s [] 0 c sched)]
  unfold txOutcome
  cases sched c <;> cases sched (c + 1) <;> cases sched (c + 2) <;> simp [applyWrites]

/-! ### a sequence of writes, as `Chains.Add` issues them: one after the other, stopping at the first error -/

/-- the generated function that performs one write of the hand model -/
def genWrite (w : Write H) : TxM H (Option Err) :=
  match w with
  | .setState hs st => HeaderRepository_UpdateState hs st
  | .insert r => HeaderRepository_AddHeaderToDatabase r

/-- issue the writes in order through the generated write path; stop at the first error (what `Add` does,
    `Gen_add_fault_refines`) -/
def genWrites : List (Write H) → TxM H (Option Err)
  | [] => pure none
  | w :: ws => do
    let e ← genWrite w
    if e.isSome then return e
    genWrites ws

/-- does the transaction that starts at call index `c` fail (one of its calls begin / exec / commit)? -/
def txFails (sched : Nat → Bool) (c : Nat) : Bool := sched c || sched (c + 1) || sched (c + 2)

/-- the number of leading transactions, out of `n` starting at call index `c`, that go through -/
def okPrefix (sched : Nat → Bool) : Nat → Nat → Nat
  | _, 0 => 0
  | c, n + 1 => if txFails sched c then 0 else 1 + okPrefix sched (c + 3) n

theorem okPrefix_le (sched : Nat → Bool) : ∀ (c n : Nat), okPrefix sched c n ≤ n := by
  intro c n
  induction n generalizing c with
  | zero => exact Nat.le_refl _
  | succ n ih => unfold okPrefix; split; exact Nat.zero_le _; have := ih (c + 3); omega

/-- a write the hand model can issue: a state update names at least one hash -/
def WriteOk (w : Write H) : Prop :=
  match w with
  | .setState hs _ => hs ≠ []
  | .insert _ => True

theorem genWrite_run (w : Write H) (hw : WriteOk w) (s : Store H) (cm : List (List (Write H))) (n c : Nat)
    (sched : Nat → Bool) :
    ∃ e n' k, (genWrite w).run (mk s cm none n c sched) = pure (e,
        if txFails sched c then mk s cm none n' (c + k) sched
        else mk (applyWrite s w) (cm ++ [[w]]) none n' (c + 3) sched) ∧
      (e.isSome = txFails sched c) := by
  cases w with
  | setState hs st =>
    refine ⟨(txOutcome sched c).1, if sched c then n else n + 1,
      (txOutcome sched c).2.2, ?_, ?_⟩
    · show (HeaderRepository_UpdateState hs st).run _ = _
      rw [UpdateState_atomic.repository_layer, UpdateState_atomic.sql_layer hs st hw]
      unfold txOutcome txFails
      cases h0 : sched c <;> cases h1 : sched (c + 1) <;> cases h2 : sched (c + 2) <;> simp [applyWrites] <;> rfl
    · unfold txOutcome txFails
      cases sched c <;> cases sched (c + 1) <;> cases sched (c + 2) <;> rfl
  | insert r =>
    refine ⟨(txOutcome sched c).1, if sched c then n else n + 1,
      (txOutcome sched c).2.2, ?_, ?_⟩
    · show (HeaderRepository_AddHeaderToDatabase r).run _ = _
      rw [AddHeaderToDatabase_atomic.repository_layer, AddHeaderToDatabase_atomic.sql_layer r]
      unfold txOutcome txFails
      cases h0 : sched c <;> cases h1 : sched (c + 1) <;> cases h2 : sched (c + 2) <;> simp [applyWrites] <;> rfl
    · unfold txOutcome txFails
      cases sched c <;> cases sched (c + 1) <;> cases sched (c + 2) <;> rfl

theorem genWrites_run (sched : Nat → Bool) : ∀ (ws : List (Write H)), (∀ w ∈ ws, WriteOk w) →
    ∀ (s : Store H) (cm : List (List (Write H))) (n c : Nat),
    ∃ e st, (genWrites ws).run (mk s cm none n c sched) = pure (e, st) ∧
      st.store = applyWrites s (ws.take (okPrefix sched c ws.length)) ∧
      st.committed = cm ++ (ws.take (okPrefix sched c ws.length)).map ([·]) ∧
      (e.isSome = decide (okPrefix sched c ws.length < ws.length)) := by
  intro ws
  induction ws with
  | nil => intro _ s cm n c; exact ⟨none, _, rfl, rfl, by simp, rfl⟩
  | cons w ws ih =>
    intro hok s cm n c
    obtain ⟨e, n', k, hrun, he⟩ := genWrite_run w (hok w List.mem_cons_self) s cm n c sched
    unfold genWrites
    simp only [StateT.run_bind, hrun, pure_bind, List.length_cons, okPrefix]
    cases hf : txFails sched c
    · rw [hf] at he
      have he' : e = none := by cases e <;> simp_all
      subst he'
      simp only [Bool.false_eq_true, ↓reduceIte, Option.isSome_none]
      obtain ⟨e2, st2, h2, hs2, hc2, he2⟩ := ih (fun w hw => hok w (List.mem_cons_of_mem _ hw)) (applyWrite s w)
        (cm ++ [[w]]) n' (c + 3)
      refine ⟨e2, st2, h2, ?_, ?_, ?_⟩
      · rw [hs2, Nat.add_comm 1, List.take_succ_cons]; rfl
      · rw [hc2, Nat.add_comm 1, List.take_succ_cons]; simp
      · rw [he2]; simp only [decide_eq_decide]; omega
    · rw [hf] at he
      cases e with
      | none => simp at he
      | some e =>
        simp only [↓reduceIte, Option.isSome_some, StateT.run_pure]
        exact ⟨some e, _, rfl, by simp [applyWrites], by simp, by simp⟩

end BHS.TxM.Refine
