/-
Vocabulary and helper lemmas for Props/HookSvcGen.lean (the regenerated webhook code of C12 refines the hand model
BHS/Model/Hooks.lean): how a result of the translated Go functions is read in the hand model's terms, and what the
primitives of BHS/Model/HookSvcPrim.lean compute on the shapes the regenerated module uses them on (a loop that
collects, a loop over the loaded hooks, the header map). Core Lean only. Nothing here mentions a generated function.
-/
import BHS.Model.HookSvcPrim
import BHS.Proofs.Hooks

set_option linter.unusedSimpArgs false

namespace BHS.Proofs.HookSvcGen
open BHS.Model.Hooks BHS.HookSvcPrim

/-! ### reading the Go values in the hand model's terms -/

/-- `DbWebhook.ToWebhook` as the Go text has it: every column copied, `MaxTries` left at Go's zero value
    (the hand model's `toWebhook` already carries the threshold `WebhooksService.Notify` puts there afterwards) -/
def rawHook (r : Row) : Hook :=
  { url := r.url, tokenHeader := r.tokenHeader, token := r.token, lastStatus := r.lastStatus, lastAt := r.lastAt,
    errors := r.errors, active := r.active, maxTries := 0 }

def codeOfName (n : String) : Option BHS.Model.Hooks.Err :=
  if n = "ErrRefreshWebhook" then some .refreshWebhook
  else if n = "ErrWebhookNotFound" then some .webhookNotFound
  else none

/-- what a caller of the service sees of an `error`: the code of the outermost bhserrors value
    (`none`: an error the hand model has no constructor for — a storage failure) -/
def codeOf : GoErr → Option BHS.Model.Hooks.Err
  | .bhs n => codeOfName n
  | .bhsWrap n _ => codeOfName n
  | _ => none

/-- the answer `(webhook, error)` of a service method as the endpoint's reply (`none`: no counterpart in the hand model) -/
def replyOf : Option Hook × Option GoErr → Option Reply
  | (some w, none) => some (.ok (report w))
  | (none, none) => none
  | (_, some e) => (codeOf e).map .refused

/-- the answer `error` of `DeleteWebhook` as the endpoint's reply -/
def doneOf : Option GoErr → Option Reply
  | none => some .done
  | some e => (codeOf e).map .refused

/-- `strings.ToLower(authType) == "bearer"` -/
def kindOf (authType : String) : AuthKind := if stringsToLower authType = "bearer" then .bearer else .other

/-- the header map `Webhook.Notify` hands to the client for a call of the hand model: the constant Content-Type entry,
    plus the authorisation entry when it has a name -/
def wireHeaders (c : Call) : List (String × String) :=
  if c.name = "" then [("Content-Type", "application/json")]
  else mapSet [("Content-Type", "application/json")] c.name c.value

/-- an attempt of the hand model as the client sees it -/
def wire (a : Attempt) : Wire :=
  { headers := wireHeaders a.call, method := "POST", url := a.call.url, posted := a.posted, seen := a.seen }

/-- the `error` `Webhook.Notify` returns for an outcome -/
def notifyErr : Outcome → Option GoErr
  | .reply _ _ => none
  | .transportErr => some .transport
  | .unreadableBody _ => some .bodyRead

/-- what one pass of the loop body of `WebhooksService.Notify` does for the hook loaded from row `r` (hand model:
    one unfolding of `notifyLoop`) -/
def bodyWorld (env : Env) (r : Row) (t : List Row) (log : List Wire) : World :=
  if r.active then
    ⟨repoUpdate t (afterOutcome (toWebhook env.cfg.maxTries r) env.now (attempt env.cfg env.out (toWebhook env.cfg.maxTries r)).seen),
     none, log ++ [wire (attempt env.cfg env.out (toWebhook env.cfg.maxTries r))]⟩
  else ⟨t, none, log⟩

/-! ### header map -/

theorem mapSet_ct_names (k v : String) (hk : k ≠ "") :
    headerNamesOk (mapSet [("Content-Type", "application/json")] k v) = true := by
  by_cases h : "Content-Type" = k
  · subst h; simp [mapSet, headerNamesOk]
  · simp [mapSet, headerNamesOk, h, hk]

/-- the header map built by assignment instead of by a literal -/
theorem mapSet_nil (k v : String) : mapSet [] k v = [(k, v)] := by simp [mapSet]

theorem ct_names : headerNamesOk [("Content-Type", "application/json")] = true := by decide

/-- the hand model's attempt (its client lets every header name of the service through, switch (ii)) -/
theorem attempt_eq (cfg : Cfg) (out : String → Outcome) (h : Hook) :
    attempt cfg out h = { call := ⟨h.url, h.tokenHeader, h.token⟩, posted := true, seen := out h.url } := by
  simp [attempt, wireAccepts, emptyHeaderNameSkipped]

/-- the hook the service works on after `webhook.MaxTries = s.cfg.MaxTries` is the hand model's `toWebhook` -/
theorem rawHook_maxTries (m : Nat) (r : Row) : ({ rawHook r with maxTries := m } : Hook) = toWebhook m r := by
  simp [rawHook, toWebhook, toWebhookMapsLastEmit, restoredMaxTries]

/-! ### loops -/

/-- a loop whose body only appends `g x` to the accumulator -/
theorem forRange_collect {α β : Type} (g : α → β) (f : α → List β → HookM (List β)) (xs : List α)
    (hf : ∀ x ∈ xs, ∀ acc w, f x acc w = .ok (acc ++ [g x], w)) (acc : List β) (w : World) :
    forRange xs acc f w = .ok (acc ++ xs.map g, w) := by
  induction xs generalizing acc with
  | nil => simp [forRange, pure, StateT.pure, Except.pure]
  | cons x xs ih =>
    simp [forRange, bind, StateT.bind, Except.bind, hf x List.mem_cons_self, ih (fun y hy => hf y (List.mem_cons_of_mem _ hy))]

/-- a loop over the loaded hooks whose body does, per hook, what one unfolding of the hand model's `notifyLoop` does:
    it IS `notifyLoop` (table and attempts), whatever the order of the statements inside the body -/
theorem forRange_notify (env : Env) (f : Option Hook → Unit → HookM Unit)
    (hf : ∀ r t log, f (some (rawHook r)) () ⟨t, none, log⟩ = .ok ((), bodyWorld env r t log))
    (rows : List Row) (t : List Row) (base : List Wire) (as : List Attempt) :
    forRange (rows.map (fun r => some (rawHook r))) () f ⟨t, none, base ++ as.map wire⟩ =
      .ok ((), ⟨(notifyLoop env.cfg env.out env.now (rows.map (toWebhook env.cfg.maxTries)) (t, as)).1, none,
                base ++ (notifyLoop env.cfg env.out env.now (rows.map (toWebhook env.cfg.maxTries)) (t, as)).2.map wire⟩) := by
  induction rows generalizing t as with
  | nil => simp [forRange, notifyLoop, pure, StateT.pure, Except.pure]
  | cons r rows ih =>
    by_cases ha : r.active = true
    · have := ih (repoUpdate t (afterOutcome (toWebhook env.cfg.maxTries r) env.now (attempt env.cfg env.out (toWebhook env.cfg.maxTries r)).seen))
        (as ++ [attempt env.cfg env.out (toWebhook env.cfg.maxTries r)])
      simp only [List.map_cons, forRange, bind, StateT.bind, Except.bind, hf, notifyLoop, BHS.Proofs.Hooks.toWebhook_active,
        bodyWorld, ha, if_true]
      simpa [List.map_append, List.append_assoc] using this
    · simp only [List.map_cons, forRange, bind, StateT.bind, Except.bind, hf, notifyLoop, BHS.Proofs.Hooks.toWebhook_active,
        bodyWorld, ha, if_false]
      exact ih t as

theorem forRange_notify0 (env : Env) (f : Option Hook → Unit → HookM Unit) (rows : List Row) (t : List Row)
    (hf : ∀ r t log, f (some (rawHook r)) () ⟨t, none, log⟩ = .ok ((), bodyWorld env r t log)) :
    forRange (rows.map (fun r => some (rawHook r))) () f ⟨t, none, []⟩ =
      .ok ((), ⟨(notifyLoop env.cfg env.out env.now (rows.map (toWebhook env.cfg.maxTries)) (t, [])).1, none,
                (notifyLoop env.cfg env.out env.now (rows.map (toWebhook env.cfg.maxTries)) (t, [])).2.map wire⟩) := by
  simpa using forRange_notify env f hf rows t [] []

end BHS.Proofs.HookSvcGen
