/-
Helper lemmas about bit masks on `Nat` (used by Props/C19). Core Lean only.
-/
namespace BHS.Proofs

theorem and_mask (n k w : Nat) : n &&& ((2^w - 1) <<< k) = (((n >>> k) % 2^w) <<< k) := by
  apply Nat.eq_of_testBit_eq
  intro i
  simp only [Nat.testBit_and, Nat.testBit_shiftLeft, Nat.testBit_two_pow_sub_one, Nat.testBit_mod_two_pow, Nat.testBit_shiftRight]
  by_cases h : k ≤ i
  · simp [h]
    by_cases h2 : i - k < w <;> simp [h2]
  · simp [h]

theorem mask_ne_zero (n k w : Nat) (hn : n < 2^(k+w)) : (n &&& ((2^w - 1) <<< k) ≠ 0) ↔ 2^k ≤ n := by
  rw [and_mask]
  have h1 : (n >>> k) < 2^w := by
    rw [Nat.shiftRight_eq_div_pow]
    apply Nat.div_lt_of_lt_mul
    rwa [← Nat.pow_add]
  rw [Nat.mod_eq_of_lt h1, Nat.shiftLeft_eq, Nat.shiftRight_eq_div_pow]
  have hp : 0 < 2^k := Nat.two_pow_pos k
  constructor
  · intro h
    by_cases hlt : n < 2^k
    · rw [Nat.div_eq_of_lt hlt] at h; simp at h
    · omega
  · intro h hz
    have : 0 < n / 2^k := Nat.div_pos h hp
    have := Nat.mul_pos this hp
    omega

theorem m1 (x : Nat) (h : x < 4294967296) : ((x &&& 4294901760 != 0) = true) ↔ 65536 ≤ x := by
  have := mask_ne_zero x 16 16 (by simpa using h); simpa using this
theorem m2 (x : Nat) (h : x < 65536) : ((x &&& 65280 != 0) = true) ↔ 256 ≤ x := by
  have := mask_ne_zero x 8 8 (by simpa using h); simpa using this
theorem m3 (x : Nat) (h : x < 256) : ((x &&& 240 != 0) = true) ↔ 16 ≤ x := by
  have := mask_ne_zero x 4 4 (by simpa using h); simpa using this
theorem m4 (x : Nat) (h : x < 16) : ((x &&& 12 != 0) = true) ↔ 4 ≤ x := by
  have := mask_ne_zero x 2 2 (by simpa using h); simpa using this
theorem m5 (x : Nat) (h : x < 4) : ((x &&& 2 != 0) = true) ↔ 2 ≤ x := by
  have := mask_ne_zero x 1 1 (by simpa using h); simpa using this

theorem sign_bit (b : Nat) : ((b &&& 8388608 != 0) = true) ↔ (b / 2^23) % 2 = 1 := by
  have h := and_mask b 23 1
  simp only [Nat.shiftRight_eq_div_pow, Nat.shiftLeft_eq, Nat.reducePow, Nat.reduceSub, Nat.one_mul] at h
  rw [bne_iff_ne, ne_eq, h]
  have := Nat.mod_two_eq_zero_or_one (b / 8388608)
  simp only [Nat.reducePow]
  omega

end BHS.Proofs
