/-
Helper lemmas for C11 (3/3): the fan-out model `BHS.Notify` (Model/Notify.lean).
The invariant `Owed`: for every registered channel, what was delivered plus what is still pending is a
permutation of what was ingested; nothing exists for unregistered channel indices.
Core Lean only.
-/
import BHS.Model.Notify

set_option linter.unusedSectionVars false

namespace BHS.Notify
variable {E : Type} [DecidableEq E]

/-! ### list facts -/

theorem filter_erase_of_false {α : Type} [BEq α] [LawfulBEq α] (p : α → Bool) (a : α) (h : p a = false) :
    ∀ l : List α, (l.erase a).filter p = l.filter p := by
  intro l
  induction l with
  | nil => rfl
  | cons b l ih =>
    rw [List.erase_cons]
    by_cases hb : b = a
    · subst hb
      simp [h]
    · have : (b == a) = false := by simpa using hb
      rw [this]
      simp only [Bool.false_eq_true, if_false, List.filter_cons, ih]

theorem filter_spawn (n : Nat) (e : E) (c : Nat) :
    (spawn n e).filter (fun p => p.1 == c) = if c < n then [(c, e)] else [] := by
  unfold spawn
  induction n with
  | zero => simp
  | succ n ih =>
    rw [List.range_succ, List.map_append, List.filter_append, ih]
    by_cases h1 : c < n
    · have : (n == c) = false := by simp; omega
      simp [h1, this, Nat.lt_succ_of_lt h1]
    · by_cases h2 : c = n
      · subst h2; simp
      · have : (n == c) = false := by simp; omega
        have h3 : ¬ c < n + 1 := by omega
        simp [h1, this, h3]

theorem mem_pendingFor {σ : State E} {c : Nat} {e : E} : e ∈ pendingFor σ c ↔ (c, e) ∈ σ.pending := by
  unfold pendingFor
  constructor
  · intro h
    obtain ⟨p, hp, rfl⟩ := List.mem_map.1 h
    obtain ⟨hp1, hp2⟩ := List.mem_filter.1 hp
    have : p.1 = c := by simpa using hp2
    subst this
    exact hp1
  · intro h
    exact List.mem_map.2 ⟨(c, e), List.mem_filter.2 ⟨h, by simp⟩, rfl⟩

/-! ### the effect of one step on what a channel sees -/

theorem pendingFor_ingest (n : Nat) (σ : State E) (e : E) (c : Nat) :
    pendingFor (apply n σ (.ingest e)) c = pendingFor σ c ++ (if c < n then [e] else []) := by
  unfold pendingFor apply
  simp only [List.filter_append, List.map_append, filter_spawn]
  split <;> rfl

theorem pendingFor_deliver_other (n : Nat) (σ : State E) (c : Nat) (e : E) (c' : Nat) (h : c' ≠ c) :
    pendingFor (apply n σ (.deliver c e)) c' = pendingFor σ c' := by
  unfold pendingFor apply
  simp only []
  rw [filter_erase_of_false]
  simpa using fun k => h k.symm

theorem pendingFor_deliver_same (n : Nat) (σ : State E) (c : Nat) (e : E) (h : (c, e) ∈ σ.pending) :
    (pendingFor σ c).Perm (e :: pendingFor (apply n σ (.deliver c e)) c) := by
  unfold pendingFor apply
  simp only []
  have p1 := ((List.perm_cons_erase h).filter (fun p => p.1 == c)).map (·.2)
  rw [List.filter_cons] at p1
  simpa using p1

theorem delivered_deliver (n : Nat) (σ : State E) (c : Nat) (e : E) (c' : Nat) :
    (apply n σ (.deliver c e)).delivered c' = if c' = c then σ.delivered c ++ [e] else σ.delivered c' := rfl

theorem enabled_deliver {bl : List Nat} {σ : State E} {c : Nat} {e : E}
    (h : enabled bl σ (.deliver c e) = true) : (c, e) ∈ σ.pending ∧ c ∉ bl := by
  simpa [enabled] using h

/-- enabledness of a delivery on channel `c` in terms of what channel `c` alone sees -/
theorem enabled_deliver_eq (bl : List Nat) (σ : State E) (c : Nat) (e : E) :
    enabled bl σ (.deliver c e) = (decide (e ∈ pendingFor σ c) && !(decide (c ∈ bl))) := by
  unfold enabled
  simp only [mem_pendingFor]

/-! ### the invariant -/

/-- exactly one task per ingested event per registered channel: delivered ++ pending is a permutation of
    ingested; nothing for unregistered indices -/
def Owed (n : Nat) (σ : State E) : Prop :=
  (∀ c, c < n → (σ.delivered c ++ pendingFor σ c).Perm σ.ingested) ∧
  (∀ c, n ≤ c → σ.delivered c = [] ∧ pendingFor σ c = [])

theorem Owed.init (n : Nat) : Owed n (init : State E) :=
  ⟨fun _ _ => List.Perm.refl _, fun _ _ => ⟨rfl, rfl⟩⟩

theorem Owed.apply_ingest {n : Nat} {σ : State E} (h : Owed n σ) (e : E) : Owed n (apply n σ (.ingest e)) := by
  refine ⟨?_, ?_⟩
  · intro c hc
    rw [pendingFor_ingest, if_pos hc, ← List.append_assoc]
    exact (h.1 c hc).append_right [e]
  · intro c hc
    rw [pendingFor_ingest, if_neg (by omega), List.append_nil]
    exact h.2 c hc

theorem Owed.apply_deliver {n : Nat} {σ : State E} (h : Owed n σ) {c : Nat} {e : E}
    (hp : (c, e) ∈ σ.pending) : Owed n (apply n σ (.deliver c e)) := by
  have hcn : c < n := by
    apply Nat.lt_of_not_le
    intro hle
    have := (h.2 c hle).2
    have hm := mem_pendingFor.2 hp
    rw [this] at hm
    cases hm
  refine ⟨?_, ?_⟩
  · intro c' hc'
    rw [delivered_deliver]
    by_cases e1 : c' = c
    · subst e1
      rw [if_pos rfl]
      show ((σ.delivered c' ++ [e]) ++ _).Perm σ.ingested
      rw [List.append_assoc]
      refine List.Perm.trans ?_ (h.1 c' hc')
      exact List.Perm.append_left _ (pendingFor_deliver_same n σ c' e hp).symm
    · rw [if_neg e1, pendingFor_deliver_other n σ c e c' e1]
      exact h.1 c' hc'
  · intro c' hc'
    have e1 : c' ≠ c := by omega
    rw [delivered_deliver, if_neg e1, pendingFor_deliver_other n σ c e c' e1]
    exact h.2 c' hc'

theorem Owed.step {n : Nat} {σ : State E} (h : Owed n σ) (bs : List Nat × Step E) : Owed n (step n σ bs) := by
  unfold BHS.Notify.step
  split
  · rename_i he
    obtain ⟨bl, st⟩ := bs
    cases st with
    | ingest e => exact h.apply_ingest e
    | deliver c e => exact h.apply_deliver (enabled_deliver he).1
  · exact h

theorem exec_cons (n : Nat) (σ : State E) (bs : List Nat × Step E) (sched : List (List Nat × Step E)) :
    exec n σ (bs :: sched) = exec n (step n σ bs) sched := rfl

theorem Owed.exec {n : Nat} (sched : List (List Nat × Step E)) :
    ∀ {σ : State E}, Owed n σ → Owed n (exec n σ sched) := by
  induction sched with
  | nil => intro σ h; exact h
  | cons bs sched ih => intro σ h; rw [exec_cons]; exact ih (h.step bs)

/-! ### ingestion never waits -/

theorem step_ingested (n : Nat) (σ : State E) (bs : List Nat × Step E) :
    (step n σ bs).ingested = σ.ingested ++ ingestsOf [bs] := by
  obtain ⟨bl, st⟩ := bs
  cases st with
  | ingest e => rfl
  | deliver c e =>
    unfold step
    split
    · show σ.ingested = σ.ingested ++ []
      rw [List.append_nil]
    · show σ.ingested = σ.ingested ++ []
      rw [List.append_nil]

theorem ingestsOf_cons (bs : List Nat × Step E) (sched : List (List Nat × Step E)) :
    ingestsOf (bs :: sched) = ingestsOf [bs] ++ ingestsOf sched := by
  unfold ingestsOf
  rw [← List.filterMap_append]
  rfl

theorem exec_ingested (n : Nat) (sched : List (List Nat × Step E)) :
    ∀ σ : State E, (exec n σ sched).ingested = σ.ingested ++ ingestsOf sched := by
  induction sched with
  | nil => intro σ; exact (List.append_nil _).symm
  | cons bs sched ih =>
    intro σ
    rw [exec_cons, ih, step_ingested, List.append_assoc, ← ingestsOf_cons]

/-! ### channels do not interfere -/

theorem view_deliver_other (n : Nat) (σ : State E) (bl : List Nat) (c : Nat) (e : E) (b : Nat) (h : b ≠ c) :
    view (step n σ (bl, .deliver c e)) b = view σ b := by
  unfold step
  split
  · unfold view
    rw [pendingFor_deliver_other n σ c e b h, delivered_deliver, if_neg h]
    rfl
  · rfl

end BHS.Notify
