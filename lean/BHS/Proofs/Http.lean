/-
Helper lemmas for C16: facts about `atoi` (strconv.Atoi), about `List.mapM` in `Option`, and about when
`GetCommonAncestor` panics or returns `nil, nil`. Core Lean only.
-/
import BHS.Model.Http

namespace BHS.Http
open BHS BHS.Chain

/-! ### strconv.Atoi -/

theorem atoiChars_nil : atoiChars [] = none := rfl

theorem atoiDigits_some_shape {neg : Bool} {ds : List Char} {n : Int} (h : atoiDigits neg ds = some n) :
    ds ≠ [] ∧ ds.all isDigit = true := by
  unfold atoiDigits at h
  split at h
  · cases h
  · split at h
    · cases h
    · rename_i hne hall
      exact ⟨by intro e; subst e; simp at hne, by simpa using hall⟩

theorem atoiDigits_range {neg : Bool} {ds : List Char} {n : Int} (h : atoiDigits neg ds = some n) :
    -9223372036854775808 ≤ n ∧ n < 9223372036854775808 ∧ (neg = false → 0 ≤ n) := by
  unfold atoiDigits at h
  split at h
  · cases h
  · split at h
    · cases h
    · split at h
      · split at h
        · simp only [Option.some.injEq] at h; subst h; rename_i hn _; simp [hn]; omega
        · cases h
      · split at h
        · simp only [Option.some.injEq] at h; omega
        · cases h

/-- an accepted string is an optional sign followed by a non-empty all-digit part -/
theorem atoiChars_some_shape {s : List Char} {n : Int} (h : atoiChars s = some n) :
    ∃ ds : List Char, ds ≠ [] ∧ ds.all isDigit = true ∧ (s = ds ∨ s = '+' :: ds ∨ s = '-' :: ds) := by
  unfold atoiChars at h
  split at h
  · exact ⟨_, (atoiDigits_some_shape h).1, (atoiDigits_some_shape h).2, Or.inr (Or.inl rfl)⟩
  · exact ⟨_, (atoiDigits_some_shape h).1, (atoiDigits_some_shape h).2, Or.inr (Or.inr rfl)⟩
  · exact ⟨_, (atoiDigits_some_shape h).1, (atoiDigits_some_shape h).2, Or.inl rfl⟩

/-- the result fits Go's `int` (int64) -/
theorem atoiChars_range {s : List Char} {n : Int} (h : atoiChars s = some n) :
    -9223372036854775808 ≤ n ∧ n < 9223372036854775808 := by
  unfold atoiChars at h
  split at h <;> exact ⟨(atoiDigits_range h).1, (atoiDigits_range h).2.1⟩

theorem atoi_range {s : String} {n : Int} (h : atoi s = some n) :
    -9223372036854775808 ≤ n ∧ n < 9223372036854775808 := atoiChars_range h

theorem atoi_empty : atoi "" = none := by decide

/-- a value without a leading minus sign is never negative -/
theorem atoiChars_nonneg_of_no_minus {s : List Char} {n : Int} (h : atoiChars s = some n)
    (hs : ∀ r, s ≠ '-' :: r) : 0 ≤ n := by
  unfold atoiChars at h
  split at h
  · exact (atoiDigits_range h).2.2 rfl
  · rename_i r; exact absurd rfl (hs r)
  · exact (atoiDigits_range h).2.2 rfl

theorem digitsVal_append (ds : List Char) (c : Char) : digitsVal (ds ++ [c]) = digitsVal ds * 10 + (c.toNat - 48) := by
  simp [digitsVal, List.foldl_append]

/-! ### `mapM` in `Option` -/

theorem mapM_option_length {α β : Type} (f : α → Option β) :
    ∀ (l : List α) (l' : List β), l.mapM f = some l' → l'.length = l.length
  | [], l', h => by simp at h; subst h; rfl
  | a :: l, l', h => by
    simp only [List.mapM_cons] at h
    cases hfa : f a with
    | none => simp [hfa] at h
    | some b =>
      cases hl : l.mapM f with
      | none => simp [hfa, hl] at h
      | some bs =>
        simp [hfa, hl] at h
        subst h
        simp [mapM_option_length f l bs hl]

theorem mapM_option_ne_nil {α β : Type} (f : α → Option β) (l : List α) (l' : List β)
    (h : l.mapM f = some l') (hne : l ≠ []) : l' ≠ [] := by
  intro e
  have := mapM_option_length f l l' h
  subst e
  simp at this
  exact hne (List.eq_nil_of_length_eq_zero this.symm)

theorem mapM_option_mem {α β : Type} (f : α → Option β) :
    ∀ (l : List α) (l' : List β), l.mapM f = some l' → ∀ a ∈ l, ∀ b, f a = some b → b ∈ l'
  | [], _, _, a, ha, _, _ => by cases ha
  | x :: l, l', h, a, ha, b, hb => by
    simp only [List.mapM_cons] at h
    cases hfx : f x with
    | none => simp [hfx] at h
    | some y =>
      cases hl : l.mapM f with
      | none => simp [hfx, hl] at h
      | some bs =>
        simp [hfx, hl] at h
        subst h
        rcases List.mem_cons.1 ha with rfl | ha'
        · rw [hfx] at hb; cases hb; exact List.mem_cons_self
        · exact List.mem_cons_of_mem _ (mapM_option_mem f l bs hl a ha' b hb)

/-! ### GetCommonAncestor -/

section
variable {H : Type} [DecidableEq H]

def isPanic : CaRes H → Bool
  | .panicEmpty => true
  | _ => false

def isNil : CaRes H → Bool
  | .nilResult => true
  | _ => false

theorem caLoop_not_panic (s : Store H) :
    ∀ (fuel : Nat) (hs : List (Row H)), hs ≠ [] → isPanic (caLoop s fuel hs) = false
  | 0, _, _ => rfl
  | fuel + 1, hs, hne => by
    unfold caLoop
    split
    · cases hs with
      | nil => exact absurd rfl hne
      | cons a l => rfl
    · split
      · rfl
      · rename_i ps hps
        exact caLoop_not_panic s fuel ps (mapM_option_ne_nil _ hs ps hps hne)

/-- `headers[0]` on an empty slice: exactly for the empty request list -/
theorem commonAncestor_panic_iff (s : Store H) (hashes : List H) :
    isPanic (commonAncestor s hashes) = true ↔ hashes = [] := by
  constructor
  · intro h
    apply Decidable.byContradiction
    intro hne
    unfold commonAncestor at h
    split at h
    · simp [isPanic] at h
    · rename_i rows hrows
      have hr := mapM_option_ne_nil _ hashes rows hrows hne
      split at h
      · exact hr rfl
      · simp only at h
        split at h
        · simp [isPanic] at h
        · split at h
          · simp [isPanic] at h
          · rename_i as has
            rw [caLoop_not_panic s _ as (mapM_option_ne_nil _ rows as has hr)] at h
            cases h
  · rintro rfl
    simp [commonAncestor, isPanic]

omit [DecidableEq H] in
theorem foldl_min_le_init (l : List (Row H)) (m : Nat) : l.foldl (fun m r => min m r.height) m ≤ m := by
  induction l generalizing m with
  | nil => exact Nat.le_refl _
  | cons a l ih => exact Nat.le_trans (ih _) (Nat.min_le_left _ _)

omit [DecidableEq H] in
theorem foldl_min_le_mem (l : List (Row H)) (m : Nat) (r : Row H) (hr : r ∈ l) :
    l.foldl (fun m r => min m r.height) m ≤ r.height := by
  induction l generalizing m with
  | nil => cases hr
  | cons a l ih =>
    rcases List.mem_cons.1 hr with rfl | hr'
    · exact Nat.le_trans (foldl_min_le_init l _) (Nat.min_le_right _ _)
    · exact ih _ hr'

/-- `return nil, nil`: whenever all requested hashes are stored and one of them has height 0 (the genesis header) -/
theorem commonAncestor_nil_of_height_zero (s : Store H) (hashes : List H) (rows : List (Row H))
    (hall : hashes.mapM (byHash s) = some rows) (g : H) (hg : g ∈ hashes) (r : Row H) (hr : byHash s g = some r)
    (h0 : r.height = 0) : isNil (commonAncestor s hashes) = true := by
  have hmem : r ∈ rows := mapM_option_mem _ hashes rows hall g hg r hr
  unfold commonAncestor
  rw [hall]
  simp only
  split
  · cases hmem
  · have := foldl_min_le_mem rows 2147483647 r hmem
    rw [if_pos (by omega)]
    rfl

end

theorem caKind_panic_iff (s : Store String) (hashes : List String) : caKind s hashes = .panic ↔ hashes = [] := by
  rw [← commonAncestor_panic_iff s hashes]
  unfold caKind
  cases commonAncestor s hashes <;> simp [isPanic]

theorem caKind_nil_iff (s : Store String) (hashes : List String) :
    caKind s hashes = .nil ↔ isNil (commonAncestor s hashes) = true := by
  unfold caKind
  cases commonAncestor s hashes <;> simp [isNil]

end BHS.Http
