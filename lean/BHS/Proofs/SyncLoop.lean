/-
Lemmas about the header-processing loop of handleHeadersMsg (`Sync.headersLoop`) and about
findNextHeaderCheckpoint (`Sync.findNext`).
-/
import BHS.Model.Sync
import BHS.Proofs.SyncStore

set_option linter.unusedSectionVars false

namespace BHS.Sync
open BHS.Chain
variable {H : Type} [DecidableEq H]

theorem headersLoop_nil (ccfg : Chain.Cfg H) (nc : Option (Nat × H)) (s : Store H) (rc : Bool) (fh : Option H) :
    headersLoop ccfg nc s [] rc fh = (s, rc, fh, .completed) := rfl

/-- one step of the loop, by the outcome of `add` -/
theorem headersLoop_cons (ccfg : Chain.Cfg H) (nc : Option (Nat × H)) (s : Store H) (x : Src H) (xs : List (Src H))
    (rc : Bool) (fh : Option H) :
    headersLoop ccfg nc s (x :: xs) rc fh =
      match (add ccfg s x).2 with
      | .duplicate => headersLoop ccfg nc (add ccfg s x).1 xs rc fh
      | .creationFail => headersLoop ccfg nc (add ccfg s x).1 xs rc fh
      | .rejected => ((add ccfg s x).1, rc, fh, .rejected)
      | .stored r =>
        match nc with
        | some c =>
          if r.height = c.1 then
            (if r.hash = c.2 then headersLoop ccfg nc (add ccfg s x).1 xs true (if r.st = .lc then some r.hash else fh)
             else ((add ccfg s x).1, rc, fh, .mismatch))
          else headersLoop ccfg nc (add ccfg s x).1 xs rc (if r.st = .lc then some r.hash else fh)
        | none => headersLoop ccfg nc (add ccfg s x).1 xs rc (if r.st = .lc then some r.hash else fh) := by
  rw [headersLoop]; rfl

/-- a prefix that is processed completely: the loop continues on the rest from where the prefix ended -/
theorem headersLoop_append (ccfg : Chain.Cfg H) (nc : Option (Nat × H)) (rest : List (Src H)) :
    ∀ (pre : List (Src H)) (s : Store H) (rc : Bool) (fh : Option H),
      (headersLoop ccfg nc s pre rc fh).2.2.2 = .completed →
      headersLoop ccfg nc s (pre ++ rest) rc fh =
        headersLoop ccfg nc (headersLoop ccfg nc s pre rc fh).1 rest (headersLoop ccfg nc s pre rc fh).2.1
          (headersLoop ccfg nc s pre rc fh).2.2.1 := by
  intro pre
  induction pre with
  | nil => intro s rc fh _; rfl
  | cons x xs ih =>
    intro s rc fh h
    rw [List.cons_append, headersLoop_cons]
    rw [headersLoop_cons] at h ⊢
    cases ho : (add ccfg s x).2 with
    | duplicate => rw [ho] at h; simp only [] at h ⊢; exact ih _ _ _ h
    | creationFail => rw [ho] at h; simp only [] at h ⊢; exact ih _ _ _ h
    | rejected => rw [ho] at h; simp only [] at h; cases h
    | stored r =>
      rw [ho] at h
      simp only [] at h ⊢
      cases nc with
      | none => simp only [] at h ⊢; exact ih _ _ _ h
      | some c =>
        simp only [] at h ⊢
        by_cases hh : r.height = c.1
        · simp only [if_pos hh] at h ⊢
          by_cases hk : r.hash = c.2
          · simp only [if_pos hk] at h ⊢; exact ih _ _ _ h
          · simp only [if_neg hk] at h; cases h
        · simp only [if_neg hh] at h ⊢; exact ih _ _ _ h

/-- whatever the loop does, a completely processed batch leaves the table `run` leaves -/
theorem headersLoop_store_completed (ccfg : Chain.Cfg H) (nc : Option (Nat × H)) :
    ∀ (hs : List (Src H)) (s : Store H) (rc : Bool) (fh : Option H),
      (headersLoop ccfg nc s hs rc fh).2.2.2 = .completed → (headersLoop ccfg nc s hs rc fh).1 = run ccfg s hs := by
  intro hs
  induction hs with
  | nil => intro s rc fh _; rfl
  | cons x xs ih =>
    intro s rc fh h
    rw [headersLoop_cons] at h ⊢
    show _ = run ccfg (add ccfg s x).1 xs
    cases ho : (add ccfg s x).2 with
    | duplicate => rw [ho] at h; simp only [] at h ⊢; exact ih _ _ _ h
    | creationFail => rw [ho] at h; simp only [] at h ⊢; exact ih _ _ _ h
    | rejected => rw [ho] at h; simp only [] at h; cases h
    | stored r =>
      rw [ho] at h
      simp only [] at h ⊢
      cases nc with
      | none => simp only [] at h ⊢; exact ih _ _ _ h
      | some c =>
        simp only [] at h ⊢
        by_cases hh : r.height = c.1
        · simp only [if_pos hh] at h ⊢
          by_cases hk : r.hash = c.2
          · simp only [if_pos hk] at h ⊢; exact ih _ _ _ h
          · simp only [if_neg hk] at h; cases h
        · simp only [if_neg hh] at h ⊢; exact ih _ _ _ h

/-- a forbidden header at the head of the remaining batch ends the loop with `rejected`, the table unchanged -/
theorem headersLoop_forbidden (ccfg : Chain.Cfg H) (nc : Option (Nat × H)) (s : Store H) (x : Src H) (post : List (Src H))
    (rc : Bool) (fh : Option H) (hs : NoForbidden ccfg s) (hx : ccfg.hashOf x ∈ ccfg.forbidden) :
    headersLoop ccfg nc s (x :: post) rc fh = (s, rc, fh, .rejected) := by
  have hn : ¬ (byHash s (ccfg.hashOf x)).isSome = true := by
    intro hsome
    obtain ⟨r, hr, e⟩ := byHash_isSome.1 hsome
    exact hs r hr (e ▸ hx)
  have hadd : add ccfg s x = (s, .rejected) := by
    rcases add_cases ccfg s x with ⟨hd, _⟩ | ⟨_, _, e⟩ | ⟨_, hnf, _⟩
    · exact absurd hd hn
    · exact e
    · exact absurd hx hnf
  rw [headersLoop_cons, hadd]

/-- a header that is stored at the cursor's height with another hash ends the loop with `mismatch`; it IS in the table -/
theorem headersLoop_mismatch (ccfg : Chain.Cfg H) (c : Nat × H) (s : Store H) (x : Src H) (post : List (Src H))
    (rc : Bool) (fh : Option H) (r : Row H) (ha : (add ccfg s x).2 = .stored r) (hh : r.height = c.1) (hne : r.hash ≠ c.2) :
    headersLoop ccfg (some c) s (x :: post) rc fh = ((add ccfg s x).1, rc, fh, .mismatch) := by
  rw [headersLoop_cons, ha]
  simp only [hh, if_true, hne, if_false]

/-! ### findNextHeaderCheckpoint on an ascending list -/

/-- the backward loop: the last element of the leading run of checkpoints above `height`, else `next` -/
theorem findNextGo_eq (height : Nat) : ∀ (l : List (Nat × H)) (next : Nat × H),
    findNextGo height l next = ((l.takeWhile (fun c => decide (height < c.1))).getLast?).getD next := by
  intro l
  induction l with
  | nil => intro next; rfl
  | cons c rest ih =>
    intro next
    unfold findNextGo
    by_cases hge : height ≥ c.1
    · rw [if_pos hge]
      have : decide (height < c.1) = false := by simp; omega
      rw [List.takeWhile_cons, this]; rfl
    · rw [if_neg hge, ih c]
      have : decide (height < c.1) = true := by simp; omega
      rw [List.takeWhile_cons, this]
      simp only [if_true]
      cases hl : (List.takeWhile (fun c => decide (height < c.1)) rest).getLast? with
      | none =>
        have : List.takeWhile (fun c => decide (height < c.1)) rest = [] := List.getLast?_eq_none_iff.1 hl
        rw [this]; rfl
      | some d =>
        rw [List.getLast?_cons, hl]; rfl

/-- strictly descending by height -/
def Desc (l : List (Nat × H)) : Prop := l.Pairwise (fun a b => b.1 < a.1)

theorem Desc.takeWhile_complete (height : Nat) : ∀ (l : List (Nat × H)), Desc l →
    ∀ c ∈ l, height < c.1 → c ∈ l.takeWhile (fun c => decide (height < c.1)) := by
  intro l
  induction l with
  | nil => intro _ c hc; cases hc
  | cons c0 rest ih =>
    intro hd c hc hlt
    have hd' := List.pairwise_cons.1 hd
    by_cases hp : height < c0.1
    · have : decide (height < c0.1) = true := by simp [hp]
      rw [List.takeWhile_cons, this]
      simp only [if_true]
      rcases List.mem_cons.1 hc with e | hm
      · rw [e]; exact List.mem_cons_self
      · exact List.mem_cons_of_mem _ (ih hd'.2 c hm hlt)
    · exfalso
      rcases List.mem_cons.1 hc with e | hm
      · rw [e] at hlt; exact hp hlt
      · have := hd'.1 c hm; omega

theorem Desc.getLast_min : ∀ (l : List (Nat × H)), Desc l → ∀ d, l.getLast? = some d → ∀ c ∈ l, d.1 ≤ c.1 := by
  intro l
  induction l with
  | nil => intro _ d hd; cases hd
  | cons c0 rest ih =>
    intro hdesc d hd c hc
    have hd' := List.pairwise_cons.1 hdesc
    cases hr : rest.getLast? with
    | none =>
      have : rest = [] := List.getLast?_eq_none_iff.1 hr
      subst this
      simp at hd hc
      rw [hc, hd]
      exact Nat.le_refl _
    | some e =>
      rw [List.getLast?_cons, hr] at hd
      simp at hd
      subst hd
      rcases List.mem_cons.1 hc with h | h
      · rw [h]
        have := hd'.1 e (List.mem_of_getLast? hr)
        omega
      · exact ih hd'.2 e hr c h

theorem takeWhile_desc (height : Nat) (l : List (Nat × H)) (h : Desc l) :
    Desc (l.takeWhile (fun c => decide (height < c.1))) :=
  List.Pairwise.sublist (List.takeWhile_sublist _) h

/-- strictly ascending by height -/
def Asc (l : List (Nat × H)) : Prop := l.Pairwise (fun a b => a.1 < b.1)

theorem Asc.split (cps : List (Nat × H)) (h : Asc cps) (fin : Nat × H) (hl : cps.getLast? = some fin) :
    Desc cps.dropLast.reverse ∧ (∀ c ∈ cps.dropLast.reverse, c.1 < fin.1) ∧
      (∀ c ∈ cps, c = fin ∨ c ∈ cps.dropLast.reverse) := by
  have e : cps = cps.dropLast ++ [fin] := by
    obtain ⟨ys, hys⟩ := List.getLast?_eq_some_iff.1 hl
    rw [hys, List.dropLast_concat]
  have hp : (cps.dropLast ++ [fin]).Pairwise (fun a b => a.1 < b.1) := e ▸ h
  obtain ⟨h1, _, h3⟩ := List.pairwise_append.1 hp
  refine ⟨?_, ?_, ?_⟩
  · unfold Desc
    rw [List.pairwise_reverse]
    exact h1
  · intro c hc
    exact h3 c (List.mem_reverse.1 hc) fin (List.mem_singleton.2 rfl)
  · intro c hc
    rw [e] at hc
    rcases List.mem_append.1 hc with hm | hm
    · exact Or.inr (List.mem_reverse.2 hm)
    · exact Or.inl (List.mem_singleton.1 hm)

/-- findNextHeaderCheckpoint on an ascending list is "the first checkpoint above the height" -/
theorem findNext_spec (cps : List (Nat × H)) (h : Asc cps) (height : Nat) :
    (∀ c, findNext cps height = some c → c ∈ cps ∧ height < c.1 ∧ ∀ d ∈ cps, height < d.1 → c.1 ≤ d.1) ∧
    (findNext cps height = none → ∀ d ∈ cps, d.1 ≤ height) := by
  unfold findNext
  cases hl : cps.getLast? with
  | none =>
    have : cps = [] := List.getLast?_eq_none_iff.1 hl
    subst this
    simp only []
    exact ⟨fun c hc => (by cases hc), fun _ d hd => (by cases hd)⟩
  | some fin =>
    obtain ⟨hdesc, hlt, hall⟩ := Asc.split cps h fin hl
    have hfin : fin ∈ cps := List.mem_of_getLast? hl
    simp only []
    by_cases hge : height ≥ fin.1
    · rw [if_pos hge]
      refine ⟨fun c hc => (by cases hc), fun _ d hd => ?_⟩
      rcases hall d hd with e | hm
      · rw [e]; exact hge
      · have := hlt d hm; omega
    · rw [if_neg hge]
      refine ⟨?_, fun hc => (by cases hc)⟩
      intro c hc
      simp only [Option.some.injEq] at hc
      rw [findNextGo_eq] at hc
      cases ht : (List.takeWhile (fun c => decide (height < c.1)) cps.dropLast.reverse).getLast? with
      | none =>
        rw [ht] at hc
        simp only [Option.getD_none] at hc
        subst hc
        refine ⟨hfin, by omega, ?_⟩
        intro d hd hdl
        rcases hall d hd with e | hm
        · rw [e]; exact Nat.le_refl _
        · exfalso
          have := Desc.takeWhile_complete height _ hdesc d hm hdl
          rw [List.getLast?_eq_none_iff.1 ht] at this
          cases this
      | some e =>
        rw [ht] at hc
        simp only [Option.getD_some] at hc
        subst hc
        have hem : e ∈ List.takeWhile (fun c => decide (height < c.1)) cps.dropLast.reverse := List.mem_of_getLast? ht
        have hem2 : e ∈ cps.dropLast.reverse := (List.takeWhile_sublist _).subset hem
        have hpe : height < e.1 := by
          have hall' := List.all_takeWhile (l := cps.dropLast.reverse) (p := fun c => decide (height < c.1))
          have := List.all_eq_true.1 hall' e hem
          simpa using this
        refine ⟨?_, hpe, ?_⟩
        · have := List.mem_reverse.1 hem2
          exact List.dropLast_subset _ this
        · intro d hd hdl
          rcases hall d hd with e' | hm
          · rw [e']; have := hlt e hem2; omega
          · exact Desc.getLast_min _ (takeWhile_desc height _ hdesc) e ht d
              (Desc.takeWhile_complete height _ hdesc d hm hdl)

theorem Asc.height_inj {cps : List (Nat × H)} (h : Asc cps) {a b : Nat × H} (ha : a ∈ cps) (hb : b ∈ cps)
    (e : a.1 = b.1) : a = b := by
  induction cps with
  | nil => cases ha
  | cons c rest ih =>
    have hp := List.pairwise_cons.1 h
    rcases List.mem_cons.1 ha with ea | ma <;> rcases List.mem_cons.1 hb with eb | mb
    · rw [ea, eb]
    · have := hp.1 b mb; rw [ea] at e; omega
    · have := hp.1 a ma; rw [eb] at e; omega
    · exact ih hp.2 ma mb

/-- the cursor is stable while the height stays below it -/
theorem findNext_stable (cps : List (Nat × H)) (h : Asc cps) (k k' : Nat) (c : Nat × H)
    (hc : findNext cps k = some c) (h1 : k ≤ k') (h2 : k' < c.1) : findNext cps k' = some c := by
  obtain ⟨hm, hk, hmin⟩ := (findNext_spec cps h k).1 c hc
  cases hn : findNext cps k' with
  | none =>
    have := (findNext_spec cps h k').2 hn c hm
    omega
  | some d =>
    obtain ⟨hdm, hdk, hdmin⟩ := (findNext_spec cps h k').1 d hn
    have e1 : d.1 ≤ c.1 := hdmin c hm h2
    have e2 : c.1 ≤ d.1 := hmin d hdm (by omega)
    rw [Asc.height_inj h hdm hm (by omega)]

theorem findNext_none_mono (cps : List (Nat × H)) (h : Asc cps) (k k' : Nat)
    (hc : findNext cps k = none) (h1 : k ≤ k') : findNext cps k' = none := by
  cases hn : findNext cps k' with
  | none => rfl
  | some d =>
    obtain ⟨hdm, hdk, _⟩ := (findNext_spec cps h k').1 d hn
    have := (findNext_spec cps h k).2 hc d hdm
    omega

end BHS.Sync
