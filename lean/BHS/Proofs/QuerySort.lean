/-
Helper lemmas for C08 / C13 (1/3): the insertion sort `insertByHeight` / `sortByHeight` of the query model
(membership, permutation, length, strict ascent when the heights are pairwise distinct), uniqueness of strictly
ascending lists of naturals, and lists whose heights are consecutive (`HF a l`: the heights of `l` are
`a, a+1, …`): on such a list the range filters of the SQL statements are `drop` / `take`.
No store appears in this file. Core Lean only.
-/
import BHS.Model.Query

set_option linter.unusedSectionVars false

namespace BHS.Chain
variable {H : Type} [DecidableEq H]

/-! ### insertion sort -/

theorem mem_insertByHeight {r x : Row H} {l : List (Row H)} : x ∈ insertByHeight r l ↔ x = r ∨ x ∈ l := by
  induction l with
  | nil => simp [insertByHeight]
  | cons a l ih =>
    unfold insertByHeight
    split
    · simp
    · simp only [List.mem_cons, ih]
      constructor
      · rintro (h | h | h)
        · exact Or.inr (Or.inl h)
        · exact Or.inl h
        · exact Or.inr (Or.inr h)
      · rintro (h | h | h)
        · exact Or.inr (Or.inl h)
        · exact Or.inl h
        · exact Or.inr (Or.inr h)

theorem length_insertByHeight (r : Row H) (l : List (Row H)) : (insertByHeight r l).length = l.length + 1 := by
  induction l with
  | nil => rfl
  | cons a l ih =>
    unfold insertByHeight
    split
    · rfl
    · simp [ih]

theorem perm_insertByHeight (r : Row H) (l : List (Row H)) : (insertByHeight r l).Perm (r :: l) := by
  induction l with
  | nil => exact List.Perm.refl _
  | cons a l ih =>
    unfold insertByHeight
    split
    · exact List.Perm.refl _
    · exact (List.Perm.cons a ih).trans (List.Perm.swap r a l)

theorem sortByHeight_cons (a : Row H) (l : List (Row H)) :
    sortByHeight (a :: l) = insertByHeight a (sortByHeight l) := rfl

theorem mem_sortByHeight {x : Row H} {l : List (Row H)} : x ∈ sortByHeight l ↔ x ∈ l := by
  induction l with
  | nil => simp [sortByHeight]
  | cons a l ih => rw [sortByHeight_cons, mem_insertByHeight, ih, List.mem_cons]

theorem length_sortByHeight (l : List (Row H)) : (sortByHeight l).length = l.length := by
  induction l with
  | nil => rfl
  | cons a l ih => rw [sortByHeight_cons, length_insertByHeight, ih, List.length_cons]

/-- the sort only permutes -/
theorem perm_sortByHeight (l : List (Row H)) : (sortByHeight l).Perm l := by
  induction l with
  | nil => exact List.Perm.refl _
  | cons a l ih =>
    rw [sortByHeight_cons]
    exact (perm_insertByHeight a _).trans (List.Perm.cons a ih)

/-- strictly ascending by height -/
def AscH (l : List (Row H)) : Prop := l.Pairwise (fun a b => a.height < b.height)

theorem ascH_insertByHeight {r : Row H} {l : List (Row H)} (hl : AscH l) (hne : ∀ a ∈ l, a.height ≠ r.height) :
    AscH (insertByHeight r l) := by
  unfold AscH at *
  induction l with
  | nil => simp [insertByHeight]
  | cons a l ih =>
    rw [List.pairwise_cons] at hl
    unfold insertByHeight
    split
    · rename_i hlt
      rw [List.pairwise_cons]
      refine ⟨?_, List.pairwise_cons.2 hl⟩
      intro b hb
      rcases List.mem_cons.1 hb with rfl | hb'
      · exact hlt
      · exact Nat.lt_trans hlt (hl.1 b hb')
    · rename_i hnlt
      have hne' := hne a List.mem_cons_self
      have hlt : a.height < r.height := by omega
      rw [List.pairwise_cons]
      refine ⟨?_, ih hl.2 (fun b hb => hne b (List.mem_cons_of_mem _ hb))⟩
      intro b hb
      rcases mem_insertByHeight.1 hb with rfl | hb'
      · exact hlt
      · exact hl.1 b hb'

/-- a list with pairwise distinct heights is sorted into strictly ascending order -/
theorem ascH_sortByHeight {l : List (Row H)} (h : l.Pairwise (fun a b => a.height ≠ b.height)) :
    AscH (sortByHeight l) := by
  induction l with
  | nil => exact List.Pairwise.nil
  | cons a l ih =>
    rw [List.pairwise_cons] at h
    rw [sortByHeight_cons]
    apply ascH_insertByHeight (ih h.2)
    intro b hb
    exact fun e => h.1 b (mem_sortByHeight.1 hb) e.symm

/-! ### strictly ascending lists of naturals are determined by their members -/

theorem eq_of_pairwise_lt : ∀ {l₁ l₂ : List Nat}, l₁.Pairwise (· < ·) → l₂.Pairwise (· < ·) →
    (∀ k, k ∈ l₁ ↔ k ∈ l₂) → l₁ = l₂
  | [], [], _, _, _ => rfl
  | [], b :: l₂, _, _, h => by have := (h b).2 List.mem_cons_self; cases this
  | a :: l₁, [], _, _, h => by have := (h a).1 List.mem_cons_self; cases this
  | a :: l₁, b :: l₂, h₁, h₂, h => by
    rw [List.pairwise_cons] at h₁ h₂
    have hab : a = b := by
      have ha := (h a).1 List.mem_cons_self
      have hb := (h b).2 List.mem_cons_self
      rcases List.mem_cons.1 ha with e | ha'
      · exact e
      · rcases List.mem_cons.1 hb with e | hb'
        · exact e.symm
        · have := h₁.1 b hb'; have := h₂.1 a ha'; omega
    subst hab
    congr 1
    apply eq_of_pairwise_lt h₁.2 h₂.2
    intro k
    constructor
    · intro hk
      rcases List.mem_cons.1 ((h k).1 (List.mem_cons_of_mem _ hk)) with e | hk'
      · have := h₁.1 k hk; omega
      · exact hk'
    · intro hk
      rcases List.mem_cons.1 ((h k).2 (List.mem_cons_of_mem _ hk)) with e | hk'
      · have := h₂.1 k hk; omega
      · exact hk'

/-- a strictly ascending list whose members are exactly `0 … m` is `range (m+1)` -/
theorem eq_range_of_pairwise_lt {l : List Nat} {m : Nat} (hl : l.Pairwise (· < ·)) (h : ∀ k, k ∈ l ↔ k ≤ m) :
    l = List.range (m + 1) := by
  apply eq_of_pairwise_lt hl List.pairwise_lt_range
  intro k
  rw [h k, List.mem_range]
  omega

/-! ### lists with consecutive heights -/

/-- the heights of `l` are `a, a+1, a+2, …` -/
def HF (a : Nat) (l : List (Row H)) : Prop := l.map (·.height) = List.range' a l.length

theorem HF.nil (a : Nat) : HF a ([] : List (Row H)) := rfl

theorem HF.cons_iff {a : Nat} {r : Row H} {l : List (Row H)} : HF a (r :: l) ↔ r.height = a ∧ HF (a + 1) l := by
  unfold HF
  rw [List.map_cons, List.length_cons, List.range'_succ, List.cons.injEq]

theorem HF.getElem {a : Nat} {l : List (Row H)} (h : HF a l) (i : Nat) (hi : i < l.length) :
    l[i].height = a + i := by
  unfold HF at h
  have h1 : (l.map (·.height))[i]'(by simpa using hi) = l[i].height := by simp
  rw [← h1]
  simp only [h]
  rw [List.getElem_range']
  omega

theorem HF.drop {a : Nat} {l : List (Row H)} (h : HF a l) (k : Nat) : HF (a + k) (l.drop k) := by
  unfold HF at *
  rw [List.map_drop, h, List.drop_range', List.length_drop]
  simp

theorem HF.take {a : Nat} {l : List (Row H)} (h : HF a l) (k : Nat) : HF a (l.take k) := by
  induction l generalizing a k with
  | nil => simpa using HF.nil a
  | cons r l ih =>
    cases k with
    | zero => exact HF.nil a
    | succ k =>
      rw [List.take_succ_cons]
      rw [HF.cons_iff] at h ⊢
      exact ⟨h.1, ih h.2 k⟩

/-- `WHERE height > k` on consecutive heights drops a prefix -/
theorem HF.filter_gt {a : Nat} {l : List (Row H)} (h : HF a l) (k : Nat) :
    l.filter (fun r => decide (k < r.height)) = l.drop (k + 1 - a) := by
  induction l generalizing a with
  | nil => simp
  | cons r l ih =>
    rw [HF.cons_iff] at h
    have ih' := ih h.2
    by_cases hk : k < a
    · have e : k + 1 - a = 0 := by omega
      have e' : k + 1 - (a + 1) = 0 := by omega
      rw [e, List.drop_zero, List.filter_cons_of_pos (by simp [h.1, hk]), ih', e', List.drop_zero]
    · have e : k + 1 - a = (k + 1 - (a + 1)) + 1 := by omega
      rw [e, List.drop_succ_cons, List.filter_cons_of_neg (by simp [h.1, hk]), ih']

theorem HF.filter_ge {a : Nat} {l : List (Row H)} (h : HF a l) (k : Nat) :
    l.filter (fun r => decide (k ≤ r.height)) = l.drop (k - a) := by
  induction l generalizing a with
  | nil => simp
  | cons r l ih =>
    rw [HF.cons_iff] at h
    have ih' := ih h.2
    by_cases hk : k ≤ a
    · have e : k - a = 0 := by omega
      have e' : k - (a + 1) = 0 := by omega
      rw [e, List.drop_zero, List.filter_cons_of_pos (by simp [h.1, hk]), ih', e', List.drop_zero]
    · have e : k - a = (k - (a + 1)) + 1 := by omega
      rw [e, List.drop_succ_cons, List.filter_cons_of_neg (by simp [h.1, hk]), ih']

/-- `WHERE height BETWEEN lo AND hi` on consecutive heights is a slice -/
theorem HF.filter_between {a : Nat} {l : List (Row H)} (h : HF a l) (lo hi : Nat) :
    l.filter (fun r => decide (lo ≤ r.height ∧ r.height ≤ hi)) =
      (l.drop (lo - a)).take (hi + 1 - max lo a) := by
  induction l generalizing a with
  | nil => simp
  | cons r l ih =>
    rw [HF.cons_iff] at h
    have ih' := ih h.2
    by_cases h1 : a < lo
    · have e : lo - a = (lo - (a + 1)) + 1 := by omega
      have e2 : max lo a = max lo (a + 1) := by omega
      rw [e, List.drop_succ_cons, List.filter_cons_of_neg (by simp [h.1]; omega), ih', e2]
    · have e : lo - a = 0 := by omega
      have e' : lo - (a + 1) = 0 := by omega
      rw [e, List.drop_zero]
      rw [e', List.drop_zero] at ih'
      by_cases h2 : a ≤ hi
      · have e3 : hi + 1 - max lo a = (hi + 1 - max lo (a + 1)) + 1 := by omega
        rw [e3, List.take_succ_cons, List.filter_cons_of_pos (by simp [h.1]; omega), ih']
      · have e3 : hi + 1 - max lo a = 0 := by omega
        have e4 : hi + 1 - max lo (a + 1) = 0 := by omega
        rw [e3, List.take_zero, List.filter_cons_of_neg (by simp [h.1]; omega), ih', e4, List.take_zero]

end BHS.Chain
