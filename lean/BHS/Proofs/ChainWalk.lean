/-
Helper lemmas for C01 (3/5): the ancestor walk (`ancestorsFrom`, `chainTo`) in a well-formed store.
Under `WF` the walk from a connected row follows the parent links down to the root row; it is
described by two equations (`chainTo_root`, `chainTo_cons`) and everything else is proved by
induction along parent links (`WF.chain_induction`).
Core Lean only.
-/
import BHS.Proofs.ChainBasic

set_option linter.unusedSectionVars false

namespace BHS.Chain
variable {H : Type} [DecidableEq H]

theorem anc_none {s : Store H} {h : H} (e : byHash s h = none) : ∀ f, ancestorsFrom s f h = []
  | 0 => rfl
  | f + 1 => by simp [ancestorsFrom, e]

theorem anc_some {s : Store H} {h : H} {r : Row H} (e : byHash s h = some r) (f : Nat) :
    ancestorsFrom s (f + 1) h = r :: ancestorsFrom s f r.prev := by
  simp [ancestorsFrom, e]

/-- (A1) the walk only visits stored rows -/
theorem anc_mem {s : Store H} : ∀ (f : Nat) (h : H) (a : Row H), a ∈ ancestorsFrom s f h → a ∈ s
  | 0, _, _, ha => by cases ha
  | f + 1, h, a, ha => by
    cases e : byHash s h with
    | none => rw [anc_none e] at ha; cases ha
    | some r =>
      rw [anc_some e] at ha
      rcases List.mem_cons.1 ha with rfl | ha'
      · exact (byHash_some e).1
      · exact anc_mem f r.prev a ha'

/-- induction along parent links, from the root up -/
theorem WF.chain_induction {cfg : Cfg H} {s : Store H} (h : WF cfg s) {P : Row H → Prop}
    (root : ∀ g ∈ s, g.id = 0 → P g)
    (step : ∀ r ∈ s, connected r → r.id ≠ 0 → ∀ q ∈ s, q.hash = r.prev → q.id < r.id → connected q →
      r.height = q.height + 1 → r.cum = q.cum + r.work → P q → P r) :
    ∀ r ∈ s, connected r → P r := by
  have key : ∀ n, ∀ r ∈ s, r.id = n → connected r → P r := by
    intro n
    induction n using Nat.strongRecOn with
    | _ n ih =>
      intro r hr hn hc
      by_cases h0 : r.id = 0
      · exact root r hr h0
      · obtain ⟨q, hq, e1, e2, e3, e4, e5⟩ := h.par r hr hc h0
        exact step r hr hc h0 q hq e1 e2 e3 e4 e5 (ih q.id (by omega) q hq rfl e3)
  intro r hr hc
  exact key r.id r hr rfl hc

/-- the walk from a connected row does not depend on the fuel once there is enough of it -/
theorem WF.anc_fuel {cfg : Cfg H} {s : Store H} (h : WF cfg s) :
    ∀ r ∈ s, connected r → ∀ f, r.id + 1 ≤ f →
      ancestorsFrom s f r.hash = ancestorsFrom s (r.id + 1) r.hash := by
  refine h.chain_induction (P := fun r => ∀ f, r.id + 1 ≤ f →
      ancestorsFrom s f r.hash = ancestorsFrom s (r.id + 1) r.hash) ?_ ?_
  · intro g hg hg0 f hf
    obtain ⟨f', rfl⟩ : ∃ f', f = f' + 1 := ⟨f - 1, by omega⟩
    have hn : byHash s g.prev = none := byHash_none.2 (h.root_of_id hg hg0).2.2
    rw [anc_some (byHash_mem h.nodup hg), anc_some (byHash_mem h.nodup hg), anc_none hn, anc_none hn]
  · intro r hr _ _ q hq e1 e2 _ _ _ ih f hf
    obtain ⟨f', rfl⟩ : ∃ f', f = f' + 1 := ⟨f - 1, by omega⟩
    rw [anc_some (byHash_mem h.nodup hr), anc_some (byHash_mem h.nodup hr), ← e1,
      ih f' (by omega), ih r.id (by omega)]

theorem WF.chainTo_root {cfg : Cfg H} {s : Store H} (h : WF cfg s) {g : Row H} (hg : g ∈ s) (hg0 : g.id = 0) :
    chainTo s g = [g] := by
  unfold chainTo
  obtain ⟨n, hn⟩ : ∃ n, s.length = n + 1 := ⟨s.length - 1, by have := List.length_pos_of_mem hg; omega⟩
  have hnone : byHash s g.prev = none := byHash_none.2 (h.root_of_id hg hg0).2.2
  rw [hn, anc_some (byHash_mem h.nodup hg), anc_none hnone]

theorem WF.chainTo_cons {cfg : Cfg H} {s : Store H} (h : WF cfg s) {r q : Row H} (hr : r ∈ s) (hq : q ∈ s)
    (e : q.hash = r.prev) (hlt : q.id < r.id) (hqc : connected q) :
    chainTo s r = r :: chainTo s q := by
  unfold chainTo
  have hrl := ids_lt h.ids hr
  obtain ⟨n, hn⟩ : ∃ n, s.length = n + 1 := ⟨s.length - 1, by omega⟩
  rw [h.anc_fuel q hq hqc s.length (by omega), hn, anc_some (byHash_mem h.nodup hr), ← e,
    h.anc_fuel q hq hqc n (by omega)]

theorem WF.chainTo_self {cfg : Cfg H} {s : Store H} (h : WF cfg s) {r : Row H} (hr : r ∈ s) :
    r ∈ chainTo s r := by
  unfold chainTo
  have hrl := ids_lt h.ids hr
  obtain ⟨n, hn⟩ : ∃ n, s.length = n + 1 := ⟨s.length - 1, by omega⟩
  rw [hn, anc_some (byHash_mem h.nodup hr)]
  exact List.mem_cons_self

theorem chainTo_mem {s : Store H} {r a : Row H} (ha : a ∈ chainTo s r) : a ∈ s :=
  anc_mem _ _ a ha

/-- (A3) every row of the walk is connected and not higher than its start -/
theorem WF.chainTo_le {cfg : Cfg H} {s : Store H} (h : WF cfg s) :
    ∀ r ∈ s, connected r → ∀ a ∈ chainTo s r, connected a ∧ a.height ≤ r.height := by
  refine h.chain_induction (P := fun r => ∀ a ∈ chainTo s r, connected a ∧ a.height ≤ r.height) ?_ ?_
  · intro g hg hg0 a ha
    rw [h.chainTo_root hg hg0] at ha
    have : a = g := by simpa using ha
    subst this
    exact ⟨connected_of_lc (h.root_of_id hg hg0).1, Nat.le_refl _⟩
  · intro r hr hc _ q hq e1 e2 hqc e4 _ ih a ha
    rw [h.chainTo_cons hr hq e1 e2 hqc] at ha
    rcases List.mem_cons.1 ha with rfl | ha'
    · exact ⟨hc, Nat.le_refl _⟩
    · have := ih a ha'
      exact ⟨this.1, by omega⟩

/-- the walk from a row of the walk is part of the walk -/
theorem WF.chainTo_sub {cfg : Cfg H} {s : Store H} (h : WF cfg s) :
    ∀ r ∈ s, connected r → ∀ a ∈ chainTo s r, ∀ b ∈ chainTo s a, b ∈ chainTo s r := by
  refine h.chain_induction (P := fun r => ∀ a ∈ chainTo s r, ∀ b ∈ chainTo s a, b ∈ chainTo s r) ?_ ?_
  · intro g hg hg0 a ha
    rw [h.chainTo_root hg hg0] at ha
    have : a = g := by simpa using ha
    subst this
    intro b hb; exact hb
  · intro r hr hc _ q hq e1 e2 hqc e4 _ ih a ha
    rw [h.chainTo_cons hr hq e1 e2 hqc] at ha ⊢
    rcases List.mem_cons.1 ha with rfl | ha'
    · intro b hb
      rw [h.chainTo_cons hr hq e1 e2 hqc] at hb
      exact hb
    · intro b hb
      exact List.mem_cons_of_mem _ (ih a ha' b hb)

/-- the rows of a walk have pairwise distinct heights -/
theorem WF.chainTo_height_inj {cfg : Cfg H} {s : Store H} (h : WF cfg s) :
    ∀ r ∈ s, connected r → ∀ a ∈ chainTo s r, ∀ b ∈ chainTo s r, a.height = b.height → a = b := by
  refine h.chain_induction
    (P := fun r => ∀ a ∈ chainTo s r, ∀ b ∈ chainTo s r, a.height = b.height → a = b) ?_ ?_
  · intro g hg hg0 a ha b hb _
    rw [h.chainTo_root hg hg0] at ha hb
    have e1 : a = g := by simpa using ha
    have e2 : b = g := by simpa using hb
    rw [e1, e2]
  · intro r hr hc _ q hq e1 e2 hqc e4 _ ih a ha b hb e
    rw [h.chainTo_cons hr hq e1 e2 hqc] at ha hb
    rcases List.mem_cons.1 ha with rfl | ha' <;> rcases List.mem_cons.1 hb with rfl | hb'
    · rfl
    · have := (h.chainTo_le q hq hqc b hb').2; omega
    · have := (h.chainTo_le q hq hqc a ha').2; omega
    · exact ih a ha' b hb' e

/-- (A4) the walk has a row at every height up to its start -/
theorem WF.chainTo_height_surj {cfg : Cfg H} {s : Store H} (h : WF cfg s) :
    ∀ r ∈ s, connected r → ∀ k, k ≤ r.height → ∃ a ∈ chainTo s r, a.height = k := by
  refine h.chain_induction (P := fun r => ∀ k, k ≤ r.height → ∃ a ∈ chainTo s r, a.height = k) ?_ ?_
  · intro g hg hg0 k hk
    exact ⟨g, h.chainTo_self hg, by have := (h.root_of_id hg hg0).2.1; omega⟩
  · intro r hr hc _ q hq e1 e2 hqc e4 _ ih k hk
    by_cases hk' : k = r.height
    · exact ⟨r, h.chainTo_self hr, hk'.symm⟩
    · obtain ⟨a, ha, e⟩ := ih k (by omega)
      rw [h.chainTo_cons hr hq e1 e2 hqc]
      exact ⟨a, List.mem_cons_of_mem _ ha, e⟩

/-- the walk from the child continues with the walk from the parent -/
theorem WF.chainTo_parent_sub {cfg : Cfg H} {s : Store H} (h : WF cfg s) {r a q : Row H} (hr : r ∈ s)
    (hc : connected r) (ha : a ∈ chainTo s r) (h0 : a.id ≠ 0) (hq : q ∈ s) (e : q.hash = a.prev) :
    ∀ b ∈ chainTo s q, b ∈ chainTo s r := by
  have has := chainTo_mem ha
  have hac := (h.chainTo_le r hr hc a ha).1
  obtain ⟨q', hq', e1, e2, e3, _, _⟩ := h.par a has hac h0
  have : q' = q := h.hash_inj hq' hq (by rw [e1, e])
  subst this
  intro b hb
  apply h.chainTo_sub r hr hc a ha
  rw [h.chainTo_cons has hq' e1 e2 e3]
  exact List.mem_cons_of_mem _ hb

/-- (A5, longest-chain part) all ancestors of a longest-chain row are on the longest chain -/
theorem WF.chainTo_lc {cfg : Cfg H} {s : Store H} (h : WF cfg s)
    (h5 : ∀ r ∈ s, r.st = .lc → r.id ≠ 0 → ∀ p ∈ s, p.hash = r.prev → p.st = .lc) :
    ∀ r ∈ s, connected r → r.st = .lc → ∀ a ∈ chainTo s r, a.st = .lc := by
  refine h.chain_induction (P := fun r => r.st = .lc → ∀ a ∈ chainTo s r, a.st = .lc) ?_ ?_
  · intro g hg hg0 hl a ha
    rw [h.chainTo_root hg hg0] at ha
    have : a = g := by simpa using ha
    rw [this]; exact hl
  · intro r hr hc h0 q hq e1 e2 hqc e4 _ ih hl a ha
    rw [h.chainTo_cons hr hq e1 e2 hqc] at ha
    rcases List.mem_cons.1 ha with rfl | ha'
    · exact hl
    · exact ih (h5 r hr hl h0 q hq e1) a ha'

/-- (L1) contiguity: below a longest-chain row there is a longest-chain row at every height -/
theorem WF.lc_contiguous {cfg : Cfg H} {s : Store H} (h : WF cfg s)
    (h5 : ∀ r ∈ s, r.st = .lc → r.id ≠ 0 → ∀ p ∈ s, p.hash = r.prev → p.st = .lc)
    {r : Row H} (hr : r ∈ s) (hl : r.st = .lc) {k : Nat} (hk : k ≤ r.height) :
    ∃ a ∈ s, a.st = .lc ∧ a.height = k := by
  obtain ⟨a, ha, e⟩ := h.chainTo_height_surj r hr (connected_of_lc hl) k hk
  exact ⟨a, chainTo_mem ha, h.chainTo_lc h5 r hr (connected_of_lc hl) hl a ha, e⟩

end BHS.Chain
