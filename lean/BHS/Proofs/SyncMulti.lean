/-
Several peers (C06 multi-peer clauses): what a headers message of one peer leaves untouched in the peer table, and how
startSync chooses among conformant candidates whose chains extend what is stored.
-/
import BHS.Model.Sync
import BHS.Proofs.SyncLinear

set_option linter.unusedSectionVars false

namespace BHS.Sync
open BHS.Chain
variable {H : Type} [DecidableEq H]

/-! ### frame: entries of other peers are not touched -/

/-- `ps'` has the ids of `ps` in the same order, and every entry whose id is not `p` is an entry of `ps` -/
def Frame (ps ps' : List (PeerSt H)) (p : Nat) : Prop :=
  ps'.map (·.id) = ps.map (·.id) ∧ (∀ r ∈ ps', r.id ≠ p → r ∈ ps) ∧ (∀ r ∈ ps, r.id ≠ p → r ∈ ps')

theorem Frame.refl (ps : List (PeerSt H)) (p : Nat) : Frame ps ps p := ⟨rfl, fun _ h _ => h, fun _ h _ => h⟩

theorem Frame.trans {a b c : List (PeerSt H)} {p : Nat} (h1 : Frame a b p) (h2 : Frame b c p) : Frame a c p :=
  ⟨h2.1.trans h1.1, fun r hr hne => h1.2.1 r (h2.2.1 r hr hne) hne, fun r hr hne => h2.2.2 r (h1.2.2 r hr hne) hne⟩

theorem update_frame (ps : List (PeerSt H)) (q' : PeerSt H) : Frame ps (update ps q') q'.id := by
  constructor
  · unfold update
    rw [List.map_map]
    apply List.map_congr_left
    intro a _
    simp only [Function.comp]
    by_cases c : (a.id == q'.id) = true
    · rw [if_pos c]; exact (by simpa using c : a.id = q'.id).symm
    · rw [if_neg c]
  · constructor
    · intro r hr hne
      rcases mem_update' hr with e | ⟨hm, _⟩
      · exact absurd (by rw [e]) hne
      · exact hm
    · intro r hr hne
      unfold update
      refine List.mem_map.2 ⟨r, hr, ?_⟩
      have : (r.id == q'.id) = false := by simpa using hne
      rw [this]; rfl

theorem update_frame' (ps : List (PeerSt H)) (q' : PeerSt H) (p : Nat) (h : q'.id = p) : Frame ps (update ps q') p :=
  h ▸ update_frame ps q'

theorem onHeadersReceived_frame (ps : List (PeerSt H)) (p : Nat) : Frame ps (onHeadersReceived ps p) p := by
  constructor
  · unfold onHeadersReceived
    rw [List.map_map]
    apply List.map_congr_left
    intro a _
    simp only [Function.comp]
    by_cases c : (a.id == p) = true
    · rw [if_pos c]; exact headersSeen_id a
    · rw [if_neg c]
  · constructor
    · intro r hr hne
      unfold onHeadersReceived at hr
      obtain ⟨a, ha, e⟩ := List.mem_map.1 hr
      by_cases c : (a.id == p) = true
      · rw [if_pos c] at e
        exfalso; apply hne; rw [← e, headersSeen_id]; simpa using c
      · rw [if_neg c] at e; rw [← e]; exact ha
    · intro r hr hne
      unfold onHeadersReceived
      refine List.mem_map.2 ⟨r, hr, ?_⟩
      have : (r.id == p) = false := by simpa using hne
      rw [this]; rfl

theorem disconnectPeer_frame (ps : List (PeerSt H)) (p : Nat) : Frame ps (disconnectPeer ps p).1 p := by
  unfold disconnectPeer
  split
  · exact Frame.refl ps p
  · rename_i q hq
    split
    · exact Frame.refl ps p
    · exact update_frame' ps { q with disc := true } p (lookup_mem hq).2

theorem pushTo_frame (st : State H) (p : Nat) (loc : List H) (stop : H) : Frame st.peers (pushTo st p loc stop).1.peers p := by
  unfold pushTo
  split
  · exact Frame.refl _ p
  · rename_i q hq
    exact update_frame' st.peers (pushGetHeaders q loc stop).1 p
      (by rw [(pushGetHeaders_fst q loc stop).1]; exact (lookup_mem hq).2)

theorem pushTo_syncPeer (st : State H) (p : Nat) (loc : List H) (stop : H) : (pushTo st p loc stop).1.syncPeer = st.syncPeer := by
  unfold pushTo; split <;> rfl

/-- a headers message of peer p touches nobody else's entry and never changes the sync peer -/
theorem handleHeadersCore_frame (cfg : Cfg H) (st : State H) (p : Nat) (hs : List (Src H)) :
    Frame st.peers (handleHeadersCore cfg st p hs).1.peers p ∧ (handleHeadersCore cfg st p hs).1.syncPeer = st.syncPeer := by
  unfold handleHeadersCore
  split
  · exact ⟨Frame.refl _ p, rfl⟩
  · split
    · exact ⟨Frame.refl _ p, rfl⟩
    · split
      · exact ⟨disconnectPeer_frame _ p, rfl⟩
      · split
        · exact ⟨Frame.refl _ p, rfl⟩
        · simp only []
          split
          · exact ⟨disconnectPeer_frame _ p, rfl⟩
          · exact ⟨disconnectPeer_frame _ p, rfl⟩
          · split
            · exact ⟨Frame.refl _ p, rfl⟩
            · split
              · split
                · exact ⟨Frame.refl _ p, rfl⟩
                · split
                  · exact ⟨pushTo_frame (State.mk st.peers _ _ _ _) p _ _, pushTo_syncPeer (State.mk _ st.syncPeer _ _ _) p _ _⟩
                  · exact ⟨pushTo_frame (State.mk st.peers _ _ _ _) p _ _, pushTo_syncPeer (State.mk _ st.syncPeer _ _ _) p _ _⟩
              · split
                · exact ⟨pushTo_frame (State.mk st.peers _ _ _ _) p _ _, pushTo_syncPeer (State.mk _ st.syncPeer _ _ _) p _ _⟩
                · exact ⟨pushTo_frame (State.mk st.peers _ _ _ _) p _ _, pushTo_syncPeer (State.mk _ st.syncPeer _ _ _) p _ _⟩

theorem handleHeaders_frame (cfg : Cfg H) (st : State H) (p : Nat) (hs : List (Src H)) :
    Frame st.peers (handleHeaders cfg st p hs).1.peers p ∧ (handleHeaders cfg st p hs).1.syncPeer = st.syncPeer := by
  unfold handleHeaders
  have h := handleHeadersCore_frame cfg { st with peers := onHeadersReceived st.peers p } p hs
  exact ⟨(onHeadersReceived_frame st.peers p).trans h.1, h.2⟩

/-! ### startSync among conformant candidates -/

theorem lookup_of_mem_nodup {ps : List (PeerSt H)} (hn : (ps.map (·.id)).Nodup) {r : PeerSt H} (hr : r ∈ ps) :
    lookup ps r.id = some r := by
  cases e : lookup ps r.id with
  | none =>
    unfold lookup at e
    rw [List.find?_eq_none] at e
    exact absurd (by simp) (e r hr)
  | some r' =>
    obtain ⟨hm, hid⟩ := lookup_mem e
    rw [inj_of_nodup_map (·.id) hn hm hr hid]

/-- the table side of the round invariant (everything in `LinInv` that is not about the sync peer's entry) -/
structure StoreAt (cfg : Cfg H) (g : Row H) (done : List (Src H)) (st : State H) : Prop where
  hf : st.headersFirst = true
  cursor : st.nextCp = cursorOf cfg done.length
  top : ∃ t, Top st.store t ∧ t.height = done.length ∧ t.hash = lastHash cfg.chain.hashOf g.hash done ∧
    st.store.map (·.hash) = g.hash :: done.map cfg.chain.hashOf

theorem LinInv.storeAt {cfg : Cfg H} {g : Row H} {C : List (Src H)} {p : Nat} {st : State H} {done rest : List (Src H)}
    {req : List H × H} (h : LinInv cfg g C p st done rest req) : StoreAt cfg g done st := by
  obtain ⟨t, _, h1, h2, h3, h4, _⟩ := h.core
  exact ⟨h.hf, h.cursor, t, h1, h2, h3, h4⟩

theorem StoreAt.tipHeight {cfg : Cfg H} {g : Row H} {done : List (Src H)} {st : State H} (h : StoreAt cfg g done st) :
    tipHeight st.store = done.length := by
  obtain ⟨t, ht, hh, _⟩ := h.top
  rw [ht.tipHeight_eq, hh]

/-- startSync without a sync peer, no candidate below our height, the pick landing on `bp`: the request the cursor
    calls for goes through `bp`'s duplicate filter, `bp` becomes the sync peer -/
theorem startSync_at (cfg : Cfg H) (g : Row H) (done : List (Src H)) (st : State H) (pick : Nat) (bp : PeerSt H)
    (hasc : Asc cfg.checkpoints) (hst : StoreAt cfg g done st) (hsync : st.syncPeer = none)
    (hnod : ∀ r ∈ st.peers, r.inMap = true → r.candidate = true → (tipHeight st.store : Int) ≤ r.lastBlock)
    (hbp : (syncCandidates st)[pick % (syncCandidates st).length]? = some bp) :
    startSync cfg st pick =
      ({ st with peers := update st.peers (pushGetHeaders bp (locator st.store) (stopOf cfg st.nextCp)).1,
                 syncPeer := some bp.id, headersFirst := true },
        (pushGetHeaders bp (locator st.store) (stopOf cfg st.nextCp)).2) := by
  have hdem : st.peers.map (fun q => if q.inMap && q.candidate && decide (q.lastBlock < ((tipHeight st.store : Nat) : Int))
      then { q with candidate := false } else q) = st.peers := by
    conv => rhs; rw [← List.map_id st.peers]
    apply List.map_congr_left
    intro r hr
    by_cases h1 : r.inMap = true
    · by_cases h2 : r.candidate = true
      · have := hnod r hr h1 h2
        have h3 : ¬ (r.lastBlock < ((tipHeight st.store : Nat) : Int)) := by omega
        simp [h1, h2, h3]
      · simp [h2]
    · simp [h1]
  unfold startSync
  simp only [hsync, Option.isSome_none, Bool.false_eq_true, if_false, hbp, hdem]
  cases hc : st.nextCp with
  | none => simp only [stopOf]; rw [hst.hf]
  | some c =>
    have hcur := hst.cursor
    rw [hc] at hcur
    obtain ⟨_, hfn⟩ := cursorOf_some hcur.symm
    obtain ⟨_, hk, _⟩ := (findNext_spec cfg.checkpoints hasc done.length).1 c hfn
    rw [hst.tipHeight]
    simp only [hk, if_true, stopOf]

/-- the other entries of the peer table: ids are distinct, and every entry other than `p` that is in the map and a
    candidate belongs to a connected, never-asked conformant node whose chain extends `C` and which advertised its length -/
structure Pool (cfg : Cfg H) (g : Row H) (C : List (Src H)) (nodeOf : Nat → Node H) (ps : List (PeerSt H)) (p : Nat) : Prop where
  nodup : (ps.map (·.id)).Nodup
  fresh : ∀ r ∈ ps, r.id ≠ p → r.inMap = true → r.candidate = true →
    r.disc = false ∧ r.prevBegin = none ∧ r.prevStop = none ∧ LinSetup cfg g (nodeOf r.id).chain (nodeOf r.id) ∧
      (∃ ext, (nodeOf r.id).chain = C ++ ext) ∧ r.lastBlock = ((nodeOf r.id).chain.length : Int)
  some : ∃ r ∈ ps, r.id ≠ p ∧ r.inMap = true ∧ r.candidate = true

theorem Pool.of_frame {cfg : Cfg H} {g : Row H} {C : List (Src H)} {nodeOf : Nat → Node H} {ps ps' : List (PeerSt H)} {p : Nat}
    (h : Pool cfg g C nodeOf ps p) (hf : Frame ps ps' p) : Pool cfg g C nodeOf ps' p := by
  refine ⟨by rw [hf.1]; exact h.nodup, fun r hr hne => h.fresh r (hf.2.1 r hr hne) hne, ?_⟩
  obtain ⟨r, hr, hne, h1, h2⟩ := h.some
  exact ⟨r, hf.2.2 r hr hne, hne, h1, h2⟩

theorem pushGetHeaders_flags (q : PeerSt H) (loc : List H) (stop : H) :
    (pushGetHeaders q loc stop).1.inMap = q.inMap ∧ (pushGetHeaders q loc stop).1.candidate = q.candidate := by
  unfold pushGetHeaders
  split <;> exact ⟨rfl, rfl⟩

theorem pushGetHeaders_disc_silent (q : PeerSt H) (loc : List H) (stop : H) (hd : q.disc = true) :
    (pushGetHeaders q loc stop).2 = [] := by
  unfold pushGetHeaders
  split
  · rfl
  · simp

/-- WHO startSync PICKS, for every pick: either one of the conformant candidates of the pool — it gets the request the
    cursor calls for and the round invariant holds for IT and its node's chain — or (only if an entry of `p` is still a
    candidate in the map, disconnected) that dead entry again, silently -/
theorem resync (cfg : Cfg H) (g : Row H) (C done rest : List (Src H)) (nodeOf : Nat → Node H) (st : State H) (p pick : Nat)
    (hasc : Asc cfg.checkpoints) (hC : C = done ++ rest) (hst : StoreAt cfg g done st) (hsync : st.syncPeer = none)
    (pool : Pool cfg g C nodeOf st.peers p)
    (hp : ∀ r ∈ st.peers, r.id = p → r.inMap = true → r.candidate = true →
      r.disc = true ∧ (tipHeight st.store : Int) ≤ r.lastBlock) :
    (∃ r ∈ st.peers, r.id ≠ p ∧ ∃ ext req', (nodeOf r.id).chain = C ++ ext ∧
        (startSync cfg st pick).2 = [Action.getheaders r.id req'.1 req'.2] ∧
        (startSync cfg st pick).1.syncPeer = some r.id ∧
        LinInv cfg g (nodeOf r.id).chain r.id (startSync cfg st pick).1 done (rest ++ ext) req' ∧
        Frame st.peers (startSync cfg st pick).1.peers r.id ∧ LinSetup cfg g (nodeOf r.id).chain (nodeOf r.id)) ∨
    ((startSync cfg st pick).2 = [] ∧ (startSync cfg st pick).1.syncPeer = some p ∧
        StoreAt cfg g done (startSync cfg st pick).1 ∧ Frame st.peers (startSync cfg st pick).1.peers p ∧
        (∃ q, lookup (startSync cfg st pick).1.peers p = some q ∧ q.inMap = true ∧ q.disc = true) ∧
        (∃ r ∈ st.peers, r.id = p ∧ r.inMap = true ∧ r.candidate = true)) := by
  have htip := hst.tipHeight
  have hdl : done.length ≤ C.length := by rw [hC, List.length_append]; omega
  have hnod : ∀ r ∈ st.peers, r.inMap = true → r.candidate = true → (tipHeight st.store : Int) ≤ r.lastBlock := by
    intro r hr h1 h2
    by_cases hid : r.id = p
    · exact (hp r hr hid h1 h2).2
    · obtain ⟨_, _, _, _, ⟨ext, hext⟩, hlb⟩ := pool.fresh r hr hid h1 h2
      rw [hlb, hext, List.length_append, htip]; omega
  -- a candidate exists
  have hcne : syncCandidates st ≠ [] := by
    obtain ⟨r, hr, hne, hrin, hrc⟩ := pool.some
    have hrlb := hnod r hr hrin hrc
    unfold syncCandidates
    by_cases hb : (bestPeers st).isEmpty = true
    · rw [if_pos hb]
      have hnb : ¬ (r.lastBlock > (tipHeight st.store : Int)) := by
        intro hgt
        have : r ∈ bestPeers st := by
          unfold bestPeers
          exact List.mem_filter.2 ⟨hr, by simp [hrin, hrc, hgt]⟩
        rw [List.isEmpty_iff.1 hb] at this
        cases this
      have : r ∈ okPeers st := by
        unfold okPeers
        refine List.mem_filter.2 ⟨hr, ?_⟩
        have : r.lastBlock = (tipHeight st.store : Int) := by omega
        simp [hrin, hrc, this]
      exact List.ne_nil_of_mem this
    · rw [if_neg hb]
      intro he
      rw [he] at hb
      exact hb rfl
  have hlen : 0 < (syncCandidates st).length := List.length_pos_iff.2 hcne
  obtain ⟨bp, hbp⟩ : ∃ bp, (syncCandidates st)[pick % (syncCandidates st).length]? = some bp :=
    ⟨_, List.getElem?_eq_getElem (Nat.mod_lt _ hlen)⟩
  have hbpm : bp ∈ syncCandidates st := List.mem_of_getElem? hbp
  have hbpps : bp ∈ st.peers := syncCandidates_mem hbpm
  have hbpf : bp.inMap = true ∧ bp.candidate = true := by
    unfold syncCandidates at hbpm
    split at hbpm
    · have := (List.mem_filter.1 hbpm).2
      simp only [Bool.and_eq_true] at this
      exact ⟨this.1.1, this.1.2⟩
    · have := (List.mem_filter.1 hbpm).2
      simp only [Bool.and_eq_true] at this
      exact ⟨this.1.1, this.1.2⟩
  have hss := startSync_at cfg g done st pick bp hasc hst hsync hnod hbp
  have hlook : lookup st.peers bp.id = some bp := lookup_of_mem_nodup pool.nodup hbpps
  obtain ⟨t, htop, hth, hthash, hmap⟩ := hst.top
  obtain ⟨more, hloc⟩ := locator_head htop.getTip
  by_cases hid : bp.id = p
  · -- the dead entry of p again
    right
    obtain ⟨hdisc, _⟩ := hp bp hbpps hid hbpf.1 hbpf.2
    rw [hss]
    refine ⟨pushGetHeaders_disc_silent bp _ _ hdisc, by rw [hid], ⟨rfl, hst.cursor, t, htop, hth, hthash, hmap⟩, ?_, ?_⟩
    · exact update_frame' st.peers _ p (by rw [(pushGetHeaders_fst bp _ _).1]; exact hid)
    · refine ⟨⟨(pushGetHeaders bp (locator st.store) (stopOf cfg st.nextCp)).1, ?_, ?_, ?_⟩, bp, hbpps, hid, hbpf.1, hbpf.2⟩
      · rw [← hid]; exact lookup_update hlook (pushGetHeaders_fst bp _ _).1
      · rw [(pushGetHeaders_flags bp _ _).1]; exact hbpf.1
      · rw [(pushGetHeaders_fst bp _ _).2]; exact hdisc
  · -- a conformant candidate
    left
    obtain ⟨hdisc, hpb, _, hsetup, ⟨ext, hext⟩, _⟩ := pool.fresh bp hbpps hid hbpf.1 hbpf.2
    have hne : bp.prevBegin ≠ (locator st.store).head? := by rw [hpb, hloc]; intro e; cases e
    have hpush := pushGetHeaders_fresh bp (locator st.store) (stopOf cfg st.nextCp) hne hdisc
    rw [hss, hpush]
    refine ⟨bp, hbpps, hid, ext, (locator st.store, stopOf cfg st.nextCp), hext, rfl, rfl, ?_, ?_, hsetup⟩
    · refine ⟨by rw [hext, hC, List.append_assoc], rfl, hst.cursor, rfl, ?_⟩
      refine ⟨t, { bp with prevBegin := (locator st.store).head?, prevStop := some (stopOf cfg st.nextCp) }, htop, hth, hthash,
        hmap, lookup_update hlook rfl, hbpf.1, hdisc, by rw [hloc]; rfl, by rw [hloc]; rfl⟩
    · exact update_frame' st.peers _ bp.id rfl

theorem lookup_update_ne {ps : List (PeerSt H)} {r : Nat} {q' : PeerSt H} (hne : q'.id ≠ r) :
    lookup (update ps q') r = lookup ps r := by
  unfold lookup update
  induction ps with
  | nil => rfl
  | cons a rest ih =>
    rw [List.map_cons, List.find?_cons, List.find?_cons]
    by_cases c : (a.id == q'.id) = true
    · have h1 : (q'.id == r) = false := by simpa using hne
      have h2 : (a.id == r) = false := by
        have : a.id = q'.id := by simpa using c
        rw [this]; exact h1
      simp only [c, if_true, h1, h2]
      exact ih
    · simp only [c, Bool.false_eq_true, if_false]
      cases (a.id == r)
      · exact ih
      · rfl

/-- THE SYNC PEER IS GONE (its done message arrives), whatever the state of its request: for every pick one of the
    conformant candidates of the pool becomes the sync peer, gets the request the cursor calls for, and the round
    invariant holds for it and its node's chain -/
theorem done_resync (cfg : Cfg H) (g : Row H) (C done rest : List (Src H)) (nodeOf : Nat → Node H) (st : State H) (p pick : Nat)
    (q : PeerSt H) (hasc : Asc cfg.checkpoints) (hC : C = done ++ rest) (hst : StoreAt cfg g done st)
    (hsync : st.syncPeer = some p) (hq : lookup st.peers p = some q) (hin : q.inMap = true)
    (pool : Pool cfg g C nodeOf st.peers p) :
    ∃ r ∈ st.peers, r.id ≠ p ∧ ∃ ext req', (nodeOf r.id).chain = C ++ ext ∧
      (donePeer cfg st p pick).2 = [Action.getheaders r.id req'.1 req'.2] ∧
      (donePeer cfg st p pick).1.syncPeer = some r.id ∧
      LinInv cfg g (nodeOf r.id).chain r.id (donePeer cfg st p pick).1 done (rest ++ ext) req' ∧
      LinSetup cfg g (nodeOf r.id).chain (nodeOf r.id) := by
  obtain ⟨_, hqid⟩ := lookup_mem hq
  have hfr : Frame st.peers (update st.peers { q with inMap := false, disc := true }) p :=
    update_frame' st.peers _ p hqid
  have hlook : lookup (update st.peers { q with inMap := false, disc := true }) p = some { q with inMap := false, disc := true } :=
    lookup_update hq rfl
  have hdisc : disconnectPeer (update st.peers { q with inMap := false, disc := true }) p =
      (update st.peers { q with inMap := false, disc := true }, []) := by
    unfold disconnectPeer
    rw [hlook]
    rfl
  have hdp : donePeer cfg st p pick =
      startSync cfg { st with peers := update st.peers { q with inMap := false, disc := true }, syncPeer := none } pick := by
    unfold donePeer
    rw [hq]
    simp only [hin, Bool.not_true, Bool.false_eq_true, if_false, hsync, if_true]
    unfold updateSyncPeer
    simp only [hdisc, List.nil_append]
  have hst1 : StoreAt cfg g done ({ st with peers := update st.peers { q with inMap := false, disc := true }, syncPeer := none } : State H) :=
    ⟨hst.hf, hst.cursor, hst.top⟩
  have hdead : ∀ r ∈ update st.peers { q with inMap := false, disc := true }, r.id = p → r.inMap = false := by
    intro r hr hid
    rcases mem_update' hr with e | ⟨_, hne⟩
    · rw [e]
    · exfalso
      have : (r.id == ({ q with inMap := false, disc := true } : PeerSt H).id) = true := by
        show (r.id == q.id) = true
        rw [hid, hqid]; simp
      rw [this] at hne; cases hne
  rcases resync cfg g C done rest nodeOf _ p pick hasc hC hst1 rfl (pool.of_frame hfr)
      (fun r hr hid hin' _ => by rw [hdead r hr hid] at hin'; cases hin') with
    ⟨r, hr, hne, ext, req', hext, hact, hsp, hinv, _, hsetup⟩ | ⟨_, _, _, _, _, r, hr, hid, hin', _⟩
  · rw [hdp]
    exact ⟨r, hfr.2.1 r hr hne, hne, ext, req', hext, hact, hsp, hinv, hsetup⟩
  · rw [hdead r hr hid] at hin'; cases hin'

/-- changing the entry of another peer does not disturb the round invariant of `r` -/
theorem LinInv.update_other {cfg : Cfg H} {g : Row H} {C : List (Src H)} {r : Nat} {st : State H} {done rest : List (Src H)}
    {req : List H × H} (h : LinInv cfg g C r st done rest req) (q' : PeerSt H) (hne : q'.id ≠ r) :
    LinInv cfg g C r { st with peers := update st.peers q' } done rest req := by
  obtain ⟨t, q, h1, h2, h3, h4, h5, h6⟩ := h.core
  exact ⟨h.split, h.hf, h.cursor, h.stop, t, q, h1, h2, h3, h4, by rw [show ({ st with peers := update st.peers q' } : State H).peers = update st.peers q' from rfl, lookup_update_ne hne]; exact h5, h6⟩

/-- the done message of a peer that is not the sync peer: its entry leaves the map, nothing else happens -/
theorem donePeer_other (cfg : Cfg H) (st : State H) (p r pick : Nat) (q : PeerSt H) (hq : lookup st.peers p = some q)
    (hin : q.inMap = true) (hs : st.syncPeer = some r) (hne : r ≠ p) :
    donePeer cfg st p pick = ({ st with peers := update st.peers { q with inMap := false, disc := true } }, []) := by
  unfold donePeer
  rw [hq]
  have h2 : ¬ (some r = some p) := fun e => hne (Option.some.inj e)
  simp only [hin, Bool.not_true, Bool.false_eq_true, if_false, hs, h2]

/-- THE SYNC PEER STALLS: the watchdog tick finds it stale while it advertised more than we have, then its done message
    arrives. For every pair of picks: the peer is disconnected, exactly one request goes out — to a conformant candidate
    of the pool — and the round invariant holds for that candidate and its node's chain. -/
theorem stall_resync (cfg : Cfg H) (g : Row H) (C done rest : List (Src H)) (nodeOf : Nat → Node H) (st : State H)
    (p pick1 pick2 : Nat) (req : List H × H) (q : PeerSt H) (hasc : Asc cfg.checkpoints)
    (hi : LinInv cfg g C p st done rest req) (hsync : st.syncPeer = some p) (hq : lookup st.peers p = some q)
    (hadv : (done.length : Int) < q.lastBlock)       -- it advertised more than we hold (otherwise: finding C06-F4c)
    (pool : Pool cfg g C nodeOf st.peers p) :
    ∃ r ∈ st.peers, r.id ≠ p ∧ ∃ ext req', (nodeOf r.id).chain = C ++ ext ∧
      (tick cfg st true pick1).2 ++ (donePeer cfg (tick cfg st true pick1).1 p pick2).2 =
        [Action.disconnect p, Action.getheaders r.id req'.1 req'.2] ∧
      (donePeer cfg (tick cfg st true pick1).1 p pick2).1.syncPeer = some r.id ∧
      LinInv cfg g (nodeOf r.id).chain r.id (donePeer cfg (tick cfg st true pick1).1 p pick2).1 done (rest ++ ext) req' ∧
      LinSetup cfg g (nodeOf r.id).chain (nodeOf r.id) := by
  have hst := hi.storeAt
  obtain ⟨t, q0, htop, hth, _, _, hq0, hin, hdisc, _, _⟩ := hi.core
  have hqq : q0 = q := by rw [hq] at hq0; exact (Option.some.inj hq0).symm
  subst hqq
  obtain ⟨hqm, hqid⟩ := lookup_mem hq
  have htip : tipHeight st.store = done.length := hst.tipHeight
  -- the tick
  have hex : exhausted q0 t.height = false := by
    unfold exhausted
    rw [hth]
    split
    · exact decide_eq_false (by omega)
    · exact decide_eq_false (by omega)
  obtain ⟨hdall, hdact⟩ := disconnectPeer_connected hq hdisc
  have hdp : (disconnectPeer st.peers p).1 = update st.peers { q0 with disc := true } := by
    unfold disconnectPeer
    rw [hq]
    simp [hdisc]
  have htick : tick cfg st true pick1 =
      ((startSync cfg { st with peers := update st.peers { q0 with disc := true }, syncPeer := none } pick1).1,
        Action.disconnect p :: (startSync cfg { st with peers := update st.peers { q0 with disc := true }, syncPeer := none } pick1).2) := by
    unfold tick
    rw [hsync]
    simp only [Bool.not_true, Bool.false_eq_true, if_false, htop.getTip, hq, hex, hin]
    unfold updateSyncPeer
    rw [hsync]
    simp only [hdact, hdp]
    simp [hin]
  have hfr : Frame st.peers (update st.peers { q0 with disc := true }) p := update_frame' st.peers _ p hqid
  have hst1 : StoreAt cfg g done ({ st with peers := update st.peers { q0 with disc := true }, syncPeer := none } : State H) :=
    ⟨hst.hf, hst.cursor, hst.top⟩
  have hpent : ∀ r ∈ update st.peers { q0 with disc := true }, r.id = p → r.inMap = true → r.candidate = true →
      r.disc = true ∧ (tipHeight st.store : Int) ≤ r.lastBlock := by
    intro r hr hid _ _
    rcases mem_update' hr with e | ⟨_, hne⟩
    · rw [e, htip]; exact ⟨rfl, by show (done.length : Int) ≤ q0.lastBlock; omega⟩
    · exfalso
      have : (r.id == ({ q0 with disc := true } : PeerSt H).id) = true := by
        show (r.id == q0.id) = true
        rw [hid, hqid]; simp
      rw [this] at hne; cases hne
  rcases resync cfg g C done rest nodeOf _ p pick1 hasc hi.split hst1 rfl (pool.of_frame hfr) hpent with
    ⟨r, hr, hne, ext, req', hext, hact, hsp, hinv, hfr2, hsetup⟩ | ⟨hact, hsp, hst2, hfr2, ⟨qd, hqd, hqdin, _⟩, _⟩
  · -- the tick already chose a conformant candidate; the done message of p then changes p's entry only
    have hrps : r ∈ st.peers := hfr.2.1 r hr hne
    refine ⟨r, hrps, hne, ext, req', hext, ?_⟩
    rw [htick]
    simp only []
    -- p's entry in the state after the tick
    have hpl : lookup (startSync cfg { st with peers := update st.peers { q0 with disc := true }, syncPeer := none } pick1).1.peers p =
        some { q0 with disc := true } := by
      have hmem : ({ q0 with disc := true } : PeerSt H) ∈ (startSync cfg { st with peers := update st.peers { q0 with disc := true }, syncPeer := none } pick1).1.peers := by
        apply hfr2.2.2
        · have := lookup_mem (lookup_update hq (q' := { q0 with disc := true }) rfl)
          exact this.1
        · show q0.id ≠ r.id
          rw [hqid]; exact fun e => hne e.symm
      have hnd : ((startSync cfg { st with peers := update st.peers { q0 with disc := true }, syncPeer := none } pick1).1.peers.map (·.id)).Nodup := by
        rw [hfr2.1, hfr.1]; exact pool.nodup
      have := lookup_of_mem_nodup hnd hmem
      conv => lhs; arg 2; rw [← hqid]
      exact this
    have hdone := donePeer_other cfg (startSync cfg { st with peers := update st.peers { q0 with disc := true }, syncPeer := none } pick1).1
      p r.id pick2 { q0 with disc := true } hpl hin hsp hne
    rw [hdone]
    refine ⟨by rw [hact]; rfl, hsp, ?_, hsetup⟩
    exact hinv.update_other _ (by show q0.id ≠ r.id; rw [hqid]; exact fun e => hne e.symm)
  · -- the tick chose the dead entry of p again (silently); its done message triggers the real choice
    have hpool2 : Pool cfg g C nodeOf (startSync cfg { st with peers := update st.peers { q0 with disc := true }, syncPeer := none } pick1).1.peers p :=
      (pool.of_frame hfr).of_frame hfr2
    obtain ⟨r, hr, hne, ext, req', hext, hact2, hsp2, hinv2, hsetup⟩ :=
      done_resync cfg g C done rest nodeOf _ p pick2 qd hasc hi.split hst2 hsp hqd hqdin hpool2
    have hrps : r ∈ st.peers := hfr.2.1 r (hfr2.2.1 r hr hne) hne
    refine ⟨r, hrps, hne, ext, req', hext, ?_⟩
    rw [htick]
    simp only []
    exact ⟨by rw [hact, hact2]; rfl, hsp2, hinv2, hsetup⟩

/-! ### later announcements while a sync peer is at work -/

theorem lookup_append_some {ps : List (PeerSt H)} {p : Nat} {q : PeerSt H} (h : lookup ps p = some q) (more : List (PeerSt H)) :
    lookup (ps ++ more) p = some q := by
  unfold lookup at h ⊢
  rw [List.find?_append, h]; rfl

theorem lookup_none_of_not_mem {ps : List (PeerSt H)} {p : Nat} (h : p ∉ ps.map (·.id)) : lookup ps p = none := by
  unfold lookup
  rw [List.find?_eq_none]
  intro r hr hid
  exact h (List.mem_map.2 ⟨r, hr, by simpa using hid⟩)

/-- the announcement of a peer object under a new id while `p` is the sync peer: nothing is sent, the entry is appended -/
theorem newPeer_fresh_id (cfg : Cfg H) (st : State H) (p p' : Nat) (c : Bool) (lb : Int) (pick : Nat)
    (hsync : st.syncPeer = some p) (hnew : p' ∉ st.peers.map (·.id)) :
    newPeer cfg st p' c lb pick =
      ({ st with peers := st.peers ++ [{ id := p', inMap := true, candidate := c, lastBlock := lb, startHeight := lb,
                                         prevBegin := none, prevStop := none, disc := false }] }, []) := by
  unfold newPeer
  simp only [hsync, Option.isNone_some, Bool.and_false, Bool.false_eq_true, if_false]
  unfold insert
  rw [lookup_none_of_not_mem hnew]
  rfl

/-- ANY announcement under another id (new or re-used, candidate or not, any advertised height, any pick) while `p` is
    the sync peer: nothing is sent, `p` stays the sync peer, the round invariant of `p` is untouched -/
theorem newPeer_other (cfg : Cfg H) (g : Row H) (C : List (Src H)) (st : State H) (p p' : Nat) (c : Bool) (lb : Int)
    (pick : Nat) (done rest : List (Src H)) (req : List H × H) (hsync : st.syncPeer = some p) (hne : p' ≠ p)
    (hi : LinInv cfg g C p st done rest req) :
    (newPeer cfg st p' c lb pick).2 = [] ∧ (newPeer cfg st p' c lb pick).1.syncPeer = some p ∧
      (newPeer cfg st p' c lb pick).1.store = st.store ∧
      LinInv cfg g C p (newPeer cfg st p' c lb pick).1 done rest req := by
  obtain ⟨t, q, h1, h2, h3, h4, h5, h6⟩ := hi.core
  have hnp : newPeer cfg st p' c lb pick =
      ({ st with peers := insert st.peers { id := p', inMap := true, candidate := c, lastBlock := lb, startHeight := lb,
                                            prevBegin := none, prevStop := none, disc := false } }, []) := by
    unfold newPeer
    simp only [hsync, Option.isNone_some, Bool.and_false, Bool.false_eq_true, if_false]
  rw [hnp]
  refine ⟨rfl, hsync, rfl, hi.split, hi.hf, hi.cursor, hi.stop, t, q, h1, h2, h3, h4, ?_, h6⟩
  show lookup (insert st.peers _) p = some q
  unfold insert
  split
  · rw [lookup_update_ne (by exact hne)]; exact h5
  · exact lookup_append_some h5 _

/-- the event announces a peer object under an id other than `p` -/
def OtherAnnouncement (p : Nat) : Event H → Prop
  | .newPeer p' _ _ => p' ≠ p
  | _ => False

/-- … and so for any sequence of such announcements, in any order, with any picks -/
theorem announcements_other (cfg : Cfg H) (g : Row H) (C : List (Src H)) (p : Nat) (done rest : List (Src H)) (req : List H × H) :
    ∀ (evs : List (Nat × Event H)) (st : State H), st.syncPeer = some p → (∀ e ∈ evs, OtherAnnouncement p e.2) →
      LinInv cfg g C p st done rest req →
      (runEvents cfg st evs).2 = [] ∧ (runEvents cfg st evs).1.syncPeer = some p ∧
        (runEvents cfg st evs).1.store = st.store ∧ LinInv cfg g C p (runEvents cfg st evs).1 done rest req := by
  intro evs
  induction evs with
  | nil => intro st hs _ hi; exact ⟨rfl, hs, rfl, hi⟩
  | cons e more ih =>
    intro st hs hev hi
    obtain ⟨pick, ev⟩ := e
    have h0 := hev (pick, ev) List.mem_cons_self
    cases ev with
    | newPeer p' c lb =>
      obtain ⟨a1, a2, a3, a4⟩ := newPeer_other cfg g C st p p' c lb pick done rest req hs h0 hi
      obtain ⟨b1, b2, b3, b4⟩ := ih (newPeer cfg st p' c lb pick).1 a2 (fun e he => hev e (List.mem_cons_of_mem _ he)) a4
      refine ⟨?_, b2, by rw [← a3]; exact b3, b4⟩
      show (newPeer cfg st p' c lb pick).2 ++ (runEvents cfg (newPeer cfg st p' c lb pick).1 more).2 = []
      rw [a1, b1]; rfl
    | headers _ _ => exact absurd h0 (fun h => h)
    | inv _ _ => exact absurd h0 (fun h => h)
    | donePeer _ => exact absurd h0 (fun h => h)
    | tick _ => exact absurd h0 (fun h => h)

/-- the announcements of conformant nodes: (peer id, pick); every node advertises its chain length -/
def conformantAnnouncements (nodeOf : Nat → Node H) (anns : List (Nat × Nat)) : List (Nat × Event H) :=
  anns.map (fun a => (a.2, Event.newPeer a.1 true ((nodeOf a.1).chain.length : Int)))

/-- HOW A POOL COMES ABOUT: while `p` is the sync peer, conformant nodes whose chains extend `C` are announced under new,
    distinct ids (at least one): nothing is sent, `p` stays, and the table is a pool of fresh conformant candidates -/
theorem pool_of_announcements (cfg : Cfg H) (g : Row H) (C : List (Src H)) (nodeOf : Nat → Node H) (p : Nat) :
    ∀ (anns : List (Nat × Nat)) (st : State H), anns ≠ [] → st.syncPeer = some p → p ∈ st.peers.map (·.id) →
      (st.peers.map (·.id) ++ anns.map (·.1)).Nodup →
      (∀ r ∈ st.peers, r.id ≠ p → r.inMap = true → r.candidate = true →
        r.disc = false ∧ r.prevBegin = none ∧ r.prevStop = none ∧ LinSetup cfg g (nodeOf r.id).chain (nodeOf r.id) ∧
          (∃ ext, (nodeOf r.id).chain = C ++ ext) ∧ r.lastBlock = ((nodeOf r.id).chain.length : Int)) →
      (∀ a ∈ anns, LinSetup cfg g (nodeOf a.1).chain (nodeOf a.1) ∧ ∃ ext, (nodeOf a.1).chain = C ++ ext) →
      Pool cfg g C nodeOf (runEvents cfg st (conformantAnnouncements nodeOf anns)).1.peers p := by
  intro anns
  induction anns with
  | nil => intro st h; exact absurd rfl h
  | cons a more ih =>
    intro st _ hs hp hnd hfresh hconf
    obtain ⟨p', pick⟩ := a
    have hnd' : (st.peers.map (·.id) ++ p' :: more.map (·.1)).Nodup := hnd
    have hnew : p' ∉ st.peers.map (·.id) := by
      intro hm
      exact (List.nodup_append.1 hnd').2.2 _ hm p' List.mem_cons_self rfl
    have hne : p' ≠ p := fun e => hnew (e ▸ hp)
    have hstep : newPeer cfg st p' true ((nodeOf p').chain.length : Int) pick =
        ({ st with peers := st.peers ++ [freshPeer p' ((nodeOf p').chain.length : Int)] }, []) :=
      newPeer_fresh_id cfg st p p' true ((nodeOf p').chain.length : Int) pick hs hnew
    have hrun : runEvents cfg st (conformantAnnouncements nodeOf ((p', pick) :: more)) =
        ((runEvents cfg (newPeer cfg st p' true ((nodeOf p').chain.length : Int) pick).1 (conformantAnnouncements nodeOf more)).1,
          (newPeer cfg st p' true ((nodeOf p').chain.length : Int) pick).2 ++
            (runEvents cfg (newPeer cfg st p' true ((nodeOf p').chain.length : Int) pick).1 (conformantAnnouncements nodeOf more)).2) := rfl
    rw [hrun, hstep]
    simp only []
    -- the table after this announcement
    have hids : (st.peers ++ [(freshPeer p' ((nodeOf p').chain.length : Int) : PeerSt H)]).map (·.id) =
        st.peers.map (·.id) ++ [p'] := by rw [List.map_append]; rfl
    have hnd1 : ((st.peers.map (·.id) ++ [p']) ++ more.map (·.1)).Nodup := by
      rw [List.append_assoc]; exact hnd'
    have hfresh1 : ∀ r ∈ st.peers ++ [(freshPeer p' ((nodeOf p').chain.length : Int) : PeerSt H)],
        r.id ≠ p → r.inMap = true → r.candidate = true →
        r.disc = false ∧ r.prevBegin = none ∧ r.prevStop = none ∧ LinSetup cfg g (nodeOf r.id).chain (nodeOf r.id) ∧
          (∃ ext, (nodeOf r.id).chain = C ++ ext) ∧ r.lastBlock = ((nodeOf r.id).chain.length : Int) := by
      intro r hr
      rcases List.mem_append.1 hr with h | h
      · exact hfresh r h
      · rw [List.mem_singleton.1 h]
        intro _ _ _
        obtain ⟨h1, h2⟩ := hconf (p', pick) List.mem_cons_self
        exact ⟨rfl, rfl, rfl, h1, h2, rfl⟩
    by_cases hm : more = []
    · subst hm
      show Pool cfg g C nodeOf (st.peers ++ [freshPeer p' ((nodeOf p').chain.length : Int)]) p
      refine ⟨by rw [hids]; simpa using hnd1, hfresh1, _, List.mem_append_right _ (List.mem_singleton.2 rfl), hne, rfl, rfl⟩
    · exact ih _ hm hs (by rw [hids]; exact List.mem_append_left _ hp) (by rw [hids]; exact hnd1) hfresh1
        (fun a ha => hconf a (List.mem_cons_of_mem _ ha))

/-- the state New + first candidate: that candidate is the sync peer and the only entry of the table -/
theorem first_peer_table (cfg : Cfg H) (store0 : Store H) (p pick : Nat) (lb : Int) (hlb : (tipHeight store0 : Int) ≤ lb) :
    (newPeer cfg (new cfg store0) p true lb pick).1.syncPeer = some p ∧
      (newPeer cfg (new cfg store0) p true lb pick).1.peers.map (·.id) = [p] := by
  have hnp : newPeer cfg (new cfg store0) p true lb pick =
      startSync cfg { peers := [freshPeer p lb], syncPeer := none, headersFirst := newHeadersFirst cfg store0, nextCp := cursorOf cfg (tipHeight store0), store := store0 } pick := by
    rw [new_eq]
    unfold newPeer
    simp [Sync.insert, lookup, freshPeer]
  rw [hnp, startSync_single cfg p pick _ _ _ _ hlb]
  split <;> exact ⟨rfl, rfl⟩

/-- a headers message of the sync peer (any content) leaves the pool of the others and the choice of sync peer alone -/
theorem Pool.handleHeaders {cfg : Cfg H} {g : Row H} {C : List (Src H)} {nodeOf : Nat → Node H} {st : State H} {p : Nat}
    (h : Pool cfg g C nodeOf st.peers p) (hs : List (Src H)) :
    Pool cfg g C nodeOf (handleHeaders cfg st p hs).1.peers p ∧ (handleHeaders cfg st p hs).1.syncPeer = st.syncPeer :=
  ⟨h.of_frame (handleHeaders_frame cfg st p hs).1, (handleHeaders_frame cfg st p hs).2⟩

end BHS.Sync
