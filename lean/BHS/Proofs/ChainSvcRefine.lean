/-
Refinement: the REGENERATED translation of `Chains.Add` (BHS/Gen/ChainSvc.lean, produced from
/repo/service/chain_service.go and /repo/domains/headers.go by harness/cmd/extract/gen_chainsvc.go on every run)
computes exactly the hand model `plan` / `add` of BHS/Model/Chain.lean.

One lemma per translated Go function: its value on the arguments that occur (`some r` for non-nil pointers,
`l.map some` for the repository's slices) expressed with the hand model's functions. The lemmas are proved by
unfolding the generated definition and simplifying, so a cosmetic change of the Go text (renamed local, reordered
independent statements) is absorbed, while a semantic change leaves a goal open. The loops go through one generic
lemma (`forIn_map_yield`). Main results: `Gen_add_refines`, `Gen_add_fault_refines` (re-exported in BHS/Props/ChainSvc.lean).
Core Lean only.
-/
import BHS.Model.RepoM
import BHS.Gen.ChainSvc

set_option linter.unusedSectionVars false
set_option linter.unusedSimpArgs false

namespace BHS.Chain.Refine
open BHS.Gen.ChainSvc
variable {H : Type} [DecidableEq H] [Inhabited H]

/-! ### the monad and the primitives -/

theorem readStore_run {α : Type} (f : Store H → α) (st : RState H) (hl : st.locked = true) :
    (readStore f).run st = pure (f st.store, st) := by
  unfold readStore StateT.run
  simp only [hl, ↓reduceIte]
  rfl

theorem lockMutex_run (s : Store H) (ws : List (Write H)) (f : Option Nat) :
    (lockMutex (H := H)).run { store := s, writes := ws, failIn := f, locked := false } =
      pure ((), { store := s, writes := ws, failIn := f, locked := true }) := rfl

theorem pure_ok {α : Type} (a : α) : (pure a : Except Fault α) = .ok a := rfl

theorem ok_bind {α β : Type} (a : α) (f : α → Except Fault β) : (Except.ok a >>= f) = f a := rfl

theorem deref_some {α : Type} (a : α) : deref (H := H) (some a) = pure a := rfl

theorem index_zero {α : Type} (a : α) (l : List α) : index (H := H) (a :: l) 0 = pure a := rfl

theorem andM_pure (a : Bool) (y : RepoM H Bool) : (pure a <&&> y) = if a then y else pure false := by
  cases a <;> simp [andM, toBool]

theorem orM_pure (a : Bool) (y : RepoM H Bool) : (pure a <||> y) = if a then pure true else y := by
  cases a <;> simp [orM, toBool]

theorem writeStore_run (w : Write H) (s : Store H) (ws : List (Write H)) :
    (writeStore w).run { store := s, writes := ws, failIn := none, locked := true } =
      pure (none, { store := applyWrite s w, writes := ws ++ [w], failIn := none, locked := true }) := rfl

theorem getHeaderByHash_run (h : H) (st : RState H) (hl : st.locked = true) :
    (getHeaderByHash h).run st =
      pure ((match byHash st.store h with | some r => (some r, none) | none => (none, some .notFound)), st) :=
  readStore_run _ st hl

theorem getTip_run (st : RState H) (hl : st.locked = true) :
    (getTip' (H := H)).run st =
      pure ((match getTip st.store with
        | some r => (some r, none) | none => (none, some (.noRow "could not find tip"))), st) :=
  readStore_run _ st hl

theorem lcAtHeight_lc {s : Store H} {ht : Nat} {r : Row H} (h : lcAtHeight s ht = some r) : r.st = .lc := by
  have := List.find?_some h
  simp at this
  exact this.2

/-- a `for … range` loop without early exit whose body, on the elements and loop states that occur, is a pure update
    of the loop state -/
theorem forIn_map_yield {α β γ : Type} (e : γ → α) (l : List γ) (P : β → Prop) (b : β)
    (body : α → β → RepoM H (ForInStep β)) (g : β → γ → β)
    (hP : P b) (hg : ∀ b c, c ∈ l → P b → P (g b c))
    (hb : ∀ c b, c ∈ l → P b → body (e c) b = pure (.yield (g b c))) :
    forIn (l.map e) b body = pure (l.foldl g b) := by
  induction l generalizing b with
  | nil => rfl
  | cons a l ih =>
    simp only [List.map_cons, List.forIn_cons, List.foldl_cons]
    rw [hb a b (List.mem_cons_self) hP]
    simp only [pure_bind]
    exact ih (g b a) (hg b a (List.mem_cons_self) hP) (fun b c hc => hg b c (List.mem_cons_of_mem _ hc))
      (fun c b hc => hb c b (List.mem_cons_of_mem _ hc))

/-! ### domains/headers.go -/

theorem IsOrphan_some (r : Row H) : IsOrphan (some r) = (pure (r.st == St.orphan) : RepoM H Bool) := rfl

theorem IsLongestChain_some (r : Row H) : IsLongestChain (some r) = (pure (r.st == St.lc) : RepoM H Bool) := rfl

/-- domains.NewOrphanPreviousBlockHeader -/
def orphanPrev : Row H :=
  { id := 0, height := 0, hash := default, version := 0, merkle := default, time := 0, bits := 0, nonce := 0, st := St.orphan, work := 0, cum := 0, prev := default }

theorem NewOrphanPreviousBlockHeader_eq :
    NewOrphanPreviousBlockHeader (H := H) = pure (some orphanPrev) := rfl

theorem CreateHeader_eq (hash : H) (x : Src H) (p : Row H) :
    CreateHeader hash x (some p) = pure { id := 0, hash := hash, prev := x.prev, merkle := x.merkle, height := p.height + 1, version := x.version, time := x.time, bits := x.bits, nonce := x.nonce, work := work x.bits, cum := p.cum + work x.bits, st := p.st } := by
  unfold CreateHeader
  cases h : p.st <;> simp [IsOrphan_some, IsLongestChain_some, deref_some, h] <;> rfl

/-! ### chain: first, hashes, lowestHeightOf -/

/-- one step of the loop of `(*chain).first` -/
def pickLow (f ch : Row H) : Row H := if ch.height < f.height then ch else f

theorem foldl_map_some (l : List (Row H)) (f : Row H) :
    l.foldl (fun (b : Option (Row H)) c => b.map (fun f => pickLow f c)) (some f) = some (l.foldl pickLow f) := by
  induction l generalizing f with
  | nil => rfl
  | cons a l ih => exact ih _

theorem chain_first_eq (l : List (Row H)) :
    chain_first (l.map some) = pure (match l with | [] => none | a :: _ => some (l.foldl pickLow a)) := by
  unfold chain_first
  cases l with
  | nil => rfl
  | cons a l =>
    simp only [List.map_cons, index_zero, pure_bind]
    rw [← List.map_cons, forIn_map_yield some (a :: l) (fun b => b.isSome) (some a) _
      (fun b c => b.map (fun f => pickLow f c)) rfl]
    · simp [foldl_map_some]
    · intro b c _ hb; cases b <;> simp_all
    · intro c b _ hb
      cases b with
      | none => cases hb
      | some f => simp [deref_some, pickLow]; split <;> rfl

theorem foldl_set_zipIdx (l : List (Row H)) (pre mid suf : List H) (hm : mid.length = l.length) :
    (l.zipIdx pre.length).foldl (fun hs (c : Row H × Nat) => hs.set c.2 c.1.hash) (pre ++ mid ++ suf)
      = pre ++ l.map (·.hash) ++ suf := by
  induction l generalizing pre mid with
  | nil =>
    cases mid with
    | nil => rfl
    | cons _ _ => cases hm
  | cons a l ih =>
    cases mid with
    | nil => cases hm
    | cons m mid =>
      simp only [List.zipIdx_cons, List.foldl_cons]
      have e : (pre ++ m :: mid ++ suf).set pre.length a.hash = (pre ++ [a.hash]) ++ mid ++ suf := by simp
      have e2 : pre.length + 1 = (pre ++ [a.hash]).length := by simp
      rw [e, e2, ih (pre ++ [a.hash]) mid (by simpa using hm)]
      simp

theorem chain_hashes_eq (l : List (Row H)) : chain_hashes (l.map some) = pure (l.map (·.hash)) := by
  unfold chain_hashes
  dsimp only
  rw [List.zipIdx_map, forIn_map_yield (Prod.map some id) l.zipIdx (fun hs => hs.length = l.length) _ _
    (fun hs (c : Row H × Nat) => hs.set c.2 c.1.hash) (by simp)]
  · have := foldl_set_zipIdx l [] (List.replicate l.length default) [] (by simp)
    simp only [List.nil_append, List.append_nil, List.length_nil] at this
    simp [this]
  · intro b c _ hb; simpa using hb
  · intro c b hc hb
    obtain ⟨r, i⟩ := c
    have hi := (List.mem_zipIdx' hc).1
    simp [setIndex, deref_some, hb, hi]

theorem pickLow_height (l : List (Row H)) (f : Row H) :
    (l.foldl pickLow f).height = l.foldl (fun m r => min m r.height) f.height := by
  induction l generalizing f with
  | nil => rfl
  | cons a l ih =>
    simp only [List.foldl_cons]
    rw [ih]
    congr 1
    unfold pickLow
    split <;> simp only [Nat.min_def] <;> split <;> omega

theorem min_foldl (l : List (Row H)) (m k : Nat) :
    min k (l.foldl (fun m r => min m r.height) m) = l.foldl (fun m r => min m r.height) (min k m) := by
  induction l generalizing m with
  | nil => rfl
  | cons a l ih => simp only [List.foldl_cons]; rw [ih, Nat.min_assoc]

theorem lowestHeightOf_eq (l : List (Row H)) (r : Row H) :
    lowestHeightOf (l.map some) (some r) = pure (lowestHeight l r.height) := by
  unfold lowestHeightOf lowestHeight
  rw [chain_first_eq]
  cases l with
  | nil => rfl
  | cons a l =>
    simp only [pure_bind, Option.isSome_some, deref_some, List.foldl_cons]
    have e : (List.foldl pickLow a (a :: l)).height = l.foldl (fun m r => min m r.height) a.height := by
      rw [pickLow_height]; simp
    rw [← min_foldl, Nat.min_comm, ← List.foldl_cons (f := pickLow), e]
    simp only [andM_pure, orM_pure, if_true, pure_bind, decide_eq_true_eq]
    generalize List.foldl (fun m r => min m r.height) a.height l = m
    generalize r.height = k
    rcases Nat.lt_trichotomy m k with h | h | h
    · simp [h, Nat.le_of_lt h, Nat.not_le_of_lt h, Nat.lt_asymm h, Nat.ne_of_lt h, Nat.min_eq_left (Nat.le_of_lt h)]
    · subst h; simp
    · simp [h, Nat.le_of_lt h, Nat.not_le_of_lt h, Nat.lt_asymm h, Nat.ne_of_gt h, Nat.min_eq_right (Nat.le_of_lt h)]

/-! ### service/chain_service.go -/

theorem ignoreBlockHash_eq (cfg : Cfg H) (h : H) :
    ignoreBlockHash cfg h = pure (decide (h ∈ cfg.forbidden)) := by
  unfold ignoreBlockHash
  generalize cfg.forbidden = l
  induction l with
  | nil => rfl
  | cons a l ih =>
    simp only [List.forIn_cons]
    by_cases hh : h = a
    · simp [hh]
    · simp [hh]
      simpa using ih

theorem previousHeader_run (cfg : Cfg H) (x : Src H) (st : RState H) (hl : st.locked = true) :
    (previousHeader cfg x).run st = pure ((some ((byHash st.store x.prev).getD orphanPrev), none), st) := by
  unfold previousHeader
  simp only [StateT.run_bind, getHeaderByHash_run _ _ hl, pure_bind]
  cases byHash st.store x.prev <;> rfl

/-- the header `createHeader` builds: `mkRow` without a rowid -/
def mkRow0 (cfg : Cfg H) (s : Store H) (x : Src H) : Row H := { mkRow cfg s x with id := 0 }

theorem createHeader_run (cfg : Cfg H) (x : Src H) (st : RState H) (hl : st.locked = true) :
    (createHeader cfg (cfg.hashOf x) x).run st = pure ((some (mkRow0 cfg st.store x), none), st) := by
  unfold createHeader
  simp only [StateT.run_bind, previousHeader_run _ _ _ hl, pure_bind, CreateHeader_eq]
  unfold mkRow0 mkRow parentInfo
  cases byHash st.store x.prev <;> rfl

theorem hasConcurrent_run (cfg : Cfg H) (r : Row H) (st : RState H) (hl : st.locked = true) :
    (hasConcurrentHeaderFromLongestChain cfg (some r)).run st = pure (concurrent st.store r, st) := by
  unfold hasConcurrentHeaderFromLongestChain concurrent getHeaderByHeight
  cases hst : r.st
  · by_cases hw : r.work = 0
    · simp [IsOrphan_some, IsLongestChain_some, hst, hw, bigSign, deref_some, andM_pure, orM_pure]
    · cases hl' : lcAtHeight st.store r.height with
      | none =>
        simp [IsOrphan_some, IsLongestChain_some, hst, hw, bigSign, deref_some, andM_pure, orM_pure, readStore_run _ _ hl, hl']
      | some oh =>
        simp [IsOrphan_some, IsLongestChain_some, hst, hw, bigSign, deref_some, andM_pure, orM_pure, readStore_run _ _ hl, hl',
          lcAtHeight_lc hl']
        rfl
  · simp [IsOrphan_some, IsLongestChain_some, hst]
  · simp [IsOrphan_some, IsLongestChain_some, hst]

theorem insert_run (cfg : Cfg H) (r : Row H) (s : Store H) (ws : List (Write H)) :
    (Gen.ChainSvc.insert cfg (some r)).run { store := s, writes := ws, failIn := none, locked := true } =
      pure ((some r, none), { store := applyWrite s (.insert { r with id := s.length }), writes := ws ++ [.insert { r with id := s.length }], failIn := none, locked := true }) := by
  unfold Gen.ChainSvc.insert addHeaderToDatabase
  simp [deref_some, readStore_run, writeStore_run]

theorem stalePart_run (cfg : Cfg H) (r : Row H) (st : RState H) (hl : st.locked = true) :
    (stalePartOfChainOf cfg (some r)).run st = pure (((staleBackFrom st.store r.prev).map some, none), st) := by
  unfold stalePartOfChainOf getStaleChainHeadersBackFrom
  simp [deref_some, readStore_run _ _ hl]

theorem lcFrom_run (cfg : Cfg H) (ht : Nat) (st : RState H) (hl : st.locked = true) :
    (longestChainFromHeight cfg ht).run st = pure (((lcFromHeight st.store ht).map some, none), st) := by
  unfold longestChainFromHeight getLongestChainHeadersFromHeight
  simp [readStore_run _ _ hl]

theorem switch_run (cfg : Cfg H) (r : Row H) (s : Store H) (ws : List (Write H)) :
    (switchChainsStates cfg (some r)).run { store := s, writes := ws, failIn := none, locked := true } = pure (none,
      { store := applyWrites s (switchWrites s r), writes := ws ++ switchWrites s r, failIn := none, locked := true }) := by
  unfold switchChainsStates updateState switchWrites
  simp only [StateT.run_bind, stalePart_run, lcFrom_run, pure_bind, lowestHeightOf_eq, chain_hashes_eq,
    Option.isSome_none, Bool.false_eq_true, ↓reduceIte]
  generalize staleBackFrom s r.prev = stale
  generalize lcFromHeight s (lowestHeight stale r.height) = conc
  cases stale <;> cases conc <;>
    simp [writeStore_run, applyWrites, chain_hashes_eq, StateT.run_bind, stalePart_run, lcFrom_run, lowestHeightOf_eq]
  all_goals rfl


/-! ### storage faults: the write with 0-based index `k` returns an error (`failIn = some k`) -/

/-- issuing the write list `ws` with budget `f`, the code stopping at the first failed write:
    (failed?, the prefix that was executed, the budget left) -/
def issue (f : Option Nat) (ws : List (Write H)) : Bool × List (Write H) × Option Nat :=
  match f with
  | none => (false, ws, none)
  | some k => if k < ws.length then (true, ws.take k, none) else (false, ws, some (k - ws.length))

theorem writeStore_run_f (w : Write H) (s : Store H) (ws : List (Write H)) (f : Option Nat) :
    (writeStore w).run { store := s, writes := ws, failIn := f, locked := true } =
      pure (if (issue f [w]).1 then some Err.storage else none,
        { store := applyWrites s (issue f [w]).2.1, writes := ws ++ (issue f [w]).2.1, failIn := (issue f [w]).2.2, locked := true }) := by
  cases f with
  | none => simp [issue, applyWrites]; rfl
  | some k => cases k <;> simp [issue, applyWrites] <;> rfl

theorem insert_run_f (cfg : Cfg H) (r : Row H) (s : Store H) (ws : List (Write H)) (f : Option Nat) :
    (Gen.ChainSvc.insert cfg (some r)).run { store := s, writes := ws, failIn := f, locked := true } =
      pure ((some r, if (issue f [Write.insert { r with id := s.length }]).1 then some (Err.causedBy "HeaderSaveFail" Err.storage) else none),
        { store := applyWrites s (issue f [Write.insert { r with id := s.length }]).2.1, writes := ws ++ (issue f [Write.insert { r with id := s.length }]).2.1, failIn := (issue f [Write.insert { r with id := s.length }]).2.2, locked := true }) := by
  unfold Gen.ChainSvc.insert addHeaderToDatabase
  simp only [StateT.run_bind, deref_some, pure_bind, readStore_run, writeStore_run_f]
  cases h : (issue f [Write.insert { r with id := s.length }]).1 <;> simp [h, causedBy]

theorem switch_run_f (cfg : Cfg H) (r : Row H) (s : Store H) (ws : List (Write H)) (f : Option Nat) :
    (switchChainsStates cfg (some r)).run { store := s, writes := ws, failIn := f, locked := true } =
      pure (if (issue f (switchWrites s r)).1 then some (Err.causedBy "ChainUpdateFail" Err.storage) else none,
        { store := applyWrites s (issue f (switchWrites s r)).2.1, writes := ws ++ (issue f (switchWrites s r)).2.1, failIn := (issue f (switchWrites s r)).2.2, locked := true }) := by
  unfold switchChainsStates updateState switchWrites
  simp only [StateT.run_bind, stalePart_run, lcFrom_run, pure_bind, lowestHeightOf_eq, chain_hashes_eq,
    Option.isSome_none, Bool.false_eq_true, ↓reduceIte]
  by_cases h1 : staleBackFrom s r.prev = []
  · simp only [h1]
    by_cases h2 : lcFromHeight s (lowestHeight ([] : List (Row H)) r.height) = [] <;> simp [h2, List.length_pos_iff]
    all_goals
      rcases f with _ | k
      · simp [issue, writeStore_run_f, applyWrites, causedBy]
      · rcases k with _ | _ | k
        · simp [issue, writeStore_run_f, applyWrites, causedBy]
        · simp [issue, writeStore_run_f, applyWrites, causedBy]
        · simp [issue, writeStore_run_f, applyWrites, causedBy, show ¬ (k + 1 + 1 < 1) by omega]
  · by_cases h2 : lcFromHeight s (lowestHeight (staleBackFrom s r.prev) r.height) = [] <;>
      simp [h1, h2, List.length_pos_iff]
    all_goals
      rcases f with _ | k
      · simp [issue, writeStore_run_f, applyWrites, causedBy]
      · rcases k with _ | _ | k
        · simp [issue, writeStore_run_f, applyWrites, causedBy]
        · simp [issue, writeStore_run_f, applyWrites, causedBy]
        · simp [issue, writeStore_run_f, applyWrites, causedBy, show ¬ (k + 1 + 1 < 1) by omega,
            show ¬ (k + 1 + 1 < 2) by omega]

/-! ### hand-model facts used to line the two sides up -/

theorem length_setState (s : Store H) (hs : List H) (st : St) : (setState s hs st).length = s.length := by
  unfold setState; simp

theorem length_switch (s : Store H) (r : Row H) : (applyWrites s (switchWrites s r)).length = s.length := by
  unfold switchWrites applyWrites
  dsimp only
  split <;> split <;> simp [applyWrite, length_setState]

theorem applyWrites_append (s : Store H) (a b : List (Write H)) :
    applyWrites s (a ++ b) = applyWrites (applyWrites s a) b := by
  unfold applyWrites; simp

theorem applyWrites_snoc (s : Store H) (ws : List (Write H)) (w : Write H) :
    applyWrites s (ws ++ [w]) = applyWrite (applyWrites s ws) w := by
  unfold applyWrites; simp

theorem concurrent_id (s : Store H) (r : Row H) (k : Nat) : concurrent s { r with id := k } = concurrent s r := rfl

theorem switchWrites_id (s : Store H) (r : Row H) (k : Nat) (st : St) :
    switchWrites s { r with id := k, st := st } = switchWrites s r := rfl

theorem bigCmp_neg (a b : Nat) : (bigCmp a b < 0) = (a < b) := by
  unfold bigCmp
  by_cases h : a < b <;> by_cases h2 : a = b <;> simp [h, h2] <;> omega

theorem bigCmp_pos (a b : Nat) : (0 < bigCmp a b) = (b < a) := by
  unfold bigCmp
  by_cases h : a < b <;> by_cases h2 : a = b <;> simp [h, h2] <;> omega

theorem bigCmp_nonpos (a b : Nat) : (bigCmp a b ≤ 0) = (a ≤ b) := by
  unfold bigCmp
  by_cases h : a < b <;> by_cases h2 : a = b <;> simp [h, h2] <;> omega

theorem bigCmp_nonneg (a b : Nat) : (0 ≤ bigCmp a b) = (b ≤ a) := by
  unfold bigCmp
  by_cases h : a < b <;> by_cases h2 : a = b <;> simp [h, h2] <;> omega

theorem bigCmp_zero (a b : Nat) : (bigCmp a b = 0) = (a = b) := by
  unfold bigCmp
  by_cases h : a < b <;> by_cases h2 : a = b <;> simp [h, h2] <;> omega

/-! ### Chains.Add -/

/-- everything observable of the regenerated `Add`, run without storage faults from ANY store (no hypothesis):
    it does not panic, its answer is the hand model's outcome, the write transactions it issues are the hand model's
    write list in order, the store it leaves is the hand model's. -/
theorem Gen_add_refines (cfg : Cfg H) (s : Store H) (x : Src H) :
    observe s none (Gen.ChainSvc.Add cfg x) = .ok (some (plan cfg s x).1, (plan cfg s x).2, (add cfg s x).1) := by
  have hr : mkRow cfg s x = { mkRow0 cfg s x with id := s.length } := rfl
  unfold observe add plan Gen.ChainSvc.Add
  simp only [StateT.run_bind, lockMutex_run, getHeaderByHash_run, pure_bind]
  cases hd : byHash s (cfg.hashOf x) with
  | some e => simp [outcomeOf, Err.has]; rfl
  | none =>
    simp only [Option.isSome_none, Bool.false_eq_true, ↓reduceIte, ignoreBlockHash_eq, StateT.run_bind,
      StateT.run_pure, pure_bind]
    by_cases hf : cfg.hashOf x ∈ cfg.forbidden
    · simp [hf, outcomeOf, Err.has, rejectedHeader]; rfl
    · simp only [hf, decide_false, Bool.false_eq_true, ↓reduceIte, createHeader_run, hasConcurrent_run, pure_bind,
        StateT.run_bind, Option.isSome_none]
      rw [hr]
      generalize mkRow0 cfg s x = r
      simp only [concurrent_id]
      cases hc : concurrent s r with
      | false =>
        simp [andM_pure, orM_pure, insert_run, applyWrites, outcomeOf, pure_ok, ok_bind]
      | true =>
        simp only [↓reduceIte, StateT.run_bind, getTip_run, pure_bind]
        cases ht : getTip s with
        | none => simp [outcomeOf, causedBy, Err.has]; rfl
        | some tip =>
          simp only [Option.isSome_none, Bool.false_eq_true, ↓reduceIte, deref_some, pure_bind, bigCmp_neg, bigCmp_pos, bigCmp_nonpos, bigCmp_nonneg, bigCmp_zero,
            decide_eq_true_eq]
          by_cases hlt : tip.cum < r.cum
          · have hle : ¬ r.cum ≤ tip.cum := Nat.not_le_of_lt hlt
            simp [hlt, hle, andM_pure, orM_pure, IsLongestChain_some, switch_run, insert_run, length_switch,
              applyWrites_snoc, outcomeOf, switchWrites_id, pure_ok, ok_bind]
          · have hle : r.cum ≤ tip.cum := Nat.le_of_not_lt hlt
            simp [hlt, hle, andM_pure, orM_pure, IsLongestChain_some, insert_run, applyWrites, outcomeOf, pure_ok, ok_bind]

/-! ### Chains.Add under a storage fault -/

theorem issue_ok {f : Option Nat} {ws : List (Write H)} (h : ¬ (issue f ws).1 = true) : (issue f ws).2.1 = ws := by
  cases f with
  | none => rfl
  | some k =>
    by_cases hk : k < ws.length
    · simp [issue, hk] at h
    · simp [issue, hk]

theorem issue_append (f : Option Nat) (a b : List (Write H)) :
    issue f (a ++ b) = if (issue f a).1 then (true, (issue f a).2.1, none)
      else ((issue (issue f a).2.2 b).1, a ++ (issue (issue f a).2.2 b).2.1, (issue (issue f a).2.2 b).2.2) := by
  cases f with
  | none => simp [issue]
  | some k =>
    unfold issue
    dsimp only
    by_cases h1 : k < a.length
    · have h2 : k < a.length + b.length := by omega
      simp [h1, h2, List.take_append_of_le_length (Nat.le_of_lt h1)]
    · by_cases h3 : k - a.length < b.length
      · have h2 : k < a.length + b.length := by omega
        simp [h1, h2, h3, List.take_append, List.take_of_length_le (Nat.le_of_not_gt h1)]
      · have h2 : ¬ k < a.length + b.length := by omega
        simp [h1, h2, h3]
        omega

/-- the regenerated `Add` with the write of index `k` failing (`f = some k`; `none`: no fault), from ANY store:
    it executes exactly the writes of the hand model's list before the failed one and then returns an error
    (it issues no further write); without a failure it is `Gen_add_refines`. -/
theorem Gen_add_fault_refines (cfg : Cfg H) (s : Store H) (x : Src H) (f : Option Nat) :
    observe s f (Gen.ChainSvc.Add cfg x) =
      .ok (if (issue f (plan cfg s x).2).1 then none else some (plan cfg s x).1,
        (issue f (plan cfg s x).2).2.1, applyWrites s (issue f (plan cfg s x).2).2.1) := by
  have hr : mkRow cfg s x = { mkRow0 cfg s x with id := s.length } := rfl
  have hnil : ∀ f : Option Nat, issue f ([] : List (Write H)) = (false, [], f.map (· - 0)) := by
    intro f; cases f <;> simp [issue]
  unfold observe plan Gen.ChainSvc.Add
  simp only [StateT.run_bind, lockMutex_run, getHeaderByHash_run, pure_bind]
  cases hd : byHash s (cfg.hashOf x) with
  | some e => simp [outcomeOf, Err.has, hnil, applyWrites]; rfl
  | none =>
    simp only [Option.isSome_none, Bool.false_eq_true, ↓reduceIte, ignoreBlockHash_eq, StateT.run_bind,
      StateT.run_pure, pure_bind]
    by_cases hf : cfg.hashOf x ∈ cfg.forbidden
    · simp [hf, outcomeOf, Err.has, rejectedHeader, hnil, applyWrites]; rfl
    · simp only [hf, decide_false, Bool.false_eq_true, ↓reduceIte, createHeader_run, hasConcurrent_run, pure_bind,
        StateT.run_bind, Option.isSome_none]
      rw [hr]
      generalize mkRow0 cfg s x = r
      simp only [concurrent_id]
      cases hc : concurrent s r with
      | false =>
        by_cases hi : (issue f [Write.insert { r with id := s.length }]).1 = true <;>
          simp [hi, andM_pure, orM_pure, insert_run_f, outcomeOf, Err.has, pure_ok, ok_bind]
      | true =>
        simp only [↓reduceIte, StateT.run_bind, getTip_run, pure_bind]
        cases ht : getTip s with
        | none => simp [outcomeOf, causedBy, Err.has, hnil, applyWrites]; rfl
        | some tip =>
          by_cases hlt : tip.cum < r.cum
          · have hle : ¬ r.cum ≤ tip.cum := Nat.not_le_of_lt hlt
            by_cases h1 : (issue f (switchWrites s r)).1 = true
            · simp [hlt, hle, h1, bigCmp_neg, bigCmp_pos, bigCmp_nonpos, bigCmp_nonneg, bigCmp_zero, deref_some, andM_pure, orM_pure, IsLongestChain_some, switch_run_f,
                switchWrites_id, issue_append, outcomeOf, Err.has, pure_ok, ok_bind]
            · have e1 := issue_ok h1
              by_cases hi : (issue (issue f (switchWrites s r)).2.2 [Write.insert { r with id := s.length, st := St.lc }]).1 = true <;>
                simp [hlt, hle, h1, e1, hi, bigCmp_neg, bigCmp_pos, bigCmp_nonpos, bigCmp_nonneg, bigCmp_zero, deref_some, andM_pure, orM_pure, IsLongestChain_some, switch_run_f,
                  switchWrites_id, issue_append, length_switch, insert_run_f, outcomeOf, Err.has, pure_ok, ok_bind, applyWrites_append]
          · have hle : r.cum ≤ tip.cum := Nat.le_of_not_lt hlt
            by_cases hi : (issue f [Write.insert { r with id := s.length, st := St.stale }]).1 = true <;>
              simp [hlt, hle, hi, bigCmp_neg, bigCmp_pos, bigCmp_nonpos, bigCmp_nonneg, bigCmp_zero, deref_some, andM_pure, orM_pure, IsLongestChain_some, insert_run_f, outcomeOf,
                Err.has, pure_ok, ok_bind]

end BHS.Chain.Refine
