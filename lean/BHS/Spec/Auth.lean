/-
Abstract specification of the token lifecycle (C10): the set of issued,
unrevoked tokens as a membership predicate on strings (no Finset needed).
Core Lean only.
-/
namespace BHS.Spec.Auth

/-- a set of token values -/
abbrev TokSet := String → Prop

def TokSet.empty : TokSet := fun _ => False
def TokSet.add (S : TokSet) (t : String) : TokSet := fun u => S u ∨ u = t
def TokSet.remove (S : TokSet) (t : String) : TokSet := fun u => S u ∧ u ≠ t

/-- who authenticates: the configured admin token, always, and the members of the set -/
def valid (admin : String) (S : TokSet) (t : String) : Prop := t = admin ∨ S t

/-- abstract operations: what the property says each request does to the set.
    `adm` = "the request carried the admin credential (or authentication is off)". -/
inductive AOp
  | create (adm : Prop) (t : String)
  | revoke (adm : Prop) (t : String)
  | other

def astep (S : TokSet) : AOp → TokSet
  | .create adm t => fun u => S u ∨ (adm ∧ u = t)
  | .revoke adm t => fun u => S u ∧ ¬ (adm ∧ u = t)
  | .other => S

def arun (S : TokSet) : List AOp → TokSet
  | [] => S
  | o :: os => arun (astep S o) os

end BHS.Spec.Auth
