/-
Abstract specification for the chain store (properties C01, C02, C03, C05, C08, C13, C17):
best chain = greatest cumulative work among genesis-connected headers, the earliest
stored one among equals; `Canon` = "the LONGEST_CHAIN rows are exactly the parent-linked
path from the root to that header, and it is the reported tip".
Core Lean only. Every predicate is decidable (the driver evaluates them on real histories).
-/
import BHS.Model.Chain

namespace BHS.Chain
variable {H : Type} [DecidableEq H]

/-- genesis-connected: not an orphan -/
def connected (r : Row H) : Prop := r.st ≠ .orphan

instance (r : Row H) : Decidable (connected r) := by unfold connected; infer_instance

/-- the parent-linked path from `r` back to the root (inclusive) -/
def chainTo (s : Store H) (r : Row H) : List (Row H) := ancestorsFrom s s.length r.hash

/-- `t` is the genesis-connected header with the greatest cumulative work, the earliest stored among equals -/
def IsBest (s : Store H) (t : Row H) : Prop :=
  t ∈ s ∧ connected t ∧ ∀ r ∈ s, connected r → r.cum ≤ t.cum ∧ (r.cum = t.cum → t.id ≤ r.id)

/-- the labelling clause of C01 -/
def Canon (s : Store H) : Prop :=
  ∃ t ∈ s, getTip s = some t ∧ IsBest s t ∧ ∀ r ∈ s, (r.st = .lc ↔ r ∈ chainTo s t)

/-- the fields `Add` copies from the submitted header -/
def srcOf (r : Row H) : Src H :=
  { version := r.version, prev := r.prev, merkle := r.merkle, time := r.time, bits := r.bits, nonce := r.nonce }

/-- structural well-formedness of a store reachable by ingestion -/
def WF (cfg : Cfg H) (s : Store H) : Prop :=
  -- rowids are positions
  s.map (·.id) = List.range s.length ∧
  -- hash is the primary key
  (s.map (·.hash)).Nodup ∧
  -- the root (genesis) row: on the longest chain, height 0, and nobody's hash is its previous hash
  (∃ g ∈ s, g.id = 0 ∧ g.st = .lc ∧ g.height = 0 ∧ ∀ r ∈ s, r.hash ≠ g.prev) ∧
  -- a connected non-root row has an earlier-stored connected parent; height and cumulative work derive from it
  (∀ r ∈ s, connected r → r.id ≠ 0 →
      ∃ p ∈ s, p.hash = r.prev ∧ p.id < r.id ∧ connected p ∧ r.height = p.height + 1 ∧ r.cum = p.cum + r.work) ∧
  -- an orphan's parent was unknown or an orphan when it arrived
  (∀ r ∈ s, r.st = .orphan → ∀ p ∈ s, p.hash = r.prev → p.st = .orphan ∨ r.id < p.id) ∧
  -- identity and work of every ingested row; forbidden hashes are never stored
  (∀ r ∈ s, r.id ≠ 0 → r.hash = cfg.hashOf (srcOf r) ∧ r.work = work r.bits ∧ r.hash ∉ cfg.forbidden)

/-- what makes `Canon` inductive: the longest chain is parent-closed, has one row per height,
    and its highest row dominates every connected row (strictly for rows stored earlier). -/
def LcAt (s : Store H) (t : Row H) : Prop :=
  t.st = .lc ∧
    (∀ r ∈ s, connected r → r.cum ≤ t.cum ∧ (r.cum = t.cum → t.id ≤ r.id)) ∧
    (∀ r ∈ s, r.st = .lc → r.height ≤ t.height) ∧
    (∀ r ∈ s, ∀ r' ∈ s, r.st = .lc → r'.st = .lc → r.height = r'.height → r = r') ∧
    (∀ r ∈ s, r.st = .lc → r.id ≠ 0 → ∀ p ∈ s, p.hash = r.prev → p.st = .lc)

def LcInv (s : Store H) : Prop := ∃ t ∈ s, LcAt s t

def Inv (cfg : Cfg H) (s : Store H) : Prop := WF cfg s ∧ LcInv s

/-- the crash-time invariant (C05) and reader view (C15): exactly one longest-chain row at every
    height from 0 to the tip, parent-linked -/
def StructAt (s : Store H) (t : Row H) : Prop :=
  getTip s = some t ∧
    (∀ k ∈ List.range (t.height + 1), ∃ r ∈ s, r.st = .lc ∧ r.height = k) ∧
    (∀ r ∈ s, ∀ r' ∈ s, r.st = .lc → r'.st = .lc → r.height = r'.height → r = r') ∧
    (∀ r ∈ s, r.st = .lc → r.height ≤ t.height) ∧
    (∀ r ∈ s, r.st = .lc → r.height ≠ 0 → ∃ p ∈ s, p.hash = r.prev ∧ p.st = .lc ∧ r.height = p.height + 1)

def StructValid (s : Store H) : Prop := ∃ t ∈ s, StructAt s t

instance (s : Store H) (t : Row H) : Decidable (IsBest s t) := by unfold IsBest; infer_instance
instance (s : Store H) : Decidable (Canon s) := by unfold Canon; infer_instance
instance (cfg : Cfg H) (s : Store H) : Decidable (WF cfg s) := by unfold WF; infer_instance
instance (s : Store H) (t : Row H) : Decidable (LcAt s t) := by unfold LcAt; infer_instance
instance (s : Store H) : Decidable (LcInv s) := by unfold LcInv; infer_instance
instance (cfg : Cfg H) (s : Store H) : Decidable (Inv cfg s) := by unfold Inv; infer_instance
instance (s : Store H) (t : Row H) : Decidable (StructAt s t) := by unfold StructAt; infer_instance
instance (s : Store H) : Decidable (StructValid s) := by unfold StructValid; infer_instance

end BHS.Chain
