/-
Specification of the compact-bits arithmetic (property C19), written
independently of the code: mantissa/exponent/sign by division and remainder.
Core Lean only.
-/
namespace BHS.Spec

/-- sign × mantissa × 256^(exponent-3), truncating when the exponent is below 3. -/
def targetSpec (b : Nat) : Int :=
  let m := b % 2^23
  let e := b / 2^24
  let mag : Nat := if e ≤ 3 then m / 256^(3-e) else m * 256^(e-3)
  if (b / 2^23) % 2 = 1 then -(mag : Int) else (mag : Int)

/-- floor(2^256 / (target+1)), zero for non-positive targets. -/
def workSpec (t : Int) : Int := if t ≤ 0 then 0 else 2^256 / (t + 1)

end BHS.Spec
