-- extraction failed: /dev/shm/mutrepo-yndA2g/transports/p2p/p2psync/manager.go:727:15: unsupported: call other.LastAnnouncedBlock()
namespace BHS.Gen
end BHS.Gen
