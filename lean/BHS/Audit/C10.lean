import BHS.Props.C10
import BHS.Props.AuthMw
import BHS.Props.TokenStore
open BHS.Props.C10
#print axioms C10_auth_iff
#print axioms C10_http
#print axioms C10_ws
#print axioms C10_http_ws_same
#print axioms C10_refines_step
#print axioms C10_refines
#print axioms C10_nodup
#print axioms C10_create
#print axioms C10_revoke
#print axioms C10_revoke_noop
#print axioms C10_needs_admin
#print axioms C10_others_unchanged
#print axioms C10_restart_id
#print axioms C10_until_revoked
#print axioms C10_never_after
#print axioms C10_store_subset_issued
#print axioms C10_admin_always_partial
#print axioms C10_admin_always_counterexample
#print axioms C10_distinct
#print axioms C10_distinct_needs_fresh
#print axioms BHS.Props.AuthMw.AuthMw_getToken
#print axioms BHS.Props.AuthMw.AuthMw_authorize
#print axioms BHS.Props.AuthMw.C10_auth_iff_generated
#print axioms BHS.Props.AuthMw.C10_ws_generated
#print axioms BHS.Props.AuthMw.C10_rejected_generated
#print axioms BHS.Props.TokenStore.token_lookup_sound
#print axioms BHS.Props.TokenStore.new_service_writes_nothing
#print axioms BHS.Props.TokenStore.delete_exact
#print axioms BHS.Props.TokenStore.generate_exact
#print axioms BHS.Props.TokenStore.revoked_token_refused
#print axioms BHS.Props.TokenStore.C10_steps_generated
#print axioms BHS.Props.TokenStore.C10_auth_iff_composed
#print axioms BHS.Props.TokenStore.ws_fail_closed
#print axioms BHS.Props.TokenStore.driver_crosscheck
