import BHS.Props.C04
import BHS.Props.SqlShape.Query
import BHS.Props.HeaderSvcGen
open BHS.Props.C04
#print axioms C04_anc_iff_chainTo
#print axioms C04_byhash
#print axioms C04_byheight
#print axioms C04_byheight_lc
#print axioms C04_tip_longest
#print axioms C04_tips
#print axioms C04_tips_leaf
#print axioms C04_ancestors_notfound
#print axioms C04_ancestors_partial
#print axioms C04_ancestors_counterexample
#print axioms C04_common_empty
#print axioms C04_common_unknown
#print axioms C04_common_height0
#print axioms C04_common_partial
#print axioms C04_common_counterexample
#print axioms C04_reads_pure
#print axioms C04_anc_iff_chainTo_reachable
#print axioms C04_byhash_reachable
#print axioms C04_byheight_lc_reachable
#print axioms C04_tip_longest_reachable
#print axioms C04_tips_reachable
#print axioms C04_tips_leaf_reachable
#print axioms C04_ancestors_partial_reachable
#print axioms C04_common_height0_reachable
#print axioms C04_common_partial_reachable
#print axioms C04_root_stored_reachable
#print axioms BHS.Props.SqlShape.query_statements
#print axioms BHS.Props.HeaderSvcGen.Gen_ancestors_refines
#print axioms BHS.Props.HeaderSvcGen.Gen_common_refines
#print axioms BHS.Props.HeaderSvcGen.Gen_byheight_refines
#print axioms BHS.Props.HeaderSvcGen.Gen_tips_refines
#print axioms BHS.Props.HeaderSvcGen.Gen_tip_refines
#print axioms BHS.Props.HeaderSvcGen.Gen_byhash_refines
#print axioms BHS.Props.HeaderSvcGen.C04_ancestors_generated
#print axioms BHS.Props.HeaderSvcGen.C04_common_generated
#print axioms BHS.Props.HeaderSvcGen.C04_byheight_generated
#print axioms BHS.Props.HeaderSvcGen.C04_tips_generated
