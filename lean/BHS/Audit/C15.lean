import BHS.Props.C15
import BHS.Props.SqlShape.Add
import BHS.Props.ChainSvc
open BHS.Props.C15
#print axioms C15_add_is_exclusive
#print axioms C15_add_callers
#print axioms C15_notify_inside_add
#print axioms C15_seq_refines
#print axioms C15_steps_bound
#print axioms C15_progress
#print axioms C15_serial_if_exclusive
#print axioms C15_blocks_exclusive
#print axioms C15_final_valid
#print axioms C15_reader_prefix
#print axioms C15_reader_view
#print axioms C15_reader_view_exclusive
#print axioms C15_unlocked_counterexample
#print axioms C15_duplicate_race_counterexample
#print axioms BHS.Props.SqlShape.add_statements
#print axioms BHS.Props.ChainSvc.Gen_add_refines
#print axioms BHS.Props.ChainSvc.C15_seq_generated
