import BHS.Props.C16
open BHS.Props.C16
#print axioms C16_error_table
#print axioms C16_used_errors_mapped
#print axioms C16_unknown_is_5xx
#print axioms healthy_of_inv
#print axioms C16_commonAncestor_empty_panics
#print axioms C16_commonAncestor_panic_only_empty
#print axioms C16_commonAncestor_genesis_nil
#print axioms C16_clauses_iff
#print axioms C16_no_5xx_iff
#print axioms C16_single_json_iff
#print axioms C16_client_errors_structured_iff
#print axioms C16_no_5xx
#print axioms C16_single_json_partial
#print axioms C16_single_json_excluded_fail
#print axioms C16_client_errors_structured_partial
#print axioms C16_no_5xx_fixed
#print axioms C16_single_json_fixed
#print axioms C16_client_errors_structured_fixed
#print axioms C16_store_untouched
#print axioms C16_reads_pure
#print axioms C16_rejected_write_partial
#print axioms C16_rejected_write
#print axioms C16_single_json_counterexample_status
#print axioms C16_client_errors_structured_counterexample_noRoute
#print axioms C16_single_json_counterexample_redirect
