import BHS.Props.C12
open BHS.Props.C12
#print axioms C12_sql_shape
#print axioms C12_switches_match_source
#print axioms C12_auth_header
#print axioms C12_register_new
#print axioms C12_reregister
#print axioms C12_calls
#print axioms C12_header_configured
#print axioms C12_deleted_not_called
#print axioms C12_posts_partial
#print axioms C12_posts_hypothesis
#print axioms C12_posts
#print axioms C12_counter_run
#print axioms C12_counter_threshold
#print axioms C12_counter_step
#print axioms C12_success_is_200
#print axioms C12_counter_partial
#print axioms C12_counter
#print axioms C12_get_state
#print axioms C12_get_reports_partial
#print axioms C12_get_reports
#print axioms C12_restart
#print axioms C12_counter_translated
