import BHS.Props.C18
import BHS.Props.Admission
open BHS.Props.C18
#print axioms C18_limits
#print axioms C18_limits_server
#print axioms C18_limits_any_history
#print axioms C18_valid_of_history
#print axioms C18_counters_return_to_zero
#print axioms C18_admission_exact
#print axioms C18_ban
#print axioms C18_ban_elapsed
#print axioms C18_readmitted
#print axioms C18_target_never_exceeded
#print axioms C18_target
#print axioms C18_target_server
#print axioms C18_target_replacement
#print axioms C18_target_after_ban
#print axioms BHS.Props.Admission.handleAddPeerMsg_refines
#print axioms BHS.Props.Admission.handleAddPeerMsg_badaddr
#print axioms BHS.Props.Admission.handleDonePeerMsg_refines
#print axioms BHS.Props.Admission.handleDonePeerMsg_absent
#print axioms BHS.Props.Admission.handleBanPeerMsg_refines
#print axioms BHS.Props.Admission.genStep_eq_step
#print axioms BHS.Props.Admission.genRun_eq_run
#print axioms BHS.Props.Admission.C18_limits_generated
#print axioms BHS.Props.Admission.C18_limits_any_history_generated
#print axioms BHS.Props.Admission.C18_counters_return_to_zero_generated
#print axioms BHS.Props.Admission.C18_admission_exact_generated
#print axioms BHS.Props.Admission.C18_ban_generated
