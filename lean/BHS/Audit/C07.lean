import BHS.Props.C07
import BHS.Props.SyncMgrGen
open BHS.Props.C07
#print axioms C07_never_stored
#print axioms C07_never_found
#print axioms C07_descendants_orphan
#print axioms C07_orphan_child
#print axioms C07_orphan_stays
#print axioms C07_ban_disconnect
#print axioms C07_no_request_after
#print axioms C07_checkpoint_mismatch
#print axioms C07_checkpoint_advance
#print axioms C07_next_checkpoint
#print axioms C07_match_means_match
#print axioms C07_exp_forbidden
#print axioms C07_exp_checkpoint_mismatch
#print axioms C07_exp_silent_after
#print axioms BHS.Props.SyncMgrGen.Gen_handleHeadersMsg_refines
#print axioms BHS.Props.SyncMgrGen.Gen_headersLoop_refines
#print axioms BHS.Props.SyncMgrGen.Gen_verifyCheckpointHeight_refines
#print axioms BHS.Props.SyncMgrGen.Gen_findNextHeaderCheckpoint_refines
#print axioms BHS.Props.SyncMgrGen.C07_ban_disconnect_generated
#print axioms BHS.Props.SyncMgrGen.C07_checkpoint_mismatch_generated
#print axioms BHS.Props.SyncMgrGen.C07_checkpoint_advance_generated
