import BHS.Props.C03
import BHS.Props.C03Derived
import BHS.Props.SqlShape.Add
import BHS.Props.RepoWritesGen
import BHS.Props.ImportRestart
open BHS.Props.C03
#print axioms C03_stored_row
#print axioms C03_work_exact
#print axioms C03_hash_is_sha256d
#print axioms C03_hash_of_stored
#print axioms C03_fields_roundtrip
#print axioms C03_immutable_step
#print axioms C03_immutable
#print axioms C03_never_disappears
#print axioms C03_derived_invariant
#print axioms C03_derived_all
#print axioms C03_sql_writes
#print axioms BHS.Props.SqlShape.add_statements
#print axioms BHS.Props.RepoWritesGen.Gen_AddHeaderToDatabase_refines
#print axioms BHS.Props.RepoWritesGen.AddHeaderToDatabase_atomic
#print axioms BHS.Props.ImportRestart.import_nonempty_noop
#print axioms BHS.Props.ImportRestart.import_nonempty_noop_db
#print axioms BHS.Props.ImportRestart.import_changes_only_an_empty_table
#print axioms BHS.Props.ImportRestart.import_never_deletes_foreign_rows
#print axioms BHS.Props.ImportRestart.C03_start_up_import_preserves_rows
#print axioms WF_height_le_id
#print axioms C03_parent_below
#print axioms C03_height_bounded
#print axioms C03_cum_ge_work
