import BHS.Props.C03
import BHS.Props.SqlShape.Add
import BHS.Props.RepoWritesGen
open BHS.Props.C03
#print axioms C03_stored_row
#print axioms C03_work_exact
#print axioms C03_hash_is_sha256d
#print axioms C03_hash_of_stored
#print axioms C03_fields_roundtrip
#print axioms C03_immutable_step
#print axioms C03_immutable
#print axioms C03_never_disappears
#print axioms C03_derived_invariant
#print axioms C03_derived_all
#print axioms C03_sql_writes
#print axioms BHS.Props.SqlShape.add_statements
#print axioms BHS.Props.RepoWritesGen.Gen_AddHeaderToDatabase_refines
#print axioms BHS.Props.RepoWritesGen.AddHeaderToDatabase_atomic
