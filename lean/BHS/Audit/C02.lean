import BHS.Props.C02
import BHS.Props.SqlShape.Verify
open BHS.Props.C02
#print axioms lcUnique_of_inv
#print axioms verifyHash_some
#print axioms verifyHash_none
#print axioms C02_confirmed
#print axioms C02_unable
#print axioms C02_invalid
#print axioms C02_negative_excess
#print axioms C02_shape
#print axioms C02_answered
#print axioms C02_aggregate
#print axioms C02_tracks_reorg_off
#print axioms C02_tracks_reorg_on
#print axioms C02_verdict_translated
#print axioms C02_severity_translated
#print axioms C02_lcUnique_reachable
#print axioms C02_confirmed_reachable
#print axioms C02_unable_reachable
#print axioms C02_invalid_reachable
#print axioms C02_answered_reachable
#print axioms C02_tracks_reorg_on_reachable
#print axioms BHS.Props.SqlShape.verify_statements
