import BHS.Props.C02
import BHS.Props.SqlShape.Verify
import BHS.Props.ConfirmationsGen
open BHS.Props.C02
#print axioms lcUnique_of_inv
#print axioms verifyHash_some
#print axioms verifyHash_none
#print axioms C02_confirmed
#print axioms C02_unable
#print axioms C02_invalid
#print axioms C02_negative_excess
#print axioms C02_shape
#print axioms C02_answered
#print axioms C02_aggregate
#print axioms C02_tracks_reorg_off
#print axioms C02_tracks_reorg_on
#print axioms C02_verdict_translated
#print axioms C02_severity_translated
#print axioms C02_lcUnique_reachable
#print axioms C02_confirmed_reachable
#print axioms C02_unable_reachable
#print axioms C02_invalid_reachable
#print axioms C02_answered_reachable
#print axioms C02_tracks_reorg_on_reachable
#print axioms BHS.Props.SqlShape.verify_statements
#print axioms BHS.Props.ConfirmationsGen.getChainTipHeight_refines
#print axioms BHS.Props.ConfirmationsGen.getMerkleRootConfirmation_refines
#print axioms BHS.Props.ConfirmationsGen.HeadersDb_GetMerkleRootsConfirmations_refines
#print axioms BHS.Props.ConfirmationsGen.ToMerkleRootConfirmation_refines
#print axioms BHS.Props.ConfirmationsGen.ConvertToMerkleRootsConfirmations_refines
#print axioms BHS.Props.ConfirmationsGen.confirmations_pointwise
#print axioms BHS.Props.ConfirmationsGen.confirmations_pointwise_entries
#print axioms BHS.Props.ConfirmationsGen.answer1_eq_verifyItem
#print axioms BHS.Props.ConfirmationsGen.GetMerkleRootsConfirmations_refines
#print axioms BHS.Props.ConfirmationsGen.C02_confirmed_generated
#print axioms BHS.Props.ConfirmationsGen.C02_unable_generated
#print axioms BHS.Props.ConfirmationsGen.C02_answered_generated_reachable
