import BHS.Props.C08
import BHS.Props.SqlShape
open BHS.Props.C08
#print axioms walk_from
#print axioms C08_walk
#print axioms C08_lcAsc_is_chain
#print axioms C08_page_size
#print axioms C08_no_stale
#print axioms C08_no_stale_key
#print axioms C08_bad_key
#print axioms C08_zero
#print axioms C08_interleaved
#print axioms C08_walk_reachable
#print axioms C08_lcAsc_is_chain_reachable
#print axioms C08_bad_key_reachable
#print axioms C08_zero_reachable
#print axioms C08_interleaved_reachable
#print axioms BHS.Props.SqlShape.page_statements
