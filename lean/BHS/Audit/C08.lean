import BHS.Props.C08
import BHS.Props.SqlShape.Page
import BHS.Props.MerkleRootsGen
open BHS.Props.C08
#print axioms walk_from
#print axioms C08_walk
#print axioms C08_lcAsc_is_chain
#print axioms C08_page_size
#print axioms C08_no_stale
#print axioms C08_no_stale_key
#print axioms C08_bad_key
#print axioms C08_zero
#print axioms C08_interleaved
#print axioms C08_walk_reachable
#print axioms C08_lcAsc_is_chain_reachable
#print axioms C08_bad_key_reachable
#print axioms C08_zero_reachable
#print axioms C08_interleaved_reachable
#print axioms BHS.Props.SqlShape.page_statements
#print axioms BHS.Props.MerkleRootsGen.getLastEvaluatedMerklerootHeight_refines
#print axioms BHS.Props.MerkleRootsGen.HeadersDb_GetMerkleRoots_refines
#print axioms BHS.Props.MerkleRootsGen.HeadersDb_GetTip_refines
#print axioms BHS.Props.MerkleRootsGen.HeaderRepository_GetTip_refines
#print axioms BHS.Props.MerkleRootsGen.HeaderRepository_GetMerkleRoots_refines
#print axioms BHS.Props.MerkleRootsGen.GetMerkleRoots_refines
#print axioms BHS.Props.MerkleRootsGen.handler_refines
#print axioms BHS.Props.MerkleRootsGen.handler_matches_http_model
#print axioms BHS.Props.MerkleRootsGen.genWalk_eq_walk
#print axioms BHS.Props.MerkleRootsGen.C08_walk_generated
#print axioms BHS.Props.MerkleRootsGen.C08_walk_generated_reachable
#print axioms BHS.Props.MerkleRootsGen.C08_bad_key_generated
#print axioms BHS.Props.MerkleRootsGen.C08_page_info_generated
