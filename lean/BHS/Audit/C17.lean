import BHS.Props.C17
open BHS.Props.C17
#print axioms C17_genesis
#print axioms C17_genesis_fields
#print axioms C17_roundtrip_rows
#print axioms C17_roundtrip
#print axioms C17_canon_fields
#print axioms C17_roundtrip_heights
#print axioms C17_roundtrip_members
#print axioms C17_roundtrip_start
#print axioms C17_refuses_malformed
#print axioms C17_refuses_wrong_length
#print axioms C17_refuses_unreadable
#print axioms C17_refuses_count
#print axioms C17_refuses_heights
#print axioms C17_refuses_maxheight
#print axioms C17_refuses_checkpoint
#print axioms C17_refuses_start
#print axioms C17_refuses
#print axioms C17_never_overwrites
#print axioms C17_cleanup_statement
#print axioms C17_no_leftover_partial
#print axioms C17_no_leftover_unreadable
#print axioms C17_leftover_before_fix
#print axioms C17_no_leftover_with_cleanup
#print axioms C17_no_leftover
