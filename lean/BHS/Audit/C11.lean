import BHS.Props.C11
import BHS.Props.SqlShape.Add
open BHS.Props.C11
#print axioms C11_events
#print axioms C11_no_event
#print axioms C11_history
#print axioms C11_event_is_stored_row
#print axioms C11_fanout_never_blocks
#print axioms C11_fanout_exactly_once
#print axioms C11_fanout_registered_only
#print axioms C11_fanout_independent
#print axioms C11_fanout_history
#print axioms C11_notify_site
#print axioms BHS.Props.SqlShape.add_statements
