import BHS.Props.C11
import BHS.Props.SqlShape.Add
import BHS.Props.NotifierGenC11
open BHS.Props.C11
#print axioms C11_events
#print axioms C11_no_event
#print axioms C11_history
#print axioms C11_event_is_stored_row
#print axioms C11_fanout_never_blocks
#print axioms C11_fanout_exactly_once
#print axioms C11_fanout_registered_only
#print axioms C11_fanout_independent
#print axioms C11_fanout_history
#print axioms C11_notify_site
#print axioms BHS.Props.SqlShape.add_statements
#print axioms BHS.Props.NotifierGen.notify_spawns_one_per_channel
#print axioms BHS.Props.NotifierGen.notify_never_blocks
#print axioms BHS.Props.NotifierGen.register_channels
#print axioms BHS.Props.NotifierGen.notify_refines_ingest
#print axioms BHS.Props.NotifierGen.genIngest_never_blocks
#print axioms BHS.Props.NotifierGen.ws_publishes_event_json
#print axioms BHS.Props.NotifierGen.ws_marshal_failure
#print axioms BHS.Props.NotifierGen.ws_payloads_not_shared
#print axioms BHS.Props.NotifierGen.header_added_fields
#print axioms BHS.Props.NotifierGen.genExec_eq
#print axioms BHS.Props.NotifierGen.Gen_C11_fanout
