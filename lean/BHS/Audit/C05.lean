import BHS.Props.C05
import BHS.Props.SqlShape.Add
import BHS.Props.ChainSvc
import BHS.Props.RepoWritesGen
import BHS.Props.RepoWritesC05
import BHS.Props.ImportRestart
open BHS.Props.C05
#print axioms C05_restart_id
#print axioms C05_restart_fresh
#print axioms C05_restart_keeps
#print axioms C05_inv_struct
#print axioms C05_struct_valid
#print axioms C05_redeliver_exact
#print axioms C05_not_stuck
#print axioms C05_redeliver_answer
#print axioms C05_redeliver_answered
#print axioms C05_redeliver_history
#print axioms C05_rows_survive
#print axioms C05_acknowledged_survive
#print axioms BHS.Props.SqlShape.add_statements
#print axioms BHS.Props.ChainSvc.Gen_add_fault_refines
#print axioms BHS.Props.ChainSvc.C05_struct_valid_generated
#print axioms BHS.Props.ChainSvc.C05_redeliver_generated
#print axioms BHS.Props.RepoWritesGen.UpdateState_atomic
#print axioms BHS.Props.RepoWritesGen.AddHeaderToDatabase_atomic
#print axioms BHS.Props.RepoWritesGen.RepoM_writes_simulated
#print axioms BHS.Props.RepoWritesGen.Gen_write_sequence
#print axioms BHS.Props.RepoWritesGen.C05_struct_valid_at_tx_boundaries
#print axioms BHS.Props.ImportRestart.import_nonempty_noop
#print axioms BHS.Props.ImportRestart.import_nonempty_noop_db
#print axioms BHS.Props.ImportRestart.import_changes_only_an_empty_table
#print axioms BHS.Props.ImportRestart.import_never_deletes_foreign_rows
#print axioms BHS.Props.ImportRestart.C05_restart_import_preserves_rows
#print axioms BHS.Props.ImportRestart.C05_restarts_import_preserve_rows
