import BHS.Props.C20
import BHS.Props.CfgValidate
open BHS.Props.C20
#print axioms C20_precedence
#print axioms C20_untouched_keep_default
#print axioms C20_every_key_has_default
#print axioms C20_keys_and_env_names_distinct
#print axioms C20_kinds_supported
#print axioms C20_engine_names
#print axioms C20_table_precedence
#print axioms C20_table_untouched
#print axioms C20_env_set_wins_partial
#print axioms C20_empty_env_is_unset
#print axioms C20_env_set_wins_counterexample
#print axioms C20_unregistered_key_ignores_env
#print axioms C20_validate
#print axioms C20_refuses_nil
#print axioms C20_refuses_unsupported_engine
#print axioms C20_refuses_empty_sqlite_path
#print axioms C20_refuses_incomplete_postgres
#print axioms C20_refuses_missing_prepared_file
#print axioms C20_validate_reason
#print axioms BHS.Props.CfgValidate.CfgValidate_fileExists_translated
#print axioms BHS.Props.CfgValidate.CfgValidate_db_translated
#print axioms BHS.Props.CfgValidate.CfgValidate_app_translated
#print axioms BHS.Props.CfgValidate.CfgValidate_every_oracle
#print axioms BHS.Props.CfgValidate.CfgValidate_accepts_iff
#print axioms BHS.Props.CfgValidate.CfgValidate_reason
#print axioms BHS.Props.CfgValidate.CfgValidate_refuses_unstatable_prepared
