import BHS.Props.C01
import BHS.Props.SqlShape.Add
import BHS.Props.ChainSvc
import BHS.Props.RepoWritesGen
open BHS.Props.C01
#print axioms C01_inv_init
#print axioms C01_inv_step
#print axioms C01_wf_step
#print axioms C01_inv_canon
#print axioms C01_canonical
#print axioms C01_stale_or_lc
#print axioms C01_answered
#print axioms C01_idempotent
#print axioms C01_forbidden
#print axioms C01_orphan_forever
#print axioms C01_zero_work_never_lc
#print axioms C01_zero_work_stays_stale
#print axioms BHS.Props.SqlShape.add_statements
#print axioms BHS.Props.ChainSvc.Gen_add_refines
#print axioms BHS.Props.ChainSvc.Gen_run_refines
#print axioms BHS.Props.ChainSvc.C01_canonical_generated
#print axioms BHS.Props.RepoWritesGen.UpdateState_atomic
#print axioms BHS.Props.RepoWritesGen.AddHeaderToDatabase_atomic
#print axioms BHS.Props.RepoWritesGen.RepoM_writes_simulated
