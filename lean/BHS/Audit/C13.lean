import BHS.Props.C13
import BHS.Props.C13Size
import BHS.Props.SqlShape.GetHeaders
import BHS.Props.HeaderSvcGen
open BHS.Props.C13
#print axioms C13_locator
#print axioms C13_locator_heights
#print axioms C13_locator_ends
#print axioms C13_start
#print axioms C13_zero_not_stored
#print axioms C13_getheaders_partial
#print axioms C13_stop_lower
#print axioms C13_getheaders_answers
#print axioms C13_getheaders_lc
#print axioms C13_getheaders_cap
#print axioms C13_empty_locator_counterexample
#print axioms C13_stop_genesis_counterexample
#print axioms C13_root_stored_reachable
#print axioms C13_zero_not_stored_reachable
#print axioms C13_locator_reachable
#print axioms C13_locator_ends_reachable
#print axioms C13_getheaders_partial_reachable
#print axioms C13_stop_lower_reachable
#print axioms C13_getheaders_cap_reachable
#print axioms BHS.Props.SqlShape.getheaders_statements
#print axioms BHS.Props.HeaderSvcGen.Gen_locator_refines
#print axioms BHS.Props.HeaderSvcGen.Gen_getheaders_refines
#print axioms BHS.Props.HeaderSvcGen.C13_locator_generated
#print axioms BHS.Props.HeaderSvcGen.C13_getheaders_generated
#print axioms BHS.Props.HeaderSvcGen.C13_findings_generated
#print axioms locHeights_doubling
#print axioms locHeights_linear
#print axioms C13_locator_heights_size
#print axioms C13_locator_heights_size_u32
#print axioms C13_locator_size
#print axioms locHeights_doubling_sharp
#print axioms locHeights_linear_exact
#print axioms C13_locator_heights_le_hint
#print axioms C13_locator_capacity_hint_generated
#print axioms C13_locator_capacity_hint_low
