import BHS.Props.C09
import BHS.Props.AuthMw
open BHS.Props.C09
#print axioms C09_mediated
#print axioms C09_valid_passes
#print axioms C09_401_iff
#print axioms C09_admin
#print axioms C09_admin_user_token
#print axioms C09_admin_passes
#print axioms C09_open_when_disabled
#print axioms C09_table_complete
#print axioms C09_outside_prefix
#print axioms C09_optional_off
#print axioms C09_same_api_routes
#print axioms C09_admin_routes
#print axioms C09_admin_routes_present
#print axioms BHS.Props.AuthMw.AuthMw_reject_401
#print axioms BHS.Props.AuthMw.AuthMw_parse
#print axioms BHS.Props.AuthMw.AuthMw_getToken
#print axioms BHS.Props.AuthMw.AuthMw_middleware
#print axioms BHS.Props.AuthMw.AuthMw_requireAdmin
#print axioms BHS.Props.AuthMw.AuthMw_requireAdmin_other
#print axioms BHS.Props.AuthMw.AuthMw_abort
#print axioms BHS.Props.AuthMw.AuthMw_authorize
#print axioms BHS.Props.AuthMw.AuthMw_serve
#print axioms BHS.Props.AuthMw.AuthMw_render
#print axioms BHS.Props.AuthMw.C09_mediated_generated
#print axioms BHS.Props.AuthMw.C09_valid_passes_generated
#print axioms BHS.Props.AuthMw.C09_admin_generated
