import BHS.Props.C09
import BHS.Props.AuthMw
import BHS.Props.TokenStore
open BHS.Props.C09
#print axioms C09_mediated
#print axioms C09_valid_passes
#print axioms C09_401_iff
#print axioms C09_admin
#print axioms C09_admin_user_token
#print axioms C09_admin_passes
#print axioms C09_open_when_disabled
#print axioms C09_table_complete
#print axioms C09_outside_prefix
#print axioms C09_optional_off
#print axioms C09_same_api_routes
#print axioms C09_admin_routes
#print axioms C09_admin_routes_present
#print axioms BHS.Props.AuthMw.AuthMw_reject_401
#print axioms BHS.Props.AuthMw.AuthMw_parse
#print axioms BHS.Props.AuthMw.AuthMw_getToken
#print axioms BHS.Props.AuthMw.AuthMw_middleware
#print axioms BHS.Props.AuthMw.AuthMw_requireAdmin
#print axioms BHS.Props.AuthMw.AuthMw_requireAdmin_other
#print axioms BHS.Props.AuthMw.AuthMw_abort
#print axioms BHS.Props.AuthMw.AuthMw_authorize
#print axioms BHS.Props.AuthMw.AuthMw_serve
#print axioms BHS.Props.AuthMw.AuthMw_render
#print axioms BHS.Props.AuthMw.C09_mediated_generated
#print axioms BHS.Props.AuthMw.C09_valid_passes_generated
#print axioms BHS.Props.AuthMw.C09_admin_generated
#print axioms BHS.Props.TokenStore.token_lookup_exact
#print axioms BHS.Props.TokenStore.token_lookup_sound
#print axioms BHS.Props.TokenStore.repoAt_spec
#print axioms BHS.Props.TokenStore.middleware_fail_closed
#print axioms BHS.Props.TokenStore.ws_fail_closed
#print axioms BHS.Props.TokenStore.composed_authorize
#print axioms BHS.Props.TokenStore.new_service_writes_nothing
#print axioms BHS.Props.TokenStore.wired_eq
#print axioms BHS.Props.TokenStore.driver_crosscheck
#print axioms BHS.Props.AuthMw.AuthMw_render_of_spec
