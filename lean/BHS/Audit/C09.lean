import BHS.Props.C09
open BHS.Props.C09
#print axioms C09_mediated
#print axioms C09_valid_passes
#print axioms C09_401_iff
#print axioms C09_admin
#print axioms C09_admin_user_token
#print axioms C09_admin_passes
#print axioms C09_open_when_disabled
#print axioms C09_table_complete
#print axioms C09_outside_prefix
#print axioms C09_optional_off
#print axioms C09_same_api_routes
#print axioms C09_admin_routes
#print axioms C09_admin_routes_present
