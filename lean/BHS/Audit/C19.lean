import BHS.Props.C19
open BHS.Props.C19
#print axioms C19_compact
#print axioms C19_work
#print axioms C19_work_nonneg
#print axioms C19_nonpos
#print axioms C19_antitone
#print axioms C19_log2
#print axioms C19_work_antitone_generated
#print axioms C19_work_zero_generated
#print axioms C19_work_is_floor
#print axioms C19_work_floor_unique
#print axioms C19_work_floor_generated
#print axioms C19_work_pos_iff
#print axioms C19_log2_bracket
#print axioms C19_log2_le_31
#print axioms C19_log2_mono
#print axioms C19_work_pos_iff_generated
