import BHS.Props.C19
open BHS.Props.C19
#print axioms C19_compact
#print axioms C19_work
#print axioms C19_work_nonneg
#print axioms C19_nonpos
#print axioms C19_antitone
#print axioms C19_log2
