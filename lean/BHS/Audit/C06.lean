import BHS.Props.C06
open BHS.Props.C06
#print axioms C06_linear
#print axioms C06_checkpoint_cursor
#print axioms C06_cursor_round
#print axioms C06_unrequested_headers
#print axioms C06_disabled_mode
#print axioms C06_peer_loss
#print axioms C06_announce
#print axioms C06_announce_filtered
#print axioms C06_announce_partial
#print axioms C06_announce_after_answer
#print axioms C06_tick_keeps_exhausted_peer
#print axioms C06_tick_keeps_passed_peer
#print axioms C06_tick_drops_lagging_peer
#print axioms exSetup
#print axioms C06_checkpoint_cursor_counterexample
#print axioms C06_linear_from_any_round
#print axioms C06_fork
#print axioms C06_no_lc_header_stops
#print axioms C06_no_lc_header_quiet
#print axioms C06_any_choice
#print axioms C06_first_peer_any_order
#print axioms C06_late_announcement
#print axioms C06_pool_stable
#print axioms C06_pool_of_announcements
#print axioms C06_peer_loss_any_round
#print axioms C06_stalled_peer_replaced
