/-
M-HookSvcPrim: the vocabulary the REGENERATED module BHS/Gen/HookSvc.lean is written in
(harness/cmd/extract/gen_hooksvc.go translates the webhook code of property C12 — service, `Webhook.Notify`, repository,
DTO mapping and SQL layer — statement by statement into `do` blocks of `HookM`). Hand-written, core Lean only.
Everything below is TRUSTED as the meaning of one Go notion; the data types are those of the hand model
(BHS/Model/Hooks.lean), so the refinement theorems (BHS/Props/HookSvcGen.lean) compare like with like.

How Go maps to Lean here
* the `webhooks` table        ↦ `World.table : List Row` (rowid order), the hand model's table.
* `*notification.Webhook`     ↦ `Option Hook` (`nil` = `none`); `*dto.DbWebhook` ↦ `Option Row`; `dto.DbWebhook` (a `var` that
                                `GetContext` scans into) ↦ `Row`. A field read or write through `none` is the fault `nilDeref`
                                (the Go process would panic); the refinement theorems show it never happens.
                                Pointers are values here: the translator refuses the statement shapes where aliasing could
                                be observed (see its header).
* `Webhook` ≙ `Hook`, `DbWebhook` ≙ `Row` field by field: URL, TokenHeader, Token, LastEmitStatus, LastEmitTimestamp,
                                ErrorsCount, Active (+ MaxTries for `Hook`). `CreatedAt` is on the translator's skip list
                                (written once, never read by the property's code paths), as in the hand model.
* `int` (ErrorsCount, MaxTries, status codes) ↦ `Nat`: these numbers are never negative and the translator admits only `+`
                                and comparisons on them (a `-` is refused), so `Nat` and Go's `int` agree; overflow is out of reach.
* `string`                    ↦ `String`, except the status line `LastEmitStatus` ↦ `Status` (`""` = `Status.none`,
                                `fmt.Sprint(code, " ", body)` = `Status.reply code body`, `fmt.Sprint(err)` = `Status.err`).
* `time.Time`                 ↦ `Stamp`; `time.Now()` = `Stamp.at env.now` (time is a parameter), the zero time = `Stamp.zero`.
* `error`                     ↦ `Option GoErr` (`nil` = `none`).
* `map[string]string`, `map[string]interface{}` (string values) ↦ association lists; `m[k] = v` = `mapSet`.
* the HTTP client (`WebhookTargetClient.Call`) is ONE primitive, `clientCall`: it records the request (header map, method,
  url) in `World.log` and answers what the environment `env.out url` scripts for that url — the hand model's `Outcome`
  (a readable reply / a transport error / a reply whose body cannot be read). The production client (`env.cfg.prod`) sits on
  net/http, which refuses a request with an empty header field name before anything is sent.
* the SQL statements are primitives keyed by the NAME of the SQL constant (their texts are pinned by Gen.HookSql /
  C12_sql_shape): each is the hand model's list function for that statement. Transactions are modelled: `BeginTxx` opens a
  working copy, `tx.…Exec…` changes the copy, `Commit` installs it, the deferred `Rollback` drops an uncommitted copy when the
  function returns — so a missing `Commit` is visible. Connection failures are not modelled (Begin/Commit never fail).
-/
import BHS.Model.Hooks

namespace BHS.HookSvcPrim
open BHS.Model.Hooks

/-- outcomes the translation gives no meaning to -/
inductive Fault where
  | nilDeref     -- field access through a nil pointer (Go panics)
  | noTx         -- Exec / Commit on a transaction that is not open (database/sql: ErrTxDone; not reachable)
  | txOpen       -- BeginTxx while this run still has an open transaction (SQLite would block)
deriving DecidableEq, Repr

/-- the `error` values of these code paths -/
inductive GoErr where
  | sqlNoRows                                  -- database/sql.ErrNoRows
  | uniqueViolation                            -- INSERT of a url that is present (PRIMARY KEY)
  | missingParam (name : String)               -- sqlx: a named parameter the argument does not provide
  | transport                                  -- what `client.Call` returns when no reply arrives
  | bodyRead                                   -- what `io.ReadAll` returns for a body that cannot be read
  | bhs (name : String)                        -- bhserrors.<name>
  | bhsWrap (name : String) (cause : GoErr)      -- bhserrors.<name>.Wrap(cause), cause non-nil
  | wrap (cause : GoErr)                         -- pkg/errors.Wrap / Wrapf (cause non-nil; the message is dropped)
deriving DecidableEq, Repr

/-- pkg/errors.Wrap / Wrapf: wrapping nil is nil -/
def errorsWrap (e : Option GoErr) : Option GoErr := e.map GoErr.wrap

/-- bhserrors.<name>.Wrap(cause): a BHSError whose cause may be nil -/
def bhsWrap (name : String) (cause : Option GoErr) : Option GoErr :=
  some (match cause with | some c => .bhsWrap name c | none => .bhs name)

/-- `*http.Response`: the status code and the body (`none` = reading it fails) -/
structure Resp where
  statusCode : Nat
  body : Option String
deriving DecidableEq, Repr

/-- one `client.Call` as the client sees it: the whole header map, method, url; whether an HTTP request left the
    client; what came back -/
structure Wire where
  headers : List (String × String)
  method : String
  url : String
  posted : Bool
  seen : Outcome
deriving DecidableEq, Repr

/-- the arguments bound to the placeholders of sqlUpdateWebhook, in placeholder order -/
structure UpdateArgs where
  lastStatus : Status
  lastAt : Stamp
  errors : Nat
  active : Bool
  url : String
deriving DecidableEq, Repr

/-- `*sqlx.Tx` (there is at most one open transaction per run) -/
structure Tx where
deriving DecidableEq, Repr

/-- what the code reads from its surroundings: configuration, the scripted targets, the clock -/
structure Env where
  cfg : Cfg
  out : String → Outcome
  now : Nat

structure World where
  /-- the committed `webhooks` table -/
  table : List Row
  /-- the working copy of the open transaction -/
  tx : Option (List Row) := none
  /-- the client calls made so far -/
  log : List Wire := []
deriving DecidableEq, Repr

abbrev HookM := StateT World (Except Fault)

/-! ### pointers, maps, loops -/

/-- `p.F`, `*p` -/
def deref {α : Type} : Option α → HookM α
  | some a => pure a
  | none => throw .nilDeref

/-- `p.F = v` -/
def setField {α : Type} (p : Option α) (f : α → α) : HookM (Option α) :=
  match p with
  | some a => pure (some (f a))
  | none => throw .nilDeref

/-- `m[k] = v` -/
def mapSet (m : List (String × String)) (k v : String) : List (String × String) :=
  if m.any (fun e => decide (e.1 = k)) then m.map (fun e => if e.1 = k then (k, v) else e) else m ++ [(k, v)]

/-- `for _, x := range xs { body }`; `st` = the outer variables the body assigns (`Unit` when there are none) -/
def forRange {α σ : Type} (xs : List α) (init : σ) (f : α → σ → HookM σ) : HookM σ :=
  match xs with
  | [] => pure init
  | x :: rest => f x init >>= fun st => forRange rest st f

/-- the same for a body that may `break`: the body answers whether the loop goes on -/
def forRangeBrk {α σ : Type} (xs : List α) (init : σ) (f : α → σ → HookM (Bool × σ)) : HookM σ :=
  match xs with
  | [] => pure init
  | x :: rest => f x init >>= fun r => if r.1 then forRangeBrk rest r.2 f else pure r.2

/-- the zero values of the two structs -/
def zeroRow : Row := { url := "", tokenHeader := "", token := "", lastStatus := .none, lastAt := .zero, errors := 0, active := false }
def zeroHook : Hook := { url := "", tokenHeader := "", token := "", lastStatus := .none, lastAt := .zero, errors := 0, active := false, maxTries := 0 }

/-! ### strings, time -/

/-- strings.ToLower (the code compares the result with an ASCII literal only) -/
def stringsToLower (s : String) : String := String.ofList (s.toList.map Char.toLower)

/-- fmt.Sprint(err): the text of an error — the hand model keeps no error texts -/
def sprintErr (_ : Option GoErr) : Status := .err

/-- fmt.Sprint(code, " ", body) -/
def sprintReply (code : Nat) (body : String) : Status := .reply code body

/-- time.Now() -/
def timeNow (env : Env) : Stamp := .at env.now

/-! ### the HTTP client -/

/-- net/http sends a request only when every header field name is a token; modelled for the one bad name the service
    itself can produce, the empty one -/
def headerNamesOk (headers : List (String × String)) : Bool := headers.all (fun e => decide (e.1 ≠ ""))

/-- `client.Call(headers, method, url, event)` -/
def clientCall (env : Env) (headers : List (String × String)) (method url : String) : HookM (Option Resp × Option GoErr) :=
  fun w =>
    let posted := !env.cfg.prod || headerNamesOk headers
    let seen := if posted then env.out url else Outcome.transportErr
    let ans : Option Resp × Option GoErr := match seen with
      | .reply c b => (some { statusCode := c, body := some b }, none)
      | .transportErr => (none, some .transport)
      | .unreadableBody c => (some { statusCode := c, body := none }, none)
    .ok (ans, { w with log := w.log ++ [{ headers := headers, method := method, url := url, posted := posted, seen := seen }] })

/-- io.ReadAll(res.Body) (what was read before a failure is not used by the code) -/
def ioReadAll (body : Option String) : String × Option GoErr :=
  match body with
  | some b => (b, none)
  | none => ("", some .bodyRead)

/-! ### the SQL layer — primitives keyed by the NAME of the SQL constant -/

/-- h.db.BeginTxx(ctx, nil) -/
def dbBeginTxx : HookM (Tx × Option GoErr) := fun w =>
  match w.tx with
  | some _ => .error .txOpen
  | none => .ok ((⟨⟩, none), { w with tx := some w.table })

/-- `defer func() { _ = tx.Rollback() }()`: when the rest of the function has run, an uncommitted working copy is dropped -/
def txDeferRollback {α : Type} (_ : Tx) (rest : HookM α) : HookM α := fun w =>
  match rest w with
  | .ok (a, w') => .ok (a, { w' with tx := none })
  | .error f => .error f

/-- tx.Commit() -/
def txCommit (_ : Tx) : HookM (Option GoErr) := fun w =>
  match w.tx with
  | some t => .ok (none, { w with table := t, tx := none })
  | none => .error .noTx

/-- a statement inside the open transaction -/
def txStmt (f : List Row → Option (List Row) × Option GoErr) : HookM (Unit × Option GoErr) := fun w =>
  match w.tx with
  | some t => match f t with
    | (some t', e) => .ok (((), e), { w with tx := some t' })
    | (none, e) => .ok (((), e), w)
  | none => .error .noTx

/-- tx.NamedExecContext(sqlInsertWebhook, row): `Hooks.sqlInsert` of `:url, :token_header, :token` (the other columns take
    their defaults) -/
def txNamedExec_sqlInsertWebhook (_ : Tx) (r : Row) : HookM (Unit × Option GoErr) :=
  txStmt fun t => match sqlInsert t r.url r.tokenHeader r.token with
    | some t' => (some t', none)
    | none => (none, some .uniqueViolation)

/-- tx.NamedExecContext(sqlDeleteWebhookByURL, params): `Hooks.sqlDelete` of `:url` -/
def txNamedExec_sqlDeleteWebhookByURL (_ : Tx) (params : List (String × String)) : HookM (Unit × Option GoErr) :=
  txStmt fun t => match params.find? (fun e => decide (e.1 = "url")) with
    | some e => (some (sqlDelete t e.2), none)
    | none => (none, some (.missingParam "url"))

/-- sqlx.In(sqlUpdateWebhook, args…): the statement with its arguments in placeholder order (no slice argument: nothing to expand) -/
def sqlxIn_sqlUpdateWebhook (ls : Status) (la : Stamp) (e : Nat) (a : Bool) (url : String) : String × UpdateArgs × Option GoErr :=
  ("sqlUpdateWebhook", { lastStatus := ls, lastAt := la, errors := e, active := a, url := url }, none)

/-- tx.ExecContext(query, args...) of a query made by `sqlxIn_…`: `Hooks.sqlUpdate` -/
def txExec (_ : Tx) (query : String) (a : UpdateArgs) : HookM (Unit × Option GoErr) :=
  txStmt fun t =>
    if query = "sqlUpdateWebhook" then (some (sqlUpdate t a.url a.lastStatus a.lastAt a.errors a.active), none)
    else (none, some (.missingParam query))

/-- h.db.GetContext(&dest, sqlGetWebhookByURL, url): `Hooks.sqlGetByUrl`; `dest` untouched + sql.ErrNoRows when there is none -/
def dbGet_sqlGetWebhookByURL (dest : Row) (url : String) : HookM (Row × Option GoErr) := fun w =>
  match sqlGetByUrl w.table url with
  | some r => .ok ((r, none), w)
  | none => .ok ((dest, some .sqlNoRows), w)

/-- h.db.SelectContext(&dest, sqlGetAllWebhooks): `Hooks.sqlGetAll` appended to `dest` (sqlx yields no nil elements) -/
def dbSelect_sqlGetAllWebhooks (dest : List (Option Row)) : HookM (List (Option Row) × Option GoErr) := fun w =>
  .ok ((dest ++ (sqlGetAll w.table).map some, none), w)

end BHS.HookSvcPrim
