/-
M-NotifierPrim: the vocabulary the REGENERATED module BHS/Gen/Notifier.lean is written in
(harness/cmd/extract/gen_notifier.go translates notification/notification.go, notification/websocket.go and
domains/header_events.go `HeaderAdded` statement by statement). Hand-written, core Lean only; everything below is TRUSTED
as the meaning of one Go notion.

How Go maps to Lean here
* `Channel` (an interface value)   ↦ an element of an ABSTRACT type `C`: the translated `Notifier` code can store and hand on
                                      a channel, it has no way to look inside one or to run one. `Event` / `any` ↦ abstract `E`.
* `*Notifier`                       ↦ the value `Notifier C` (its one field); a method that assigns a field returns the new value.
* `go ch.Notify(event)`             ↦ `spawn (Task.chNotify ch event)`: the task is RECORDED in the state and the caller goes on;
                                      nothing of the task runs in the caller's thread.
* everything that can make the CALLER wait — channel send / receive, `Lock`, `RLock`, `Wait`, `Acquire`, `time.Sleep`,
  `select`, a direct call `ch.Notify(event)` — ↦ `mayBlock …`, recorded in `NState.blocked`; the theorems of
  Props/NotifierGen.lean say the generated `Notify` executes none.
* `[]byte` made by `json.Marshal`   ↦ `Option (Payload E)`: `none` = nil; a payload carries the ALLOCATION it lives in
                                      (`alloc`, fresh per `jsonMarshal`) and what it encodes. There is no other source of bytes in the
                                      subset (a shared buffer's `Bytes()` is refused by the translator), and the translator
                                      checks that `wsChan` has no field that could keep one.
* `publisher.Publish(channel, data, opts)` ↦ `publish`: records (channel, data, history option); its error is scripted by `WsEnv`.
* `*BlockHeader`                    ↦ `Chain.Row H` (hashes and their `String()` rendering ↦ `H`, as in Model/RepoM.lean).
-/
import BHS.Model.Chain

namespace BHS.NotifierPrim
open BHS.Chain

/-! ### the notifier -/

/-- what a goroutine started by the translated code will do -/
inductive Task (C E : Type) where
  | chNotify (ch : C) (ev : E)          -- `go ch.Notify(ev)`
deriving DecidableEq, Repr

/-- an operation executed in the CALLER's thread that can make it wait -/
inductive Blk (C E : Type) where
  | chNotify (ch : C) (ev : E)          -- a direct call `ch.Notify(ev)`: the caller waits for the channel
  | op (what : String)                   -- send / receive / Lock / Wait / Acquire / Sleep / select
deriving DecidableEq, Repr

structure Notifier (C : Type) where
  channels : List C
deriving DecidableEq, Repr

structure NState (C E : Type) where
  /-- the goroutines started so far, in order -/
  spawned : List (Task C E) := []
  /-- the possibly-blocking operations executed in the caller's thread so far -/
  blocked : List (Blk C E) := []
deriving DecidableEq, Repr

abbrev NotM (C E : Type) := StateM (NState C E)

variable {C E : Type}

def spawn (t : Task C E) : NotM C E Unit := modify fun σ => { σ with spawned := σ.spawned ++ [t] }

def mayBlock (b : Blk C E) : NotM C E Unit := modify fun σ => { σ with blocked := σ.blocked ++ [b] }

/-- `for _, x := range xs { body }` (no loop state) -/
def forRange {m : Type → Type} [Monad m] {α : Type} (xs : List α) (f : α → m Unit) : m Unit :=
  match xs with
  | [] => pure ()
  | x :: rest => f x >>= fun _ => forRange rest f

/-! ### the websocket channel -/

structure Payload (E : Type) where
  /-- the allocation the bytes live in -/
  alloc : Nat
  /-- what they encode -/
  json : E
deriving DecidableEq, Repr

/-- time.Duration -/
structure Dur where
  minutes : Int
deriving DecidableEq, Repr

/-- `time.Duration(n) * time.Minute` -/
def durMinutes (n : Int) : Dur := ⟨n⟩

/-- centrifuge.WithHistory(size, ttl) -/
structure HistOpt where
  size : Int
  ttl : Dur
deriving DecidableEq, Repr

def withHistory (size : Int) (ttl : Dur) : HistOpt := ⟨size, ttl⟩

structure Pub (E : Type) where
  channel : String
  data : Option (Payload E)
  hist : HistOpt
deriving DecidableEq, Repr

/-- config.WebsocketConfig -/
structure WsCfg where
  historyMax : Int
  historyTTL : Int
deriving DecidableEq, Repr

/-- `wsChan` minus publisher and logger (the publisher is the environment) -/
structure WsChan where
  historySize : Int
  historySeconds : Int
deriving DecidableEq, Repr

inductive WsErr where
  | marshal
  | publish
deriving DecidableEq, Repr

/-- scripted surroundings: which events json.Marshal can encode, whether the publisher accepts a message -/
structure WsEnv (E : Type) where
  marshalOk : E → Bool
  publishOk : Bool

structure WsState (E : Type) where
  nextAlloc : Nat := 0
  published : List (Pub E) := []
deriving DecidableEq, Repr

abbrev WsM (E : Type) := StateM (WsState E)

/-- json.Marshal(event): a FRESH byte slice (or nil and an error) -/
def jsonMarshal (env : WsEnv E) (ev : E) : WsM E (Option (Payload E) × Option WsErr) := fun σ =>
  if env.marshalOk ev then ((some ⟨σ.nextAlloc, ev⟩, none), { σ with nextAlloc := σ.nextAlloc + 1 })
  else ((none, some .marshal), σ)

/-- publisher.Publish(channel, data, opt) -/
def publish (env : WsEnv E) (channel : String) (data : Option (Payload E)) (h : HistOpt) : WsM E (Unit × Option WsErr) := fun σ =>
  (((), if env.publishOk then none else some .publish), { σ with published := σ.published ++ [⟨channel, data, h⟩] })

/-! ### the event -/

/-- domains.HeaderEventDetails -/
structure HeaderEventDetails (H : Type) where
  height : Nat
  hash : H
  version : Int
  merkleRoot : H
  timestamp : Nat
  nonce : Nat
  state : St
  cumulatedWork : Nat
  previousBlock : H
deriving DecidableEq, Repr

/-- domains.HeaderEvent -/
structure HeaderEvent (H : Type) where
  operation : String
  header : Option (HeaderEventDetails H)
deriving DecidableEq, Repr

end BHS.NotifierPrim
