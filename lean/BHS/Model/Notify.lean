/-
M-Notify: the fan-out of `Notifier.Notify` (/repo/notification/notification.go):

    func (n *Notifier) Notify(event Event) { for _, ch := range n.channels { go ch.Notify(event) } }

`Chains.Add` calls it once per stored header, after the insert succeeded. `Notify` returns as soon as it
has spawned one goroutine per registered channel; each goroutine performs one delivery attempt on its
channel (websocket publish / webhook POST) and ends, whether the attempt succeeded or not.

Small-step model over channel indices `0 .. n-1`:
  * `ingest e`     — always enabled: appends `e` to `ingested` and one task `(c, e)` per channel to `pending`
  * `deliver c e`  — enabled iff the task `(c, e)` is pending and channel `c` is not currently blocked
                     (a slow channel = blocked for a while, a dead one = blocked forever); it consumes the
                     task and appends `e` to `delivered c` (a failing channel still consumes its task: the
                     attempt was made once)
A schedule is a list of `(blocked set, step)`; a step that is not enabled is skipped.

OUTSIDE the model (named, not proved): the Go scheduler itself — that every spawned goroutine is
eventually run (fairness), and what a channel does inside its attempt (retries of a webhook, the
websocket library's own queue). The model says what is *owed* to each channel and that nothing owed to
one channel depends on another.
Core Lean only.
-/
namespace BHS.Notify

structure State (E : Type) where
  ingested : List E
  pending : List (Nat × E)
  delivered : Nat → List E

inductive Step (E : Type) where
  | ingest (e : E)
  | deliver (c : Nat) (e : E)
deriving Repr

variable {E : Type} [DecidableEq E]

def init : State E := { ingested := [], pending := [], delivered := fun _ => [] }

/-- the tasks one `Notify` call spawns: one per registered channel -/
def spawn (n : Nat) (e : E) : List (Nat × E) := (List.range n).map (fun c => (c, e))

/-- the tasks still owed to channel `c`, in spawn order -/
def pendingFor (σ : State E) (c : Nat) : List E :=
  (σ.pending.filter (fun p => p.1 == c)).map (·.2)

def enabled (blocked : List Nat) (σ : State E) : Step E → Bool
  | .ingest _ => true
  | .deliver c e => decide ((c, e) ∈ σ.pending) && !(decide (c ∈ blocked))

def apply (n : Nat) (σ : State E) : Step E → State E
  | .ingest e => { σ with ingested := σ.ingested ++ [e], pending := σ.pending ++ spawn n e }
  | .deliver c e =>
    { σ with pending := σ.pending.erase (c, e),
             delivered := fun c' => if c' = c then σ.delivered c ++ [e] else σ.delivered c' }

/-- one scheduler decision: the step is executed when enabled, skipped otherwise -/
def step (n : Nat) (σ : State E) (bs : List Nat × Step E) : State E :=
  if enabled bs.1 σ bs.2 then apply n σ bs.2 else σ

def exec (n : Nat) (σ : State E) (sched : List (List Nat × Step E)) : State E :=
  sched.foldl (step n) σ

/-- the events a schedule ingests, in order -/
def ingestsOf (sched : List (List Nat × Step E)) : List E :=
  sched.filterMap (fun bs => match bs.2 with
    | .ingest e => some e
    | .deliver _ _ => none)

/-- everything channel `c` can observe of a state -/
def view (σ : State E) (c : Nat) : List E × List E × List E := (σ.ingested, pendingFor σ c, σ.delivered c)

end BHS.Notify
