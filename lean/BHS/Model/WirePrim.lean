/-
Primitive table of the regenerated module BHS.Gen.WireCore (harness/cmd/extract/gen_wirecore.go):
the meaning, over byte lists, of the handful of library / package calls the translated functions of
/repo/internal/wire (common.go, message.go, netaddress.go, MaxPayloadLength methods) make.
Everything else the translator needs is the fixed-width integer layer of BHS.Model.Wire
(get8 … get64le, getBytes, put8 … put64le, Rd with its allocation meter, Err).

  io.Reader r (the function's stream)        the ambient state of `Rd`
  bytes.NewReader(x[:]) / bytes.NewBuffer(x) a byte list held in a local; a read on it is `subRd`
  binarySerializer.UintN(r, littleEndian)    get8 / get16le / get32le / get64le
  io.ReadFull(r, buf)                        getBytes (len buf)      (io.EOF / io.ErrUnexpectedEOF = Err.eof)
  make([]byte, n)  (n from the input)        Rd.alloc n              (the allocation meter)
  discardInput(r, n)                         discard n
  bytes.TrimRight(x, cut) / bytes.Trim       trimRight / trimBoth
  copy(dst, src)                             goCopy dst src
  var x [N]byte                              zeros N
  T.MaxPayloadLength(pver) of a type outside the model   Err.unmodelled (liftOpt / liftOptE)
  writes to an in-memory writer              `++` on the writer's byte list; they cannot fail
Core Lean only.
-/
import BHS.Model.Wire

namespace BHS.WirePrim
open BHS.Wire

/-- run a reader on the byte list `s` held in a local (bytes.Reader / bytes.Buffer): the value and what is left of
    `s`; the function's own stream is untouched, allocations are metered, an error is the function's error -/
def subRd (s : Bytes) (m : Rd α) : Rd (α × Bytes) := fun b =>
  match m s with
  | (al, .error e) => (al, .error e)
  | (al, .ok (a, s')) => (al, .ok ((a, s'), b))

/-- a value the model may not have (MaxPayloadLength of a type outside the model) -/
def liftOpt : Option α → Rd α
  | some a => pure a
  | none => Rd.fail .unmodelled

def liftOptE : Option α → Except Err α
  | some a => .ok a
  | none => .error .unmodelled

/-- discardInput(r, n): reads (and drops) up to n bytes through a 10 KiB buffer and a remainder buffer -/
def discard (n : Nat) : Rd Unit := fun b => (discardAllocs n, .ok ((), b.drop n))

/-- `var x [n]byte` -/
def zeros (n : Nat) : Bytes := List.replicate n 0

/-- Go's `copy(dst, src)` seen as the new value of `dst` -/
def goCopy (dst src : Bytes) : Bytes := src.take dst.length ++ dst.drop src.length

/-- `bytes.TrimRight(l, cut)` -/
def trimRight (l cut : Bytes) : Bytes := (l.reverse.dropWhile (fun x => cut.contains x)).reverse

/-- `bytes.Trim(l, cut)` -/
def trimBoth (l cut : Bytes) : Bytes := trimRight (l.dropWhile (fun x => cut.contains x)) cut

end BHS.WirePrim
