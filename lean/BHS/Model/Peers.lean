/-
M-Peers — admission bookkeeping of the p2p server, transcribed from
/repo/transports/p2p/server.go (`handleAddPeerMsg`, `handleDonePeerMsg`,
`handleBanPeerMsg`) and /repo/transports/p2p/peerstate.go (`peerState`,
`Count`, `CountIP`). Core Lean only (links into `bhsdriver`).

What is modelled, including the accidents of the code:

* `peerState` has three maps `id → peer` (inbound / outbound / persistent), the map
  `banned : host → expiry`, and two counter maps `connectionCount : host → int`,
  `outboundGroups : group → int`. Go maps are rendered as association lists keyed by
  peer id (`put` overwrites an entry with the same id, exactly like `m[id] = sp`) and as
  total functions with default `0` / `none` (a missing Go map entry reads as the zero
  value). Counters are `Int`: Go decrements them without a floor.
* order of the checks in `handleAddPeerMsg`: shutdown → `SplitHostPort` error → ban
  (`time.Now().Before(banEnd)`; an *expired* entry is deleted on the spot, even if the
  peer is then refused by a limit) → `CountIP(host) >= MaxPeersPerIP` →
  `Count() >= MaxPeers` → insert.
* persistent peers are inserted in `persistentPeers` and counted in `outboundGroups`
  but NOT in `connectionCount` (they are subject to the per-host check on arrival, but
  never occupy a per-host slot); `handleDonePeerMsg` mirrors this (`!sp.persistent`).
* `handleDonePeerMsg` decrements `outboundGroups` only when `sp.VersionKnown()`; the
  flag is part of the peer (`vk`). In production `AddPeer` is only called from
  `serverPeer.OnVersion`, i.e. after `versionKnown` was set.
* the peer id is `peer.ID()` (`int32`, assigned from the process-wide counter
  `nodeCount` in `handleVersionMessage`); 2^31 connections (id wrap) are out of scope.
* time is the wall clock read by `time.Now()`; here `now` in milliseconds, advanced by
  the `clock` event; `banMs` is `p2pConfig.BanDuration`.
* what `handleDonePeerMsg` does outside `peerState` (`connManager.Disconnect`,
  `addrManager.Connected`) is not part of this model (see M-ConnMgr for the former).
-/
namespace BHS.Model.Peers

inductive Kind where
  | inbound | outbound | persistent
  deriving DecidableEq, Repr

/-- What the handlers read from a `*serverPeer`: `ID()`, `Inbound()`/`persistent`,
host of `Addr()`, `addrmgr.GroupKey(NA())`, `VersionKnown()`. -/
structure Peer where
  id : Nat
  kind : Kind
  host : Nat
  group : Nat
  vk : Bool
  deriving DecidableEq, Repr

structure Cfg where
  maxPeers : Nat      -- config.MaxPeers
  maxPerIP : Nat      -- config.MaxPeersPerIP
  banMs : Nat         -- p2pConfig.BanDuration (ms)

structure State where
  inb : List Peer := []
  outb : List Peer := []
  pers : List Peer := []
  banned : Nat → Option Nat := fun _ => none
  groups : Nat → Int := fun _ => 0
  conn : Nat → Int := fun _ => 0
  now : Nat := 0
  shutdown : Bool := false

def init : State := {}

/-- `m[k] = v` on a map rendered as a total function. -/
def upd {α : Type} (f : Nat → α) (k : Nat) (v : α) : Nat → α := fun x => if x = k then v else f x

/-- `m[k] += d` (a missing entry reads 0). -/
def bump (f : Nat → Int) (k : Nat) (d : Int) : Nat → Int := fun x => if x = k then f x + d else f x

/-- `list[sp.ID()] = sp` -/
def put (l : List Peer) (p : Peer) : List Peer := p :: l.filter (fun q => q.id != p.id)
/-- `delete(list, id)` -/
def del (l : List Peer) (id : Nat) : List Peer := l.filter (fun q => q.id != id)
/-- `_, ok := list[id]` -/
def has (l : List Peer) (id : Nat) : Bool := l.any (fun q => q.id == id)

/-- `peerState.Count()` -/
def count (s : State) : Nat := s.inb.length + s.outb.length + s.pers.length

def all (s : State) : List Peer := s.inb ++ s.outb ++ s.pers

inductive AddResult where
  | admitted | shutdown | badaddr | banned | perHost | total
  deriving DecidableEq, Repr

/-- `banEnd, ok := state.banned[host]; ok && time.Now().Before(banEnd)` -/
def banActive (s : State) (h : Nat) : Bool :=
  match s.banned h with
  | some e => decide (s.now < e)
  | none => false

/-- `delete(state.banned, host)` (reached only with an expired or absent entry). -/
def clearBan (s : State) (h : Nat) : State := { s with banned := upd s.banned h none }

/-- the insertion part of `handleAddPeerMsg` -/
def admitPeer (s : State) (p : Peer) : State :=
  match p.kind with
  | .inbound => { s with inb := put s.inb p, conn := bump s.conn p.host 1 }
  | .outbound => { s with groups := bump s.groups p.group 1, outb := put s.outb p, conn := bump s.conn p.host 1 }
  | .persistent => { s with groups := bump s.groups p.group 1, pers := put s.pers p }

/-- `handleAddPeerMsg` for a peer whose address splits into host:port. -/
def addPeer (c : Cfg) (s : State) (p : Peer) : State × AddResult :=
  if s.shutdown then (s, .shutdown)
  else if banActive s p.host then (s, .banned)
  else if (c.maxPerIP : Int) ≤ (clearBan s p.host).conn p.host then (clearBan s p.host, .perHost)
  else if c.maxPeers ≤ count (clearBan s p.host) then (clearBan s p.host, .total)
  else (admitPeer (clearBan s p.host) p, .admitted)

/-- `handleAddPeerMsg` for a peer whose `Addr()` does not split: refused before any state is read. -/
def addBad (s : State) : State × AddResult :=
  if s.shutdown then (s, .shutdown) else (s, .badaddr)

/-- the map `handleDonePeerMsg` selects: `persistent` first, then `Inbound()`. -/
def listOf (s : State) : Kind → List Peer
  | .persistent => s.pers
  | .inbound => s.inb
  | .outbound => s.outb

/-- `if !sp.Inbound() && sp.VersionKnown() { state.outboundGroups[GroupKey(sp.NA())]-- }` -/
def decGroup (s : State) (p : Peer) : State :=
  if p.kind ≠ .inbound ∧ p.vk = true then { s with groups := bump s.groups p.group (-1) } else s

@[simp] theorem decGroup_inb (s : State) (p : Peer) : (decGroup s p).inb = s.inb := by unfold decGroup; split <;> rfl
@[simp] theorem decGroup_outb (s : State) (p : Peer) : (decGroup s p).outb = s.outb := by unfold decGroup; split <;> rfl
@[simp] theorem decGroup_pers (s : State) (p : Peer) : (decGroup s p).pers = s.pers := by unfold decGroup; split <;> rfl
@[simp] theorem decGroup_conn (s : State) (p : Peer) : (decGroup s p).conn = s.conn := by unfold decGroup; split <;> rfl
@[simp] theorem decGroup_banned (s : State) (p : Peer) : (decGroup s p).banned = s.banned := by unfold decGroup; split <;> rfl
@[simp] theorem decGroup_now (s : State) (p : Peer) : (decGroup s p).now = s.now := by unfold decGroup; split <;> rfl
@[simp] theorem decGroup_shutdown (s : State) (p : Peer) : (decGroup s p).shutdown = s.shutdown := by unfold decGroup; split <;> rfl

/-- `handleDonePeerMsg` (the `peerState` part). -/
def donePeer (s : State) (p : Peer) : State :=
  if has (listOf s p.kind) p.id then
    match p.kind with
    | .persistent => { decGroup s p with pers := del s.pers p.id }
    | .inbound => { decGroup s p with inb := del s.inb p.id, conn := bump s.conn p.host (-1) }
    | .outbound => { decGroup s p with outb := del s.outb p.id, conn := bump s.conn p.host (-1) }
  else s

/-- `handleBanPeerMsg`: `state.banned[host] = time.Now().Add(BanDuration)` -/
def banHost (c : Cfg) (s : State) (h : Nat) : State := { s with banned := upd s.banned h (some (s.now + c.banMs)) }

inductive Event where
  | add (p : Peer)
  | addBad
  | done (p : Peer)
  | ban (host : Nat)
  | clock (dt : Nat)
  | shutdown
  deriving Repr

def step (c : Cfg) (s : State) : Event → State × Option AddResult
  | .add p => let r := addPeer c s p; (r.1, some r.2)
  | .addBad => let r := addBad s; (r.1, some r.2)
  | .done p => (donePeer s p, none)
  | .ban h => (banHost c s h, none)
  | .clock dt => ({ s with now := s.now + dt }, none)
  | .shutdown => ({ s with shutdown := true }, none)

def run (c : Cfg) (s : State) (evs : List Event) : State := evs.foldl (fun s e => (step c s e).1) s

/-! ### what the theorems count -/

/-- admitted non-persistent peers of host `h` -/
def hostCount (s : State) (h : Nat) : Nat := (s.inb ++ s.outb).countP (fun p => p.host == h)
/-- admitted outbound (incl. persistent) peers of group `g` -/
def groupCount (s : State) (g : Nat) : Nat := (s.outb ++ s.pers).countP (fun p => p.group == g)

/-! ### assumptions on the event sequence, guaranteed by the callers in /repo

* an `add` carries a peer id that no currently admitted peer has (`peer.go`: the id is
  taken from an atomic counter) and, for outbound peers, `VersionKnown()` is already true
  (`AddPeer` is called from `OnVersion`);
* a `done` carries the same peer object that was added under that id. -/
def Ok (s : State) : Event → Prop
  | .add p => (∀ q ∈ all s, q.id ≠ p.id) ∧ (p.kind ≠ .inbound → p.vk = true)
  | .done p => ∀ q ∈ all s, q.id = p.id → q = p
  | _ => True

def Valid (c : Cfg) (s : State) : List Event → Prop
  | [] => True
  | e :: es => Ok s e ∧ Valid c (step c s e).1 es

/-- The same assumptions stated on the history alone (no reference to the state): `added`
is the list of peers handed to `add` so far. -/
def ValidH (added : List Peer) : List Event → Prop
  | [] => True
  | .add p :: es => (∀ q ∈ added, q.id ≠ p.id) ∧ (p.kind ≠ .inbound → p.vk = true) ∧ ValidH (p :: added) es
  | .done p :: es => (∀ q ∈ added, q.id = p.id → q = p) ∧ ValidH added es
  | _ :: es => ValidH added es

/-! ### the specification's own notion of "banned until": independent of `State.banned` -/

structure Ghost where
  now : Nat := 0
  banEnd : Nat → Option Nat := fun _ => none

def gstep (c : Cfg) (g : Ghost) : Event → Ghost
  | .ban h => { g with banEnd := upd g.banEnd h (some (g.now + c.banMs)) }
  | .clock dt => { g with now := g.now + dt }
  | _ => g

/-- time elapsed and, per host, the end of the most recent ban, as functions of the history. -/
def ghost (c : Cfg) (evs : List Event) : Ghost := evs.foldl (gstep c) {}

end BHS.Model.Peers
