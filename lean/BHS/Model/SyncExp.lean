/-
M-SyncExp: the experimental sync engine (one peer), transcribed from
  /repo/internal/transports/p2p/peer/peer.go        (StartHeadersSync, requestHeaders, handleHeadersMsg, handleInvMsg,
      isSynced, switchToSendHeadersMode, updateLatestStats)
  /repo/internal/transports/p2p/peer/checkpoint.go  (newCheckpoint, VerifyAndAdvance, next, findNextCheckpoint)
Accidents kept: `latestHash` is never set (updateLatestStats only ever clears it), so `isSynced` is "peer height = tip
height"; `syncedCheckpoints` is never set, so inv and getheaders messages are always ignored; `Disconnect` called from
the reader goroutine waits for that very goroutine, so after a disconnect nothing is processed any more.
Core Lean only.
-/
import BHS.Model.Query

namespace BHS.SyncExp
open BHS.Chain

structure Cfg (H : Type) where
  chain : Chain.Cfg H
  zero : H
  checkpoints : List (Nat × H)      -- chainParams.Checkpoints
  sendHeadersVersion : Nat := 70012

structure State (H : Type) where
  started : Bool
  cp : Option (Nat × H)             -- checkpoint.currentCheckpoint
  cpIdx : Nat                        -- checkpoint.currentIndex
  sendHeadersMode : Bool
  syncedCheckpoints : Bool           -- never set by the code
  latestHeight : Int
  pver : Nat                         -- negotiated protocol version
  disc : Bool                        -- Disconnect() called: the reader goroutine is gone
  store : Store H

inductive Action (H : Type) where
  | getheaders (loc : List H) (stop : H)
  | sendheaders
  | disconnect
  | panic
deriving Repr, DecidableEq

variable {H : Type} [DecidableEq H]

def tipHeight (s : Store H) : Nat :=
  match getTip s with
  | some t => t.height
  | none => 0

/-- the linear scan of findNextCheckpoint (no current checkpoint) -/
def scan (height : Nat) : List (Nat × H) → Nat → Option ((Nat × H) × Nat)
  | [], _ => none
  | c :: rest, i => if height < c.1 then some (c, i) else scan height rest (i + 1)

inductive Next (H : Type) where
  | found (c : Nat × H) (i : Nat)
  | last
  | panic                            -- index out of range (checkpoint list not strictly ascending)

/-- checkpoint.findNextCheckpoint -/
def findNextCheckpoint (cps : List (Nat × H)) (cur : Option (Nat × H)) (curIdx : Nat) (height : Nat) : Next H :=
  match cps.getLast? with
  | none => .last
  | some fin =>
    if height ≥ fin.1 then .last
    else
      match cur with
      | some _ =>
        match cps[curIdx + 1]? with
        | some c => .found c (curIdx + 1)
        | none => .panic
      | none =>
        match scan height cps 0 with
        | some (c, i) => .found c i
        | none => .last

/-- requestHeaders / writeGetHeadersMsg -/
def requestHeaders (cfg : Cfg H) (st : State H) : List (Action H) :=
  match st.cp with
  | none => [.getheaders (locator st.store) cfg.zero]
  | some c => [.getheaders (locator st.store) c.2]

/-- StartHeadersSync after the handshake; `peerHeight` is the LastBlock of the peer's version message -/
def start (cfg : Cfg H) (store : Store H) (peerHeight : Int) (pver : Nat) : State H × List (Action H) :=
  let base : State H := { started := true, cp := none, cpIdx := 0, sendHeadersMode := false, syncedCheckpoints := false,
                          latestHeight := peerHeight, pver := pver, disc := false, store := store }
  if cfg.checkpoints.isEmpty then (base, requestHeaders cfg base)
  else
    match findNextCheckpoint cfg.checkpoints none 0 (tipHeight store) with
    | .found c i => ({ base with cp := some c, cpIdx := i }, requestHeaders cfg { base with cp := some c, cpIdx := i })
    | .last => (base, requestHeaders cfg base)
    | .panic => (base, [.panic])

inductive LoopEnd where
  | completed | rejected | checkpointError | panicked
deriving DecidableEq, Repr

/-- the loop of handleHeadersMsg: (store, cp, cpIdx, lastHeight, headersReceived, end) -/
def headersLoop (cfg : Cfg H) : Store H → Option (Nat × H) → Nat → List (Src H) → Nat → Nat →
    Store H × Option (Nat × H) × Nat × Nat × Nat × LoopEnd
  | s, cp, ci, [], lh, n => (s, cp, ci, lh, n, .completed)
  | s, cp, ci, x :: xs, lh, n =>
    match (add cfg.chain s x).2 with
    | .duplicate => headersLoop cfg (add cfg.chain s x).1 cp ci xs lh n
    | .creationFail => headersLoop cfg (add cfg.chain s x).1 cp ci xs lh n
    | .rejected => ((add cfg.chain s x).1, cp, ci, lh, n, .rejected)
    | .stored r =>
      if r.st ≠ .lc then headersLoop cfg (add cfg.chain s x).1 cp ci xs lh n
      else
        -- checkpoint.VerifyAndAdvance
        match cp with
        | none => headersLoop cfg (add cfg.chain s x).1 cp ci xs r.height (n + 1)
        | some c =>
          if r.height < c.1 then headersLoop cfg (add cfg.chain s x).1 cp ci xs r.height (n + 1)
          else if r.height = c.1 then
            if r.hash ≠ c.2 then ((add cfg.chain s x).1, cp, ci, lh, n, .checkpointError)
            else
              match findNextCheckpoint cfg.checkpoints cp ci r.height with
              | .found c' i' => headersLoop cfg (add cfg.chain s x).1 (some c') i' xs r.height (n + 1)
              | .last => headersLoop cfg (add cfg.chain s x).1 none 0 xs r.height (n + 1)   -- index = notFound
              | .panic => ((add cfg.chain s x).1, cp, ci, lh, n, .panicked)
          else ((add cfg.chain s x).1, cp, ci, lh, n, .checkpointError)     -- header above the next checkpoint

/-- handleHeadersMsg -/
def handleHeaders (cfg : Cfg H) (st : State H) (hs : List (Src H)) : State H × List (Action H) :=
  if st.disc || !st.started then (st, [])
  else
    let l := headersLoop cfg st.store st.cp st.cpIdx hs 0 0
    let st1 := { st with store := l.1, cp := l.2.1, cpIdx := l.2.2.1 }
    match l.2.2.2.2.2 with
    | .rejected => ({ st1 with disc := true }, [.disconnect])
    | .checkpointError => ({ st1 with disc := true }, [.disconnect])
    | .panicked => (st1, [.panic])
    | .completed =>
      if l.2.2.2.2.1 = 0 then (st1, [])
      else
        let lh : Int := l.2.2.2.1
        let st2 := { st1 with latestHeight := if lh > st1.latestHeight then lh else st1.latestHeight }
        if st2.sendHeadersMode then (st2, [])
        else if st2.latestHeight = (tipHeight st2.store : Int) then
          -- isSynced (latestHash is always nil) -> switchToSendHeadersMode
          if st2.pver ≥ cfg.sendHeadersVersion then ({ st2 with sendHeadersMode := true }, [.sendheaders]) else (st2, [])
        else (st2, requestHeaders cfg st2)

/-- handleInvMsg: ignored while `syncedCheckpoints` is false — which is always -/
def handleInv (_cfg : Cfg H) (st : State H) (invs : List (Bool × H)) : State H × List (Action H) :=
  if st.disc || !st.started then (st, [])
  else if !st.syncedCheckpoints then (st, [])
  else
    match (invs.reverse.find? (·.1)).map (·.2) with
    | none => (st, [])
    | some h =>
      match byHash st.store h with
      | some _ => (st, [])
      | none => (st, [.getheaders (locator st.store) h])

inductive Event (H : Type) where
  | headers (hs : List (Src H))
  | inv (invs : List (Bool × H))

def step (cfg : Cfg H) (st : State H) : Event H → State H × List (Action H)
  | .headers hs => handleHeaders cfg st hs
  | .inv invs => handleInv cfg st invs

end BHS.SyncExp
