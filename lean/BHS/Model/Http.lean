/-
M-Http: the HTTP handlers as decision functions from ABSTRACT inputs to a response
`{status, bodies}` — a transcription of the control flow of

  /repo/transports/http/endpoints/api/headers/endpoints.go      (byHash, byHeight, ancestors, commonAncestor, state)
  /repo/transports/http/endpoints/api/tips/endpoints.go         (tips, tip/longest)
  /repo/transports/http/endpoints/api/merkleroots/endpoints.go  (list, verify)
  /repo/transports/http/endpoints/api/webhook/endpoints.go      (register, get, revoke)
  /repo/transports/http/endpoints/api/access/endpoints.go       (get, create, revoke)
  /repo/transports/http/endpoints/api/network/endpoints.go      (peers, peers count)
  /repo/transports/http/endpoints/status/endpoints.go           (status)
  /repo/transports/http/auth/*.go                               (token middleware, RequireAdmin)
  /repo/bhserrors/http_response.go                              (ErrorResponse / mapAndLog; table = BHS.Gen.Errors)
  /repo/transports/http/server/http_server.go                   (gin.New + gin.Recovery: a handler panic is 500 with an EMPTY body;
                                                                 gin's default NoRoute / RedirectTrailingSlash)

Abstract inputs (TRUSTED — computed by net/http, gin and encoding/json, not by the model):
  * query / path parameters as `Option String` (absent / present), parsed here by `atoi` (= strconv.Atoi);
  * the result of binding the body: `bindErr` | `parsed v` (for POST /webhook: error flag + the `url` the decoder left in the struct);
  * the outcome of the token middleware (`AuthIn`);
  * which requests gin's router answers itself (`noRoute`, `redirectSlash`).
Service results are NOT inputs: they are computed from the header store by the service-level model
(BHS/Model/Query.lean) and from the webhook table by the small model below.

Core Lean only.
-/
import BHS.Model.Query
import BHS.Gen.Errors

namespace BHS.Http
open BHS BHS.Chain

/-! ### strconv.Atoi (64-bit `int`) -/

def isDigit (c : Char) : Bool := decide (48 ≤ c.toNat ∧ c.toNat ≤ 57)

/-- value of a digit string, most significant first -/
def digitsVal (ds : List Char) : Nat := ds.foldl (fun a c => a * 10 + (c.toNat - 48)) 0

/-- the digit part: non-empty, decimal digits only, value within `int` = int64 -/
def atoiDigits (neg : Bool) (ds : List Char) : Option Int :=
  if ds.isEmpty then none                                     -- ErrSyntax
  else if !ds.all isDigit then none                           -- ErrSyntax
  else if neg then (if digitsVal ds ≤ 9223372036854775808 then some (-(digitsVal ds : Int)) else none)   -- ErrRange
  else (if digitsVal ds < 9223372036854775808 then some (digitsVal ds : Int) else none)                  -- ErrRange

/-- strconv.Atoi on the characters of the argument: one optional sign, then one or more decimal digits
    (no spaces, no underscores, no base prefixes), value within `int` = int64; anything else is an error (`none`).
    (Atoi's fast path for short strings and its ParseInt(s, 10, 0) slow path accept the same language.) -/
def atoiChars : List Char → Option Int
  | '+' :: r => atoiDigits false r
  | '-' :: r => atoiDigits true r
  | s => atoiDigits false s

def atoi (s : String) : Option Int := atoiChars s.toList

/-! ### responses -/

/-- what one write to the gin ResponseWriter leaves in the body -/
inductive Body where
  | errorDoc (code message : String)   -- `{"code":…,"message":…}` (bhserrors.ResponseError)
  | value                              -- the JSON rendering of a handler's success value (object / array / number)
  | bareString                         -- `c.JSON(status, "some text")`: a JSON string
  | nonJson                            -- text/plain or text/html written by gin itself
deriving DecidableEq, Repr

def Body.isJson : Body → Bool
  | .nonJson => false
  | _ => true

/-- status line + the documents written to the body, in order (an empty body is `[]`) -/
structure Response where
  status : Nat
  bodies : List Body
deriving DecidableEq, Repr

/-- gin's ResponseWriter: the first write (or an `AbortWithStatus`, which calls WriteHeaderNow) fixes the status
    line; later `c.JSON(status, …)` calls only append to the body -/
def send (prev : Option Response) (st : Nat) (b : Body) : Response :=
  match prev with
  | none => ⟨st, [b]⟩
  | some r => ⟨r.status, r.bodies ++ [b]⟩

/-- `c.BindJSON` / `c.Bind` failing: MustBindWith → AbortWithError(400) writes the status line, no body yet -/
def afterBindAbort : Option Response := some ⟨400, []⟩

/-- bhserrors.ErrorResponse with an ExtendedError: its status, code and message (mapAndLog) -/
def errDoc (e : Gen.ErrDef) : Body := .errorDoc e.code e.message
def errResp (e : Gen.ErrDef) : Response := ⟨e.status, [errDoc e]⟩

/-- bhserrors.ErrorResponse with any other error: mapAndLog's fallback (500 `error-unknown`) -/
def unknownErr : Response := ⟨Gen.unknownErrorStatus, [.errorDoc Gen.unknownErrorCode Gen.unknownErrorMessage]⟩

/-- a panic inside a handler: gin.Recovery answers 500 and writes nothing -/
def panicResp : Response := ⟨500, []⟩

/-- `c.JSON(http.StatusOK, v)` -/
def ok200 : Response := ⟨200, [.value]⟩

/-! ### switches: one per defect found in the code as it was first checked (docs/findings/C16.md)

`codeToday` says what /repo does now. Switches 1–6 were flipped together with the `fix:` commits named below;
7–9 (gin defaults / the empty /status answer) stay known findings. A switch set to `false` reproduces the old
behaviour, so the theorems — proved for EVERY setting — also say exactly what each repair bought. -/

structure Fixes where
  /-- GET /chain/header/byHeight: `height` missing / not an int. Before 8c36075 the *strconv.NumError went to
      ErrorResponse unwrapped → 500 `error-unknown`; now wrapped in ErrInvalidHeight → 400 structured -/
  byHeightValidatesHeight : Bool
  /-- POST /chain/header/commonAncestor with `[]` / `null`. Before 397583f `headers[0]` on an empty slice panicked →
      500, empty body; now ErrCommonAncestorEmptyList → 400 -/
  commonAncestorRejectsEmpty : Bool
  /-- POST /chain/header/commonAncestor when there is no common ancestor (a requested header has height 0, or the
      walk runs out). Before 15c8125 the service returned `nil, nil` and `newBlockHeaderResponse(nil)` dereferenced
      nil → 500, empty body; now ErrAncestorNotFound → 400 -/
  commonAncestorHandlesNil : Bool
  /-- POST /webhook with an unbindable body. Before 64394b6 ErrBindBody was written and the handler CONTINUED (second
      document: ErrURLBodyRequired, or — when the decoder had already filled `url` — the webhook was created and written) -/
  webhookReturnsAfterBindError : Bool
  /-- POST /chain/merkleroot/verify bind error. Before 0f9264d `c.JSON(400, err.Error())` — a bare JSON string -/
  verifyBindErrorStructured : Bool
  /-- GET /access with authentication disabled. Before 689736e `c.Status(400)` and nothing else; now ErrTokenNotFound → 404 -/
  accessGetNoAuthStructured : Bool
  /-- GET /status: today `c.Status(200)` and nothing else (no JSON document) — known finding -/
  statusWritesJson : Bool
  /-- unknown path / method: today gin's default NoRoute — 404 `text/plain` "404 page not found" — known finding -/
  noRouteStructured : Bool
  /-- a registered path with / without its trailing slash: today gin's RedirectTrailingSlash — 301 with an HTML body (GET) /
      307 with an empty body (other methods) — known finding -/
  trailingSlashRedirectOff : Bool
deriving DecidableEq, Repr

/-- THE CODE TODAY (re-verified on the real engine by harness/cmd/drive/c16.go on every run) -/
def codeToday : Fixes :=
  { byHeightValidatesHeight := true         -- fix: 8c36075
    commonAncestorRejectsEmpty := true      -- fix: 397583f
    commonAncestorHandlesNil := true        -- fix: 15c8125
    webhookReturnsAfterBindError := true    -- fix: 64394b6
    verifyBindErrorStructured := true       -- fix: 0f9264d
    accessGetNoAuthStructured := true       -- fix: 689736e
    statusWritesJson := false               -- code today (known finding)
    noRouteStructured := false              -- code today (known finding)
    trailingSlashRedirectOff := false }     -- code today (known finding)

/-- the code as it was first checked (every switch off): what the `_iff` theorems say about it is the record of the defects -/
def codeBefore : Fixes := ⟨false, false, false, false, false, false, false, false, false⟩

def allFixed : Fixes := ⟨true, true, true, true, true, true, true, true, true⟩

/-- the structured answer a fixed branch gives (code / message as proposed in docs/findings/C16.md) -/
def fixedErr (st : Nat) (code message : String) : Response := ⟨st, [.errorDoc code message]⟩

/-! ### authentication layer (transports/http/auth) -/

/-- outcome of TokenMiddleware.ApplyToAPI for a request (trusted input; C09 / C10 are about how it is computed) -/
inductive AuthIn where
  | disabled        -- http.use_auth = false: no check, no "token" in the context
  | missing         -- no Authorization header
  | malformed       -- not `Bearer <token>`
  | unknownToken    -- tokens.GetToken failed
  | user            -- a stored token
  | admin           -- the configured admin token
deriving DecidableEq, Repr

/-- ApplyToAPI: `some e` = AbortWithErrorResponse(e) -/
def gate : AuthIn → Option Gen.ErrDef
  | .missing => some Gen.errMissingAuthHeader
  | .malformed => some Gen.errInvalidAuthHeader
  | .unknownToken => some Gen.errInvalidAccessToken
  | _ => none

/-- auth.RequireAdmin(handler, cfg.UseAuth) for a request that passed the gate -/
def adminGate : AuthIn → Option Gen.ErrDef
  | .user => some Gen.errUnauthorized
  | _ => none       -- disabled: handler unwrapped; admin: validateToken = nil

/-! ### webhook table (notification/webhooks_service.go: CreateWebhook / refreshWebhook / DeleteWebhook) -/

structure Hook where
  url : String
  active : Bool
deriving DecidableEq, Repr

inductive CreateRes where
  | created | refreshed | alreadyActive
deriving DecidableEq, Repr

def findHook (hooks : List Hook) (url : String) : Option Hook := hooks.find? (fun h => decide (h.url = url))

/-- CreateWebhook: insert; when the insert fails (url is the primary key) refreshWebhook: an inactive one is
    re-activated, an active one is ErrRefreshWebhook -/
def createWebhook (hooks : List Hook) (url : String) : CreateRes × List Hook :=
  match findHook hooks url with
  | none => (.created, hooks ++ [⟨url, true⟩])
  | some h =>
    if h.active then (.alreadyActive, hooks)
    else (.refreshed, hooks.map (fun k => if k.url = url then { k with active := true } else k))

def deleteHook (hooks : List Hook) (url : String) : List Hook := hooks.filter (fun h => decide (h.url ≠ url))

/-! ### handlers -/

/-- result of binding a JSON body (encoding/json through gin — trusted input) -/
inductive Bind (α : Type) where
  | bindErr
  | parsed (v : α)
deriving Repr

/-- the state the handlers read (and, for webhooks, write) -/
structure Env where
  store : Store String          -- table `headers`
  excess : Int                  -- merkleroot.max_block_height_excess
  hooks : List Hook             -- table `webhooks`
deriving Repr

/-- one request, after routing and parameter extraction -/
inductive Req where
  | headerByHash (hash : String)                       -- GET /chain/header/:hash
  | headerState (hash : String)                        -- GET /chain/header/state/:hash
  | byHeight (height count : Option String)            -- GET /chain/header/byHeight?height=&count=
  | ancestors (hash anc : String)                      -- GET /chain/header/:hash/:ancestorHash/ancestor
  | commonAncestor (body : Bind (List String))         -- POST /chain/header/commonAncestor   (`null` binds to `[]`)
  | tips                                               -- GET /chain/tip
  | tipLongest                                         -- GET /chain/tip/longest
  | merkleroots (batchSize key : Option String)        -- GET /chain/merkleroot?batchSize=&lastEvaluatedKey=
  | verify (body : Bind (List (String × Int)))         -- POST /chain/merkleroot/verify        (`null` binds to `[]`)
  | webhookRegister (bindErr : Bool) (url : String)    -- POST /webhook: did c.Bind fail; `reqBody.URL` afterwards
  | webhookGet (url : Option String)                   -- GET /webhook?url=
  | webhookDelete (url : Option String)                -- DELETE /webhook?url=
  | accessGet                                          -- GET /access
  | accessCreate                                       -- POST /access
  | accessDelete (token : String)                      -- DELETE /access/:token
  | peers                                              -- GET /network/peer
  | peersCount                                         -- GET /network/peer/count
  | status                                             -- GET /status            (outside /api/v1: no auth middleware)
  | noRoute                                            -- gin found no handler   (no auth middleware)
  | redirectSlash (isGet : Bool)                       -- gin's RedirectTrailingSlash (301 for GET, 307 otherwise)
deriving Repr

/-- is the request served under /api/v1 (token middleware applies)? -/
def Req.isApi : Req → Bool
  | .status | .noRoute | .redirectSlash _ => false
  | _ => true

/-- getHeaderByHash / getHeadersState: GetHeaderByHash → sqlHeader; no row → ErrHeaderNotFound -/
def headerByHashH (s : Store String) (hash : String) : Response :=
  match byHash s hash with
  | some _ => ok200
  | none => errResp Gen.errHeaderNotFound

/-- getHeaderByHeight. `c.GetQuery` gives "" for an absent parameter. A bad `count` silently becomes 1;
    a bad `height` is answered with ErrInvalidHeight (switch off: the bare *strconv.NumError → 500). With a valid height the range query
    answers a (possibly empty) list whatever the numbers are (content: C04). -/
def byHeightH (fx : Fixes) (height _count : Option String) : Response :=
  match atoi (height.getD "") with
  | none =>
    if fx.byHeightValidatesHeight then errResp Gen.errInvalidHeight                                  -- SWITCH 1
    else unknownErr
  | some _ => ok200

/-- getHeaderAncestorsByHash -/
def ancestorsH (s : Store String) (hash anc : String) : Response :=
  match ancestors s hash anc with
  | .ok _ => ok200
  | .error .notFound => errResp Gen.errHeaderWithGivenHashes
  | .error .ancestorHigher => errResp Gen.errAncestorHashHigher
  | .error .notSameChain => errResp Gen.errHeadersNotPartOfTheSameChain

/-- which error GetCommonAncestor returns when it returns one: an unknown requested hash is ErrHeaderNotFound (404),
    a failing GetAncestorOnHeight is ErrAncestorNotFound (400), a failing GetPreviousHeader in the loop ErrHeaderNotFound -/
def caErr (s : Store String) (hashes : List String) : Gen.ErrDef :=
  match hashes.mapM (byHash s) with
  | none => Gen.errHeaderNotFound
  | some rows =>
    let h : Nat := rows.foldl (fun m r => min m r.height) 2147483647
    match rows.mapM (fun r => ancestorOnHeight s r.hash ((h : Int) - 1)) with
    | none => Gen.errAncestorNotFound
    | some _ => Gen.errHeaderNotFound

/-- what the handler does with the service's answer -/
inductive CaKind where
  | found | err | nil | panic
deriving DecidableEq, Repr

def caKind (s : Store String) (hashes : List String) : CaKind :=
  match commonAncestor s hashes with
  | .found _ => .found
  | .notFound => .err
  | .nilResult => .nil
  | .panicEmpty => .panic

/-- getCommonAncestor -/
def commonAncestorH (fx : Fixes) (s : Store String) (body : Bind (List String)) : Response :=
  match body with
  | .bindErr => send afterBindAbort Gen.errBindBody.status (errDoc Gen.errBindBody)
  | .parsed hashes =>
    if fx.commonAncestorRejectsEmpty && hashes.isEmpty then
      errResp Gen.errCommonAncestorEmptyList                                                         -- SWITCH 2
    else
      match caKind s hashes with
      | .found => ok200
      | .err => errResp (caErr s hashes)
      | .panic => panicResp                       -- (switch 2 off) headers[0] on an empty slice
      | .nil =>
        if fx.commonAncestorHandlesNil then errResp Gen.errAncestorNotFound                            -- SWITCH 3
        else panicResp                            -- (switch 3 off) newBlockHeaderResponse(nil)

/-- getTipLongestChain: `GetTip()` swallows the error and returns nil; newTipStateResponse(nil) would panic -/
def tipLongestH (s : Store String) : Response :=
  match getTip s with
  | some _ => ok200
  | none => panicResp

/-- merkleroots: `DefaultQuery("batchSize", "2000")`, `Query("lastEvaluatedKey")` ("" = from the start) -/
def merklerootsH (s : Store String) (batchSize key : Option String) : Response :=
  match atoi (batchSize.getD "2000") with
  | none => errResp Gen.errInvalidBatchSize
  | some n =>
    if n < 0 then errResp Gen.errInvalidBatchSize
    else
      match page s n.toNat (key.bind fun k => if k = "" then none else some k) with
      | .ok _ => ok200
      | .error .notFound => errResp Gen.errMerklerootNotFound
      | .error .notLc => errResp Gen.errMerklerootNotInLongestChain
      | .error .noTip => unknownErr                -- "could not find tip": not an ExtendedError

/-- verify -/
def verifyH (fx : Fixes) (s : Store String) (excess : Int) (body : Bind (List (String × Int))) : Response :=
  match body with
  | .bindErr =>
    if fx.verifyBindErrorStructured then send afterBindAbort Gen.errBindBody.status (errDoc Gen.errBindBody)   -- SWITCH 5
    else send afterBindAbort 400 .bareString      -- (switch 5 off) c.JSON(http.StatusBadRequest, err.Error())
  | .parsed [] => errResp Gen.errVerifyMerklerootsBadBody
  | .parsed items =>
    match verify s excess items with
    | none => errResp Gen.errGetChainTipHeight
    | some _ => ok200

/-- registerWebhook -/
def webhookRegisterH (fx : Fixes) (hooks : List Hook) (bindErr : Bool) (url : String) : Response × List Hook :=
  -- `if err != nil { ErrorResponse(ErrBindBody); return }` — switch 4 off: without the `return`
  let w : Option Response :=
    if bindErr then some (send afterBindAbort Gen.errBindBody.status (errDoc Gen.errBindBody)) else none
  if bindErr && fx.webhookReturnsAfterBindError then
    (send afterBindAbort Gen.errBindBody.status (errDoc Gen.errBindBody), hooks)                          -- SWITCH 4
  else if url = "" then (send w Gen.errURLBodyRequired.status (errDoc Gen.errURLBodyRequired), hooks)
  else
    let p := createWebhook hooks url
    match p.1 with
    | .alreadyActive => (send w Gen.errRefreshWebhook.status (errDoc Gen.errRefreshWebhook), hooks)
    | _ => (send w 200 .value, p.2)                    -- created or refreshed

/-- getWebhook: `c.Query("url")` -/
def webhookGetH (hooks : List Hook) (url : Option String) : Response :=
  let u := url.getD ""
  if u = "" then errResp Gen.errURLParamRequired
  else match findHook hooks u with
    | some _ => ok200
    | none => errResp Gen.errWebhookNotFound

/-- revokeWebhook -/
def webhookDeleteH (hooks : List Hook) (url : Option String) : Response × List Hook :=
  let u := url.getD ""
  if u = "" then (errResp Gen.errURLParamRequired, hooks)
  else match findHook hooks u with
    | some _ => (⟨200, [.bareString]⟩, deleteHook hooks u)     -- c.JSON(200, "Webhook revoked")
    | none => (errResp Gen.errWebhookNotFound, hooks)

/-- getToken: the context has a "token" exactly when authentication is enabled -/
def accessGetH (fx : Fixes) (a : AuthIn) : Response :=
  match a with
  | .disabled =>
    if fx.accessGetNoAuthStructured then errResp Gen.errTokenNotFound                                  -- SWITCH 6
    else ⟨400, []⟩                               -- (switch 6 off) c.Status(http.StatusBadRequest)
  | _ => ok200

/-- createToken / revokeToken behind RequireAdmin. DeleteToken of an unknown token is not an error. -/
def adminH (a : AuthIn) (ok : Response) : Response :=
  match adminGate a with
  | some e => errResp e
  | none => ok

def statusH (fx : Fixes) : Response :=
  if fx.statusWritesJson then ok200 else ⟨200, []⟩                                                      -- SWITCH 7

def noRouteH (fx : Fixes) : Response :=
  if fx.noRouteStructured then fixedErr 404 "ErrRouteNotFound" "route not found" else ⟨404, [.nonJson]⟩   -- SWITCH 8

def redirectH (fx : Fixes) (isGet : Bool) : Response :=
  if fx.trailingSlashRedirectOff then noRouteH fx                                                         -- SWITCH 9
  else if isGet then ⟨301, [.nonJson]⟩          -- http.Redirect writes an HTML link for GET
  else ⟨307, []⟩                                -- and no body for the other methods

/-- the handler proper (after the token middleware let the request through) -/
def handle (fx : Fixes) (env : Env) (a : AuthIn) : Req → Response × Env
  | .headerByHash h => (headerByHashH env.store h, env)
  | .headerState h => (headerByHashH env.store h, env)
  | .byHeight h c => (byHeightH fx h c, env)
  | .ancestors h x => (ancestorsH env.store h x, env)
  | .commonAncestor b => (commonAncestorH fx env.store b, env)
  | .tips => (ok200, env)                              -- GetAllTips fails only with the storage
  | .tipLongest => (tipLongestH env.store, env)
  | .merkleroots b k => (merklerootsH env.store b k, env)
  | .verify b => (verifyH fx env.store env.excess b, env)
  | .webhookRegister e u => let p := webhookRegisterH fx env.hooks e u; (p.1, { env with hooks := p.2 })
  | .webhookGet u => (webhookGetH env.hooks u, env)
  | .webhookDelete u => let p := webhookDeleteH env.hooks u; (p.1, { env with hooks := p.2 })
  | .accessGet => (accessGetH fx a, env)
  | .accessCreate => (adminH a ok200, env)
  | .accessDelete _ => (adminH a ⟨200, [.bareString]⟩, env)   -- c.JSON(200, "Token revoked")
  | .peers => (ok200, env)
  | .peersCount => (ok200, env)
  | .status => (statusH fx, env)
  | .noRoute => (noRouteH fx, env)
  | .redirectSlash g => (redirectH fx g, env)

/-- one HTTP exchange: token middleware for /api/v1 routes, then the handler -/
def step (fx : Fixes) (env : Env) (a : AuthIn) (r : Req) : Response × Env :=
  if r.isApi then
    match gate a with
    | some e => (errResp e, env)                       -- AbortWithErrorResponse
    | none => handle fx env a r
  else handle fx env a r

def respond (fx : Fixes) (env : Env) (a : AuthIn) (r : Req) : Response := (step fx env a r).1

end BHS.Http
