/-
M-PeerWire — the admission handlers and the connection manager WIRED TOGETHER the way
/repo/transports/p2p/server.go does it (composition of M-Peers and M-ConnMgr). Core Lean only.

  connmgr dial ok  → `OnConnection` = `outboundPeerConnected`: a serverPeer with `connReq = c`;
                     after the version handshake `OnVersion` → `AddPeer` → `handleAddPeerMsg`
     admitted      → the peer is an outbound peer holding connection request `c.ID()`
     refused       → the handler only calls `sp.Disconnect()`; `peerDoneHandler` then sends the
                     peer to `handleDonePeerMsg`, which (peer not in its map) calls
                     `connManager.Disconnect(connReq.ID())` — EXACTLY ONCE, with retry, so the
                     connection manager replaces the connection
  peer leaves      → `handleDonePeerMsg` (peer in its map): counters, then
                     `connManager.Disconnect(connReq.ID())`
  inbound peers, ban, clock: `peerState` only.

Peer ids are allocated here (`nextPeer`): the real ones come from `peer.nodeCount` and are
fresh as well; no output depends on their value.
-/
import BHS.Model.Peers
import BHS.Model.ConnMgr

namespace BHS.Model.PeerWire
open BHS.Model

structure W where
  p : Peers.State := {}
  c : ConnMgr.St := {}
  out : List (Nat × Peers.Peer) := []   -- admitted outbound peers with their connReq id, oldest first
  inb : List Peers.Peer := []           -- admitted inbound peers, oldest first
  nextPeer : Nat := 1

structure Cfg where
  pc : Peers.Cfg
  cc : ConnMgr.Cfg

inductive Event where
  | ok (k host group : Nat)     -- k-th request in flight: address of `host`, dial succeeds, handshake, admission
  | fail (k host : Nat)         -- …: dial refused
  | addrFail (k : Nat)          -- …: GetNewAddress failed
  | done (j : Nat)              -- j-th admitted outbound peer disconnects
  | inbound (host group : Nat)  -- an inbound peer arrives
  | inDone (j : Nat)            -- j-th admitted inbound peer disconnects
  | ban (host : Nat)
  | clock (dt : Nat)
  deriving Repr

def start (cfg : Cfg) : W := { c := ConnMgr.start cfg.cc }

/-- the new state and, for arrivals, what admission answered -/
def step (cfg : Cfg) (w : W) : Event → W × Option Peers.AddResult
  | .ok k host group =>
    match w.c.live[k]? with
    | none => (w, none)
    | some id =>
      let c1 := ConnMgr.step cfg.cc w.c (.dialOk id host)
      if ConnMgr.hasConn c1 id then
        let peer : Peers.Peer := { id := w.nextPeer, kind := .outbound, host := host, group := group, vk := true }
        let r := Peers.addPeer cfg.pc w.p peer
        match r.2 with
        | .admitted => ({ w with p := r.1, c := c1, out := w.out ++ [(id, peer)], nextPeer := w.nextPeer + 1 }, some .admitted)
        | res =>
          -- sp.Disconnect(); peerDoneHandler → handleDonePeerMsg (not in the map) → connManager.Disconnect(id)
          ({ w with p := Peers.donePeer r.1 peer, c := ConnMgr.step cfg.cc c1 (.disc id true), nextPeer := w.nextPeer + 1 }, some res)
      else ({ w with c := c1 }, none)   -- request had been cancelled: no connection, no peer
  | .fail k host =>
    match w.c.live[k]? with
    | none => (w, none)
    | some id => ({ w with c := ConnMgr.step cfg.cc w.c (.dialFail id host) }, none)
  | .addrFail k =>
    match w.c.live[k]? with
    | none => (w, none)
    | some id => ({ w with c := ConnMgr.step cfg.cc w.c (.addrFail id) }, none)
  | .done j =>
    match w.out[j]? with
    | none => (w, none)
    | some (id, peer) =>
      ({ w with p := Peers.donePeer w.p peer, c := ConnMgr.step cfg.cc w.c (.disc id true), out := w.out.eraseIdx j }, none)
  | .inbound host group =>
    let peer : Peers.Peer := { id := w.nextPeer, kind := .inbound, host := host, group := group, vk := true }
    let r := Peers.addPeer cfg.pc w.p peer
    match r.2 with
    | .admitted => ({ w with p := r.1, inb := w.inb ++ [peer], nextPeer := w.nextPeer + 1 }, some .admitted)
    | res => ({ w with p := Peers.donePeer r.1 peer, nextPeer := w.nextPeer + 1 }, some res)
  | .inDone j =>
    match w.inb[j]? with
    | none => (w, none)
    | some peer => ({ w with p := Peers.donePeer w.p peer, inb := w.inb.eraseIdx j }, none)
  | .ban host => ({ w with p := Peers.banHost cfg.pc w.p host }, none)
  | .clock dt => ({ w with p := (Peers.step cfg.pc w.p (.clock dt)).1 }, none)

def run (cfg : Cfg) (w : W) (evs : List Event) : W := evs.foldl (fun w e => (step cfg w e).1) w

end BHS.Model.PeerWire
