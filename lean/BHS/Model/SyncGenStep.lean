/-
M-SyncGenStep: the event machine of the hand model (`Sync.step`) with the five handlers replaced by the REGENERATED ones
(BHS/Gen/SyncMgr.lean), and the environment's half of each event made explicit. Definitions only (the driver evaluates
`genStep` next to `Sync.step` on every op; Props/SyncMgrGen.lean proves them equal). Core Lean only.
-/
import BHS.Model.SyncPrim
import BHS.Gen.SyncMgr

namespace BHS.Sync.Refine
open BHS BHS.Chain BHS.Sync
variable {H : Type} [DecidableEq H]

/-- the zero-valued manager over a store: what `sm := SyncManager{…}` leaves in the state fields -/
def blank (store : Store H) : State H := { peers := [], syncPeer := none, headersFirst := false, nextCp := none, store := store }

/-- the environment's part of a done message: the peer object of a peer in the map has been disconnected by the time
    its done message is handled -/
def markDisconnected (st : State H) (p : Nat) : State H :=
  match lookup st.peers p with
  | some q => if q.inMap then { st with peers := update st.peers { q with disc := true } } else st
  | none => st

/-- the environment's part of a new-peer message: the peer object exists (advertised height `lb`), not yet in the map -/
def withPeerObject (st : State H) (p : Nat) (lb : Int) : State H :=
  { st with peers := Sync.insert st.peers { id := p, inMap := false, candidate := false, lastBlock := lb, startHeight := lb, prevBegin := none, prevStop := none, disc := false } }

/-- isSyncCandidate's answer: the peer object advertises NODE_NETWORK -/
def isFullNode (env : Env) (p : Nat) : Bool := decide (bitAnd (env.services p : Int) sfNodeNetwork = sfNodeNetwork)

/-- `stale` of the hand model's tick event, from what validNetworkSpeed and time.Since answer -/
def staleOf (env : Env) : Bool :=
  !(decide (env.violations < Gen.SyncMgr.maxNetworkViolations) && decide (env.sinceLastBlock ≤ Gen.SyncMgr.maxLastBlockTime))

/-- the inputs of a handler run that an event of the hand model carries -/
def envOf (pick : Nat) : Event H → Env
  | .newPeer _ c _ => { pick := pick, services := fun _ => if c then 1 else 0 }
  | .tick stale => { pick := pick, violations := if stale then Gen.SyncMgr.maxNetworkViolations else 0 }
  | _ => { pick := pick }

/-- `Sync.step` with the five handlers replaced by the generated ones -/
def genStep (cfg : Sync.Cfg H) (st : State H) (pick : Nat) (ev : Event H) : State H × List (Action H) :=
  match ev with
  | .newPeer p _ lb => runH (Gen.SyncMgr.handleNewPeerMsg cfg (envOf pick ev) p) (withPeerObject st p lb)
  | .headers p hs => runH (Gen.SyncMgr.handleHeadersMsg cfg (envOf pick ev) p hs) { st with peers := onHeadersReceived st.peers p }
  | .inv p invs => runH (Gen.SyncMgr.handleInvMsg cfg (envOf pick ev) p invs) st
  | .donePeer p => runH (Gen.SyncMgr.handleDonePeerMsg cfg (envOf pick ev) p) (markDisconnected st p)
  | .tick _ => runH (Gen.SyncMgr.handleCheckSyncPeer cfg (envOf pick ev)) st

/-- the state the generated `New` leaves over a store -/
def genNew (cfg : Sync.Cfg H) (store : Store H) : State H := (Gen.SyncMgr.New cfg {} { st := blank store, acts := [] }).2.st

end BHS.Sync.Refine
