/-
M-Chain: the header store and `Chains.Add`, transcribed from
  /repo/service/chain_service.go, /repo/domains/headers.go (CreateHeader),
  /repo/database/sql/headers.go (one list function per SQL statement).
A table is a `List Row` in insertion (rowid) order; `Row.id` is the rowid.
Core Lean only. Polymorphic in the hash type `H`.
-/
import BHS.Gen.Arith

namespace BHS.Chain

inductive St where
  | lc | stale | orphan
deriving DecidableEq, Repr, Inhabited

/-- BlockHeaderSource: the six fields of an 80-byte header. -/
structure Src (H : Type) where
  version : Int
  prev : H
  merkle : H
  time : Nat
  bits : Nat
  nonce : Nat
deriving DecidableEq, Repr

/-- one row of table `headers` -/
structure Row (H : Type) where
  id : Nat
  hash : H
  prev : H
  merkle : H
  height : Nat
  version : Int
  time : Nat
  bits : Nat
  nonce : Nat
  work : Nat
  cum : Nat
  st : St
deriving DecidableEq, Repr

abbrev Store (H : Type) := List (Row H)

/-- what the chain service is configured with -/
structure Cfg (H : Type) where
  hashOf : Src H → H          -- BlockHasher.BlockHash (double SHA-256 of the serialisation)
  forbidden : List H          -- Params.HeadersToIgnore

/-- domains.CalculateWork: the regenerated calcWork, as a natural number -/
def work (bits : Nat) : Nat := (Gen.calcWork bits).toNat

variable {H : Type} [DecidableEq H]

/-! ### repository reads — one per SQL statement -/

/-- sqlHeader: `WHERE hash = ?` (hash is the primary key) -/
def byHash (s : Store H) (h : H) : Option (Row H) := s.find? (fun r => decide (r.hash = h))

/-- sqlHeaderByHeight with state LONGEST_CHAIN; `db.Get` = first row -/
def lcAtHeight (s : Store H) (ht : Nat) : Option (Row H) :=
  s.find? (fun r => decide (r.height = ht ∧ r.st = .lc))

/-- `SELECT max(height) FROM headers WHERE header_state = 'LONGEST_CHAIN'` -/
def maxLcHeight (s : Store H) : Option Nat :=
  (s.filter (fun r => decide (r.st = .lc))).foldl (fun m r => match m with
    | none => some r.height
    | some k => some (max k r.height)) none

/-- sqlSelectTip + `tip[0]`: the outer query has no state filter; the `(height, header_state)` index
    returns LONGEST_CHAIN rows first, so the answer is the first longest-chain row at that height. -/
def getTip (s : Store H) : Option (Row H) :=
  match maxLcHeight s with
  | none => none
  | some m => lcAtHeight s m

/-- the recursive CTEs walk `previous_block` links starting at the row with the given hash -/
def ancestorsFrom (s : Store H) : Nat → H → List (Row H)
  | 0, _ => []
  | fuel + 1, h =>
    match byHash s h with
    | none => []
    | some r => r :: ancestorsFrom s fuel r.prev

/-- sqlStaleHeadersFrom: all ancestors (inclusive), filtered by `header_state = 'STALE'` -/
def staleBackFrom (s : Store H) (h : H) : List (Row H) :=
  (ancestorsFrom s s.length h).filter (fun r => decide (r.st = .stale))

/-- sqlLongestChainHeadersFromHeight -/
def lcFromHeight (s : Store H) (ht : Nat) : List (Row H) :=
  s.filter (fun r => decide (ht ≤ r.height ∧ r.st = .lc))

/-! ### repository writes -/

inductive Write (H : Type) where
  | setState (hs : List H) (st : St)     -- sqlUpdateState, one transaction
  | insert (r : Row H)                   -- sqlInsertHeader ... ON CONFLICT DO NOTHING, one transaction
deriving Repr

/-- `UPDATE headers SET header_state = ? WHERE hash IN (?)` -/
def setState (s : Store H) (hs : List H) (st : St) : Store H :=
  s.map (fun r => if r.hash ∈ hs then { r with st := st } else r)

/-- `INSERT ... ON CONFLICT DO NOTHING`; the rowid is the insertion position -/
def insertRow (s : Store H) (r : Row H) : Store H :=
  if (byHash s r.hash).isSome then s else s ++ [{ r with id := s.length }]

def applyWrite (s : Store H) : Write H → Store H
  | .setState hs st => setState s hs st
  | .insert r => insertRow s r

def applyWrites (s : Store H) (ws : List (Write H)) : Store H := ws.foldl applyWrite s

/-! ### Chains.Add -/

inductive Outcome (H : Type) where
  | stored (r : Row H)
  | duplicate            -- HeaderAlreadyExists
  | rejected             -- BlockRejected (forbidden hash)
  | creationFail         -- HeaderCreationFail
deriving Repr

/-- previousHeader + the fields CreateHeader reads from it; an unknown parent is the
    "orphan previous block" (height 0, cumulated work 0, state ORPHAN). -/
def parentInfo (s : Store H) (x : Src H) : Nat × Nat × St :=
  match byHash s x.prev with
  | some p => (p.height, p.cum, p.st)
  | none => (0, 0, .orphan)

/-- domains.CreateHeader -/
def mkRow (cfg : Cfg H) (s : Store H) (x : Src H) : Row H :=
  let p := parentInfo s x
  let w := work x.bits
  { id := s.length, hash := cfg.hashOf x, prev := x.prev, merkle := x.merkle, height := p.1 + 1,
    version := x.version, time := x.time, bits := x.bits, nonce := x.nonce, work := w, cum := p.2.1 + w,
    st := p.2.2 }

/-- hasConcurrentHeaderFromLongestChain -/
def concurrent (s : Store H) (r : Row H) : Bool :=
  match r.st with
  | .orphan => false
  | .lc =>
    -- a header that adds no work is compared with the tip like a competing one (fix 'adds no work')
    if r.work = 0 then true
    else match lcAtHeight s r.height with
      | some oh => decide (oh.hash ≠ r.hash)
      | none => false
  | .stale => true

/-- lowestHeightOf (after the fix: an empty chain contributes nothing) -/
def lowestHeight (c : List (Row H)) (ht : Nat) : Nat := c.foldl (fun m r => min m r.height) ht

/-- switchChainsStates: the two updates, skipped when their hash list is empty (fix F1) -/
def switchWrites (s : Store H) (r : Row H) : List (Write H) :=
  let stale := staleBackFrom s r.prev
  let conc := lcFromHeight s (lowestHeight stale r.height)
  (if conc.isEmpty then [] else [Write.setState (conc.map (·.hash)) St.stale]) ++
  (if stale.isEmpty then [] else [Write.setState (stale.map (·.hash)) St.lc])

/-- All reads of `Add`, in code order, then the list of write transactions it will issue. -/
def plan (cfg : Cfg H) (s : Store H) (x : Src H) : Outcome H × List (Write H) :=
  let h := cfg.hashOf x
  if (byHash s h).isSome then (.duplicate, [])
  else if h ∈ cfg.forbidden then (.rejected, [])
  else
    let r := mkRow cfg s x
    if concurrent s r then
      match getTip s with
      | none => (.creationFail, [])
      | some tip =>
        if tip.cum < r.cum then
          let r' := { r with st := .lc }
          (.stored r', switchWrites s r' ++ [.insert r'])
        else
          let r' := { r with st := .stale }
          (.stored r', [.insert r'])
    else (.stored r, [.insert r])

/-- `Chains.Add` without faults -/
def add (cfg : Cfg H) (s : Store H) (x : Src H) : Store H × Outcome H :=
  let p := plan cfg s x
  (applyWrites s p.2, p.1)

/-- the store after the first `k` write transactions of `Add` (kill point / failed write k) -/
def addPrefix (cfg : Cfg H) (s : Store H) (x : Src H) (k : Nat) : Store H :=
  applyWrites s ((plan cfg s x).2.take k)

/-- ingestion of a history -/
def run (cfg : Cfg H) (s : Store H) (hist : List (Src H)) : Store H :=
  hist.foldl (fun s x => (add cfg s x).1) s

/-- the ADD events of one submission: exactly one when stored, none otherwise -/
def events (o : Outcome H) : List (Row H) :=
  match o with
  | .stored r => [r]
  | _ => []

end BHS.Chain
