/-
M-Node: the protocol-conformant node the sync engines talk to. Its best chain is `chain` (the headers at heights
1, 2, …; height 0 is the genesis block with hash `genesis`). The answer to `getheaders(locator, stop)` is the part of the
best chain after the first locator hash the node knows on its best chain (after genesis when it knows none), at most
`cap` headers, ending with the stop hash when that is met first. Core Lean only.
-/
import BHS.Model.Chain
import BHS.Model.Sync

namespace BHS.Sync
open BHS.Chain

structure Node (H : Type) where
  genesis : H
  chain : List (Src H)
  cap : Nat

variable {H : Type} [DecidableEq H]

/-- number of best-chain headers the requester already has, according to its locator -/
def startOf (hashOf : Src H → H) (n : Node H) : List H → Nat
  | [] => 0
  | l :: ls =>
    if l = n.genesis then 0
    else
      match n.chain.findIdx? (fun x => decide (hashOf x = l)) with
      | some i => i + 1
      | none => startOf hashOf n ls

/-- keep headers up to and including the stop hash -/
def cutAtStop (hashOf : Src H → H) (stop : H) : List (Src H) → List (Src H)
  | [] => []
  | x :: xs => if hashOf x = stop then [x] else x :: cutAtStop hashOf stop xs

def reply (hashOf : Src H → H) (n : Node H) (loc : List H) (stop : H) : List (Src H) :=
  cutAtStop hashOf stop (((n.chain.drop (startOf hashOf n loc))).take n.cap)

/-- the first request addressed to `p` among the actions -/
def requestTo (p : Nat) : List (Action H) → Option (List H × H)
  | [] => none
  | .getheaders p' loc stop :: rest => if p' = p then some (loc, stop) else requestTo p rest
  | _ :: rest => requestTo p rest

/-- the closed loop "engine × conformant node" in the request/response abstraction: in every round the node answers the
    outstanding request of the sync peer `p` and the engine handles the answer; no outstanding request = quiescent -/
def rounds (cfg : Cfg H) (n : Node H) (p : Nat) : Nat → State H × Option (List H × H) → State H × Option (List H × H)
  | 0, x => x
  | _ + 1, (st, none) => (st, none)
  | k + 1, (st, some req) =>
    rounds cfg n p k ((handleHeaders cfg st p (reply cfg.chain.hashOf n req.1 req.2)).1,
      requestTo p (handleHeaders cfg st p (reply cfg.chain.hashOf n req.1 req.2)).2)

end BHS.Sync
