/-
M-Wire — executable model of /repo/internal/wire (C14): primitive integer codecs,
var-int / var-string, NetAddress, InvVect, BlockHeader, the payload codecs of the
16 message kinds the service sends or acts upon (+ protoconf/authch whose payload
is ignored on decode), and the frame layer (WriteMessage / ReadMessageWithEncodingN).

Core Lean only. Conventions:
* bytes are `List UInt8`; wire integers are `Nat` (range hypotheses live in `WF`);
  signed Go fields (int32 ProtocolVersion/LastBlock/header Version, int64 MinFee)
  are modelled by their unsigned bit pattern; a `time.Time` is modelled by
  `uint64(t.Unix())` (second precision by construction; Go's zero `time.Time{}`
  is `goZeroTime`).
* a decoder is `Rd α = Bytes → allocations × Except Err (α × rest)`: the first
  component is the ALLOCATION METER — every `make(..., n)` whose size `n` is taken
  from a length / count field of the input, in wire bytes (count × wire element size),
  recorded also on the failing paths. Fixed-size scratch (8-byte free-list buffers,
  the 24-byte header array, the 16-byte `net.IP` of an address actually read) is not metered.
* every error path is a constructor of `Err`; io.EOF and io.ErrUnexpectedEOF are one class.
* `MessageEncoding` is ignored by every codec modelled here (`_ MessageEncoding` in the Go
  source), so it is not a parameter.
* all recursion is structural (on the declared count, bounded by the per-message
  limit, or on the byte list), so every function below is total: the decoder cannot hang.
-/
import BHS.Model.Prim
import BHS.Gen.Consts
import BHS.Gen.WireConsts

namespace BHS.Wire
open BHS.Gen BHS.Gen.WireC

abbrev Bytes := List UInt8

inductive Err where
  | eof            -- io.EOF / io.ErrUnexpectedEOF
  | nonCanonical   -- ReadVarInt: non-canonical varint
  | tooMany        -- a list count above the per-message limit
  | tooLong        -- ReadVarString / ReadVarBytes above its guard
  | badPver        -- message invalid for protocol version
  | txCount        -- headers: block headers may not contain transactions
  | userAgent      -- version: user agent too long (encode; on decode the bounded read reports tooLong first)
  | addrPver       -- addr: more than one address below MultipleAddressVersion (encode only)
  | oversizeGlobal -- frame: length > maxMessagePayload()
  | magic          -- frame: message from other network
  | badCmd         -- frame: invalid (non-UTF-8) or unhandled command
  | oversizeType   -- frame: length > MaxPayloadLength(pver) of the type
  | checksum       -- frame: payload checksum failed
  | cmdTooLong     -- WriteMessage: command longer than 12 bytes
  | unmodelled     -- a command of the table whose type this model does not cover
  deriving DecidableEq, Repr

deriving instance DecidableEq for Except

/-! ## reader with allocation meter -/

def Rd (α : Type) := Bytes → List Nat × Except Err (α × Bytes)

namespace Rd
def pure (a : α) : Rd α := fun b => ([], .ok (a, b))
def bind (m : Rd α) (f : α → Rd β) : Rd β := fun b =>
  match m b with
  | (al, .error e) => (al, .error e)
  | (al, .ok (a, b')) => (al ++ (f a b').1, (f a b').2)
def fail (e : Err) : Rd α := fun _ => ([], .error e)
/-- record one allocation of `n` bytes -/
def alloc (n : Nat) : Rd Unit := fun b => ([n], .ok ((), b))
def allocs (l : List Nat) : Rd Unit := fun b => (l, .ok ((), b))
/-- `buf.Len()` -/
def remaining : Rd Nat := fun b => ([], .ok (b.length, b))
end Rd

instance : Monad Rd where
  pure := Rd.pure
  bind := Rd.bind

/-! ## fixed-width integers -/

def put8 (n : Nat) : Bytes := [UInt8.ofNat n]
def put16le (n : Nat) : Bytes := [UInt8.ofNat n, UInt8.ofNat (n / 2^8)]
def put16be (n : Nat) : Bytes := [UInt8.ofNat (n / 2^8), UInt8.ofNat n]
def put32le (n : Nat) : Bytes :=
  [UInt8.ofNat n, UInt8.ofNat (n / 2^8), UInt8.ofNat (n / 2^16), UInt8.ofNat (n / 2^24)]
def put64le (n : Nat) : Bytes :=
  [UInt8.ofNat n, UInt8.ofNat (n / 2^8), UInt8.ofNat (n / 2^16), UInt8.ofNat (n / 2^24),
   UInt8.ofNat (n / 2^32), UInt8.ofNat (n / 2^40), UInt8.ofNat (n / 2^48), UInt8.ofNat (n / 2^56)]

def get8 : Rd Nat := fun b => match b with
  | x :: r => ([], .ok (x.toNat, r))
  | [] => ([], .error .eof)
def get16le : Rd Nat := fun b => match b with
  | x0 :: x1 :: r => ([], .ok (x0.toNat + 2^8 * x1.toNat, r))
  | _ => ([], .error .eof)
def get16be : Rd Nat := fun b => match b with
  | x1 :: x0 :: r => ([], .ok (x0.toNat + 2^8 * x1.toNat, r))
  | _ => ([], .error .eof)
def get32le : Rd Nat := fun b => match b with
  | x0 :: x1 :: x2 :: x3 :: r =>
    ([], .ok (x0.toNat + 2^8 * x1.toNat + 2^16 * x2.toNat + 2^24 * x3.toNat, r))
  | _ => ([], .error .eof)
def get64le : Rd Nat := fun b => match b with
  | x0 :: x1 :: x2 :: x3 :: x4 :: x5 :: x6 :: x7 :: r =>
    ([], .ok (x0.toNat + 2^8 * x1.toNat + 2^16 * x2.toNat + 2^24 * x3.toNat +
              2^32 * x4.toNat + 2^40 * x5.toNat + 2^48 * x6.toNat + 2^56 * x7.toNat, r))
  | _ => ([], .error .eof)
/-- io.ReadFull into a buffer of `n` bytes -/
def getBytes (n : Nat) : Rd Bytes := fun b =>
  if n ≤ b.length then ([], .ok (b.take n, b.drop n)) else ([], .error .eof)

/-! ## var-int, var-string / var-bytes (common.go) -/

/-- WriteVarInt -/
def putVarInt (n : Nat) : Bytes :=
  if n < 0xfd then put8 n
  else if n ≤ 0xffff then 0xfd :: put16le n
  else if n ≤ 0xffffffff then 0xfe :: put32le n
  else 0xff :: put64le n

/-- ReadVarInt, with its canonical-encoding check -/
def getVarInt : Rd Nat := do
  let d ← get8
  if d = 0xff then do
    let v ← get64le
    if v < 0x100000000 then Rd.fail .nonCanonical else pure v
  else if d = 0xfe then do
    let v ← get32le
    if v < 0x10000 then Rd.fail .nonCanonical else pure v
  else if d = 0xfd then do
    let v ← get16le
    if v < 0xfd then Rd.fail .nonCanonical else pure v
  else pure d

/-- the guard + `make` every count/length-prefixed decoder performs:
    `if n > max { error }; make(…, n)` with `unit` wire bytes per element -/
def guardAlloc (n max unit : Nat) (e : Err) : Rd Unit :=
  if n > max then Rd.fail e else Rd.alloc (n * unit)

/-- WriteVarString / WriteVarBytes -/
def putVarBytes (s : Bytes) : Bytes := putVarInt s.length ++ s

/-- ReadVarString (max = maxMessagePayload()) / ReadVarBytes (max = maxAllowed) -/
def getVarBytes (max : Nat) : Rd Bytes := do
  let n ← getVarInt
  guardAlloc n max 1 .tooLong
  getBytes n

/-- `g` repeated `n` times (the `for i := 0; i < count; i++` loops) -/
def getMany (g : Rd α) : Nat → Rd (List α)
  | 0 => pure []
  | n + 1 => do
    let x ← g
    let xs ← getMany g n
    pure (x :: xs)

/-! ## limits -/

/-- maxMessagePayload() for a given excessive block size (uint32 arithmetic, wraps) -/
def maxMessagePayload (ebs : Nat) : Nat :=
  wrap 32 (wrap 32 (wrap 32 ((ebs / 1000000) * 1024) * 1024) * 2)

/-- the global limit under the service's `wire.SetLimits(config.ExcessiveBlockSize)` -/
def serviceMaxPayload : Nat := maxMessagePayload excessiveBlockSize

/-- maxNetAddressPayload -/
def maxNetAddressPayload (pver : Nat) : Nat :=
  if netAddressTimeVersion ≤ pver then 30 else 26

def invVectSize : Nat := 4 + hashSize
def headerElemSize : Nat := maxBlockHeaderPayload + 1

/-- `MaxPayloadLength(pver)` per concrete type (`none`: a type this model does not cover) -/
def maxPayloadLength (gmax pver : Nat) : MsgType → Option Nat
  | .MsgVersion => some (33 + maxNetAddressPayload pver * 2 + maxVarIntPayload + maxUserAgentLen)
  | .MsgVerAck => some 0
  | .MsgGetAddr => some 0
  | .MsgAddr =>
    if pver < multipleAddressVersion then some (maxVarIntPayload + maxNetAddressPayload pver)
    else some (maxVarIntPayload + maxAddrPerMsg * maxNetAddressPayload pver)
  | .MsgGetBlocks => some (4 + maxVarIntPayload + maxBlockLocatorsPerMsg * hashSize + hashSize)
  | .MsgGetHeaders => some (4 + maxVarIntPayload + maxBlockLocatorsPerMsg * hashSize + hashSize)
  | .MsgHeaders => some (maxVarIntPayload + headerElemSize * maxBlockHeadersPerMsg)
  | .MsgInv => some (maxVarIntPayload + maxInvPerMsg * invVectSize)
  | .MsgGetData => some (maxVarIntPayload + maxInvPerMsg * invVectSize)
  | .MsgNotFound => some (maxVarIntPayload + maxInvPerMsg * invVectSize)
  | .MsgPing => some (if bip0031Version < pver then 8 else 0)
  | .MsgPong => some (if bip0031Version < pver then 8 else 0)
  | .MsgReject => some (if rejectVersion ≤ pver then gmax else 0)
  | .MsgSendHeaders => some 0
  | .MsgFeeFilter => some 8
  | .MsgMemPool => some 0
  | .MsgProtoconf => some maxProtoconfPayload
  | _ => none

/-! ## composite values -/

/-- `uint64(time.Time{}.Unix())`: the Go zero time, seen when a timestamp is never read -/
def goZeroTime : Nat := 2^64 - 62135596800

structure NetAddr where
  ts : Nat        -- uint64(Timestamp.Unix())
  services : Nat
  ip : Bytes      -- net.IP ([] = nil)
  port : Nat
  deriving DecidableEq, Repr

def NetAddr.zero : NetAddr := ⟨goZeroTime, 0, [], 0⟩

structure InvVect where
  type : Nat
  hash : Bytes
  deriving DecidableEq, Repr

structure BlockHeader where
  version : Nat   -- uint32(int32 Version)
  prev : Bytes
  merkle : Bytes
  ts : Nat        -- uint64(Timestamp.Unix())
  bits : Nat
  nonce : Nat
  deriving DecidableEq, Repr

inductive Msg where
  | version (pv sv ts : Nat) (you me : NetAddr) (nonce : Nat) (ua : Bytes) (lastBlock : Nat) (disableRelay : Bool)
  | verack
  | getaddr
  | addr (l : List NetAddr)
  | getheaders (pv : Nat) (loc : List Bytes) (stop : Bytes)
  | getblocks (pv : Nat) (loc : List Bytes) (stop : Bytes)
  | headers (l : List BlockHeader)
  | inv (l : List InvVect)
  | getdata (l : List InvVect)
  | notfound (l : List InvVect)
  | ping (nonce : Nat)
  | pong (nonce : Nat)
  | reject (cmd : Bytes) (code : Nat) (reason : Bytes) (hash : Bytes)
  | sendheaders
  | feefilter (fee : Nat)
  | mempool
  | protoconf (numberOfFields maxRecv : Nat)
  deriving DecidableEq, Repr

/-- the concrete Go type of a message value -/
def Msg.msgType : Msg → MsgType
  | .version .. => .MsgVersion | .verack => .MsgVerAck | .getaddr => .MsgGetAddr | .addr _ => .MsgAddr
  | .getheaders .. => .MsgGetHeaders | .getblocks .. => .MsgGetBlocks | .headers _ => .MsgHeaders
  | .inv _ => .MsgInv | .getdata _ => .MsgGetData | .notfound _ => .MsgNotFound
  | .ping _ => .MsgPing | .pong _ => .MsgPong | .reject .. => .MsgReject | .sendheaders => .MsgSendHeaders
  | .feefilter _ => .MsgFeeFilter | .mempool => .MsgMemPool | .protoconf .. => .MsgProtoconf

/-- `Command()` of a type, from the regenerated table ([] for a type outside the model) -/
def typeCommandOf (t : MsgType) : Bytes :=
  match typeCommand.find? (fun e => e.1 == t) with
  | some e => e.2
  | none => []

def Msg.command (m : Msg) : Bytes := typeCommandOf m.msgType

def zeroHash : Bytes := List.replicate 32 0

/-- `na.IP.To16()` copied into a zeroed `[16]byte` -/
def ip16 (ip : Bytes) : Bytes :=
  if ip.length = 16 then ip
  else if ip.length = 4 then [0, 0, 0, 0, 0, 0, 0, 0, 0, 0, 0xff, 0xff] ++ ip
  else List.replicate 16 0

def hasTs (pver : Nat) (ts : Bool) : Bool := ts && decide (netAddressTimeVersion ≤ pver)

/-- writeNetAddress -/
def putNetAddr (pver : Nat) (ts : Bool) (na : NetAddr) : Bytes :=
  (if hasTs pver ts then put32le na.ts else []) ++ put64le na.services ++ ip16 na.ip ++ put16be na.port

/-- readNetAddress into a fresh NetAddress -/
def getNetAddr (pver : Nat) (ts : Bool) : Rd NetAddr := do
  let t ← (if hasTs pver ts then get32le else pure goZeroTime)
  let sv ← get64le
  let ip ← getBytes 16
  let port ← get16be
  pure ⟨t, sv, ip, port⟩

def putInvVect (iv : InvVect) : Bytes := put32le iv.type ++ iv.hash
def getInvVect : Rd InvVect := do
  let t ← get32le
  let h ← getBytes 32
  pure ⟨t, h⟩

/-- WriteBlockHeader (80 bytes) -/
def putBlockHeader (h : BlockHeader) : Bytes :=
  put32le h.version ++ h.prev ++ h.merkle ++ put32le h.ts ++ put32le h.bits ++ put32le h.nonce
/-- readBlockHeader -/
def getBlockHeader : Rd BlockHeader := do
  let v ← get32le
  let p ← getBytes 32
  let m ← getBytes 32
  let t ← get32le
  let b ← get32le
  let n ← get32le
  pure ⟨v, p, m, t, b, n⟩

/-- one element of `headers`: header + tx-count var-int that must be 0 -/
def putHeaderElem (h : BlockHeader) : Bytes := putBlockHeader h ++ putVarInt 0
def getHeaderElem : Rd BlockHeader := do
  let h ← getBlockHeader
  let tc ← getVarInt
  if tc > 0 then Rd.fail .txCount else pure h

def putHash (h : Bytes) : Bytes := h
def getHash : Rd Bytes := getBytes 32

/-! ## payload codecs (BsvEncode / Bsvdecode) -/

def encInvList (l : List InvVect) : Except Err Bytes :=
  if l.length > maxInvPerMsg then .error .tooMany
  else .ok (putVarInt l.length ++ l.flatMap putInvVect)

def encLocator (pv : Nat) (loc : List Bytes) (stop : Bytes) : Except Err Bytes :=
  if loc.length > maxBlockLocatorsPerMsg then .error .tooMany
  else .ok (put32le pv ++ putVarInt loc.length ++ loc.flatMap putHash ++ putHash stop)

/-- `BsvEncode(w, pver, _)` -/
def encodePayload (pver : Nat) : Msg → Except Err Bytes
  | .version pv sv ts you me nonce ua lb nr =>
    if ua.length > maxUserAgentLen then .error .userAgent
    else .ok (put32le pv ++ put64le sv ++ put64le ts ++ putNetAddr pver false you ++ putNetAddr pver false me ++
              put64le nonce ++ putVarBytes ua ++ put32le lb ++
              (if bip0037Version ≤ pver then [if nr then 0 else 1] else []))
  | .verack => .ok []
  | .getaddr => .ok []
  | .addr l =>
    if pver < multipleAddressVersion ∧ l.length > 1 then .error .addrPver
    else if l.length > maxAddrPerMsg then .error .tooMany
    else .ok (putVarInt l.length ++ l.flatMap (putNetAddr pver true))
  | .getheaders pv loc stop => encLocator pv loc stop
  | .getblocks pv loc stop => encLocator pv loc stop
  | .headers l =>
    if l.length > maxBlockHeadersPerMsg then .error .tooMany
    else .ok (putVarInt l.length ++ l.flatMap putHeaderElem)
  | .inv l => encInvList l
  | .getdata l => encInvList l
  | .notfound l => encInvList l
  | .ping nonce => .ok (if bip0031Version < pver then put64le nonce else [])
  | .pong nonce => if pver ≤ bip0031Version then .error .badPver else .ok (put64le nonce)
  | .reject cmd code reason hash =>
    if pver < rejectVersion then .error .badPver
    else .ok (putVarBytes cmd ++ put8 code ++ putVarBytes reason ++
              (if cmd = cmdBlock ∨ cmd = cmdTx then hash else []))
  | .sendheaders => if pver < sendHeadersVersion then .error .badPver else .ok []
  | .feefilter fee => if pver < feeFilterVersion then .error .badPver else .ok (put64le fee)
  | .mempool => if pver < bip0035Version then .error .badPver else .ok []
  | .protoconf nf mr => if pver < protoconfVersion then .error .badPver else .ok (put64le nf ++ put32le mr)

def decInvList : Rd (List InvVect) := do
  let count ← getVarInt
  guardAlloc count maxInvPerMsg invVectSize .tooMany
  getMany getInvVect count

def decLocator (mk : Nat → List Bytes → Bytes → Msg) : Rd Msg := do
  let pv ← get32le
  let count ← getVarInt
  guardAlloc count maxBlockLocatorsPerMsg hashSize .tooMany
  let loc ← getMany getHash count
  let stop ← getHash
  pure (mk pv loc stop)

/-- MsgVersion.Bsvdecode: every field after AddrYou is read only `if buf.Len() > 0`;
    the user agent is read with ReadVarBytes bounded by MaxUserAgentLen (so an over-long
    length is refused BEFORE the buffer is made; repaired defect C14-F1), then
    validateUserAgent as before (which can no longer fail) -/
def decVersion (pver : Nat) : Rd Msg := do
  let pv ← get32le
  let sv ← get64le
  let ts ← get64le
  let you ← getNetAddr pver false
  let r ← Rd.remaining
  let me ← (if r > 0 then getNetAddr pver false else pure NetAddr.zero)
  let r ← Rd.remaining
  let nonce ← (if r > 0 then get64le else pure 0)
  let r ← Rd.remaining
  let ua ← (if r > 0 then (do
      let s ← getVarBytes maxUserAgentLen
      if s.length > maxUserAgentLen then Rd.fail .userAgent else pure s)
    else pure [])
  let r ← Rd.remaining
  let lb ← (if r > 0 then get32le else pure 0)
  let r ← Rd.remaining
  let relay ← (if r > 0 then (do let x ← get8; pure (decide (x = 0))) else pure false)
  pure (.version pv sv ts you me nonce ua lb relay)

def decAddr (pver : Nat) : Rd Msg := do
  let count ← getVarInt
  guardAlloc count maxAddrPerMsg (maxNetAddressPayload pver) .tooMany
  let l ← getMany (getNetAddr pver true) count
  pure (.addr l)

def decHeaders : Rd Msg := do
  let count ← getVarInt
  guardAlloc count maxBlockHeadersPerMsg headerElemSize .tooMany
  let l ← getMany getHeaderElem count
  pure (.headers l)

def decReject (gmax pver : Nat) : Rd Msg :=
  if pver < rejectVersion then Rd.fail .badPver else do
    let cmd ← getVarBytes gmax
    let code ← get8
    let reason ← getVarBytes gmax
    let hash ← (if cmd = cmdBlock ∨ cmd = cmdTx then getHash else pure zeroHash)
    pure (.reject cmd code reason hash)

/-- `Bsvdecode(r, pver, _)` on a fresh value of the given concrete type -/
def decodeRd (gmax pver : Nat) : MsgType → Rd Msg
  | .MsgVersion => decVersion pver
  | .MsgVerAck => pure .verack
  | .MsgGetAddr => pure .getaddr
  | .MsgAddr => decAddr pver
  | .MsgGetHeaders => decLocator .getheaders
  | .MsgGetBlocks => decLocator .getblocks
  | .MsgHeaders => decHeaders
  | .MsgInv => do let l ← decInvList; pure (.inv l)
  | .MsgGetData => do let l ← decInvList; pure (.getdata l)
  | .MsgNotFound => do let l ← decInvList; pure (.notfound l)
  | .MsgPing => if bip0031Version < pver then (do let n ← get64le; pure (.ping n)) else pure (.ping 0)
  | .MsgPong => if pver ≤ bip0031Version then Rd.fail .badPver else (do let n ← get64le; pure (.pong n))
  | .MsgReject => decReject gmax pver
  | .MsgSendHeaders => if pver < sendHeadersVersion then Rd.fail .badPver else pure .sendheaders
  | .MsgFeeFilter => if pver < feeFilterVersion then Rd.fail .badPver else (do let n ← get64le; pure (.feefilter n))
  | .MsgMemPool => if pver < bip0035Version then Rd.fail .badPver else pure .mempool
  | .MsgProtoconf => if pver < protoconfVersion then Rd.fail .badPver else pure (.protoconf 0 0)
  | _ => Rd.fail .unmodelled

/-- decoded message (trailing bytes, which no Bsvdecode looks at, are dropped) -/
def decodePayload (gmax pver : Nat) (t : MsgType) (bs : Bytes) : Except Err Msg :=
  match (decodeRd gmax pver t bs).2 with
  | .ok (m, _) => .ok m
  | .error e => .error e

/-- the allocation meter of one payload decode -/
def decodeAllocs (gmax pver : Nat) (t : MsgType) (bs : Bytes) : List Nat :=
  (decodeRd gmax pver t bs).1

/-! ## well-formedness: exactly what the encoder / the wire format can carry -/

def WFNetAddr (pver : Nat) (ts : Bool) (na : NetAddr) : Prop :=
  na.services < 2^64 ∧ na.ip.length = 16 ∧ na.port < 2^16 ∧
  (if hasTs pver ts then na.ts < 2^32 else na.ts = goZeroTime)

instance : Decidable (WFNetAddr pver ts na) := by unfold WFNetAddr; infer_instance

def WFInv (iv : InvVect) : Prop := iv.type < 2^32 ∧ iv.hash.length = 32
instance : Decidable (WFInv iv) := by unfold WFInv; infer_instance

def WFHeader (h : BlockHeader) : Prop :=
  h.version < 2^32 ∧ h.prev.length = 32 ∧ h.merkle.length = 32 ∧ h.ts < 2^32 ∧ h.bits < 2^32 ∧ h.nonce < 2^32
instance : Decidable (WFHeader h) := by unfold WFHeader; infer_instance

def WFLocator (pv : Nat) (loc : List Bytes) (stop : Bytes) : Prop :=
  pv < 2^32 ∧ loc.length ≤ maxBlockLocatorsPerMsg ∧ (∀ h ∈ loc, h.length = 32) ∧ stop.length = 32
instance : Decidable (WFLocator pv loc stop) := by unfold WFLocator; infer_instance

def WFInvList (l : List InvVect) : Prop := l.length ≤ maxInvPerMsg ∧ ∀ iv ∈ l, WFInv iv
instance : Decidable (WFInvList l) := by unfold WFInvList; infer_instance

/-- `WF gmax pver m`: field ranges of the Go types, the counts / lengths the encoder
    enforces, second-precision times in the range the wire field carries, 16-byte IPs,
    and the pver-dependent fields absent from the encoding holding their zero value. -/
def WF (gmax pver : Nat) : Msg → Prop
  | .version pv sv ts you me nonce ua lb nr =>
    pv < 2^32 ∧ sv < 2^64 ∧ ts < 2^64 ∧ WFNetAddr pver false you ∧ WFNetAddr pver false me ∧
    nonce < 2^64 ∧ ua.length ≤ maxUserAgentLen ∧ lb < 2^32 ∧ (pver < bip0037Version → nr = false)
  | .verack => True
  | .getaddr => True
  | .addr l => l.length ≤ maxAddrPerMsg ∧ (pver < multipleAddressVersion → l.length ≤ 1) ∧
      ∀ na ∈ l, WFNetAddr pver true na
  | .getheaders pv loc stop => WFLocator pv loc stop
  | .getblocks pv loc stop => WFLocator pv loc stop
  | .headers l => l.length ≤ maxBlockHeadersPerMsg ∧ ∀ h ∈ l, WFHeader h
  | .inv l => WFInvList l
  | .getdata l => WFInvList l
  | .notfound l => WFInvList l
  | .ping nonce => if bip0031Version < pver then nonce < 2^64 else nonce = 0
  | .pong nonce => bip0031Version < pver ∧ nonce < 2^64
  | .reject cmd code reason hash =>
    rejectVersion ≤ pver ∧ cmd.length ≤ gmax ∧ reason.length ≤ gmax ∧ code < 2^8 ∧
    (if cmd = cmdBlock ∨ cmd = cmdTx then hash.length = 32 else hash = zeroHash)
  | .sendheaders => sendHeadersVersion ≤ pver
  | .feefilter fee => feeFilterVersion ≤ pver ∧ fee < 2^64
  | .mempool => bip0035Version ≤ pver
  | .protoconf nf mr => protoconfVersion ≤ pver ∧ nf = 0 ∧ mr = 0

instance : Decidable (WF gmax pver m) := by
  cases m <;> unfold WF <;> infer_instance

/-! ## frame layer (message.go) -/

/-- the 12-byte NUL-padded command field -/
def padCmd (name : Bytes) : Bytes := name ++ List.replicate (commandSize - name.length) 0

/-- `bytes.TrimRight(command[:], "\x00")` -/
def trimZeros (l : Bytes) : Bytes := (l.reverse.dropWhile (· == 0)).reverse

/-- makeEmptyMessage over the regenerated command table -/
def lookupCmd (name : Bytes) : Option MsgType :=
  match commandTable.find? (fun e => e.1 == name) with
  | some e => some e.2
  | none => none

/-- first four bytes of H(H(payload)) -/
def checksum (H : Bytes → Bytes) (payload : Bytes) : Bytes := (H (H payload)).take 4

/-- WriteMessageWithEncodingN -/
def writeMessage (H : Bytes → Bytes) (gmax pver net : Nat) (m : Msg) : Except Err Bytes :=
  if m.command.length > commandSize then .error .cmdTooLong
  else match encodePayload pver m with
    | .error e => .error e
    | .ok payload =>
      if payload.length > gmax then .error .oversizeGlobal
      else match maxPayloadLength gmax pver m.msgType with
        | none => .error .unmodelled
        | some mpl =>
          if payload.length > mpl then .error .oversizeType
          else .ok (put32le net ++ padCmd m.command ++ put32le payload.length ++ checksum H payload ++ payload)

/-- allocations of discardInput(r, n): a 10 KiB chunk buffer and the remainder buffer -/
def discardAllocs (n : Nat) : List Nat :=
  (if n > 0 then [10240] else []) ++ (if n % 10240 > 0 then [n % 10240] else [])

/-- checksum test, then Bsvdecode on the payload's own buffer (the stream keeps `rest`) -/
def finishPayload (H : Bytes → Bytes) (gmax pver : Nat) (t : MsgType) (ck payload : Bytes) : Rd Msg := fun rest =>
  if checksum H payload ≠ ck then ([], .error .checksum)
  else match decodeRd gmax pver t payload with
    | (al, .error e) => (al, .error e)
    | (al, .ok (m, _)) => (al, .ok (m, rest))

/-- ReadMessageWithEncodingN after the per-type length check: allocate and read the payload,
    test the checksum, decode -/
def readPayload (H : Bytes → Bytes) (gmax pver : Nat) (t : MsgType) (len : Nat) (ck : Bytes) : Rd Msg := do
  Rd.alloc len
  let payload ← getBytes len
  finishPayload H gmax pver t ck payload

/-- ReadMessageWithEncodingN after the 24-byte header has been read: the checks in source order -/
def readBody (H : Bytes → Bytes) (gmax pver net magic : Nat) (cmd : Bytes) (len : Nat) (ck : Bytes) : Rd Msg :=
  if len > gmax then Rd.fail .oversizeGlobal
  else if magic ≠ net then do Rd.allocs (discardAllocs len); Rd.fail .magic
  else match lookupCmd (trimZeros cmd) with
    | none => do Rd.allocs (discardAllocs len); Rd.fail .badCmd
    | some t =>
      match maxPayloadLength gmax pver t with
      | none => Rd.fail .unmodelled
      | some mpl =>
        if len > mpl then do Rd.allocs (discardAllocs len); Rd.fail .oversizeType
        else readPayload H gmax pver t len ck

/-- ReadMessageWithEncodingN on a byte stream: the message and the unread rest, or the error;
    first component: allocation meter (payload buffer, discard buffers, decoder allocations) -/
def readMessageRd (H : Bytes → Bytes) (gmax pver net : Nat) : Rd Msg := do
  let r ← Rd.remaining
  if r < messageHeaderSize then Rd.fail .eof else do
  let magic ← get32le
  let cmd ← getBytes commandSize
  let len ← get32le
  let ck ← getBytes 4
  readBody H gmax pver net magic cmd len ck

def readMessage (H : Bytes → Bytes) (gmax pver net : Nat) (bs : Bytes) : Except Err (Msg × Bytes) :=
  (readMessageRd H gmax pver net bs).2

def readMessageAllocs (H : Bytes → Bytes) (gmax pver net : Nat) (bs : Bytes) : List Nat :=
  (readMessageRd H gmax pver net bs).1

end BHS.Wire
