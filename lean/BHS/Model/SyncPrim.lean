/-
M-SyncPrim: the vocabulary the REGENERATED module BHS/Gen/SyncMgr.lean is written in (harness/cmd/extract/gen_syncmgr.go
translates the event handlers of /repo/transports/p2p/p2psync/manager.go statement by statement into `do` blocks over the
monad `SyncM`). Hand-written, core Lean only. The state the handlers work on is the hand model's `Sync.State` — the
refinement theorems (Props/SyncMgrGen.lean) say that every translated handler computes the hand model's function.

How Go maps to Lean here
* the handler goroutine's state `*SyncManager`  ↦ `MState.st : Sync.State H` (syncPeer, headersFirstMode, nextCheckpoint,
  peerStates + the peer objects, Services = the header store) and `MState.acts`, the calls made on peer objects and on the
  peer notifier, recorded in order as `Sync.Action`s.
* a Go panic (nil dereference, index out of range — the handler goroutine dies, the process exits) ↦ the fault of the
  monad; `panic_` appends `Action.panic` and stops, keeping the state reached so far (what the hand model reports).
* `*peerpkg.Peer` ↦ the peer id (`Nat`; pointer identity = id); a nullable one (`sm.syncPeer`, `var bestPeer`) ↦ `Option Nat`.
  The peer OBJECT (lastBlock, startingHeight, the duplicate filter of PushGetHeadersMsg, the disconnect flag) and the
  manager's map entry `sm.peerStates[peer]` (presence, SyncCandidate) are the two halves of one `PeerSt` entry of the hand
  model; a method call on a peer object the table does not hold is a fault (the hand model's `none`).
* Go integers (`int`, `int32`, `int64`) ↦ `Int`; heights stored as `Nat` in the models are cast.
* `*chaincfg.Checkpoint` ↦ `Option (Nat × H)`; `*chainhash.Hash` that may be nil ↦ `Option H`, otherwise `H`;
  `*domains.BlockHeader` ↦ `Option (Row H)`; `domains.BlockHeaderSource`, `*wire.BlockHeader` ↦ `Src H`;
  `*wire.InvVect` ↦ `Bool × H` (is it a block inventory, hash); `error` ↦ `Option GoErr`.
* inputs from outside the handler (`Env`): the random number `rand.Int` draws, what `validNetworkSpeed` and
  `time.Since(lastBlockTime)` answer at the tick, the service bits of peer objects.
* `for … range` and the count-down `for i := e; i >= 0; i--` ↦ `forRange` over a list (the slice / the map's entries in
  table order / `downFrom e`); the loop body is a separate definition returning `Ctl`: `next` (fall through, `continue`),
  `brk` (`break`), `ret` (`return` from the enclosing function).
-/
import BHS.Model.Sync

namespace BHS.Sync
open BHS.Chain

/-- what makes the handler goroutine panic -/
inductive Fault where
  | nilDeref
  | indexOutOfRange
  | unknownPeerObject      -- a method call on a peer object the table does not hold
deriving DecidableEq, Repr

/-- Go `error` values the handlers look at -/
inductive GoErr where
  | code (c : String)      -- service.AddBlockErrorCode: the text of the error
  | other                  -- any other error (fmt.Errorf, "block … is not in the main chain")
deriving DecidableEq, Repr

/-- `AddBlockErrorCode.Is(err)`: `err != nil && strings.Contains(err.Error(), code)` -/
def errIs (c : String) (e : Option GoErr) : Bool :=
  match e with
  | some (.code d) => d == c
  | _ => false

/-- inputs of a handler run that are not part of the manager's state -/
structure Env where
  pick : Nat := 0                    -- the number rand.Int(rand.Reader, n) draws is `pick % n`
  violations : Int := 0              -- what syncPeerState.validNetworkSpeed(…) answers
  sinceLastBlock : Int := 0          -- time.Since(syncPeerState.lastBlockTime), in seconds
  services : Nat → Nat := fun _ => 1 -- peer.Services() of the peer object with this id

structure MState (H : Type) where
  st : State H
  acts : List (Action H) := []

inductive Res (α : Type) where
  | ok (a : α)
  | fault (f : Fault)
deriving DecidableEq

/-- the handler monad: state + recorded actions, faults stop the run and keep the state -/
def SyncM (H : Type) (α : Type) : Type := MState H → Res α × MState H

variable {H : Type}

instance : Monad (SyncM H) where
  pure a := fun m => (.ok a, m)
  bind x f := fun m =>
    match x m with
    | (.ok a, m') => f a m'
    | (.fault e, m') => (.fault e, m')

/-- the handler goroutine panics -/
def panic_ {α : Type} (f : Fault) : SyncM H α := fun m => (.fault f, { m with acts := m.acts ++ [.panic] })

/-- run a handler from a state of the hand model: next state and the actions, in order -/
def runH (x : SyncM H Unit) (st : State H) : State H × List (Action H) :=
  ((x { st := st, acts := [] }).2.st, (x { st := st, acts := [] }).2.acts)

def getSt : SyncM H (State H) := fun m => (.ok m.st, m)
def modifySt (f : State H → State H) : SyncM H Unit := fun m => (.ok (), { m with st := f m.st })
def act (a : Action H) : SyncM H Unit := fun m => (.ok (), { m with acts := m.acts ++ [a] })

/-! ### Go notions -/

/-- dereference of a Go pointer -/
def deref {α : Type} : Option α → SyncM H α
  | some a => pure a
  | none => panic_ .nilDeref

/-- `len(xs)` -/
def lenOf {α : Type} (xs : List α) : Int := (xs.length : Int)

/-- `xs[i]` -/
def index {α : Type} (xs : List α) (i : Int) : SyncM H α :=
  if i < 0 then panic_ .indexOutOfRange
  else match xs[i.toNat]? with
    | some a => pure a
    | none => panic_ .indexOutOfRange

/-- the values `i` takes in `for i := e; i >= 0; i--` -/
def downFrom (e : Int) : List Int := ((List.range (e + 1).toNat).reverse).map Int.ofNat

/-- `for i, x := range xs`: the elements with their indices -/
def enumerate {α : Type} (xs : List α) : List (Int × α) := xs.zipIdx.map (fun ai => ((ai.2 : Int), ai.1))

/-- `a & b` on non-negative integers -/
def bitAnd (a b : Int) : Int := ((a.toNat &&& b.toNat : Nat) : Int)

/-- short-circuit `a && b`, `a || b` with an effectful right operand -/
def andThen (a : Bool) (b : SyncM H Bool) : SyncM H Bool := if a then b else pure false
def orElse (a : Bool) (b : SyncM H Bool) : SyncM H Bool := if a then pure true else b

/-- how one iteration of a loop body ends -/
inductive Ctl (σ ρ : Type) where
  | next (s : σ)      -- the body ran to its end, or `continue`
  | brk (s : σ)       -- `break`
  | ret (r : ρ)       -- `return r` from the enclosing function

/-- how a loop ends: normally (the loop-carried variables), or by a `return` of the enclosing function -/
inductive LoopOut (σ ρ : Type) where
  | done (s : σ)
  | ret (r : ρ)

/-- a Go loop over the elements of a list -/
def forRange {α σ ρ : Type} (xs : List α) (s : σ) (body : α → σ → SyncM H (Ctl σ ρ)) : SyncM H (LoopOut σ ρ) :=
  match xs with
  | [] => pure (.done s)
  | x :: rest => fun m =>
    match body x s m with
    | (.ok (.next s'), m') => forRange rest s' body m'
    | (.ok (.brk s'), m') => (.ok (.done s'), m')
    | (.ok (.ret r), m') => (.ok (.ret r), m')
    | (.fault e, m') => (.fault e, m')

/-! ### fields of SyncManager -/

variable [DecidableEq H]

def getSyncPeer : SyncM H (Option Nat) := fun m => (.ok m.st.syncPeer, m)
def setSyncPeer (p : Option Nat) : SyncM H Unit := modifySt fun st => { st with syncPeer := p }
def getHeadersFirstMode : SyncM H Bool := fun m => (.ok m.st.headersFirst, m)
def setHeadersFirstMode (b : Bool) : SyncM H Unit := modifySt fun st => { st with headersFirst := b }
def getNextCheckpoint : SyncM H (Option (Nat × H)) := fun m => (.ok m.st.nextCp, m)
def setNextCheckpoint (c : Option (Nat × H)) : SyncM H Unit := modifySt fun st => { st with nextCp := c }

/-- chaincfg.Checkpoint.Height / .Hash -/
def cpHeight (c : Nat × H) : Int := (c.1 : Int)
def cpHash (c : Nat × H) : H := c.2

/-- `atomic.LoadInt32(&sm.shutdown)`: the model describes a running manager -/
def shutdownFlag : SyncM H Int := pure 0

/-- `sm.chainParams == &chaincfg.RegressionNetParams`: the regression-test network is outside the model -/
def isRegressionNet : Bool := false

/-- wire.SFNodeNetwork -/
def sfNodeNetwork : Int := 1

/-- time.Second, the unit of the durations -/
def timeSecond : Int := 1

/-- `rand.Int(rand.Reader, big.NewInt(n))`: the draw is the environment's; crypto/rand failing is outside the model -/
def randInt (env : Env) (n : Int) : SyncM H (Int × Option GoErr) := pure (((env.pick % n.toNat : Nat) : Int), none)

/-! ### sm.peerStates -/

/-- `_, exists := sm.peerStates[peer]` -/
def peerStatesHas (p : Nat) : SyncM H Bool := fun m =>
  (.ok (match lookup m.st.peers p with | some q => q.inMap | none => false), m)

/-- the same with a key that may be nil (a nil key is in no map) -/
def peerStatesHasOpt (p : Option Nat) : SyncM H Bool :=
  match p with
  | some p => peerStatesHas p
  | none => pure false

/-- `delete(sm.peerStates, peer)` -/
def peerStatesDelete (p : Nat) : SyncM H Unit := modifySt fun st =>
  match lookup st.peers p with
  | some q => { st with peers := update st.peers { q with inMap := false } }
  | none => st

/-- `sm.peerStates[peer] = &peerpkg.SyncState{SyncCandidate: c}` -/
def peerStatesPut (p : Nat) (c : Bool) : SyncM H Unit := modifySt fun st =>
  match lookup st.peers p with
  | some q => { st with peers := update st.peers { q with inMap := true, candidate := c } }
  | none => st

/-- peerpkg.SyncState as seen by a range loop -/
structure SyncStateV where
  syncCandidate : Bool

/-- `for peer, state := range sm.peerStates`: the entries of the map, in table order -/
def peerStatesRange : SyncM H (List (Nat × SyncStateV)) := fun m =>
  (.ok ((m.st.peers.filter (·.inMap)).map (fun q => (q.id, (⟨q.candidate⟩ : SyncStateV)))), m)

/-- `state.SyncCandidate = c` for the entry of this peer -/
def peerStatesSetCandidate (p : Nat) (c : Bool) : SyncM H Unit := modifySt fun st =>
  match lookup st.peers p with
  | some q => { st with peers := update st.peers { q with candidate := c } }
  | none => st

/-! ### methods of the peer object -/

def peerObj (p : Nat) : SyncM H (PeerSt H) := fun m =>
  match lookup m.st.peers p with
  | some q => (.ok q, m)
  | none => (.fault .unknownPeerObject, { m with acts := m.acts ++ [.panic] })

/-- peer.LastBlock() -/
def peerLastBlock (p : Nat) : SyncM H Int := do return (← peerObj p).lastBlock
/-- peer.StartingHeight() -/
def peerStartingHeight (p : Nat) : SyncM H Int := do return (← peerObj p).startHeight
/-- peer.Connected(): the socket is up and Disconnect() has not been called (the remote end hanging up makes peer.go call
    Disconnect() on the peer object) -/
def peerConnected (p : Nat) : SyncM H Bool := do return !(← peerObj p).disc
/-- peer.Services() -/
def peerServices (env : Env) (p : Nat) : SyncM H Int := pure (env.services p : Int)

/-- peer.Disconnect(): `Sync.disconnectPeer` (closes once) -/
def peerDisconnect (p : Nat) : SyncM H Unit := fun m =>
  (.ok (), { st := { m.st with peers := (disconnectPeer m.st.peers p).1 }, acts := m.acts ++ (disconnectPeer m.st.peers p).2 })

/-- peer.PushGetHeadersMsg(locator, stop): `Sync.pushTo` (the back-to-back duplicate filter of peer.go; the request is
    dropped for a disconnected peer). The error it can return (more than MaxBlockLocatorsPerMsg hashes) is outside the model. -/
def peerPushGetHeadersMsg (p : Nat) (loc : List H) (stop : H) : SyncM H (Option GoErr) := fun m =>
  (.ok none, { st := (pushTo m.st p loc stop).1, acts := m.acts ++ (pushTo m.st p loc stop).2 })

/-- peer.UpdateLastAnnouncedBlock(hash): the hand model does not keep lastAnnouncedBlock (nothing reads it) -/
def peerUpdateLastAnnouncedBlock (_p : Nat) (_h : H) : SyncM H Unit := pure ()

/-- peer.UpdateLastBlockHeight(h) -/
def peerUpdateLastBlockHeight (p : Nat) (h : Int) : SyncM H Unit := modifySt fun st =>
  match lookup st.peers p with
  | some q => { st with peers := update st.peers { q with lastBlock := h } }
  | none => st

/-- peer.SetSyncPeer(b): a flag of the peer object nothing in the manager reads -/
def peerSetSyncPeer (_p : Nat) (_b : Bool) : SyncM H Unit := pure ()

/-- sm.peerNotifier.BanPeer(peer) -/
def banPeer (p : Nat) : SyncM H Unit := act (.ban p)

/-! ### sm.Services -/

/-- Services.Headers.GetTipHeight() -/
def headersGetTipHeight : SyncM H Int := fun m => (.ok (tipHeight m.st.store : Int), m)
/-- Services.Headers.GetTip() -/
def headersGetTip : SyncM H (Option (Row H)) := fun m => (.ok (getTip m.st.store), m)
/-- Services.Headers.LatestHeaderLocator() -/
def headersLatestHeaderLocator : SyncM H (List H) := fun m => (.ok (locator m.st.store), m)
/-- Services.Headers.IsCurrent(): `Sync.isCurrentHS`; the index out of range on an empty checkpoint list is a panic -/
def headersIsCurrent (cfg : Cfg H) : SyncM H Bool := fun m =>
  match isCurrentHS cfg m.st.store with
  | some b => (.ok b, m)
  | none => (.fault .indexOutOfRange, { m with acts := m.acts ++ [.panic] })
/-- Services.Headers.GetHeightByHash(hash) -/
def headersGetHeightByHash (h : H) : SyncM H (Int × Option GoErr) := fun m =>
  match byHash m.st.store h with
  | some r => (.ok ((r.height : Int), none), m)
  | none => (.ok (0, some .other), m)

/-- Services.Chains.Add(src): the chain model's `add` (tied to service/chain_service.go by Gen.ChainSvc / Props.ChainSvc
    `Gen_add_refines`); the answer as the Go caller sees it -/
def chainsAdd (cfg : Cfg H) (x : Src H) : SyncM H (Option (Row H) × Option GoErr) := fun m =>
  (.ok (match (add cfg.chain m.st.store x).2 with
        | .stored r => (some r, none)
        | .duplicate => (none, some (.code "HeaderAlreadyExists"))
        | .rejected => (none, some (.code "BlockRejected"))
        | .creationFail => (none, some (.code "HeaderCreationFail"))),
    { m with st := { m.st with store := (add cfg.chain m.st.store x).1 } })

/-- (*domains.BlockHeader).IsLongestChain() -/
def rowIsLongestChain (r : Row H) : Bool := decide (r.st = .lc)
/-- domains.BlockHeader.Height -/
def rowHeight (r : Row H) : Int := (r.height : Int)

/-- wire.InvVect: `.Type == wire.InvTypeBlock`, `.Hash` -/
def invIsBlock (v : Bool × H) : Bool := v.1
def invHash (v : Bool × H) : H := v.2

end BHS.Sync
