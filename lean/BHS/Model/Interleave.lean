/-
M-Interleave (C15): `Chains.Add` as a small-step program over the shared store, one repository
call per step (the granularity at which the harness scheduler interleaves real submitters).
A schedule is a list of thread ids. Core Lean only.
-/
import BHS.Model.Chain

namespace BHS.Chain
variable {H : Type} [DecidableEq H]

/-- program counter of one `Add`, with the locals it has accumulated -/
inductive Pc (H : Type) where
  | start                                              -- next: R GetHeaderByHash(hash)
  | readParent                                         -- next: R GetHeaderByHash(prev)
  | readAtHeight (r : Row H)                           -- next: R GetHeaderByHeight(r.height, LONGEST_CHAIN)
  | readTip (r : Row H)                                -- next: R GetTip
  | readStale (r : Row H)                              -- next: R GetStaleChainHeadersBackFrom(prev)
  | readConc (r : Row H) (stale : List (Row H))        -- next: R GetLongestChainHeadersFromHeight(lowest)
  | writes (r : Row H) (ws : List (Write H))           -- next: the next write transaction
  | done (o : Outcome H)
deriving Repr

structure Thread (H : Type) where
  x : Src H
  pc : Pc H

def Thread.isDone (t : Thread H) : Bool := match t.pc with | .done _ => true | _ => false

/-- one repository call of thread `t` against the shared store -/
def stepThread (cfg : Cfg H) (s : Store H) (t : Thread H) : Store H × Thread H :=
  match t.pc with
  | .start =>
    if (byHash s (cfg.hashOf t.x)).isSome then (s, { t with pc := .done .duplicate })
    else if cfg.hashOf t.x ∈ cfg.forbidden then (s, { t with pc := .done .rejected })
    else (s, { t with pc := .readParent })
  | .readParent =>
    let r := mkRow cfg s t.x
    match r.st with
    | .orphan => (s, { t with pc := .writes r [.insert r] })
    | .lc => if r.work = 0 then (s, { t with pc := .readTip r }) else (s, { t with pc := .readAtHeight r })
    | .stale => (s, { t with pc := .readTip r })
  | .readAtHeight r =>
    match lcAtHeight s r.height with
    | some oh => if oh.hash ≠ r.hash then (s, { t with pc := .readTip r }) else (s, { t with pc := .writes r [.insert r] })
    | none => (s, { t with pc := .writes r [.insert r] })
  | .readTip r =>
    match getTip s with
    | none => (s, { t with pc := .done .creationFail })
    | some tip =>
      if tip.cum < r.cum then (s, { t with pc := .readStale { r with st := .lc } })
      else (s, { t with pc := .writes { r with st := .stale } [.insert { r with st := .stale }] })
  | .readStale r => (s, { t with pc := .readConc r (staleBackFrom s r.prev) })
  | .readConc r stale =>
    let conc := lcFromHeight s (lowestHeight stale r.height)
    let ws := (if conc.isEmpty then [] else [Write.setState (conc.map (·.hash)) St.stale]) ++
              (if stale.isEmpty then [] else [Write.setState (stale.map (·.hash)) St.lc]) ++ [Write.insert r]
    (s, { t with pc := .writes r ws })
  | .writes r [] => (s, { t with pc := .done (.stored r) })
  | .writes r (w :: ws) =>
    -- the last write is the insert; after it `Add` returns (no further repository call)
    -- (the returned header is rendered with the rowid of the row carrying its hash: its own, or on a lost race the
    --  earlier row that ON CONFLICT DO NOTHING kept)
    let rid := match byHash s r.hash with | some e => e.id | none => s.length
    (applyWrite s w, { t with pc := if ws.isEmpty then .done (.stored { r with id := rid }) else .writes r ws })
  | .done _ => (s, t)

/-- run thread `t` to completion without interleaving (fuel = an upper bound on its steps) -/
def runThread (cfg : Cfg H) : Nat → Store H → Thread H → Store H × Thread H
  | 0, s, t => (s, t)
  | fuel + 1, s, t =>
    if t.isDone then (s, t) else
    let p := stepThread cfg s t
    runThread cfg fuel p.1 p.2

/-- the global state: the shared store and the submitter threads -/
structure World (H : Type) where
  store : Store H
  threads : List (Thread H)

/-- schedule one step of thread number `i` (no-op when `i` is out of range or the thread is done) -/
def stepWorld (cfg : Cfg H) (w : World H) (i : Nat) : World H :=
  match w.threads[i]? with
  | none => w
  | some t =>
    let p := stepThread cfg w.store t
    { store := p.1, threads := w.threads.set i p.2 }

def runSchedule (cfg : Cfg H) (w : World H) (sched : List Nat) : World H := sched.foldl (stepWorld cfg) w

def initWorld (s : Store H) (xs : List (Src H)) : World H :=
  { store := s, threads := xs.map (fun x => { x := x, pc := .start }) }

/-- every step count of `Add` is at most this -/
def maxSteps : Nat := 10

end BHS.Chain
