/-
M-AddrMgr — the address manager's bookkeeping, transcribed from
/repo/transports/p2p/addrmgr/addrmanager.go (`updateAddress`, `Good`, `BanAddress`,
`removeAddrFromTried`, `removeAddrFromNew`, the branch choice and bucket search of `GetAddress`).
Core Lean only (links into the peers driver).

* `index` = `addrIndex` (address → *KnownAddress with `refs`, `tried`); `newB` = membership of the
  new buckets as (bucket, address) pairs; `triedB` = the tried lists as (bucket, address) in list
  order; `nNew`, `nTried` the two counters (`int`, decremented without a floor).
* which bucket an address hashes to (`getNewBucket` / `getTriedBucket`, keyed by a random secret)
  and the dice of `updateAddress` for an already known address are arguments of the operations
  (for ALL their values the theorems hold).
* bucket overflow (`expireNew`, eviction from a full tried bucket: > 64 / 256 entries per bucket)
  is not modelled; `Attempt` / `Connected` / the selection `chance()` do not touch the bookkeeping.
* `GetAddress`: `nil` when `numAddresses() == 0`; otherwise one of the two `for {}` searches over
  random buckets — `hang` is the explicit outcome "the branch's buckets are all empty": the loop
  then never ends, with the manager's mutex held.
* `removeTried true` is the code of today; `removeTried false` the code before commit 82e7a0f
  (`refs--; if refs == 0 { nTried--; delete(addrIndex) }` — a tried entry has refs 0 already).
-/
namespace BHS.Model.AddrMgr

structure KA where
  refs : Int
  tried : Bool
  deriving DecidableEq, Repr

structure St where
  index : List (Nat × KA) := []
  newB : List (Nat × Nat) := []
  triedB : List (Nat × Nat) := []
  nNew : Int := 0
  nTried : Int := 0
  banned : List (Nat × Nat) := []   -- address → ban end
  now : Nat := 0

structure Cfg where
  banT : Nat       -- banTime
  maxRefs : Int    -- newBucketsPerAddress

def find (s : St) (a : Nat) : Option KA := (s.index.find? (fun e => e.1 == a)).map (·.2)
def setKA (idx : List (Nat × KA)) (a : Nat) (ka : KA) : List (Nat × KA) := idx.map (fun e => if e.1 == a then (a, ka) else e)
def delKA (idx : List (Nat × KA)) (a : Nat) : List (Nat × KA) := idx.filter (fun e => e.1 != a)

def banActive (s : St) (a : Nat) : Bool :=
  match s.banned.find? (fun e => e.1 == a) with
  | some e => decide (s.now < e.2)
  | none => false

/-- `ka.refs++; a.addrNew[bucket][addr] = ka` unless already there -/
def insertNew (s : St) (b a : Nat) : St :=
  if s.newB.contains (b, a) then s
  else match find s a with
    | some ka => { s with index := setKA s.index a { ka with refs := ka.refs + 1 }, newB := s.newB ++ [(b, a)] }
    | none => s

/-- `updateAddress` for a routable address. `b` = `getNewBucket(netAddr, srcAddr)` (always computed);
`dice` = the outcome of `a.rand.Int31n(2*refs) == 0`, consulted for an already known address only. -/
def add (c : Cfg) (s : St) (a b : Nat) (dice : Bool) : St :=
  if banActive s a then s
  else
    let s0 : St := { s with banned := s.banned.filter (fun e => e.1 != a) }
    match find s0 a with
    | some ka =>
      if ka.tried then s0
      else if ka.refs = c.maxRefs then s0
      else if dice then insertNew s0 b a
      else s0
    | none =>
      insertNew { s0 with index := s0.index ++ [(a, { refs := 0, tried := false })], nNew := s0.nNew + 1 } b a

/-- `Good`: out of every new bucket (`refs--` each), `nNew--`, into tried bucket `t`, `nTried++`. -/
def good (s : St) (a t : Nat) : St :=
  match find s a with
  | none => s
  | some ka =>
    if ka.tried then s
    else
      let k : Int := (s.newB.countP (fun e => e.2 == a) : Nat)
      let s1 : St := { s with newB := s.newB.filter (fun e => e.2 != a), index := setKA s.index a { ka with refs := ka.refs - k },
                              nNew := s.nNew - 1 }
      if k = 0 then s1   -- "What? wasn't in a bucket after all.... Panic?"
      else { s1 with index := setKA s1.index a { refs := ka.refs - k, tried := true }, triedB := s1.triedB ++ [(t, a)], nTried := s1.nTried + 1 }

def eraseFirst (l : List (Nat × Nat)) (a : Nat) : List (Nat × Nat) := l.eraseP (fun e => e.2 == a)

/-- `removeAddrFromTried`; `fixed = true`: the code of today. -/
def removeTried (fixed : Bool) (s : St) (a : Nat) : St :=
  if s.triedB.any (fun e => e.2 == a) then
    let s1 : St := { s with triedB := eraseFirst s.triedB a }
    if fixed then { s1 with nTried := s1.nTried - 1, index := delKA s1.index a }
    else match find s1 a with
      | some ka =>
        if ka.refs - 1 = 0 then { s1 with nTried := s1.nTried - 1, index := delKA s1.index a }
        else { s1 with index := setKA s1.index a { ka with refs := ka.refs - 1 } }
      | none => s1
  else s

/-- one iteration of `removeAddrFromNew` that hits: `delete(bucket, k); v.refs--; if v.refs == 0 { nNew--; delete(addrIndex, k) }` -/
def removeNewOne (s : St) (b a : Nat) : St :=
  let s1 : St := { s with newB := s.newB.filter (fun e => e != (b, a)) }
  match find s1 a with
  | some ka =>
    if ka.refs - 1 = 0 then { s1 with nNew := s1.nNew - 1, index := delKA s1.index a }
    else { s1 with index := setKA s1.index a { ka with refs := ka.refs - 1 } }
  | none => s1

def removeNew (s : St) (a : Nat) : St := (s.newB.filter (fun e => e.2 == a)).foldl (fun s e => removeNewOne s e.1 a) s

/-- `BanAddress` -/
def ban (fixed : Bool) (c : Cfg) (s : St) (a : Nat) : St :=
  let s0 : St := { s with banned := (a, s.now + c.banT) :: s.banned.filter (fun e => e.1 != a) }
  removeNew (removeTried fixed s0 a) a

inductive Got where
  | nil | tried | new | hang
  deriving DecidableEq, Repr

/-- `GetAddress`: which search is entered (`coin` = `rand.Intn(2) == 0`) and whether it can end. -/
def getAddress (s : St) (coin : Bool) : Got :=
  if s.nTried + s.nNew = 0 then .nil
  else if 0 < s.nTried ∧ (s.nNew = 0 ∨ coin = true) then (if s.triedB.isEmpty then .hang else .tried)
  else (if s.newB.isEmpty then .hang else .new)

/-- THE switch between the code of today (`true`) and the code before commit 82e7a0f. -/
def banFixed : Bool := true

inductive Op where
  | add (a b : Nat) (dice : Bool)
  | good (a t : Nat)
  | ban (a : Nat)
  | clock (dt : Nat)
  deriving Repr

def step (c : Cfg) (s : St) : Op → St
  | .add a b d => add c s a b d
  | .good a t => good s a t
  | .ban a => ban banFixed c s a
  | .clock dt => { s with now := s.now + dt }

def run (c : Cfg) (s : St) (ops : List Op) : St := ops.foldl (step c) s

end BHS.Model.AddrMgr
