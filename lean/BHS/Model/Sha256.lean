/-
Executable SHA-256 (FIPS 180-4) over byte lists. Core Lean only.
That this function IS SHA-256 is tested (standard vectors in the driver and comparison with
crypto/sha256 on every header the correspondence check hashes), not proved; no theorem needs
more of it than "a function on bytes".
-/
namespace BHS.Sha256

def K : Array UInt32 := #[
  0x428a2f98, 0x71374491, 0xb5c0fbcf, 0xe9b5dba5, 0x3956c25b, 0x59f111f1, 0x923f82a4, 0xab1c5ed5,
  0xd807aa98, 0x12835b01, 0x243185be, 0x550c7dc3, 0x72be5d74, 0x80deb1fe, 0x9bdc06a7, 0xc19bf174,
  0xe49b69c1, 0xefbe4786, 0x0fc19dc6, 0x240ca1cc, 0x2de92c6f, 0x4a7484aa, 0x5cb0a9dc, 0x76f988da,
  0x983e5152, 0xa831c66d, 0xb00327c8, 0xbf597fc7, 0xc6e00bf3, 0xd5a79147, 0x06ca6351, 0x14292967,
  0x27b70a85, 0x2e1b2138, 0x4d2c6dfc, 0x53380d13, 0x650a7354, 0x766a0abb, 0x81c2c92e, 0x92722c85,
  0xa2bfe8a1, 0xa81a664b, 0xc24b8b70, 0xc76c51a3, 0xd192e819, 0xd6990624, 0xf40e3585, 0x106aa070,
  0x19a4c116, 0x1e376c08, 0x2748774c, 0x34b0bcb5, 0x391c0cb3, 0x4ed8aa4a, 0x5b9cca4f, 0x682e6ff3,
  0x748f82ee, 0x78a5636f, 0x84c87814, 0x8cc70208, 0x90befffa, 0xa4506ceb, 0xbef9a3f7, 0xc67178f2]

def H0 : Array UInt32 := #[0x6a09e667, 0xbb67ae85, 0x3c6ef372, 0xa54ff53a, 0x510e527f, 0x9b05688c, 0x1f83d9ab, 0x5be0cd19]

@[inline] def rotr (x : UInt32) (n : UInt32) : UInt32 := (x >>> n) ||| (x <<< (32 - n))

def be32 (a b c d : UInt8) : UInt32 :=
  (a.toUInt32 <<< 24) ||| (b.toUInt32 <<< 16) ||| (c.toUInt32 <<< 8) ||| d.toUInt32

def pad (msg : List UInt8) : List UInt8 :=
  let l := msg.length
  let zeros := (119 - (l % 64)) % 64   -- so that l + 1 + zeros + 8 ≡ 0 (mod 64)
  let bits := l * 8
  msg ++ [(0x80 : UInt8)] ++ List.replicate zeros (0 : UInt8) ++
    (List.range 8).map (fun i => UInt8.ofNat ((bits >>> (8 * (7 - i))) % 256))

def schedule (blk : Array UInt8) : Array UInt32 := Id.run do
  let mut w : Array UInt32 := Array.mkEmpty 64
  for i in [0:16] do
    w := w.push (be32 blk[4*i]! blk[4*i+1]! blk[4*i+2]! blk[4*i+3]!)
  for i in [16:64] do
    let x := w[i-15]!
    let y := w[i-2]!
    let s0 := rotr x 7 ^^^ rotr x 18 ^^^ (x >>> 3)
    let s1 := rotr y 17 ^^^ rotr y 19 ^^^ (y >>> 10)
    w := w.push (w[i-16]! + s0 + w[i-7]! + s1)
  return w

def compress (h : Array UInt32) (blk : Array UInt8) : Array UInt32 := Id.run do
  let w := schedule blk
  let mut a := h[0]!
  let mut b := h[1]!
  let mut c := h[2]!
  let mut d := h[3]!
  let mut e := h[4]!
  let mut f := h[5]!
  let mut g := h[6]!
  let mut hh := h[7]!
  for i in [0:64] do
    let s1 := rotr e 6 ^^^ rotr e 11 ^^^ rotr e 25
    let ch := (e &&& f) ^^^ ((~~~ e) &&& g)
    let t1 := hh + s1 + ch + K[i]! + w[i]!
    let s0 := rotr a 2 ^^^ rotr a 13 ^^^ rotr a 22
    let mj := (a &&& b) ^^^ (a &&& c) ^^^ (b &&& c)
    let t2 := s0 + mj
    hh := g; g := f; f := e; e := d + t1; d := c; c := b; b := a; a := t1 + t2
  return #[h[0]! + a, h[1]! + b, h[2]! + c, h[3]! + d, h[4]! + e, h[5]! + f, h[6]! + g, h[7]! + hh]

def sha256 (msg : List UInt8) : List UInt8 := Id.run do
  let p := (pad msg).toArray
  let mut h := H0
  for i in [0:p.size / 64] do
    h := compress h (p.extract (64*i) (64*i + 64))
  let mut out : List UInt8 := []
  for x in h.toList.reverse do
    out := (x >>> 24).toUInt8 :: (x >>> 16).toUInt8 :: (x >>> 8).toUInt8 :: x.toUInt8 :: out
  return out

def sha256d (msg : List UInt8) : List UInt8 := sha256 (sha256 msg)

def hexDigit (n : Nat) : Char := if n < 10 then Char.ofNat (48 + n) else Char.ofNat (87 + n)

def toHex (bs : List UInt8) : String :=
  String.ofList (bs.flatMap fun b => [hexDigit (b.toNat / 16), hexDigit (b.toNat % 16)])

def hexVal (c : Char) : Option Nat :=
  if '0' ≤ c ∧ c ≤ '9' then some (c.toNat - 48)
  else if 'a' ≤ c ∧ c ≤ 'f' then some (c.toNat - 87)
  else if 'A' ≤ c ∧ c ≤ 'F' then some (c.toNat - 55)
  else none

def ofHexList : List Char → Option (List UInt8)
  | [] => some []
  | [_] => none
  | a :: b :: rest => do
    let x ← hexVal a
    let y ← hexVal b
    let r ← ofHexList rest
    pure (UInt8.ofNat (16 * x + y) :: r)

def ofHex (s : String) : Option (List UInt8) := ofHexList s.toList

end BHS.Sha256
