/-
M-TxM: a small transactional store monad — the vocabulary the REGENERATED module BHS/Gen/RepoWrites.lean is written in.
harness/cmd/extract/gen_repowrites.go (on the translator core of gen_chainsvc.go) translates the WRITE path below the
chain service — database/repository/header_repository.go `AddHeaderToDatabase`, `UpdateState` and database/sql/headers.go
`(*HeadersDb).Create`, `(*HeadersDb).UpdateState` — statement by statement into `do` blocks of `TxM H`.
Hand-written, core Lean only. Everything here is TRUSTED as the meaning of one notion of database/sql / sqlx / pkg/errors.

The database
* `store` is the committed table (the model store of BHS/Model/Chain.lean); `committed` lists the committed transactions
  in order, each with the writes it made.
* `BeginTxx` opens THE transaction (one connection: a second `Begin` while one is open is the fault `deadlock`);
  `tx.ExecContext` / `tx.NamedExecContext` buffer a write in it; `tx.Commit` applies the buffered writes to the store in one
  step; `tx.Rollback` discards them. A transaction that is never committed leaves the store unchanged, whatever happens
  afterwards (`finalStore` looks at `store` only: an open transaction at the end of a run is dropped).
* database/sql: after `Commit` or `Rollback` the transaction is done — also when they fail; a later call on it returns
  sql.ErrTxDone without reaching the database.
* FAULTS: every call that reaches the database (begin, exec, commit, rollback of an open transaction) takes the next index of
  the run (`calls`) and FAILS when the fault schedule `sched : Nat → Bool` says so: it returns an error and has no effect on
  the store (a failed COMMIT commits nothing and ends the transaction; a failed ROLLBACK still ends it). The schedule is
  arbitrary, so the theorems quantify over every pattern of failing database calls.
* pkg/errors: `errors.Wrap(e, m)` / `Wrapf` is nil when `e` is nil — modelled exactly (`errorsWrap`).
* sqlx.In(sqlUpdateState, state, hashes) expands the `IN (?)` placeholder: an error for an empty list, otherwise the query with
  `hashes.length` placeholders and the flattened arguments `state, h₁, …, hₙ`. `execIn` runs such a query when the arguments fit
  it (one state, then exactly as many hashes as placeholders), else the database refuses the statement.
* `dto.ToDbBlockHeader` is the identity of the data refinement BlockHeader ≙ DbBlockHeader ≙ Row.
-/
import BHS.Model.Chain

namespace BHS.TxM
open BHS BHS.Chain

/-- what makes the Go process panic or hang -/
inductive Fault where
  | nilDeref          -- a method call on a nil *sqlx.Tx
  | indexOutOfRange
  | deadlock          -- Begin while this connection has a transaction open
  | outOfFuel         -- a `for cond` loop did not stop within the loop budget
deriving DecidableEq, Repr

inductive Err where
  | db (what : String)                       -- the database call failed (injected)
  | txDone                                   -- sql.ErrTxDone
  | emptyIn                                  -- sqlx.In: "empty slice passed to 'in' query"
  | badStatement                             -- the arguments do not fit the statement
  | wrap (cause : Err)                       -- pkg/errors.Wrap(f)(cause, text): the message text is not modelled
deriving DecidableEq, Repr

/-- pkg/errors.Wrap / Wrapf: wrapping nil is nil -/
def errorsWrap (e : Option Err) (_text : String) : Option Err := e.map Err.wrap

/-- a *sqlx.Tx -/
structure Tx where
  id : Nat
deriving DecidableEq, Repr

structure TxState (H : Type) where
  store : Store H
  /-- the committed transactions, in order -/
  committed : List (List (Write H)) := []
  /-- the open transaction: its id and the writes buffered so far -/
  open_ : Option (Nat × List (Write H)) := none
  nextId : Nat := 0
  /-- number of calls that reached the database so far = index of the next one in the schedule -/
  calls : Nat := 0
  sched : Nat → Bool
  /-- the iteration budget of a `for cond` loop (the translated code of /repo has none) -/
  fuel : Nat := 0

abbrev TxM (H : Type) := StateT (TxState H) (Except Fault)

variable {H : Type} [DecidableEq H]

/-- one call that reaches the database: takes the next index; `true` = the schedule makes it fail -/
def dbCall : TxM H Bool := fun st => .ok (st.sched st.calls, { st with calls := st.calls + 1 })

/-- `p.M(…)` on a pointer -/
def deref {α : Type} : Option α → TxM H α
  | some a => pure a
  | none => throw .nilDeref

/-- `xs[i]` -/
def index {α : Type} (xs : List α) (i : Nat) : TxM H α :=
  match xs[i]? with
  | some a => pure a
  | none => throw .indexOutOfRange

/-- `xs[i] = v` -/
def setIndex {α : Type} (xs : List α) (i : Nat) (v : α) : TxM H (List α) :=
  if i < xs.length then pure (xs.set i v) else throw .indexOutOfRange

/-- `xs[lo:hi]` -/
def sliceOf {α : Type} (xs : List α) (lo hi : Nat) : TxM H (List α) :=
  if lo ≤ hi ∧ hi ≤ xs.length then pure ((xs.take hi).drop lo) else throw .indexOutOfRange

/-- the budget of a `for cond {…}` loop -/
structure Fuel where
  n : Nat

def fuelLoop {β : Type} (body : Unit → β → TxM H (ForInStep β)) : Nat → β → TxM H β
  | 0, _ => throw .outOfFuel
  | n + 1, b => do
    match ← body () b with
    | .done b => pure b
    | .yield b => fuelLoop body n b

instance : ForIn (TxM H) Fuel Unit where
  forIn f b body := fuelLoop body f.n b

def loopFuel : TxM H Fuel := do return ⟨(← get).fuel⟩

/-- `h.db.BeginTxx(ctx, nil)` -/
def txBegin : TxM H (Option Tx × Option Err) := do
  let st ← get
  if st.open_.isSome then throw .deadlock
  if ← dbCall then return (none, some (.db "begin"))
  modify fun st => { st with open_ := some (st.nextId, []), nextId := st.nextId + 1 }
  return (some ⟨st.nextId⟩, none)

/-- is `tx` the open transaction? -/
def isOpen (st : TxState H) (tx : Tx) : Bool :=
  match st.open_ with
  | some (id, _) => id == tx.id
  | none => false

/-- one statement inside a transaction -/
def txWrite (txp : Option Tx) (w : Write H) : TxM H (Unit × Option Err) := do
  let tx ← deref txp
  if !isOpen (← get) tx then return ((), some .txDone)
  if ← dbCall then return ((), some (.db "exec"))
  modify fun st => { st with open_ := st.open_.map fun (id, ws) => (id, ws ++ [w]) }
  return ((), none)

/-- `tx.NamedExecContext(ctx, sqlInsertHeader, row)`: `INSERT … ON CONFLICT DO NOTHING` (`Write.insert`) -/
def txNamedExec_sqlInsertHeader (txp : Option Tx) (r : Row H) : TxM H (Unit × Option Err) := txWrite txp (.insert r)

/-- a query produced by sqlx.In: the statement it expands and the number of placeholders of its IN list -/
structure InQuery where
  name : String
  n : Nat
deriving DecidableEq, Repr

inductive SqlArg (H : Type) where
  | state (s : St)
  | hash (h : H)
deriving DecidableEq, Repr

/-- `sqlx.In(sqlUpdateState, state, hashes)` -/
def sqlxIn_sqlUpdateState (state : St) (hashes : List H) : InQuery × List (SqlArg H) × Option Err :=
  if hashes.isEmpty then (⟨"", 0⟩, [], some .emptyIn)
  else (⟨"sqlUpdateState", hashes.length⟩, .state state :: hashes.map .hash, none)

/-- the hashes of an argument list that consists of hashes only -/
def hashArgs : List (SqlArg H) → Option (List H)
  | [] => some []
  | .hash h :: l => (hashArgs l).map (h :: ·)
  | .state _ :: _ => none

/-- `tx.ExecContext(ctx, h.db.Rebind(query), args...)` for a query built by sqlx.In (Rebind only rewrites placeholders):
    `UPDATE headers SET header_state = ? WHERE hash IN (?, …, ?)` (`Write.setState`) -/
def txExec (txp : Option Tx) (q : InQuery) (args : List (SqlArg H)) : TxM H (Unit × Option Err) :=
  match args with
  | .state s :: rest =>
    match hashArgs rest with
    | some hs => if q.name == "sqlUpdateState" && q.n == hs.length && q.n > 0 then txWrite txp (.setState hs s)
                 else do let _ ← deref txp; return ((), some .badStatement)
    | none => do let _ ← deref txp; return ((), some .badStatement)
  | _ => do let _ ← deref txp; return ((), some .badStatement)

/-- `tx.Commit()` -/
def txCommit (txp : Option Tx) : TxM H (Option Err) := do
  let tx ← deref txp
  let st ← get
  if !isOpen st tx then return some .txDone
  let failed ← dbCall
  match st.open_ with
  | some (_, ws) =>
    if failed then
      modify fun st => { st with open_ := none }
      return some (.db "commit")
    modify fun st => { st with store := applyWrites st.store ws, committed := st.committed ++ [ws], open_ := none }
    return none
  | none => return some .txDone

/-- `tx.Rollback()` -/
def txRollback (txp : Option Tx) : TxM H (Option Err) := do
  let tx ← deref txp
  if !isOpen (← get) tx then return some .txDone
  let failed ← dbCall
  modify fun st => { st with open_ := none }
  return (if failed then some (.db "rollback") else none)

/-- `defer cleanup` followed by the rest of the function: the cleanup runs when the rest returns -/
def deferred {α : Type} (cleanup : TxM H Unit) (body : TxM H α) : TxM H α := do
  let a ← body
  cleanup
  return a

/-- dto.ToDbBlockHeader -/
def toDbBlockHeader (r : Row H) : Row H := r

/-! ### running a write -/

/-- the state a run starts in: committed store `s`, `c` database calls made before, fault schedule `sched` -/
def start (s : Store H) (c : Nat) (sched : Nat → Bool) : TxState H := { store := s, calls := c, sched := sched }

/-- everything observable of one run: the error returned, the committed store afterwards (an open transaction is dropped),
    the transactions committed, the number of database calls made; or the panic -/
def observe (s : Store H) (c : Nat) (sched : Nat → Bool) (m : TxM H (Option Err)) :
    Except Fault (Option Err × Store H × List (List (Write H)) × Nat) :=
  match m.run (start s c sched) with
  | .ok (e, st) => .ok (e, st.store, st.committed, st.calls)
  | .error f => .error f

end BHS.TxM
