/-
80-byte header serialisation and block hash (service/block_hash.go, internal/wire/blockheader.go),
instantiating the chain model's hash type with the display (byte-reversed hex) string.
Core Lean only.
-/
import BHS.Model.Sha256
import BHS.Model.Chain

namespace BHS.Header
open BHS.Sha256 BHS.Chain

/-- little-endian 32-bit -/
def le32 (n : Nat) : List UInt8 :=
  [UInt8.ofNat (n % 256), UInt8.ofNat (n / 256 % 256), UInt8.ofNat (n / 65536 % 256), UInt8.ofNat (n / 16777216 % 256)]

def getLe32 (b : List UInt8) : Nat :=
  match b with
  | [a, b, c, d] => a.toNat + 256 * b.toNat + 65536 * c.toNat + 16777216 * d.toNat
  | _ => 0

/-- int32 as its two's-complement 32-bit pattern -/
def int32Bits (v : Int) : Nat := (v % 4294967296).toNat

def bitsToInt32 (n : Nat) : Int := if n < 2147483648 then (n : Int) else (n : Int) - 4294967296

/-- a hash in display form (hex of the reversed bytes) back to its 32 wire bytes -/
def hashBytes (h : String) : List UInt8 :=
  match ofHex h with
  | some b => b.reverse
  | none => []

def displayHash (b : List UInt8) : String := toHex b.reverse

/-- WriteBlockHeader: version ‖ prev ‖ merkle ‖ time ‖ bits ‖ nonce, integers little-endian -/
def serialize (x : Src String) : List UInt8 :=
  le32 (int32Bits x.version) ++ hashBytes x.prev ++ hashBytes x.merkle ++ le32 x.time ++ le32 x.bits ++ le32 x.nonce

/-- BlockHash = DoubleHashH(serialisation), displayed byte-reversed -/
def blockHash (x : Src String) : String := displayHash (sha256d (serialize x))

/-- parse the 80 bytes of a header -/
def parse (b : List UInt8) : Option (Src String) :=
  if b.length ≠ 80 then none else
  some { version := bitsToInt32 (getLe32 (b.take 4)),
         prev := displayHash ((b.drop 4).take 32),
         merkle := displayHash ((b.drop 36).take 32),
         time := getLe32 ((b.drop 68).take 4),
         bits := getLe32 ((b.drop 72).take 4),
         nonce := getLe32 ((b.drop 76).take 4) }

def zeroHash : String := String.ofList (List.replicate 64 '0')

/-- mainnet genesis row as written by database/genesis.go -/
def genesisSrc : Src String :=
  { version := 1, prev := zeroHash,
    merkle := "4a5e1e4baab89f3a32518a88c31bc87f618f76673e2cc77ab2127b7afdeda33b",
    time := 1231006505, bits := 486604799, nonce := 2083236893 }

def genesisRow : Row String :=
  { id := 0, hash := blockHash genesisSrc, prev := zeroHash, merkle := genesisSrc.merkle, height := 0, version := 1,
    time := genesisSrc.time, bits := genesisSrc.bits, nonce := genesisSrc.nonce,
    work := work genesisSrc.bits, cum := work genesisSrc.bits, st := .lc }

end BHS.Header
