/-
M-Sync: the default sync engine as a state machine, transcribed from
  /repo/transports/p2p/p2psync/manager.go  (New, findNextHeaderCheckpoint, startSync, handleNewPeerMsg, handleDonePeerMsg,
      updateSyncPeer, handleCheckSyncPeer, current, handleHeadersMsg, verifyCheckpointHeight, requestForNextHeaderBatch,
      handleInvMsg)
  /repo/transports/p2p/peer/peer.go        (PushGetHeadersMsg with its back-to-back duplicate filter, QueueMessage dropping
      messages for a disconnected peer, Disconnect being idempotent)
  /repo/service/header_service.go          (IsCurrent; LatestHeaderLocator is `Chain.locator`)
The header store is the chain model (`Chain.add`). Nondeterminism is input: `pick` is the random index startSync draws,
"more than three minutes / three speed violations have passed" is the `stale` argument of the tick event, the wall clock
is `Cfg.now`. Core Lean only.
-/
import BHS.Model.Query

namespace BHS.Sync
open BHS.Chain

/-- F4a switch — CODE AS IT IS NOW (/repo 8573612 "fix: sync with disabled checkpoints accepts the headers it asked for"):
    `New` sets `headersFirstMode = true` also when checkpoints are disabled. Before the repair it stayed false, every
    headers message was "unrequested" and its sender was disconnected (former finding C06-F4a, now a `fixed` entry whose
    witness runs first on every check). `false` = the code before the repair. -/
def f4aFixed : Bool := true

/-- F4b switch — CODE AS IT IS NOW (/repo f49151a "fix: a getheaders request is no duplicate once its answer has arrived"):
    peer.go inHandler, `case *wire.MsgHeaders:` clears prevGetHdrsBegin / prevGetHdrsStop before the listener runs.
    Before the repair the filter was never cleared, so after a completed sync (last request getheaders(locator(tip), 0),
    answered empty) an inv of a new block produced nothing (former finding C06-F4b). `false` = the code before the repair. -/
def f4bFixed : Bool := true

/-- F4d switch — CODE AS IT IS NOW (/repo 0b0b1e1 "fix: the sync peer watchdog keeps a peer we are already ahead of"):
    handleCheckSyncPeer keeps the sync peer when `topBlock() <= best.Height`. Before the repair the test was `==`, and the
    stale tick disconnected an up-to-date sync peer once the service was ahead of what that peer had advertised (former
    finding C06-F4d). `false` = the code before the repair. -/
def f4dFixed : Bool := true

/-- what the manager and the peer object know about one peer -/
structure PeerSt (H : Type) where
  id : Nat
  inMap : Bool            -- present in sm.peerStates
  candidate : Bool        -- SyncState.SyncCandidate
  lastBlock : Int         -- peer.LastBlock()
  startHeight : Int       -- peer.StartingHeight()
  prevBegin : Option H    -- prevGetHdrsBegin
  prevStop : Option H     -- prevGetHdrsStop
  disc : Bool             -- Disconnect() has been called on the peer object
deriving Repr

structure Cfg (H : Type) where
  chain : Chain.Cfg H
  zero : H                          -- the all-zero hash
  checkpoints : List (Nat × H)      -- config.Checkpoints (height, hash)
  disableCp : Bool                  -- p2p.disable_checkpoints
  now : Nat                         -- adjusted time, seconds

structure State (H : Type) where
  peers : List (PeerSt H)           -- every peer object ever announced to the manager
  syncPeer : Option Nat
  headersFirst : Bool
  nextCp : Option (Nat × H)
  store : Store H

inductive Action (H : Type) where
  | getheaders (p : Nat) (loc : List H) (stop : H)
  | disconnect (p : Nat)
  | ban (p : Nat)
  | panic                            -- nil dereference / index out of range in the handler goroutine
deriving Repr, DecidableEq

inductive Event (H : Type) where
  | newPeer (p : Nat) (candidate : Bool) (lastBlock : Int)
  | headers (p : Nat) (hs : List (Src H))
  | inv (p : Nat) (invs : List (Bool × H))     -- (is a block inventory, hash)
  | donePeer (p : Nat)
  | tick (stale : Bool)

variable {H : Type} [DecidableEq H]

def lookup (ps : List (PeerSt H)) (p : Nat) : Option (PeerSt H) := ps.find? (fun q => q.id == p)

def update (ps : List (PeerSt H)) (q : PeerSt H) : List (PeerSt H) := ps.map (fun r => if r.id == q.id then q else r)

def insert (ps : List (PeerSt H)) (q : PeerSt H) : List (PeerSt H) :=
  if (lookup ps q.id).isSome then update ps q else ps ++ [q]

/-- Headers.GetTipHeight: 0 when there is no tip -/
def tipHeight (s : Store H) : Nat :=
  match getTip s with
  | some t => t.height
  | none => 0

/-- the backward loop of findNextHeaderCheckpoint over checkpoints[len-2 .. 0] -/
def findNextGo (height : Nat) : List (Nat × H) → (Nat × H) → (Nat × H)
  | [], next => next
  | c :: rest, next => if height ≥ c.1 then next else findNextGo height rest c

/-- findNextHeaderCheckpoint -/
def findNext (cps : List (Nat × H)) (height : Nat) : Option (Nat × H) :=
  match cps.getLast? with
  | none => none
  | some fin => if height ≥ fin.1 then none else some (findNextGo height cps.dropLast.reverse fin)

/-- Peer.PushGetHeadersMsg: back-to-back duplicates are dropped; otherwise the request is queued (QueueMessage drops it
    when the peer is disconnected) and remembered -/
def pushGetHeaders (q : PeerSt H) (loc : List H) (stop : H) : PeerSt H × List (Action H) :=
  if q.prevStop.isSome && q.prevBegin.isSome && loc.head?.isSome && decide (q.prevStop = some stop) &&
      decide (q.prevBegin = loc.head?) then (q, [])
  else ({ q with prevBegin := loc.head?, prevStop := some stop }, if q.disc then [] else [.getheaders q.id loc stop])

/-- push to the peer with this id (manager-side helper: sendGetHeadersWithPassedParams) -/
def pushTo (st : State H) (p : Nat) (loc : List H) (stop : H) : State H × List (Action H) :=
  match lookup st.peers p with
  | none => (st, [])
  | some q => ({ st with peers := update st.peers (pushGetHeaders q loc stop).1 }, (pushGetHeaders q loc stop).2)

/-- Peer.Disconnect: closes once -/
def disconnectPeer (ps : List (PeerSt H)) (p : Nat) : List (PeerSt H) × List (Action H) :=
  match lookup ps p with
  | none => (ps, [])
  | some q => if q.disc then (ps, []) else (update ps { q with disc := true }, [.disconnect p])

/-- the candidates startSync draws from: peers above our height, else peers at our height -/
def bestPeers (st : State H) : List (PeerSt H) :=
  st.peers.filter (fun q => q.inMap && q.candidate && decide (q.lastBlock > (tipHeight st.store : Int)))

def okPeers (st : State H) : List (PeerSt H) :=
  st.peers.filter (fun q => q.inMap && q.candidate && decide (q.lastBlock = (tipHeight st.store : Int)))

def syncCandidates (st : State H) : List (PeerSt H) :=
  if (bestPeers st).isEmpty then okPeers st else bestPeers st

/-- startSync; `pick` is the random number -/
def startSync (cfg : Cfg H) (st : State H) (pick : Nat) : State H × List (Action H) :=
  if st.syncPeer.isSome then (st, [])
  else
    let best := tipHeight st.store
    let cands := syncCandidates st
    -- candidates that fell behind our height stop being candidates
    let peers' := st.peers.map (fun q =>
      if q.inMap && q.candidate && decide (q.lastBlock < (best : Int)) then { q with candidate := false } else q)
    match cands[pick % cands.length]? with
    | none => ({ st with peers := peers' }, [])
    | some bp =>
      let loc := locator st.store
      let useCp : Option (Nat × H) := match st.nextCp with
        | some c => if best < c.1 then some c else none
        | none => none
      match useCp with
      | some c =>
        ({ st with peers := update peers' (pushGetHeaders bp loc c.2).1, syncPeer := some bp.id, headersFirst := true },
          (pushGetHeaders bp loc c.2).2)
      | none =>
        ({ st with peers := update peers' (pushGetHeaders bp loc cfg.zero).1, syncPeer := some bp.id },
          (pushGetHeaders bp loc cfg.zero).2)

/-- handleNewPeerMsg -/
def newPeer (cfg : Cfg H) (st : State H) (p : Nat) (cand : Bool) (lastBlock : Int) (pick : Nat) : State H × List (Action H) :=
  let q : PeerSt H := { id := p, inMap := true, candidate := cand, lastBlock := lastBlock, startHeight := lastBlock,
                        prevBegin := none, prevStop := none, disc := false }
  let st' := { st with peers := insert st.peers q }
  if cand && st'.syncPeer.isNone then startSync cfg st' pick else (st', [])

/-- updateSyncPeer -/
def updateSyncPeer (cfg : Cfg H) (st : State H) (pick : Nat) : State H × List (Action H) :=
  match st.syncPeer with
  | none => (st, [])
  | some sp =>
    let d := disconnectPeer st.peers sp
    let r := startSync cfg { st with peers := d.1, syncPeer := none } pick
    (r.1, d.2 ++ r.2)

/-- handleDonePeerMsg (the peer object is disconnected by the time its done message is sent) -/
def donePeer (cfg : Cfg H) (st : State H) (p : Nat) (pick : Nat) : State H × List (Action H) :=
  match lookup st.peers p with
  | none => (st, [])
  | some q =>
    if !q.inMap then (st, [])
    else
      let st' := { st with peers := update st.peers { q with inMap := false, disc := true } }
      if st'.syncPeer = some p then updateSyncPeer cfg st' pick else (st', [])

inductive LoopEnd where
  | completed | rejected | mismatch
deriving DecidableEq, Repr

/-- the loop of handleHeadersMsg: (store, receivedCheckpoint, finalHash, how it ended) -/
def headersLoop (ccfg : Chain.Cfg H) (nextCp : Option (Nat × H)) :
    Store H → List (Src H) → Bool → Option H → Store H × Bool × Option H × LoopEnd
  | s, [], rc, fh => (s, rc, fh, .completed)
  | s, x :: xs, rc, fh =>
    match (add ccfg s x).2 with
    | .duplicate => headersLoop ccfg nextCp (add ccfg s x).1 xs rc fh
    | .creationFail => headersLoop ccfg nextCp (add ccfg s x).1 xs rc fh
    | .rejected => ((add ccfg s x).1, rc, fh, .rejected)
    | .stored r =>
      let fh' := if r.st = .lc then some r.hash else fh
      match nextCp with
      | some c =>
        if r.height = c.1 then
          (if r.hash = c.2 then headersLoop ccfg nextCp (add ccfg s x).1 xs true fh'
           else ((add ccfg s x).1, rc, fh, .mismatch))      -- verifyCheckpointHeight: disconnect, the handler returns
        else headersLoop ccfg nextCp (add ccfg s x).1 xs rc fh'
      | none => headersLoop ccfg nextCp (add ccfg s x).1 xs rc fh'

/-- the peer object after its inHandler has read a headers message: the duplicate filter is cleared (f49151a) -/
def headersSeen (q : PeerSt H) : PeerSt H :=
  if f4bFixed then { q with prevBegin := none, prevStop := none } else q

def onHeadersReceived (ps : List (PeerSt H)) (p : Nat) : List (PeerSt H) :=
  ps.map (fun q => if q.id == p then headersSeen q else q)

/-- handleHeadersMsg -/
def handleHeadersCore (cfg : Cfg H) (st : State H) (p : Nat) (hs : List (Src H)) : State H × List (Action H) :=
  match lookup st.peers p with
  | none => (st, [])
  | some q =>
    if !q.inMap then (st, [])
    else if !st.headersFirst then
      ({ st with peers := (disconnectPeer st.peers p).1 }, (disconnectPeer st.peers p).2)
    else if hs.isEmpty then (st, [])
    else
      let l := headersLoop cfg.chain st.nextCp st.store hs false none
      let st1 := { st with store := l.1 }
      match l.2.2.2 with
      | .rejected =>
        ({ st1 with peers := (disconnectPeer st1.peers p).1 }, .ban p :: (disconnectPeer st1.peers p).2)
      | .mismatch =>
        ({ st1 with peers := (disconnectPeer st1.peers p).1 }, (disconnectPeer st1.peers p).2)
      | .completed =>
        match l.2.2.1 with
        | none => (st1, [])                -- only existing or non-longest-chain headers: nothing more is requested
        | some _ =>
          if l.2.1 then
            match st1.nextCp with
            | none => (st1, [.panic])      -- receivedCheckpoint implies a next checkpoint
            | some prev =>
              match findNext cfg.checkpoints prev.1 with
              | some c => pushTo { st1 with nextCp := some c } p [prev.2] c.2
              | none => pushTo { st1 with nextCp := none } p (locator st1.store) cfg.zero
          else
            match st1.nextCp with
            | none => pushTo st1 p (locator st1.store) cfg.zero
            | some c => pushTo st1 p (locator st1.store) c.2

/-- a headers message from peer p: peer.go's inHandler first, then the manager's handleHeadersMsg -/
def handleHeaders (cfg : Cfg H) (st : State H) (p : Nat) (hs : List (Src H)) : State H × List (Action H) :=
  handleHeadersCore cfg { st with peers := onHeadersReceived st.peers p } p hs

/-- HeaderService.IsCurrent; `none` = index out of range on an empty checkpoint list -/
def isCurrentHS (cfg : Cfg H) (s : Store H) : Option Bool :=
  match cfg.checkpoints.getLast? with
  | none => none
  | some cp =>
    match getTip s with
    | none => some true
    | some tip => if tip.height < cp.1 then some false else some (decide (cfg.now ≤ tip.time + 86400))

/-- SyncManager.current; `none` = panic -/
def current (cfg : Cfg H) (st : State H) : Option Bool :=
  match isCurrentHS cfg st.store with
  | none => none
  | some false => some false
  | some true =>
    match st.syncPeer with
    | none => some true
    | some sp =>
      match lookup st.peers sp with
      | none => none
      | some q => some (decide ((tipHeight st.store : Int) ≥ q.lastBlock))

/-- searchForFinalBlock -/
def lastBlockInv (invs : List (Bool × H)) : Option H := (invs.reverse.find? (·.1)).map (·.2)

/-- handleInvMsg -/
def handleInv (cfg : Cfg H) (st : State H) (p : Nat) (invs : List (Bool × H)) : State H × List (Action H) :=
  if invs.isEmpty then (st, [.panic])      -- InvList[0] in the log line; serverpeer.go forwards non-empty messages only
  else
    match lookup st.peers p with
    | none => (st, [])
    | some q =>
      if !q.inMap then (st, [])
      else
        let last := lastBlockInv invs
        let isSync := decide (st.syncPeer = some p)
        -- current() is evaluated when the peer is not the sync peer or when a block is announced
        if !isSync || last.isSome then
          match current cfg st with
          | none => (st, [.panic])
          | some cur =>
            if !isSync && !cur then (st, [])
            else
              match last with
              | none => (st, [])
              | some h =>
                if cur then
                  match byHash st.store h with
                  | some r => ({ st with peers := update st.peers { q with lastBlock := r.height } }, [])
                  | none => pushTo st p (locator st.store) cfg.zero
                else pushTo st p (locator st.store) cfg.zero
        else (st, [])

/-- "Don't update sync peers if you have all the available blocks": topBlock() against the tip height -/
def exhausted (q : PeerSt H) (bestHeight : Nat) : Bool :=
  if f4dFixed then decide (max q.lastBlock q.startHeight ≤ (bestHeight : Int))
  else decide (max q.lastBlock q.startHeight = (bestHeight : Int))

/-- handleCheckSyncPeer; `stale` = three speed violations or more than maxLastBlockTime since lastBlockTime -/
def tick (cfg : Cfg H) (st : State H) (stale : Bool) (pick : Nat) : State H × List (Action H) :=
  match st.syncPeer with
  | none => (st, [])
  | some sp =>
    if !stale then (st, [])
    else
      match getTip st.store, lookup st.peers sp with
      | some best, some q =>
        if exhausted q best.height then (st, [])
        else if !q.inMap then (st, [])
        else updateSyncPeer cfg st pick
      | _, _ => (st, [.panic])

/-- New -/
def new (cfg : Cfg H) (store : Store H) : State H :=
  if !cfg.disableCp then
    { peers := [], syncPeer := none, headersFirst := (findNext cfg.checkpoints (tipHeight store)).isNone,
      nextCp := findNext cfg.checkpoints (tipHeight store), store := store }
  else
    { peers := [], syncPeer := none, headersFirst := f4aFixed, nextCp := none, store := store }

def step (cfg : Cfg H) (st : State H) (pick : Nat) : Event H → State H × List (Action H)
  | .newPeer p c lb => newPeer cfg st p c lb pick
  | .headers p hs => handleHeaders cfg st p hs
  | .inv p invs => handleInv cfg st p invs
  | .donePeer p => donePeer cfg st p pick
  | .tick stale => tick cfg st stale pick

end BHS.Sync
