/-
Executable SHA-256 (FIPS 180-4) over `List UInt8`, used by the wire model (C14)
for the frame checksum (first 4 bytes of SHA-256(SHA-256(payload))).

Core Lean only. That this function IS SHA-256 is *tested* (the driver op `wsha`
is compared with crypto/sha256 on standard vectors and on every frame the C14
runner builds), not proved; the frame theorems of C14 are parametric in the hash
function and need only `(H x).length = 32`, which is proved here for this one.
-/
namespace BHS.WireSha

abbrev Bytes := List UInt8

def K : Array UInt32 := #[
  0x428a2f98, 0x71374491, 0xb5c0fbcf, 0xe9b5dba5, 0x3956c25b, 0x59f111f1, 0x923f82a4, 0xab1c5ed5,
  0xd807aa98, 0x12835b01, 0x243185be, 0x550c7dc3, 0x72be5d74, 0x80deb1fe, 0x9bdc06a7, 0xc19bf174,
  0xe49b69c1, 0xefbe4786, 0x0fc19dc6, 0x240ca1cc, 0x2de92c6f, 0x4a7484aa, 0x5cb0a9dc, 0x76f988da,
  0x983e5152, 0xa831c66d, 0xb00327c8, 0xbf597fc7, 0xc6e00bf3, 0xd5a79147, 0x06ca6351, 0x14292967,
  0x27b70a85, 0x2e1b2138, 0x4d2c6dfc, 0x53380d13, 0x650a7354, 0x766a0abb, 0x81c2c92e, 0x92722c85,
  0xa2bfe8a1, 0xa81a664b, 0xc24b8b70, 0xc76c51a3, 0xd192e819, 0xd6990624, 0xf40e3585, 0x106aa070,
  0x19a4c116, 0x1e376c08, 0x2748774c, 0x34b0bcb5, 0x391c0cb3, 0x4ed8aa4a, 0x5b9cca4f, 0x682e6ff3,
  0x748f82ee, 0x78a5636f, 0x84c87814, 0x8cc70208, 0x90befffa, 0xa4506ceb, 0xbef9a3f7, 0xc67178f2]

@[inline] def rotr (x : UInt32) (n : UInt32) : UInt32 := (x >>> n) ||| (x <<< (32 - n))

structure H8 where
  a : UInt32
  b : UInt32
  c : UInt32
  d : UInt32
  e : UInt32
  f : UInt32
  g : UInt32
  h : UInt32

def init : H8 :=
  ⟨0x6a09e667, 0xbb67ae85, 0x3c6ef372, 0xa54ff53a, 0x510e527f, 0x9b05688c, 0x1f83d9ab, 0x5be0cd19⟩

def be32 (a b c d : UInt8) : UInt32 :=
  (a.toUInt32 <<< 24) ||| (b.toUInt32 <<< 16) ||| (c.toUInt32 <<< 8) ||| d.toUInt32

/-- the first `n` big-endian words of a byte list (missing bytes read as zero; never happens on padded input) -/
def words : Nat → Bytes → Array UInt32 → Array UInt32
  | 0, _, acc => acc
  | n + 1, a :: b :: c :: d :: r, acc => words n r (acc.push (be32 a b c d))
  | _ + 1, _, acc => acc

def extend : Nat → Nat → Array UInt32 → Array UInt32
  | 0, _, w => w
  | n + 1, i, w =>
    let w15 := w.getD (i - 15) 0
    let w2 := w.getD (i - 2) 0
    let s0 := rotr w15 7 ^^^ rotr w15 18 ^^^ (w15 >>> 3)
    let s1 := rotr w2 17 ^^^ rotr w2 19 ^^^ (w2 >>> 10)
    extend n (i + 1) (w.push (w.getD (i - 16) 0 + s0 + w.getD (i - 7) 0 + s1))

def rounds : Nat → Nat → Array UInt32 → H8 → H8
  | 0, _, _, s => s
  | n + 1, i, w, s =>
    let s1 := rotr s.e 6 ^^^ rotr s.e 11 ^^^ rotr s.e 25
    let ch := (s.e &&& s.f) ^^^ ((~~~ s.e) &&& s.g)
    let t1 := s.h + s1 + ch + K.getD i 0 + w.getD i 0
    let s0 := rotr s.a 2 ^^^ rotr s.a 13 ^^^ rotr s.a 22
    let mj := (s.a &&& s.b) ^^^ (s.a &&& s.c) ^^^ (s.b &&& s.c)
    let t2 := s0 + mj
    rounds n (i + 1) w ⟨t1 + t2, s.a, s.b, s.c, s.d + t1, s.e, s.f, s.g⟩

def block (s : H8) (bs : Bytes) : H8 :=
  let w := extend 48 16 (words 16 bs (Array.mkEmpty 64))
  let t := rounds 64 0 w s
  ⟨s.a + t.a, s.b + t.b, s.c + t.c, s.d + t.d, s.e + t.e, s.f + t.f, s.g + t.g, s.h + t.h⟩

def blocks : Nat → H8 → Bytes → H8
  | 0, s, _ => s
  | n + 1, s, bs => blocks n (block s bs) (bs.drop 64)

def put32be (x : UInt32) : Bytes :=
  [(x >>> 24).toUInt8, (x >>> 16).toUInt8, (x >>> 8).toUInt8, x.toUInt8]

def put64beNat (n : Nat) : Bytes :=
  [UInt8.ofNat (n / 2^56), UInt8.ofNat (n / 2^48), UInt8.ofNat (n / 2^40), UInt8.ofNat (n / 2^32),
   UInt8.ofNat (n / 2^24), UInt8.ofNat (n / 2^16), UInt8.ofNat (n / 2^8), UInt8.ofNat n]

def pad (msg : Bytes) : Bytes :=
  let l := msg.length
  let k := (119 - l % 64) % 64   -- zero bytes so that l + 1 + k + 8 ≡ 0 (mod 64)
  msg ++ (0x80 :: List.replicate k 0) ++ put64beNat (8 * l)

def out (s : H8) : Bytes :=
  put32be s.a ++ put32be s.b ++ put32be s.c ++ put32be s.d ++
  put32be s.e ++ put32be s.f ++ put32be s.g ++ put32be s.h

def sha256 (msg : Bytes) : Bytes :=
  let p := pad msg
  out (blocks (p.length / 64) init p)

theorem sha256_length (msg : Bytes) : (sha256 msg).length = 32 := by
  simp [sha256, out, put32be]

end BHS.WireSha
