/-
Primitives of the REGENERATED connection manager (`BHS.Gen.ConnMgr`, produced by
harness/cmd/extract/gen_connmgr.go from /repo/transports/p2p/connmgr/connmanager.go).
Hand-written, core Lean only. The translated Go statements are rendered with the names below;
what each one stands for in Go is the translator's PRIMITIVE TABLE (header of gen_connmgr.go).

The state `G` of the generated code is the hand model's `St` (same fields, same meaning: `G extends St`)
plus what the Go code reads and writes but the counter machine `BHS.Model.ConnMgr` left out:

* `stop`     `cm.stop` (the int32 `Stop` increments). No generated function writes it.
* `rstate`   the field `state` of every `*ConnReq`, keyed by request id (`updateState` / `State()`);
             the hand model instead reads "cancelled" off the `pending` map.
* `retryCnt` the field `retryCount` of every `*ConnReq`, keyed by request id.
* `perm`     the field `Permanent`, keyed by request id. The hand model has no permanent requests.
* `acts`     timers started with `time.AfterFunc` (delay in ns, what fires), in call order. The hand model
             does not model delays: a delayed `NewConnReq` is ALSO executed at once, as `spawn` does.
* `panicked` a nil `net.Addr` was dereferenced (`c.Addr.String()` with `c.Addr == nil`): Go panics.

A `*ConnReq` VALUE in the generated code is `Req`: its id and its `Addr` (`none` = nil). These two fields are
written only before the request is handed to the handler; the fields shared through the pointer afterwards
(`state`, `retryCount`, `Permanent`) live in the maps above.
-/
import BHS.Model.ConnMgr

namespace BHS.Model.ConnMgr

structure Req where
  id : Nat := 0
  addr : Option Nat := none
  deriving Repr, DecidableEq

/-- what a timer started by `time.AfterFunc` calls -/
inductive Fn where
  | newConnReq            -- `func() { cm.NewConnReq() }`
  | connect (id : Nat)    -- `func() { cm.Connect(c) }`
  deriving Repr, DecidableEq

inductive Act where
  | after (d : Int) (f : Fn)   -- `time.AfterFunc(d, f)`, `d` in nanoseconds
  deriving Repr, DecidableEq

/-- `cm.cfg`: the hand model's `Cfg` plus the fields it fixes. -/
structure GCfg extends Cfg where
  retryDuration : Int := 5000000000   -- cfg.RetryDuration (ns)
  getNewAddress : Bool := true        -- cfg.GetNewAddress != nil
  onDisconnection : Bool := true      -- cfg.OnDisconnection != nil

structure G extends St where
  stop : Nat := 0
  rstate : Nat → Nat := fun _ => 0
  retryCnt : Nat → Nat := fun _ => 0
  perm : Nat → Bool := fun _ => false
  acts : List Act := []
  panicked : Bool := false

def updB (f : Nat → Bool) (k : Nat) (v : Bool) : Nat → Bool := fun x => if x = k then v else f x

/-- `conns[id] = c` (the hand model keeps (id, address), oldest first, one entry per id). A request without
address has no rendering in the hand model's `conns`; the old entry is dropped. `genStep` never gets there:
`handleConnected` is only sent after `Dial(c.Addr)` with the address `GetNewAddress` returned. -/
def putConn (l : List (Nat × Nat)) (id : Nat) : Option Nat → List (Nat × Nat)
  | some a => l.filter (fun x => x.1 != id) ++ [(id, a)]
  | none => l.filter (fun x => x.1 != id)

/-- `delete(conns, id)` -/
def delConn (l : List (Nat × Nat)) (id : Nat) : List (Nat × Nat) := l.filter (fun x => x.1 != id)

/-- `c, ok := conns[id]`: the address of the entry, `none` = `!ok` -/
def lookupConn (l : List (Nat × Nat)) (id : Nat) : Option Nat := (l.find? (fun c => c.1 == id)).map (·.2)

/-- `int64` wrap-around of a `time.Duration` product -/
def wrapI64 (x : Int) : Int := (x + 9223372036854775808) % 18446744073709551616 - 9223372036854775808

/-- `a * b` on `time.Duration` -/
def durMul (a b : Int) : Int := wrapI64 (a * b)

/-- `&ConnReq{}` whose id has just been stored: a NEW object, all its shared fields are zero. -/
def newObj (g : G) (id : Nat) : G :=
  { g with rstate := upd g.rstate id 0, retryCnt := upd g.retryCnt id 0, perm := updB g.perm id false }

/-- `Connect(c)` of a request the CALLER built (`c.id == 0`) that now gets its id: the shared fields it had
(kept under key 0, the one such object considered) are now found under the new id. Outside the hand model. -/
def adoptObj (g : G) (id : Nat) : G :=
  { g with rstate := upd g.rstate id (g.rstate 0), retryCnt := upd g.retryCnt id (g.retryCnt 0),
           perm := updB g.perm id (g.perm 0) }

/-- the goroutine of request `id` is about to call `cfg.GetNewAddress()` (and then `cfg.Dial`): it will
deliver exactly one of `handleConnected` / `handleFailed` later — the hand model's `live`. -/
def park (g : G) (id : Nat) : G := { g with live := g.live ++ [id] }

/-- `c.Addr.String()` with `c.Addr == nil` -/
def nilDeref (g : G) : G := { g with panicked := true }

end BHS.Model.ConnMgr
