/-
M-MerkleRootsCore: the Go notions shared by the regenerated read paths below the HTTP layer (BHS/Gen/MerkleRoots.lean,
BHS/Gen/Confirmations.lean; translator harness/cmd/extract/gen_merkleroots.go): faults, `error` values, pointers,
slices, range loops. Hand-written, core Lean only, TRUSTED as the meaning of these notions. The conventions (how Go
types map to Lean) are described in BHS/Model/MerkleRootsPrim.lean; namespace `BHS.MerkleRootsPrim` is shared.
-/
import BHS.Model.Query

namespace BHS.MerkleRootsPrim
open BHS BHS.Chain

/-- outcomes the translation gives no meaning to -/
inductive Fault where
  | noRow             -- nil pointer dereference / read of a struct variable no row was scanned into
  | indexOutOfRange   -- `xs[i]` outside the slice (Go panics)
  | negativeLimit     -- `LIMIT ?` with a negative argument: engine dependent (SQLite: unlimited; PostgreSQL: error)
deriving DecidableEq, Repr

/-- the `error` values of this code path -/
inductive Err where
  | sqlNoRows                                   -- database/sql.ErrNoRows
  | numError                                    -- *strconv.NumError of a failed strconv.Atoi
  | scanNull                                    -- database/sql: converting NULL to a non-pointer destination (MAX over no rows)
  | bhs (name : String)                         -- bhserrors.<name>
  | new (msg : String)                          -- errors.New(msg)
  | wrap (msg : String) (cause : Err)           -- pkg/errors.Wrap(cause, msg)
  | bhsWrap (name : String) (cause : Err)       -- bhserrors.<name>.Wrap(cause), cause non-nil
deriving DecidableEq, Repr

/-- `errors.Is(err, sql.ErrNoRows)`: the chain of causes is searched -/
def Err.isNoRows : Err → Bool
  | .sqlNoRows => true
  | .wrap _ c => c.isNoRows
  | .bhsWrap _ c => c.isNoRows
  | _ => false

def isNoRows (e : Option Err) : Bool := match e with
  | some e => e.isNoRows
  | none => false

/-- pkg/errors.Wrap: wrapping nil is nil -/
def errorsWrap (e : Option Err) (msg : String) : Option Err := e.map (Err.wrap msg)

/-- bhserrors.<name>.Wrap(cause): a BHSError whose cause may be nil -/
def bhsWrap (name : String) (cause : Option Err) : Option Err :=
  some (match cause with | some c => .bhsWrap name c | none => .bhs name)

variable {H : Type} [DecidableEq H]

/-! ### pointers, slices, loops -/

/-- `p.F`, `*p`, a pointer-receiver method on `p` -/
def deref {α : Type} : Option α → Except Fault α
  | some a => pure a
  | none => throw .noRow

/-- `xs[i]` -/
def index {α : Type} (xs : List α) (i : Int) : Except Fault α :=
  if i < 0 then throw .indexOutOfRange
  else match xs[i.toNat]? with
    | some a => pure a
    | none => throw .indexOutOfRange

/-- `xs[i].F = v` (and `xs[i] = v`): the element at `i` replaced by `f` of it -/
def modifyAt {α : Type} (xs : List α) (i : Int) (f : α → α) : Except Fault (List α) :=
  if i < 0 then throw .indexOutOfRange
  else match xs[i.toNat]? with
    | some a => pure (xs.set i.toNat (f a))
    | none => throw .indexOutOfRange

def forRangeFrom {α σ : Type} (f : Int → α → σ → Except Fault σ) : Int → List α → σ → Except Fault σ
  | _, [], st => pure st
  | i, x :: xs, st => f i x st >>= forRangeFrom f (i + 1) xs

/-- `for i, x := range xs { body }`: `st` = the outer variables the body assigns -/
def forRange {α σ : Type} (xs : List α) (init : σ) (f : Int → α → σ → Except Fault σ) : Except Fault σ :=
  forRangeFrom f 0 xs init

end BHS.MerkleRootsPrim
