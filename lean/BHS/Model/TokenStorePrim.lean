/-
Primitives of the REGENERATED token store (`BHS.Gen.TokenStore`, written by
harness/cmd/extract/gen_tokenstore.go from service/token_service.go,
database/repository/token_repository.go, database/sql/tokens.go, repository/dto/tokens.go,
domains/tokens.go). Hand-written, core Lean only, no proofs.

Semantic domain (more faithful than `AuthMwPrim.Res`, because the defects this layer can have live
exactly in what `Res` abstracts away):
* every translated function is a computation `M α` = state (`Db`) + panic;
* Go results stay TUPLES whose components are independent: `(*T, error)` ↦ `Option T × Option GErr`
  (a non-nil value together with a non-nil error, or nil with nil, are expressible);
* data pointers (`*dto.DbToken`, `*domains.Token`, `*sqlx.Tx`) are `Option`; a field access / `*p`
  through `none` is the outcome `panic`; service objects (receivers, `*Repositories`) are non-nil;
* `error` is `Option GErr`; `GErr` keeps the wrap chain so that `errors.Is(err, sql.ErrNoRows)`,
  pkg/errors `Wrap(nil, …) = nil` and `bhserrors.ErrX.Wrap(err)` (never nil) are modelled exactly;
* the database: `Db.table` (committed rows of `tokens`, values only), `Db.tx` (working copy of the open
  transaction), `Db.faults` — the FAULT SCHEDULE: every database call (BeginTxx, NamedExecContext,
  Commit, GetContext) consumes the head; `true` makes that call return `GErr.fault` (a non-nil,
  non-ErrNoRows error: locked database, closed handle, server down) without touching the table;
  `Db.log` records every database call; `Db.rng` is what `uniuri.NewLen` will return next.
* SQL statements are interpreted by their (whitespace-normalised) text: the three statements of
  database/sql/tokens.go are known, any other text is answered with an error.
One connection, no concurrent transactions (interleavings belong to C15).
-/
import BHS.Model.AuthMwPrim

namespace BHS.Model.TokenStorePrim
open BHS.Model.Auth (Store insertTok deleteTok)
open BHS.Model.AuthMwPrim (Tok GoErr Res)

/-! ## errors -/

inductive GErr
  | noRows                                          -- sql.ErrNoRows
  | fault                                           -- any other failure of a database call
  | bhs (d : BHS.Gen.ErrDef)                        -- bhserrors.ErrX
  | bhsWrap (d : BHS.Gen.ErrDef) (cause : GErr)     -- bhserrors.ErrX.Wrap(cause)
  | wrap (msg : String) (cause : GErr)              -- pkg/errors Wrap(cause, msg)
deriving DecidableEq, Repr

/-- `bhserrors.ErrX.Wrap(err)`: a BHSError value — never nil, whatever `err` is -/
def GErr.wrapBhs (d : BHS.Gen.ErrDef) : Option GErr → GErr
  | none => .bhs d
  | some c => .bhsWrap d c

/-- pkg/errors `Wrap(err, msg)`: nil for a nil `err` -/
def GErr.pkgWrap (e : Option GErr) (msg : String) : Option GErr := e.map (GErr.wrap msg)

/-- `errors.Is` along the Unwrap chain (BHSError.Is compares codes) -/
def GErr.isE : GErr → GErr → Bool
  | e, t =>
    e == t ||
    (match e, t with
     | .bhs d, .bhs d' => d.code == d'.code
     | .bhsWrap d _, .bhs d' => d.code == d'.code
     | _, _ => false) ||
    (match e with
     | .bhsWrap _ c => GErr.isE c t
     | .wrap _ c => GErr.isE c t
     | _ => false)

/-- `errors.Is(err, target)` -/
def GErr.is (e t : Option GErr) : Bool :=
  match e, t with
  | some e, some t => GErr.isE e t
  | none, none => true
  | _, _ => false

/-- the same error as the middleware layer sees it (`AuthMwPrim.GoErr` forgets the cause) -/
def GErr.toGoErr : GErr → GoErr
  | .bhs d => .bhs d
  | .bhsWrap d _ => .bhs d
  | .noRows => .other "sql: no rows in result set"
  | .fault => .other "database failure"
  | .wrap m _ => .other m

/-! ## data -/

/-- `dto.DbToken` (`CreatedAt` is not modelled) -/
structure DbToken where
  token : String := ""
deriving DecidableEq, Repr, Inhabited

instance : Inhabited Tok := ⟨{}⟩

/-- `*sqlx.Tx` handle -/
structure Tx where
deriving DecidableEq, Repr, Inhabited

/-- `*sqlx.DB` handle -/
structure SqlxDB where
deriving DecidableEq, Repr, Inhabited

/-- named / positional statement arguments -/
abbrev Binds := List (String × String)
def Binds.ofDbToken (d : DbToken) : Binds := [("token", d.token)]   -- `db:"token"`; created_at not modelled

inductive Call
  | begin | exec (sql : String) (b : Binds) | commit | rollback | get (sql : String) (args : List String) | rand
deriving DecidableEq, Repr

structure Db where
  table : Store
  tx : Option Store := none
  faults : List Bool := []
  rng : List String := []
  log : List Call := []
deriving DecidableEq, Repr

/-! ## the computation type -/

inductive Outcome (α : Type)
  | val (a : α)
  | panic (msg : String)
deriving DecidableEq, Repr

abbrev M (α : Type) := Db → Outcome α × Db

def M.pure {α : Type} (a : α) : M α := fun db => (.val a, db)

def M.bind {α β : Type} (x : M α) (f : α → M β) : M β := fun db =>
  match x db with
  | (.val a, db') => f a db'
  | (.panic m, db') => (.panic m, db')

def M.panic {α : Type} (msg : String) : M α := fun db => (.panic msg, db)

/-- `p.F` / `*p`: nil pointer dereference panics -/
def M.deref {α β : Type} (p : Option α) (k : α → M β) : M β :=
  match p with
  | some a => k a
  | none => M.panic "nil pointer dereference"

/-- `defer d()` in front of `body`: `d` runs when `body` is left, also by a panic; its own results are dropped -/
def M.withDefer {α : Type} (d : M Unit) (body : M α) : M α := fun db =>
  match body db with
  | (o, db') => (o, (d db').2)

/-! ## database calls -/

def sqlInsertTokenText : String := "INSERT INTO tokens(token, created_at) VALUES(:token, :created_at) ON CONFLICT DO NOTHING"
def sqlGetTokenText : String := "SELECT token, created_at FROM tokens WHERE token = ?"
def sqlDeleteTokenText : String := "DELETE FROM tokens WHERE token = :token"

/-- record the call and consume one entry of the fault schedule -/
def Db.step (db : Db) (c : Call) : Bool × Db :=
  match db.faults with
  | [] => (false, { db with log := db.log ++ [c] })
  | f :: fs => (f, { db with faults := fs, log := db.log ++ [c] })

/-- `db.BeginTxx(ctx, nil)` -/
def SqlxDB.beginTxx (_h : SqlxDB) : M (Option Tx × Option GErr) := fun db =>
  match db.step .begin with
  | (true, db') => (.val (none, some .fault), db')
  | (false, db') => (.val (some {}, none), { db' with tx := some db'.table })

/-- `db.GetContext(ctx, &dest, query, args...)`: the new value of `dest` and the error -/
def SqlxDB.getContext (_h : SqlxDB) (dest : DbToken) (q : String) (args : List String) : M (DbToken × Option GErr) := fun db =>
  match db.step (.get q args) with
  | (true, db') => (.val (dest, some .fault), db')
  | (false, db') =>
    if q = sqlGetTokenText then
      match args with
      | [v] => if v ∈ db'.table then (.val ({ token := v }, none), db') else (.val (dest, some .noRows), db')
      | _ => (.val (dest, some .fault), db')
    else (.val (dest, some .fault), db')

/-- `tx.NamedExecContext(ctx, query, arg)` -/
def Tx.namedExec (tx : Option Tx) (q : String) (b : Binds) : M (Unit × Option GErr) :=
  M.deref tx fun _ => fun db =>
    match db.step (.exec q b) with
    | (true, db') => (.val ((), some .fault), db')
    | (false, db') =>
      match db'.tx, b.lookup "token" with
      | some p, some v =>
        if q = sqlInsertTokenText then (.val ((), none), { db' with tx := some (insertTok p v) })
        else if q = sqlDeleteTokenText then (.val ((), none), { db' with tx := some (deleteTok p v) })
        else (.val ((), some .fault), db')
      | _, _ => (.val ((), some .fault), db')

/-- `tx.Commit()`: a failed commit leaves the table as it was -/
def Tx.commit (tx : Option Tx) : M (Option GErr) :=
  M.deref tx fun _ => fun db =>
    match db.step .commit with
    | (true, db') => (.val (some .fault), { db' with tx := none })
    | (false, db') =>
      match db'.tx with
      | some p => (.val none, { db' with table := p, tx := none })
      | none => (.val (some .fault), db')          -- sql.ErrTxDone

/-- `tx.Rollback()`: drops the working copy; ErrTxDone after a commit. Consumes no schedule entry (its
    result is discarded by every caller and the table is the committed one either way). -/
def Tx.rollback (tx : Option Tx) : M (Option GErr) :=
  M.deref tx fun _ => fun db =>
    match db.tx with
    | some _ => (.val none, { db with tx := none, log := db.log ++ [.rollback] })
    | none => (.val (some .fault), { db with log := db.log ++ [.rollback] })

/-- `uniuri.NewLen(n)`: the next value of the generator (environment choice) -/
def uniuriNewLen (_n : Nat) : M String := fun db =>
  match db.rng with
  | [] => (.val "", { db with log := db.log ++ [.rand] })
  | v :: vs => (.val v, { db with rng := vs, log := db.log ++ [.rand] })

/-! ## objects -/

/-- `*sql.HeadersDb` -/
structure HeadersDb where
  db : SqlxDB := {}
deriving Inhabited

/-- `*repository.TokenRepository` (database/repository) -/
structure TokenRepository where
  db : HeadersDb := {}
deriving Inhabited

/-- interface `repository.Tokens` -/
structure TokensRepo where
  AddTokenToDatabase : Option Tok → M (Option GErr)
  GetTokenByValue : String → M (Option Tok × Option GErr)
  DeleteToken : String → M (Option GErr)

/-- `*repository.Repositories` (only the field the token service uses) -/
structure Repositories where
  Tokens : TokensRepo

/-- `*service.TokenService` -/
structure TokenService where
  repo : Repositories
  adminToken : String

end BHS.Model.TokenStorePrim
