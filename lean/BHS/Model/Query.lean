/-
M-Query: the read API as pure functions of the store — one list function per SQL statement of
/repo/database/sql/headers.go plus the service logic of /repo/service/header_service.go,
/repo/repository/dto/headers.go (verdicts) and /repo/database/repository/header_repository.go (pages).
Core Lean only.
-/
import BHS.Model.Chain
import BHS.Gen.Consts

namespace BHS.Chain
variable {H : Type} [DecidableEq H]

/-- insertion sort by height (stable): `ORDER BY height ASC`, also the `(height, header_state)` index order
    of the un-ORDERed range queries restricted to one state -/
def insertByHeight (r : Row H) : List (Row H) → List (Row H)
  | [] => [r]
  | a :: l => if r.height < a.height then r :: a :: l else a :: insertByHeight r l

def sortByHeight (l : List (Row H)) : List (Row H) := l.foldr insertByHeight []

/-- the longest-chain rows in ascending height order -/
def lcAsc (s : Store H) : List (Row H) := sortByHeight (s.filter (fun r => decide (r.st = .lc)))

/-! ### C02 — merkle-root verification -/

inductive Verdict where
  | confirmed | unable | invalid
deriving DecidableEq, Repr

def severity : Verdict → Nat
  | .confirmed => 0
  | .unable => 1
  | .invalid => 2

/-- Go's `int32(x)` conversion of an `int` -/
def toInt32 (n : Int) : Int := (n + 2147483648) % 4294967296 - 2147483648

/-- sqlVerifyHash: `WHERE merkleroot = ? AND height = ? AND header_state = 'LONGEST_CHAIN'`, first row -/
def verifyHash (s : Store H) (root : H) (height : Int) : Option (Row H) :=
  s.find? (fun r => decide (r.merkle = root ∧ (r.height : Int) = height ∧ r.st = .lc))

/-- dto.ToMerkleRootConfirmation -/
def verifyItem (s : Store H) (excess : Int) (tipH : Nat) (root : H) (height : Int) : Verdict × Option H :=
  match verifyHash s root height with
  | some r => (.confirmed, some r.hash)
  | none =>
    if height > (tipH : Int) ∧ height - (tipH : Int) ≤ toInt32 excess then (.unable, none) else (.invalid, none)

/-- GetMerkleRootsConfirmations: `none` = ErrGetChainTipHeight (no longest-chain row at all) -/
def verify (s : Store H) (excess : Int) (req : List (H × Int)) : Option (List (H × Int × Verdict × Option H)) :=
  match maxLcHeight s with
  | none => none
  | some tipH => some (req.map fun (root, h) => let v := verifyItem s excess tipH root h; (root, h, v.1, v.2))

/-- mapToMerkleRootsConfirmationsResponses: the worst individual verdict, starting from CONFIRMED -/
def aggregate (vs : List Verdict) : Verdict :=
  vs.foldl (fun a v => if severity a < severity v then v else a) .confirmed

/-! ### C08 — merkle-root listing -/

inductive PageErr where
  | notFound      -- ErrMerklerootNotFound (404)
  | notLc         -- ErrMerklerootNotInLongestChain (409)
  | noTip
deriving DecidableEq, Repr

/-- getLastEvaluatedMerklerootHeight: empty key = −1; else the first row with that merkle root -/
def lastEvalHeight (s : Store H) (key : Option H) : Except PageErr Int :=
  match key with
  | none => .ok (-1)
  | some k =>
    match s.find? (fun r => decide (r.merkle = k)) with
    | none => .error .notFound
    | some r => if r.st = .lc then .ok r.height else .error .notLc

/-- sqlMerkleRootsFromHeight: `height > ? AND LONGEST_CHAIN ORDER BY height ASC LIMIT ?` -/
def rootsAfter (s : Store H) (h : Int) (n : Nat) : List (Row H) :=
  ((lcAsc s).filter (fun r => decide ((r.height : Int) > h))).take n

/-- HeaderRepository.GetMerkleRoots: content + lastEvaluatedKey (`none` = empty string) -/
def page (s : Store H) (n : Nat) (key : Option H) : Except PageErr (List (Row H) × Option H) :=
  match lastEvalHeight s key with
  | .error e => .error e
  | .ok h =>
    let rows := rootsAfter s h n
    match getTip s with
    | none => .error .noTip
    | some tip =>
      match rows.getLast? with
      | none => .ok (rows, none)
      | some last => .ok (rows, if tip.merkle = last.merkle then none else some last.merkle)

/-! ### C13 — block locator and getheaders -/

/-- LatestHeaderLocator: the loop, with `n` = number of entries already appended -/
def locatorGo (s : Store H) : Nat → Row H → Nat → Nat → List H
  | 0, _, _, _ => []
  | fuel + 1, tip, step, n =>
    tip.hash ::
      (if tip.height = 0 then []
       else
        match lcAtHeight s (tip.height - step) with
        | none => []
        | some v => locatorGo s fuel v (if n + 1 > 10 then step * 2 else step) (n + 1))

def locator (s : Store H) : List H :=
  match getTip s with
  | none => []
  | some tip => locatorGo s (tip.height + 1) tip 1 0

inductive GhErr where
  | noLocators | stopLower
deriving DecidableEq, Repr

/-- sqlGetHeadersHeight: `COALESCE(MAX(height),0)` over longest-chain rows whose hash is in the locator -/
def startHeight (s : Store H) (loc : List H) : Nat :=
  (s.filter (fun r => decide (r.st = .lc ∧ r.hash ∈ loc))).foldl (fun m r => max m r.height) 0

/-- sqlHeaderHeightFromHashAndState; no row = 0 -/
def stopHeight (s : Store H) (stop : H) : Nat :=
  match s.find? (fun r => decide (r.hash = stop ∧ r.st = .lc)) with
  | some r => r.height
  | none => 0

/-- sqlHeaderByHeightRangeLongestChain (`BETWEEN`), in index (= height) order -/
def rangeLc (s : Store H) (lo hi : Nat) : List (Row H) :=
  (lcAsc s).filter (fun r => decide (lo ≤ r.height ∧ r.height ≤ hi))

/-- locateHeadersGetHeaders -/
def getHeaders (s : Store H) (zero : H) (loc : List H) (stop : H) : Except GhErr (List (Row H)) :=
  if loc.isEmpty then .error .noLocators
  else
    let start := startHeight s loc
    let stop0 := if stop = zero then start + Gen.maxCFHeadersPerMsg else stopHeight s stop
    let stop1 := if stop0 = 0 then start + Gen.maxCFHeadersPerMsg else stop0
    if stop1 ≤ start then .error .stopLower
    else
      let stop2 := if Gen.maxCFHeadersPerMsg < stop1 - start then start + Gen.maxCFHeadersPerMsg else stop1
      .ok (rangeLc s (start + 1) stop2)

/-! ### C04 — chain queries -/

/-- sqlHeaderByHeightRange: all states, `BETWEEN from AND to` -/
def byHeightRange (s : Store H) (lo hi : Int) : List (Row H) :=
  s.filter (fun r => decide (lo ≤ (r.height : Int) ∧ (r.height : Int) ≤ hi))

/-- sqlSelectTips: the highest longest-chain row UNION every non-longest row that is nobody's non-longest parent -/
def allTips (s : Store H) : List (Row H) :=
  let main := match (lcAsc s).getLast? with | some t => [t] | none => []
  let nonLcPrev := (s.filter (fun r => decide (r.st ≠ .lc))).map (·.prev)
  main ++ s.filter (fun r => decide (r.st ≠ .lc ∧ r.hash ∉ nonLcPrev))

/-- sqlSelectAncestorOnHeight: walk parents while their height ≥ target; rows of the walk at the target height; first -/
def walkWhileHeight (s : Store H) (target : Int) : Nat → Row H → List (Row H)
  | 0, r => [r]
  | fuel + 1, r =>
    r :: (match byHash s r.prev with
      | some p => if (p.height : Int) ≥ target then walkWhileHeight s target fuel p else []
      | none => [])

def ancestorOnHeight (s : Store H) (h : H) (target : Int) : Option (Row H) :=
  match byHash s h with
  | none => none
  | some r => (walkWhileHeight s target s.length r).find? (fun a => decide ((a.height : Int) = target))

/-- sqlChainBetweenTwoHashes: from `high` back while the parent is not `low`, then `low` itself -/
def walkUntil (s : Store H) (low : H) : Nat → Row H → List (Row H)
  | 0, r => [r]
  | fuel + 1, r =>
    r :: (match byHash s r.prev with
      | some p => if p.hash ≠ low then walkUntil s low fuel p else []
      | none => [])

def chainBetween (s : Store H) (low high : H) : List (Row H) :=
  (match byHash s high with
   | some r => walkUntil s low s.length r
   | none => []) ++ (match byHash s low with | some l => [l] | none => [])

inductive AncErr where
  | notFound          -- ErrHeaderWithGivenHashes
  | ancestorHigher    -- ErrAncestorHashHigher
  | notSameChain      -- ErrHeadersNotPartOfTheSameChain
deriving DecidableEq, Repr

/-- GetHeaderAncestorsByHash -/
def ancestors (s : Store H) (hash anc : H) : Except AncErr (List (Row H)) :=
  match byHash s hash, byHash s anc with
  | some r, some a =>
    if a.height > r.height then .error .ancestorHigher
    else if a.height = r.height then (if a.hash ≠ r.hash then .error .notSameChain else .ok [])
    else
      match ancestorOnHeight s r.hash a.height with
      | none => .error .notSameChain
      | some x => if x.hash ≠ a.hash then .error .notSameChain else .ok (chainBetween s anc hash)
  | _, _ => .error .notFound

inductive CaRes (H : Type) where
  | found (r : Row H)
  | notFound            -- a hash is unknown / an ancestor lookup fails (ErrHeaderNotFound / ErrAncestorNotFound)
  | nilResult           -- `return nil, nil`: the handler dereferences it (500, C16)
  | panicEmpty          -- empty request list: `headers[0]` on an empty slice (500, C16)
deriving Repr

def allSame (l : List (Row H)) : Bool :=
  match l with
  | [] => true
  | a :: rest => rest.all (fun b => decide (b.hash = a.hash))

def caLoop (s : Store H) : Nat → List (Row H) → CaRes H
  | 0, _ => .nilResult
  | fuel + 1, hs =>
    if allSame hs then (match hs with | a :: _ => .found a | [] => .panicEmpty)
    else
      match hs.mapM (fun r => byHash s r.prev) with
      | none => .notFound
      | some ps => caLoop s fuel ps

/-- GetCommonAncestor -/
def commonAncestor (s : Store H) (hashes : List H) : CaRes H :=
  match hashes.mapM (byHash s) with
  | none => .notFound
  | some rows =>
    match rows with
    | [] => .panicEmpty
    | _ =>
      let h : Nat := rows.foldl (fun m r => min m r.height) 2147483647
      if h < 1 then .nilResult
      else
        match rows.mapM (fun r => ancestorOnHeight s r.hash ((h : Int) - 1)) with
        | none => .notFound
        | some as => caLoop s h as

end BHS.Chain
