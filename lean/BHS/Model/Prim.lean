/-
Primitive fixed-width helpers used by the regenerated modules (BHS/Gen).
Core Lean only.
-/
namespace BHS

/-- Go's wrap-around on an unsigned type of `bits` bits. -/
def wrap (bits : Nat) (x : Nat) : Nat := x % 2 ^ bits

/-- Go's `a - b` on an unsigned type of `bits` bits (operands already in range). -/
def subw (bits : Nat) (a b : Nat) : Nat := (a + 2 ^ bits - b) % 2 ^ bits

/-- Go's wrap-around on a signed type of `bits` bits (two's complement) -/
def wrapS (bits : Nat) (x : Int) : Int := (x + 2 ^ (bits - 1)) % 2 ^ bits - 2 ^ (bits - 1)

end BHS
