/-
The regenerated authentication code (`BHS.Gen.AuthMw`) wired as cmd/main.go wires the Go code, and
evaluated on one request. Hand-written, core Lean only (the driver evaluates `genAuthorize` next to
the hand model on every authentication op and answers `err:gen-mismatch` when they differ);
`BHS.Props.AuthMw` proves that they never differ.
-/
import BHS.Model.Auth
import BHS.Model.AuthMwPrim
import BHS.Gen.AuthMw

namespace BHS.Model.AuthMwWire
open BHS BHS.Model.Auth BHS.Model.AuthMwPrim

variable {σ : Type}

/-- `repo.Tokens.GetTokenByValue` as the model reads the tokens table (`SELECT … WHERE token = ?`):
    a stored value gives a non-admin token, any other value `sql.ErrNoRows` -/
def repoOf (st : Store) : String → Res Tok :=
  fun t => if t ∈ st then .ok ⟨t, false⟩ else .err (.other "sql: no rows in result set")

/-- `NewTokenService(repo, cfg.AdminToken)` + `NewMiddleware(services, cfg.HTTP)`; the interface value
    `services.Tokens` is the `*TokenService` -/
def mwOf (env : Env) (r : String → Res Tok) : TokenMiddleware :=
  ⟨env.useAuth, Gen.AuthMw.tokenServiceGetToken ⟨env.admin, r⟩⟩

/-- gin's chain for a route of the "/api/v1" group: the group middleware, then the handler as registered
    (`auth.RequireAdmin(h, cfg.UseAuth)` on the two access routes, `h` itself elsewhere) -/
def serveChain (env : Env) (r : String → Res Tok) (handler : Ctx σ → Ctx σ) (admin : Bool) (c : Ctx σ) : Ctx σ :=
  chain [Gen.AuthMw.applyToAPI (mwOf env r),
         if admin then Gen.AuthMw.requireAdmin handler env.useAuth else handler] c

/-- a fresh gin context of a request whose Authorization header is `hdr` -/
def freshCtx (hdr : String) (w : σ) : Ctx σ :=
  { header := fun k => if k = "Authorization" then hdr else "", world := w }

/-- the answer line of `Decision.render`, read off the context the chain leaves -/
def renderCtx (c : Ctx σ) : String :=
  match c.status with
  | .aborted (.bhs d) => toString d.status ++ " " ++ d.name
  | .aborted (.other m) => "abort-other " ++ m
  | .panicked m => "panic " ++ m
  | .running =>
    match c.get "token" with
    | none => "pass open"
    | some (.tok t) => if t.isAdmin then "pass admin" else "pass user"
    | some .other => "pass other"

/-- the generated code's answer to one request (handler = identity) -/
def genAuthorize (env : Env) (st : Store) (admin : Bool) (hdr : String) : String :=
  renderCtx (serveChain env (repoOf st) id admin (freshCtx hdr ()))

end BHS.Model.AuthMwWire
