/-
The regenerated token store (`BHS.Gen.TokenStore`) wired as cmd/main.go / service.NewServices wire the Go
code, and composed with the regenerated middleware (`BHS.Gen.AuthMw`). Hand-written, core Lean only, no proofs.
-/
import BHS.Gen.TokenStore
import BHS.Model.AuthMwWire

namespace BHS.Model.TokenStoreWire
open BHS BHS.Model.Auth BHS.Model.TokenStorePrim
open BHS.Model.AuthMwPrim (Tok Res Ctx GoErr)

/-- the interface value `repository.Tokens` holding a `*TokenRepository` (method set = the three translated methods) -/
def tokensRepoOf (r : TokenRepository) : TokensRepo :=
  ⟨Gen.TokenStore.repoAddTokenToDatabase r, Gen.TokenStore.repoGetTokenByValue r, Gen.TokenStore.repoDeleteToken r⟩

/-- cmd/main.go `Tokens: sqlrepository.NewTokensRepository(headersStore)` then service.NewServices
    `Tokens: NewTokenService(d.Repositories, d.AdminToken)`, as a computation over the database -/
def wired (admin : String) : M TokenService :=
  M.bind (Gen.TokenStore.newTokensRepository {}) fun r =>
  Gen.TokenStore.newTokenService ⟨tokensRepoOf r⟩ admin

/-- the service `wired` returns (`BHS.Props.TokenStore.wired_eq`) -/
def svcOf (admin : String) : TokenService := ⟨⟨tokensRepoOf {}⟩, admin⟩

/-- a `(*domains.Token, error)` pair as the middleware translation (`Gen.AuthMw`, pattern
    `t, err := …; if err != nil { return nil, err }; return t, nil`) reads it: the error is tested first.
    `(nil, nil)` would hand a nil token to the middleware; the generated lookup never returns it
    (`BHS.Props.TokenStore.token_lookup_sound`), here it is the outcome panic. -/
def toRes : Outcome (Option Tok × Option GErr) → Res Tok
  | .panic m => .panic m
  | .val (_, some e) => .err e.toGoErr
  | .val (some t, none) => .ok t
  | .val (none, none) => .panic "nil token without error"

/-- `s.repo.Tokens.GetTokenByValue` as the middleware sees it in database state `db` (one lookup per request) -/
def repoAt (s : TokenService) (db : Db) : String → Res Tok :=
  fun v => toRes (s.repo.Tokens.GetTokenByValue v db).1

/-- the configuration the composed chain runs under -/
def envOf (s : TokenService) (useAuth : Bool) : Env := ⟨s.adminToken, useAuth⟩

/-- gin's chain for a route of the "/api/v1" group over the generated middleware AND the generated token store,
    in database state `db` -/
def serveChainAt {σ : Type} (s : TokenService) (useAuth : Bool) (db : Db) (handler : Ctx σ → Ctx σ) (admin : Bool)
    (c : Ctx σ) : Ctx σ :=
  BHS.Model.AuthMwWire.serveChain (envOf s useAuth) (repoAt s db) handler admin c

/-- websocket `OnConnecting` over the generated code: `Tokens.GetToken(event.Token)` succeeds -/
def wsConnectAt (s : TokenService) (useAuth : Bool) (db : Db) (t : String) : Bool :=
  if useAuth then
    match Gen.AuthMw.tokenServiceGetToken ⟨s.adminToken, repoAt s db⟩ t with
    | .ok _ => true
    | _ => false
  else true

/-- the composed generated code's answer to one request over the table `st`, no database call failing
    (what the driver evaluates next to the hand model on every authentication op) -/
def genAuthorizeAt (env : Env) (st : Store) (admin : Bool) (hdr : String) : String :=
  BHS.Model.AuthMwWire.renderCtx
    (serveChainAt (svcOf env.admin) env.useAuth { table := st } id admin (BHS.Model.AuthMwWire.freshCtx hdr ()))

/-- the table after `GenerateToken` (generator value `t`) / `DeleteToken t` of the generated service, no
    database call failing (what the driver compares with the hand model's `insertTok` / `deleteTok`) -/
def genCreate (admin : String) (st : Store) (t : String) : Store :=
  (Gen.TokenStore.svcGenerateToken (svcOf admin) { table := st, rng := [t] }).2.table
def genRevoke (admin : String) (st : Store) (t : String) : Store :=
  (Gen.TokenStore.svcDeleteToken (svcOf admin) t { table := st }).2.table

end BHS.Model.TokenStoreWire
