/-
M-MerkleRootsPrim: the vocabulary the REGENERATED module BHS/Gen/MerkleRoots.lean is written in
(harness/cmd/extract/gen_merkleroots.go translates the merkle-root listing — handler, service, repository and SQL layer —
statement by statement into `do` blocks of `Except Fault`). Hand-written, core Lean only. Everything below is TRUSTED
as the meaning of one Go notion; the SQL statements stay primitives: one list function of the hand model
(BHS/Model/Query.lean, BHS/Model/Chain.lean) per SQL constant NAME (the text of the statements is pinned by Gen.SqlText /
Props/SqlShape.lean).

How Go maps to Lean here
* the database            ↦ the model store `db_ : Store H` (the listing only reads).
* `string`                ↦ `Option H` in the SQL / repository / service layers, where every string is a merkle-root key:
                            `""` ↦ `none`, the text of a stored root ↦ `some root` (a stored root is 64 hex characters,
                            never empty). In the HTTP handler strings are `String` (query parameters) and `H = String`;
                            a handler string handed to the service is converted by `strKey`.
* `int`, `int32`          ↦ `Int` (heights and sizes stay far below 2^31: no wrap-around is modelled).
* `error`                 ↦ `Option Err` (`nil` = `none`).
* `*dto.DbBlockHeader`, `*domains.BlockHeader`, and a `var x dto.DbBlockHeader` that `db.Get` scans into
                          ↦ `Option (Row H)` (`nil` / "nothing scanned yet" = `none`). Reading through `none` is the
                            fault `noRow`: Go would panic (nil pointer) or read zero values (untouched struct) — the model
                            gives neither a meaning, the refinement theorem shows it never happens.
* `[]dto.DbBlockHeader`, `[]*dto.DbMerkleRoot` ↦ `List (Row H)` (sqlx never yields nil elements; `nil` slice = `[]`).
* `DbBlockHeader` ≙ `BlockHeader` ≙ `DbMerkleRoot` ≙ `Row H` on the fields the code reads (Height, MerkleRoot, State).
* reads are infallible apart from "no rows" (connection failures are not modelled).
-/
import BHS.Model.MerkleRootsCore
import BHS.Model.Http

namespace BHS.MerkleRootsPrim
open BHS BHS.Chain
variable {H : Type} [DecidableEq H]

/-- (*dto.DbBlockHeader).ToBlockHeader: the same row as a domain header (work strings parsed: not read here) -/
def toBlockHeader (r : Option (Row H)) : Except Fault (Option (Row H)) :=
  match r with
  | some r => pure (some r)
  | none => throw .noRow

/-! ### the SQL statements — primitive table keyed by the NAME of the SQL constant
`db.Get(&dest, sql, args…)` scans the first row into `dest` (untouched + sql.ErrNoRows when there is none);
`db.Select(&dest, sql, args…)` appends every row to `dest`. -/

/-- sqlGetSingleMerkleroot `WHERE merkleroot = ?`: the row `Query.lastEvalHeight` finds (no row has an empty root) -/
def dbGet_sqlGetSingleMerkleroot (s : Store H) (dest : Option (Row H)) (key : Option H) :
    Except Fault (Option (Row H) × Option Err) :=
  match key.bind (fun k => s.find? (fun r => decide (r.merkle = k))) with
  | some r => pure (some r, none)
  | none => pure (dest, some .sqlNoRows)

/-- sqlMerkleRootsFromHeight `height > ? AND LONGEST_CHAIN ORDER BY height ASC LIMIT ?`: `Query.rootsAfter` -/
def dbSelect_sqlMerkleRootsFromHeight (s : Store H) (dest : List (Row H)) (h n : Int) :
    Except Fault (List (Row H) × Option Err) :=
  if n < 0 then throw .negativeLimit else pure (dest ++ rootsAfter s h n.toNat, none)

/-- sqlSelectTip: the rows at the maximal longest-chain height; the hand model (`Chain.getTip`) and the Go code
    (`tip[0]`, `len(tip) == 0`) read the first one only — the further rows at that height are not modelled -/
def dbSelect_sqlSelectTip (s : Store H) (dest : List (Row H)) : Except Fault (List (Row H) × Option Err) :=
  pure (dest ++ (getTip s).toList, none)

/-! ### the response objects -/

/-- domains.MerkleRootsResponse -/
structure RootResp (H : Type) where
  merkleRoot : Option H
  blockHeight : Int
deriving DecidableEq, Repr

/-- domains.ExclusiveStartKeyPageInfo (OrderByField / SortDirection are nil pointers on this path: not modelled) -/
structure PageInfo (H : Type) where
  totalElements : Int
  size : Int
  lastEvaluatedKey : Option H
deriving DecidableEq, Repr

/-- domains.MerkleRootsESKPagedResponse -/
structure PagedResp (H : Type) where
  content : List (RootResp H)
  page : PageInfo H
deriving DecidableEq, Repr

/-- `make([]domains.MerkleRootsResponse, n)`: `n` zero values -/
def makeRootResps (n : Int) : List (RootResp H) := List.replicate n.toNat ⟨none, 0⟩

/-! ### the HTTP handler (H = String) -/

/-- what the handler writes to the gin context -/
inductive Out where
  | errorResponse (e : Option Err)                          -- bhserrors.ErrorResponse(c, e, log)
  | json (status : Int) (v : Option (PagedResp String))     -- c.JSON(status, v)
deriving DecidableEq, Repr

/-- *gin.Context: the query parameters (absent = `none`) and the writes so far -/
structure Gin where
  query : String → Option String
  out : List Out := []

/-- c.Query(name) -/
def ginQuery (c : Gin) (name : String) : String := (c.query name).getD ""

/-- c.DefaultQuery(name, dflt) -/
def ginDefaultQuery (c : Gin) (name dflt : String) : String := (c.query name).getD dflt

/-- strconv.Atoi (`Http.atoi`); `(0, *NumError)` on failure -/
def strconvAtoi (s : String) : Int × Option Err :=
  match Http.atoi s with
  | some n => (n, none)
  | none => (0, some .numError)

def errorResponse (c : Gin) (e : Option Err) : Gin := { c with out := c.out ++ [.errorResponse e] }

def ginJSON (c : Gin) (status : Int) (v : Option (PagedResp String)) : Gin := { c with out := c.out ++ [.json status v] }

/-- a handler string handed to the service layer as a key -/
def strKey (s : String) : Option String := if s = "" then none else some s

end BHS.MerkleRootsPrim
