/-
M-HandlersPrim: the vocabulary the REGENERATED module BHS/Gen/Handlers.lean is written in
(harness/cmd/extract/gen_handlers.go translates the API handlers of
  /repo/transports/http/endpoints/api/{headers,tips,merkleroots,webhook,access}/endpoints.go
and bhserrors.ErrorResponse / AbortWithErrorResponse / mapAndLog of /repo/bhserrors/http_response.go statement by
statement into `do` blocks of `Except Fault`). Hand-written, core Lean only, no proofs. Everything below is TRUSTED as
the meaning of one Go notion. `Fault`, `Err`, `bhsWrap`, `deref`, `strconvAtoi` are those of MerkleRootsPrim.

How Go maps to Lean here
* the receiver `h *handler` ↦ `h : World`: what the services behind `h.service` read and write — the header store, the
                            configured excess and the webhook table of the HTTP hand model (`Http.Env`) — plus the setting
                            of the two SERVICE-level switches of `Http.Fixes` (GetCommonAncestor's empty-list guard and its
                            `nil, nil` answers live in service/header_service.go, which another translator covers). The
                            handler-level repairs are in the translated text itself. A service call that writes returns
                            the new world (`let (h, …) ← …`).
* `h.service.<Method>`    ↦ one primitive per method, defined from the SERVICE-level hand model (BHS/Model/Query.lean,
                            the webhook-table functions of BHS/Model/Http.lean), returning the Go result list:
                            `*T` ↦ `Option T` (nil = none), `[]T` ↦ `List T`, `error` ↦ `Option Err`.
* `*gin.Context`          ↦ `Gin`: the ABSTRACT request (path parameters, query parameters, what binding the body gives,
                            the outcome class of the token middleware) and the writes so far. Every effect on it rebinds
                            the variable (`let c := ginJSON c …`).
* `c.BindJSON(&v)` / `c.Bind(&v)` ↦ `ginBindJSON c v` / `ginBind c v`: the bind outcome is an abstract input (`BodyIn`:
                            did it fail; what the decoder left in the destination). A failing Must-bind writes the
                            status line 400 (`Out.bindAbort`) and aborts the chain; the Should variants do not.
* the response mappers of the packages' model.go (`newBlockHeaderResponse`, …) ↦ constructors of `JVal`; the ones taking a
                            pointer read through it: `nil` is the fault `noRow` (Go: nil pointer dereference → gin.Recovery).
* a fault is an explicit outcome (`Except Fault`): the refinement theorems show when it cannot happen.
-/
import BHS.Model.MerkleRootsPrim
import BHS.Model.Http

namespace BHS.HandlersPrim
open BHS BHS.Chain BHS.Http
open BHS.MerkleRootsPrim (Fault Err bhsWrap deref strconvAtoi)

abbrev Hdr := Row String

/-! ### the world behind `h.service` -/

structure World where
  fx : Fixes
  env : Env

/-! ### JSON values and writes -/

/-- bhserrors.ResponseError -/
structure RespErr where
  code : String
  message : String
deriving DecidableEq, Repr

/-- webhook.Request -/
structure WhReq where
  url : String
  authType : String
  token : String
  header : String
deriving DecidableEq, Repr

/-- what a handler hands to `c.JSON` -/
inductive JVal where
  | errorDoc (code message : String)                                          -- bhserrors.ResponseError
  | blockHeader (r : Hdr)                                                     -- headers.BlockHeaderResponse
  | blockHeaders (rs : List Hdr)                                              -- []headers.BlockHeaderResponse
  | blockHeaderState (r : Hdr)                                                -- headers.BlockHeaderStateResponse
  | tipState (r : Hdr)                                                        -- tips.TipStateResponse
  | tipStates (rs : List Hdr)                                                 -- []tips.TipStateResponse
  | confirmations (items : List (String × Int × Verdict × Option String))     -- merkleroots.ConfirmationsResponse
  | webhook (w : Option Hook)                                                 -- *notification.Webhook (nil renders as `null`)
  | token                                                                     -- *domains.Token (token table not modelled)
  | any (v : Option AuthIn)                                                   -- the `any` found under a context key
  | str (s : String)                                                          -- a Go string: a bare JSON string
deriving Repr

inductive Out where
  | bindAbort                          -- c.BindJSON / c.Bind failed: AbortWithError(400) writes the status line, no body
  | json (status : Int) (v : JVal)     -- c.JSON(status, v) / c.AbortWithStatusJSON(status, v)
deriving Repr

/-- outcome of binding the request body to a destination of type α (trusted input: gin + encoding/json) -/
structure BodyIn (α : Type) where
  err : Bool        -- did the decoder refuse the body
  left : α          -- the destination afterwards (the parsed value when `err = false`)

structure Gin where
  param : String → String               -- c.Param: "" for a parameter the route does not have
  query : String → Option String        -- absent = none
  auth : AuthIn                         -- outcome class of the token middleware (key "token" is set iff not `disabled`)
  bodyStrs : BodyIn (List String)                 -- body as `[]string`
  bodyItems : BodyIn (List (String × Int))        -- body as `[]domains.MerkleRootConfirmationRequestItem`
  bodyHook : BodyIn WhReq                         -- body as `webhook.Request`
  out : List Out := []
  aborted : Bool := false

def ginParam (c : Gin) (name : String) : String := c.param name
def ginQuery (c : Gin) (name : String) : String := (c.query name).getD ""
def ginDefaultQuery (c : Gin) (name dflt : String) : String := (c.query name).getD dflt
/-- c.GetQuery: `("", false)` for an absent parameter -/
def ginGetQuery (c : Gin) (name : String) : String × Bool :=
  match c.query name with
  | some v => (v, true)
  | none => ("", false)

/-- c.Get(key): ApplyToAPI stores the token under "token" exactly when authentication is enabled -/
def ginGet (c : Gin) (key : String) : Option AuthIn × Bool :=
  if key = "token" then
    (match c.auth with
     | .disabled => (none, false)
     | a => (some a, true))
  else (none, false)

def ginJSON (c : Gin) (status : Int) (v : JVal) : Gin := { c with out := c.out ++ [.json status v] }
def ginAbortWithStatusJSON (c : Gin) (status : Int) (v : JVal) : Gin :=
  { c with out := c.out ++ [.json status v], aborted := true }

/-- destinations a body can be bound to -/
class Bindable (α : Type) where
  input : Gin → BodyIn α
instance : Bindable (List String) := ⟨Gin.bodyStrs⟩
instance : Bindable (List (String × Int)) := ⟨Gin.bodyItems⟩
instance : Bindable WhReq := ⟨Gin.bodyHook⟩

/-- the `error` of a refused body (not an ExtendedError) -/
def bindError : Err := .new "bind"

/-- c.ShouldBindJSON(&dest) / c.ShouldBind(&dest) -/
def ginShouldBind {α : Type} [Bindable α] (c : Gin) (_dest : α) : Gin × α × Option Err :=
  let b := Bindable.input (α := α) c
  (c, b.left, if b.err then some bindError else none)
def ginShouldBindJSON {α : Type} [Bindable α] (c : Gin) (dest : α) : Gin × α × Option Err := ginShouldBind c dest

/-- c.BindJSON(&dest) / c.Bind(&dest): MustBindWith — on failure AbortWithError(400) -/
def ginBind {α : Type} [Bindable α] (c : Gin) (_dest : α) : Gin × α × Option Err :=
  let b := Bindable.input (α := α) c
  if b.err then ({ c with out := c.out ++ [.bindAbort], aborted := true }, b.left, some bindError)
  else (c, b.left, none)
def ginBindJSON {α : Type} [Bindable α] (c : Gin) (dest : α) : Gin × α × Option Err := ginBind c dest

/-! ### `c.JSON` arguments -/

def jvRespErr (r : RespErr) : JVal := .errorDoc r.code r.message
def jvHook (w : Option Hook) : JVal := .webhook w
def jvToken (_t : Option Unit) : JVal := .token
def jvAny (v : Option AuthIn) : JVal := .any v
def jvStr (s : String) : JVal := .str s

/-! ### the response mappers (model.go of the handler packages) -/

def newBlockHeaderResponse (p : Option Hdr) : Except Fault JVal := do pure (.blockHeader (← deref p))
def newBlockHeaderStateResponse (p : Option Hdr) : Except Fault JVal := do pure (.blockHeaderState (← deref p))
def newTipStateResponse (p : Option Hdr) : Except Fault JVal := do pure (.tipState (← deref p))
/-- the slices come from sqlx scans: no nil elements -/
def mapToBlockHeadersResponses (l : List Hdr) : Except Fault JVal := pure (.blockHeaders l)
def mapToTipStateResponse (l : List Hdr) : Except Fault JVal := pure (.tipStates l)
def mapToMerkleRootsConfirmationsResponses (l : List (String × Int × Verdict × Option String)) : Except Fault JVal :=
  pure (.confirmations l)

/-! ### bhserrors -/

/-- the first ExtendedError (BHSError) of the chain, looked up by name in the regenerated table -/
def errDefOf : Err → Option Gen.ErrDef
  | .bhs n => Gen.errorTable.find? (fun d => d.name == n)
  | .bhsWrap n _ => Gen.errorTable.find? (fun d => d.name == n)
  | .wrap _ c => errDefOf c
  | _ => none

/-- `errors.As(err, &target)` for a target of type ExtendedError: the new target and the result -/
def errorsAs (e : Option Err) (target : Option Gen.ErrDef) : Option Gen.ErrDef × Bool :=
  match e.bind errDefOf with
  | some d => (some d, true)
  | none => (target, false)

def bhsErr (d : Gen.ErrDef) : Option Err := some (.bhs d.name)

/-! ### service.Headers -/

def Headers_GetHeaderByHash (h : World) (hash : String) : Except Fault (Option Hdr × Option Err) :=
  match byHash h.env.store hash with
  | some r => pure (some r, none)
  | none => pure (none, bhsErr Gen.errHeaderNotFound)

/-- `height + count - 1` is not wrapped to 64 bits (as in the chain driver) -/
def Headers_GetHeadersByHeight (h : World) (height count : Int) : Except Fault (List Hdr × Option Err) :=
  pure (byHeightRange h.env.store height (height + count - 1), none)

def Headers_GetHeaderAncestorsByHash (h : World) (hash anc : String) : Except Fault (List Hdr × Option Err) :=
  match ancestors h.env.store hash anc with
  | .ok l => pure (l, none)
  | .error .notFound => pure ([], bhsErr Gen.errHeaderWithGivenHashes)
  | .error .ancestorHigher => pure ([], bhsErr Gen.errAncestorHashHigher)
  | .error .notSameChain => pure ([], bhsErr Gen.errHeadersNotPartOfTheSameChain)

/-- GetCommonAncestor. Switch 2 off: the empty list reaches `headers[0]` (panic inside the service);
    switch 3 off: `nil, nil` where today ErrAncestorNotFound is returned -/
def Headers_GetCommonAncestor (h : World) (hashes : List String) : Except Fault (Option Hdr × Option Err) :=
  if h.fx.commonAncestorRejectsEmpty && hashes.isEmpty then pure (none, bhsErr Gen.errCommonAncestorEmptyList)
  else
    match commonAncestor h.env.store hashes with
    | .found r => pure (some r, none)
    | .notFound => pure (none, bhsErr (caErr h.env.store hashes))
    | .nilResult => if h.fx.commonAncestorHandlesNil then pure (none, bhsErr Gen.errAncestorNotFound) else pure (none, none)
    | .panicEmpty => throw .indexOutOfRange

/-- GetTips fails only with the storage -/
def Headers_GetTips (h : World) : Except Fault (List Hdr × Option Err) := pure (allTips h.env.store, none)

/-- GetTip swallows the error: nil when there is no tip -/
def Headers_GetTip (h : World) : Except Fault (Option Hdr) := pure (getTip h.env.store)

/-! ### service.Merkleroots -/

def Merkleroots_GetMerkleRootsConfirmations (h : World) (items : List (String × Int)) :
    Except Fault (List (String × Int × Verdict × Option String) × Option Err) :=
  match verify h.env.store h.env.excess items with
  | some l => pure (l, none)
  | none => pure ([], bhsErr Gen.errGetChainTipHeight)

/-! ### webhook.Webhooks (notification.WebhooksService over the webhook table) -/

def Webhooks_CreateWebhook (h : World) (_authType _header _token url : String) : Except Fault (World × Option Hook × Option Err) :=
  let p := createWebhook h.env.hooks url
  match p.1 with
  | .alreadyActive => pure (h, none, bhsErr Gen.errRefreshWebhook)
  | _ => pure ({ h with env := { h.env with hooks := p.2 } }, some ⟨url, true⟩, none)

def Webhooks_GetWebhookByURL (h : World) (url : String) : Except Fault (Option Hook × Option Err) :=
  match findHook h.env.hooks url with
  | some w => pure (some w, none)
  | none => pure (none, bhsErr Gen.errWebhookNotFound)

def Webhooks_DeleteWebhook (h : World) (url : String) : Except Fault (World × Option Err) :=
  match findHook h.env.hooks url with
  | some _ => pure ({ h with env := { h.env with hooks := deleteHook h.env.hooks url } }, none)
  | none => pure (h, bhsErr Gen.errWebhookNotFound)

/-! ### service.Tokens (the token table is not modelled: both calls succeed) -/

def Tokens_GenerateToken (h : World) : Except Fault (World × Option Unit × Option Err) := pure (h, some (), none)
def Tokens_DeleteToken (h : World) (_token : String) : Except Fault (World × Option Err) := pure (h, none)

end BHS.HandlersPrim
