/-
M-RepoM: the repository interface `repository.Headers` as seen by `Chains.Add`, as a state monad over the model
store (BHS/Model/Chain.lean), plus the few Go notions the REGENERATED module BHS/Gen/ChainSvc.lean is written in
(harness/cmd/extract/gen_chainsvc.go translates service/chain_service.go and domains/headers.go into this vocabulary).
Hand-written, core Lean only; every primitive below is the hand model of one repository method = one SQL statement.

How Go maps to Lean here
* `*domains.BlockHeader`            ↦ `Option (Row H)`  (`nil` = `none`); a dereference `p.F`, `*p` of a nil pointer is the
                                       fault `nilDeref` (the monad's exception: the Go process would panic), never a default.
                                       `Row.id` is not a Go field: it is the rowid; literals get `id := 0`, the insert assigns it.
* `domains.BlockHeader` (value)     ↦ `Row H`;  `[]*domains.BlockHeader`, `chain`, `*chain` ↦ `List (Option (Row H))`.
* hashes (`chainhash.Hash`, `domains.BlockHash`, pointers to them, their `String()` rendering) ↦ `H`
                                       (`default : H` is the all-zero hash, the Go zero value).
* `*big.Int`, `*ChainWork`, `*CumulatedChainWork` ↦ `Nat` (work is never negative: `Chain.work`); there is no nil big
                                       integer in the model (`x != nil` on such a field reads `true`).
* `error`                            ↦ `Option Err` (`nil` = `none`); a Go result list `(v, err)` ↦ the pair `(v, err)`:
                                       both components stay separate variables exactly as in the Go text.
* `int32` heights, `uint32`, `time.Time` ↦ `Nat` (heights stay below 2^31: assumption of C01); `Version int32` ↦ `Int`.
* `cs.addMutex.Lock()` ↦ `lockMutex`; every repository primitive faults (`unlocked`) when the mutex is not held, so
  "Add does not panic" includes "every repository call of Add is made under addMutex" (the premise of C15);
  `defer cs.addMutex.Unlock()` releases it when Add returns and has no effect inside one run.
* reads are infallible apart from "not found" / "no tip" (what the SQL layer reports when no row matches);
  a write either executes (recorded in `writes`, applied to `store`) or — fault injection: `failIn = some k` lets the
  next `k` writes execute and makes the one after them return an error without executing. `failIn = none`: no fault.
  That each write primitive is ONE atomic step with exactly these two behaviours is no longer an assumption: it is proved
  of the regenerated repository / SQL write path for every fault schedule of the transactional monad BHS/Model/TxM.lean
  (Props/RepoWritesGen.lean `RepoM_writes_simulated`; RepoM's one fault point per write = the calls begin / exec / commit).
-/
import BHS.Model.Chain

namespace BHS.Chain

/-- what makes the Go process panic -/
inductive Fault where
  | nilDeref
  | indexOutOfRange
  | unlocked          -- a repository call outside the critical section of addMutex (not a Go panic: a broken discipline)
  | deadlock          -- Lock of a mutex this goroutine already holds
deriving DecidableEq, Repr

/-- the `error` values `Chains.Add` can see or produce -/
inductive Err where
  | notFound                               -- bhserrors.ErrHeaderNotFound (sql.HeadersDb.GetHeaderByHash wraps every error in it)
  | noRow (what : String)                  -- "could not find height", "could not find tip"
  | storage                                -- an injected storage failure of a write
  | code (c : String)                      -- AddBlockErrorCode.error()
  | causedBy (c : String) (cause : Err)    -- AddBlockErrorCode.causedBy(&cause) = errors.Wrap(cause, c)
deriving DecidableEq, Repr

/-- `errors.Is(e, bhserrors.ErrHeaderNotFound)`: errors.Wrap chains are searched -/
def Err.isNotFound : Err → Bool
  | .notFound => true
  | .causedBy _ e => e.isNotFound
  | _ => false

/-- `AddBlockErrorCode.Is(err)` = the code occurs in the error text -/
def Err.has (c : String) : Err → Bool
  | .code d => d == c
  | .causedBy d e => d == c || e.has c
  | _ => false

/-- `AddBlockErrorCode.causedBy(&err)`: pkg/errors.Wrap of a nil error is nil -/
def causedBy (c : String) (cause : Option Err) : Option Err := cause.map (Err.causedBy c)

/-- `errors.Is(err, bhserrors.ErrHeaderNotFound)` -/
def isNotFound (e : Option Err) : Bool := match e with
  | some e => e.isNotFound
  | none => false

/-- (*big.Int).Cmp -/
def bigCmp (a b : Nat) : Int := if a < b then -1 else if a = b then 0 else 1

/-- (*big.Int).Sign -/
def bigSign (a : Nat) : Int := if a = 0 then 0 else 1

structure RState (H : Type) where
  store : Store H
  /-- the write transactions executed so far, in order -/
  writes : List (Write H) := []
  /-- fault injection: `some k` = the next k writes execute, the one after returns an error and is not executed -/
  failIn : Option Nat := none
  /-- cs.addMutex is held by this run -/
  locked : Bool := false

abbrev RepoM (H : Type) := StateT (RState H) (Except Fault)

variable {H : Type} [DecidableEq H]

/-- dereference of a Go pointer -/
def deref {α : Type} : Option α → RepoM H α
  | some a => pure a
  | none => throw .nilDeref

/-- `xs[i]` -/
def index {α : Type} (xs : List α) (i : Nat) : RepoM H α :=
  match xs[i]? with
  | some a => pure a
  | none => throw .indexOutOfRange

/-- `xs[i] = v` -/
def setIndex {α : Type} (xs : List α) (i : Nat) (v : α) : RepoM H (List α) :=
  if i < xs.length then pure (xs.set i v) else throw .indexOutOfRange

/-- cs.addMutex.Lock() -/
def lockMutex : RepoM H Unit := fun st =>
  if st.locked then .error .deadlock else .ok ((), { st with locked := true })

/-- cs.addMutex.Unlock() (not deferred) -/
def unlockMutex : RepoM H Unit := fun st => .ok ((), { st with locked := false })

/-- a read of the store -/
def readStore {α : Type} (f : Store H → α) : RepoM H α := fun st =>
  if st.locked then .ok (f st.store, st) else .error .unlocked

/-- one write transaction -/
def writeStore (w : Write H) : RepoM H (Option Err) := fun st =>
  if st.locked then
    match st.failIn with
    | some 0 => .ok (some .storage, { st with failIn := none })
    | some (k + 1) => .ok (none, { st with store := applyWrite st.store w, writes := st.writes ++ [w], failIn := some k })
    | none => .ok (none, { st with store := applyWrite st.store w, writes := st.writes ++ [w] })
  else .error .unlocked

/-! ### repository.Headers — one primitive per method used by chain_service.go -/

/-- GetHeaderByHash: `Chain.byHash`; `(nil, ErrHeaderNotFound)` when absent -/
def getHeaderByHash (h : H) : RepoM H (Option (Row H) × Option Err) :=
  readStore fun s => match byHash s h with
    | some r => (some r, none)
    | none => (none, some .notFound)

/-- GetHeaderByHeight: the repository passes LONGEST_CHAIN to sqlHeaderByHeight: `Chain.lcAtHeight` -/
def getHeaderByHeight (ht : Nat) : RepoM H (Option (Row H) × Option Err) :=
  readStore fun s => match lcAtHeight s ht with
    | some r => (some r, none)
    | none => (none, some (.noRow "could not find height"))

/-- GetTip: `Chain.getTip`; `(nil, "could not find tip")` when the select returns no row -/
def getTip' : RepoM H (Option (Row H) × Option Err) :=
  readStore fun s => match getTip s with
    | some r => (some r, none)
    | none => (none, some (.noRow "could not find tip"))

/-- GetStaleChainHeadersBackFrom: `Chain.staleBackFrom` -/
def getStaleChainHeadersBackFrom (h : H) : RepoM H (List (Option (Row H)) × Option Err) :=
  readStore fun s => ((staleBackFrom s h).map some, none)

/-- GetLongestChainHeadersFromHeight: `Chain.lcFromHeight` -/
def getLongestChainHeadersFromHeight (ht : Nat) : RepoM H (List (Option (Row H)) × Option Err) :=
  readStore fun s => ((lcFromHeight s ht).map some, none)

/-- UpdateState: one `Write.setState` transaction -/
def updateState (hs : List H) (st : St) : RepoM H (Option Err) := writeStore (.setState hs st)

/-- AddHeaderToDatabase: one `Write.insert` transaction; the rowid is the insertion position -/
def addHeaderToDatabase (r : Row H) : RepoM H (Option Err) := do
  let s ← readStore id
  writeStore (.insert { r with id := s.length })

/-- domains.NewRejectedBlockHeader: a header value labelled REJECTED. The row model has no such label (no REJECTED row
    is ever stored) and the value is only ever returned next to the BlockRejected error, where both callers of
    `Chains.Add` look at the error only (Gen.addCallers pins them): modelled as "no header". -/
def rejectedHeader (_ : H) : Option (Row H) := none

/-! ### what a caller of `Chains.Add` observes -/

/-- the answer `(header, error)` of `Chains.Add` in the vocabulary of the hand model; `none` = an answer the
    fault-free hand model has no constructor for (ChainUpdateFail, HeaderSaveFail, `(nil, nil)`).
    The stored row is reported with the rowid the insert gave it (insertion position in `s`). -/
def outcomeOf (s : Store H) : Option (Row H) × Option Err → Option (Outcome H)
  | (some h, none) => some (.stored { h with id := s.length })
  | (none, none) => none
  | (_, some e) =>
    if e.has "HeaderAlreadyExists" then some .duplicate
    else if e.has "BlockRejected" then some .rejected
    else if e.has "HeaderCreationFail" then some .creationFail
    else none

/-- everything observable of one run of (a translation of) `Chains.Add` on store `s`:
    the answer, the write transactions executed in order, the final store; or the panic -/
def observe (s : Store H) (failIn : Option Nat) (m : RepoM H (Option (Row H) × Option Err)) :
    Except Fault (Option (Outcome H) × List (Write H) × Store H) :=
  match m.run { store := s, writes := [], failIn := failIn, locked := false } with
  | .ok (ret, st) => .ok (outcomeOf s ret, st.writes, st.store)
  | .error f => .error f

end BHS.Chain
